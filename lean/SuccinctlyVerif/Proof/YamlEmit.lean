/-
Proof/YamlEmit — helper lemmas for Props/C15: the quoted readers invert the emitter's escapers,
and strings the (fixed) decision functions leave plain are plain-safe.
-/
import SuccinctlyVerif.Model.YamlEmit
namespace SV.Yaml.Emit
open SV.Yaml

/-! ## double quotes -/

theorem hexVal_hexNibble : ∀ k : Fin 16, hexVal? (hexNibble k.val) = some k.val := by
  decide +kernel

theorem isBreak_false {c : Char} (h1 : c ≠ '\n') (h2 : c ≠ '\r') : isBreak c = false := by
  simp [isBreak, h1, h2]

theorem consFst_consFst (c : Char) (r : Option (List Char × List Char)) :
    consFst c r = r.map (fun p => (c :: p.1, p.2)) := rfl

/-- `\xHH` with the two lower-case nibbles of a code point below 256 reads as that code point. -/
theorem readDouble_hex2 (n : Nat) (hn : n < 256) (rest : List Char) :
    readDoubleSt .text ('\\' :: 'x' :: hexNibble (n / 16) :: hexNibble (n % 16) :: rest) =
      consFst (Char.ofNat n) (readDoubleSt .text rest) := by
  have h1 := hexVal_hexNibble ⟨n / 16, by omega⟩
  have h2 := hexVal_hexNibble ⟨n % 16, by omega⟩
  simp only at h1 h2
  have e : 0 * 16 + n / 16 = n / 16 := by omega
  have e2 : (n / 16) * 16 + n % 16 = n := by omega
  simp [readDoubleSt, isBreak, h1, h2, e2]

/-- Reading the escape of one character gives that character back. -/
theorem readDouble_dqEscapeChar (c : Char) (rest : List Char) :
    readDoubleSt .text (dqEscapeChar c ++ rest) = consFst c (readDoubleSt .text rest) := by
  unfold dqEscapeChar
  by_cases h1 : c = '"'
  · subst h1; simp [readDoubleSt, isBreak, escChar]
  by_cases h2 : c = '\\'
  · subst h2; simp [readDoubleSt, isBreak, escChar]
  by_cases h3 : c = '\n'
  · subst h3; simp [readDoubleSt, isBreak, escChar]
  by_cases h4 : c = '\r'
  · subst h4; simp [readDoubleSt, isBreak, escChar]
  by_cases h5 : c = '\t'
  · subst h5; simp [readDoubleSt, isBreak, escChar]
  by_cases h6 : isAsciiControl c = true
  · have hlt : c.toNat < 256 := by
      simp [isAsciiControl] at h6; omega
    simp only [h1, h2, h3, h4, h5, h6, if_false, if_true, List.cons_append, List.nil_append]
    rw [readDouble_hex2 _ hlt, Char.ofNat_toNat]
  · simp only [h1, h2, h3, h4, h5, h6, if_false, List.cons_append, List.nil_append]
    simp [readDoubleSt, h1, h2, isBreak_false h3 h4]

theorem consFst_map_append (c : Char) (s : List Char) (r : Option (List Char × List Char)) :
    consFst c (r.map (fun p => (s ++ p.1, p.2))) = r.map (fun p => (c :: s ++ p.1, p.2)) := by
  cases r <;> simp [consFst]

theorem readDouble_flatMap (esc : Char → List Char)
    (hesc : ∀ c rest, readDoubleSt .text (esc c ++ rest) = consFst c (readDoubleSt .text rest))
    (s rest : List Char) :
    readDoubleSt .text (s.flatMap esc ++ rest) =
      (readDoubleSt .text rest).map (fun p => (s ++ p.1, p.2)) := by
  induction s with
  | nil => cases h : readDoubleSt .text rest <;> simp [h]
  | cons c s ih =>
    simp only [List.flatMap_cons, List.append_assoc]
    rw [hesc, ih, consFst_map_append]

theorem readDouble_closing : readDoubleSt .text ['"'] = some ([], []) := by
  simp [readDoubleSt]

/-- `yaml_double_quote_escaped` read back. -/
theorem readDouble_body (s : List Char) :
    readDouble (s.flatMap dqEscapeChar ++ ['"']) = some (s, []) := by
  unfold readDouble
  rw [readDouble_flatMap dqEscapeChar readDouble_dqEscapeChar, readDouble_closing]; simp

/-- `stream_yaml_double_quoted`'s escape of one character reads back. -/
theorem readDouble_streamDqEscapeChar (c : Char) (rest : List Char) :
    readDoubleSt .text (streamDqEscapeChar c ++ rest) = consFst c (readDoubleSt .text rest) := by
  unfold streamDqEscapeChar
  by_cases h1 : c = '"'
  · subst h1; simp [readDoubleSt, isBreak, escChar]
  by_cases h2 : c = '\\'
  · subst h2; simp [readDoubleSt, isBreak, escChar]
  by_cases h3 : c = '\n'
  · subst h3; simp [readDoubleSt, isBreak, escChar]
  by_cases h4 : c = '\r'
  · subst h4; simp [readDoubleSt, isBreak, escChar]
  by_cases h5 : c = '\t'
  · subst h5; simp [readDoubleSt, isBreak, escChar]
  by_cases h6 : c.toNat < 0x20
  · have hlt : c.toNat < 256 := by omega
    simp only [h1, h2, h3, h4, h5, h6, if_false, if_true, decide_true, List.cons_append, List.nil_append]
    rw [readDouble_hex2 _ hlt, Char.ofNat_toNat]
  · simp only [h1, h2, h3, h4, h5, h6, if_false, decide_false, List.cons_append, List.nil_append]
    simp [readDoubleSt, h1, h2, isBreak_false h3 h4]

theorem readDouble_streamBody (s : List Char) :
    readDouble (s.flatMap streamDqEscapeChar ++ ['"']) = some (s, []) := by
  unfold readDouble
  rw [readDouble_flatMap streamDqEscapeChar readDouble_streamDqEscapeChar, readDouble_closing]; simp

/-- The pre-fix key escaper (no `\\xNN` arm) also reads back — the reader is lenient about raw
control characters. -/
theorem readDouble_keyEscapeCharV0 (c : Char) (rest : List Char) :
    readDoubleSt .text (keyEscapeCharV0 c ++ rest) = consFst c (readDoubleSt .text rest) := by
  unfold keyEscapeCharV0
  by_cases h1 : c = '"'
  · subst h1; simp [readDoubleSt, isBreak, escChar]
  by_cases h2 : c = '\\'
  · subst h2; simp [readDoubleSt, isBreak, escChar]
  by_cases h3 : c = '\n'
  · subst h3; simp [readDoubleSt, isBreak, escChar]
  by_cases h4 : c = '\r'
  · subst h4; simp [readDoubleSt, isBreak, escChar]
  by_cases h5 : c = '\t'
  · subst h5; simp [readDoubleSt, isBreak, escChar]
  · simp only [h1, h2, h3, h4, h5, if_false, List.cons_append, List.nil_append]
    simp [readDoubleSt, h1, h2, isBreak_false h3 h4]

/-! ## single quotes -/

theorem readSingle_sqEscapeChar (c : Char) (rest : List Char) (hb : isBreak c = false) :
    readSingleSt false (sqEscapeChar c ++ rest) = consFst c (readSingleSt false rest) := by
  unfold sqEscapeChar
  by_cases h : c = '\''
  · subst h; simp [readSingleSt]
  · simp [readSingleSt, h, hb]

theorem readSingle_flatMap (s rest : List Char) (hb : ∀ c ∈ s, isBreak c = false) :
    readSingleSt false (s.flatMap sqEscapeChar ++ rest) =
      (readSingleSt false rest).map (fun p => (s ++ p.1, p.2)) := by
  induction s with
  | nil => cases h : readSingleSt false rest <;> simp [h]
  | cons c s ih =>
    simp only [List.flatMap_cons, List.append_assoc]
    rw [readSingle_sqEscapeChar c _ (hb c (by simp)), ih (fun x hx => hb x (by simp [hx])),
      consFst_map_append]

/-- `yaml_single_quote_escaped` read back, for a string without line breaks. -/
theorem readSingle_body (s : List Char) (hb : ∀ c ∈ s, isBreak c = false) :
    readSingle (s.flatMap sqEscapeChar ++ ['\'']) = some (s, []) := by
  unfold readSingle
  rw [readSingle_flatMap s _ hb]; simp [readSingleSt]

theorem isBreak_false_of_not_asciiControl {c : Char} (h : isAsciiControl c = false) :
    isBreak c = false := by
  by_cases h1 : c = '\n'
  · subst h1; simp [isAsciiControl] at h
  by_cases h2 : c = '\r'
  · subst h2; simp [isAsciiControl] at h
  exact isBreak_false h1 h2

/-! ## plain scalars -/

/-- "No line break and no tab". -/
def clean (c : Char) : Prop := c ≠ '\n' ∧ c ≠ '\r' ∧ c ≠ '\t'

theorem nsChar_of_clean {c : Char} (h : clean c) (hs : c ≠ ' ') : nsChar c = true := by
  obtain ⟨h1, h2, h3⟩ := h
  simp [nsChar, nbChar, isBreak, isWhite, h1, h2, h3, hs]

theorem contains2_cons_cons (a b x y : Char) (rest : List Char) :
    contains2 a b (x :: y :: rest) = ((x = a && y = b) || contains2 a b (y :: rest)) := by
  simp [contains2]

theorem contains2_false_of_not_mem_left {a b : Char} : ∀ (l : List Char), a ∉ l → contains2 a b l = false
  | [], _ => by simp [contains2]
  | [_], _ => by simp [contains2]
  | x :: y :: rest, h => by
    rw [contains2_cons_cons]
    have hx : x ≠ a := fun e => h (by simp [e])
    have ih := contains2_false_of_not_mem_left (a := a) (b := b) (y :: rest) (fun hm => h (by simp [List.mem_cons] at hm ⊢; right; exact hm))
    simp [hx, ih]

theorem contains2_false_of_not_mem_right {a b : Char} : ∀ (l : List Char), b ∉ l → contains2 a b l = false
  | [], _ => by simp [contains2]
  | [_], _ => by simp [contains2]
  | x :: y :: rest, h => by
    rw [contains2_cons_cons]
    have hy : y ≠ b := fun e => h (by simp [e])
    have ih := contains2_false_of_not_mem_right (a := a) (b := b) (y :: rest) (fun hm => h (by simp [List.mem_cons] at hm ⊢; right; exact hm))
    simp [hy, ih]

/-- The in-line part of a plain scalar: enough conditions phrased the way the Rust predicates are. -/
theorem plainInLine_of (ctx : Ctx) : ∀ (rest : List Char) (p : Char),
    (∀ x ∈ rest, clean x) → clean p →
    contains2 ':' ' ' (p :: rest) = false → contains2 ' ' '#' (p :: rest) = false →
    (p :: rest).getLast? ≠ some ':' →
    (ctx.isFlow = true → ∀ x ∈ rest, isFlowIndicator x = false) →
    plainInLine ctx p rest = true
  | [], _, _, _, _, _, _, _ => by simp [plainInLine]
  | x :: rest, p, hcl, hp, hcs, hsh, hend, hfl => by
    rw [contains2_cons_cons] at hcs hsh
    simp only [Bool.or_eq_false_iff] at hcs hsh
    have hx : clean x := hcl x (by simp)
    have ih := plainInLine_of ctx rest x (fun y hy => hcl y (by simp [hy])) hx hcs.2 hsh.2
      (by rw [List.getLast?_cons_cons] at hend; exact hend)
      (fun hf y hy => hfl hf y (by simp [hy]))
    have hflx : ctx.isFlow = true → isFlowIndicator x = false := fun hf => hfl hf x (by simp)
    simp only [plainInLine, ih, Bool.and_true]
    by_cases hsp : x = ' '
    · simp [isWhite, hsp]
    have hns : nsChar x = true := nsChar_of_clean hx hsp
    have hsafe : nsPlainSafe ctx x = true := by
      cases hf : ctx.isFlow
      · simp [nsPlainSafe, hns, hf]
      · simp [nsPlainSafe, hns, hf, hflx hf]
    by_cases hc : x = ':'
    · subst hc
      cases rest with
      | nil => simp at hend
      | cons n rest' =>
        have hn : clean n := hcl n (by simp)
        have hnsp : n ≠ ' ' := by
          rw [contains2_cons_cons] at hcs
          have := hcs.2
          simp at this
          exact this.1
        have hnns : nsChar n = true := nsChar_of_clean hn hnsp
        have hnsafe : nsPlainSafe ctx n = true := by
          cases hf : ctx.isFlow
          · simp [nsPlainSafe, hnns, hf]
          · simp [nsPlainSafe, hnns, hf, hfl hf n (by simp)]
        simp [nsPlainChar, hnsafe]
    by_cases hh : x = '#'
    · subst hh
      have hpsp : p ≠ ' ' := by
        have := hsh.1
        simp at this
        exact this
      simp [nsPlainChar, nsChar_of_clean hp hpsp]
    · simp [nsPlainChar, hc, hh, hsafe]

theorem nsPlainSafe_of (ctx : Ctx) {n : Char} (hn : clean n) (hsp : n ≠ ' ')
    (hfl : ctx.isFlow = true → isFlowIndicator n = false) : nsPlainSafe ctx n = true := by
  cases hf : ctx.isFlow
  · simp [nsPlainSafe, nsChar_of_clean hn hsp, hf]
  · simp [nsPlainSafe, nsChar_of_clean hn hsp, hf, hfl hf]

theorem nsPlainFirst_of (ctx : Ctx) (c : Char) (rest : List Char) (hc : clean c) (hsp : c ≠ ' ')
    (hind : isIndicator c = true → (c = '-' ∨ c = '?' ∨ c = ':'))
    (hnext : (c = '-' ∨ c = '?' ∨ c = ':') → ∃ n rest', rest = n :: rest' ∧ nsPlainSafe ctx n = true) :
    nsPlainFirst ctx c rest.head? = true := by
  by_cases hi : isIndicator c = true
  · have h3 := hind hi
    obtain ⟨n, rest', hr, hn⟩ := hnext h3
    subst hr
    have : (c = '?' || c = ':' || c = '-') = true := by
      rcases h3 with h | h | h <;> simp [h]
    simp [nsPlainFirst, this, hn]
  · simp [nsPlainFirst, nsChar_of_clean hc hsp, hi]

theorem last_not_white (s : List Char) (hne : s ≠ []) (hcl : ∀ x ∈ s, clean x)
    (hl : s.getLast? ≠ some ' ') :
    lastIsWhite s = false := by
  unfold lastIsWhite
  cases h : s.getLast? with
  | none => exact absurd (List.getLast?_eq_none_iff.mp h) hne
  | some l =>
    obtain ⟨ys, hys⟩ := List.getLast?_eq_some_iff.mp h
    have hm : l ∈ s := by rw [hys]; simp
    have hc := hcl l hm
    have hsp : l ≠ ' ' := fun e => hl (by rw [h, e])
    simp [isWhite, hsp, hc.2.2]

theorem not_mem_of_contains_false {l : List Char} {c : Char} (h : l.contains c = false) : c ∉ l := by
  simpa using h

/-- One-line plain safety from the facts both (fixed) decision functions establish. -/
theorem plainOneLine_of (ctx : Ctx) (c : Char) (rest : List Char)
    (hcl : ∀ x ∈ c :: rest, clean x) (hsp : c ≠ ' ')
    (hind : isIndicator c = true → (c = '-' ∨ c = '?' ∨ c = ':'))
    (hnext : (c = '-' ∨ c = '?' ∨ c = ':') → ∃ n rest', rest = n :: rest' ∧ n ≠ ' ')
    (hcs : contains2 ':' ' ' (c :: rest) = false) (hsh : contains2 ' ' '#' (c :: rest) = false)
    (hend : (c :: rest).getLast? ≠ some ':') (hlast : (c :: rest).getLast? ≠ some ' ')
    (hfl : ctx.isFlow = true → ∀ x ∈ rest, isFlowIndicator x = false) :
    plainOneLine ctx (c :: rest) = true := by
  have hc : clean c := hcl c (by simp)
  have hrest : ∀ x ∈ rest, clean x := fun x hx => hcl x (by simp [hx])
  have h1 : nsPlainFirst ctx c rest.head? = true := by
    apply nsPlainFirst_of ctx c rest hc hsp hind
    intro h3
    obtain ⟨n, rest', hr, hn⟩ := hnext h3
    refine ⟨n, rest', hr, nsPlainSafe_of ctx (hrest n (by simp [hr])) hn (fun hf => hfl hf n (by simp [hr]))⟩
  have h2 := plainInLine_of ctx rest c hrest hc hcs hsh hend hfl
  have h3 := last_not_white (c :: rest) (by simp) hcl hlast
  simp [plainOneLine, h1, h2, h3]

theorem startsAloneOrSpace_false {c x : Char} {rest : List Char}
    (h : startsAloneOrSpace (x :: rest) c = false) (hx : x = c) :
    ∃ n rest', rest = n :: rest' ∧ n ≠ ' ' := by
  cases rest with
  | nil => simp [startsAloneOrSpace, hx] at h
  | cons n rest' =>
    refine ⟨n, rest', rfl, ?_⟩
    intro hn
    simp [startsAloneOrSpace, hx, hn] at h

theorem parseFloatRs_cases (s : List Char) :
    parseFloatRs s = .str s ∨ (parseFloatRs s).isStr = false := by
  unfold parseFloatRs
  simp only []
  split <;> simp [Scalar.isStr]

theorem parseIntOrFloatRs_cases (s : List Char) :
    parseIntOrFloatRs s = .str s ∨ (parseIntOrFloatRs s).isStr = false := by
  unfold parseIntOrFloatRs
  split
  · simp [Scalar.isStr]
  · exact parseFloatRs_cases s

theorem parseRadixRs_cases (s digits : List Char) (radix : Nat) :
    parseRadixRs s digits radix = .str s ∨ (parseRadixRs s digits radix).isStr = false := by
  unfold parseRadixRs
  cases digits with
  | nil => simp
  | cons c ds =>
    simp only []
    by_cases h1 : (c = '+' || c = '-') = true
    · simp [h1]
    · by_cases h2 : (c :: ds).all (isRadixDigit radix) = true
      · by_cases h3 : natOfDigits radix (c :: ds) < 2 ^ 63
        · simp only [h1, h2, h3, if_true]; simp [Scalar.isStr]
        · simp only [h1, h2, h3, if_true, if_false]; simp
      · simp only [h1, h2, if_false]; simp

theorem kw_cases (s : List Char) (m : Bool) (r : Scalar) (hr : r.isStr = false) :
    (if m = true then r else Scalar.str s) = .str s ∨ (if m = true then r else Scalar.str s).isStr = false := by
  cases m <;> simp [hr]

theorem resolvePlainRs_cases (s : List Char) :
    resolvePlainRs s = .str s ∨ (resolvePlainRs s).isStr = false := by
  cases s with
  | nil => simp [resolvePlainRs, Scalar.isStr]
  | cons first rest =>
    unfold resolvePlainRs
    simp only []
    by_cases h1 : first = 'n'
    · simp only [h1, if_true]; exact kw_cases _ _ _ rfl
    simp only [h1, if_false]
    by_cases h2 : first = 'N'
    · simp only [h2, if_true]; exact kw_cases _ _ _ rfl
    simp only [h2, if_false]
    by_cases h3 : first = '~'
    · simp only [h3, if_true]; exact kw_cases _ _ _ rfl
    simp only [h3, if_false]
    by_cases h4 : first = 't'
    · simp only [h4, if_true]; exact kw_cases _ _ _ rfl
    simp only [h4, if_false]
    by_cases h5 : first = 'T'
    · simp only [h5, if_true]; exact kw_cases _ _ _ rfl
    simp only [h5, if_false]
    by_cases h6 : first = 'f'
    · simp only [h6, if_true]; exact kw_cases _ _ _ rfl
    simp only [h6, if_false]
    by_cases h7 : first = 'F'
    · simp only [h7, if_true]; exact kw_cases _ _ _ rfl
    simp only [h7, if_false]
    by_cases h8 : first = '.'
    · simp only [h8, if_true]
      by_cases ha : isInfWord ('.' :: rest) = true
      · simp [ha, Scalar.isStr]
      by_cases hb : isNanWord ('.' :: rest) = true
      · simp [ha, hb, Scalar.isStr]
      simp only [ha, hb, if_false]; exact parseFloatRs_cases _
    simp only [h8, if_false]
    by_cases h9 : (first = '+' || first = '-') = true
    · simp only [h9, if_true]
      cases rest with
      | nil => simp
      | cons c2 r2 =>
        simp only [List.drop_succ_cons, List.drop_zero]
        by_cases hc : c2 = '.'
        · simp only [hc, if_true]
          by_cases hi : isInfWord ('.' :: r2) = true
          · simp [hi, Scalar.isStr]
          · simp only [hi, if_false]; exact parseFloatRs_cases _
        simp only [hc, if_false]
        by_cases hd : isDigit c2 = true
        · simp only [hd, if_true]; exact parseIntOrFloatRs_cases _
        · simp [hd]
    rw [if_neg h9]
    by_cases h10 : isDigit first = true
    · rw [if_pos h10]
      split
      · exact parseRadixRs_cases _ _ _
      · exact parseRadixRs_cases _ _ _
      · exact parseIntOrFloatRs_cases _
    · rw [if_neg h10]; simp

/-- Every `.str` answer of `resolve_plain` carries the text itself. -/
theorem resolvePlainRs_str {s : List Char} (h : (resolvePlainRs s).isStr = true) :
    resolvePlainRs s = .str s := by
  rcases resolvePlainRs_cases s with h1 | h1
  · exact h1
  · rw [h1] at h; cases h

/-! ## the fixed `yaml_quote_string` -/

structure ValueFacts (inFlow : Bool) (s : List Char) : Prop where
  sw : ∀ x ∈ ['*', '&', '!', '%', '@', '`', '|', '>', '[', '{', '"', '\'', '#', ' ', ',', ']', '}'],
    startsWith s x = false
  alone : startsAloneOrSpace s '-' = false ∧ startsAloneOrSpace s '?' = false ∧
    startsAloneOrSpace s ':' = false
  cs : contains2 ':' ' ' s = false
  sh : contains2 ' ' '#' s = false
  nl : s.contains '\n' = false
  cr : s.contains '\r' = false
  tab : s.contains '\t' = false
  endc : endsWith s ':' = false
  ends : endsWith s ' ' = false
  res : (resolvePlainRs s).isStr = true
  flow : inFlow = true → s.any isFlowIndicator = false

theorem valueFacts_of (inFlow : Bool) (s : List Char) (h : needsQuotingValueV1 inFlow s = false) :
    ValueFacts inFlow s := by
  simp only [needsQuotingValueV1, needsQuotingValueV0, Bool.or_eq_false_iff] at h
  constructor
  · intro x hx
    simp only [List.mem_cons, List.not_mem_nil, or_false] at hx
    rcases hx with e | e | e | e | e | e | e | e | e | e | e | e | e | e | e | e | e <;> subst e <;> simp only [h]
  · simp only [h, and_self]
  · simp only [h, and_self]
  · simp only [h, and_self]
  · simp only [h, and_self]
  · simp only [h, and_self]
  · simp only [h, and_self]
  · simp only [h, and_self]
  · simp only [h, and_self]
  · have := h.1.1.1.1.1.2; simpa using this
  · intro hf; have := h.2; simpa [hf] using this

theorem clean_of_contains {s : List Char} (hnl : s.contains '\n' = false)
    (hcr : s.contains '\r' = false) (htab : s.contains '\t' = false) : ∀ y ∈ s, clean y := by
  intro y hy
  refine ⟨fun e => ?_, fun e => ?_, fun e => ?_⟩
  · exact not_mem_of_contains_false hnl (e ▸ hy)
  · exact not_mem_of_contains_false hcr (e ▸ hy)
  · exact not_mem_of_contains_false htab (e ▸ hy)

def valueCtx (inFlow : Bool) : Ctx := if inFlow then .flowValue else .blockValue

theorem value_plain_of_facts (inFlow : Bool) (c : Char) (rest : List Char)
    (f : ValueFacts inFlow (c :: rest)) :
    plainSafe (valueCtx inFlow) (c :: rest) = true ∧
    resolvePlainRs (c :: rest) = .str (c :: rest) ∧ c ≠ '"' ∧ c ≠ '\'' := by
  have hsw : ∀ x ∈ ['*', '&', '!', '%', '@', '`', '|', '>', '[', '{', '"', '\'', '#', ' ', ',', ']', '}'],
      c ≠ x := by
    intro x hx e
    have := f.sw x hx
    simp [startsWith, e] at this
  have hcl := clean_of_contains f.nl f.cr f.tab
  have hind : isIndicator c = true → (c = '-' ∨ c = '?' ∨ c = ':') := by
    intro hi
    have hi' : (c = '-' ∨ c = '?') ∨ c = ':' := by
     simpa [isIndicator, hsw '*' (by simp), hsw '&' (by simp), hsw '!' (by simp), hsw '%' (by simp),
      hsw '@' (by simp), hsw '`' (by simp), hsw '|' (by simp), hsw '>' (by simp), hsw '[' (by simp),
      hsw '{' (by simp), hsw '"' (by simp), hsw '\'' (by simp), hsw '#' (by simp), hsw ',' (by simp),
      hsw ']' (by simp), hsw '}' (by simp)] using hi
    rcases hi' with (h | h) | h
    · exact Or.inl h
    · exact Or.inr (Or.inl h)
    · exact Or.inr (Or.inr h)
  have hnext : (c = '-' ∨ c = '?' ∨ c = ':') → ∃ n rest', rest = n :: rest' ∧ n ≠ ' ' := by
    rintro (h | h | h)
    · exact startsAloneOrSpace_false f.alone.1 h
    · exact startsAloneOrSpace_false f.alone.2.1 h
    · exact startsAloneOrSpace_false f.alone.2.2 h
  have hend : (c :: rest).getLast? ≠ some ':' := by simpa [endsWith] using f.endc
  have hlast : (c :: rest).getLast? ≠ some ' ' := by simpa [endsWith] using f.ends
  have hfl : (valueCtx inFlow).isFlow = true → ∀ x ∈ rest, isFlowIndicator x = false := by
    cases inFlow
    · intro h; simp [valueCtx, Ctx.isFlow] at h
    · intro _ x hx
      have := f.flow rfl
      rw [List.any_eq_false] at this
      have := this x (by simp [hx])
      simpa using this
  have hp := plainOneLine_of (valueCtx inFlow) c rest hcl (hsw ' ' (by simp)) hind hnext f.cs f.sh hend hlast hfl
  refine ⟨?_, resolvePlainRs_str f.res, hsw '"' (by simp), hsw '\'' (by simp)⟩
  cases inFlow <;> simp [plainSafe, valueCtx] at hp ⊢ <;> exact hp

/-! ## the fixed `yaml_quote_key` -/

structure KeyFacts (inFlow : Bool) (s : List Char) : Prop where
  sw : ∀ x ∈ ['-', '?', '[', '{', '"', '\'', '*', '&', '!', '|', '>', '%', '@', '`', ',', ']', '}', ' '],
    startsWith s x = false
  colon : s.contains ':' = false
  hash : s.contains '#' = false
  nl : s.contains '\n' = false
  cr : s.contains '\r' = false
  tab : s.contains '\t' = false
  ends : endsWith s ' ' = false
  merge : s ≠ "<<".toList
  dots : startsWithDotsSpace s = false
  flow : inFlow = true → s.any isFlowIndicator = false

theorem keyFacts_of (inFlow : Bool) (s : List Char) (h : needsQuotingKeyV1 inFlow s = false) :
    KeyFacts inFlow s := by
  simp only [needsQuotingKeyV1, needsQuotingKeyV0, Bool.or_eq_false_iff] at h
  constructor
  · intro x hx
    simp only [List.mem_cons, List.not_mem_nil, or_false] at hx
    rcases hx with e | e | e | e | e | e | e | e | e | e | e | e | e | e | e | e | e | e <;> subst e <;> simp only [h]
  · simp only [h]
  · simp only [h]
  · simp only [h]
  · simp only [h]
  · simp only [h]
  · simp only [h]
  · have := h.1.1.2; simpa using this
  · simp only [h]
  · intro hf; have := h.2; simpa [hf] using this

def keyCtx (inFlow top : Bool) : Ctx := if inFlow then .flowKey else .blockKey top

theorem key_plain_of_facts (inFlow top : Bool) (c : Char) (rest : List Char)
    (f : KeyFacts inFlow (c :: rest)) :
    plainSafe (keyCtx inFlow top) (c :: rest) = true ∧ c ≠ '"' ∧ c ≠ '\'' := by
  have hsw : ∀ x ∈ ['-', '?', '[', '{', '"', '\'', '*', '&', '!', '|', '>', '%', '@', '`', ',', ']', '}', ' '],
      c ≠ x := by
    intro x hx e
    have := f.sw x hx
    simp [startsWith, e] at this
  have hcl := clean_of_contains f.nl f.cr f.tab
  have hcol : ':' ∉ c :: rest := not_mem_of_contains_false f.colon
  have hhash : '#' ∉ c :: rest := not_mem_of_contains_false f.hash
  have hc1 : c ≠ ':' := fun e => hcol (by simp [e])
  have hc2 : c ≠ '#' := fun e => hhash (by simp [e])
  have hind : isIndicator c = true → (c = '-' ∨ c = '?' ∨ c = ':') := by
    intro hi
    exfalso
    simp [isIndicator, hc1, hc2, hsw '-' (by simp), hsw '?' (by simp), hsw '*' (by simp), hsw '&' (by simp),
      hsw '!' (by simp), hsw '%' (by simp),
      hsw '@' (by simp), hsw '`' (by simp), hsw '|' (by simp), hsw '>' (by simp), hsw '[' (by simp),
      hsw '{' (by simp), hsw '"' (by simp), hsw '\'' (by simp), hsw ',' (by simp),
      hsw ']' (by simp), hsw '}' (by simp)] at hi
  have hnext : (c = '-' ∨ c = '?' ∨ c = ':') → ∃ n rest', rest = n :: rest' ∧ n ≠ ' ' := by
    rintro (h | h | h)
    · exact absurd h (hsw '-' (by simp))
    · exact absurd h (hsw '?' (by simp))
    · exact absurd h hc1
  have hend : (c :: rest).getLast? ≠ some ':' := by
    intro h
    obtain ⟨ys, hys⟩ := List.getLast?_eq_some_iff.mp h
    exact hcol (by rw [hys]; simp)
  have hlast : (c :: rest).getLast? ≠ some ' ' := by simpa [endsWith] using f.ends
  have hfl : (keyCtx inFlow top).isFlow = true → ∀ x ∈ rest, isFlowIndicator x = false := by
    cases inFlow
    · intro h; simp [keyCtx, Ctx.isFlow] at h
    · intro _ x hx
      have := f.flow rfl
      rw [List.any_eq_false] at this
      have := this x (by simp [hx])
      simpa using this
  have hp := plainOneLine_of (keyCtx inFlow top) c rest hcl (hsw ' ' (by simp)) hind hnext
    (contains2_false_of_not_mem_left _ hcol) (contains2_false_of_not_mem_right _ hhash) hend hlast hfl
  refine ⟨?_, hsw '"' (by simp), hsw '\'' (by simp)⟩
  have hmark : startsWithDocMarker (c :: rest) = false := by
    match rest, f, hcl with
    | [], _, _ => simp [startsWithDocMarker]
    | [_], _, _ => simp [startsWithDocMarker]
    | [_, _], _, _ => simp [startsWithDocMarker]
    | b :: c3 :: d :: tl, f, hcl =>
      have hd : clean d := hcl d (by simp)
      have hdash : c ≠ '-' := by
        intro e
        have := f.sw '-' (by simp)
        simp [startsWith, e] at this
      by_cases hdots : c = '.' ∧ b = '.' ∧ c3 = '.'
      · obtain ⟨e1, e2, e3⟩ := hdots
        subst e1 e2 e3
        have hdsp : d ≠ ' ' := by
          intro e; subst e
          have := f.dots
          simp [startsWithDotsSpace] at this
        simp [startsWithDocMarker, isWhite, isBreak, hd.1, hd.2.1, hd.2.2, hdsp]
      · simp only [startsWithDocMarker]
        simp [hdash]
        intro e1 e2 e3
        exact absurd ⟨e1, e2, e3⟩ hdots
  have hpct : (c :: rest).head? ≠ some '%' := by simp [hsw '%' (by simp)]
  cases inFlow
  · cases top
    · simp [plainSafe, keyCtx] at hp ⊢; exact hp
    · simp [plainSafe, keyCtx, hmark] at hp ⊢; exact ⟨hp, hsw '%' (by simp)⟩
  · simp [plainSafe, keyCtx] at hp ⊢; exact hp

/-! ## the (fixed) streaming `needs_yaml_quoting` -/

theorem stream_plain_of_not_needs (c : Char) (rest : List Char)
    (h : needsYamlQuoting .v1 (c :: rest) = false) :
    plainSafe .blockValue (c :: rest) = true ∧ resolvePlainRs (c :: rest) = .str (c :: rest) ∧
      c ≠ '"' ∧ c ≠ '\'' := by
  by_cases h1 : streamFirstIndicator c = true
  · simp [needsYamlQuoting, h1] at h
  by_cases h2 : (c = ' ' || (c :: rest).getLast? = some ' ') = true
  · simp only [needsYamlQuoting, h1] at h; simp [h2] at h
  by_cases h3 : (resolvePlainRs (c :: rest)).isStr = true
  · have hany : (c :: rest).any (fun c => c.toNat < 0x20 || c = ':' || c = '#') = false := by
      simp only [needsYamlQuoting, h1, h2, if_false] at h
      revert h
      repeat' split
      all_goals simp
    rw [List.any_eq_false] at hany
    have hi : isIndicator c = false := by simpa [streamFirstIndicator] using h1
    have hcl : ∀ y ∈ c :: rest, clean y := by
      intro y hy
      have := hany y hy
      simp only [Bool.or_eq_true, decide_eq_true_eq, not_or] at this
      refine ⟨fun e => ?_, fun e => ?_, fun e => ?_⟩ <;> (subst e; simp at this)
    have hcol : ':' ∉ c :: rest := fun hm => by have := hany _ hm; simp at this
    have hhash : '#' ∉ c :: rest := fun hm => by have := hany _ hm; simp at this
    simp only [Bool.or_eq_true, decide_eq_true_eq, not_or] at h2
    have hend : (c :: rest).getLast? ≠ some ':' := by
      intro h
      obtain ⟨ys, hys⟩ := List.getLast?_eq_some_iff.mp h
      exact hcol (by rw [hys]; simp)
    have hp := plainOneLine_of .blockValue c rest hcl h2.1 (fun hh => by rw [hi] at hh; cases hh)
      (by
        rintro (e | e | e) <;> (subst e; simp [isIndicator] at hi))
      (contains2_false_of_not_mem_left _ hcol) (contains2_false_of_not_mem_right _ hhash) hend h2.2
      (fun hf => by simp [Ctx.isFlow] at hf)
    refine ⟨by simpa [plainSafe] using hp, resolvePlainRs_str h3, ?_, ?_⟩
    · intro e; subst e; simp [isIndicator] at hi
    · intro e; subst e; simp [isIndicator] at hi
  · exfalso
    simp only [needsYamlQuoting, h1, h2, if_false] at h
    revert h
    repeat' split
    all_goals simp_all

end SV.Yaml.Emit
