/-
Proof/YamlAnchor — the anchor-soundness pass keeps the table it tracks equal to what is printed.
-/
import SuccinctlyVerif.Model.YamlAnchor
namespace SV.Yaml.Anchor

theorem scan_noMarks (eqv : Forest → Forest → Bool) :
    ∀ (f : Forest) (t : Table), noMarks f = true → scan eqv f t = (f, t)
  | .nil, _, _ => rfl
  | .cons l m p ch rest, t, h => by
    simp only [noMarks, Bool.and_eq_true, decide_eq_true_eq] at h
    obtain ⟨⟨hm, hch⟩, hrest⟩ := h
    subst hm
    simp [scan, scan_noMarks eqv ch t hch, scan_noMarks eqv rest t hrest]

theorem emit_noMarks : ∀ (f : Forest), noMarks f = true → emit f = []
  | .nil, _ => rfl
  | .cons l m p ch rest, h => by
    simp only [noMarks, Bool.and_eq_true, decide_eq_true_eq] at h
    obtain ⟨⟨hm, hch⟩, hrest⟩ := h
    subst hm
    simp [emit, emit_noMarks ch hch, emit_noMarks rest hrest]

/-- Clearing marks does not change the value. -/
theorem strip_scan (eqv : Forest → Forest → Bool) :
    ∀ (f : Forest) (t : Table), strip (scan eqv f t).1 = strip f
  | .nil, _ => rfl
  | .cons l m p ch rest, t => by
    simp only [scan, strip]
    rw [strip_scan eqv ch, strip_scan eqv rest]

/-- Invariant: after printing what `scan` leaves of `f`, a left-to-right reader's table of printed
anchors is exactly the table `scan` tracks — provided no mark hides below an alias node. -/
theorem soundFrom_scan (eqv : Forest → Forest → Bool) :
    ∀ (f : Forest) (t : Table) (es : List Ev), aliasOpaque f = true →
      soundFrom eqv t (emit (scan eqv f t).1 ++ es) = soundFrom eqv (scan eqv f t).2 es
  | .nil, _, _, _ => rfl
  | .cons l m p ch rest, t, es, h => by
    cases m with
    | none =>
      simp only [aliasOpaque, Bool.and_eq_true] at h
      simp only [scan, emit, List.append_assoc]
      rw [soundFrom_scan eqv ch t _ h.1, soundFrom_scan eqv rest _ es h.2]
    | declares n =>
      simp only [aliasOpaque, Bool.and_eq_true] at h
      simp only [scan, emit, List.cons_append, List.append_assoc, soundFrom]
      have hv : nodeVal l p (scan eqv ch ((n, nodeVal l p ch) :: t)).1 = nodeVal l p ch := by
        simp [nodeVal, strip_scan]
      rw [hv, soundFrom_scan eqv ch _ _ h.1, soundFrom_scan eqv rest _ es h.2]
    | aliases n =>
      simp only [aliasOpaque, Bool.and_eq_true] at h
      have hs := scan_noMarks eqv ch t h.1
      have he := emit_noMarks ch h.1
      cases hl : lookup n t with
      | none =>
        simp only [scan, hl, hs, emit, he, List.nil_append]
        exact soundFrom_scan eqv rest t es h.2
      | some d =>
        by_cases hq : eqv d (nodeVal l p ch) = true
        · simp only [scan, hl, hs, hq, if_true, emit, List.cons_append, soundFrom, Bool.true_and]
          exact soundFrom_scan eqv rest t es h.2
        · simp only [scan, hl, hs, hq, emit, he, List.nil_append]
          exact soundFrom_scan eqv rest t es h.2

end SV.Yaml.Anchor
