/-
Proof/JsonNavFull — C06: the composed model (C05 builder + C04 BalancedParens + C07 IB select) of
`JsonIndex::build` yields, on documents, the specification-level index used by the navigation proofs.
-/
import SuccinctlyVerif.Model.JsonNavFull
import SuccinctlyVerif.Props.C04
import SuccinctlyVerif.Props.C07
import SuccinctlyVerif.Proof.JsonNavTree
namespace SV.JsonNav
open SV SV.JsonSemi SV.JsonText SV.JsonSimple

/-! ### the composed primitives are the specification primitives -/

theorem selectB_take_filter (bs : List Bool) (n k : Nat) :
    selectB true (bs.take n) k = (selectB true bs k).filter (· < n) := by
  have h := selectB_append true (bs.take n) (bs.drop n) k
  rw [List.take_append_drop] at h
  rw [h]
  by_cases hk : k < (bs.take n).count true
  · obtain ⟨p, hp, hl⟩ := selectB_lt_count true (bs.take n) k hk
    have : p < n := by simp [List.length_take] at hl; omega
    simp [hk, hp, Option.filter, this]
  · rw [selectB_ge_count true (bs.take n) k (by omega)]
    simp only [hk, if_false]
    cases hs : selectB true (bs.drop n) (k - (bs.take n).count true) with
    | none => rfl
    | some q =>
      have hne : bs.drop n ≠ [] := by intro he; rw [he] at hs; simp [selectB] at hs
      have hlt : n < bs.length := by
        apply Classical.byContradiction; intro hn
        exact hne (List.drop_eq_nil_of_le (by omega))
      have : (bs.take n).length = n := by simp [List.length_take]; omega
      simp [Option.filter, this]

theorem rankB_min (bs : List Bool) (p : Nat) : rankB true bs (min p bs.length) = rankB true bs p := by
  simp only [rankB]
  by_cases h : p ≤ bs.length
  · rw [Nat.min_eq_left h]
  · rw [Nat.min_eq_right (by omega), List.take_of_length_le (Nat.le_refl _), List.take_of_length_le (by omega)]

theorem bitsOf_length_le (ws : List (BitVec 64)) (len : Nat) (hw : ws.length = (len + 63) / 64) :
    (bitsOf ws len).length = len := by
  have : ∀ ws : List (BitVec 64), (allBits ws).length = 64 * ws.length := by
    intro ws
    induction ws with
    | nil => rfl
    | cons w ws ih => rw [allBits_cons, List.length_append, wordBits_length, ih]; simp; omega
  simp [bitsOf, List.length_take, this ws, hw]; omega

/-- Under the constructors' domain (`|bp words| = ⌈len/64⌉`, `len < 2^31`) and the IB rank bound,
the primitives computed by the C04 / C07 models are the specification primitives:
`is_open` ← `C04.is_open_eq`, `find_close` ← `C04.find_close_family_eq`, `parent`/`enclose` ←
`C04.method_enclose_eq`, `rank1` ← `C04.rank1_eq`, `ib_select1_from` ← `C07.text_position_eq`. -/
theorem prims_composed_eq_spec (simd : Bool) (ibWords bpWords : List (BitVec 64)) (ibLen bpLen : Nat)
    (hw : bpWords.length = (bpLen + 63) / 64) (hlen : bpLen < 2 ^ 31)
    (hb : (ibWords.map popcount).sum < JsonIb.U32) :
    (BPM.construct simd true bpWords bpLen .noSelect).map (fun I => Prims.composed I ibWords ibLen) =
      some (Prims.spec (bitsOf ibWords ibLen) (bitsOf bpWords bpLen)) := by
  have hlen32 : bpLen < 2 ^ 32 := by omega
  have hcs := SV.Props.C04.construct_some simd true bpWords bpLen .noSelect hlen32
  rw [hcs, Option.map_some]
  congr 1
  have hbl : (bitsOf bpWords bpLen).length = bpLen := bitsOf_length_le bpWords bpLen hw
  have e_open : ∀ p, (BPM.mkBP simd (if true = true then BPM.maskFinalWord bpWords bpLen else bpWords) bpLen .noSelect).isOpen p =
      (bitsOf bpWords bpLen).getD p false := by
    intro p
    have := SV.Props.C04.is_open_eq simd true bpWords bpLen .noSelect p hw hlen32
    rw [hcs, Option.map_some, Option.some.injEq, Prod.mk.injEq] at this
    rw [this.1, BP.isOpen]
    cases h : (bitsOf bpWords bpLen)[p]? with
    | none => simp [List.getD_eq_getElem?_getD, h]
    | some b => cases b <;> simp [List.getD_eq_getElem?_getD, h]
  have e_fc : ∀ p, (BPM.mkBP simd (if true = true then BPM.maskFinalWord bpWords bpLen else bpWords) bpLen .noSelect).findClose p =
      BP.findClose (bitsOf bpWords bpLen) p := by
    intro p
    have := SV.Props.C04.find_close_family_eq simd true bpWords bpLen .noSelect p hw hlen
    rw [hcs, Option.map_some, Option.some.injEq, Prod.mk.injEq] at this
    exact this.1
  have e_par : ∀ p, (BPM.mkBP simd (if true = true then BPM.maskFinalWord bpWords bpLen else bpWords) bpLen .noSelect).parent p =
      BP.enclose (bitsOf bpWords bpLen) p := by
    intro p
    have := SV.Props.C04.method_enclose_eq simd true bpWords bpLen .noSelect p hw hlen
    rw [hcs, Option.map_some, Option.some.injEq, Prod.mk.injEq] at this
    exact this.2
  have e_rk : ∀ p, (BPM.mkBP simd (if true = true then BPM.maskFinalWord bpWords bpLen else bpWords) bpLen .noSelect).rank1 p =
      rankB true (bitsOf bpWords bpLen) (min p (bitsOf bpWords bpLen).length) := by
    intro p
    have := SV.Props.C04.rank1_eq simd true bpWords bpLen .noSelect p hw hlen32
    rw [hcs, Option.map_some, Option.some.injEq] at this
    rw [this, rankB_min]; rfl
  have e_sel : ∀ k, JsonIb.textPosition ibWords ibLen k = selectB true (bitsOf ibWords ibLen) k := by
    intro k
    rw [SV.Props.C07.text_position_eq ibWords ibLen k hb, bitsOf, selectB_take_filter]
  simp only [Prims.composed, Prims.spec]
  congr 1
  · simp [BPM.mkBP, hbl]
  · funext p; exact e_open p
  · funext p; exact e_fc p
  · funext p; exact e_par p
  · funext p; exact e_rk p
  · funext k; exact e_sel k

theorem popcount_sum_eq (ws : List (BitVec 64)) : (ws.map popcount).sum = (ws.map popc).sum := by
  congr 1; apply List.map_congr_left; intro w _; exact (Kernels.popc_eq_popcount w).symm

/-- On a document shorter than 2^30 bytes the composed model of `JsonIndex::build` succeeds and its
primitives are the specification primitives over IB = node-start tags and BP = tree encoding. -/
theorem buildComposed_doc (f simd : Bool) (d : Doc) (hlen : d.text.length < 2 ^ 30) :
    buildComposed f simd d.text = some (build f false d.text) := by
  have href := reference_doc d
  have hlib := (SV.Props.C05.library_index_is_reference f d.text).1
  have hiblen : (reference d.text).ib.length = d.text.length := run_ib_length _ _
  have hbal := treeBp_balanced d.value
  have hnodes : (treeBp d.value).count true ≤ d.text.length := by
    rw [← href.2]
    have h1 : (reference d.text).bp.count true = (reference d.text).ib.count true := by
      rw [href.1, href.2, ← treeBp_eq, toksStd_count]
      simp [Doc.toks, toksStdBp_append, toksStdBp_ws]
    rw [h1, ← hiblen]; exact List.count_le_length
  have hge : ¬ (d.text.length ≥ 2 ^ 32) := by omega
  simp only [buildComposed, hge, if_false, hlib, referenceWords, countBpBits, sum_popc_pack, build,
    Bool.false_eq_true]
  rw [href.2]
  have e : (treeBp d.value).count true * 2 = (treeBp d.value).length := by omega
  rw [e]
  have hp := prims_composed_eq_spec simd (pack (reference d.text).ib) (pack (treeBp d.value)) d.text.length
    (treeBp d.value).length (pack_length _) (by omega)
    (by rw [popcount_sum_eq, sum_popc_pack]
        have : (reference d.text).ib.count true ≤ (reference d.text).ib.length := List.count_le_length
        rw [hiblen] at this
        simp only [JsonIb.U32]; omega)
  cases hc : BPM.construct simd true (pack (treeBp d.value)) (treeBp d.value).length BPM.SelKind.noSelect with
  | none => rw [hc] at hp; simp at hp
  | some I =>
    rw [hc] at hp
    simp only [Option.map_some, Option.some.injEq] at hp ⊢
    rw [hp]

/-- `navigate_eq` over the composed model: no navigation hypotheses remain. -/
theorem navigate_composed (f simd : Bool) (d : Doc) (hlen : d.text.length < 2 ^ 30) (fuel : Nat)
    (hf : depth d.value ≤ fuel) :
    (buildComposed f simd d.text).map (fun x => reconstruct x fuel 0) = some (valueOf d.value) := by
  rw [buildComposed_doc f simd d hlen, Option.map_some, navigate_doc f d fuel hf]

/-- The cursor moves of `Model/JsonNav` over the composed primitives are the C04 model's own
`first_child` / `next_sibling` / `parent`. -/
theorem moves_composed (I : BPM.BP) (T : Array Byte) (ibw : List (BitVec 64)) (n p : Nat) :
    firstChild ⟨T, Prims.composed I ibw n⟩ p = I.firstChild p ∧
    nextSibling ⟨T, Prims.composed I ibw n⟩ p = I.nextSibling p ∧
    parent ⟨T, Prims.composed I ibw n⟩ p = I.parent p := by
  refine ⟨?_, ?_, rfl⟩
  · simp only [firstChild, Prims.composed, BPM.BP.firstChild]
    by_cases h1 : I.isOpen p <;> by_cases h2 : p + 1 ≥ I.len <;> by_cases h3 : I.isOpen (p + 1) <;> simp [h1, h2, h3]
  · simp only [nextSibling, Prims.composed, BPM.BP.nextSibling]
    cases I.findClose p with
    | none => rfl
    | some c => by_cases h1 : c + 1 < I.len <;> by_cases h2 : I.isOpen (c + 1) <;> simp [h1, h2]

end SV.JsonNav
