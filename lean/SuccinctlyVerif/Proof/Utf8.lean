/-
Proof/Utf8 — facts about the Table 3-7 automaton of Spec/Utf8 that every UTF-8 engine proof uses:
a `BitVec 4` coding of the states (so that byte-level facts go to `bv_decide`), `run` over
appends / ASCII runs, "never back on a boundary" (`NeverStart`, `HeadBad`), and the consistency of
the executable `validPrefixLen` with `IsLongestValidPrefix`.
-/
import Std.Tactic.BVDecide
import SuccinctlyVerif.Spec.Utf8
namespace SV.Utf8

/-! ### states as `BitVec 4` -/

def code : St → BitVec 4
  | .start => 0 | .c1 => 1 | .c2 => 2 | .c3 => 3 | .e0 => 4 | .ed => 5 | .f0 => 6 | .f4 => 7 | .dead => 8

/-- `step` on codes. -/
def stepC (s : BitVec 4) (b : BitVec 8) : BitVec 4 :=
  if s = 0 then
    (if b ≤ 0x7F#8 then 0
    else if inR 0xC2#8 0xDF#8 b then 1
    else if b = 0xE0#8 then 4
    else if inR 0xE1#8 0xEC#8 b then 2
    else if b = 0xED#8 then 5
    else if inR 0xEE#8 0xEF#8 b then 2
    else if b = 0xF0#8 then 6
    else if inR 0xF1#8 0xF3#8 b then 3
    else if b = 0xF4#8 then 7
    else 8)
  else if s = 1 then (if inR 0x80#8 0xBF#8 b then 0 else 8)
  else if s = 2 then (if inR 0x80#8 0xBF#8 b then 1 else 8)
  else if s = 3 then (if inR 0x80#8 0xBF#8 b then 2 else 8)
  else if s = 4 then (if inR 0xA0#8 0xBF#8 b then 1 else 8)
  else if s = 5 then (if inR 0x80#8 0x9F#8 b then 1 else 8)
  else if s = 6 then (if inR 0x90#8 0xBF#8 b then 2 else 8)
  else if s = 7 then (if inR 0x80#8 0x8F#8 b then 2 else 8)
  else 8

theorem code_step (s : St) (b : Byte) : code (step s b) = stepC (code s) b := by
  cases s <;> revert b <;> decide

theorem code_inj {s t : St} : s = t ↔ code s = code t := by
  constructor
  · intro h; rw [h]
  · cases s <;> cases t <;> decide

theorem code_start : code .start = 0 := rfl
theorem code_dead : code .dead = 8 := rfl

/-- Turn (in)equalities between automaton states reached by explicit `step`s into `BitVec` goals
and hand them, together with the byte hypotheses in the context, to `bv_decide`. -/
macro "st_decide" : tactic =>
  `(tactic| (simp only [code_inj, ne_eq, code_step, code_start, code_dead] at *
             simp only [Byte, stepC, inR] at *
             bv_decide))

/-! ### `run` -/

@[simp] theorem run_nil (s : St) : run s [] = s := rfl
@[simp] theorem run_cons (s : St) (b : Byte) (bs : List Byte) : run s (b :: bs) = run (step s b) bs := rfl

theorem run_append (s : St) (xs ys : List Byte) : run s (xs ++ ys) = run (run s xs) ys := by
  simp [run, List.foldl_append]

@[simp] theorem step_dead (b : Byte) : step .dead b = .dead := rfl

@[simp] theorem run_dead (bs : List Byte) : run .dead bs = .dead := by
  induction bs with
  | nil => rfl
  | cons b bs ih => simp [ih]

theorem step_start_ascii {b : Byte} (h : b < 0x80#8) : step .start b = .start := by
  revert b; decide

theorem run_start_ascii {l : List Byte} (h : ∀ b ∈ l, b < 0x80#8) : run .start l = .start := by
  induction l with
  | nil => rfl
  | cons b l ih =>
    rw [run_cons, step_start_ascii (h b (by simp))]
    exact ih fun x hx => h x (by simp [hx])

theorem step_zero (s : St) : step s 0x00#8 = if s = .start then .start else .dead := by
  cases s <;> decide

/-- Reading at least one `00` byte from a live state ends on a boundary iff the state was one. -/
theorem run_zeros (s : St) (k : Nat) :
    run s (List.replicate (k + 1) 0x00#8) = if s = .start then .start else .dead := by
  induction k generalizing s with
  | zero => simp [List.replicate, step_zero]
  | succ k ih =>
    rw [List.replicate_succ, run_cons, ih, step_zero]
    cases s <;> simp

/-! ### never back on a boundary -/

/-- From state `s`, no prefix of `l` (including the empty one) ends on a sequence boundary. -/
def NeverStart (s : St) (l : List Byte) : Prop := ∀ m, m ≤ l.length → run s (l.take m) ≠ .start

/-- No non-empty prefix of `suf` is well-formed: the sequence at the head of `suf` is ill-formed
or cut off by the end of input. -/
def HeadBad (suf : List Byte) : Prop :=
  ∀ m, 1 ≤ m → m ≤ suf.length → run .start (suf.take m) ≠ .start

@[simp] theorem neverStart_nil (s : St) : NeverStart s [] ↔ s ≠ .start := by
  simp [NeverStart]

theorem neverStart_dead (l : List Byte) : NeverStart .dead l := by
  intro m _; simp

@[simp] theorem neverStart_cons (s : St) (b : Byte) (l : List Byte) :
    NeverStart s (b :: l) ↔ s ≠ .start ∧ NeverStart (step s b) l := by
  constructor
  · intro h
    refine ⟨by simpa using h 0 (by simp), fun m hm => ?_⟩
    simpa using h (m + 1) (by simpa using hm)
  · rintro ⟨h0, h⟩ m hm
    cases m with
    | zero => simpa using h0
    | succ m => simpa using h m (by simpa using hm)

theorem headBad_cons (b : Byte) (l : List Byte) : HeadBad (b :: l) ↔ NeverStart (step .start b) l := by
  constructor
  · intro h m hm
    simpa using h (m + 1) (by omega) (by simpa using hm)
  · intro h m h1 hm
    cases m with
    | zero => omega
    | succ m => simpa using h m (by simpa using hm)

theorem not_headBad_nil : HeadBad [] := by intro m h1 hm; simp at hm; omega

/-- A bad head makes the whole suffix ill-formed. -/
theorem HeadBad.not_wf {suf : List Byte} (h : HeadBad suf) (hne : suf ≠ []) : run .start suf ≠ .start := by
  have := h suf.length (by cases suf <;> simp_all) (Nat.le_refl _)
  simpa using this

/-- After a well-formed prefix `pre`, a bad head pins the longest valid prefix at `pre.length`. -/
theorem longest_of_headBad {pre suf : List Byte} (hp : run .start pre = .start) (hb : HeadBad suf) :
    IsLongestValidPrefix (pre ++ suf) pre.length := by
  refine ⟨by simp, by simpa [WellFormed] using hp, fun m hlt hle => ?_⟩
  have hm : (pre ++ suf).take m = pre ++ suf.take (m - pre.length) := by
    rw [List.take_append]
    congr 1
    exact List.take_of_length_le (by omega)
  simp only [WellFormed, hm, run_append, hp]
  exact hb _ (by omega) (by simp at hle; omega)

theorem longest_unique {bs : List Byte} {n m : Nat}
    (hn : IsLongestValidPrefix bs n) (hm : IsLongestValidPrefix bs m) : n = m := by
  rcases Nat.lt_trichotomy n m with h | h | h
  · exact absurd hm.2.1 (hn.2.2 m h hm.1)
  · exact h
  · exact absurd hn.2.1 (hm.2.2 n h hn.1)

end SV.Utf8
