/-
Proof/BitVec — helper lemmas for C01 (BitVec rank / select / access).
-/
import Std.Tactic.BVDecide
import SuccinctlyVerif.Spec.Bits
import SuccinctlyVerif.Model.BitVec
import SuccinctlyVerif.Proof.Kernels
import SuccinctlyVerif.Proof.Scan
import SuccinctlyVerif.Proof.BitVecPack
namespace SV.BV
open SV SV.Scan

/-- Width side conditions on the generated constants: a rank block is 8 words (so the seven 9-bit
L2 offsets and the literal `i < 8` cover it) and a superblock's relative rank fits `u32`. -/
theorem consts_ok :
    Gen.RANK_WORDS_PER_BLOCK = 8 ∧ 0 < Gen.RANK_BLOCKS_PER_SUPERBLOCK ∧
    Gen.RANK_BLOCKS_PER_SUPERBLOCK * 512 ≤ 2 ^ 32 := by decide

/-! ### bits of words -/

theorem mask_getLsbD_fin : ∀ t : Fin 64, ∀ b : Fin 64,
    ((1#64 <<< t.val) - 1).getLsbD b.val = decide (b.val < t.val) := by decide +kernel

theorem mask_getLsbD (t b : Nat) (ht : t < 64) (hb : b < 64) :
    ((1#64 <<< t) - 1).getLsbD b = decide (b < t) := mask_getLsbD_fin ⟨t, ht⟩ ⟨b, hb⟩

theorem wordBits_getElem (w : BitVec 64) (i : Nat) (h : i < (wordBits w).length) :
    (wordBits w)[i] = w.getLsbD i := by
  simp [wordBits]

/-- Masking a word with `(1 << t) - 1` keeps its first `t` bits and clears the rest. -/
theorem wordBits_and_mask (w : BitVec 64) (t : Nat) (ht : t < 64) :
    wordBits (w &&& ((1#64 <<< t) - 1)) = (wordBits w).take t ++ List.replicate (64 - t) false := by
  apply List.ext_getElem
  · simp [wordBits_length]; omega
  · intro i h1 h2
    rw [wordBits_getElem]
    have hi : i < 64 := by simpa [wordBits_length] using h1
    rw [BitVec.getLsbD_and, mask_getLsbD t i ht hi]
    by_cases hit : i < t
    · rw [List.getElem_append_left (by simp [wordBits_length]; omega)]
      simp [wordBits_getElem, hit]
    · rw [List.getElem_append_right (by simp [wordBits_length]; omega)]
      simp [hit]

theorem wordBits_zero : wordBits 0#64 = List.replicate 64 false := by decide

theorem allBits_append (a b : List (BitVec 64)) : allBits (a ++ b) = allBits a ++ allBits b := by
  simp [allBits]

theorem allBits_replicate_zero (m : Nat) :
    allBits (List.replicate m 0#64) = List.replicate (64 * m) false := by
  induction m with
  | zero => simp [allBits]
  | succ m ih =>
    rw [List.replicate_succ, allBits_cons, ih, wordBits_zero, List.replicate_append_replicate]
    congr 1; omega

theorem take_allBits_mul (q : Nat) (ws : List (BitVec 64)) :
    (allBits ws).take (64 * q) = allBits (ws.take q) := by
  induction q generalizing ws with
  | zero => simp [allBits]
  | succ q ih =>
    cases ws with
    | nil => simp [allBits]
    | cons w ws =>
      rw [List.take_succ_cons, allBits_cons, allBits_cons, List.take_append, wordBits_length,
        List.take_of_length_le (by rw [wordBits_length]; omega)]
      have : 64 * (q + 1) - 64 = 64 * q := by omega
      rw [this, ih]

theorem drop_allBits_mul (q : Nat) (ws : List (BitVec 64)) :
    (allBits ws).drop (64 * q) = allBits (ws.drop q) := by
  induction q generalizing ws with
  | zero => simp
  | succ q ih =>
    cases ws with
    | nil => simp [allBits]
    | cons w ws =>
      rw [List.drop_succ_cons, allBits_cons, List.drop_append, wordBits_length,
        List.drop_of_length_le (by rw [wordBits_length]; omega)]
      have : 64 * (q + 1) - 64 = 64 * q := by omega
      rw [this, ih, List.nil_append]

/-- The first `64·q + t` bits (`t ≤ 64`, word `q` exists) = all bits of the first `q` words followed
by the first `t` bits of word `q`. -/
theorem take_allBits (ws : List (BitVec 64)) (q t : Nat) (hq : q < ws.length) (ht : t ≤ 64) :
    (allBits ws).take (64 * q + t) = allBits (ws.take q) ++ (wordBits (ws.getD q 0)).take t := by
  rw [List.take_add, take_allBits_mul, drop_allBits_mul]
  congr 1
  rw [← List.getElem_cons_drop hq, allBits_cons, List.take_append, wordBits_length]
  have : t - 64 = 0 := by omega
  rw [this, List.take_zero, List.append_nil]
  simp [List.getD_eq_getElem?_getD, hq]


/-! ### tail masking -/

theorem maskWords_length (ws : List (BitVec 64)) (len : Nat) (h : len ≤ 64 * ws.length) :
    (maskWords ws len).length = ws.length := by
  unfold maskWords
  dsimp only
  split <;> simp <;> omega

/-- **Masking lemma.**  The bits of the masked words are the first `len` bits of the input followed
by zeros only. -/
theorem allBits_maskWords (ws : List (BitVec 64)) (len : Nat) (h : len ≤ 64 * ws.length) :
    allBits (maskWords ws len) = bitsOf ws len ++ List.replicate (64 * ws.length - len) false := by
  unfold maskWords bitsOf
  by_cases ht : len % 64 > 0
  · have hq : len / 64 < ws.length := by omega
    have hu : (len + 63) / 64 = len / 64 + 1 := by omega
    simp only [ht, if_true, hu, Nat.add_sub_cancel, List.length_set]
    rw [List.set_eq_take_append_cons_drop, if_pos hq, List.take_append, List.length_take,
      Nat.min_eq_left (by omega), List.take_take, Nat.min_eq_right (by omega)]
    have h1 : len / 64 + 1 - len / 64 = 1 := by omega
    rw [h1, List.take_succ_cons, List.take_zero, allBits_append, allBits_append, allBits_cons,
      allBits_replicate_zero, wordBits_and_mask _ _ (Nat.mod_lt _ (by omega))]
    have hl : len = 64 * (len / 64) + len % 64 := by omega
    conv => rhs; rw [hl, take_allBits ws _ _ hq (by omega)]
    simp only [allBits, List.flatMap_nil, List.append_nil, List.append_assoc,
      List.replicate_append_replicate]
    congr 3
    omega
  · have ht0 : len % 64 = 0 := by omega
    have hu : (len + 63) / 64 = len / 64 := by omega
    simp only [ht, if_false, hu]
    rw [allBits_append, allBits_replicate_zero]
    have hl : len = 64 * (len / 64) := by omega
    conv => rhs; rw [hl, take_allBits_mul]
    congr 2
    omega


/-! ### popcount sums -/

/-- Number of set bits in the first `j` words (`count_ones` per word). -/
def prefPop (ws : List (BitVec 64)) (j : Nat) : Nat := ((ws.take j).map popc).sum

theorem map_popc (ws : List (BitVec 64)) : ws.map popc = ws.map popcount := by
  apply List.map_congr_left; intro w _; exact Kernels.popc_eq_popcount w

theorem sum_popcount_le (ws : List (BitVec 64)) : (ws.map popcount).sum ≤ 64 * ws.length := by
  rw [← count_allBits, ← allBits_length]; exact List.count_le_length

theorem sum_popc_le (ws : List (BitVec 64)) : (ws.map popc).sum ≤ 64 * ws.length := by
  rw [map_popc]; exact sum_popcount_le ws

theorem prefPop_eq_count (ws : List (BitVec 64)) (j : Nat) :
    prefPop ws j = (allBits (ws.take j)).count true := by
  unfold prefPop; rw [map_popc, count_allBits]

theorem prefPop_zero (ws : List (BitVec 64)) : prefPop ws 0 = 0 := by simp [prefPop]

theorem prefPop_add (ws : List (BitVec 64)) (a b : Nat) :
    prefPop ws (a + b) = prefPop ws a + (((ws.drop a).take b).map popc).sum := by
  unfold prefPop; rw [List.take_add, List.map_append, List.sum_append]

theorem prefPop_le_add (ws : List (BitVec 64)) (a b : Nat) :
    prefPop ws (a + b) ≤ prefPop ws a + 64 * b := by
  rw [prefPop_add]
  have := sum_popc_le ((ws.drop a).take b)
  have h2 : ((ws.drop a).take b).length ≤ b := by simp; omega
  have : 64 * ((ws.drop a).take b).length ≤ 64 * b := Nat.mul_le_mul_left 64 h2
  omega

theorem prefPop_mono (ws : List (BitVec 64)) {a b : Nat} (h : a ≤ b) : prefPop ws a ≤ prefPop ws b := by
  obtain ⟨c, rfl⟩ := Nat.exists_eq_add_of_le h
  rw [prefPop_add]; omega

theorem prefPop_le (ws : List (BitVec 64)) (j : Nat) : prefPop ws j ≤ 64 * j := by
  have := prefPop_le_add ws 0 j
  simpa [prefPop_zero] using this

theorem prefPop_le_total (ws : List (BitVec 64)) (j : Nat) : prefPop ws j ≤ (ws.map popc).sum := by
  have := prefPop_mono ws (Nat.le_max_left j ws.length)
  have h2 : prefPop ws (max j ws.length) = (ws.map popc).sum := by
    unfold prefPop; rw [List.take_of_length_le (Nat.le_max_right _ _)]
  omega

theorem prefPop_succ (ws : List (BitVec 64)) (j : Nat) (h : j < ws.length) :
    prefPop ws (j + 1) = prefPop ws j + popc (ws.getD j 0) := by
  rw [prefPop_add]
  have hd : (ws.drop j).take 1 = [ws[j]] := by rw [← List.getElem_cons_drop h]; rfl
  rw [hd]; simp [List.getD_eq_getElem?_getD, h]

/-- `popcount_words`: the wrapping accumulation equals the plain sum when it fits a `usize`. -/
theorem foldl_wrap (pc : BitVec 64 → Nat) (ws : List (BitVec 64)) (acc : Nat)
    (h : acc + (ws.map pc).sum < 2 ^ 64) :
    ws.foldl (fun total w => (total + pc w) % 2 ^ 64) acc = acc + (ws.map pc).sum := by
  induction ws generalizing acc with
  | nil => simp
  | cons w ws ih =>
    simp only [List.map_cons, List.sum_cons] at h
    simp only [List.foldl_cons, List.map_cons, List.sum_cons]
    rw [Nat.mod_eq_of_lt (by omega), ih _ (by omega)]
    omega

theorem popcountWords_eq (pc : BitVec 64 → Nat) (hpc : ∀ w, pc w = popcount w) (ws : List (BitVec 64))
    (h : 64 * ws.length < 2 ^ 64) : popcountWords pc ws = (allBits ws).count true := by
  have hm : ws.map pc = ws.map popcount := List.map_congr_left (fun w _ => hpc w)
  unfold popcountWords
  rw [foldl_wrap pc ws 0 (by rw [hm]; have := sum_popcount_le ws; omega), hm, count_allBits]
  omega

/-- The AVX-512 loop (eight lanes per step, then the remaining words) computes the same sum. -/
theorem popcountWordsAvx512_eq (pc : BitVec 64 → Nat) (fuel : Nat) (ws : List (BitVec 64)) (acc : Nat)
    (h : acc + (ws.map pc).sum < 2 ^ 64) :
    popcountWordsAvx512 pc fuel ws acc = acc + (ws.map pc).sum := by
  induction fuel generalizing ws acc with
  | zero => exact foldl_wrap pc ws acc h
  | succ fuel ih =>
    unfold popcountWordsAvx512
    split
    · have hs : (ws.map pc).sum = ((ws.take 8).map pc).sum + ((ws.drop 8).map pc).sum := by
        rw [← List.sum_append, ← List.map_append, List.take_append_drop]
      rw [ih]
      · rw [Nat.mod_eq_of_lt (a := ((ws.take 8).map pc).sum) (by omega), Nat.mod_eq_of_lt (by omega)]; omega
      · rw [Nat.mod_eq_of_lt (a := ((ws.take 8).map pc).sum) (by omega), Nat.mod_eq_of_lt (by omega)]; omega
    · exact foldl_wrap pc ws acc h

theorem bitsOf_length (ws : List (BitVec 64)) (len : Nat) (h : len ≤ 64 * ws.length) :
    (bitsOf ws len).length = len := by
  unfold bitsOf; rw [List.length_take, allBits_length]; omega

theorem count_maskWords (ws : List (BitVec 64)) (len : Nat) (h : len ≤ 64 * ws.length) :
    (allBits (maskWords ws len)).count true = (bitsOf ws len).count true := by
  rw [allBits_maskWords ws len h, List.count_append, List.count_replicate]; simp


/-! ### rank directory: the per-block loop -/

theorem popc_le (w : BitVec 64) : popc w ≤ 64 := by
  rw [Kernels.popc_eq_popcount]; exact Kernels.popcount_le w

/-- The inner loop of `build`: no `u16` wrap (block accumulator ≤ 512), the accumulator is the
block's popcount, and slot `t` of `l2_offsets` receives the popcount of the block's first `t+1`
words for every word index `t+1` the loop visits. -/
theorem blockLoop_spec (block : List (BitVec 64)) (i : Nat) (l2 : List Nat) (bc : Nat)
    (hlen : i + block.length ≤ 8) (hbc : bc ≤ 64 * i) :
    (blockLoop block i l2 bc).2 = bc + (block.map popc).sum ∧
    (blockLoop block i l2 bc).1.length = l2.length ∧
    ∀ t, t < l2.length → (blockLoop block i l2 bc).1.getD t 0 =
      if i ≤ t + 1 ∧ t + 1 < i + block.length then bc + ((block.take (t + 1 - i)).map popc).sum
      else l2.getD t 0 := by
  induction block generalizing i l2 bc with
  | nil =>
    refine ⟨by simp [blockLoop], by simp [blockLoop], ?_⟩
    intro t _
    simp only [blockLoop, List.length_nil, Nat.add_zero]
    have : ¬ (i ≤ t + 1 ∧ t + 1 < i) := by omega
    rw [if_neg this]
  | cons w ws ih =>
    simp only [List.length_cons] at hlen
    have hw := popc_le w
    have hm : (bc + popc w % 2 ^ 16) % 2 ^ 16 = bc + popc w := by
      rw [Nat.mod_eq_of_lt (show popc w < 2 ^ 16 by omega), Nat.mod_eq_of_lt (by omega)]
    simp only [blockLoop, hm]
    obtain ⟨ih1, ih2, ih3⟩ := ih (i + 1) (if i > 0 ∧ i < 8 then l2.set (i - 1) bc else l2) (bc + popc w)
      (by omega) (by omega)
    have hl : (if i > 0 ∧ i < 8 then l2.set (i - 1) bc else l2).length = l2.length := by
      split <;> simp
    refine ⟨by rw [ih1]; simp; omega, by rw [ih2, hl], ?_⟩
    intro t ht
    rw [ih3 t (by rw [hl]; exact ht)]
    by_cases h1 : t + 1 = i
    · have c1 : ¬ (i + 1 ≤ t + 1 ∧ t + 1 < i + 1 + ws.length) := by omega
      have c2 : i ≤ t + 1 ∧ t + 1 < i + (ws.length + 1) := by omega
      have c3 : i > 0 ∧ i < 8 := by omega
      have c4 : t + 1 - i = 0 := by omega
      have c5 : i - 1 = t := by omega
      simp only [c1, c2, c3, c4, c5, if_true, if_false, and_self, List.length_cons]
      simp [List.getD_eq_getElem?_getD, ht]
    · by_cases h2 : i ≤ t + 1 ∧ t + 1 < i + (ws.length + 1)
      · have c1 : i + 1 ≤ t + 1 ∧ t + 1 < i + 1 + ws.length := by omega
        have c4 : t + 1 - i = (t + 1 - (i + 1)) + 1 := by omega
        simp only [c1, h2, and_self, if_true, List.length_cons]
        rw [c4, List.take_succ_cons, List.map_cons, List.sum_cons]; omega
      · have c1 : ¬ (i + 1 ≤ t + 1 ∧ t + 1 < i + 1 + ws.length) := by omega
        simp only [c1, h2, if_false, List.length_cons]
        split
        · have : i - 1 ≠ t := by omega
          simp [List.getD_eq_getElem?_getD, this]
        · rfl


/-! ### rank directory: closed form of `build` -/

theorem wpb_eq : Gen.RANK_WORDS_PER_BLOCK = 8 := rfl
theorem bps_eq : Gen.RANK_BLOCKS_PER_SUPERBLOCK = 8388608 := rfl

/-- Popcount before the superblock containing block `b` (the `l0_base` in force at block `b`). -/
def superBase (ws : List (BitVec 64)) (b : Nat) : Nat :=
  prefPop ws (8 * (Gen.RANK_BLOCKS_PER_SUPERBLOCK * (b / Gen.RANK_BLOCKS_PER_SUPERBLOCK)))

/-- The entry `build` pushes for block `b`. -/
def expEntry (ws : List (BitVec 64)) (b : Nat) : BitVec 128 :=
  packEntry ((prefPop ws (8 * b) - superBase ws b) % 2 ^ 32)
    (blockLoop ((ws.drop (8 * b)).take 8) 0 (List.replicate 7 0) 0).1

/-- `l0_base` before block `b` is processed. -/
def baseBefore (ws : List (BitVec 64)) (b : Nat) : Nat :=
  if b = 0 then 0 else superBase ws (b - 1)

theorem buildGo_eq (ws : List (BitVec 64)) (hsz : 64 * ws.length < 2 ^ 64) (n bi : Nat) :
    buildGo n (ws.drop (8 * bi)) bi (prefPop ws (8 * bi)) (baseBefore ws bi) =
      ((((List.range' bi n).filter
          (fun b => decide (b > 0 ∧ b % Gen.RANK_BLOCKS_PER_SUPERBLOCK = 0))).map
            (fun b => prefPop ws (8 * b))),
       (List.range' bi n).map (expEntry ws)) := by
  induction n generalizing bi with
  | zero => simp [buildGo]
  | succ n ih =>
    -- l0_base after the `if`
    have hbase : (if bi > 0 ∧ bi % Gen.RANK_BLOCKS_PER_SUPERBLOCK = 0 then prefPop ws (8 * bi)
        else baseBefore ws bi) = superBase ws bi := by
      unfold baseBefore superBase
      by_cases hc : bi > 0 ∧ bi % Gen.RANK_BLOCKS_PER_SUPERBLOCK = 0
      · rw [if_pos hc]; congr 1; simp only [bps_eq] at hc ⊢; omega
      · rw [if_neg hc]
        by_cases h0 : bi = 0
        · subst bi; simp [prefPop_zero]
        · rw [if_neg h0]; congr 3; simp only [bps_eq] at hc ⊢; omega
    have hblock := blockLoop_spec ((ws.drop (8 * bi)).take 8) 0 (List.replicate 7 0) 0
      (by simp; omega) (by omega)
    have e8 : 8 * (bi + 1) = 8 * bi + 8 := by omega
    have hcum : (prefPop ws (8 * bi) + (blockLoop ((ws.drop (8 * bi)).take 8) 0 (List.replicate 7 0) 0).2)
        % 2 ^ 64 = prefPop ws (8 * (bi + 1)) := by
      rw [hblock.1, Nat.zero_add, e8, ← prefPop_add, Nat.mod_eq_of_lt]
      have := prefPop_le_total ws (8 * bi + 8)
      have := sum_popc_le ws
      omega
    have hnext : baseBefore ws (bi + 1) = superBase ws bi := by simp [baseBefore]
    have hdrop : (ws.drop (8 * bi)).drop 8 = ws.drop (8 * (bi + 1)) := by
      rw [List.drop_drop, e8]
    rw [buildGo]
    simp only [wpb_eq, hbase, hcum, hdrop]
    rw [← hnext, ih (bi + 1), List.range'_succ, List.filter_cons, List.map_cons]
    by_cases hc : bi > 0 ∧ bi % Gen.RANK_BLOCKS_PER_SUPERBLOCK = 0
    · simp only [hc, and_self, if_true, decide_true, List.map_cons, List.cons_append, List.nil_append,
        expEntry, hnext]
    · simp only [hc, if_false, decide_false, List.nil_append, expEntry, hnext]
      simp


/-- The block indices at which `build` pushes an L0 entry, in closed form. -/
theorem filter_super (N : Nat) :
    (List.range N).filter (fun b => decide (b > 0 ∧ b % Gen.RANK_BLOCKS_PER_SUPERBLOCK = 0)) =
      (List.range ((N - 1) / Gen.RANK_BLOCKS_PER_SUPERBLOCK)).map
        (fun s => (s + 1) * Gen.RANK_BLOCKS_PER_SUPERBLOCK) := by
  induction N with
  | zero => simp
  | succ N ih =>
    rw [List.range_succ, List.filter_append, ih, Nat.add_sub_cancel]
    by_cases hc : N > 0 ∧ N % Gen.RANK_BLOCKS_PER_SUPERBLOCK = 0
    · have e : N / Gen.RANK_BLOCKS_PER_SUPERBLOCK = (N - 1) / Gen.RANK_BLOCKS_PER_SUPERBLOCK + 1 := by
        simp only [bps_eq] at hc ⊢; omega
      have e2 : ((N - 1) / Gen.RANK_BLOCKS_PER_SUPERBLOCK + 1) * Gen.RANK_BLOCKS_PER_SUPERBLOCK = N := by
        simp only [bps_eq] at hc ⊢; omega
      rw [e, List.range_succ, List.map_append]
      simp [hc, e2]
    · have e : N / Gen.RANK_BLOCKS_PER_SUPERBLOCK = (N - 1) / Gen.RANK_BLOCKS_PER_SUPERBLOCK := by
        simp only [bps_eq] at hc ⊢; omega
      rw [e]
      simp [hc]



/-- Lookup in the closed-form L0 list. -/
theorem l0_lookup (f : Nat → Nat) (S K q : Nat) (hq : 0 < q) (hqK : q ≤ K) :
    ((List.range K).map (f ∘ fun s => (s + 1) * S)).getD (q - 1) 0 = f (q * S) := by
  rw [List.getD_eq_getElem?_getD, List.getElem?_map, List.getElem?_range (by omega)]
  simp only [Option.map_some, Option.getD_some, Function.comp]
  have : q - 1 + 1 = q := by omega
  rw [this]

/-- L1 fits `u32`: the rank relative to the superblock base is below `S · 512 ≤ 2^32`. -/
theorem l1_bound (ws : List (BitVec 64)) (S b : Nat) (hS0 : 0 < S) (hS : S * 512 ≤ 2 ^ 32) :
    prefPop ws (8 * (S * (b / S))) ≤ prefPop ws (8 * b) ∧
    prefPop ws (8 * b) - prefPop ws (8 * (S * (b / S))) < 2 ^ 32 := by
  have h1 : S * (b / S) ≤ b := Nat.mul_div_le b S
  have h2 : S * (b / S) + b % S = b := Nat.div_add_mod b S
  have h3 : b % S < S := Nat.mod_lt b hS0
  generalize b / S = q at *
  generalize b % S = m at *
  generalize hx : S * q = x at *
  refine ⟨prefPop_mono ws (by omega), ?_⟩
  have h4 := prefPop_le_add ws (8 * x) (8 * m)
  have e : 8 * x + 8 * m = 8 * b := by omega
  rw [e] at h4
  have h5 : m * 512 < S * 512 := Nat.mul_lt_mul_of_pos_right h3 (by omega)
  omega


/-- What the inner loop stores for one block: seven fields, each `< 2^9` (at most 448), and field
`m - 1` is the popcount of the block's first `m` words for every `0 < m <` block length. -/
theorem l2_fields (ws : List (BitVec 64)) (b : Nat) :
    (blockLoop ((ws.drop (8 * b)).take 8) 0 (List.replicate 7 0) 0).1.length = 7 ∧
    (∀ t, t < 7 → (blockLoop ((ws.drop (8 * b)).take 8) 0 (List.replicate 7 0) 0).1.getD t 0 ≤ 448) ∧
    (∀ m, 0 < m → m < ((ws.drop (8 * b)).take 8).length →
      (blockLoop ((ws.drop (8 * b)).take 8) 0 (List.replicate 7 0) 0).1.getD (m - 1) 0 =
        (((ws.drop (8 * b)).take m).map popc).sum) := by
  have hblock := blockLoop_spec ((ws.drop (8 * b)).take 8) 0 (List.replicate 7 0) 0
    (by simp; omega) (by omega)
  have hblen : ((ws.drop (8 * b)).take 8).length ≤ 8 := by simp; omega
  refine ⟨by rw [hblock.2.1]; simp, ?_, ?_⟩
  · intro t ht
    rw [hblock.2.2 t (by simpa using ht)]
    split
    · have := sum_popc_le (((ws.drop (8 * b)).take 8).take (t + 1 - 0))
      have h2 : (((ws.drop (8 * b)).take 8).take (t + 1 - 0)).length ≤ t + 1 := by simp; omega
      have := Nat.mul_le_mul_left 64 h2
      omega
    · have : (List.replicate 7 0).getD t 0 = 0 := by
        rw [List.getD_eq_getElem?_getD, List.getElem?_replicate]; split <;> rfl
      omega
  · intro m hm0 hm
    have hm7 : m - 1 < 7 := by omega
    rw [hblock.2.2 (m - 1) (by simpa using hm7)]
    have hc : 0 ≤ m - 1 + 1 ∧ m - 1 + 1 < 0 + ((ws.drop (8 * b)).take 8).length := by omega
    rw [if_pos hc]
    have e1 : m - 1 + 1 - 0 = m := by omega
    rw [e1, List.take_take, Nat.min_eq_left (by omega), Nat.zero_add]


/-- `rank_at_word` evaluated on a directory given in closed form, for *any* superblock size `S`
with `S · 512 ≤ 2^32`. -/
theorem rankAt_closed (ws : List (BitVec 64)) (hsz : 64 * ws.length < 2 ^ 64) (S NB j : Nat)
    (hS0 : 0 < S) (hS : S * 512 ≤ 2 ^ 32) (hNB : NB = (ws.length + 8 - 1) / 8) (hj : j < ws.length)
    (l0 : List Nat)
    (hl0 : l0 = (List.range ((NB - 1) / S)).map ((fun b => prefPop ws (8 * b)) ∘ fun s => (s + 1) * S))
    (entry : BitVec 128)
    (hentry : entry = packEntry ((prefPop ws (8 * (j / 8)) - prefPop ws (8 * (S * (j / 8 / S)))) % 2 ^ 32)
      (blockLoop ((ws.drop (8 * (j / 8))).take 8) 0 (List.replicate 7 0) 0).1) :
    ((if j / 8 / S > 0 ∧ j / 8 / S ≤ l0.length then l0.getD (j / 8 / S - 1) 0 else 0) +
      (entry &&& 0xFFFFFFFF#128).toNat % 2 ^ 64 +
      (if j % 8 = 0 then 0 else ((entry >>> (32 + (j % 8 - 1) * 9)) &&& 0x1FF#128).toNat % 2 ^ 64))
      % 2 ^ 64 = prefPop ws j := by
  have hb : j / 8 ≤ NB - 1 := by omega
  have hPj : prefPop ws j ≤ 64 * ws.length := Nat.le_trans (prefPop_le_total ws j) (sum_popc_le ws)
  have e2 : 8 * (j / 8) + j % 8 = j := by omega
  have hblen : ((ws.drop (8 * (j / 8))).take 8).length = min 8 (ws.length - 8 * (j / 8)) := by simp
  generalize hb8 : j / 8 = b at *
  -- L0 term
  have hl0v : (if b / S > 0 ∧ b / S ≤ l0.length then l0.getD (b / S - 1) 0 else 0) =
      prefPop ws (8 * (S * (b / S))) := by
    have hle : b / S ≤ (NB - 1) / S := Nat.div_le_div_right hb
    have hlen : l0.length = (NB - 1) / S := by rw [hl0]; simp
    rw [hlen]
    generalize b / S = q at *
    generalize (NB - 1) / S = K at *
    by_cases h0 : q > 0
    · rw [if_pos ⟨h0, hle⟩, hl0, l0_lookup _ S K q h0 hle, Nat.mul_comm q S]
    · have : q = 0 := by omega
      subst this
      rw [if_neg (by omega)]; simp [prefPop_zero]
  rw [hl0v]
  obtain ⟨hsb, hl1⟩ := l1_bound ws S b hS0 hS
  obtain ⟨f1, f2, f3⟩ := l2_fields ws b
  have hun := packEntry_unpack ((prefPop ws (8 * b) - prefPop ws (8 * (S * (b / S)))) % 2 ^ 32)
    (blockLoop ((ws.drop (8 * b)).take 8) 0 (List.replicate 7 0) 0).1
    (Nat.mod_lt _ (by omega)) f1 (fun t ht => by have := f2 t ht; omega)
  rw [← hentry] at hun
  rw [hun.1, Nat.mod_eq_of_lt hl1]
  generalize prefPop ws (8 * (S * (b / S))) = B at *
  by_cases hw : j % 8 = 0
  · rw [if_pos hw]
    have : 8 * b = j := by omega
    rw [this] at hsb hl1 ⊢
    rw [Nat.mod_eq_of_lt (by omega), Nat.mod_eq_of_lt (by omega)]; omega
  · rw [if_neg hw, hun.2 (j % 8 - 1) (by omega), f3 (j % 8) (by omega) (by rw [hblen]; omega)]
    have hadd := prefPop_add ws (8 * b) (j % 8)
    rw [e2] at hadd
    generalize (((ws.drop (8 * b)).take (j % 8)).map popc).sum = L at *
    rw [Nat.mod_eq_of_lt (by omega), Nat.mod_eq_of_lt (by omega), Nat.mod_eq_of_lt (by omega)]
    omega


/-- **Rank directory correctness.**  For every word index inside the vector, `rank_at_word` on the
directory `build` produced is the number of set bits in the preceding words — through the real
L0 / u32-L1 / 9-bit-L2 encoding, for vectors of any size below 2^64 bits. -/
theorem rankAtWord_buildRank (ws : List (BitVec 64)) (hsz : 64 * ws.length < 2 ^ 64) (j : Nat)
    (hj : j < ws.length) : rankAtWord (buildRank ws) j = prefPop ws j := by
  have hne : ws.isEmpty = false := by cases ws <;> simp_all
  have hgo := buildGo_eq ws hsz ((ws.length + 8 - 1) / 8) 0
  simp only [Nat.mul_zero, List.drop_zero, prefPop_zero, baseBefore, if_true] at hgo
  rw [← List.range_eq_range', filter_super, List.map_map] at hgo
  unfold buildRank
  simp only [hne, wpb_eq, hgo, Bool.false_eq_true, if_false]
  generalize hNB : (ws.length + 8 - 1) / 8 = NB
  have hb : j / 8 < NB := by omega
  unfold rankAtWord
  have hlen : ((List.range NB).map (expEntry ws)).length = NB := by simp
  have hne2 : ((List.range NB).map (expEntry ws)).isEmpty = false := by
    rw [List.isEmpty_eq_false_iff]; intro h; rw [h] at hlen; simp at hlen; omega
  simp only [hne2, wpb_eq, hlen, Bool.false_eq_true, if_false]
  have hmin : min (j / 8) (NB - 1) = j / 8 := by omega
  rw [hmin]
  have hentry : ((List.range NB).map (expEntry ws)).getD (j / 8) 0 = expEntry ws (j / 8) := by
    rw [List.getD_eq_getElem?_getD, List.getElem?_map, List.getElem?_range (by omega)]
    simp
  rw [hentry]
  exact rankAt_closed ws hsz Gen.RANK_BLOCKS_PER_SUPERBLOCK NB j consts_ok.2.1 consts_ok.2.2 hNB.symm hj
    _ rfl _ rfl


/-! ### the built vector -/

/-- Size hypothesis: no `usize` computation of the build can wrap (`next_sample + rate` is the
largest value formed). -/
def Fits (ws : List (BitVec 64)) : Prop := 64 * ws.length + 2 ^ 32 ≤ 2 ^ 64

/-- `with_config` on an in-capacity length: the structure it returns. -/
theorem withConfig_eq (pc : BitVec 64 → Nat) (ws : List (BitVec 64)) (len rate : Nat)
    (hlen : len ≤ 64 * ws.length) (hf : Fits ws) :
    withConfig pc ws len rate = some
      { words := maskWords ws len, len := len, ones := popcountWords pc (maskWords ws len),
        dir := buildRank (maskWords ws len),
        sel := buildSelect (maskWords ws len) (popcountWords pc (maskWords ws len)) rate } := by
  unfold Fits at hf
  unfold withConfig
  have : ¬ len > min (ws.length * 64) (2 ^ 64 - 1) := by omega
  rw [if_neg this]

/-- `with_config` panics exactly when `len` exceeds the capacity. -/
theorem withConfig_none (pc : BitVec 64 → Nat) (ws : List (BitVec 64)) (len rate : Nat)
    (hlen : len > 64 * ws.length) : withConfig pc ws len rate = none := by
  unfold withConfig
  have : len > min (ws.length * 64) (2 ^ 64 - 1) := by omega
  rw [if_pos this]

theorem ones_eq (pc : BitVec 64 → Nat) (hpc : ∀ w, pc w = popcount w) (ws : List (BitVec 64)) (len : Nat)
    (hlen : len ≤ 64 * ws.length) (hf : Fits ws) :
    popcountWords pc (maskWords ws len) = (bitsOf ws len).count true := by
  unfold Fits at hf
  rw [popcountWords_eq pc hpc _ (by rw [maskWords_length ws len hlen]; omega), count_maskWords ws len hlen]

theorem rankB_maskWords (b : Bool) (ws : List (BitVec 64)) (len i : Nat) (hlen : len ≤ 64 * ws.length)
    (hi : i ≤ len) : rankB b (bitsOf ws len) i = ((allBits (maskWords ws len)).take i).count b := by
  unfold rankB
  rw [allBits_maskWords ws len hlen, List.take_append_of_le_length (by rw [bitsOf_length ws len hlen]; exact hi)]

theorem rank1_exact_aux (pc : BitVec 64 → Nat) (hpc : ∀ w, pc w = popcount w) (ws : List (BitVec 64))
    (len rate : Nat) (hlen : len ≤ 64 * ws.length) (hf : Fits ws) (b : BVec)
    (hb : withConfig pc ws len rate = some b) (i : Nat) :
    rank1 pc b i = rankB true (bitsOf ws len) i := by
  rw [withConfig_eq pc ws len rate hlen hf] at hb
  injection hb with hb; subst hb
  unfold rank1
  simp only
  by_cases h0 : i = 0
  · subst h0; simp [rankB]
  · rw [if_neg h0]
    by_cases hge : i ≥ len
    · rw [if_pos hge, ones_eq pc hpc ws len hlen hf]
      unfold rankB
      rw [List.take_of_length_le (by rw [bitsOf_length ws len hlen]; exact hge)]
    · rw [if_neg hge]
      have hmlen := maskWords_length ws len hlen
      have hwi : i / 64 < (maskWords ws len).length := by rw [hmlen]; omega
      have hsz : 64 * (maskWords ws len).length < 2 ^ 64 := by unfold Fits at hf; rw [hmlen]; omega
      rw [rankAtWord_buildRank _ hsz _ hwi, hpc, rankB_maskWords true ws len i hlen (by omega)]
      have hi : i = 64 * (i / 64) + i % 64 := by omega
      conv => rhs; rw [hi, take_allBits _ _ _ hwi (by omega)]
      rw [List.count_append, prefPop_eq_count]
      congr 1
      unfold popcount
      rw [wordBits_and_mask _ _ (Nat.mod_lt _ (by omega)), List.count_append, List.count_replicate]
      simp


theorem count_true_add_false (l : List Bool) : l.count true + l.count false = l.length := by
  induction l with
  | nil => rfl
  | cons x xs ih => cases x <;> simp <;> omega

theorem rankB_true_add_false (bs : List Bool) (i : Nat) :
    rankB true bs i + rankB false bs i = min i bs.length := by
  unfold rankB; rw [count_true_add_false, List.length_take]

theorem rankB_le (b : Bool) (bs : List Bool) (i : Nat) : rankB b bs i ≤ min i bs.length := by
  unfold rankB
  have := List.count_le_length (a := b) (l := bs.take i)
  rwa [List.length_take] at this

/-- `rank0`: the subtraction `i.min(len) - rank1(i)` never underflows and is the zero count. -/
theorem rank0_exact_aux (pc : BitVec 64 → Nat) (hpc : ∀ w, pc w = popcount w) (ws : List (BitVec 64))
    (len rate : Nat) (hlen : len ≤ 64 * ws.length) (hf : Fits ws) (b : BVec)
    (hb : withConfig pc ws len rate = some b) (i : Nat) :
    rank1 pc b i ≤ min i b.len ∧ rank0 pc b i = rankB false (bitsOf ws len) i := by
  have h1 := rank1_exact_aux pc hpc ws len rate hlen hf b hb i
  have hbl : b.len = len := by
    rw [withConfig_eq pc ws len rate hlen hf] at hb; injection hb with hb; subst hb; rfl
  have h2 := rankB_true_add_false (bitsOf ws len) i
  rw [bitsOf_length ws len hlen] at h2
  unfold rank0
  rw [h1, hbl]
  omega

/-- `count_ones` / `count_zeros` (`len - ones_count` never underflows). -/
theorem count_exact_aux (pc : BitVec 64 → Nat) (hpc : ∀ w, pc w = popcount w) (ws : List (BitVec 64))
    (len rate : Nat) (hlen : len ≤ 64 * ws.length) (hf : Fits ws) (b : BVec)
    (hb : withConfig pc ws len rate = some b) :
    countOnes b = countB true (bitsOf ws len) ∧ b.ones ≤ b.len ∧
    countZeros b = countB false (bitsOf ws len) := by
  rw [withConfig_eq pc ws len rate hlen hf] at hb
  injection hb with hb; subst hb
  unfold countOnes countZeros countB
  simp only
  have h1 := ones_eq pc hpc ws len hlen hf
  have h2 := count_true_add_false (bitsOf ws len)
  rw [bitsOf_length ws len hlen] at h2
  rw [h1]
  omega

theorem and_one_eq_one (x : BitVec 64) : ((x &&& 1#64) == 1#64) = x.getLsbD 0 := by
  have : (x &&& 1#64 = 1#64) ↔ x.getLsbD 0 = true := by
    constructor
    · intro h; bv_decide
    · intro h; bv_decide
  cases hx : x.getLsbD 0 <;> simp_all

theorem allBits_getElem? (ws : List (BitVec 64)) (i : Nat) (hi : i / 64 < ws.length) :
    (allBits ws)[i]? = some ((ws.getD (i / 64) 0).getLsbD (i % 64)) := by
  have h1 : i = 64 * (i / 64) + i % 64 := by omega
  have h2 : (allBits ws)[i]? = ((allBits ws).drop (64 * (i / 64)))[i % 64]? := by
    rw [List.getElem?_drop]; congr 1
  rw [h2, drop_allBits_mul, ← List.getElem_cons_drop hi, allBits_cons,
    List.getElem?_append_left (by rw [wordBits_length]; omega)]
  rw [List.getElem?_eq_getElem (by rw [wordBits_length]; omega), wordBits_getElem]
  simp [List.getD_eq_getElem?_getD, hi]

/-- `get`: the bit for `i < len`, the documented panic (`none`) exactly for `i ≥ len`. -/
theorem get_exact_aux (pc : BitVec 64 → Nat) (ws : List (BitVec 64))
    (len rate : Nat) (hlen : len ≤ 64 * ws.length) (hf : Fits ws) (b : BVec)
    (hb : withConfig pc ws len rate = some b) (i : Nat) :
    get b i = (bitsOf ws len)[i]? := by
  rw [withConfig_eq pc ws len rate hlen hf] at hb
  injection hb with hb; subst hb
  unfold get
  simp only
  by_cases hi : i < len
  · rw [if_pos hi, and_one_eq_one, BitVec.getLsbD_ushiftRight, Nat.add_zero]
    have hm := allBits_maskWords ws len hlen
    have hwi : i / 64 < (maskWords ws len).length := by rw [maskWords_length ws len hlen]; omega
    have := allBits_getElem? (maskWords ws len) i hwi
    rw [hm, List.getElem?_append_left (by rw [bitsOf_length ws len hlen]; exact hi)] at this
    rw [this]
  · rw [if_neg hi, List.getElem?_eq_none (by rw [bitsOf_length ws len hlen]; omega)]


/-! ### select index -/

/-- The `while` loop of `SelectIndex::build` for one word: every sample pushed is
`(word_idx, count)`, `next_sample` advances by `rate` per sample without wrapping, and with fuel
above `count + pop - next_sample` the loop has left through its condition. -/
theorem sampleWhile_spec (total cnt pop rate wi : Nat) (hr : 1 ≤ rate) (hw : total + rate ≤ 2 ^ 64)
    (fuel next : Nat) (hfuel : cnt + pop - next < fuel) :
    (∀ s ∈ (sampleWhile total cnt pop rate wi fuel next).1, s = ⟨wi, cnt⟩) ∧
    (sampleWhile total cnt pop rate wi fuel next).2 =
      next + (sampleWhile total cnt pop rate wi fuel next).1.length * rate ∧
    ¬ ((sampleWhile total cnt pop rate wi fuel next).2 < total ∧
        cnt + pop > (sampleWhile total cnt pop rate wi fuel next).2) := by
  induction fuel generalizing next with
  | zero => omega
  | succ fuel ih =>
    unfold sampleWhile
    by_cases hc : next < total ∧ cnt + pop > next
    · rw [if_pos hc]
      have hm : (next + rate) % 2 ^ 64 = next + rate := Nat.mod_eq_of_lt (by omega)
      rw [hm]
      obtain ⟨i1, i2, i3⟩ := ih (next + rate) (by omega)
      refine ⟨?_, ?_, i3⟩
      · intro s hs
        simp only [List.mem_cons] at hs
        rcases hs with rfl | hs
        · rfl
        · exact i1 s hs
      · simp only [List.length_cons]
        rw [i2, Nat.add_mul]; omega
    · rw [if_neg hc]
      exact ⟨by simp, by simp, hc⟩

/-- Invariant of the sample list produced from word `wi` on: sample number `m` (counted from the
current position) names a word of the remaining slice, records exactly the ones before that word,
and that count is at most `next + m · rate`. -/
theorem sampleGo_spec (total rate : Nat) (hr : 1 ≤ rate) (hw : total + rate ≤ 2 ^ 64)
    (rest : List (BitVec 64)) (wi cnt next : Nat) (hcn : cnt ≤ next)
    (htot : cnt + (rest.map popc).sum ≤ total) (m : Nat)
    (hm : m < (sampleGo total rate rest wi cnt next).length) :
    let s := (sampleGo total rate rest wi cnt next).getD m ⟨0, 0⟩
    wi ≤ s.wordIdx ∧ s.wordIdx < wi + rest.length ∧
    s.cumBefore = cnt + ((rest.take (s.wordIdx - wi)).map popc).sum ∧
    s.cumBefore ≤ next + m * rate := by
  induction rest generalizing wi cnt next m with
  | nil => simp [sampleGo] at hm
  | cons w rest ih =>
    simp only [List.map_cons, List.sum_cons] at htot
    have hsw := sampleWhile_spec total cnt (popc w) rate wi hr hw (popc w + 1) next (by omega)
    unfold sampleGo at hm ⊢
    simp only at hm ⊢
    generalize sampleWhile total cnt (popc w) rate wi (popc w + 1) next = r at *
    obtain ⟨h1, h2, h3⟩ := hsw
    have hcm : (cnt + popc w) % 2 ^ 64 = cnt + popc w := Nat.mod_eq_of_lt (by omega)
    rw [hcm] at hm ⊢
    by_cases hlt : m < r.1.length
    · have hs : (r.1 ++ sampleGo total rate rest (wi + 1) (cnt + popc w) r.2).getD m ⟨0, 0⟩ = ⟨wi, cnt⟩ := by
        rw [List.getD_eq_getElem?_getD, List.getElem?_append_left hlt, List.getElem?_eq_getElem hlt]
        exact h1 _ (List.getElem_mem hlt)
      rw [hs]
      simp
      omega
    · have hge : r.1.length ≤ m := by omega
      rw [List.length_append] at hm
      have hs : (r.1 ++ sampleGo total rate rest (wi + 1) (cnt + popc w) r.2).getD m ⟨0, 0⟩ =
          (sampleGo total rate rest (wi + 1) (cnt + popc w) r.2).getD (m - r.1.length) ⟨0, 0⟩ := by
        rw [List.getD_eq_getElem?_getD, List.getElem?_append_right hge, List.getD_eq_getElem?_getD]
      rw [hs]
      have hcn' : cnt + popc w ≤ r.2 := by omega
      obtain ⟨j1, j2, j3, j4⟩ := ih (wi + 1) (cnt + popc w) r.2 hcn' (by omega) (m - r.1.length) (by omega)
      generalize (sampleGo total rate rest (wi + 1) (cnt + popc w) r.2).getD (m - r.1.length) ⟨0, 0⟩ = s at *
      refine ⟨by omega, by simp only [List.length_cons]; omega, ?_, ?_⟩
      · have e : s.wordIdx - wi = (s.wordIdx - (wi + 1)) + 1 := by omega
        rw [j3, e, List.take_succ_cons, List.map_cons, List.sum_cons]; omega
      · have e : m * rate = r.1.length * rate + (m - r.1.length) * rate := by
          rw [← Nat.add_mul]; congr 1; omega
        omega


/-- **Select index invariant + jump.**  On the index built over `mw` (any sample rate, `0` treated
as `1`), `jump_to(k)` returns a start word inside the vector and `k` minus exactly the number of
ones before that word, which is at most `k` (the `usize` subtraction cannot underflow). -/
theorem jumpTo_buildSelect (mw : List (BitVec 64)) (total rate k : Nat) (htot : total = (mw.map popc).sum)
    (hsz : 64 * mw.length + 2 ^ 32 ≤ 2 ^ 64) (hrate : rate < 2 ^ 32) (hne : mw ≠ []) :
    ∃ sw, jumpTo (buildSelect mw total rate) k = (sw, k - prefPop mw sw) ∧ sw < mw.length ∧
      prefPop mw sw ≤ k := by
  have hn : 0 < mw.length := List.length_pos_iff.mpr hne
  unfold buildSelect
  by_cases h0 : mw.isEmpty ∨ total = 0
  · rw [if_pos h0]
    refine ⟨0, ?_, hn, by simp [prefPop_zero]⟩
    simp [jumpTo, prefPop_zero]
  · rw [if_neg h0]
    simp only
    have hr : 1 ≤ max rate 1 := Nat.le_max_right _ _
    have hr2 : max rate 1 < 2 ^ 32 := by omega
    have htl := sum_popc_le mw
    have inv := sampleGo_spec total (max rate 1) hr (by omega) mw 0 0 0 (Nat.le_refl _) (by omega)
    generalize sampleGo total (max rate 1) mw 0 0 0 = samples at *
    generalize max rate 1 = R at *
    unfold jumpTo
    simp only
    by_cases he : samples.isEmpty
    · rw [if_pos he]
      exact ⟨0, by simp [prefPop_zero], hn, by simp [prefPop_zero]⟩
    · rw [if_neg he]
      have hlen : 0 < samples.length := by
        cases samples with
        | nil => simp at he
        | cons _ _ => simp
      have hdiv : k / R * R ≤ k := Nat.div_mul_le_self k R
      by_cases hi : k / R ≥ samples.length
      · rw [if_pos hi]
        obtain ⟨_, j2, j3, j4⟩ := inv (samples.length - 1) (by omega)
        generalize samples.getD (samples.length - 1) ⟨0, 0⟩ = s at *
        simp only [Nat.zero_add, Nat.sub_zero] at j2 j3 j4
        have hmul : (samples.length - 1) * R ≤ k / R * R := Nat.mul_le_mul_right R (by omega)
        refine ⟨s.wordIdx, ?_, j2, ?_⟩
        · rw [j3]; rfl
        · unfold prefPop; omega
      · rw [if_neg hi]
        obtain ⟨_, j2, j3, j4⟩ := inv (k / R) (by omega)
        generalize samples.getD (k / R) ⟨0, 0⟩ = s at *
        simp only [Nat.zero_add, Nat.sub_zero] at j2 j3 j4
        refine ⟨s.wordIdx, ?_, j2, ?_⟩
        · rw [j3]; rfl
        · unfold prefPop; omega


/-! ### select1 -/

theorem selectB_lt_length (b : Bool) (l : List Bool) (k x : Nat) (h : selectB b l k = some x) :
    x < l.length := by
  induction l generalizing k x with
  | nil => simp [selectB] at h
  | cons y ys ih =>
    unfold selectB at h
    split at h
    · cases k with
      | zero => simp at h; subst h; simp
      | succ k =>
        simp only [Option.map_eq_some_iff] at h
        obtain ⟨a, ha, rfl⟩ := h
        have := ih k a ha; simp; omega
    · simp only [Option.map_eq_some_iff] at h
      obtain ⟨a, ha, rfl⟩ := h
      have := ih k a ha; simp; omega

/-- Selecting among the bits of the masked words = selecting among the first `len` bits. -/
theorem selectB_maskWords (ws : List (BitVec 64)) (len k : Nat) (hlen : len ≤ 64 * ws.length) :
    selectB true (allBits (maskWords ws len)) k = selectB true (bitsOf ws len) k := by
  rw [allBits_maskWords ws len hlen, selectB_append]
  split
  · rfl
  · rename_i h
    rw [selectB_none_of_count_le true (List.replicate _ false) _ (by simp [List.count_replicate]),
      selectB_none_of_count_le true (bitsOf ws len) k (by omega)]
    rfl

theorem select1_exact_aux (pc : BitVec 64 → Nat) (hpc : ∀ w, pc w = popcount w) (ws : List (BitVec 64))
    (len rate : Nat) (hlen : len ≤ 64 * ws.length) (hf : Fits ws) (hrate : rate < 2 ^ 32) (b : BVec)
    (hb : withConfig pc ws len rate = some b) (k : Nat) :
    select1 b k = selectB true (bitsOf ws len) k := by
  rw [withConfig_eq pc ws len rate hlen hf] at hb
  injection hb with hb; subst hb
  have hones := ones_eq pc hpc ws len hlen hf
  have hmlen := maskWords_length ws len hlen
  unfold select1
  simp only
  by_cases hk : k ≥ popcountWords pc (maskWords ws len)
  · rw [if_pos hk, selectB_none_of_count_le true _ k (by omega)]
  · rw [if_neg hk]
    rw [← selectB_maskWords ws len k hlen]
    rw [hones, ← count_maskWords ws len hlen] at hk
    generalize hmw : maskWords ws len = mw at *
    have hne : mw ≠ [] := by
      intro h; subst h; simp [allBits] at hk
    have htot : popcountWords pc mw = (mw.map popc).sum := by
      rw [hones, ← hmw, ← count_maskWords ws len hlen, hmw, count_allBits, map_popc]
    obtain ⟨sw, hj, hsw, hle⟩ := jumpTo_buildSelect mw (popcountWords pc mw) rate k htot
      (by unfold Fits at hf; omega) hrate hne
    rw [hj]
    simp only
    rw [scanSelect_eq_scalar]
    unfold scanSelectScalar
    rw [if_neg (by omega)]
    -- split the bits at the start word
    have hsplit : allBits mw = allBits (mw.take sw) ++ allBits (mw.drop sw) := by
      rw [← allBits_append, List.take_append_drop]
    have hcnt : (allBits (mw.take sw)).count true = prefPop mw sw := (prefPop_eq_count mw sw).symm
    have hsel : selectB true (allBits mw) k =
        (selectB true (allBits (mw.drop sw)) (k - prefPop mw sw)).map (· + 64 * sw) := by
      rw [hsplit, selectB_append, hcnt, if_neg (by omega), allBits_length, List.length_take,
        Nat.min_eq_left (by omega)]
    have hspec := scanScalar_spec popc Kernels.popc_eq_popcount (mw.drop sw) sw (k - prefPop mw sw)
    cases hscan : scanScalar popc (mw.drop sw) sw (k - prefPop mw sw) with
    | none =>
      rw [hscan] at hspec
      -- impossible: the remaining slice holds more than `k - before` ones
      have : (allBits mw).count true = prefPop mw sw + (allBits (mw.drop sw)).count true := by
        rw [hsplit, List.count_append, hcnt]
      omega
    | some ir =>
      obtain ⟨i, r⟩ := ir
      rw [hscan] at hspec
      obtain ⟨h1, h2, h3, h4⟩ := hspec
      simp only
      have hw : (mw.drop sw).getD (i - sw) 0 = mw.getD i 0 := by
        rw [List.getD_eq_getElem?_getD, List.getElem?_drop, List.getD_eq_getElem?_getD]
        congr 2; omega
      rw [hw] at h3 h4
      have hr64 : r < 64 := by have := Kernels.popcount_le (mw.getD i 0); omega
      rw [Nat.mod_eq_of_lt (show r < 2 ^ 32 by omega)]
      have hsome := selectB_isSome_of_lt true (wordBits (mw.getD i 0)) r h4
      obtain ⟨p, hp⟩ := Option.isSome_iff_exists.mp hsome
      have hsw : selectInWordSpec (mw.getD i 0) r = p := by unfold selectInWordSpec; rw [hp]; rfl
      rw [hsw, hsel, h3, hp]
      simp only [Option.map_some]
      have hres : p + 64 * (i - sw) + 64 * sw = i * 64 + p := by omega
      rw [hres]
      -- the guard `result < len`
      have hx : selectB true (bitsOf ws len) k = some (i * 64 + p) := by
        rw [← selectB_maskWords ws len k hlen, hmw, hsel, h3, hp]; simp only [Option.map_some]; rw [hres]
      have := selectB_lt_length true _ _ _ hx
      rw [bitsOf_length ws len hlen] at this
      rw [if_pos this]


/-! ### select0 (binary search over rank0) -/

theorem rankB_succ_le (b : Bool) (bs : List Bool) (p : Nat) :
    rankB b bs p ≤ rankB b bs (p + 1) ∧ rankB b bs (p + 1) ≤ rankB b bs p + 1 := by
  unfold rankB
  rw [List.take_add_one, List.count_append]
  cases bs[p]? with
  | none => simp
  | some x => simp [List.count_cons]; split <;> omega

theorem rankB_cons_succ (b x : Bool) (xs : List Bool) (p : Nat) :
    rankB b (x :: xs) (p + 1) = (if x = b then 1 else 0) + rankB b xs p := by
  unfold rankB
  rw [List.take_succ_cons, List.count_cons]
  by_cases h : x = b <;> simp [h] <;> omega

/-- The position with exactly `k` `b`-bits before it that is itself a `b`-bit is `select b k`. -/
theorem selectB_of_rank (b : Bool) (bs : List Bool) (p k : Nat)
    (h1 : rankB b bs p = k) (h2 : rankB b bs (p + 1) = k + 1) : selectB b bs k = some p := by
  induction bs generalizing p k with
  | nil => simp [rankB] at h2
  | cons x xs ih =>
    cases p with
    | zero =>
      rw [rankB_cons_succ] at h2
      have hk : k = 0 := by rw [← h1]; simp [rankB]
      subst hk
      by_cases hx : x = b
      · simp [selectB, hx]
      · simp [hx, rankB] at h2
    | succ p =>
      rw [rankB_cons_succ] at h1 h2
      by_cases hx : x = b
      · simp only [hx, if_true] at h1 h2
        cases k with
        | zero => omega
        | succ k =>
          have := ih p k (by omega) (by omega)
          simp [selectB, hx, this]
      · simp only [hx, if_false, Nat.zero_add] at h1 h2
        have := ih p k h1 h2
        simp [selectB, hx, this]

/-- The binary-search loop: if `rank0` agrees with a function `f` and `f lo ≤ k < f (hi + 1)`,
the loop (with fuel above `hi - lo`) ends at a position `p` with `f p ≤ k < f (p + 1)`. -/
theorem select0Loop_spec (pc : BitVec 64 → Nat) (b : BVec) (k : Nat) (f : Nat → Nat)
    (hf : ∀ i, rank0 pc b i = f i) (fuel lo hi : Nat) (hfuel : hi - lo < fuel) (hle : lo ≤ hi)
    (hlo : f lo ≤ k) (hhi : k < f (hi + 1)) :
    f (select0Loop pc b k fuel lo hi) ≤ k ∧ k < f (select0Loop pc b k fuel lo hi + 1) := by
  induction fuel generalizing lo hi with
  | zero => omega
  | succ fuel ih =>
    unfold select0Loop
    by_cases hlt : lo < hi
    · rw [if_pos hlt]
      simp only
      rw [hf]
      by_cases hm : f (lo + (hi - lo) / 2 + 1) > k
      · rw [if_pos hm]
        exact ih lo (lo + (hi - lo) / 2) (by omega) (by omega) hlo hm
      · rw [if_neg hm]
        exact ih (lo + (hi - lo) / 2 + 1) hi (by omega) (by omega) (by omega) hhi
    · rw [if_neg hlt]
      have : lo = hi := by omega
      subst this
      exact ⟨hlo, hhi⟩

theorem select0_exact_aux (pc : BitVec 64 → Nat) (hpc : ∀ w, pc w = popcount w) (ws : List (BitVec 64))
    (len rate : Nat) (hlen : len ≤ 64 * ws.length) (hf : Fits ws) (b : BVec)
    (hb : withConfig pc ws len rate = some b) (k : Nat) :
    select0 pc b k = selectB false (bitsOf ws len) k := by
  have hr0 : ∀ i, rank0 pc b i = rankB false (bitsOf ws len) i :=
    fun i => (rank0_exact_aux pc hpc ws len rate hlen hf b hb i).2
  obtain ⟨_, _, hz⟩ := count_exact_aux pc hpc ws len rate hlen hf b hb
  have hbl : b.len = len := by
    rw [withConfig_eq pc ws len rate hlen hf] at hb; injection hb with hb; subst hb; rfl
  unfold select0
  rw [hz]
  unfold countB
  by_cases hk : k ≥ (bitsOf ws len).count false
  · rw [if_pos hk, selectB_none_of_count_le false _ k hk]
  · rw [if_neg hk]
    have hfull : rankB false (bitsOf ws len) (len + 1) = (bitsOf ws len).count false := by
      unfold rankB; rw [List.take_of_length_le (by rw [bitsOf_length ws len hlen]; omega)]
    have hsp := select0Loop_spec pc b k (rankB false (bitsOf ws len)) hr0 (b.len + 1) 0 b.len
      (by omega) (by omega) (by simp [rankB]) (by rw [hbl, hfull]; omega)
    generalize select0Loop pc b k (b.len + 1) 0 b.len = p at *
    have hstep := rankB_succ_le false (bitsOf ws len) p
    rw [selectB_of_rank false (bitsOf ws len) p k (by omega) (by omega)]


end SV.BV
