/-
Proof/BitVec — helper lemmas for C01 (BitVec rank / select / access).
-/
import Std.Tactic.BVDecide
import SuccinctlyVerif.Spec.Bits
import SuccinctlyVerif.Model.BitVec
import SuccinctlyVerif.Proof.Kernels
import SuccinctlyVerif.Proof.Scan
namespace SV.BV
open SV

/-- Width side conditions on the generated constants: a rank block is 8 words (so the seven 9-bit
L2 offsets and the literal `i < 8` cover it) and a superblock's relative rank fits `u32`. -/
theorem consts_ok :
    Gen.RANK_WORDS_PER_BLOCK = 8 ∧ 0 < Gen.RANK_BLOCKS_PER_SUPERBLOCK ∧
    Gen.RANK_BLOCKS_PER_SUPERBLOCK * 512 ≤ 2 ^ 32 := by decide

end SV.BV
