/-
Proof/BPIndex2 — L1 and L2 entries (scalar builders) summarise their 2048-bit / 65536-bit blocks;
sizes of the three levels (C04).
-/
import SuccinctlyVerif.Proof.BPIndex
namespace SV.BPI
open SV SV.BP SV.BPM SV.BPP SV.BPW SV.BPS SV.BPC

theorem chunksOf_map {α β} (g : α → β) (k f : Nat) (l : List α) :
    chunksOf k f (l.map g) = (chunksOf k f l).map (List.map g) := by
  induction f generalizing l with
  | zero => rfl
  | succ f ih =>
    unfold chunksOf
    by_cases h : l.isEmpty
    · have : l = [] := by simpa using h
      subst this; simp
    · have h' : (l.map g).isEmpty = false := by
        cases l with
        | nil => simp at h
        | cons _ _ => simp
      simp only [h', Bool.false_eq_true, if_false, h]
      rw [← List.map_take, ← List.map_drop, ih]
      simp

theorem chunks_getElem? (f s m j : Nat) (hf : m ≤ f) :
    (chunksOf 32 f (List.range' s m))[j]? =
      if 32 * j < m then some (List.range' (s + 32 * j) (min 32 (m - 32 * j))) else none := by
  induction f generalizing s m j with
  | zero =>
    have : m = 0 := by omega
    subst this; simp [chunksOf]
  | succ f ih =>
    by_cases hm : m = 0
    · subst hm; simp [chunksOf]
    · rw [BPR.chunksOf_range' 32 f s m (by omega)]
      cases j with
      | zero => simp; omega
      | succ j =>
        rw [List.getElem?_cons_succ, ih (s + 32) (m - 32) j (by omega)]
        have e1 : s + 32 + 32 * j = s + 32 * (j + 1) := by omega
        have e2 : m - 32 - 32 * j = m - 32 * (j + 1) := by omega
        rw [e1, e2]
        by_cases h : 32 * (j + 1) < m
        · have : 32 * j < m - 32 := by omega
          simp [h, this]
        · have : ¬ 32 * j < m - 32 := by omega
          simp [h, this]

/-- One level up: folding groups of 32 block summaries gives the summaries of the 32×-larger
blocks. -/
theorem level_up (bits : List Bool) (u cnt : Nat) (F : List (Int × Int) → Int × Int)
    (hF : ∀ s m, m ≤ 32 → F ((List.range' s m).map fun i => summ (blk bits u (u * i))) = summ (blk bits (u * m) (u * s)))
    (hcover : bits.length ≤ u * cnt) :
    (chunksOf 32 cnt ((List.range' 0 cnt).map fun i => summ (blk bits u (u * i)))).map F =
      (List.range' 0 ((cnt + 31) / 32)).map fun j => summ (blk bits (32 * u) ((32 * u) * j)) := by
  rw [chunksOf_map]
  apply List.ext_getElem?
  intro j
  rw [List.getElem?_map, List.getElem?_map, chunks_getElem? cnt 0 cnt j (Nat.le_refl _)]
  by_cases hj : 32 * j < cnt
  · have hj2 : j < (cnt + 31) / 32 := by omega
    simp only [hj, if_true, Option.map_some, Nat.zero_add]
    rw [List.getElem?_map, List.getElem?_range' hj2, hF _ _ (by omega)]
    simp only [Option.map_some, Nat.zero_add, Nat.one_mul]
    congr 2
    unfold blk
    have e : u * (32 * j) = 32 * u * j := by
      rw [← Nat.mul_assoc, Nat.mul_comm u 32]
    rw [e]
    by_cases hfull : 32 ≤ cnt - 32 * j
    · have : min 32 (cnt - 32 * j) = 32 := by omega
      rw [this, Nat.mul_comm u 32]
    · have hmin : min 32 (cnt - 32 * j) = cnt - 32 * j := by omega
      rw [hmin]
      have hlen : (bits.drop (32 * u * j)).length ≤ u * (cnt - 32 * j) := by
        rw [List.length_drop, Nat.mul_sub, ← Nat.mul_assoc, Nat.mul_comm u 32]
        omega
      have hle : u * (cnt - 32 * j) ≤ 32 * u := by
        rw [Nat.mul_comm 32 u]; exact Nat.mul_le_mul_left u (by omega)
      rw [List.take_of_length_le hlen, List.take_of_length_le (by omega)]
  · have hj2 : ¬ j < (cnt + 31) / 32 := by omega
    simp only [hj, if_false, Option.map_none]
    symm
    rw [List.getElem?_eq_none (by simp; omega)]

theorem foldI16_summ (bits : List Bool) (s m : Nat) (hm : m ≤ 32) :
    foldI16 ((List.range' s m).map fun i => summ (blk bits 64 (64 * i))) 0 0 = summ (blk bits (64 * m) (64 * s)) := by
  rw [foldI16_blocks bits 64 s m 0 0 (by omega) (by omega) (by omega)]
  have := minExc_le_zero (blk bits (64 * m) (64 * s))
  unfold summ; congr 1 <;> omega

theorem foldI32_summ (bits : List Bool) (s m : Nat) (hm : m ≤ 32) :
    foldI32 ((List.range' s m).map fun i => summ (blk bits 2048 (2048 * i))) 0 0 =
      summ (blk bits (2048 * m) (2048 * s)) := by
  rw [foldI32_blocks bits 2048 s m 0 0 (by omega) (by omega) (by omega)]
  have := minExc_le_zero (blk bits (2048 * m) (2048 * s))
  unfold summ; congr 1 <;> omega

/-- **Index exactness** (scalar builders): for `|st| = ⌈len/64⌉`, every L0 / L1 / L2 entry is the
(minimum prefix excess, total excess) of the bits of its 64- / 2048- / 65536-bit block; the `i8`
clamp, the `i16` fold (`64 · FACTOR_L1 = 2048 ≤ 2^15`) and the `i32` fold
(`64 · FACTOR_L1 · FACTOR_L2 = 65536 ≤ 2^31`) lose nothing. -/
theorem index_exact (st : List (BitVec 64)) (len : Nat) (hw : st.length = (len + 63) / 64) (hne : st ≠ []) :
    let bits := bitsOf st len
    let n := st.length
    buildL0 st len = ((List.range' 0 n).map fun i => summ (blk bits 64 (64 * i))) ∧
    buildL1 (buildL0 st len) = ((List.range' 0 ((n + 31) / 32)).map fun j => summ (blk bits 2048 (2048 * j))) ∧
    buildL2 (buildL1 (buildL0 st len)) =
      ((List.range' 0 (((n + 31) / 32 + 31) / 32)).map fun j => summ (blk bits 65536 (65536 * j))) := by
  have h0 := buildL0_eq st len hw hne
  have hl := bitsOf_length st len (by omega)
  have h32a : Gen.BP_FACTOR_L1 = 32 := rfl
  have h32b : Gen.BP_FACTOR_L2 = 32 := rfl
  have h1 : buildL1 (buildL0 st len) =
      ((List.range' 0 ((st.length + 31) / 32)).map fun j => summ (blk (bitsOf st len) 2048 (2048 * j))) := by
    unfold buildL1
    rw [h32a, h0]
    simp only [List.length_map, List.length_range']
    exact level_up (bitsOf st len) 64 st.length (fun c => foldI16 c 0 0)
      (fun s m hm => foldI16_summ _ s m hm) (by omega)
  refine ⟨h0, h1, ?_⟩
  unfold buildL2
  rw [h32b, h1]
  simp only [List.length_map, List.length_range']
  exact level_up (bitsOf st len) 2048 ((st.length + 31) / 32) (fun c => foldI32 c 0 0)
    (fun s m hm => foldI32_summ _ s m hm) (by omega)

end SV.BPI
