/-
Proof/BPSample — the sampling loop shared by `SelectIndex::build` and `WithCsPoppy::build_with_rate`:
sample `i` names the word that holds the `(i·rate)`-th 1-bit, with the count of 1-bits before that
word (C04).
-/
import SuccinctlyVerif.Proof.BPRank
namespace SV.BPQ
open SV SV.BPM

/-- 1-bits of the raw stored words before word `a`. -/
def rawCum (st : List (BitVec 64)) (a : Nat) : Nat := ((st.take a).map popc).sum

theorem rawCum_succ (st : List (BitVec 64)) (a : Nat) (h : a < st.length) :
    rawCum st (a + 1) = rawCum st a + popc (st.getD a 0) := by
  unfold rawCum
  rw [List.take_succ_eq_append_getElem h, List.map_append, List.sum_append]
  simp [List.getD_eq_getElem?_getD, List.getElem?_eq_getElem h]

/-- Sample number `i` is `(word, ones before word)` for the word holding the `(i·rate)`-th one. -/
def Good (st : List (BitVec 64)) (rate i : Nat) (x : Nat × Nat) : Prop :=
  x.2 = rawCum st x.1 ∧ x.1 < st.length ∧ x.2 ≤ i * rate ∧ i * rate < x.2 + popc (st.getD x.1 0)

def GoodAll (st : List (BitVec 64)) (rate : Nat) (l : List (Nat × Nat)) : Prop :=
  ∀ i, i < l.length → Good st rate i (l.getD i (0, 0))

def Inv (st : List (BitVec 64)) (rate : Nat) (acc : List (Nat × Nat)) (next : Nat) : Prop :=
  next = acc.length * rate ∧ GoodAll st rate acc.reverse

theorem goodAll_snoc (st : List (BitVec 64)) (rate : Nat) (acc : List (Nat × Nat)) (x : Nat × Nat)
    (h : GoodAll st rate acc.reverse) (hx : Good st rate acc.length x) : GoodAll st rate (x :: acc).reverse := by
  intro i hi
  simp only [List.reverse_cons, List.length_append, List.length_reverse, List.length_cons, List.length_nil] at hi
  rw [List.reverse_cons]
  by_cases hlt : i < acc.length
  · have := h i (by simpa using hlt)
    rw [List.getD_eq_getElem?_getD, List.getElem?_append_left (by simpa using hlt), ← List.getD_eq_getElem?_getD]
    exact this
  · have : i = acc.length := by omega
    subst this
    rw [List.getD_eq_getElem?_getD, List.getElem?_append_right (by simp)]
    simpa using hx

theorem sampleGo_spec (st : List (BitVec 64)) (rate T wi : Nat) (hrate : 1 ≤ rate) (hwi : wi < st.length)
    (f next : Nat) (acc : List (Nat × Nat))
    (hinv : Inv st rate acc next) (hJ : rawCum st wi ≤ next ∨ T ≤ next)
    (hf : T ≤ next ∨ rawCum st wi + popc (st.getD wi 0) - next < f) :
    let r := sampleGo rate T wi (rawCum st wi) (popc (st.getD wi 0)) f next acc
    Inv st rate r.2 r.1 ∧ (rawCum st wi + popc (st.getD wi 0) ≤ r.1 ∨ T ≤ r.1) ∧ acc.length ≤ r.2.length ∧
      (next < T ∧ rawCum st wi + popc (st.getD wi 0) > next → acc.length < r.2.length) ∧
      (¬ (next < T ∧ rawCum st wi + popc (st.getD wi 0) > next) → r = (next, acc)) := by
  induction f generalizing next acc with
  | zero =>
    have hT : T ≤ next := by omega
    simp only [sampleGo]
    exact ⟨hinv, Or.inr hT, Nat.le_refl _, fun h => by omega, fun _ => trivial⟩
  | succ f ih =>
    unfold sampleGo
    by_cases hc : next < T ∧ rawCum st wi + popc (st.getD wi 0) > next
    · rw [if_pos hc]
      obtain ⟨hn, hg⟩ := hinv
      have hcount : rawCum st wi ≤ next := by omega
      have hgood : Good st rate acc.length (wi, rawCum st wi) := by
        refine ⟨rfl, hwi, ?_, ?_⟩ <;> simp only <;> omega
      have hinv' : Inv st rate ((wi, rawCum st wi) :: acc) (next + rate) := by
        refine ⟨?_, goodAll_snoc st rate acc _ hg hgood⟩
        simp only [List.length_cons]; rw [hn, Nat.add_mul]; omega
      have := ih (next + rate) ((wi, rawCum st wi) :: acc) hinv' (by omega) (by omega)
      simp only at this ⊢
      obtain ⟨h1, h2, h3, _, _⟩ := this
      simp only [List.length_cons] at h3
      exact ⟨h1, h2, by omega, fun _ => by omega, fun h => absurd hc h⟩
    · rw [if_neg hc]
      exact ⟨hinv, by omega, Nat.le_refl _, fun h => absurd h hc, fun _ => rfl⟩

theorem sampleLoop_spec (st : List (BitVec 64)) (rate T : Nat) (hrate : 1 ≤ rate)
    (rest : List (BitVec 64)) (wi next : Nat) (acc : List (Nat × Nat))
    (hrest : rest = st.drop wi) (hwi : wi ≤ st.length)
    (hinv : Inv st rate acc next) (hJ : rawCum st wi ≤ next ∨ T ≤ next) :
    let l := sampleLoop rate T rest wi (rawCum st wi) next acc
    GoodAll st rate l ∧ acc.length ≤ l.length ∧
      (next < T ∧ next < rawCum st st.length → acc.length < l.length) := by
  induction rest generalizing wi next acc with
  | nil =>
    simp only [sampleLoop]
    have hlen : st.length ≤ wi := by
      have := congrArg List.length hrest; simp at this; omega
    have hwe : wi = st.length := by omega
    subst hwe
    refine ⟨hinv.2, by simp, ?_⟩
    intro ⟨h1, h2⟩
    omega
  | cons w rest ih =>
    have hlt : wi < st.length := by
      have := congrArg List.length hrest; simp at this; omega
    have hw : w = st.getD wi 0 := by
      have h0 : (w :: rest)[0]? = (st.drop wi)[0]? := by rw [hrest]
      simp only [List.getElem?_cons_zero, List.getElem?_drop, Nat.add_zero] at h0
      rw [List.getD_eq_getElem?_getD, ← h0]; rfl
    have hrest' : rest = st.drop (wi + 1) := by
      have := congrArg List.tail hrest
      simp only [List.tail_cons, List.tail_drop] at this
      exact this
    simp only [sampleLoop]
    rw [hw]
    have hgo := sampleGo_spec st rate T wi hrate hlt 65 next acc hinv hJ (by
      have : popc (st.getD wi 0) ≤ 64 := BPR.popc_le _
      rcases hJ with h | h
      · right; omega
      · left; exact h)
    simp only at hgo
    generalize sampleGo rate T wi (rawCum st wi) (popc (st.getD wi 0)) 65 next acc = r at hgo
    obtain ⟨g1, g2, g3, g4, g5⟩ := hgo
    have hcs := rawCum_succ st wi hlt
    have := ih (wi + 1) r.1 r.2 hrest' (by omega) g1 (by rw [hcs]; exact g2)
    rw [hcs] at this
    simp only at this ⊢
    obtain ⟨i1, i2, i3⟩ := this
    refine ⟨i1, by omega, ?_⟩
    intro ⟨h1, h2⟩
    by_cases hc : rawCum st wi + popc (st.getD wi 0) > next
    · have := g4 ⟨h1, hc⟩; omega
    · -- nothing pushed for this word: `next` unchanged and still below the remaining total
      have hr := g5 (by omega)
      subst hr
      exact i3 ⟨h1, h2⟩

end SV.BPQ
