/-
Proof/KernelsBP — the in-word parenthesis kernels (`find_unmatched_close_in_word`,
`find_close_in_word`) against the linear excess scans of Spec/BP (C02).  No `bv_decide` here.
-/
import SuccinctlyVerif.Proof.Kernels
namespace SV.Kernels
open SV SV.KList SV.BP
attribute [local simp] SV.Kernels.wordBits_length

theorem wordBits_getElem (x : BitVec 64) (j : Nat) (h : j < (wordBits x).length) :
    (wordBits x)[j] = x.getLsbD j := by
  simp [wordBits]

theorem wordBits_drop (x : BitVec 64) (j : Nat) (h : j < 64) :
    (wordBits x).drop j = x.getLsbD j :: (wordBits x).drop (j + 1) := by
  rw [List.drop_eq_getElem_cons (by simpa using h), wordBits_getElem]

theorem fucLoop_eq (x : BitVec 64) (fuel bit d : Nat) (h : bit + fuel = 64) :
    fucLoop x fuel bit (d : Int) = (scanClose ((wordBits x).drop bit) bit d).getD 64 := by
  induction fuel generalizing bit d with
  | zero =>
    have : bit = 64 := by omega
    subst this
    rw [List.drop_of_length_le (by simp)]; rfl
  | succ fuel ih =>
    rw [wordBits_drop x bit (by omega)]
    unfold fucLoop
    cases hb : x.getLsbD bit with
    | true =>
      simp only [if_true, scanClose]
      exact ih (bit + 1) (d + 1) (by omega)
    | false =>
      simp only [Bool.false_eq_true, if_false, scanClose]
      by_cases hd : d = 0
      · subst hd; simp
      · rw [if_neg (by omega), if_neg hd]
        have := ih (bit + 1) (d - 1) (by omega)
        rw [← this]; congr 1; omega

theorem findUnmatchedCloseInWord_eq (x : BitVec 64) :
    findUnmatchedCloseInWord x = (findUnmatchedClose (wordBits x)).getD 64 := by
  unfold findUnmatchedCloseInWord findUnmatchedClose
  exact fucLoop_eq x 64 0 0 rfl

/-- Bits of a right-shifted word: the tail of the bit list padded with closes. -/
theorem wordBits_ushiftRight (x : BitVec 64) (s : Nat) (hs : s ≤ 64) :
    wordBits (x >>> s) = (wordBits x).drop s ++ List.replicate s false := by
  apply List.ext_getElem?; intro j
  rw [wordBits_getElem?]
  by_cases hj : j < 64 - s
  · rw [List.getElem?_append_left (by simp; omega), List.getElem?_drop, wordBits_getElem?,
      if_pos (by omega), if_pos (by omega), BitVec.getLsbD_ushiftRight]
  · rw [List.getElem?_append_right (by simp; omega), List.getElem?_replicate]
    simp only [List.length_drop, wordBits_length]
    by_cases hj' : j < 64
    · rw [if_pos hj', if_pos (by omega), BitVec.getLsbD_ushiftRight]
      congr 1
      apply BitVec.getLsbD_of_ge; omega
    · rw [if_neg hj', if_neg (by omega)]

/-- The spec side of `find_close_in_word`: `none` outside the word; the documented degenerate
answer `p` when bit `p` is a close; otherwise the matching close by linear excess scan of the 64
bits (`none` when it lies beyond bit 63). -/
def findCloseInWordSpec (x : BitVec 64) (p : Nat) : Option Nat :=
  if p ≥ 64 then none
  else if x.getLsbD p = false then some p
  else findClose (wordBits x) p

theorem findCloseInWord_eq (x : BitVec 64) (p : Nat) :
    findCloseInWord x p = findCloseInWordSpec x p := by
  unfold findCloseInWord findCloseInWordSpec
  by_cases hp : p ≥ 64
  · simp [hp]
  · rw [if_neg hp, if_neg hp]
    have hp' : p < 64 := by omega
    have hbit : ((x >>> p) &&& 1#64 = 0) ↔ x.getLsbD p = false := by
      constructor
      · intro h
        have := congrArg (fun y => y.getLsbD 0) h
        simpa using this
      · intro h
        apply BitVec.eq_of_getLsbD_eq
        intro i hi
        by_cases h0 : i = 0
        · subst h0; simp [h]
        · simp [h0]
    by_cases hb : x.getLsbD p = false
    · rw [if_pos hb]; simp only [hbit.2 hb, if_true]
    · rw [if_neg hb, if_neg (by rw [hbit]; exact hb)]
      have hb' : x.getLsbD p = true := by simpa using hb
      unfold findClose
      rw [wordBits_getElem?, if_pos hp', hb', if_pos rfl]
      simp only []
      by_cases h63 : 63 - p = 0
      · have : p = 63 := by omega
        subst this
        rw [if_pos rfl, List.drop_of_length_le (by simp)]; rfl
      · rw [if_neg h63, findUnmatchedCloseInWord_eq, ← BitVec.shiftRight_add,
          wordBits_ushiftRight x (p + 1) (by omega)]
        unfold findUnmatchedClose
        generalize ha : (wordBits x).drop (p + 1) = a
        have hal : a.length = 63 - p := by rw [← ha]; simp
        have hsh := scanClose_shift a 0 (p + 1) 0
        rw [Nat.zero_add] at hsh
        rw [hsh]
        cases hr : scanClose a 0 0 with
        | some r =>
          have hb := scanClose_bounds a 0 0 r hr
          rw [scanClose_append_some a _ 0 0 r hr]
          simp only [Option.getD_some, Option.map_some]
          rw [if_pos (by omega)]; congr 1; omega
        | none =>
          simp only [Option.map_none]
          cases hr2 : scanClose (a ++ List.replicate (p + 1) false) 0 0 with
          | none => simp only [Option.getD_none]; rw [if_neg (by omega)]
          | some r =>
            have := scanClose_append_none a _ 0 0 r hr hr2
            simp only [Option.getD_some]; rw [if_neg (by omega)]
end SV.Kernels
