/-
Proof/EliasFanoSelect — C03: the select samples are sound and the sampled `select1` returns the
position of the `k`-th one of the high bits; hence `get` returns element `k`.
-/
import SuccinctlyVerif.Proof.EliasFanoBuild
import SuccinctlyVerif.Proof.EliasFanoWord
namespace SV.EF
open SV SV.Scan

theorem allBits_append (a b : List (BitVec 64)) : allBits (a ++ b) = allBits a ++ allBits b := by
  simp [allBits]

/-- Every sample present is the exact position of the `(j·R)`-th one. -/
def SamplesOK (H : List Bool) (R : Nat) (samples : List Nat) : Prop :=
  ∀ j (h : j < samples.length), selectB true H (j * R) = some samples[j]

theorem selectB_in_word (pre rest : List (BitVec 64)) (word : BitVec 64) (t : Nat)
    (h1 : (allBits pre).count true ≤ t) (h2 : t - (allBits pre).count true < popcount word) :
    selectB true (allBits (pre ++ word :: rest)) t =
      some (pre.length * 64 + selectInWordSpec word (t - (allBits pre).count true)) := by
  rw [allBits_append, allBits_cons, selectB_append, if_neg (by omega), selectB_append,
    if_pos (by simpa [popcount] using h2), selectB_wordBits_eq h2, allBits_length]
  simp; omega

theorem sampleWhile_spec (R numSamples : Nat) (pre rest : List (BitVec 64)) (word : BitVec 64)
    (h32 : 64 * (pre.length + 1 + rest.length) ≤ 2 ^ 32) (hR : 0 < R)
    (fuel : Nat) (samples : List Nat) (target : Nat)
    (hfuel : (allBits pre).count true + popcount word < target + fuel)
    (hle : (allBits pre).count true ≤ target) (htl : samples.length * R = target)
    (hok : SamplesOK (allBits (pre ++ word :: rest)) R samples) :
    SamplesOK (allBits (pre ++ word :: rest)) R
        (sampleWhile R numSamples pre.length word ((allBits pre).count true) (popc word) fuel samples target).1 ∧
      (sampleWhile R numSamples pre.length word ((allBits pre).count true) (popc word) fuel samples target).1.length * R =
        (sampleWhile R numSamples pre.length word ((allBits pre).count true) (popc word) fuel samples target).2.1 ∧
      ((sampleWhile R numSamples pre.length word ((allBits pre).count true) (popc word) fuel samples target).2.2 = false →
        (allBits pre).count true + popcount word ≤
          (sampleWhile R numSamples pre.length word ((allBits pre).count true) (popc word) fuel samples target).2.1) := by
  induction fuel generalizing samples target with
  | zero =>
    unfold sampleWhile
    exact ⟨hok, htl, fun _ => by dsimp only; omega⟩
  | succ fuel ih =>
    unfold sampleWhile
    rw [Kernels.popc_eq_popcount]
    by_cases hc : target < (allBits pre).count true + popcount word
    · rw [if_pos hc]
      dsimp only
      have hlr : target - (allBits pre).count true < popcount word := by omega
      have h64 := Kernels.popcount_le word
      have hmod : (target - (allBits pre).count true) % 2 ^ 32 = target - (allBits pre).count true :=
        Nat.mod_eq_of_lt (by omega)
      have hsel := selectB_in_word pre rest word target hle hlr
      have hlt := selectInWordSpec_lt hlr
      have hmod2 : (pre.length * 64 + selectInWordSpec word (target - (allBits pre).count true)) % 2 ^ 32 =
          pre.length * 64 + selectInWordSpec word (target - (allBits pre).count true) :=
        Nat.mod_eq_of_lt (by omega)
      rw [hmod, hmod2]
      have hok' : SamplesOK (allBits (pre ++ word :: rest)) R
          (samples ++ [pre.length * 64 + selectInWordSpec word (target - (allBits pre).count true)]) := by
        intro j hj
        by_cases hjl : j < samples.length
        · rw [List.getElem_append_left hjl]; exact hok j hjl
        · have : j = samples.length := by simp at hj; omega
          subst this
          simp only [List.getElem_append_right (Nat.le_refl _), Nat.sub_self, List.getElem_cons_zero]
          rw [htl]; exact hsel
      have htl' : (samples ++ [pre.length * 64 + selectInWordSpec word (target - (allBits pre).count true)]).length * R
          = target + R := by
        simp [Nat.succ_mul, htl]
      split
      · exact ⟨hok', htl', by simp⟩
      · have := ih _ (target + R) (by omega) (by omega) htl' hok'
        rw [Kernels.popc_eq_popcount] at this
        exact this
    · rw [if_neg hc]
      exact ⟨hok, htl, fun _ => by dsimp only; omega⟩

theorem sampleLoop_spec (R numSamples : Nat) (hR : 0 < R) (pre rest : List (BitVec 64))
    (h32 : 64 * (pre.length + rest.length) ≤ 2 ^ 32)
    (samples : List Nat) (target : Nat)
    (hle : (allBits pre).count true ≤ target) (htl : samples.length * R = target)
    (hok : SamplesOK (allBits (pre ++ rest)) R samples) :
    SamplesOK (allBits (pre ++ rest)) R
      (sampleLoop R numSamples rest pre.length ((allBits pre).count true) target samples) := by
  induction rest generalizing pre samples target with
  | nil => exact hok
  | cons word rest ih =>
    have hcat : pre ++ word :: rest = (pre ++ [word]) ++ rest := by simp
    have hlen : (pre ++ [word]).length = pre.length + 1 := by simp
    have hcnt : (allBits (pre ++ [word])).count true = (allBits pre).count true + popcount word := by
      rw [allBits_append, List.count_append]; simp [allBits, popcount]
    unfold sampleLoop
    by_cases hz : word = 0
    · rw [if_pos hz]
      subst hz
      have := ih (pre ++ [0]) (by simp at h32 ⊢; omega) samples target
        (by rw [hcnt, popcount_zero]; omega) htl (by rw [← hcat]; exact hok)
      rw [hlen, hcnt, popcount_zero, Nat.add_zero, ← hcat] at this
      exact this
    · rw [if_neg hz]
      dsimp only
      have hw := sampleWhile_spec R numSamples pre rest word (by simp at h32; omega) hR 65 samples target
        (by have := Kernels.popcount_le word; omega) hle htl hok
      generalize sampleWhile R numSamples pre.length word ((allBits pre).count true) (popc word) 65 samples target = r at hw
      obtain ⟨s', t', d⟩ := r
      cases d with
      | true => exact hw.1
      | false =>
        dsimp only at hw ⊢
        have := ih (pre ++ [word]) (by simp at h32 ⊢; omega) s' t'
          (by rw [hcnt]; exact hw.2.2 rfl) hw.2.1 (by rw [← hcat]; exact hw.1)
        rw [hlen, hcnt, ← hcat] at this
        rw [Kernels.popc_eq_popcount]
        exact this

theorem Built.samples_ok {R : Nat} {vs : List Nat} {ef : EliasFano} (hb : Built R vs ef) (hR : 0 < R)
    (h32 : 64 * ef.highBits.length ≤ 2 ^ 32) :
    SamplesOK (allBits ef.highBits) R ef.selectSamples := by
  rw [hb.samples]
  have := sampleLoop_spec R ((vs.length + R - 1) / R) hR [] ef.highBits (by simpa using h32) [] 0
    (by simp [allBits]) (by simp) (fun j hj => by simp at hj)
  simpa [allBits] using this

/-! ### `select1` -/

theorem selectB_some_spec (b : Bool) (l : List Bool) (k p : Nat) (h : selectB b l k = some p) :
    p < l.length ∧ l[p]? = some b ∧ (l.take p).count b = k := by
  induction l generalizing k p with
  | nil => simp [selectB] at h
  | cons x xs ih =>
    by_cases hx : x = b
    · subst hx
      cases k with
      | zero =>
        simp only [selectB, if_true, Option.some.injEq] at h
        subst h; simp
      | succ k =>
        simp only [selectB, if_true] at h
        cases hr : selectB x xs k with
        | none => simp [hr] at h
        | some q =>
          simp [hr] at h; subst h
          obtain ⟨h1, h2, h3⟩ := ih k q hr
          refine ⟨by simp; omega, by simpa using h2, ?_⟩
          simp [List.take_succ_cons, h3]
    · simp only [selectB, hx, if_false] at h
      cases hr : selectB b xs k with
      | none => simp [hr] at h
      | some q =>
        simp [hr] at h; subst h
        obtain ⟨h1, h2, h3⟩ := ih k q hr
        refine ⟨by simp; omega, by simpa using h2, ?_⟩
        rw [List.take_succ_cons, List.count_cons]
        simp [hx, h3]

theorem selectB_drop (b : Bool) (l : List Bool) (s c k : Nat) (hs : s ≤ l.length)
    (hc : (l.take s).count b = c) (hk : c ≤ k) :
    selectB b l k = (selectB b (l.drop s) (k - c)).map (· + s) := by
  have := selectB_append b (l.take s) (l.drop s) k
  rw [List.take_append_drop, hc, if_neg (by omega), List.length_take, Nat.min_eq_left hs] at this
  exact this

theorem allBits_drop (ws : List (BitVec 64)) (sw off : Nat) (w : BitVec 64) (hw : ws[sw]? = some w)
    (hoff : off ≤ 64) :
    (allBits ws).drop (64 * sw + off) = (wordBits w).drop off ++ allBits (ws.drop (sw + 1)) := by
  have hlt : sw < ws.length := by
    rcases Nat.lt_or_ge sw ws.length with h | h
    · exact h
    · rw [List.getElem?_eq_none h] at hw; simp at hw
  have hsplit : ws = ws.take sw ++ w :: ws.drop (sw + 1) := by
    rw [List.getElem?_eq_getElem hlt] at hw
    simp only [Option.some.injEq] at hw
    rw [← hw]
    simp
  have hl : (allBits (ws.take sw)).length = 64 * sw := by
    rw [allBits_length, List.length_take, Nat.min_eq_left (by omega)]
  conv => lhs; rw [hsplit]
  rw [allBits_append, allBits_cons, List.drop_append, hl,
    List.drop_of_length_le (by omega), List.nil_append,
    show 64 * sw + off - 64 * sw = off by omega, List.drop_append, wordBits_length,
    show off - 64 = 0 by omega, List.drop_zero]

/-- The shared scan started at word `start` finds the `rem`-th one of `high[start..]`. -/
theorem scan_part (high : List (BitVec 64)) (start rem q : Nat)
    (h : selectB true (allBits (high.drop start)) rem = some q) :
    ∃ wi r w, scanSelect popc high start rem = some (wi, r) ∧ high[wi]? = some w ∧ r < 64 ∧
      wi * 64 + selectInWordSpec w r = q + 64 * start := by
  rw [scanSelect_eq_scalar]
  unfold scanSelectScalar
  by_cases hst : start ≥ high.length
  · rw [List.drop_of_length_le hst] at h
    simp [allBits, selectB] at h
  rw [if_neg hst]
  have hspec := scanScalar_spec popc Kernels.popc_eq_popcount (high.drop start) start rem
  cases hr : scanScalar popc (high.drop start) start rem with
  | none =>
    rw [hr] at hspec
    rw [hspec.1] at h; simp at h
  | some ir =>
    obtain ⟨i, r⟩ := ir
    rw [hr] at hspec
    obtain ⟨h1, h2, h3, h4⟩ := hspec
    have hi : start + (i - start) = i := by omega
    have hget : (high.drop start).getD (i - start) 0 = high.getD i 0 := by
      simp [List.getD_eq_getElem?_getD, List.getElem?_drop, hi]
    rw [hget] at h3 h4
    have hil : i < high.length := by simp at h2; omega
    have hgi : high.getD i 0 = high[i] := by
      simp [List.getD_eq_getElem?_getD, List.getElem?_eq_getElem hil]
    rw [hgi] at h3 h4
    refine ⟨i, r, high[i], rfl, List.getElem?_eq_getElem hil, ?_, ?_⟩
    · have := Kernels.popcount_le high[i]; omega
    · rw [h, selectB_wordBits_eq h4] at h3
      simp at h3
      omega

theorem select1_spec (R : Nat) (ef : EliasFano)
    (hsam : SamplesOK (allBits ef.highBits) R ef.selectSamples) (k p : Nat)
    (hk : selectB true (allBits ef.highBits) k = some p) : select1 R ef k = some p := by
  unfold select1
  dsimp only
  by_cases hj : k / R < ef.selectSamples.length
  · rw [dif_pos hj]
    have hs := hsam (k / R) hj
    generalize ef.selectSamples[k / R] = s at hs
    obtain ⟨hs1, hs2, hs3⟩ := selectB_some_spec _ _ _ _ hs
    rw [allBits_length] at hs1
    have hsw : s / 64 < ef.highBits.length := by omega
    rw [List.getElem?_eq_getElem hsw]
    dsimp only
    generalize hw : ef.highBits[s / 64] = w
    have hw' : ef.highBits[s / 64]? = some w := by rw [List.getElem?_eq_getElem hsw, hw]
    have hoff : s % 64 < 64 := Nat.mod_lt _ (by omega)
    have hle : k / R * R ≤ k := Nat.div_mul_le_self k R
    have hdrop := selectB_drop true (allBits ef.highBits) s (k / R * R) k
      (by rw [allBits_length]; omega) hs3 hle
    have hs64 : 64 * (s / 64) + s % 64 = s := Nat.div_add_mod s 64
    have hD := allBits_drop ef.highBits (s / 64) (s % 64) w hw' (by omega)
    rw [hs64] at hD
    rw [hD, selectB_append] at hdrop
    have hmask := wordBits_maskFrom w (s % 64) hoff
    have hpm : popc (w &&& ~~~((1#64 <<< (s % 64)) - 1)) = ((wordBits w).drop (s % 64)).count true := by
      rw [Kernels.popc_eq_popcount, popcount, hmask, List.count_append, List.count_replicate]
      simp
    rw [hpm]
    by_cases hin : k - k / R * R < ((wordBits w).drop (s % 64)).count true
    · rw [if_pos hin] at hdrop
      rw [if_pos hin]
      have h64 : k - k / R * R < 64 := by
        have : ((wordBits w).drop (s % 64)).count true ≤ ((wordBits w).drop (s % 64)).length :=
          List.count_le_length
        simp [wordBits_length] at this; omega
      rw [Nat.mod_eq_of_lt (by omega : k - k / R * R < 2 ^ 32)]
      have hpc : k - k / R * R < popcount (w &&& ~~~((1#64 <<< (s % 64)) - 1)) := by
        rw [← Kernels.popc_eq_popcount, hpm]; exact hin
      have hsel := selectB_wordBits_eq hpc
      rw [hmask, selectB_replicate_false_append] at hsel
      rw [hk] at hdrop
      cases hd : selectB true ((wordBits w).drop (s % 64)) (k - k / R * R) with
      | none => rw [hd] at hdrop; simp at hdrop
      | some d =>
        rw [hd] at hdrop hsel
        simp only [Option.map_some, Option.some.injEq] at hdrop hsel
        congr 1; omega
    · rw [if_neg hin] at hdrop
      rw [if_neg (by omega)]
      rw [hk] at hdrop
      cases hq : selectB true (allBits (ef.highBits.drop (s / 64 + 1)))
          (k - k / R * R - ((wordBits w).drop (s % 64)).count true) with
      | none => rw [hq] at hdrop; simp at hdrop
      | some q =>
        rw [hq] at hdrop
        obtain ⟨wi, r, w2, e1, e2, e3, e4⟩ := scan_part ef.highBits (s / 64 + 1) _ q hq
        rw [e1]
        dsimp only
        rw [e2]
        dsimp only
        rw [Nat.mod_eq_of_lt (by omega : r < 2 ^ 32)]
        simp [wordBits_length] at hdrop
        congr 1; omega
  · rw [dif_neg hj]
    have hq : selectB true (allBits (ef.highBits.drop 0)) k = some p := by simpa using hk
    obtain ⟨wi, r, w2, e1, e2, e3, e4⟩ := scan_part ef.highBits 0 k p hq
    rw [e1]
    dsimp only
    rw [e2]
    dsimp only
    rw [Nat.mod_eq_of_lt (by omega : r < 2 ^ 32)]
    congr 1

/-! ### `get` -/

/-- Position of the `i`-th one of the high bits of a built structure. -/
theorem Built.pos_eq {R : Nat} {vs : List Nat} {ef : EliasFano} (hb : Built R vs ef)
    (hs : EFSpec.Sorted vs) (i v : Nat) (hv : vs[i]? = some v) :
    selectB true (allBits ef.highBits) i = some ((v >>> ef.lowWidth) + i) := by
  rw [hb.select_high hs, getElem?_posList, hv]
  simp

/-- Low bits of element `i` recombine with its high part into the element. -/
theorem Built.value_at {R : Nat} {vs : List Nat} {ef : EliasFano} (hb : Built R vs ef)
    (hu : EFSpec.AllU32 vs) (i v : Nat) (hv : vs[i]? = some v) :
    ∃ lv, readLowBits ef i = some lv ∧ combine ef (wsub ((v >>> ef.lowWidth) + i) i) lv = v := by
  refine ⟨_, readLowBits_spec ef vs hb.w_lt hb.lowsz hb.low i v hv, ?_⟩
  have : wsub ((v >>> ef.lowWidth) + i) i = v >>> ef.lowWidth := by
    generalize v >>> ef.lowWidth = hvv
    unfold wsub; rw [if_pos (by omega)]; omega
  rw [this]
  exact combine_spec ef v (hu v (List.mem_of_getElem? hv)) hb.w_lt

theorem Built.get_eq {R : Nat} {vs : List Nat} {ef : EliasFano} (hb : Built R vs ef)
    (hs : EFSpec.Sorted vs) (hu : EFSpec.AllU32 vs) (hR : 0 < R)
    (h32 : 64 * ef.highBits.length ≤ 2 ^ 32) (i : Nat) :
    get R ef i = some vs[i]? := by
  unfold get
  rw [hb.len]
  by_cases hi : i ≥ vs.length
  · rw [if_pos hi, List.getElem?_eq_none hi]
  · rw [if_neg hi]
    have hv : vs[i]? = some vs[i] := List.getElem?_eq_getElem (by omega)
    rw [select1_spec R ef (hb.samples_ok hR h32) i _ (hb.pos_eq hs i _ hv)]
    obtain ⟨lv, h1, h2⟩ := hb.value_at hu i _ hv
    simp only [h1, h2, hv]

end SV.EF
