/-
Proof/BPFcf3 — simulation of the `find_close_from` loop (C04).
-/
import SuccinctlyVerif.Proof.BPFcf2
namespace SV.BPF
open SV SV.BP SV.BPM SV.BPP SV.BPW SV.BPS SV.BPC SV.BPI

/-- What the in-word fast path (`find_close_in_word_fast`) has to return: the forward scan over
the valid bits of the word from `sb` with start excess `e ≥ 1`. -/
def FastSpec : Prop :=
  ∀ (w : BitVec 64) (sb : Nat) (e : Int) (vb : Nat), sb < vb → vb ≤ 64 → 1 ≤ e →
    findCloseInWordFast w sb e vb = scanClose (seg w sb (vb - sb)) sb (e - 1).toNat

theorem fcfLoop_sound (hfast : FastSpec) (st : List (BitVec 64)) (len : Nat) (k : SelKind)
    (hw : st.length = (len + 63) / 64) (hlen : len < 2 ^ 31) (hpos0 : 0 < len)
    (fuel : Nat) (s : St) (e : Int) (pos : Nat)
    (hmu : mu st.length s pos < fuel) (he : 1 ≤ e) (hb : e + ((len - pos : Nat) : Int) < 2 ^ 31)
    (hentry : entry len s pos) :
    fcfLoop (mkBP false st len k) fuel s e pos = R (bitsOf st len) pos e := by
  have hl := bitsOf_length st len (by omega)
  obtain ⟨hs0, hs1, hs2, ha0, ha1, ha2⟩ := acc st len k hw hpos0
  have hlenf : (mkBP false st len k).len = len := rfl
  induction fuel generalizing s e pos with
  | zero => omega
  | succ fuel ih =>
    unfold fcfLoop
    cases s with
    | fromL0 =>
      simp only [fcfStep, hlenf]
      by_cases h64 : pos % 64 = 0
      · simp only [h64, if_true]
        exact ih .fromL1 e pos (by simp only [mu, rank] at hmu ⊢; omega) he hb h64
      · simp only [h64, if_false]
        by_cases hp : pos < len
        · simp only [hp, if_true]
          exact ih .scanWord e pos (by simp only [mu, rank] at hmu ⊢; omega) he hb trivial
        · simp only [hp, if_false]
          exact (R_out _ _ _ (by omega)).symm
    | fromL1 =>
      simp only [fcfStep, hlenf, l1Bits_eq]
      have h64 : pos % 64 = 0 := hentry
      by_cases h2k : pos % 2048 = 0
      · simp only [h2k, if_true]
        by_cases hp : pos < len
        · simp only [hp, if_true]
          exact ih .fromL2 e pos (by simp only [mu, rank] at hmu ⊢; omega) he hb h2k
        · simp only [hp, if_false]
          exact (R_out _ _ _ (by omega)).symm
      · simp only [h2k, if_false]
        by_cases hp : pos < len
        · simp only [hp, if_true]
          exact ih .checkL0 e pos (by simp only [mu, rank] at hmu ⊢; omega) he hb ⟨h64, hp⟩
        · simp only [hp, if_false]
          exact (R_out _ _ _ (by omega)).symm
    | fromL2 =>
      simp only [fcfStep, hlenf, l2Bits_eq]
      have h2k : pos % 2048 = 0 := hentry
      by_cases h64k : pos % 65536 = 0
      · simp only [h64k, if_true]
        by_cases hp : pos < len
        · simp only [hp, if_true]
          exact ih .checkL2 e pos (by simp only [mu, rank] at hmu ⊢; omega) he hb ⟨h64k, hp⟩
        · simp only [hp, if_false]
          exact (R_out _ _ _ (by omega)).symm
      · simp only [h64k, if_false]
        by_cases hp : pos < len
        · simp only [hp, if_true]
          exact ih .checkL1 e pos (by simp only [mu, rank] at hmu ⊢; omega) he hb ⟨h2k, hp⟩
        · simp only [hp, if_false]
          exact (R_out _ _ _ (by omega)).symm
    | checkL0 =>
      obtain ⟨h64, hp⟩ := hentry
      simp only [fcfStep, hs0]
      have hi : pos / 64 < st.length := by omega
      have hnot : ¬ pos / 64 ≥ st.length := by omega
      simp only [hnot, if_false]
      obtain ⟨hmin, hexc⟩ := ha0 _ hi
      have hposeq : 64 * (pos / 64) = pos := by omega
      rw [hmin, hexc, hposeq]
      have hbl := blk_length_le (bitsOf st len) 64 pos
      have hblen : (blk (bitsOf st len) 64 pos).length ≤ len - pos := by
        unfold blk; rw [List.length_take, List.length_drop, hl]; omega
      have hm1 := minExc_ge (blk (bitsOf st len) 64 pos)
      have hm3 := minExc_le_zero (blk (bitsOf st len) 64 pos)
      have htb := totExc_bound (blk (bitsOf st len) 64 pos)
      rw [BPR.wrapI32_id _ (by omega) (by omega)]
      by_cases hc : e + minExc (blk (bitsOf st len) 64 pos) ≤ 0
      · simp only [hc, if_true]
        exact ih .scanWord e pos (by simp only [mu, rank] at hmu ⊢; omega) he hb trivial
      · simp only [hc, if_false]
        obtain ⟨hskip, he'⟩ := R_skip (bitsOf st len) 64 pos e he (by omega)
        rw [BPR.wrapI32_id _ (by omega) (by omega), hskip]
        exact ih .fromL0 _ (pos + 64) (by simp only [mu, rank] at hmu ⊢; omega) he' (by omega) trivial
    | checkL1 =>
      obtain ⟨h2k, hp⟩ := hentry
      simp only [fcfStep, hs1, l1Bits_eq, hlenf]
      have hi : pos / 2048 < (st.length + 31) / 32 := by omega
      have hnot : ¬ pos / 2048 ≥ (st.length + 31) / 32 := by omega
      simp only [hnot, if_false]
      obtain ⟨hmin, hexc⟩ := ha1 _ hi
      have hposeq : 2048 * (pos / 2048) = pos := by omega
      rw [hmin, hexc, hposeq]
      have hblen : (blk (bitsOf st len) 2048 pos).length ≤ len - pos := by
        unfold blk; rw [List.length_take, List.length_drop, hl]; omega
      have hbl := blk_length_le (bitsOf st len) 2048 pos
      have hm1 := minExc_ge (blk (bitsOf st len) 2048 pos)
      have hm3 := minExc_le_zero (blk (bitsOf st len) 2048 pos)
      have htb := totExc_bound (blk (bitsOf st len) 2048 pos)
      rw [BPR.wrapI32_id _ (by omega) (by omega)]
      by_cases hc : e + minExc (blk (bitsOf st len) 2048 pos) ≤ 0
      · simp only [hc, if_true]
        exact ih .checkL0 e pos (by simp only [mu, rank] at hmu ⊢; omega) he hb ⟨by omega, hp⟩
      · simp only [hc, if_false, hp, if_true]
        have hdead : ¬ ((mkBP false st len k).isClose pos = true ∧ e ≤ 1) := by
          intro ⟨hcl, he1⟩
          rw [BPR.isClose_eq false st len k pos hw] at hcl
          unfold BP.isClose at hcl
          have : (bitsOf st len)[pos]? = some false := by simpa using hcl
          have := blk_head_close (bitsOf st len) 2048 pos (by omega) this
          omega
        simp only [hdead, if_false]
        obtain ⟨hskip, he'⟩ := R_skip (bitsOf st len) 2048 pos e he (by omega)
        rw [BPR.wrapI32_id _ (by omega) (by omega), hskip]
        exact ih .fromL1 _ (pos + 2048) (by simp only [mu, rank] at hmu ⊢; omega) he' (by omega) (by
          show (pos + 2048) % 64 = 0; omega)
    | checkL2 =>
      obtain ⟨h64k, hp⟩ := hentry
      simp only [fcfStep, hs2, l2Bits_eq, hlenf]
      have hi : pos / 65536 < ((st.length + 31) / 32 + 31) / 32 := by omega
      have hnot : ¬ pos / 65536 ≥ ((st.length + 31) / 32 + 31) / 32 := by omega
      simp only [hnot, if_false]
      obtain ⟨hmin, hexc⟩ := ha2 _ hi
      have hposeq : 65536 * (pos / 65536) = pos := by omega
      rw [hmin, hexc, hposeq]
      have hblen : (blk (bitsOf st len) 65536 pos).length ≤ len - pos := by
        unfold blk; rw [List.length_take, List.length_drop, hl]; omega
      have hbl := blk_length_le (bitsOf st len) 65536 pos
      have hm1 := minExc_ge (blk (bitsOf st len) 65536 pos)
      have hm3 := minExc_le_zero (blk (bitsOf st len) 65536 pos)
      have htb := totExc_bound (blk (bitsOf st len) 65536 pos)
      rw [BPR.wrapI32_id _ (by omega) (by omega)]
      by_cases hc : e + minExc (blk (bitsOf st len) 65536 pos) ≤ 0
      · simp only [hc, if_true]
        exact ih .checkL1 e pos (by simp only [mu, rank] at hmu ⊢; omega) he hb ⟨by omega, hp⟩
      · simp only [hc, if_false, hp, if_true]
        have hdead : ¬ ((mkBP false st len k).isClose pos = true ∧ e ≤ 1) := by
          intro ⟨hcl, he1⟩
          rw [BPR.isClose_eq false st len k pos hw] at hcl
          unfold BP.isClose at hcl
          have : (bitsOf st len)[pos]? = some false := by simpa using hcl
          have := blk_head_close (bitsOf st len) 65536 pos (by omega) this
          omega
        simp only [hdead, if_false]
        obtain ⟨hskip, he'⟩ := R_skip (bitsOf st len) 65536 pos e he (by omega)
        rw [BPR.wrapI32_id _ (by omega) (by omega), hskip]
        exact ih .fromL2 _ (pos + 65536) (by simp only [mu, rank] at hmu ⊢; omega) he' (by omega) (by
          show (pos + 65536) % 2048 = 0; omega)
    | scanWord =>
      simp only [fcfStep, hlenf]
      by_cases hp : pos < len
      · have hnot : ¬ pos ≥ len := by omega
        simp only [hnot, if_false]
        have hwordf : (mkBP false st len k).word (pos / 64) = st.getD (pos / 64) 0 := by
          simp [BP.word, mkBP]
        rw [hwordf]
        have hvbdef : (if pos / 64 * 64 + 64 ≤ len then 64 else len - pos / 64 * 64) = vbits len (pos / 64) := rfl
        rw [hvbdef]
        have hvb1 : pos % 64 < vbits len (pos / 64) := by unfold vbits; split <;> omega
        have hvb2 : vbits len (pos / 64) ≤ 64 := by unfold vbits; split <;> omega
        rw [hfast _ _ _ _ hvb1 hvb2 he]
        unfold R
        rw [bitsOf_drop_in_word st len pos hw hp, scanClose_append]
        generalize hS : seg (st.getD (pos / 64) 0) (pos % 64) (vbits len (pos / 64) - pos % 64) = S
        have hSl : S.length = vbits len (pos / 64) - pos % 64 := by rw [← hS, seg_length]
        have hsh := scanClose_shift S (pos % 64) (pos / 64 * 64) (e - 1).toNat
        have e1 : pos % 64 + pos / 64 * 64 = pos := by omega
        rw [e1] at hsh
        rw [hsh]
        cases hsc : scanClose S (pos % 64) (e - 1).toNat with
        | some m => simp only [Option.map_some]; congr 1; omega
        | none =>
          simp only [Option.map_none]
          have htot := scanClose_none_tot S _ _ hsc
          have htb := totExc_bound S
          have hones := popc_masked_shift (st.getD (pos / 64) 0) (pos % 64) (vbits len (pos / 64) - pos % 64)
            (by omega) (by omega)
          rw [hS] at hones
          rw [hones]
          have hexc : (2 * ((S.count true : Nat) : Int) - ((vbits len (pos / 64) - pos % 64 : Nat) : Int)) = totExc S := by
            rw [totExc_eq_count, hSl]
          rw [hexc]
          have hSle : (S.length : Int) ≤ ((len - pos : Nat) : Int) := by
            rw [hSl]; unfold vbits; split <;> omega
          rw [BPR.wrapI32_id _ (by omega) (by omega)]
          rw [ih .fromL0 (e + totExc S) ((pos / 64 + 1) * 64) (by simp only [mu, rank] at hmu ⊢; omega) (by omega)
            (by
              have : ((len - (pos / 64 + 1) * 64 : Nat) : Int) + S.length ≤ ((len - pos : Nat) : Int) := by
                rw [hSl]; unfold vbits; split <;> omega
              omega) trivial]
          unfold R
          by_cases hfull : vbits len (pos / 64) = 64
          · rw [hSl, hfull]; congr 1 <;> omega
          · have hdrop : (bitsOf st len).drop ((pos / 64 + 1) * 64) = [] := by
              apply List.drop_of_length_le
              unfold vbits at hfull; split at hfull <;> omega
            rw [hdrop]; rfl
      · have hge : pos ≥ len := by omega
        simp only [hge, if_true]
        exact (R_out _ _ _ (by omega)).symm

end SV.BPF
