/-
Proof/KernelsPdep — bit-level semantics of the PDEP model, `ilog2` as highest set bit, and
`select_in_word_pdep` against the bit-list select (C02).  No `bv_decide` here.
-/
import SuccinctlyVerif.Proof.Kernels
namespace SV.Kernels
open SV SV.KList
attribute [local simp] SV.Kernels.wordBits_length

/-- Converse characterisation of `selectB`. -/
theorem selectB_some_spec (bs : List Bool) (k q : Nat) (h : selectB true bs k = some q) :
    bs[q]? = some true ∧ (bs.take q).count true = k := by
  induction bs generalizing k q with
  | nil => simp [selectB] at h
  | cons x xs ih =>
    cases x with
    | true =>
      cases k with
      | zero => simp [selectB] at h; subst h; simp
      | succ k =>
        simp only [selectB, if_true] at h
        cases hr : selectB true xs k with
        | none => simp [hr] at h
        | some r =>
          simp [hr] at h; subst h
          have := ih k r hr
          simp [this]
    | false =>
      simp only [selectB, Bool.false_eq_true, if_false] at h
      cases hr : selectB true xs k with
      | none => simp [hr] at h
      | some r =>
        simp [hr] at h; subst h
        have := ih k r hr
        simp [this]

/-- Number of set bits strictly below position `p`. -/
def rankW (x : BitVec 64) (p : Nat) : Nat := ((wordBits x).take p).count true

theorem rankW_succ (x : BitVec 64) (p : Nat) (hp : p < 64) :
    rankW x (p + 1) = rankW x p + (if x.getLsbD p then 1 else 0) := by
  unfold rankW
  rw [List.take_add_one, wordBits_getElem?, if_pos hp, List.count_append]
  cases x.getLsbD p <;> simp

theorem rankW_mono (x : BitVec 64) (p q : Nat) (h : p ≤ q) : rankW x p ≤ rankW x q := by
  unfold rankW
  obtain ⟨d, rfl⟩ := Nat.exists_eq_add_of_le h
  rw [List.take_add, List.count_append]; omega

/-- Bit-level semantics of the PDEP model: result bit `p` is set iff mask bit `p` is set and the
source bit indexed by the number of mask bits below `p` is set. -/
theorem pdepGo_getLsbD (src mask : BitVec 64) (fuel i j : Nat) (acc : BitVec 64)
    (hfi : i + fuel = 64) (hj : j = rankW mask i) (hacc : ∀ p, i ≤ p → acc.getLsbD p = false) (p : Nat) :
    (pdepGo src mask fuel i j acc).getLsbD p =
      if p < i then acc.getLsbD p else (mask.getLsbD p && src.getLsbD (rankW mask p)) := by
  induction fuel generalizing i j acc with
  | zero =>
    have : i = 64 := by omega
    subst this
    unfold pdepGo
    by_cases hp : p < 64
    · rw [if_pos hp]
    · rw [if_neg hp, hacc p (by omega), BitVec.getLsbD_of_ge mask p (by omega)]; rfl
  | succ fuel ih =>
    have hi : i < 64 := by omega
    unfold pdepGo
    have hr := rankW_succ mask i hi
    by_cases hm : mask.getLsbD i = true
    · rw [if_pos hm]
      rw [hm, if_pos rfl] at hr
      rw [ih (i + 1) (j + 1) _ (by omega) (by omega)]
      · by_cases hp : p < i
        · rw [if_pos (by omega), if_pos hp]
          split
          · rw [BitVec.getLsbD_or, BitVec.getLsbD_shiftLeft]
            simp; intro _ _; omega
          · rfl
        · by_cases hpi : p = i
          · subst hpi
            rw [if_pos (by omega), if_neg hp, hm, ← hj, Bool.true_and]
            split
            · rename_i hs
              rw [BitVec.getLsbD_or, BitVec.getLsbD_shiftLeft, hs]
              simp [hi]
            · rename_i hs
              rw [hacc p (Nat.le_refl _)]; simp at hs; exact hs.symm
          · rw [if_neg (by omega), if_neg hp]
      · intro p hp
        split
        · rw [BitVec.getLsbD_or, BitVec.getLsbD_shiftLeft, hacc p (by omega)]
          simp; intro _ _; omega
        · exact hacc p (by omega)
    · rw [if_neg hm]
      have hm' : mask.getLsbD i = false := by simpa using hm
      rw [hm'] at hr
      rw [ih (i + 1) j acc (by omega) (by rw [hr, hj]; rfl) (fun p hp => hacc p (by omega))]
      by_cases hp : p < i
      · rw [if_pos (by omega), if_pos hp]
      · by_cases hpi : p = i
        · subst hpi
          rw [if_pos (by omega), if_neg hp, hm', hacc p (Nat.le_refl _)]; rfl
        · rw [if_neg (by omega), if_neg hp]

theorem pdep_getLsbD (src mask : BitVec 64) (p : Nat) :
    (pdep src mask).getLsbD p = (mask.getLsbD p && src.getLsbD (rankW mask p)) := by
  unfold pdep
  rw [pdepGo_getLsbD src mask 64 0 0 0#64 rfl (by simp [rankW]) (by simp)]
  simp

/-- `(1 << n) - 1` has exactly the low `n` bits set (`n < 64`). -/
theorem lowMask_getLsbD (n r : Nat) (hn : n < 64) :
    ((1#64 <<< n) - 1).getLsbD r = decide (r < n) := by
  have h1 : (1#64 <<< n).toNat = 2 ^ n := by
    rw [BitVec.toNat_shiftLeft, BitVec.toNat_ofNat]
    have : 2 ^ n < 2 ^ 64 := Nat.pow_lt_pow_right (by omega) hn
    simp only [Nat.one_mod_two_pow (by omega : 0 < 64), Nat.shiftLeft_eq, Nat.one_mul]
    exact Nat.mod_eq_of_lt this
  have hpos : 0 < 2 ^ n := Nat.two_pow_pos n
  have hlt : 2 ^ n < 2 ^ 64 := Nat.pow_lt_pow_right (by omega) hn
  have h2 : ((1#64 <<< n) - 1).toNat = 2 ^ n - 1 := by
    rw [BitVec.toNat_sub, h1]
    have e : (1 : BitVec 64).toNat = 1 := rfl
    rw [e]
    omega
  rw [BitVec.getLsbD, h2, Nat.testBit_two_pow_sub_one]

/-- `ilog2` is the position of the highest set bit. -/
theorem ilog2_unique (y : BitVec 64) (q : Nat) (hq : y.getLsbD q = true)
    (hhi : ∀ p, q < p → y.getLsbD p = false) : ilog2 y = q := by
  have hq64 : q < 64 := by
    apply Classical.byContradiction; intro h
    rw [BitVec.getLsbD_of_ge y q (by omega)] at hq; cases hq
  have hy : y ≠ 0#64 := by
    intro h; subst h; simp at hq
  have hclz : y.clz.toNat < 64 := by
    have := (BitVec.clz_lt_iff_ne_zero (x := y)).2 hy
    simpa [BitVec.lt_def] using this
  have htop := BitVec.getLsbD_true_clz_of_ne_zero (x := y) (by omega) hy
  have hlt := BitVec.toNat_lt_two_pow_sub_clz (x := y)
  unfold ilog2
  have h1 : ¬ (q < 63 - y.clz.toNat) := by
    intro h
    have := hhi _ h
    rw [show 64 - 1 - y.clz.toNat = 63 - y.clz.toNat by omega] at htop
    rw [this] at htop; cases htop
  have h2 : ¬ (63 - y.clz.toNat < q) := by
    intro h
    have hle : 2 ^ (64 - y.clz.toNat) ≤ 2 ^ q := Nat.pow_le_pow_right (by omega) (by omega)
    have : y.toNat.testBit q = false := Nat.testBit_lt_two_pow (by omega)
    rw [BitVec.getLsbD] at hq
    rw [this] at hq; cases hq
  omega

theorem selectPdep_eq (x : BitVec 64) (k : Nat) : selectPdep x k = selectInWordSpec x k := by
  unfold selectPdep
  by_cases hx : x = 0
  · subst hx; rw [if_pos rfl]; exact (selectInWordSpec_zero k).symm
  · rw [if_neg hx]
    simp only []
    by_cases hk : k ≥ popc x
    · rw [if_pos hk]
      unfold selectInWordSpec
      rw [selectB_none_of_count_le _ _ (by rw [popc_eq_popcount] at hk; exact hk)]; rfl
    · rw [if_neg hk]
      have hk' : k < (wordBits x).count true := by rw [popc_eq_popcount] at hk; unfold popcount at hk; omega
      obtain ⟨q, hq, hq64⟩ := selectB_isSome_of_lt_count _ _ hk'
      rw [wordBits_length] at hq64
      obtain ⟨hbit, hrank⟩ := selectB_some_spec _ _ _ hq
      rw [wordBits_getElem?, if_pos hq64] at hbit
      have hxq : x.getLsbD q = true := by injection hbit
      unfold selectInWordSpec
      rw [hq, Option.getD_some]
      -- the source mask has bit `r` set iff `r ≤ k`, for every in-range `r`
      generalize hm : (if k ≥ 63 then BitVec.allOnes 64 else (1#64 <<< (k + 1)) - 1) = m
      have hmbit : ∀ r, r < 64 → m.getLsbD r = decide (r ≤ k) := by
        intro r hr
        rw [← hm]
        by_cases h63 : k ≥ 63
        · rw [if_pos h63, BitVec.getLsbD_allOnes]; simp [hr]; omega
        · rw [if_neg h63, lowMask_getLsbD (k + 1) r (by omega)]; simp; omega
      have hsc : ∀ p, (pdep m x).getLsbD p = (x.getLsbD p && decide (rankW x p ≤ k)) := by
        intro p
        rw [pdep_getLsbD]
        by_cases hp : p < 64
        · have hrk : rankW x p < 64 := by
            have : rankW x p ≤ p := by
              unfold rankW
              have := List.count_le_length (a := true) (l := (wordBits x).take p)
              simp at this; omega
            omega
          rw [hmbit _ hrk]
        · rw [BitVec.getLsbD_of_ge x p (by omega)]; rfl
      have hyq : (pdep m x).getLsbD q = true := by
        rw [hsc, hxq]; simp; unfold rankW; omega
      have hhi : ∀ p, q < p → (pdep m x).getLsbD p = false := by
        intro p hp
        rw [hsc]
        have h1 := rankW_succ x q hq64
        rw [hxq, if_pos rfl] at h1
        have h2 := rankW_mono x (q + 1) p (by omega)
        have : ¬ (rankW x p ≤ k) := by unfold rankW at *; omega
        simp [this]
      have hne : pdep m x ≠ 0 := by
        intro h; rw [h] at hyq; simp at hyq
      rw [if_neg hne]
      exact ilog2_unique _ q hyq hhi
end SV.Kernels
