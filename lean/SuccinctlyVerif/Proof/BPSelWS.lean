/-
Proof/BPSelWS — `select1` with the sampled `SelectIndex<u32>` (`WithSelect`): jump to a sample,
`scan_select` for the word, `select_in_word` inside it = position of the k-th open (C04).
-/
import SuccinctlyVerif.Proof.BPSel1
import SuccinctlyVerif.Proof.BPSample
import SuccinctlyVerif.Proof.Kernels
namespace SV.BPR
open SV SV.BP SV.BPM SV.BPP SV.BPS SV.BPC SV.BPQ

theorem rawCum_eq (st : List (BitVec 64)) (a : Nat) : rawCum st a = (allBits (st.take a)).count true := by
  unfold rawCum
  rw [Scan.count_allBits]
  congr 1
  apply List.map_congr_left
  intro w _; exact Kernels.popc_eq_popcount w

theorem rawCum_zero (st : List (BitVec 64)) : rawCum st 0 = 0 := by simp [rawCum]

/-- `select_in_word` (CTZ path; C02 proves every dispatch path equal to it). -/
theorem selectInWord_eq (w : BitVec 64) (r : Nat) (hr : r < 2 ^ 32) : selectInWord w r = selectInWordSpec w r := by
  unfold selectInWord
  rw [Nat.mod_eq_of_lt hr, Kernels.selectCtz_eq]

/-- Selecting among all stored bits agrees with selecting among the first `len` when the rank is
below the number of opens there. -/
theorem selectB_allBits_of_bits (st : List (BitVec 64)) (len j q : Nat)
    (h : selectB true (bitsOf st len) j = some q) : selectB true (allBits st) j = some q := by
  have hcount : j < (bitsOf st len).count true := by
    by_cases hc : j < (bitsOf st len).count true
    · exact hc
    · rw [selectB_none true _ _ (by omega)] at h; simp at h
  conv => lhs; rw [← List.take_append_drop len (allBits st), Scan.selectB_append]
  unfold bitsOf at hcount h
  simp [hcount, h]

/-- From any word `a` whose preceding raw count is `≤ j`, `scan_select` finds the word holding the
`j`-th open and the rank inside it. -/
theorem scan_locates (st : List (BitVec 64)) (len j q a : Nat) (ha : a < st.length) (hcum : rawCum st a ≤ j)
    (hq : selectB true (bitsOf st len) j = some q) :
    ∃ i r, scanSelect popc st a (j - rawCum st a) = some (i, r) ∧ r < 64 ∧
      q = i * 64 + selectInWordSpec (st.getD i 0) r := by
  have hall := selectB_allBits_of_bits st len j q hq
  rw [Scan.scanSelect_eq_scalar]
  unfold scanSelectScalar
  have hna : ¬ a ≥ st.length := by omega
  simp only [hna, if_false]
  -- split the stored bits at word `a`
  have hsplit : allBits st = allBits (st.take a) ++ allBits (st.drop a) := by
    rw [← allBits_append, List.take_append_drop]
  rw [hsplit, Scan.selectB_append, ← rawCum_eq] at hall
  have hnot : ¬ j < rawCum st a := by omega
  simp only [hnot, if_false] at hall
  have hlen1 : (allBits (st.take a)).length = 64 * a := by
    rw [allBits_length, List.length_take]; congr 1; omega
  rw [hlen1] at hall
  have hspec := Scan.scanScalar_spec popc Kernels.popc_eq_popcount (st.drop a) a (j - rawCum st a)
  cases hsc : scanScalar popc (st.drop a) a (j - rawCum st a) with
  | none =>
    rw [hsc] at hspec
    rw [hspec.1] at hall
    simp at hall
  | some ir =>
    obtain ⟨i, r⟩ := ir
    rw [hsc] at hspec
    obtain ⟨h1, h2, h3, h4⟩ := hspec
    rw [h3] at hall
    have hgd : (st.drop a).getD (i - a) 0 = st.getD i 0 := by
      rw [List.getD_eq_getElem?_getD, List.getElem?_drop, List.getD_eq_getElem?_getD]
      congr 2; omega
    rw [hgd] at hall h4
    have hr64 : r < 64 := by have := Kernels.popcount_le (st.getD i 0); omega
    refine ⟨i, r, rfl, hr64, ?_⟩
    cases hs : selectB true (wordBits (st.getD i 0)) r with
    | none => rw [hs] at hall; simp at hall
    | some s =>
      rw [hs] at hall
      simp only [Option.map_some, Option.some.injEq] at hall
      unfold selectInWordSpec
      rw [hs]
      simp only [Option.getD_some]
      omega

end SV.BPR
