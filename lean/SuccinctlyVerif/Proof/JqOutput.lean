/-
Proof/JqOutput — helper lemmas for Props/C11 and Props/C27 over Model/JqOutput.
-/
import SuccinctlyVerif.Model.JqOutput
namespace SV.JqOut

end SV.JqOut
