/-
Proof/JqOutput — helper lemmas for Props/C11 over Model/JqOutput: whitespace skipping, number
tokens, UTF-8 and `\\uXXXX` read-back of single characters and of whole string bodies.
-/
import SuccinctlyVerif.Model.JqOutput
namespace SV.JqOut


/-! ### whitespace -/

theorem skipWs_append_ws (w s : Bytes) (h : w.all isWs = true) : skipWs (w ++ s) = skipWs s := by
  induction w with
  | nil => rfl
  | cons b w ih =>
    simp only [List.all_cons, Bool.and_eq_true] at h
    simp [skipWs, h.1, ih h.2]

theorem skipWs_cons_nonws (b : UInt8) (s : Bytes) (h : isWs b = false) : skipWs (b :: s) = b :: s := by
  simp [skipWs, h]

theorem indentOf_ws (u : Bytes) (hu : u.all isWs = true) (n : Nat) : (indentOf u n).all isWs = true := by
  induction n with
  | zero => rfl
  | succ n ih => simp [indentOf, List.all_append, hu, ih]

theorem gap_ws (c : Cfg) (hu : c.unit.all isWs = true) (lvl : Nat) : (gap c lvl).all isWs = true := by
  unfold gap
  split
  · rfl
  · simp [List.all_cons, indentOf_ws c.unit hu lvl, isWs]

theorem skipWs_gap (c : Cfg) (hu : c.unit.all isWs = true) (lvl : Nat) (s : Bytes) :
    skipWs (gap c lvl ++ s) = skipWs s := skipWs_append_ws _ _ (gap_ws c hu lvl)

/-! ### numbers -/

theorem validNum_numChars (s : Bytes) (h : validNum s = true) : s.all isNumChar = true := by
  unfold validNum at h
  simp only [Bool.and_eq_true] at h
  exact h.1

theorem validNum_ne_nil (s : Bytes) (h : validNum s = true) : s ≠ [] := by
  intro hs; subst hs; simp [validNum] at h

theorem u8_forall (p : UInt8 → Prop) (h : ∀ i : Fin 256, p (UInt8.ofNat i.val)) : ∀ b, p b := by
  intro b
  have := h ⟨b.toNat, b.toNat_lt⟩
  simpa using this

theorem numChar_not_ws (b : UInt8) (h : isNumChar b = true) : isWs b = false := by
  revert h; revert b
  apply u8_forall
  decide +kernel

theorem takeNum_append (t r : Bytes) (ht : t.all isNumChar = true)
    (hr : ∀ b r', r = b :: r' → isNumChar b = false) : takeNum (t ++ r) = t ∧ dropNum (t ++ r) = r := by
  induction t with
  | nil =>
    cases r with
    | nil => simp [takeNum, dropNum]
    | cons b r' => simp [takeNum, dropNum, hr b r' rfl]
  | cons b t ih =>
    simp only [List.all_cons, Bool.and_eq_true] at ht
    simp [takeNum, dropNum, ht.1, ih ht.2]



theorem char_range (c : Char) : c.toNat < 0xD800 ∨ (0xE000 ≤ c.toNat ∧ c.toNat < 0x110000) := by
  have h := c.valid
  simp only [UInt32.isValidChar, Nat.isValidChar] at h
  simp only [Char.toNat]
  omega

theorem toNat_ofNat_lt (k : Nat) (h : k < 256) : (UInt8.ofNat k).toNat = k := by
  simp [UInt8.toNat_ofNat']; omega

theorem pStr_utf8 (c : Char) (s : Bytes) (h : mustEscape c = false) :
    pStr (utf8Enc c ++ s) = consC c false (pStr s) := by
  have hr := char_range c
  have hc : Char.ofNat c.toNat = c := Char.ofNat_toNat c
  simp only [mustEscape, Bool.or_eq_false_iff, decide_eq_false_iff_not] at h
  obtain ⟨⟨h1, h2⟩, h3⟩ := h
  unfold utf8Enc
  simp only []
  split
  · next hlt =>
    simp only [List.cons_append, List.nil_append]
    rw [pStr.eq_def]
    simp only [toNat_ofNat_lt c.toNat (by omega : c.toNat < 256)]
    simp [h2, h3, hlt, hc]
    omega
  · next hge =>
    split
    · next hlt =>
      simp only [List.cons_append, List.nil_append]
      rw [pStr.eq_def]
      simp only [toNat_ofNat_lt (0xC0 + c.toNat / 64) (by omega), toNat_ofNat_lt (0x80 + c.toNat % 64) (by omega)]
      rw [if_neg (by omega), if_neg (by omega), if_neg (by omega), if_neg (by omega), if_neg (by omega), if_pos (by omega)]
      have hcont : isContN (0x80 + c.toNat % 64) = true := by simp [isContN]; omega
      simp only [hcont, if_true]
      have : (0xC0 + c.toNat / 64 - 0xC0) * 64 + (0x80 + c.toNat % 64 - 0x80) = c.toNat := by omega
      rw [this, hc]
    · next hge2 =>
      split
      · next hlt =>
        simp only [List.cons_append, List.nil_append]
        rw [pStr.eq_def]
        simp only [toNat_ofNat_lt (0xE0 + c.toNat / 4096) (by omega),
          toNat_ofNat_lt (0x80 + c.toNat / 64 % 64) (by omega), toNat_ofNat_lt (0x80 + c.toNat % 64) (by omega)]
        rw [if_neg (by omega), if_neg (by omega), if_neg (by omega), if_neg (by omega), if_neg (by omega),
          if_neg (by omega), if_pos (by omega)]
        have hm : (0xE0 + c.toNat / 4096 - 0xE0) * 4096 + (0x80 + c.toNat / 64 % 64 - 0x80) * 64
            + (0x80 + c.toNat % 64 - 0x80) = c.toNat := by omega
        have hc1 : isContN (0x80 + c.toNat / 64 % 64) = true := by simp [isContN]; omega
        have hc2 : isContN (0x80 + c.toNat % 64) = true := by simp [isContN]; omega
        simp only [hm, hc1, hc2, hc]
        have h4 : decide (0x800 ≤ c.toNat) = true := by simp; omega
        have h5 : (decide (0xD800 ≤ c.toNat) && decide (c.toNat < 0xE000)) = false := by
          simp only [Bool.and_eq_false_iff, decide_eq_false_iff_not]; omega
        simp [h4, h5]
      · next hge3 =>
        simp only [List.cons_append, List.nil_append]
        rw [pStr.eq_def]
        simp only [toNat_ofNat_lt (0xF0 + c.toNat / 262144) (by omega),
          toNat_ofNat_lt (0x80 + c.toNat / 4096 % 64) (by omega),
          toNat_ofNat_lt (0x80 + c.toNat / 64 % 64) (by omega), toNat_ofNat_lt (0x80 + c.toNat % 64) (by omega)]
        rw [if_neg (by omega), if_neg (by omega), if_neg (by omega), if_neg (by omega), if_neg (by omega),
          if_neg (by omega), if_neg (by omega), if_pos (by omega)]
        have hm : (0xF0 + c.toNat / 262144 - 0xF0) * 262144 + (0x80 + c.toNat / 4096 % 64 - 0x80) * 4096
            + (0x80 + c.toNat / 64 % 64 - 0x80) * 64 + (0x80 + c.toNat % 64 - 0x80) = c.toNat := by omega
        have hc0 : isContN (0x80 + c.toNat / 4096 % 64) = true := by simp [isContN]; omega
        have hc1 : isContN (0x80 + c.toNat / 64 % 64) = true := by simp [isContN]; omega
        have hc2 : isContN (0x80 + c.toNat % 64) = true := by simp [isContN]; omega
        simp only [hm, hc0, hc1, hc2, hc]
        have h4 : decide (0x10000 ≤ c.toNat) = true := by simp; omega
        have h5 : decide (c.toNat < 0x110000) = true := by simp; omega
        simp [h4, h5]


theorem hexVal_hexDig' (d : Nat) (h : d < 16) : hexVal (hexDig d) = some d := by
  unfold hexDig hexVal
  split
  · next hlt =>
    simp only [toNat_ofNat_lt (0x30 + d) (by omega)]
    rw [if_pos (by omega)]
    exact congrArg some (by omega)
  · next hge =>
    simp only [toNat_ofNat_lt (0x57 + d) (by omega)]
    rw [if_neg (by omega), if_pos (by omega)]
    exact congrArg some (by omega)

theorem hex4_u4 (n : Nat) (h : n < 65536) :
    hex4 (hexDig (n / 4096 % 16)) (hexDig (n / 256 % 16)) (hexDig (n / 16 % 16)) (hexDig (n % 16)) = some n := by
  have a := hexVal_hexDig' (n / 4096 % 16) (by omega)
  have b := hexVal_hexDig' (n / 256 % 16) (by omega)
  have c := hexVal_hexDig' (n / 16 % 16) (by omega)
  have d := hexVal_hexDig' (n % 16) (by omega)
  unfold hex4
  rw [a, b, c, d]
  exact congrArg some (by omega)

theorem n92 : UInt8.toNat 92 = 92 := rfl
theorem n117 : UInt8.toNat 117 = 117 := rfl

/-- reading `\\uXXXX` of a non-surrogate -/
theorem pStr_u4 (n : Nat) (s : Bytes) (h : n < 0xD800 ∨ (0xE000 ≤ n ∧ n < 0x10000)) :
    pStr (u4 n ++ s) = consC (Char.ofNat n) true (pStr s) := by
  unfold u4
  simp only [List.cons_append, List.nil_append]
  rw [pStr.eq_def]
  dsimp only
  simp only [n92, n117, ↓reduceIte, hex4_u4 n (by omega)]
  have a0 : ¬ ((92 : Nat) = 34) := by decide
  have a1 : ¬ (55296 ≤ n ∧ n < 56320) := by omega
  have a2 : ¬ (56320 ≤ n ∧ n < 57344) := by omega
  simp only [a0, a1, a2, ↓reduceIte]

set_option maxRecDepth 20000 in
/-- reading a surrogate pair -/
theorem pStr_u4_pair (n : Nat) (s : Bytes) (h1 : 0x10000 ≤ n) (h2 : n < 0x110000) :
    pStr (u4 (0xD800 + (n - 0x10000) / 1024) ++ u4 (0xDC00 + (n - 0x10000) % 1024) ++ s)
      = consC (Char.ofNat n) true (pStr s) := by
  unfold u4
  simp only [List.cons_append, List.nil_append]
  rw [pStr.eq_def]
  dsimp only
  simp only [n92, n117, ↓reduceIte, hex4_u4 (0xD800 + (n - 0x10000) / 1024) (by omega), hex4_u4 (0xDC00 + (n - 0x10000) % 1024) (by omega)]
  have a0 : ¬ ((92 : Nat) = 34) := by decide
  have b1 : 55296 ≤ 55296 + (n - 65536) / 1024 ∧ 55296 + (n - 65536) / 1024 < 56320 := by omega
  have b3 : 56320 ≤ 56320 + (n - 65536) % 1024 ∧ 56320 + (n - 65536) % 1024 < 57344 := by omega
  have e : 0x10000 + (0xD800 + (n - 0x10000) / 1024 - 0xD800) * 1024 + (0xDC00 + (n - 0x10000) % 1024 - 0xDC00) = n := by omega
  simp only [a0, b1, b3, and_self, e, ↓reduceIte]


theorem char_of_toNat (c : Char) (k : Nat) (h : c.toNat = k) : c = Char.ofNat k := by
  rw [← h, Char.ofNat_toNat]

theorem pStr_simple (e : UInt8) (c : Char) (s : Bytes) (he : e.toNat ≠ 0x75) (hs : simpleEsc e = some c) :
    pStr (0x5c :: e :: s) = consC c true (pStr s) := by
  rw [pStr.eq_def]
  dsimp only
  have a0 : ¬ ((92 : Nat) = 34) := by decide
  simp only [n92, a0, he, hs, ↓reduceIte]

/-- one printed character reads back as itself -/
theorem pStr_escChar (a : Bool) (c : Char) (s : Bytes) :
    ∃ e, pStr (escChar a c ++ s) = consC c e (pStr s) := by
  have hr := char_range c
  have hc : Char.ofNat c.toNat = c := Char.ofNat_toNat c
  unfold escChar
  dsimp only
  split
  · next h => exact ⟨true, by rw [char_of_toNat c _ h]; exact pStr_simple 0x22 _ s (by decide) rfl⟩
  split
  · next h => exact ⟨true, by rw [char_of_toNat c _ h]; exact pStr_simple 0x5c _ s (by decide) rfl⟩
  split
  · next h => exact ⟨true, by rw [char_of_toNat c _ h]; exact pStr_simple 0x62 _ s (by decide) rfl⟩
  split
  · next h => exact ⟨true, by rw [char_of_toNat c _ h]; exact pStr_simple 0x66 _ s (by decide) rfl⟩
  split
  · next h => exact ⟨true, by rw [char_of_toNat c _ h]; exact pStr_simple 0x6e _ s (by decide) rfl⟩
  split
  · next h => exact ⟨true, by rw [char_of_toNat c _ h]; exact pStr_simple 0x72 _ s (by decide) rfl⟩
  split
  · next h => exact ⟨true, by rw [char_of_toNat c _ h]; exact pStr_simple 0x74 _ s (by decide) rfl⟩
  split
  · next h => exact ⟨true, by rw [pStr_u4 c.toNat s (by omega), hc]⟩
  split
  · next h =>
    split
    · next h2 => exact ⟨true, by rw [pStr_u4 c.toNat s (by omega), hc]⟩
    · next h2 => exact ⟨true, by rw [pStr_u4_pair c.toNat s (by omega) (by omega), hc]⟩
  · next h1 h2 h3 h4 h5 h6 h7 h8 h9 =>
    refine ⟨false, pStr_utf8 c s ?_⟩
    simp only [mustEscape, Bool.or_eq_false_iff, decide_eq_false_iff_not]
    omega

theorem pStr_quote (s : Bytes) : pStr (0x22 :: s) = .ok ([], false, s) := by
  rw [pStr.eq_def]; rfl

theorem pStr_escBody (a : Bool) (cs : List Char) (s : Bytes) :
    ∃ e, pStr (escBody a cs ++ 0x22 :: s) = .ok (cs, e, s) := by
  induction cs with
  | nil => exact ⟨false, by simpa [escBody] using pStr_quote s⟩
  | cons c cs ih =>
    obtain ⟨e1, h1⟩ := pStr_escChar a c (escBody a cs ++ 0x22 :: s)
    obtain ⟨e2, h2⟩ := ih
    refine ⟨e1 || e2, ?_⟩
    simp only [escBody, List.append_assoc]
    rw [h1, h2]
    rfl

theorem pStr_rawBody (cs : List Char) (s : Bytes) (h : cs.all (fun c => !mustEscape c) = true) :
    pStr (rawBody cs ++ 0x22 :: s) = .ok (cs, false, s) := by
  induction cs with
  | nil => simpa [rawBody] using pStr_quote s
  | cons c cs ih =>
    simp only [List.all_cons, Bool.and_eq_true, Bool.not_eq_true'] at h
    simp only [rawBody, List.append_assoc]
    rw [pStr_utf8 c _ h.1, ih h.2]
    rfl

/-- a printed string (either spelling) reads back as its scalars -/
theorem pStr_strBytes (c : Cfg) (k : Str) (s : Bytes) (hk : k.wf = true) :
    ∃ e, strBytes c k ++ s = 0x22 :: (strBytes c k ++ s).tail ∧ pStr ((strBytes c k ++ s).tail) = .ok (k.cs, e, s) := by
  unfold strBytes
  split
  · next h =>
    simp only [Bool.and_eq_true, Bool.not_eq_true'] at h
    have hw : k.cs.all (fun c => !mustEscape c) = true := by
      simp only [Str.wf, h.2, Bool.false_or] at hk; exact hk
    exact ⟨false, rfl, by simpa using pStr_rawBody k.cs s hw⟩
  · obtain ⟨e, he⟩ := pStr_escBody c.ascii k.cs s
    exact ⟨e, rfl, by simpa using he⟩

end SV.JqOut
