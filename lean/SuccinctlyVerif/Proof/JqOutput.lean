/-
Proof/JqOutput — helper lemmas for Props/C11 over Model/JqOutput: whitespace skipping, number
tokens, UTF-8 and `\\uXXXX` read-back of single characters and of whole string bodies.
-/
import SuccinctlyVerif.Model.JqOutput
namespace SV.JqOut


/-! ### whitespace -/

theorem skipWs_append_ws (w s : Bytes) (h : w.all isWs = true) : skipWs (w ++ s) = skipWs s := by
  induction w with
  | nil => rfl
  | cons b w ih =>
    simp only [List.all_cons, Bool.and_eq_true] at h
    simp [skipWs, h.1, ih h.2]

theorem skipWs_cons_nonws (b : UInt8) (s : Bytes) (h : isWs b = false) : skipWs (b :: s) = b :: s := by
  simp [skipWs, h]

theorem indentOf_ws (u : Bytes) (hu : u.all isWs = true) (n : Nat) : (indentOf u n).all isWs = true := by
  induction n with
  | zero => rfl
  | succ n ih => simp [indentOf, List.all_append, hu, ih]

theorem gap_ws (c : Cfg) (hu : c.unit.all isWs = true) (lvl : Nat) : (gap c lvl).all isWs = true := by
  unfold gap
  split
  · rfl
  · simp [List.all_cons, indentOf_ws c.unit hu lvl, isWs]

theorem skipWs_gap (c : Cfg) (hu : c.unit.all isWs = true) (lvl : Nat) (s : Bytes) :
    skipWs (gap c lvl ++ s) = skipWs s := skipWs_append_ws _ _ (gap_ws c hu lvl)

/-! ### numbers -/

theorem validNum_numChars (s : Bytes) (h : validNum s = true) : s.all isNumChar = true := by
  unfold validNum at h
  simp only [Bool.and_eq_true] at h
  exact h.1

theorem validNum_ne_nil (s : Bytes) (h : validNum s = true) : s ≠ [] := by
  intro hs; subst hs; simp [validNum] at h

theorem u8_forall (p : UInt8 → Prop) (h : ∀ i : Fin 256, p (UInt8.ofNat i.val)) : ∀ b, p b := by
  intro b
  have := h ⟨b.toNat, b.toNat_lt⟩
  simpa using this

theorem numChar_not_ws (b : UInt8) (h : isNumChar b = true) : isWs b = false := by
  revert h; revert b
  apply u8_forall
  decide +kernel

theorem takeNum_append (t r : Bytes) (ht : t.all isNumChar = true)
    (hr : ∀ b r', r = b :: r' → isNumChar b = false) : takeNum (t ++ r) = t ∧ dropNum (t ++ r) = r := by
  induction t with
  | nil =>
    cases r with
    | nil => simp [takeNum, dropNum]
    | cons b r' => simp [takeNum, dropNum, hr b r' rfl]
  | cons b t ih =>
    simp only [List.all_cons, Bool.and_eq_true] at ht
    simp [takeNum, dropNum, ht.1, ih ht.2]



theorem char_range (c : Char) : c.toNat < 0xD800 ∨ (0xE000 ≤ c.toNat ∧ c.toNat < 0x110000) := by
  have h := c.valid
  simp only [UInt32.isValidChar, Nat.isValidChar] at h
  simp only [Char.toNat]
  omega

theorem toNat_ofNat_lt (k : Nat) (h : k < 256) : (UInt8.ofNat k).toNat = k := by
  simp [UInt8.toNat_ofNat']; omega

theorem pStr_utf8 (c : Char) (s : Bytes) (h : mustEscape c = false) :
    pStr (utf8Enc c ++ s) = consC c false (pStr s) := by
  have hr := char_range c
  have hc : Char.ofNat c.toNat = c := Char.ofNat_toNat c
  simp only [mustEscape, Bool.or_eq_false_iff, decide_eq_false_iff_not] at h
  obtain ⟨⟨h1, h2⟩, h3⟩ := h
  unfold utf8Enc
  simp only []
  split
  · next hlt =>
    simp only [List.cons_append, List.nil_append]
    rw [pStr.eq_def]
    simp only [toNat_ofNat_lt c.toNat (by omega : c.toNat < 256)]
    simp [h2, h3, hlt, hc]
    omega
  · next hge =>
    split
    · next hlt =>
      simp only [List.cons_append, List.nil_append]
      rw [pStr.eq_def]
      simp only [toNat_ofNat_lt (0xC0 + c.toNat / 64) (by omega), toNat_ofNat_lt (0x80 + c.toNat % 64) (by omega)]
      rw [if_neg (by omega), if_neg (by omega), if_neg (by omega), if_neg (by omega), if_neg (by omega), if_pos (by omega)]
      have hcont : isContN (0x80 + c.toNat % 64) = true := by simp [isContN]; omega
      simp only [hcont, if_true]
      have : (0xC0 + c.toNat / 64 - 0xC0) * 64 + (0x80 + c.toNat % 64 - 0x80) = c.toNat := by omega
      rw [this, hc]
    · next hge2 =>
      split
      · next hlt =>
        simp only [List.cons_append, List.nil_append]
        rw [pStr.eq_def]
        simp only [toNat_ofNat_lt (0xE0 + c.toNat / 4096) (by omega),
          toNat_ofNat_lt (0x80 + c.toNat / 64 % 64) (by omega), toNat_ofNat_lt (0x80 + c.toNat % 64) (by omega)]
        rw [if_neg (by omega), if_neg (by omega), if_neg (by omega), if_neg (by omega), if_neg (by omega),
          if_neg (by omega), if_pos (by omega)]
        have hm : (0xE0 + c.toNat / 4096 - 0xE0) * 4096 + (0x80 + c.toNat / 64 % 64 - 0x80) * 64
            + (0x80 + c.toNat % 64 - 0x80) = c.toNat := by omega
        have hc1 : isContN (0x80 + c.toNat / 64 % 64) = true := by simp [isContN]; omega
        have hc2 : isContN (0x80 + c.toNat % 64) = true := by simp [isContN]; omega
        simp only [hm, hc1, hc2, hc]
        have h4 : decide (0x800 ≤ c.toNat) = true := by simp; omega
        have h5 : (decide (0xD800 ≤ c.toNat) && decide (c.toNat < 0xE000)) = false := by
          simp only [Bool.and_eq_false_iff, decide_eq_false_iff_not]; omega
        simp [h4, h5]
      · next hge3 =>
        simp only [List.cons_append, List.nil_append]
        rw [pStr.eq_def]
        simp only [toNat_ofNat_lt (0xF0 + c.toNat / 262144) (by omega),
          toNat_ofNat_lt (0x80 + c.toNat / 4096 % 64) (by omega),
          toNat_ofNat_lt (0x80 + c.toNat / 64 % 64) (by omega), toNat_ofNat_lt (0x80 + c.toNat % 64) (by omega)]
        rw [if_neg (by omega), if_neg (by omega), if_neg (by omega), if_neg (by omega), if_neg (by omega),
          if_neg (by omega), if_neg (by omega), if_pos (by omega)]
        have hm : (0xF0 + c.toNat / 262144 - 0xF0) * 262144 + (0x80 + c.toNat / 4096 % 64 - 0x80) * 4096
            + (0x80 + c.toNat / 64 % 64 - 0x80) * 64 + (0x80 + c.toNat % 64 - 0x80) = c.toNat := by omega
        have hc0 : isContN (0x80 + c.toNat / 4096 % 64) = true := by simp [isContN]; omega
        have hc1 : isContN (0x80 + c.toNat / 64 % 64) = true := by simp [isContN]; omega
        have hc2 : isContN (0x80 + c.toNat % 64) = true := by simp [isContN]; omega
        simp only [hm, hc0, hc1, hc2, hc]
        have h4 : decide (0x10000 ≤ c.toNat) = true := by simp; omega
        have h5 : decide (c.toNat < 0x110000) = true := by simp; omega
        simp [h4, h5]


theorem hexVal_hexDig' (d : Nat) (h : d < 16) : hexVal (hexDig d) = some d := by
  unfold hexDig hexVal
  split
  · next hlt =>
    simp only [toNat_ofNat_lt (0x30 + d) (by omega)]
    rw [if_pos (by omega)]
    exact congrArg some (by omega)
  · next hge =>
    simp only [toNat_ofNat_lt (0x57 + d) (by omega)]
    rw [if_neg (by omega), if_pos (by omega)]
    exact congrArg some (by omega)

theorem hex4_u4 (n : Nat) (h : n < 65536) :
    hex4 (hexDig (n / 4096 % 16)) (hexDig (n / 256 % 16)) (hexDig (n / 16 % 16)) (hexDig (n % 16)) = some n := by
  have a := hexVal_hexDig' (n / 4096 % 16) (by omega)
  have b := hexVal_hexDig' (n / 256 % 16) (by omega)
  have c := hexVal_hexDig' (n / 16 % 16) (by omega)
  have d := hexVal_hexDig' (n % 16) (by omega)
  unfold hex4
  rw [a, b, c, d]
  exact congrArg some (by omega)

theorem n92 : UInt8.toNat 92 = 92 := rfl
theorem n117 : UInt8.toNat 117 = 117 := rfl

/-- reading `\\uXXXX` of a non-surrogate -/
theorem pStr_u4 (n : Nat) (s : Bytes) (h : n < 0xD800 ∨ (0xE000 ≤ n ∧ n < 0x10000)) :
    pStr (u4 n ++ s) = consC (Char.ofNat n) true (pStr s) := by
  unfold u4
  simp only [List.cons_append, List.nil_append]
  rw [pStr.eq_def]
  dsimp only
  simp only [n92, n117, ↓reduceIte, hex4_u4 n (by omega)]
  have a0 : ¬ ((92 : Nat) = 34) := by decide
  have a1 : ¬ (55296 ≤ n ∧ n < 56320) := by omega
  have a2 : ¬ (56320 ≤ n ∧ n < 57344) := by omega
  simp only [a0, a1, a2, ↓reduceIte]

set_option maxRecDepth 20000 in
/-- reading a surrogate pair -/
theorem pStr_u4_pair (n : Nat) (s : Bytes) (h1 : 0x10000 ≤ n) (h2 : n < 0x110000) :
    pStr (u4 (0xD800 + (n - 0x10000) / 1024) ++ u4 (0xDC00 + (n - 0x10000) % 1024) ++ s)
      = consC (Char.ofNat n) true (pStr s) := by
  unfold u4
  simp only [List.cons_append, List.nil_append]
  rw [pStr.eq_def]
  dsimp only
  simp only [n92, n117, ↓reduceIte, hex4_u4 (0xD800 + (n - 0x10000) / 1024) (by omega), hex4_u4 (0xDC00 + (n - 0x10000) % 1024) (by omega)]
  have a0 : ¬ ((92 : Nat) = 34) := by decide
  have b1 : 55296 ≤ 55296 + (n - 65536) / 1024 ∧ 55296 + (n - 65536) / 1024 < 56320 := by omega
  have b3 : 56320 ≤ 56320 + (n - 65536) % 1024 ∧ 56320 + (n - 65536) % 1024 < 57344 := by omega
  have e : 0x10000 + (0xD800 + (n - 0x10000) / 1024 - 0xD800) * 1024 + (0xDC00 + (n - 0x10000) % 1024 - 0xDC00) = n := by omega
  simp only [a0, b1, b3, and_self, e, ↓reduceIte]


theorem char_of_toNat (c : Char) (k : Nat) (h : c.toNat = k) : c = Char.ofNat k := by
  rw [← h, Char.ofNat_toNat]

theorem pStr_simple (e : UInt8) (c : Char) (s : Bytes) (he : e.toNat ≠ 0x75) (hs : simpleEsc e = some c) :
    pStr (0x5c :: e :: s) = consC c true (pStr s) := by
  rw [pStr.eq_def]
  dsimp only
  have a0 : ¬ ((92 : Nat) = 34) := by decide
  simp only [n92, a0, he, hs, ↓reduceIte]

/-- one printed character reads back as itself -/
theorem pStr_escChar (a : Bool) (c : Char) (s : Bytes) :
    ∃ e, pStr (escChar a c ++ s) = consC c e (pStr s) := by
  have hr := char_range c
  have hc : Char.ofNat c.toNat = c := Char.ofNat_toNat c
  unfold escChar
  dsimp only
  split
  · next h => exact ⟨true, by rw [char_of_toNat c _ h]; exact pStr_simple 0x22 _ s (by decide) rfl⟩
  split
  · next h => exact ⟨true, by rw [char_of_toNat c _ h]; exact pStr_simple 0x5c _ s (by decide) rfl⟩
  split
  · next h => exact ⟨true, by rw [char_of_toNat c _ h]; exact pStr_simple 0x62 _ s (by decide) rfl⟩
  split
  · next h => exact ⟨true, by rw [char_of_toNat c _ h]; exact pStr_simple 0x66 _ s (by decide) rfl⟩
  split
  · next h => exact ⟨true, by rw [char_of_toNat c _ h]; exact pStr_simple 0x6e _ s (by decide) rfl⟩
  split
  · next h => exact ⟨true, by rw [char_of_toNat c _ h]; exact pStr_simple 0x72 _ s (by decide) rfl⟩
  split
  · next h => exact ⟨true, by rw [char_of_toNat c _ h]; exact pStr_simple 0x74 _ s (by decide) rfl⟩
  split
  · next h => exact ⟨true, by rw [pStr_u4 c.toNat s (by omega), hc]⟩
  split
  · next h =>
    split
    · next h2 => exact ⟨true, by rw [pStr_u4 c.toNat s (by omega), hc]⟩
    · next h2 => exact ⟨true, by rw [pStr_u4_pair c.toNat s (by omega) (by omega), hc]⟩
  · next h1 h2 h3 h4 h5 h6 h7 h8 h9 =>
    refine ⟨false, pStr_utf8 c s ?_⟩
    simp only [mustEscape, Bool.or_eq_false_iff, decide_eq_false_iff_not]
    omega

theorem pStr_quote (s : Bytes) : pStr (0x22 :: s) = .ok ([], false, s) := by
  rw [pStr.eq_def]; rfl

theorem pStr_escBody (a : Bool) (cs : List Char) (s : Bytes) :
    ∃ e, pStr (escBody a cs ++ 0x22 :: s) = .ok (cs, e, s) := by
  induction cs with
  | nil => exact ⟨false, by simpa [escBody] using pStr_quote s⟩
  | cons c cs ih =>
    obtain ⟨e1, h1⟩ := pStr_escChar a c (escBody a cs ++ 0x22 :: s)
    obtain ⟨e2, h2⟩ := ih
    refine ⟨e1 || e2, ?_⟩
    simp only [escBody, List.append_assoc]
    rw [h1, h2]
    rfl

theorem pStr_rawBody (cs : List Char) (s : Bytes) (h : cs.all (fun c => !mustEscape c) = true) :
    pStr (rawBody cs ++ 0x22 :: s) = .ok (cs, false, s) := by
  induction cs with
  | nil => simpa [rawBody] using pStr_quote s
  | cons c cs ih =>
    simp only [List.all_cons, Bool.and_eq_true, Bool.not_eq_true'] at h
    simp only [rawBody, List.append_assoc]
    rw [pStr_utf8 c _ h.1, ih h.2]
    rfl

/-- a printed string (either spelling) reads back as its scalars -/
theorem pStr_strBytes (c : Cfg) (k : Str) (s : Bytes) (hk : k.wf = true) :
    ∃ e, strBytes c k ++ s = 0x22 :: (strBytes c k ++ s).tail ∧ pStr ((strBytes c k ++ s).tail) = .ok (k.cs, e, s) := by
  unfold strBytes
  split
  · next h =>
    simp only [Bool.and_eq_true, Bool.not_eq_true'] at h
    have hw : k.cs.all (fun c => !mustEscape c) = true := by
      simp only [Str.wf, h.1.2, Bool.false_or] at hk; exact hk
    exact ⟨false, rfl, by simpa using pStr_rawBody k.cs s hw⟩
  · obtain ⟨e, he⟩ := pStr_escBody c.ascii k.cs s
    exact ⟨e, rfl, by simpa using he⟩


/-! ## read-back of printed values -/


mutual
  def need : V → Nat
    | .arr (x :: xs) => 1 + need x + needRest xs
    | .obj ((_, x) :: fs) => 2 + need x + needFields fs
    | _ => 1
  def needRest : List V → Nat
    | [] => 1
    | x :: xs => 1 + need x + needRest xs
  def needFields : List (Str × V) → Nat
    | [] => 1
    | (_, x) :: fs => 2 + need x + needFields fs
end

/-- the printer's number re-spelling keeps number tokens number tokens -/
def FmtOK (c : Cfg) : Prop := ∀ l, validNum l = true → validNum (c.fmt l) = true

def TailOK (rest : Bytes) : Prop := ∀ b r, rest = b :: r → isNumChar b = false

theorem numChar_facts (b : UInt8) (h : isNumChar b = true) :
    (b == 0x5b) = false ∧ (b == 0x7b) = false ∧ (b == 0x22) = false ∧ (b == 0x6e) = false ∧
    (b == 0x74) = false ∧ (b == 0x66) = false ∧ (b == 0x5d) = false ∧ (b == 0x7d) = false := by
  revert h; revert b
  apply u8_forall
  decide +kernel

theorem validNum_cons (s : Bytes) (h : validNum s = true) : ∃ b t, s = b :: t ∧ isNumChar b = true := by
  cases s with
  | nil => simp [validNum] at h
  | cons b t =>
    have := validNum_numChars _ h
    simp only [List.all_cons, Bool.and_eq_true] at this
    exact ⟨b, t, rfl, this.1⟩

/-- every printed value starts with a byte that is not whitespace and not a closing bracket -/
theorem render_cons (c : Cfg) (hf : FmtOK c) (lvl : Nat) (v : V) (hv : v.wf = true) :
    ∃ b t, render c lvl v = b :: t ∧ isWs b = false ∧ (b == 0x5d) = false ∧ (b == 0x7d) = false := by
  cases v with
  | null => exact ⟨0x6e, [0x75, 0x6c, 0x6c], by simp [render], by decide, by decide, by decide⟩
  | bool b =>
    cases b
    · exact ⟨0x66, [0x61, 0x6c, 0x73, 0x65], by simp [render], by decide, by decide, by decide⟩
    · exact ⟨0x74, [0x72, 0x75, 0x65], by simp [render], by decide, by decide, by decide⟩
  | num l =>
    obtain ⟨b, t, h1, h2⟩ := validNum_cons _ (hf l (by simpa [V.wf] using hv))
    have := numChar_facts b h2
    exact ⟨b, t, by simp [render, h1], numChar_not_ws b h2, this.2.2.2.2.2.2.1, this.2.2.2.2.2.2.2⟩
  | str s =>
    by_cases hh : (!c.ascii && !s.esc && !hasDel s.cs) = true
    · exact ⟨0x22, rawBody s.cs ++ [0x22], by simp only [render, strBytes, hh, if_true], by decide, by decide, by decide⟩
    · exact ⟨0x22, escBody c.ascii s.cs ++ [0x22], by simp only [render, strBytes, hh]; rfl, by decide, by decide, by decide⟩
  | arr xs =>
    cases xs with
    | nil => exact ⟨0x5b, [0x5d], by simp [render], by decide, by decide, by decide⟩
    | cons x xs => exact ⟨0x5b, _, by rw [render], by decide, by decide, by decide⟩
  | obj fs =>
    cases fs with
    | nil => exact ⟨0x7b, [0x7d], by simp [render], by decide, by decide, by decide⟩
    | cons f fs => obtain ⟨k, x⟩ := f; exact ⟨0x7b, _, by rw [render], by decide, by decide, by decide⟩

theorem skipWs_render (c : Cfg) (hf : FmtOK c) (lvl : Nat) (v : V) (hv : v.wf = true) (s : Bytes) :
    skipWs (render c lvl v ++ s) = render c lvl v ++ s := by
  obtain ⟨b, t, h, hw, _, _⟩ := render_cons c hf lvl v hv
  rw [h]; exact skipWs_cons_nonws b _ hw



theorem tailOK_ws_close (g : Bytes) (hg : g.all isWs = true) (b : UInt8) (hb : isNumChar b = false) (rest : Bytes) :
    TailOK (g ++ b :: rest) := by
  intro b' r h
  cases g with
  | nil => simp at h; rw [← h.1]; exact hb
  | cons w g' =>
    simp only [List.cons_append, List.cons.injEq] at h
    simp only [List.all_cons, Bool.and_eq_true] at hg
    rw [← h.1]
    cases hn : isNumChar w with
    | false => rfl
    | true => have := numChar_not_ws w hn; rw [hg.1] at this; cases this

theorem tailOK_rest (c : Cfg) (l : Nat) (xs : List V) (g : Bytes) (hg : g.all isWs = true) (rest : Bytes) :
    TailOK (renderRest c l xs ++ (g ++ 0x5d :: rest)) := by
  cases xs with
  | nil => simpa [renderRest] using tailOK_ws_close g hg 0x5d (by decide) rest
  | cons x xs => intro b r h; simp [renderRest] at h; rw [← h.1]; decide

theorem tailOK_fields (c : Cfg) (l : Nat) (fs : List (Str × V)) (g : Bytes) (hg : g.all isWs = true) (rest : Bytes) :
    TailOK (renderFields c l fs ++ (g ++ 0x7d :: rest)) := by
  cases fs with
  | nil => simpa [renderFields] using tailOK_ws_close g hg 0x7d (by decide) rest
  | cons f fs => obtain ⟨k, x⟩ := f; intro b r h; simp [renderFields] at h; rw [← h.1]; decide

/-! unfolding of the reader on the shapes the printer produces -/

theorem pValue_null (f : Nat) (r : Bytes) : pValue false (f + 1) (0x6e :: 0x75 :: 0x6c :: 0x6c :: r) = .ok (.null, r) := by
  rw [pValue.eq_def]; rfl
theorem pValue_true (f : Nat) (r : Bytes) : pValue false (f + 1) (0x74 :: 0x72 :: 0x75 :: 0x65 :: r) = .ok (.bool true, r) := by
  rw [pValue.eq_def]; rfl
theorem pValue_false (f : Nat) (r : Bytes) :
    pValue false (f + 1) (0x66 :: 0x61 :: 0x6c :: 0x73 :: 0x65 :: r) = .ok (.bool false, r) := by
  rw [pValue.eq_def]; rfl

theorem pValue_num (f : Nat) (tok rest : Bytes) (ht : validNum tok = true) (hr : TailOK rest) :
    pValue false (f + 1) (tok ++ rest) = .ok (.num tok, rest) := by
  obtain ⟨b, t, h1, h2⟩ := validNum_cons tok ht
  have hf := numChar_facts b h2
  have htd := takeNum_append tok rest (validNum_numChars tok ht) hr
  subst h1
  simp only [List.cons_append] at htd ⊢
  rw [pValue.eq_def]
  simp only [hf.1, hf.2.1, hf.2.2.1, hf.2.2.2.1, hf.2.2.2.2.1, hf.2.2.2.2.2.1, h2, htd.1, htd.2, ht,
    Bool.false_eq_true, ↓reduceIte]

theorem pValue_str (c : Cfg) (f : Nat) (k : Str) (rest : Bytes) (hk : k.wf = true) :
    pValue false (f + 1) (strBytes c k ++ rest) = .ok (.str ⟨k.cs, false⟩, rest) := by
  obtain ⟨e, h1, h2⟩ := pStr_strBytes c k rest hk
  rw [h1, pValue.eq_def]
  simp only [h2, Bool.false_and]
  rfl

theorem pValue_arr_nil (f : Nat) (rest : Bytes) : pValue false (f + 1) (0x5b :: 0x5d :: rest) = .ok (.arr [], rest) := by
  rw [pValue.eq_def]; simp [skipWs, isWs]
theorem pValue_obj_nil (f : Nat) (rest : Bytes) : pValue false (f + 1) (0x7b :: 0x7d :: rest) = .ok (.obj [], rest) := by
  rw [pValue.eq_def]; simp [skipWs, isWs]

theorem pValue_arr_cons (f : Nat) (s s2 s3 : Bytes) (b1 : UInt8) (s1 : Bytes) (x : V) (xs : List V)
    (h0 : skipWs s = b1 :: s1) (hb : (b1 == 0x5d) = false)
    (h1 : pValue false f (b1 :: s1) = .ok (x, s2)) (h2 : pRest false f s2 = .ok (xs, s3)) :
    pValue false (f + 1) (0x5b :: s) = .ok (.arr (x :: xs), s3) := by
  rw [pValue.eq_def]; simp [h0, hb, h1, h2]

theorem pValue_obj_cons (f : Nat) (s s2 s3 : Bytes) (b1 : UInt8) (s1 : Bytes) (kx : Str × V) (fs : List (Str × V))
    (h0 : skipWs s = b1 :: s1) (hb : (b1 == 0x7d) = false)
    (h1 : pField false f (b1 :: s1) = .ok (kx, s2)) (h2 : pFields false f s2 = .ok (fs, s3)) :
    pValue false (f + 1) (0x7b :: s) = .ok (.obj (kx :: fs), s3) := by
  rw [pValue.eq_def]; simp [h0, hb, h1, h2]

theorem pRest_close (f : Nat) (s s1 : Bytes) (h0 : skipWs s = 0x5d :: s1) : pRest false (f + 1) s = .ok ([], s1) := by
  rw [pRest.eq_def]; simp [h0]

theorem pRest_comma (f : Nat) (s s1 s2 s3 : Bytes) (x : V) (xs : List V) (h0 : skipWs s = 0x2c :: s1)
    (h1 : pValue false f (skipWs s1) = .ok (x, s2)) (h2 : pRest false f s2 = .ok (xs, s3)) :
    pRest false (f + 1) s = .ok (x :: xs, s3) := by
  rw [pRest.eq_def]; simp [h0, h1, h2]

theorem pFields_close (f : Nat) (s s1 : Bytes) (h0 : skipWs s = 0x7d :: s1) : pFields false (f + 1) s = .ok ([], s1) := by
  rw [pFields.eq_def]; simp [h0]

theorem pFields_comma (f : Nat) (s s1 s2 s3 : Bytes) (kx : Str × V) (fs : List (Str × V)) (h0 : skipWs s = 0x2c :: s1)
    (h1 : pField false f (skipWs s1) = .ok (kx, s2)) (h2 : pFields false f s2 = .ok (fs, s3)) :
    pFields false (f + 1) s = .ok (kx :: fs, s3) := by
  rw [pFields.eq_def]; simp [h0, h1, h2]

theorem pField_ok (f : Nat) (s0 s1 s2 s3 : Bytes) (cs : List Char) (e : Bool) (x : V)
    (h0 : pStr s0 = .ok (cs, e, s1)) (h1 : skipWs s1 = 0x3a :: s2)
    (h2 : pValue false f (skipWs s2) = .ok (x, s3)) :
    pField false (f + 1) (0x22 :: s0) = .ok ((⟨cs, false⟩, x), s3) := by
  rw [pField.eq_def]; simp [h0, h1, h2]



theorem skipWs_colon (c : Cfg) (hf : FmtOK c) (lvl : Nat) (x : V) (hx : x.wf = true) (rest : Bytes) :
    ∃ s2, skipWs (colon c ++ (render c lvl x ++ rest)) = 0x3a :: s2 ∧ skipWs s2 = render c lvl x ++ rest := by
  unfold colon
  cases c.compact
  · refine ⟨0x20 :: (render c lvl x ++ rest), by simp [skipWs, isWs], ?_⟩
    rw [show (0x20 : UInt8) :: (render c lvl x ++ rest) = [0x20] ++ (render c lvl x ++ rest) from rfl,
      skipWs_append_ws _ _ (by decide), skipWs_render c hf lvl x hx]
  · exact ⟨render c lvl x ++ rest, by simp [skipWs, isWs], skipWs_render c hf lvl x hx rest⟩

theorem pField_render (c : Cfg) (hf : FmtOK c) (f : Nat) (k : Str) (hk : k.wf = true) (x : V) (hx : x.wf = true)
    (lvl : Nat) (rest : Bytes) (w : V) (hw : pValue false f (render c lvl x ++ rest) = .ok (w, rest)) :
    ∃ b t, strBytes c k ++ (colon c ++ (render c lvl x ++ rest)) = b :: t ∧ (b == 0x7d) = false ∧ isWs b = false ∧
      pField false (f + 1) (b :: t) = .ok ((⟨k.cs, false⟩, w), rest) := by
  obtain ⟨e, h1, h2⟩ := pStr_strBytes c k (colon c ++ (render c lvl x ++ rest)) hk
  obtain ⟨s2, h3, h4⟩ := skipWs_colon c hf lvl x hx rest
  refine ⟨0x22, _, h1, by decide, by decide, ?_⟩
  exact pField_ok f _ _ s2 rest k.cs e w h2 h3 (by rw [h4]; exact hw)

mutual
  theorem pValue_render (c : Cfg) (hu : c.unit.all isWs = true) (hf : FmtOK c) :
      ∀ (v : V) (lvl f : Nat) (rest : Bytes), v.wf = true → need v ≤ f → TailOK rest →
        pValue false f (render c lvl v ++ rest) = .ok (norm (mapNum c.fmt v), rest)
    | .null, lvl, f, rest, _, hn, _ => by
      cases f with
      | zero => simp [need] at hn
      | succ f => simpa [render, mapNum, norm] using pValue_null f rest
    | .bool b, lvl, f, rest, _, hn, _ => by
      cases f with
      | zero => simp [need] at hn
      | succ f =>
        cases b
        · simpa [render, mapNum, norm] using pValue_false f rest
        · simpa [render, mapNum, norm] using pValue_true f rest
    | .num l, lvl, f, rest, hv, hn, ht => by
      cases f with
      | zero => simp [need] at hn
      | succ f =>
        have := pValue_num f (c.fmt l) rest (hf l (by simpa [V.wf] using hv)) ht
        simpa [render, mapNum, norm] using this
    | .str s, lvl, f, rest, hv, hn, _ => by
      cases f with
      | zero => simp [need] at hn
      | succ f =>
        have := pValue_str c f s rest (by simpa [V.wf] using hv)
        simpa [render, mapNum, norm] using this
    | .arr [], lvl, f, rest, _, hn, _ => by
      cases f with
      | zero => simp [need] at hn
      | succ f => simpa [render, mapNum, mapNumList, norm, normList] using pValue_arr_nil f rest
    | .obj [], lvl, f, rest, _, hn, _ => by
      cases f with
      | zero => simp [need] at hn
      | succ f => simpa [render, mapNum, mapNumFields, norm, normFields] using pValue_obj_nil f rest
    | .arr (x :: xs), lvl, f, rest, hv, hn, ht => by
      cases f with
      | zero => simp [need] at hn
      | succ f =>
        have hwf : x.wf = true ∧ wfList xs = true := by simpa [V.wf, wfList] using hv
        have hn1 : need x ≤ f := by simp [need] at hn; omega
        have hn2 : needRest xs ≤ f := by simp [need] at hn; omega
        let rest' := renderRest c (lvl + 1) xs ++ (gap c lvl ++ 0x5d :: rest)
        obtain ⟨b1, t, hbt, _, hb5d, _⟩ := render_cons c hf (lvl + 1) x hwf.1
        have h0 : skipWs (gap c (lvl + 1) ++ (render c (lvl + 1) x ++ rest')) = b1 :: (t ++ rest') := by
          rw [skipWs_gap c hu, skipWs_render c hf _ x hwf.1, hbt]; rfl
        have h1 : pValue false f (b1 :: (t ++ rest')) = .ok (norm (mapNum c.fmt x), rest') := by
          have := pValue_render c hu hf x (lvl + 1) f rest' hwf.1 hn1 (tailOK_rest c _ xs _ (gap_ws c hu lvl) rest)
          rwa [hbt] at this
        have h2 := pRest_render c hu hf xs (lvl + 1) f (gap c lvl) rest hwf.2 hn2 (gap_ws c hu lvl)
        have hs : render c lvl (.arr (x :: xs)) ++ rest
            = 0x5b :: (gap c (lvl + 1) ++ (render c (lvl + 1) x ++ rest')) := by
          simp [render, rest', List.append_assoc]
        rw [hs]
        simp only [mapNum, mapNumList, norm, normList]
        exact pValue_arr_cons f _ _ _ b1 _ _ _ h0 hb5d h1 h2
    | .obj ((k, x) :: fs), lvl, f, rest, hv, hn, ht => by
      cases f with
      | zero => simp [need] at hn
      | succ f =>
        have hwf : (k.wf = true ∧ x.wf = true) ∧ wfFields fs = true := by simpa [V.wf, wfFields] using hv
        cases f with
        | zero => simp [need] at hn; omega
        | succ f' =>
          have hn1 : need x ≤ f' := by simp [need] at hn; omega
          have hn2 : needFields fs ≤ f' + 1 := by simp [need] at hn; omega
          let rest' := renderFields c (lvl + 1) fs ++ (gap c lvl ++ 0x7d :: rest)
          have hx := pValue_render c hu hf x (lvl + 1) f' rest' hwf.1.2 hn1
            (tailOK_fields c _ fs _ (gap_ws c hu lvl) rest)
          obtain ⟨b1, t, hbt, hb7d, hws, hfield⟩ :=
            pField_render c hf f' k hwf.1.1 x hwf.1.2 (lvl + 1) rest' _ hx
          have h0 : skipWs (gap c (lvl + 1) ++ (strBytes c k ++ (colon c ++ (render c (lvl + 1) x ++ rest'))))
              = b1 :: t := by
            rw [skipWs_gap c hu, hbt]; exact skipWs_cons_nonws b1 t hws
          have h2 := pFields_render c hu hf fs (lvl + 1) (f' + 1) (gap c lvl) rest hwf.2 hn2 (gap_ws c hu lvl)
          have hs : render c lvl (.obj ((k, x) :: fs)) ++ rest
              = 0x7b :: (gap c (lvl + 1) ++ (strBytes c k ++ (colon c ++ (render c (lvl + 1) x ++ rest')))) := by
            simp [render, rest', List.append_assoc]
          rw [hs]
          simp only [mapNum, mapNumFields, norm, normFields]
          exact pValue_obj_cons (f' + 1) _ _ _ b1 _ _ _ h0 hb7d hfield h2
  theorem pRest_render (c : Cfg) (hu : c.unit.all isWs = true) (hf : FmtOK c) :
      ∀ (xs : List V) (l f : Nat) (g rest : Bytes), wfList xs = true → needRest xs ≤ f → g.all isWs = true →
        pRest false f (renderRest c l xs ++ (g ++ 0x5d :: rest)) = .ok (normList (mapNumList c.fmt xs), rest)
    | [], l, f, g, rest, _, hn, hg => by
      cases f with
      | zero => simp [needRest] at hn
      | succ f =>
        simp only [renderRest, List.nil_append, mapNumList, normList]
        exact pRest_close f _ rest (by rw [skipWs_append_ws g _ hg]; exact skipWs_cons_nonws _ _ (by decide))
    | x :: xs, l, f, g, rest, hv, hn, hg => by
      cases f with
      | zero => simp [needRest] at hn
      | succ f =>
        have hwf : x.wf = true ∧ wfList xs = true := by simpa [wfList] using hv
        have hn1 : need x ≤ f := by simp [needRest] at hn; omega
        have hn2 : needRest xs ≤ f := by simp [needRest] at hn; omega
        let rest' := renderRest c l xs ++ (g ++ 0x5d :: rest)
        have hs : renderRest c l (x :: xs) ++ (g ++ 0x5d :: rest)
            = 0x2c :: (gap c l ++ (render c l x ++ rest')) := by
          simp [renderRest, rest', List.append_assoc]
        have h1 : pValue false f (skipWs (gap c l ++ (render c l x ++ rest'))) = .ok (norm (mapNum c.fmt x), rest') := by
          rw [skipWs_gap c hu, skipWs_render c hf _ x hwf.1]
          exact pValue_render c hu hf x l f rest' hwf.1 hn1 (tailOK_rest c _ xs _ hg rest)
        have h2 := pRest_render c hu hf xs l f g rest hwf.2 hn2 hg
        rw [hs]
        simp only [mapNumList, normList]
        exact pRest_comma f _ _ _ _ _ _ (skipWs_cons_nonws _ _ (by decide)) h1 h2
  theorem pFields_render (c : Cfg) (hu : c.unit.all isWs = true) (hf : FmtOK c) :
      ∀ (fs : List (Str × V)) (l f : Nat) (g rest : Bytes), wfFields fs = true → needFields fs ≤ f → g.all isWs = true →
        pFields false f (renderFields c l fs ++ (g ++ 0x7d :: rest)) = .ok (normFields (mapNumFields c.fmt fs), rest)
    | [], l, f, g, rest, _, hn, hg => by
      cases f with
      | zero => simp [needFields] at hn
      | succ f =>
        simp only [renderFields, List.nil_append, mapNumFields, normFields]
        exact pFields_close f _ rest (by rw [skipWs_append_ws g _ hg]; exact skipWs_cons_nonws _ _ (by decide))
    | (k, x) :: fs, l, f, g, rest, hv, hn, hg => by
      cases f with
      | zero => simp [needFields] at hn
      | succ f =>
        cases f with
        | zero => simp [needFields] at hn; omega
        | succ f' =>
          have hwf : (k.wf = true ∧ x.wf = true) ∧ wfFields fs = true := by simpa [wfFields] using hv
          have hn1 : need x ≤ f' := by simp [needFields] at hn; omega
          have hn2 : needFields fs ≤ f' + 1 := by simp [needFields] at hn; omega
          let rest' := renderFields c l fs ++ (g ++ 0x7d :: rest)
          have hx := pValue_render c hu hf x l f' rest' hwf.1.2 hn1 (tailOK_fields c _ fs _ hg rest)
          obtain ⟨b1, t, hbt, _, hws, hfield⟩ := pField_render c hf f' k hwf.1.1 x hwf.1.2 l rest' _ hx
          have hs : renderFields c l ((k, x) :: fs) ++ (g ++ 0x7d :: rest)
              = 0x2c :: (gap c l ++ (strBytes c k ++ (colon c ++ (render c l x ++ rest')))) := by
            simp [renderFields, rest', List.append_assoc]
          have h1 : pField false (f' + 1) (skipWs (gap c l ++ (strBytes c k ++ (colon c ++ (render c l x ++ rest')))))
              = .ok ((⟨k.cs, false⟩, norm (mapNum c.fmt x)), rest') := by
            rw [skipWs_gap c hu, hbt, skipWs_cons_nonws b1 t hws]; exact hfield
          have h2 := pFields_render c hu hf fs l (f' + 1) g rest hwf.2 hn2 hg
          rw [hs]
          simp only [mapNumFields, normFields]
          exact pFields_comma (f' + 1) _ _ _ _ _ _ (skipWs_cons_nonws _ _ (by decide)) h1 h2
end



theorem colon_len (c : Cfg) : 1 ≤ (colon c).length := by unfold colon; split <;> simp
theorem strBytes_len (c : Cfg) (k : Str) : 1 ≤ (strBytes c k).length := by unfold strBytes; split <;> simp

mutual
  theorem need_le_len (c : Cfg) (hf : FmtOK c) : ∀ (v : V) (lvl : Nat), v.wf = true → need v ≤ (render c lvl v).length
    | .null, _, _ => by simp [need, render]
    | .bool b, _, _ => by cases b <;> simp [need, render]
    | .num l, _, hv => by
      obtain ⟨b, t, h, _⟩ := validNum_cons _ (hf l (by simpa [V.wf] using hv))
      simp [need, render, h]
    | .str s, _, _ => by simpa [need, render] using strBytes_len c s
    | .arr [], _, _ => by simp [need, render]
    | .obj [], _, _ => by simp [need, render]
    | .arr (x :: xs), lvl, hv => by
      have hwf : x.wf = true ∧ wfList xs = true := by simpa [V.wf, wfList] using hv
      have h1 := need_le_len c hf x (lvl + 1) hwf.1
      have h2 := needRest_le_len c hf xs (lvl + 1) hwf.2
      simp only [need, render, List.length_cons, List.length_append, List.length_nil]
      omega
    | .obj ((k, x) :: fs), lvl, hv => by
      have hwf : (k.wf = true ∧ x.wf = true) ∧ wfFields fs = true := by simpa [V.wf, wfFields] using hv
      have h1 := need_le_len c hf x (lvl + 1) hwf.1.2
      have h2 := needFields_le_len c hf fs (lvl + 1) hwf.2
      have h3 := colon_len c
      have h4 := strBytes_len c k
      simp only [need, render, List.length_cons, List.length_append, List.length_nil]
      omega
  theorem needRest_le_len (c : Cfg) (hf : FmtOK c) :
      ∀ (xs : List V) (lvl : Nat), wfList xs = true → needRest xs ≤ (renderRest c lvl xs).length + 1
    | [], _, _ => by simp [needRest, renderRest]
    | x :: xs, lvl, hv => by
      have hwf : x.wf = true ∧ wfList xs = true := by simpa [wfList] using hv
      have h1 := need_le_len c hf x lvl hwf.1
      have h2 := needRest_le_len c hf xs lvl hwf.2
      simp only [needRest, renderRest, List.length_cons, List.length_append]
      omega
  theorem needFields_le_len (c : Cfg) (hf : FmtOK c) :
      ∀ (fs : List (Str × V)) (lvl : Nat), wfFields fs = true → needFields fs ≤ (renderFields c lvl fs).length + 1
    | [], _, _ => by simp [needFields, renderFields]
    | (k, x) :: fs, lvl, hv => by
      have hwf : (k.wf = true ∧ x.wf = true) ∧ wfFields fs = true := by simpa [wfFields] using hv
      have h1 := need_le_len c hf x lvl hwf.1.2
      have h2 := needFields_le_len c hf fs lvl hwf.2
      have h3 := colon_len c
      have h4 := strBytes_len c k
      simp only [needFields, renderFields, List.length_cons, List.length_append]
      omega
end

theorem skipWs_all_ws (w : Bytes) (h : w.all isWs = true) : skipWs w = [] := by
  have := skipWs_append_ws w [] h
  simpa [skipWs] using this

theorem tailOK_ws (w : Bytes) (h : w.all isWs = true) : TailOK w := by
  intro b r hbr
  subst hbr
  simp only [List.all_cons, Bool.and_eq_true] at h
  cases hn : isNumChar b with
  | false => rfl
  | true => have := numChar_not_ws b hn; rw [h.1] at this; cases this

/-- The reference reader applied to a printed value followed by whitespace returns the value
(numbers re-spelled by the printer's `fmt`, spelling bits forgotten). -/
theorem read_render (c : Cfg) (hu : c.unit.all isWs = true) (hf : FmtOK c) (v : V) (hv : v.wf = true)
    (lvl : Nat) (w : Bytes) (hw : w.all isWs = true) :
    read (render c lvl v ++ w) = .ok (norm (mapNum c.fmt v)) := by
  unfold read readWith
  rw [skipWs_render c hf lvl v hv]
  have hfuel : need v ≤ (render c lvl v ++ w).length + 1 := by
    have := need_le_len c hf v lvl hv
    simp only [List.length_append]; omega
  rw [pValue_render c hu hf v lvl _ w hv hfuel (tailOK_ws w hw)]
  simp [skipWs_all_ws w hw]



/-! ## `-a`: ASCII output -/


/-- all bytes are ASCII -/
def asciiB (s : Bytes) : Bool := s.all (fun b => decide (b.toNat < 0x80))

theorem asciiB_append (s t : Bytes) : asciiB (s ++ t) = (asciiB s && asciiB t) := by simp [asciiB, List.all_append]
theorem asciiB_cons (b : UInt8) (s : Bytes) : asciiB (b :: s) = (decide (b.toNat < 0x80) && asciiB s) := by simp [asciiB]

theorem hexDig_ascii (k : Nat) (h : k < 16) : (hexDig k).toNat < 0x80 := by
  unfold hexDig
  split
  · rw [toNat_ofNat_lt _ (by omega)]; omega
  · rw [toNat_ofNat_lt _ (by omega)]; omega

theorem u4_ascii (n : Nat) : asciiB (u4 n) = true := by
  have a := hexDig_ascii (n / 4096 % 16) (by omega)
  have b := hexDig_ascii (n / 256 % 16) (by omega)
  have c := hexDig_ascii (n / 16 % 16) (by omega)
  have d := hexDig_ascii (n % 16) (by omega)
  simp only [u4, asciiB, List.all_cons, List.all_nil, Bool.and_true, Bool.and_eq_true, decide_eq_true_eq]
  exact ⟨by decide, by decide, a, b, c, d⟩

theorem escChar_ascii (c : Char) : asciiB (escChar true c) = true := by
  unfold escChar
  dsimp only
  split; · decide
  split; · decide
  split; · decide
  split; · decide
  split; · decide
  split; · decide
  split; · decide
  split; · exact u4_ascii _
  split
  · split
    · exact u4_ascii _
    · rw [asciiB_append, u4_ascii, u4_ascii]; rfl
  · next h =>
    have hlt : c.toNat < 0x80 := by simp at h; omega
    simp only [utf8Enc, hlt, ↓reduceIte, asciiB, List.all_cons, List.all_nil, Bool.and_true, decide_eq_true_eq]
    rw [toNat_ofNat_lt _ (by omega)]; exact hlt

theorem escBody_ascii (cs : List Char) : asciiB (escBody true cs) = true := by
  induction cs with
  | nil => rfl
  | cons c cs ih => simp [escBody, asciiB_append, escChar_ascii, ih]

theorem strBytes_ascii (c : Cfg) (ha : c.ascii = true) (k : Str) : asciiB (strBytes c k) = true := by
  simp [strBytes, ha, asciiB_cons, asciiB_append, escBody_ascii]
  decide

theorem indentOf_ascii (u : Bytes) (hu : asciiB u = true) (n : Nat) : asciiB (indentOf u n) = true := by
  induction n with
  | zero => rfl
  | succ n ih => simp [indentOf, asciiB_append, hu, ih]

theorem gap_ascii (c : Cfg) (hu : asciiB c.unit = true) (l : Nat) : asciiB (gap c l) = true := by
  unfold gap; split
  · rfl
  · rw [asciiB_cons, indentOf_ascii _ hu]; decide

theorem colon_ascii (c : Cfg) : asciiB (colon c) = true := by unfold colon; split <;> decide

mutual
  theorem render_ascii (c : Cfg) (ha : c.ascii = true) (hu : asciiB c.unit = true) (hf : ∀ l, asciiB (c.fmt l) = true) :
      ∀ (v : V) (lvl : Nat), asciiB (render c lvl v) = true
    | .null, _ => by simp [render]; decide
    | .bool b, _ => by cases b <;> simp [render] <;> decide
    | .num l, _ => by simpa [render] using hf l
    | .str s, _ => by simpa [render] using strBytes_ascii c ha s
    | .arr [], _ => by simp [render]; decide
    | .obj [], _ => by simp [render]; decide
    | .arr (x :: xs), lvl => by
      simp only [render, asciiB_cons, asciiB_append, gap_ascii c hu, render_ascii c ha hu hf x (lvl + 1),
        renderRest_ascii c ha hu hf xs (lvl + 1)]
      decide
    | .obj ((k, x) :: fs), lvl => by
      simp only [render, asciiB_cons, asciiB_append, gap_ascii c hu, render_ascii c ha hu hf x (lvl + 1),
        renderFields_ascii c ha hu hf fs (lvl + 1), strBytes_ascii c ha k, colon_ascii c]
      decide
  theorem renderRest_ascii (c : Cfg) (ha : c.ascii = true) (hu : asciiB c.unit = true) (hf : ∀ l, asciiB (c.fmt l) = true) :
      ∀ (xs : List V) (lvl : Nat), asciiB (renderRest c lvl xs) = true
    | [], _ => rfl
    | x :: xs, lvl => by
      simp only [renderRest, asciiB_cons, asciiB_append, gap_ascii c hu, render_ascii c ha hu hf x lvl,
        renderRest_ascii c ha hu hf xs lvl]
      decide
  theorem renderFields_ascii (c : Cfg) (ha : c.ascii = true) (hu : asciiB c.unit = true) (hf : ∀ l, asciiB (c.fmt l) = true) :
      ∀ (fs : List (Str × V)) (lvl : Nat), asciiB (renderFields c lvl fs) = true
    | [], _ => rfl
    | (k, x) :: fs, lvl => by
      simp only [renderFields, asciiB_cons, asciiB_append, gap_ascii c hu, render_ascii c ha hu hf x lvl,
        renderFields_ascii c ha hu hf fs lvl, strBytes_ascii c ha k, colon_ascii c]
      decide
end

theorem ws_ascii (s : Bytes) (h : s.all isWs = true) : asciiB s = true := by
  induction s with
  | nil => rfl
  | cons b s ih =>
    simp only [List.all_cons, Bool.and_eq_true] at h
    rw [asciiB_cons, ih h.2]
    have : ∀ b : UInt8, isWs b = true → decide (b.toNat < 0x80) = true := by
      apply u8_forall; decide +kernel
    rw [this b h.1]; rfl


/-! ## duplicate-key collapse -/


/-! ### duplicate-key collapse: specification functions -/

abbrev Key := List Char

def keysOf (fs : List (Str × V)) : List Key := fs.map (·.1.cs)

/-- distinct keys in order of first occurrence -/
def firstOcc : List Key → List Key
  | [] => []
  | k :: ks => k :: (firstOcc ks).filter (fun k' => decide (k' ≠ k))

/-- the last field carrying key `k` -/
def lastField (k : Key) : List (Str × V) → Option (Str × V)
  | [] => none
  | f :: fs => match lastField k fs with
    | some g => some g
    | none => if f.1.cs = k then some f else none

/-- the first field carrying key `k` -/
def findField (k : Key) : List (Str × V) → Option (Str × V)
  | [] => none
  | f :: fs => if f.1.cs = k then some f else findField k fs

theorem hasKey_iff (k : Key) (out : List (Str × V)) : hasKey k out = true ↔ k ∈ keysOf out := by
  induction out with
  | nil => simp [hasKey, keysOf]
  | cons f out ih =>
    obtain ⟨k', x'⟩ := f
    simp only [hasKey, Bool.or_eq_true, decide_eq_true_eq, ih, keysOf, List.map_cons, List.mem_cons]
    constructor
    · rintro (h | h)
      · exact Or.inl h.symm
      · exact Or.inr h
    · rintro (h | h)
      · exact Or.inl h.symm
      · exact Or.inr h

theorem keysOf_replaceSlot (k : Str) (x : V) (out : List (Str × V)) : keysOf (replaceSlot k x out) = keysOf out := by
  induction out with
  | nil => rfl
  | cons f out ih =>
    obtain ⟨k', x'⟩ := f
    simp only [replaceSlot]
    split
    · next h => simp [keysOf, h]
    · simp only [keysOf, List.map_cons] at ih ⊢; rw [ih]

theorem keysOf_append (a b : List (Str × V)) : keysOf (a ++ b) = keysOf a ++ keysOf b := by simp [keysOf]

theorem findField_replaceSlot (k : Str) (x : V) (out : List (Str × V)) (q : Key) :
    findField q (replaceSlot k x out) =
      if q = k.cs then (if hasKey k.cs out then some (k, x) else none) else findField q out := by
  induction out with
  | nil => simp [replaceSlot, findField, hasKey]
  | cons f out ih =>
    obtain ⟨k', x'⟩ := f
    simp only [replaceSlot, hasKey]
    by_cases h : k'.cs = k.cs
    · simp only [h, ↓reduceIte, findField, decide_true, Bool.true_or]
      by_cases hq : q = k.cs
      · simp [hq]
      · have : ¬ k.cs = q := fun e => hq e.symm
        simp [hq, this]
    · simp only [h, ↓reduceIte, findField, decide_false, Bool.false_or, ih]
      by_cases hq : q = k.cs
      · have : ¬ k'.cs = q := by rw [hq]; exact h
        simp [hq, h]
      · simp [hq]

theorem findField_append_single (out : List (Str × V)) (f : Str × V) (q : Key) :
    findField q (out ++ [f]) = match findField q out with
      | some g => some g
      | none => if f.1.cs = q then some f else none := by
  induction out with
  | nil => simp [findField]
  | cons g out ih =>
    simp only [List.cons_append, findField]
    split
    · rfl
    · exact ih

theorem findField_none_iff (q : Key) (out : List (Str × V)) : findField q out = none ↔ q ∉ keysOf out := by
  induction out with
  | nil => simp [findField, keysOf]
  | cons g out ih =>
    simp only [findField, keysOf, List.map_cons, List.mem_cons, not_or]
    split
    · next h => simp [h]
    · next h =>
      rw [ih]
      constructor
      · intro h2; exact ⟨fun e => h e.symm, h2⟩
      · intro h2; exact h2.2

/-- lookup in the collapsed list: the last occurrence in the input wins, else what was there -/
theorem findField_collapseInto (fs out : List (Str × V)) (q : Key) :
    findField q (collapseInto out fs) = match lastField q fs with
      | some g => some g
      | none => findField q out := by
  induction fs generalizing out with
  | nil => simp [collapseInto, lastField]
  | cons f fs ih =>
    obtain ⟨k, x⟩ := f
    simp only [collapseInto, lastField]
    split
    · next hk =>
      rw [ih]
      cases hl : lastField q fs with
      | some g => rfl
      | none =>
        simp only [findField_replaceSlot, hk, ↓reduceIte]
        by_cases hq : q = k.cs
        · simp [hq]
        · have : ¬ k.cs = q := fun e => hq e.symm
          simp [hq, this]
    · next hk =>
      rw [ih]
      cases hl : lastField q fs with
      | some g => rfl
      | none =>
        simp only [findField_append_single]
        by_cases hq : k.cs = q
        · have hnone : findField q out = none := by
            rw [findField_none_iff, ← hq, ← hasKey_iff]; simpa using hk
          simp [hq, hnone]
        · simp only [hq, ↓reduceIte]
          cases findField q out <;> rfl



theorem nodup_collapseInto (fs out : List (Str × V)) (h : (keysOf out).Nodup) :
    (keysOf (collapseInto out fs)).Nodup := by
  induction fs generalizing out with
  | nil => simpa [collapseInto] using h
  | cons f fs ih =>
    obtain ⟨k, x⟩ := f
    simp only [collapseInto]
    split
    · exact ih _ (by rw [keysOf_replaceSlot]; exact h)
    · next hk =>
      apply ih
      rw [keysOf_append, List.nodup_append]
      refine ⟨h, by simp [keysOf], ?_⟩
      intro a ha b hb
      simp only [keysOf, List.map_cons, List.map_nil, List.mem_singleton] at hb
      subst hb
      intro e
      subst e
      exact hk ((hasKey_iff _ _).2 ha)

theorem keysOf_cons (k : Str) (x : V) (fs : List (Str × V)) : keysOf ((k, x) :: fs) = k.cs :: keysOf fs := rfl
theorem keysOf_single (k : Str) (x : V) : keysOf [(k, x)] = [k.cs] := rfl

theorem keys_collapseInto (fs out : List (Str × V)) :
    keysOf (collapseInto out fs)
      = keysOf out ++ (firstOcc (keysOf fs)).filter (fun q => decide (q ∉ keysOf out)) := by
  induction fs generalizing out with
  | nil => simp [collapseInto, keysOf, firstOcc]
  | cons f fs ih =>
    obtain ⟨k, x⟩ := f
    simp only [collapseInto]
    split
    · next hk =>
      have hmem : k.cs ∈ keysOf out := (hasKey_iff _ _).1 hk
      rw [ih, keysOf_replaceSlot, keysOf_cons, firstOcc]
      congr 1
      rw [List.filter_cons_of_neg (by simp [hmem]), List.filter_filter]
      apply List.filter_congr
      intro q _
      by_cases hq : q = k.cs
      · subst hq; simp [hmem]
      · simp [hq]
    · next hk =>
      have hmem : k.cs ∉ keysOf out := fun h => hk ((hasKey_iff _ _).2 h)
      rw [ih, keysOf_append, keysOf_single, keysOf_cons, firstOcc, List.append_assoc, List.singleton_append]
      rw [List.filter_cons_of_pos (by simp [hmem]), List.filter_filter]
      congr 2
      apply List.filter_congr
      intro q _
      by_cases hq : q = k.cs
      · subst hq; simp
      · simp [hq]



/-! ## `-S`, preparation of the routes -/


/-! ### membership through collapse / sort -/

theorem mem_replaceSlot (k : Str) (x : V) (out : List (Str × V)) (f : Str × V) (h : f ∈ replaceSlot k x out) :
    f = (k, x) ∨ f ∈ out := by
  induction out with
  | nil => simp [replaceSlot] at h
  | cons g out ih =>
    obtain ⟨k', x'⟩ := g
    simp only [replaceSlot] at h
    split at h
    · simp only [List.mem_cons] at h ⊢
      rcases h with h | h
      · exact Or.inl h
      · exact Or.inr (Or.inr h)
    · simp only [List.mem_cons] at h ⊢
      rcases h with h | h
      · exact Or.inr (Or.inl h)
      · rcases ih h with h | h
        · exact Or.inl h
        · exact Or.inr (Or.inr h)

theorem mem_collapseInto (fs out : List (Str × V)) (f : Str × V) (h : f ∈ collapseInto out fs) : f ∈ out ∨ f ∈ fs := by
  induction fs generalizing out with
  | nil => exact Or.inl (by simpa [collapseInto] using h)
  | cons g fs ih =>
    obtain ⟨k, x⟩ := g
    simp only [collapseInto] at h
    split at h
    · rcases ih _ h with h | h
      · rcases mem_replaceSlot _ _ _ _ h with h | h
        · exact Or.inr (by simp [h])
        · exact Or.inl h
      · exact Or.inr (List.mem_cons_of_mem _ h)
    · rcases ih _ h with h | h
      · simp only [List.mem_append, List.mem_singleton] at h
        rcases h with h | h
        · exact Or.inl h
        · exact Or.inr (by simp [h])
      · exact Or.inr (List.mem_cons_of_mem _ h)

theorem mem_insertField (f : Str × V) (gs : List (Str × V)) (g : Str × V) :
    g ∈ insertField f gs ↔ g = f ∨ g ∈ gs := by
  induction gs with
  | nil => simp [insertField]
  | cons h gs ih =>
    simp only [insertField]
    split
    · simp
    · simp only [List.mem_cons, ih]
      constructor
      · rintro (a | a | a)
        · exact Or.inr (Or.inl a)
        · exact Or.inl a
        · exact Or.inr (Or.inr a)
      · rintro (a | a | a)
        · exact Or.inr (Or.inl a)
        · exact Or.inl a
        · exact Or.inr (Or.inr a)

theorem mem_sortFields (fs : List (Str × V)) (g : Str × V) : g ∈ sortFields fs ↔ g ∈ fs := by
  induction fs with
  | nil => simp [sortFields]
  | cons f fs ih => simp [sortFields, mem_insertField, ih]

/-! ### the key order -/

theorem char_eq_of_toNat (a b : Char) (h : a.toNat = b.toNat) : a = b := by
  rw [← Char.ofNat_toNat a, ← Char.ofNat_toNat b, h]

/-- trichotomy of `keyLt` (lexicographic by scalar value) -/
theorem keyLt_total (a b : Key) (hne : a ≠ b) (h : keyLt a b = false) : keyLt b a = true := by
  induction a generalizing b with
  | nil =>
    cases b with
    | nil => exact absurd rfl hne
    | cons y ys => simp [keyLt] at h
  | cons x xs ih =>
    cases b with
    | nil => simp [keyLt]
    | cons y ys =>
      simp only [keyLt, Bool.or_eq_false_iff, decide_eq_false_iff_not, Bool.and_eq_false_iff] at h
      simp only [keyLt, Bool.or_eq_true, decide_eq_true_eq, Bool.and_eq_true]
      obtain ⟨h1, h2⟩ := h
      by_cases hxy : x.toNat = y.toNat
      · right
        refine ⟨hxy.symm, ih ys ?_ ?_⟩
        · intro e; exact hne (by rw [char_eq_of_toNat x y hxy, e])
        · rcases h2 with h2 | h2
          · exact absurd hxy h2
          · exact h2
      · left; omega

/-- head condition of a chain -/
def headLt (k : Key) : List (Str × V) → Prop
  | [] => True
  | g :: _ => keyLt k g.1.cs = true

/-- keys strictly increasing from one field to the next -/
def ChainLt : List (Str × V) → Prop
  | [] => True
  | f :: gs => headLt f.1.cs gs ∧ ChainLt gs

theorem chain_insertField (f : Str × V) (gs : List (Str × V)) (hc : ChainLt gs) (hn : f.1.cs ∉ keysOf gs) :
    ChainLt (insertField f gs) ∧ ∀ k, keyLt k f.1.cs = true → headLt k gs → headLt k (insertField f gs) := by
  induction gs with
  | nil => simp [insertField, ChainLt, headLt]
  | cons g gs ih =>
    simp only [insertField]
    have hn' : f.1.cs ≠ g.1.cs ∧ f.1.cs ∉ keysOf gs := by
      simpa [keysOf, List.mem_cons, not_or] using hn
    cases hlt : keyLt f.1.cs g.1.cs with
    | true =>
      simp only [↓reduceIte]
      exact ⟨⟨hlt, hc⟩, fun k hk _ => hk⟩
    | false =>
      simp only [Bool.false_eq_true, ↓reduceIte]
      have hgf : keyLt g.1.cs f.1.cs = true := keyLt_total _ _ hn'.1 hlt
      obtain ⟨ih1, ih2⟩ := ih hc.2 hn'.2
      exact ⟨⟨ih2 _ hgf hc.1, ih1⟩, fun k _ hkg => hkg⟩

theorem keysOf_mem (fs : List (Str × V)) (q : Key) : q ∈ keysOf fs ↔ ∃ f ∈ fs, f.1.cs = q := by
  simp [keysOf]

theorem chain_sortFields (fs : List (Str × V)) (hn : (keysOf fs).Nodup) : ChainLt (sortFields fs) := by
  induction fs with
  | nil => simp [sortFields, ChainLt]
  | cons f fs ih =>
    simp only [keysOf, List.map_cons, List.nodup_cons] at hn
    simp only [sortFields]
    refine (chain_insertField f _ (ih hn.2) ?_).1
    intro hmem
    rw [keysOf_mem] at hmem
    obtain ⟨g, hg, hgk⟩ := hmem
    rw [mem_sortFields] at hg
    exact hn.1 ((keysOf_mem fs _).2 ⟨g, hg, hgk⟩)



/-! ### deep predicates -/

mutual
  /-- every object of the value has strictly increasing keys -/
  def SortedV : V → Prop
    | .arr xs => SortedL xs
    | .obj fs => ChainLt fs ∧ SortedFs fs
    | _ => True
  def SortedL : List V → Prop
    | [] => True
    | x :: xs => SortedV x ∧ SortedL xs
  def SortedFs : List (Str × V) → Prop
    | [] => True
    | (_, x) :: fs => SortedV x ∧ SortedFs fs
end

mutual
  /-- no object of the value repeats a key -/
  def NodupV : V → Prop
    | .arr xs => NodupL xs
    | .obj fs => (keysOf fs).Nodup ∧ NodupFs fs
    | _ => True
  def NodupL : List V → Prop
    | [] => True
    | x :: xs => NodupV x ∧ NodupL xs
  def NodupFs : List (Str × V) → Prop
    | [] => True
    | (_, x) :: fs => NodupV x ∧ NodupFs fs
end

theorem sortedFs_iff (fs : List (Str × V)) : SortedFs fs ↔ ∀ f ∈ fs, SortedV f.2 := by
  induction fs with
  | nil => simp [SortedFs]
  | cons f fs ih => obtain ⟨k, x⟩ := f; simp [SortedFs, ih]

theorem nodupFs_iff (fs : List (Str × V)) : NodupFs fs ↔ ∀ f ∈ fs, NodupV f.2 := by
  induction fs with
  | nil => simp [NodupFs]
  | cons f fs ih => obtain ⟨k, x⟩ := f; simp [NodupFs, ih]

theorem wfFields_iff (fs : List (Str × V)) : wfFields fs = true ↔ ∀ f ∈ fs, f.1.wf = true ∧ f.2.wf = true := by
  induction fs with
  | nil => simp [wfFields]
  | cons f fs ih => obtain ⟨k, x⟩ := f; simp [wfFields, ih, and_assoc]

theorem keysOf_sortDeepFields (fs : List (Str × V)) : keysOf (sortDeepFields fs) = keysOf fs := by
  induction fs with
  | nil => rfl
  | cons f fs ih => obtain ⟨k, x⟩ := f; simp only [sortDeepFields, keysOf_cons, ih]

theorem keysOf_ownedFields (fs : List (Str × V)) : keysOf (ownedFields fs) = keysOf fs := by
  induction fs with
  | nil => rfl
  | cons f fs ih => obtain ⟨k, x⟩ := f; simp only [ownedFields, keysOf_cons, ih]

mutual
  theorem sorted_sortDeep : ∀ (w : V), NodupV w → SortedV (sortDeep w)
    | .null, _ => by simp [sortDeep, SortedV]
    | .bool _, _ => by simp [sortDeep, SortedV]
    | .num _, _ => by simp [sortDeep, SortedV]
    | .str _, _ => by simp [sortDeep, SortedV]
    | .arr xs, h => by
      simp only [sortDeep, SortedV]
      exact sorted_sortDeepList xs (by simpa [NodupV] using h)
    | .obj fs, h => by
      simp only [NodupV] at h
      simp only [sortDeep, SortedV]
      refine ⟨chain_sortFields _ (by rw [keysOf_sortDeepFields]; exact h.1), ?_⟩
      rw [sortedFs_iff]
      intro f hf
      rw [mem_sortFields] at hf
      exact (sortedFs_iff _).1 (sorted_sortDeepFields fs h.2) f hf
  theorem sorted_sortDeepList : ∀ (xs : List V), NodupL xs → SortedL (sortDeepList xs)
    | [], _ => by simp [sortDeepList, SortedL]
    | x :: xs, h => by
      simp only [NodupL] at h
      simp only [sortDeepList, SortedL]
      exact ⟨sorted_sortDeep x h.1, sorted_sortDeepList xs h.2⟩
  theorem sorted_sortDeepFields : ∀ (fs : List (Str × V)), NodupFs fs → SortedFs (sortDeepFields fs)
    | [], _ => by simp [sortDeepFields, SortedFs]
    | (k, x) :: fs, h => by
      simp only [NodupFs] at h
      simp only [sortDeepFields, SortedFs]
      exact ⟨sorted_sortDeep x h.1, sorted_sortDeepFields fs h.2⟩
end

mutual
  theorem nodup_collapseDeep : ∀ (v : V), NodupV (collapseDeep v)
    | .null => by simp [collapseDeep, NodupV]
    | .bool _ => by simp [collapseDeep, NodupV]
    | .num _ => by simp [collapseDeep, NodupV]
    | .str _ => by simp [collapseDeep, NodupV]
    | .arr xs => by simp only [collapseDeep, NodupV]; exact nodup_collapseDeepList xs
    | .obj fs => by
      simp only [collapseDeep, NodupV]
      refine ⟨nodup_collapseInto _ [] (by simp [keysOf]), ?_⟩
      rw [nodupFs_iff]
      intro f hf
      rcases mem_collapseInto _ _ f hf with h | h
      · simp at h
      · exact (nodupFs_iff _).1 (nodup_collapseDeepFields fs) f h
  theorem nodup_collapseDeepList : ∀ (xs : List V), NodupL (collapseDeepList xs)
    | [] => by simp [collapseDeepList, NodupL]
    | x :: xs => by simp only [collapseDeepList, NodupL]; exact ⟨nodup_collapseDeep x, nodup_collapseDeepList xs⟩
  theorem nodup_collapseDeepFields : ∀ (fs : List (Str × V)), NodupFs (collapseDeepFields fs)
    | [] => by simp [collapseDeepFields, NodupFs]
    | (k, x) :: fs => by
      simp only [collapseDeepFields, NodupFs]; exact ⟨nodup_collapseDeep x, nodup_collapseDeepFields fs⟩
end

mutual
  theorem nodup_owned : ∀ (w : V), NodupV w → NodupV (owned w)
    | .null, _ => by simp [owned, NodupV]
    | .bool _, _ => by simp [owned, NodupV]
    | .num _, _ => by simp [owned, NodupV]
    | .str _, _ => by simp [owned, NodupV]
    | .arr xs, h => by simp only [owned, NodupV] at h ⊢; exact nodup_ownedList xs h
    | .obj fs, h => by
      simp only [NodupV] at h
      simp only [owned, NodupV]
      exact ⟨by rw [keysOf_ownedFields]; exact h.1, nodup_ownedFields fs h.2⟩
  theorem nodup_ownedList : ∀ (xs : List V), NodupL xs → NodupL (ownedList xs)
    | [], _ => by simp [ownedList, NodupL]
    | x :: xs, h => by
      simp only [NodupL] at h
      simp only [ownedList, NodupL]; exact ⟨nodup_owned x h.1, nodup_ownedList xs h.2⟩
  theorem nodup_ownedFields : ∀ (fs : List (Str × V)), NodupFs fs → NodupFs (ownedFields fs)
    | [], _ => by simp [ownedFields, NodupFs]
    | (k, x) :: fs, h => by
      simp only [NodupFs] at h
      simp only [ownedFields, NodupFs]; exact ⟨nodup_owned x h.1, nodup_ownedFields fs h.2⟩
end


/-! ### well-formedness is kept by the routes' preparation -/

mutual
  theorem wf_collapseDeep : ∀ (v : V), v.wf = true → (collapseDeep v).wf = true
    | .null, _ => by simp [collapseDeep, V.wf]
    | .bool _, _ => by simp [collapseDeep, V.wf]
    | .num _, h => by simpa [collapseDeep] using h
    | .str _, h => by simpa [collapseDeep] using h
    | .arr xs, h => by
      simp only [V.wf] at h
      simp only [collapseDeep, V.wf]; exact wf_collapseDeepList xs h
    | .obj fs, h => by
      simp only [V.wf] at h
      simp only [collapseDeep, V.wf]
      rw [wfFields_iff]
      intro f hf
      rcases mem_collapseInto _ _ f hf with h' | h'
      · simp at h'
      · exact (wfFields_iff _).1 (wf_collapseDeepFields fs h) f h'
  theorem wf_collapseDeepList : ∀ (xs : List V), wfList xs = true → wfList (collapseDeepList xs) = true
    | [], _ => by simp [collapseDeepList, wfList]
    | x :: xs, h => by
      simp only [wfList, Bool.and_eq_true] at h
      simp only [collapseDeepList, wfList, Bool.and_eq_true]
      exact ⟨wf_collapseDeep x h.1, wf_collapseDeepList xs h.2⟩
  theorem wf_collapseDeepFields : ∀ (fs : List (Str × V)), wfFields fs = true → wfFields (collapseDeepFields fs) = true
    | [], _ => by simp [collapseDeepFields, wfFields]
    | (k, x) :: fs, h => by
      simp only [wfFields, Bool.and_eq_true] at h
      simp only [collapseDeepFields, wfFields, Bool.and_eq_true]
      exact ⟨⟨h.1.1, wf_collapseDeep x h.1.2⟩, wf_collapseDeepFields fs h.2⟩
end

mutual
  theorem wf_owned : ∀ (w : V), w.wf = true → (owned w).wf = true
    | .null, _ => by simp [owned, V.wf]
    | .bool _, _ => by simp [owned, V.wf]
    | .num _, h => by simpa [owned] using h
    | .str _, _ => by simp [owned, V.wf, Str.wf]
    | .arr xs, h => by
      simp only [V.wf] at h
      simp only [owned, V.wf]; exact wf_ownedList xs h
    | .obj fs, h => by
      simp only [V.wf] at h
      simp only [owned, V.wf]; exact wf_ownedFields fs h
  theorem wf_ownedList : ∀ (xs : List V), wfList xs = true → wfList (ownedList xs) = true
    | [], _ => by simp [ownedList, wfList]
    | x :: xs, h => by
      simp only [wfList, Bool.and_eq_true] at h
      simp only [ownedList, wfList, Bool.and_eq_true]
      exact ⟨wf_owned x h.1, wf_ownedList xs h.2⟩
  theorem wf_ownedFields : ∀ (fs : List (Str × V)), wfFields fs = true → wfFields (ownedFields fs) = true
    | [], _ => by simp [ownedFields, wfFields]
    | (k, x) :: fs, h => by
      simp only [wfFields, Bool.and_eq_true] at h
      simp only [ownedFields, wfFields, Bool.and_eq_true]
      exact ⟨⟨by simp [Str.wf], wf_owned x h.1.2⟩, wf_ownedFields fs h.2⟩
end

mutual
  theorem wf_sortDeep : ∀ (w : V), w.wf = true → (sortDeep w).wf = true
    | .null, _ => by simp [sortDeep, V.wf]
    | .bool _, _ => by simp [sortDeep, V.wf]
    | .num _, h => by simpa [sortDeep] using h
    | .str _, h => by simpa [sortDeep] using h
    | .arr xs, h => by
      simp only [V.wf] at h
      simp only [sortDeep, V.wf]; exact wf_sortDeepList xs h
    | .obj fs, h => by
      simp only [V.wf] at h
      simp only [sortDeep, V.wf]
      rw [wfFields_iff]
      intro f hf
      rw [mem_sortFields] at hf
      exact (wfFields_iff _).1 (wf_sortDeepFields fs h) f hf
  theorem wf_sortDeepList : ∀ (xs : List V), wfList xs = true → wfList (sortDeepList xs) = true
    | [], _ => by simp [sortDeepList, wfList]
    | x :: xs, h => by
      simp only [wfList, Bool.and_eq_true] at h
      simp only [sortDeepList, wfList, Bool.and_eq_true]
      exact ⟨wf_sortDeep x h.1, wf_sortDeepList xs h.2⟩
  theorem wf_sortDeepFields : ∀ (fs : List (Str × V)), wfFields fs = true → wfFields (sortDeepFields fs) = true
    | [], _ => by simp [sortDeepFields, wfFields]
    | (k, x) :: fs, h => by
      simp only [wfFields, Bool.and_eq_true] at h
      simp only [sortDeepFields, wfFields, Bool.and_eq_true]
      exact ⟨⟨h.1.1, wf_sortDeep x h.1.2⟩, wf_sortDeepFields fs h.2⟩
end

theorem wf_prep (o : Opts) (r : Route) (v : V) (hv : v.wf = true) : (o.prep r v).wf = true := by
  cases r <;> simp only [Opts.prep]
  · split
    · exact hv
    · exact wf_collapseDeep v hv
  · split
    · exact hv
    · exact wf_collapseDeep v hv
  · exact wf_owned _ (wf_collapseDeep v hv)
  · split
    · exact wf_sortDeep _ (wf_owned _ (wf_collapseDeep v hv))
    · exact wf_owned _ (wf_collapseDeep v hv)




/-! ### equality of values up to a relation on number tokens -/

mutual
  /-- same structure, same strings and keys (scalars), number tokens related by `R` -/
  def SameUpTo (R : Bytes → Bytes → Prop) : V → V → Prop
    | .null, .null => True
    | .bool a, .bool b => a = b
    | .num a, .num b => R a b
    | .str a, .str b => a.cs = b.cs
    | .arr xs, .arr ys => SameUpToL R xs ys
    | .obj fs, .obj gs => SameUpToF R fs gs
    | _, _ => False
  def SameUpToL (R : Bytes → Bytes → Prop) : List V → List V → Prop
    | [], [] => True
    | x :: xs, y :: ys => SameUpTo R x y ∧ SameUpToL R xs ys
    | _, _ => False
  def SameUpToF (R : Bytes → Bytes → Prop) : List (Str × V) → List (Str × V) → Prop
    | [], [] => True
    | (k, x) :: fs, (l, y) :: gs => k.cs = l.cs ∧ SameUpTo R x y ∧ SameUpToF R fs gs
    | _, _ => False
end

mutual
  theorem sameUpTo_norm_mapNum (R : Bytes → Bytes → Prop) (f : Bytes → Bytes)
      (hR : ∀ l, validNum l = true → R (f l) l) : ∀ (w : V), w.wf = true → SameUpTo R (norm (mapNum f w)) w
    | .null, _ => by simp [mapNum, norm, SameUpTo]
    | .bool _, _ => by simp [mapNum, norm, SameUpTo]
    | .num l, h => by simpa [mapNum, norm, SameUpTo] using hR l (by simpa [V.wf] using h)
    | .str _, _ => by simp [mapNum, norm, SameUpTo]
    | .arr xs, h => by
      simp only [V.wf] at h
      simp only [mapNum, norm, SameUpTo]; exact sameUpTo_list R f hR xs h
    | .obj fs, h => by
      simp only [V.wf] at h
      simp only [mapNum, norm, SameUpTo]; exact sameUpTo_fields R f hR fs h
  theorem sameUpTo_list (R : Bytes → Bytes → Prop) (f : Bytes → Bytes)
      (hR : ∀ l, validNum l = true → R (f l) l) :
      ∀ (xs : List V), wfList xs = true → SameUpToL R (normList (mapNumList f xs)) xs
    | [], _ => by simp [mapNumList, normList, SameUpToL]
    | x :: xs, h => by
      simp only [wfList, Bool.and_eq_true] at h
      simp only [mapNumList, normList, SameUpToL]
      exact ⟨sameUpTo_norm_mapNum R f hR x h.1, sameUpTo_list R f hR xs h.2⟩
  theorem sameUpTo_fields (R : Bytes → Bytes → Prop) (f : Bytes → Bytes)
      (hR : ∀ l, validNum l = true → R (f l) l) :
      ∀ (fs : List (Str × V)), wfFields fs = true → SameUpToF R (normFields (mapNumFields f fs)) fs
    | [], _ => by simp [mapNumFields, normFields, SameUpToF]
    | (k, x) :: fs, h => by
      simp only [wfFields, Bool.and_eq_true] at h
      simp only [mapNumFields, normFields, SameUpToF]
      exact ⟨trivial, sameUpTo_norm_mapNum R f hR x h.1.2, sameUpTo_fields R f hR fs h.2⟩
end


theorem spaces_ws (n : Nat) : (spaces n).all isWs = true := by
  induction n with
  | zero => rfl
  | succ n ih => simpa [spaces, isWs] using ih


/-! ## materialisation does not change the printed bytes (C27) -/


theorem escChar_plain (c : Char) (h1 : mustEscape c = false) (h2 : (c.toNat == 0x7f) = false) :
    escChar false c = utf8Enc c := by
  simp only [mustEscape, Bool.or_eq_false_iff, decide_eq_false_iff_not] at h1
  have h3 : ¬ c.toNat = 0x7f := by simpa using h2
  obtain ⟨⟨a, b⟩, d⟩ := h1
  unfold escChar
  dsimp only
  rw [if_neg (by omega), if_neg (by omega), if_neg (by omega), if_neg (by omega), if_neg (by omega),
    if_neg (by omega), if_neg (by omega), if_neg (by omega), if_neg (by simp)]

theorem escBody_plain (cs : List Char) (h1 : cs.all (fun c => !mustEscape c) = true) (h2 : hasDel cs = false) :
    escBody false cs = rawBody cs := by
  induction cs with
  | nil => rfl
  | cons c cs ih =>
    simp only [List.all_cons, Bool.and_eq_true, Bool.not_eq_true'] at h1
    simp only [hasDel, List.any_cons, Bool.or_eq_false_iff] at h2
    simp only [escBody, rawBody, escChar_plain c h1.1 h2.1]
    rw [ih h1.2 (by simpa [hasDel] using h2.2)]

/-- a string prints the same whether or not its source spelling is remembered -/
theorem strBytes_owned (c : Cfg) (k : Str) (hk : k.wf = true) : strBytes c ⟨k.cs, true⟩ = strBytes c k := by
  unfold strBytes
  by_cases h : (!c.ascii && !k.esc && !hasDel k.cs) = true
  · simp only [Bool.and_eq_true, Bool.not_eq_true'] at h
    have hw : k.cs.all (fun c => !mustEscape c) = true := by
      simp only [Str.wf, h.1.2, Bool.false_or] at hk; exact hk
    simp [h.1.1, h.1.2, h.2, escBody_plain k.cs hw h.2]
  · have : (!c.ascii && !true && !hasDel k.cs) = false := by simp
    simp only [this, h]

mutual
  theorem render_owned (c : Cfg) : ∀ (w : V) (lvl : Nat), w.wf = true → render c lvl (owned w) = render c lvl w
    | .null, _, _ => rfl
    | .bool _, _, _ => rfl
    | .num _, _, _ => rfl
    | .str s, _, h => by simpa [owned, render] using strBytes_owned c s (by simpa [V.wf] using h)
    | .arr [], _, _ => rfl
    | .obj [], _, _ => rfl
    | .arr (x :: xs), lvl, h => by
      have hwf : x.wf = true ∧ wfList xs = true := by simpa [V.wf, wfList] using h
      simp only [owned, ownedList, render, render_owned c x (lvl + 1) hwf.1, renderRest_owned c xs (lvl + 1) hwf.2]
    | .obj ((k, x) :: fs), lvl, h => by
      have hwf : (k.wf = true ∧ x.wf = true) ∧ wfFields fs = true := by simpa [V.wf, wfFields] using h
      simp only [owned, ownedFields, render, render_owned c x (lvl + 1) hwf.1.2,
        renderFields_owned c fs (lvl + 1) hwf.2, strBytes_owned c k hwf.1.1]
  theorem renderRest_owned (c : Cfg) : ∀ (xs : List V) (lvl : Nat), wfList xs = true →
      renderRest c lvl (ownedList xs) = renderRest c lvl xs
    | [], _, _ => rfl
    | x :: xs, lvl, h => by
      have hwf : x.wf = true ∧ wfList xs = true := by simpa [wfList] using h
      simp only [ownedList, renderRest, render_owned c x lvl hwf.1, renderRest_owned c xs lvl hwf.2]
  theorem renderFields_owned (c : Cfg) : ∀ (fs : List (Str × V)) (lvl : Nat), wfFields fs = true →
      renderFields c lvl (ownedFields fs) = renderFields c lvl fs
    | [], _, _ => rfl
    | (k, x) :: fs, lvl, h => by
      have hwf : (k.wf = true ∧ x.wf = true) ∧ wfFields fs = true := by simpa [wfFields] using h
      simp only [ownedFields, renderFields, render_owned c x lvl hwf.1.2, renderFields_owned c fs lvl hwf.2,
        strBytes_owned c k hwf.1.1]
end



/-! ## the reader: well-formed results, locality, fuel monotonicity -/

theorem consC_ok (c : Char) (esc : Bool) (x : Except Err (List Char × Bool × Bytes)) (cs : List Char) (e : Bool) (r : Bytes)
    (h : consC c esc x = .ok (cs, e, r)) : ∃ cs' e', x = .ok (cs', e', r) ∧ cs = c :: cs' ∧ e = (esc || e') := by
  cases x with
  | error err => simp [consC] at h
  | ok v =>
    obtain ⟨cs', e', r'⟩ := v
    simp only [consC, Except.ok.injEq, Prod.mk.injEq] at h
    exact ⟨cs', e', by rw [h.2.2], h.1.symm, h.2.1.symm⟩

theorem toNat_ofNat_valid (n : Nat) (h : n < 0xD800 ∨ (0xE000 ≤ n ∧ n < 0x110000)) : (Char.ofNat n).toNat = n := by
  have hv : n.isValidChar := by simp only [Nat.isValidChar]; omega
  simp [Char.ofNat, hv, Char.ofNatAux, Char.toNat]

theorem not_mustEscape_ofNat (n : Nat) (hv : n < 0xD800 ∨ (0xE000 ≤ n ∧ n < 0x110000))
    (h : 0x20 ≤ n ∧ n ≠ 0x22 ∧ n ≠ 0x5c) : mustEscape (Char.ofNat n) = false := by
  simp only [mustEscape, toNat_ofNat_valid n hv, Bool.or_eq_false_iff, decide_eq_false_iff_not]
  omega

theorem pStr_raw_safe (s : Bytes) : ∀ cs e r, pStr s = .ok (cs, e, r) → e = false → cs.all (fun c => !mustEscape c) = true := by
  fun_induction pStr s <;> intro cs e r h he
  all_goals first
    | (simp at h; done)
    | (simp only [Except.ok.injEq, Prod.mk.injEq] at h; obtain ⟨h1, _, _⟩ := h; subst h1; rfl)
    | (obtain ⟨cs', e', _, _, h3⟩ := consC_ok _ true _ _ _ _ h; simp [he] at h3; done)
    | skip
  all_goals
    rename_i ih
    obtain ⟨cs', e', h1, h2, h3⟩ := consC_ok _ _ _ _ _ _ h
    subst h2
    have he' : e' = false := by simpa [he] using h3.symm
    simp only [List.all_cons, Bool.and_eq_true, Bool.not_eq_true']
    refine ⟨?_, ih _ _ _ h1 he'⟩
    clear h h1 ih
    try simp only [isContN, Bool.and_eq_true, decide_eq_true_eq, Bool.not_eq_true', Bool.and_eq_false_iff,
      decide_eq_false_iff_not] at *
    apply not_mustEscape_ofNat <;> omega


theorem str_wf_of_pStr (s : Bytes) (cs : List Char) (e : Bool) (r : Bytes) (h : pStr s = .ok (cs, e, r)) :
    Str.wf ⟨cs, true && e⟩ = true := by
  cases e with
  | true => simp [Str.wf]
  | false => simpa [Str.wf] using pStr_raw_safe s cs false r h rfl

theorem p_wf : ∀ f : Nat,
    (∀ s v r, pValue true f s = .ok (v, r) → v.wf = true) ∧
    (∀ s xs r, pRest true f s = .ok (xs, r) → wfList xs = true) ∧
    (∀ s kx r, pField true f s = .ok (kx, r) → kx.1.wf = true ∧ kx.2.wf = true) ∧
    (∀ s fs r, pFields true f s = .ok (fs, r) → wfFields fs = true) := by
  intro f
  induction f with
  | zero =>
    refine ⟨?_, ?_, ?_, ?_⟩ <;> intro s a r h
    · rw [pValue.eq_def] at h; simp at h
    · rw [pRest.eq_def] at h; simp at h
    · rw [pField.eq_def] at h; simp at h
    · rw [pFields.eq_def] at h; simp at h
  | succ f ih =>
    obtain ⟨ihV, ihR, ihF, ihFs⟩ := ih
    refine ⟨?_, ?_, ?_, ?_⟩
    · intro s v r h
      rw [pValue.eq_def] at h
      repeat' split at h
      all_goals try (simp at h; done)
      all_goals simp only [Except.ok.injEq, Prod.mk.injEq] at h
      all_goals obtain ⟨hv, _⟩ := h
      all_goals subst hv
      all_goals have hf := Nat.succ.inj ‹f + 1 = Nat.succ _›
      all_goals subst hf
      all_goals first
        | rfl
        | (simp only [V.wf, wfList, Bool.and_eq_true]
           exact ⟨ihV _ _ _ ‹pValue true _ _ = .ok _›, ihR _ _ _ ‹pRest true _ _ = .ok _›⟩)
        | (rename_i kx _ _ _ _ _ _
           have h1 := ihF _ _ _ ‹pField true _ _ = .ok _›
           have h2 := ihFs _ _ _ ‹pFields true _ _ = .ok _›
           revert h1
           cases ‹Str × V› with
           | mk k x => intro h1; simp only [V.wf, wfFields, Bool.and_eq_true]; exact ⟨h1, h2⟩)
        | (simp only [V.wf]; exact str_wf_of_pStr _ _ _ _ ‹pStr _ = .ok _›)
        | (simp only [V.wf]; assumption)
    · intro s xs r h
      rw [pRest.eq_def] at h
      repeat' split at h
      all_goals try (simp at h; done)
      all_goals simp only [Except.ok.injEq, Prod.mk.injEq] at h
      all_goals obtain ⟨hv, _⟩ := h
      all_goals subst hv
      all_goals have hf := Nat.succ.inj ‹f + 1 = Nat.succ _›
      all_goals subst hf
      all_goals first
        | rfl
        | (simp only [wfList, Bool.and_eq_true]
           exact ⟨ihV _ _ _ ‹pValue true _ _ = .ok _›, ihR _ _ _ ‹pRest true _ _ = .ok _›⟩)
    · intro s kx r h
      rw [pField.eq_def] at h
      repeat' split at h
      all_goals try (simp at h; done)
      all_goals simp only [Except.ok.injEq, Prod.mk.injEq] at h
      all_goals obtain ⟨hv, _⟩ := h
      all_goals subst hv
      all_goals have hf := Nat.succ.inj ‹f + 1 = Nat.succ _›
      all_goals subst hf
      all_goals exact ⟨str_wf_of_pStr _ _ _ _ ‹pStr _ = .ok _›, ihV _ _ _ ‹pValue true _ _ = .ok _›⟩
    · intro s fs r h
      rw [pFields.eq_def] at h
      repeat' split at h
      all_goals try (simp at h; done)
      all_goals simp only [Except.ok.injEq, Prod.mk.injEq] at h
      all_goals obtain ⟨hv, _⟩ := h
      all_goals subst hv
      all_goals have hf := Nat.succ.inj ‹f + 1 = Nat.succ _›
      all_goals subst hf
      all_goals first
        | rfl
        | (have h1 := ihF _ _ _ ‹pField true _ _ = .ok _›
           have h2 := ihFs _ _ _ ‹pFields true _ _ = .ok _›
           revert h1
           cases ‹Str × V› with
           | mk k x => intro h1; simp only [wfFields, Bool.and_eq_true]; exact ⟨h1, h2⟩)

/-- the reader of input documents only produces well-formed values -/
theorem readSrc_wf (t : Bytes) (v : V) (h : readSrc t = .ok v) : v.wf = true := by
  unfold readSrc readWith at h
  split at h
  · simp at h
  · next v' r hp =>
    split at h
    · simp only [Except.ok.injEq] at h; subst h; exact (p_wf _).1 _ _ _ hp
    · simp at h


/-! ### locality of the reader: appending text after a successfully read prefix -/

theorem skipWs_append_cons (s : Bytes) (b : UInt8) (s' t : Bytes) (h : skipWs s = b :: s') :
    skipWs (s ++ t) = b :: (s' ++ t) := by
  induction s with
  | nil => simp [skipWs] at h
  | cons a s ih =>
    simp only [skipWs] at h
    simp only [List.cons_append, skipWs]
    split
    · next hw => rw [if_pos hw] at h; exact ih h
    · next hw => rw [if_neg hw] at h; simp only [List.cons.injEq] at h; rw [h.1, h.2]

theorem takeNum_append_tail (s t : Bytes) (ht : TailOK t) :
    takeNum (s ++ t) = takeNum s ∧ dropNum (s ++ t) = dropNum s ++ t := by
  induction s with
  | nil =>
    cases t with
    | nil => simp [takeNum, dropNum]
    | cons b t' => simp [takeNum, dropNum, ht b t' rfl]
  | cons a s ih =>
    simp only [List.cons_append, takeNum, dropNum]
    split
    · exact ⟨by rw [ih.1], ih.2⟩
    · exact ⟨rfl, rfl⟩

theorem consC_append (c : Char) (esc : Bool) (x y : Except Err (List Char × Bool × Bytes)) (t : Bytes)
    (hxy : ∀ cs e r, x = .ok (cs, e, r) → y = .ok (cs, e, r ++ t))
    (cs : List Char) (e : Bool) (r : Bytes) (h : consC c esc x = .ok (cs, e, r)) :
    consC c esc y = .ok (cs, e, r ++ t) := by
  obtain ⟨cs', e', h1, h2, h3⟩ := consC_ok c esc x cs e r h
  rw [hxy cs' e' r h1, h2, h3]; rfl

theorem pStr_append (s : Bytes) : ∀ cs e r t, pStr s = .ok (cs, e, r) → pStr (s ++ t) = .ok (cs, e, r ++ t) := by
  fun_induction pStr s <;> intro cs e r t h
  all_goals try (simp at h; done)
  all_goals rw [pStr.eq_def]
  all_goals simp +zetaDelta only [List.cons_append, *, ↓reduceIte, and_self, Bool.true_and, Bool.and_self, if_true]
  all_goals first
    | (simp only [Except.ok.injEq, Prod.mk.injEq] at h ⊢
       obtain ⟨h1, h2, h3⟩ := h; subst h1 h2 h3; exact ⟨rfl, rfl, rfl⟩)
    | (rename_i ih; exact consC_append _ _ _ _ t (fun cs e r hh => ih cs e r t hh) cs e r h)
    | skip


theorem takeNum_cons_append (b : UInt8) (s t : Bytes) (ht : TailOK t) :
    takeNum (b :: (s ++ t)) = takeNum (b :: s) := (takeNum_append_tail (b :: s) t ht).1
theorem dropNum_cons_append (b : UInt8) (s t : Bytes) (ht : TailOK t) :
    dropNum (b :: (s ++ t)) = dropNum (b :: s) ++ t := (takeNum_append_tail (b :: s) t ht).2

theorem skipWs_append_ne (s t : Bytes) (h : skipWs s ≠ []) : skipWs (s ++ t) = skipWs s ++ t := by
  cases hs : skipWs s with
  | nil => exact absurd hs h
  | cons b s' => rw [skipWs_append_cons s b s' t hs]; rfl

theorem skipWs_append_pValue (keep : Bool) (f : Nat) (s : Bytes) (v : V) (r t : Bytes)
    (h : pValue keep f (skipWs s) = .ok (v, r)) : skipWs (s ++ t) = skipWs s ++ t := by
  apply skipWs_append_ne
  intro e
  rw [e, pValue.eq_def] at h
  cases f <;> simp at h

theorem skipWs_append_pField (keep : Bool) (f : Nat) (s : Bytes) (kx : Str × V) (r t : Bytes)
    (h : pField keep f (skipWs s) = .ok (kx, r)) : skipWs (s ++ t) = skipWs s ++ t := by
  apply skipWs_append_ne
  intro e
  rw [e, pField.eq_def] at h
  cases f <;> simp at h

theorem p_local (keep : Bool) : ∀ f : Nat,
    (∀ s v r, pValue keep f s = .ok (v, r) → ∀ f' t, f ≤ f' → TailOK t → pValue keep f' (s ++ t) = .ok (v, r ++ t)) ∧
    (∀ s xs r, pRest keep f s = .ok (xs, r) → ∀ f' t, f ≤ f' → TailOK t → pRest keep f' (s ++ t) = .ok (xs, r ++ t)) ∧
    (∀ s kx r, pField keep f s = .ok (kx, r) → ∀ f' t, f ≤ f' → TailOK t → pField keep f' (s ++ t) = .ok (kx, r ++ t)) ∧
    (∀ s fs r, pFields keep f s = .ok (fs, r) → ∀ f' t, f ≤ f' → TailOK t → pFields keep f' (s ++ t) = .ok (fs, r ++ t)) := by
  intro f
  induction f with
  | zero =>
    refine ⟨?_, ?_, ?_, ?_⟩ <;> intro s a r h
    · rw [pValue.eq_def] at h; simp at h
    · rw [pRest.eq_def] at h; simp at h
    · rw [pField.eq_def] at h; simp at h
    · rw [pFields.eq_def] at h; simp at h
  | succ f ih =>
    obtain ⟨ihV, ihR, ihF, ihFs⟩ := ih
    refine ⟨?_, ?_, ?_, ?_⟩
    · intro s v r h f' t hle ht
      obtain ⟨g, rfl⟩ : ∃ g, f' = g + 1 := ⟨f' - 1, by omega⟩
      have hg : f ≤ g := by omega
      rw [pValue.eq_def] at h
      repeat' split at h
      all_goals try (simp at h; done)
      all_goals simp only [Except.ok.injEq, Prod.mk.injEq] at h
      all_goals obtain ⟨hv, hr⟩ := h
      all_goals subst hv hr
      all_goals have hf := Nat.succ.inj ‹f + 1 = Nat.succ _›
      all_goals subst hf
      all_goals rw [pValue.eq_def]
      all_goals try have e1 := skipWs_append_cons _ _ _ t ‹skipWs _ = _ :: _›
      all_goals try have e2 := ihV _ _ _ ‹pValue keep _ _ = .ok _› g t hg ht
      all_goals try have e3 := ihR _ _ _ ‹pRest keep _ _ = .ok _› g t hg ht
      all_goals try have e4 := ihF _ _ _ ‹pField keep _ _ = .ok _› g t hg ht
      all_goals try have e5 := ihFs _ _ _ ‹pFields keep _ _ = .ok _› g t hg ht
      all_goals try have e6 := pStr_append _ _ _ _ t ‹pStr _ = .ok _›
      all_goals try have e8 := skipWs_append_pValue _ _ _ _ _ t ‹pValue keep _ (skipWs _) = .ok _›
      all_goals try have e9 := skipWs_append_pField _ _ _ _ _ t ‹pField keep _ (skipWs _) = .ok _›
      all_goals simp only [List.cons_append] at *
      all_goals simp [*, takeNum_cons_append _ _ _ ht, dropNum_cons_append _ _ _ ht]
    · intro s xs r h f' t hle ht
      obtain ⟨g, rfl⟩ : ∃ g, f' = g + 1 := ⟨f' - 1, by omega⟩
      have hg : f ≤ g := by omega
      rw [pRest.eq_def] at h
      repeat' split at h
      all_goals try (simp at h; done)
      all_goals simp only [Except.ok.injEq, Prod.mk.injEq] at h
      all_goals obtain ⟨hv, hr⟩ := h
      all_goals subst hv hr
      all_goals have hf := Nat.succ.inj ‹f + 1 = Nat.succ _›
      all_goals subst hf
      all_goals rw [pRest.eq_def]
      all_goals try have e1 := skipWs_append_cons _ _ _ t ‹skipWs _ = _ :: _›
      all_goals try have e2 := ihV _ _ _ ‹pValue keep _ _ = .ok _› g t hg ht
      all_goals try have e3 := ihR _ _ _ ‹pRest keep _ _ = .ok _› g t hg ht
      all_goals try have e4 := ihF _ _ _ ‹pField keep _ _ = .ok _› g t hg ht
      all_goals try have e5 := ihFs _ _ _ ‹pFields keep _ _ = .ok _› g t hg ht
      all_goals try have e6 := pStr_append _ _ _ _ t ‹pStr _ = .ok _›
      all_goals try have e8 := skipWs_append_pValue _ _ _ _ _ t ‹pValue keep _ (skipWs _) = .ok _›
      all_goals try have e9 := skipWs_append_pField _ _ _ _ _ t ‹pField keep _ (skipWs _) = .ok _›
      all_goals simp only [List.cons_append] at *
      all_goals simp [*, takeNum_cons_append _ _ _ ht, dropNum_cons_append _ _ _ ht]
    · intro s kx r h f' t hle ht
      obtain ⟨g, rfl⟩ : ∃ g, f' = g + 1 := ⟨f' - 1, by omega⟩
      have hg : f ≤ g := by omega
      rw [pField.eq_def] at h
      repeat' split at h
      all_goals try (simp at h; done)
      all_goals simp only [Except.ok.injEq, Prod.mk.injEq] at h
      all_goals obtain ⟨hv, hr⟩ := h
      all_goals subst hv hr
      all_goals have hf := Nat.succ.inj ‹f + 1 = Nat.succ _›
      all_goals subst hf
      all_goals rw [pField.eq_def]
      all_goals try have e1 := skipWs_append_cons _ _ _ t ‹skipWs _ = _ :: _›
      all_goals try have e2 := ihV _ _ _ ‹pValue keep _ _ = .ok _› g t hg ht
      all_goals try have e3 := ihR _ _ _ ‹pRest keep _ _ = .ok _› g t hg ht
      all_goals try have e4 := ihF _ _ _ ‹pField keep _ _ = .ok _› g t hg ht
      all_goals try have e5 := ihFs _ _ _ ‹pFields keep _ _ = .ok _› g t hg ht
      all_goals try have e6 := pStr_append _ _ _ _ t ‹pStr _ = .ok _›
      all_goals try have e8 := skipWs_append_pValue _ _ _ _ _ t ‹pValue keep _ (skipWs _) = .ok _›
      all_goals try have e9 := skipWs_append_pField _ _ _ _ _ t ‹pField keep _ (skipWs _) = .ok _›
      all_goals simp only [List.cons_append] at *
      all_goals simp [*, takeNum_cons_append _ _ _ ht, dropNum_cons_append _ _ _ ht]
    · intro s fs r h f' t hle ht
      obtain ⟨g, rfl⟩ : ∃ g, f' = g + 1 := ⟨f' - 1, by omega⟩
      have hg : f ≤ g := by omega
      rw [pFields.eq_def] at h
      repeat' split at h
      all_goals try (simp at h; done)
      all_goals simp only [Except.ok.injEq, Prod.mk.injEq] at h
      all_goals obtain ⟨hv, hr⟩ := h
      all_goals subst hv hr
      all_goals have hf := Nat.succ.inj ‹f + 1 = Nat.succ _›
      all_goals subst hf
      all_goals rw [pFields.eq_def]
      all_goals try have e1 := skipWs_append_cons _ _ _ t ‹skipWs _ = _ :: _›
      all_goals try have e2 := ihV _ _ _ ‹pValue keep _ _ = .ok _› g t hg ht
      all_goals try have e3 := ihR _ _ _ ‹pRest keep _ _ = .ok _› g t hg ht
      all_goals try have e4 := ihF _ _ _ ‹pField keep _ _ = .ok _› g t hg ht
      all_goals try have e5 := ihFs _ _ _ ‹pFields keep _ _ = .ok _› g t hg ht
      all_goals try have e6 := pStr_append _ _ _ _ t ‹pStr _ = .ok _›
      all_goals try have e8 := skipWs_append_pValue _ _ _ _ _ t ‹pValue keep _ (skipWs _) = .ok _›
      all_goals try have e9 := skipWs_append_pField _ _ _ _ _ t ‹pField keep _ (skipWs _) = .ok _›
      all_goals simp only [List.cons_append] at *
      all_goals simp [*, takeNum_cons_append _ _ _ ht, dropNum_cons_append _ _ _ ht]


theorem skipWs_append_of_nil (r w : Bytes) (h : skipWs r = []) : skipWs (r ++ w) = skipWs w := by
  induction r with
  | nil => rfl
  | cons a r ih =>
    simp only [skipWs] at h
    simp only [List.cons_append, skipWs]
    split
    · next hw => rw [if_pos hw] at h; exact ih h
    · next hw => rw [if_neg hw] at h; simp at h

/-- appending whitespace to a text that reads does not change what it reads as -/
theorem readWith_append_ws (keep : Bool) (s w : Bytes) (hw : w.all isWs = true) (v : V)
    (h : readWith keep s = .ok v) : readWith keep (s ++ w) = .ok v := by
  unfold readWith at h ⊢
  split at h
  · simp at h
  · next v' r hp =>
    split at h
    · next hr =>
      simp only [Except.ok.injEq] at h; subst h
      have e1 := skipWs_append_pValue keep _ s v' r w hp
      have e2 := (p_local keep _).1 _ _ _ hp ((s ++ w).length + 1) w
        (by simp only [List.length_append]; omega) (tailOK_ws w hw)
      rw [e1, e2]
      have hr' : skipWs r = [] := by simpa using hr
      simp [skipWs_append_of_nil r w hr', skipWs_all_ws w hw]
    · simp at h


end SV.JqOut
