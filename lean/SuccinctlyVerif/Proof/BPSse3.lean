/-
Proof/BPSse3 — SSE4.1 builders = scalar builders on the index of any structure (C04).
-/
import SuccinctlyVerif.Proof.BPSse2
import SuccinctlyVerif.Proof.BPIndex2
namespace SV.BPX
open SV SV.BP SV.BPM SV.BPI SV.BPW

theorem foldI32_append (a b : List (Int × Int)) (bm re : Int) :
    foldI32 (a ++ b) bm re = foldI32 b (foldI32 a bm re).1 (foldI32 a bm re).2 := by
  induction a generalizing bm re with
  | nil => rfl
  | cons x xs ih => obtain ⟨m, e⟩ := x; simp only [List.cons_append, foldI32, ih]

theorem foldI32_snd_bound (c : List (Int × Int)) (bm re : Int) (hc : ∀ x ∈ c, Bd x.1 ∧ Bd x.2)
    (hre : -1073741824 + 2048 * (c.length : Int) ≤ re ∧ re ≤ 1073741824 - 2048 * (c.length : Int)) :
    re - 2048 * (c.length : Int) ≤ (foldI32 c bm re).2 ∧ (foldI32 c bm re).2 ≤ re + 2048 * (c.length : Int) := by
  induction c generalizing bm re with
  | nil => simp [foldI32]
  | cons x xs ih =>
    obtain ⟨m, e⟩ := x
    have hx := hc (m, e) (by simp)
    unfold Bd at hx
    simp only [List.length_cons, Int.natCast_add, Int.natCast_one] at hre ⊢
    simp only [foldI32]
    have hw : wrapI32 (re + e) = re + e := w32_id _ (by omega) (by omega)
    rw [hw]
    have := ih (min bm (wrapI32 (re + m))) (re + e) (fun y hy => hc y (by simp [hy])) (by omega)
    omega

theorem sseBlockL2_eq (f : Nat) (c : List (Int × Int)) (bm re : Int) (hf : c.length < 8 * f + 8)
    (hc : ∀ x ∈ c, Bd x.1 ∧ Bd x.2)
    (hre : -1073741824 + 2048 * (c.length : Int) ≤ re ∧ re ≤ 1073741824 - 2048 * (c.length : Int)) :
    sseBlockL2 (f + 1) c bm re = foldI32 c bm re := by
  induction f generalizing c bm re with
  | zero =>
    unfold sseBlockL2
    have : ¬ 8 ≤ c.length := by omega
    simp [this]
  | succ f ih =>
    unfold sseBlockL2
    by_cases h8 : 8 ≤ c.length
    · simp only [h8, if_true]
      have hsplit : c = c.take 8 ++ c.drop 8 := (List.take_append_drop 8 c).symm
      have hl : (c.take 8).length = 8 := by rw [List.length_take]; omega
      have hct : ∀ x ∈ c.take 8, Bd x.1 ∧ Bd x.2 := fun x hx => hc x (List.mem_of_mem_take hx)
      have hcd : ∀ x ∈ c.drop 8, Bd x.1 ∧ Bd x.2 := fun x hx => hc x (List.mem_of_mem_drop hx)
      have hbound := foldI32_snd_bound (c.take 8) bm re hct (by rw [hl]; omega)
      rw [hl] at hbound
      match hcm : c.take 8, hl with
      | [(m0, e0), (m1, e1), (m2, e2), (m3, e3), (m4, e4), (m5, e5), (m6, e6), (m7, e7)], _ =>
        rw [hcm] at hct hbound
        have hchunk := sseChunkL2_eq m0 m1 m2 m3 m4 m5 m6 m7 e0 e1 e2 e3 e4 e5 e6 e7 re bm
          (hct (m0, e0) (by simp)).1 (hct (m1, e1) (by simp)).1 (hct (m2, e2) (by simp)).1 (hct (m3, e3) (by simp)).1
          (hct (m4, e4) (by simp)).1 (hct (m5, e5) (by simp)).1 (hct (m6, e6) (by simp)).1 (hct (m7, e7) (by simp)).1
          (hct (m0, e0) (by simp)).2 (hct (m1, e1) (by simp)).2 (hct (m2, e2) (by simp)).2 (hct (m3, e3) (by simp)).2
          (hct (m4, e4) (by simp)).2 (hct (m5, e5) (by simp)).2 (hct (m6, e6) (by simp)).2 (hct (m7, e7) (by simp)).2
          (by omega)
        simp only [List.map] at hchunk ⊢
        have hre' := hbound
        rw [← hchunk] at hre'
        simp only at hre'
        rw [ih (c.drop 8) _ _ (by rw [List.length_drop]; omega) hcd (by
          rw [List.length_drop]
          have : ((c.length - 8 : Nat) : Int) = (c.length : Int) - 8 := by omega
          rw [this]; omega)]
        conv => rhs; rw [hsplit, hcm, foldI32_append, ← hchunk]
    · simp only [h8, if_false]

theorem chunksOf_mem {α} (k f : Nat) (l : List α) (c : List α) (h : c ∈ chunksOf k f l) :
    (∀ x ∈ c, x ∈ l) ∧ c.length ≤ k := by
  induction f generalizing l with
  | zero => simp [chunksOf] at h
  | succ f ih =>
    unfold chunksOf at h
    by_cases he : l.isEmpty
    · simp [he] at h
    · simp only [he, Bool.false_eq_true, if_false, List.mem_cons] at h
      rcases h with h | h
      · subst h
        exact ⟨fun x hx => List.mem_of_mem_take hx, by rw [List.length_take]; omega⟩
      · obtain ⟨h1, h2⟩ := ih (l.drop k) h
        exact ⟨fun x hx => List.mem_of_mem_drop (h1 x hx), h2⟩

theorem buildL2Sse_eq (l1 : List (Int × Int)) (h : ∀ x ∈ l1, Bd x.1 ∧ Bd x.2) : buildL2Sse l1 = buildL2 l1 := by
  unfold buildL2Sse buildL2
  apply List.map_congr_left
  intro c hc
  have h32 : Gen.BP_FACTOR_L2 = 32 := rfl
  rw [h32] at hc
  obtain ⟨hm, hl⟩ := chunksOf_mem 32 _ l1 c hc
  exact sseBlockL2_eq c.length c 0 0 (by omega) (fun x hx => h x (hm x hx)) (by omega)

theorem summ_bd (X : List Bool) (hX : X.length ≤ 2048) : Bd (summ X).1 ∧ Bd (summ X).2 := by
  unfold Bd summ
  have h1 := minExc_ge X
  have h2 := minExc_le_zero X
  have h3 := totExc_bound X
  simp only
  omega

/-- The structure built with the SSE4.1 lane model of the L1/L2 builders is the structure built
with the scalar builders. -/
theorem mkBP_simd_eq (st : List (BitVec 64)) (len : Nat) (k : SelKind) (hw : st.length = (len + 63) / 64) :
    mkBP true st len k = mkBP false st len k := by
  unfold mkBP
  simp only [if_true, Bool.false_eq_true, if_false, buildL1Sse_eq]
  by_cases hemp : st.isEmpty = true ∨ len = 0
  · simp only [hemp, if_true]
    have : buildL2Sse (buildL1 ([] : List (Int × Int))) = buildL2 (buildL1 []) := by
      apply buildL2Sse_eq; intro x hx; simp [buildL1, chunksOf] at hx
    rw [this]
  · simp only [hemp, if_false]
    have hne : st ≠ [] := by
      intro h0; apply hemp; left; simp [h0]
    obtain ⟨_, h1, _⟩ := index_exact st len hw hne
    have : buildL2Sse (buildL1 (buildL0 st len)) = buildL2 (buildL1 (buildL0 st len)) := by
      apply buildL2Sse_eq
      rw [h1]
      intro x hx
      simp only [List.mem_map] at hx
      obtain ⟨j, _, rfl⟩ := hx
      exact summ_bd _ (blk_length_le _ _ _)
    rw [this]

end SV.BPX
