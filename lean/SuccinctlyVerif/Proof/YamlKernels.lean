/-
Proof/YamlKernels — each vector kernel of Model/YamlSimd equals its scalar counterpart
(Spec/YamlKernels), by the generic chunked-scan lemmas of Proof/YamlChunked and the lane lemmas.
-/
import SuccinctlyVerif.Proof.YamlChunked
namespace SV.Yaml

theorem findQuoteOrEscape_eq (lvl : Level) (buf : List Byte) (s e : Nat) :
    findQuoteOrEscape lvl buf s e = findIn isQuoteOrEsc buf s e := by
  unfold findQuoteOrEscape findIn
  split
  · rfl
  · exact findAt_eq lvl _ _ laneQuoteOrEsc_msb _

theorem findSingleQuote_eq (lvl : Level) (buf : List Byte) (s e : Nat) :
    findSingleQuote lvl buf s e = findIn isSingleQuote buf s e := by
  unfold findSingleQuote findIn
  split
  · rfl
  · exact findAt_eq lvl _ _ laneSingleQuote_msb _

theorem findNewline_eq (lvl : Level) (buf : List Byte) (s : Nat) :
    findNewline lvl buf s = findFrom isLF buf s := by
  unfold findNewline findFrom
  split
  · rfl
  · exact findAt_eq lvl _ _ laneNewline_msb _

theorem countLeadingSpacesAt_eq (lvl : Level) (buf : List Byte) (s : Nat) :
    countLeadingSpacesAt lvl buf s = countLeadingSpaces buf s := by
  unfold countLeadingSpacesAt countLeadingSpaces
  split
  · rfl
  · cases lvl
    · exact countAvx2_eq _
    · exact countSse2_eq _
    · rfl

end SV.Yaml
