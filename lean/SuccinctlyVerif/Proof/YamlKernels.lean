/-
Proof/YamlKernels — each vector kernel of Model/YamlSimd equals its scalar counterpart
(Spec/YamlKernels), by the generic chunked-scan lemmas of Proof/YamlChunked and the lane lemmas.
-/
import SuccinctlyVerif.Proof.YamlChunked
namespace SV.Yaml

theorem findQuoteOrEscape_eq (lvl : Level) (buf : List Byte) (s e : Nat) :
    findQuoteOrEscape lvl buf s e = findIn isQuoteOrEsc buf s e := by
  unfold findQuoteOrEscape findIn
  split
  · rfl
  · exact findAt_eq lvl _ _ laneQuoteOrEsc_msb _

theorem findSingleQuote_eq (lvl : Level) (buf : List Byte) (s e : Nat) :
    findSingleQuote lvl buf s e = findIn isSingleQuote buf s e := by
  unfold findSingleQuote findIn
  split
  · rfl
  · exact findAt_eq lvl _ _ laneSingleQuote_msb _

theorem findNewline_eq (lvl : Level) (buf : List Byte) (s : Nat) :
    findNewline lvl buf s = findFrom isLF buf s := by
  unfold findNewline findFrom
  split
  · rfl
  · exact findAt_eq lvl _ _ laneNewline_msb _

theorem countLeadingSpacesAt_eq (lvl : Level) (buf : List Byte) (s : Nat) :
    countLeadingSpacesAt lvl buf s = countLeadingSpaces buf s := by
  unfold countLeadingSpacesAt countLeadingSpaces
  split
  · rfl
  · cases lvl
    · exact countAvx2_eq _
    · exact countSse2_eq _
    · rfl

/-! ### parse_anchor_name -/

/-- stop-or-colon: the bytes at which `parse_anchor_name_scalar` does something other than advance -/
def isStopOrColon (x : Byte) : Bool := isAnchorStop x || isColon x

theorem anchorScan_cons (b : Byte) (rest : List Byte) (pos : Nat) :
    anchorScan (b :: rest) pos =
      if isAnchorStop b then pos
      else if isColon b then
        match rest with
        | n :: _ => if isWs n then pos else anchorScan rest (pos + 1)
        | [] => anchorScan rest (pos + 1)
      else anchorScan rest (pos + 1) := by
  cases rest <;> rfl

theorem anchorScan_skip (pre rest : List Byte) (pos : Nat)
    (h : ∀ x ∈ pre, isStopOrColon x = false) :
    anchorScan (pre ++ rest) pos = anchorScan rest (pos + pre.length) := by
  induction pre generalizing pos with
  | nil => simp
  | cons x xs ih =>
    have hx := h x (by simp)
    unfold isStopOrColon at hx
    have h1 : isAnchorStop x = false := by cases h1 : isAnchorStop x <;> simp_all
    have h2 : isColon x = false := by cases h2 : isColon x <;> simp_all
    rw [List.cons_append, anchorScan_cons, h1, h2]
    simp only [Bool.false_eq_true, if_false]
    rw [ih (pos + 1) (fun y hy => h y (by simp [hy]))]
    simp only [List.length_cons]; congr 1; omega

/-- The scalar scan, seen from the first stop-or-colon byte at index `i` of the suffix. -/
theorem anchorScan_at (rest : List Byte) (pos i : Nat) (hi : i < rest.length)
    (hpre : ∀ x ∈ rest.take i, isStopOrColon x = false) (hq : isStopOrColon rest[i] = true) :
    anchorScan rest pos =
      if isAnchorStop rest[i] then pos + i
      else if (i + 1 < rest.length ∧ isWs (rest.getD (i + 1) 0#8)) then pos + i
      else anchorScan (rest.drop (i + 1)) (pos + i + 1) := by
  have hsplit : rest = rest.take i ++ rest[i] :: rest.drop (i + 1) := by
    rw [List.getElem_cons_drop, List.take_append_drop]
  have htl : (rest.take i).length = i := by rw [List.length_take]; omega
  conv => lhs; rw [hsplit, anchorScan_skip _ _ _ hpre, htl]
  rw [anchorScan_cons]
  by_cases hs : isAnchorStop rest[i] = true
  · rw [if_pos hs, if_pos hs]
  · rw [if_neg hs, if_neg hs]
    have hc : isColon rest[i] = true := by
      unfold isStopOrColon at hq
      have h1 : isAnchorStop rest[i] = false := by simpa using hs
      rw [h1] at hq; simpa using hq
    rw [if_pos hc]
    by_cases hlen : i + 1 < rest.length
    · rw [List.drop_eq_getElem_cons hlen]
      have hg : rest.getD (i + 1) 0#8 = rest[i + 1] := by
        rw [List.getD_eq_getElem?_getD, List.getElem?_eq_getElem hlen]; rfl
      simp only [hg, hlen, true_and]
    · have hd : rest.drop (i + 1) = [] := List.drop_eq_nil_of_le (by omega)
      rw [hd]
      simp only [hlen, false_and, if_false]

def laneStopOrColon (x : Byte) : Byte := por (laneAnchorDefinite x) (laneColon x)

theorem laneStopOrColon_msb (x : Byte) : (laneStopOrColon x).msb = isStopOrColon x := by
  unfold laneStopOrColon por isStopOrColon
  rw [BitVec.msb_or, laneAnchorDefinite_msb, laneColon_msb]

theorem anchorAvx2Loop_succ (buf : List Byte) (fuel pos : Nat) :
    anchorAvx2Loop buf (fuel + 1) pos =
      if pos + 32 ≤ buf.length then
        if movemask ((chunkAt buf pos 32).map laneAnchorDefinite) |||
            movemask ((chunkAt buf pos 32).map laneColon) ≠ 0 then
          if (movemask ((chunkAt buf pos 32).map laneAnchorDefinite) >>>
              ctz32 (movemask ((chunkAt buf pos 32).map laneAnchorDefinite) |||
                movemask ((chunkAt buf pos 32).map laneColon))) &&& 1 ≠ 0
          then pos + ctz32 (movemask ((chunkAt buf pos 32).map laneAnchorDefinite) |||
                movemask ((chunkAt buf pos 32).map laneColon))
          else
            if pos + ctz32 (movemask ((chunkAt buf pos 32).map laneAnchorDefinite) |||
                movemask ((chunkAt buf pos 32).map laneColon)) + 1 < buf.length ∧
              isWs (buf.getD (pos + ctz32 (movemask ((chunkAt buf pos 32).map laneAnchorDefinite) |||
                movemask ((chunkAt buf pos 32).map laneColon)) + 1) 0#8)
            then pos + ctz32 (movemask ((chunkAt buf pos 32).map laneAnchorDefinite) |||
                movemask ((chunkAt buf pos 32).map laneColon))
            else parseAnchorNameScalar buf
              (pos + ctz32 (movemask ((chunkAt buf pos 32).map laneAnchorDefinite) |||
                movemask ((chunkAt buf pos 32).map laneColon)) + 1)
        else anchorAvx2Loop buf fuel (pos + 32)
      else parseAnchorNameScalar buf pos := rfl

theorem anchorAvx2Loop_eq (buf : List Byte) : ∀ fuel pos,
    anchorAvx2Loop buf fuel pos = parseAnchorNameScalar buf pos := by
  intro fuel
  induction fuel with
  | zero => intro pos; rfl
  | succ fuel ih =>
    intro pos
    rw [anchorAvx2Loop_succ]
    by_cases h : pos + 32 ≤ buf.length
    · rw [if_pos h]
      unfold chunkAt
      rw [movemask_or]
      have hrl : (buf.drop pos).length = buf.length - pos := List.length_drop
      have hcl : ((buf.drop pos).take 32).length = 32 := by rw [List.length_take, hrl]; omega
      generalize hrest : buf.drop pos = rest at *
      have hcomb : ∀ c : List Byte, c.map (fun x => por (laneAnchorDefinite x) (laneColon x)) = c.map laneStopOrColon :=
        fun _ => rfl
      rw [hcomb]
      by_cases hne : movemask ((rest.take 32).map laneStopOrColon) ≠ 0
      · rw [if_pos hne]
        rw [ctz32_lanes laneStopOrColon isStopOrColon laneStopOrColon_msb _ (by omega) hne]
        have hex : ∃ x ∈ rest.take 32, isStopOrColon x = true := by
          have := mt (movemask_map_eq_zero laneStopOrColon isStopOrColon laneStopOrColon_msb (rest.take 32)).mpr hne
          exact Classical.byContradiction (fun hc => this (fun x hx => by
            cases hq : isStopOrColon x
            · rfl
            · exact absurd ⟨x, hx, hq⟩ hc))
        have hi := List.findIdx_lt_length_of_exists hex
        generalize hidx : (rest.take 32).findIdx isStopOrColon = i at *
        have hi32 : i < 32 := by omega
        have hir : i < rest.length := by omega
        have hget : (rest.take 32)[i] = rest[i] := by simp
        have hq : isStopOrColon rest[i] = true := by
          rw [← hget]; subst hidx; exact List.findIdx_getElem
        have hpre : ∀ x ∈ rest.take i, isStopOrColon x = false := by
          intro x hx
          rcases List.mem_take_iff_getElem.mp hx with ⟨j, hj, rfl⟩
          have hj' : j < i := by omega
          have : j < (rest.take 32).findIdx isStopOrColon := by omega
          have := List.not_of_lt_findIdx this
          simpa using this
        have hscan := anchorScan_at rest pos i hir hpre hq
        have htb : ((movemask ((rest.take 32).map laneAnchorDefinite) >>> i) &&& 1 ≠ 0) ↔
            isAnchorStop rest[i] = true := by
          rw [shr_and_one, testBit_movemask, List.getElem?_map]
          have : (rest.take 32)[i]? = some rest[i] := by
            rw [List.getElem?_eq_getElem (by omega), hget]
          rw [this]; simp [laneAnchorDefinite_msb]
        unfold parseAnchorNameScalar
        rw [hrest, hscan]
        have hd : buf.drop (pos + i + 1) = rest.drop (i + 1) := by
          rw [← hrest, List.drop_drop, Nat.add_assoc]
        have hgd : buf.getD (pos + i + 1) 0#8 = rest.getD (i + 1) 0#8 := by
          rw [List.getD_eq_getElem?_getD, List.getD_eq_getElem?_getD, ← hrest, List.getElem?_drop, Nat.add_assoc]
        rw [hd, hgd]
        by_cases hs : isAnchorStop rest[i] = true
        · rw [if_pos (htb.mpr hs), if_pos hs]
        · rw [if_neg (fun hc => hs (htb.mp hc)), if_neg hs]
          have hlt : (pos + i + 1 < buf.length) ↔ (i + 1 < rest.length) := by omega
          simp only [hlt]
      · rw [if_neg hne, ih]
        have hz : movemask ((rest.take 32).map laneStopOrColon) = 0 := by simpa using hne
        have hall := (movemask_map_eq_zero laneStopOrColon isStopOrColon laneStopOrColon_msb _).mp hz
        unfold parseAnchorNameScalar
        rw [hrest]
        conv => rhs; rw [← List.take_append_drop 32 rest, anchorScan_skip _ _ _ hall, hcl]
        rw [← hrest, List.drop_drop]
    · rw [if_neg h]

theorem parseAnchorNameAvx2_eq (buf : List Byte) (start : Nat) :
    parseAnchorNameAvx2 buf start = parseAnchorNameScalar buf start := by
  unfold parseAnchorNameAvx2
  split
  · rename_i h
    unfold parseAnchorNameScalar
    rw [List.drop_eq_nil_of_le h]; rfl
  · exact anchorAvx2Loop_eq buf _ _

theorem parseAnchorName_eq (lvl : Level) (buf : List Byte) (start : Nat) :
    parseAnchorName lvl buf start = parseAnchorNameScalar buf start := by
  unfold parseAnchorName
  cases lvl
  · simp only; split
    · exact parseAnchorNameAvx2_eq buf start
    · rfl
  · rfl
  · rfl


end SV.Yaml
