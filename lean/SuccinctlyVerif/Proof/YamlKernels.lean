/-
Proof/YamlKernels — each vector kernel of Model/YamlSimd equals its scalar counterpart
(Spec/YamlKernels), by the generic chunked-scan lemmas of Proof/YamlChunked and the lane lemmas.
-/
import SuccinctlyVerif.Proof.YamlChunked
namespace SV.YamlK

theorem findQuoteOrEscape_eq (lvl : Level) (buf : List Byte) (s e : Nat) :
    findQuoteOrEscape lvl buf s e = findIn isQuoteOrEsc buf s e := by
  unfold findQuoteOrEscape findIn
  split
  · rfl
  · exact findAt_eq lvl _ _ laneQuoteOrEsc_msb _

theorem findSingleQuote_eq (lvl : Level) (buf : List Byte) (s e : Nat) :
    findSingleQuote lvl buf s e = findIn isSingleQuote buf s e := by
  unfold findSingleQuote findIn
  split
  · rfl
  · exact findAt_eq lvl _ _ laneSingleQuote_msb _

theorem findNewline_eq (lvl : Level) (buf : List Byte) (s : Nat) :
    findNewline lvl buf s = findFrom isLF buf s := by
  unfold findNewline findFrom
  split
  · rfl
  · exact findAt_eq lvl _ _ laneNewline_msb _

theorem countLeadingSpacesAt_eq (lvl : Level) (buf : List Byte) (s : Nat) :
    countLeadingSpacesAt lvl buf s = countLeadingSpaces buf s := by
  unfold countLeadingSpacesAt countLeadingSpaces
  split
  · rfl
  · cases lvl
    · exact countAvx2_eq _
    · exact countSse2_eq _
    · rfl

/-! ### parse_anchor_name -/

/-- stop-or-colon: the bytes at which `parse_anchor_name_scalar` does something other than advance -/
def isStopOrColon (x : Byte) : Bool := isAnchorStop x || isColon x

theorem anchorScan_cons (b : Byte) (rest : List Byte) (pos : Nat) :
    anchorScan (b :: rest) pos =
      if isAnchorStop b then pos
      else if isColon b then
        match rest with
        | n :: _ => if isWs n then pos else anchorScan rest (pos + 1)
        | [] => anchorScan rest (pos + 1)
      else anchorScan rest (pos + 1) := by
  cases rest <;> rfl

theorem anchorScan_skip (pre rest : List Byte) (pos : Nat)
    (h : ∀ x ∈ pre, isStopOrColon x = false) :
    anchorScan (pre ++ rest) pos = anchorScan rest (pos + pre.length) := by
  induction pre generalizing pos with
  | nil => simp
  | cons x xs ih =>
    have hx := h x (by simp)
    unfold isStopOrColon at hx
    have h1 : isAnchorStop x = false := by cases h1 : isAnchorStop x <;> simp_all
    have h2 : isColon x = false := by cases h2 : isColon x <;> simp_all
    rw [List.cons_append, anchorScan_cons, h1, h2]
    simp only [Bool.false_eq_true, if_false]
    rw [ih (pos + 1) (fun y hy => h y (by simp [hy]))]
    simp only [List.length_cons]; congr 1; omega

/-- The scalar scan, seen from the first stop-or-colon byte at index `i` of the suffix. -/
theorem anchorScan_at (rest : List Byte) (pos i : Nat) (hi : i < rest.length)
    (hpre : ∀ x ∈ rest.take i, isStopOrColon x = false) (hq : isStopOrColon rest[i] = true) :
    anchorScan rest pos =
      if isAnchorStop rest[i] then pos + i
      else if (i + 1 < rest.length ∧ isWs (rest.getD (i + 1) 0#8)) then pos + i
      else anchorScan (rest.drop (i + 1)) (pos + i + 1) := by
  have hsplit : rest = rest.take i ++ rest[i] :: rest.drop (i + 1) := by
    rw [List.getElem_cons_drop, List.take_append_drop]
  have htl : (rest.take i).length = i := by rw [List.length_take]; omega
  conv => lhs; rw [hsplit, anchorScan_skip _ _ _ hpre, htl]
  rw [anchorScan_cons]
  by_cases hs : isAnchorStop rest[i] = true
  · rw [if_pos hs, if_pos hs]
  · rw [if_neg hs, if_neg hs]
    have hc : isColon rest[i] = true := by
      unfold isStopOrColon at hq
      have h1 : isAnchorStop rest[i] = false := by simpa using hs
      rw [h1] at hq; simpa using hq
    rw [if_pos hc]
    by_cases hlen : i + 1 < rest.length
    · rw [List.drop_eq_getElem_cons hlen]
      have hg : rest.getD (i + 1) 0#8 = rest[i + 1] := by
        rw [List.getD_eq_getElem?_getD, List.getElem?_eq_getElem hlen]; rfl
      simp only [hg, hlen, true_and]
    · have hd : rest.drop (i + 1) = [] := List.drop_eq_nil_of_le (by omega)
      rw [hd]
      simp only [hlen, false_and, if_false]

def laneStopOrColon (x : Byte) : Byte := por (laneAnchorDefinite x) (laneColon x)

theorem laneStopOrColon_msb (x : Byte) : (laneStopOrColon x).msb = isStopOrColon x := by
  unfold laneStopOrColon por isStopOrColon
  rw [BitVec.msb_or, laneAnchorDefinite_msb, laneColon_msb]

theorem anchorAvx2Loop_succ (buf : List Byte) (fuel pos : Nat) :
    anchorAvx2Loop buf (fuel + 1) pos =
      if pos + 32 ≤ buf.length then
        if movemask ((chunkAt buf pos 32).map laneAnchorDefinite) |||
            movemask ((chunkAt buf pos 32).map laneColon) ≠ 0 then
          if (movemask ((chunkAt buf pos 32).map laneAnchorDefinite) >>>
              ctz32 (movemask ((chunkAt buf pos 32).map laneAnchorDefinite) |||
                movemask ((chunkAt buf pos 32).map laneColon))) &&& 1 ≠ 0
          then pos + ctz32 (movemask ((chunkAt buf pos 32).map laneAnchorDefinite) |||
                movemask ((chunkAt buf pos 32).map laneColon))
          else
            if pos + ctz32 (movemask ((chunkAt buf pos 32).map laneAnchorDefinite) |||
                movemask ((chunkAt buf pos 32).map laneColon)) + 1 < buf.length ∧
              isWs (buf.getD (pos + ctz32 (movemask ((chunkAt buf pos 32).map laneAnchorDefinite) |||
                movemask ((chunkAt buf pos 32).map laneColon)) + 1) 0#8)
            then pos + ctz32 (movemask ((chunkAt buf pos 32).map laneAnchorDefinite) |||
                movemask ((chunkAt buf pos 32).map laneColon))
            else parseAnchorNameScalar buf
              (pos + ctz32 (movemask ((chunkAt buf pos 32).map laneAnchorDefinite) |||
                movemask ((chunkAt buf pos 32).map laneColon)) + 1)
        else anchorAvx2Loop buf fuel (pos + 32)
      else parseAnchorNameScalar buf pos := rfl

theorem anchorAvx2Loop_eq (buf : List Byte) : ∀ fuel pos,
    anchorAvx2Loop buf fuel pos = parseAnchorNameScalar buf pos := by
  intro fuel
  induction fuel with
  | zero => intro pos; rfl
  | succ fuel ih =>
    intro pos
    rw [anchorAvx2Loop_succ]
    by_cases h : pos + 32 ≤ buf.length
    · rw [if_pos h]
      unfold chunkAt
      rw [movemask_or]
      have hrl : (buf.drop pos).length = buf.length - pos := List.length_drop
      have hcl : ((buf.drop pos).take 32).length = 32 := by rw [List.length_take, hrl]; omega
      generalize hrest : buf.drop pos = rest at *
      have hcomb : ∀ c : List Byte, c.map (fun x => por (laneAnchorDefinite x) (laneColon x)) = c.map laneStopOrColon :=
        fun _ => rfl
      rw [hcomb]
      by_cases hne : movemask ((rest.take 32).map laneStopOrColon) ≠ 0
      · rw [if_pos hne]
        rw [ctz32_lanes laneStopOrColon isStopOrColon laneStopOrColon_msb _ (by omega) hne]
        have hex : ∃ x ∈ rest.take 32, isStopOrColon x = true := by
          have := mt (movemask_map_eq_zero laneStopOrColon isStopOrColon laneStopOrColon_msb (rest.take 32)).mpr hne
          exact Classical.byContradiction (fun hc => this (fun x hx => by
            cases hq : isStopOrColon x
            · rfl
            · exact absurd ⟨x, hx, hq⟩ hc))
        have hi := List.findIdx_lt_length_of_exists hex
        generalize hidx : (rest.take 32).findIdx isStopOrColon = i at *
        have hi32 : i < 32 := by omega
        have hir : i < rest.length := by omega
        have hget : (rest.take 32)[i] = rest[i] := by simp
        have hq : isStopOrColon rest[i] = true := by
          rw [← hget]; subst hidx; exact List.findIdx_getElem
        have hpre : ∀ x ∈ rest.take i, isStopOrColon x = false := by
          intro x hx
          rcases List.mem_take_iff_getElem.mp hx with ⟨j, hj, rfl⟩
          have hj' : j < i := by omega
          have : j < (rest.take 32).findIdx isStopOrColon := by omega
          have := List.not_of_lt_findIdx this
          simpa using this
        have hscan := anchorScan_at rest pos i hir hpre hq
        have htb : ((movemask ((rest.take 32).map laneAnchorDefinite) >>> i) &&& 1 ≠ 0) ↔
            isAnchorStop rest[i] = true := by
          rw [shr_and_one, testBit_movemask, List.getElem?_map]
          have : (rest.take 32)[i]? = some rest[i] := by
            rw [List.getElem?_eq_getElem (by omega), hget]
          rw [this]; simp [laneAnchorDefinite_msb]
        unfold parseAnchorNameScalar
        rw [hrest, hscan]
        have hd : buf.drop (pos + i + 1) = rest.drop (i + 1) := by
          rw [← hrest, List.drop_drop, Nat.add_assoc]
        have hgd : buf.getD (pos + i + 1) 0#8 = rest.getD (i + 1) 0#8 := by
          rw [List.getD_eq_getElem?_getD, List.getD_eq_getElem?_getD, ← hrest, List.getElem?_drop, Nat.add_assoc]
        rw [hd, hgd]
        by_cases hs : isAnchorStop rest[i] = true
        · rw [if_pos (htb.mpr hs), if_pos hs]
        · rw [if_neg (fun hc => hs (htb.mp hc)), if_neg hs]
          have hlt : (pos + i + 1 < buf.length) ↔ (i + 1 < rest.length) := by omega
          simp only [hlt]
      · rw [if_neg hne, ih]
        have hz : movemask ((rest.take 32).map laneStopOrColon) = 0 := by simpa using hne
        have hall := (movemask_map_eq_zero laneStopOrColon isStopOrColon laneStopOrColon_msb _).mp hz
        unfold parseAnchorNameScalar
        rw [hrest]
        conv => rhs; rw [← List.take_append_drop 32 rest, anchorScan_skip _ _ _ hall, hcl]
        rw [← hrest, List.drop_drop]
    · rw [if_neg h]

theorem parseAnchorNameAvx2_eq (buf : List Byte) (start : Nat) :
    parseAnchorNameAvx2 buf start = parseAnchorNameScalar buf start := by
  unfold parseAnchorNameAvx2
  split
  · rename_i h
    unfold parseAnchorNameScalar
    rw [List.drop_eq_nil_of_le h]; rfl
  · exact anchorAvx2Loop_eq buf _ _

theorem parseAnchorName_eq (lvl : Level) (buf : List Byte) (start : Nat) :
    parseAnchorName lvl buf start = parseAnchorNameScalar buf start := by
  unfold parseAnchorName
  cases lvl
  · simp only; split
    · exact parseAnchorNameAvx2_eq buf start
    · rfl
  · rfl
  · rfl


/-! ### find_block_scalar_end -/

/-- The vector indentation count is the scalar one. -/
theorem simdIndent_eq (W : Nat) (hW : W ≤ 32) (buf : List Byte) (q : Nat) :
    simdIndent W buf q = ((buf.drop q).takeWhile isSpace).length := by
  unfold simdIndent chunkAt
  simp only
  split
  · rename_i hrem
    have hlen : W ≤ (buf.drop q).length := by rw [List.length_drop]; exact hrem
    have hs := countStep W hW (buf.drop q) 0 hlen
    unfold countTail at hs
    rw [List.drop_drop] at hs
    simp only [Nat.zero_add] at hs
    rw [← hs]
  · rfl

/-- The per-line test of the vector kernels is the scalar kernel's test. -/
theorem simdLineTest_eq (W : Nat) (hW : W ≤ 32) (buf : List Byte) (m q : Nat) :
    simdLineTest W buf m q = lineCheck m buf.length q (buf.drop q) := by
  unfold simdLineTest
  by_cases hq : q ≥ buf.length
  · rw [if_pos hq, List.drop_eq_nil_of_le hq]; rfl
  · rw [if_neg hq]
    have hq' : q < buf.length := by omega
    rw [simdIndent_eq W hW]
    rw [List.drop_eq_getElem_cons hq']
    unfold lineCheck
    simp only
    rw [← List.drop_eq_getElem_cons hq']
    generalize hind : ((buf.drop q).takeWhile isSpace).length = indent
    rw [List.drop_drop]
    by_cases hlt : q + indent < buf.length
    · rw [if_pos hlt, List.drop_eq_getElem_cons hlt]
      have hg : buf.getD (q + indent) 0#8 = buf[q + indent] := by
        rw [List.getD_eq_getElem?_getD, List.getElem?_eq_getElem hlt]; rfl
      simp only [hg]
      have hb : (buf[q + indent] != 0x0a#8 && buf[q + indent] != 0x0d#8) = !isBreak buf[q + indent] := by
        unfold isBreak; cases h1 : buf[q + indent] == 0x0a#8 <;> cases h2 : buf[q + indent] == 0x0d#8 <;> simp [bne, h1, h2]
      rw [hb]
    · rw [if_neg hlt, List.drop_eq_nil_of_le (by omega)]

/-- The scalar kernel visiting the `n` positions from `q`. -/
def scanPos (buf : List Byte) (m : Nat) : Nat → Nat → Option Nat
  | 0, _ => none
  | n + 1, q =>
    if isBreak (buf.getD q 0#8) then
      match lineCheck m buf.length (q + 1) (buf.drop (q + 1)) with
      | some r => some r
      | none => scanPos buf m n (q + 1)
    else scanPos buf m n (q + 1)

theorem blockEndScan_cons (m len : Nat) (b : Byte) (rest : List Byte) (pos : Nat) :
    blockEndScan m len (b :: rest) pos =
      if isBreak b then
        match lineCheck m len (pos + 1) rest with
        | some r => r
        | none => blockEndScan m len rest (pos + 1)
      else blockEndScan m len rest (pos + 1) := rfl

theorem blockEndScan_scanPos (buf : List Byte) (m : Nat) : ∀ n q, q + n ≤ buf.length →
    blockEndScan m buf.length (buf.drop q) q =
      match scanPos buf m n q with
      | some r => r
      | none => blockEndScan m buf.length (buf.drop (q + n)) (q + n) := by
  intro n
  induction n with
  | zero => intro q _; rfl
  | succ n ih =>
    intro q hq
    have hq' : q < buf.length := by omega
    have hg : buf.getD q 0#8 = buf[q] := by
      rw [List.getD_eq_getElem?_getD, List.getElem?_eq_getElem hq']; rfl
    rw [List.drop_eq_getElem_cons hq', blockEndScan_cons, scanPos, hg]
    have hn : q + (n + 1) = q + 1 + n := by omega
    by_cases hb : isBreak buf[q] = true
    · rw [if_pos hb, if_pos hb]
      cases hc : lineCheck m buf.length (q + 1) (buf.drop (q + 1)) with
      | some r => rfl
      | none => simp only; rw [ih (q + 1) (by omega), hn]
    · rw [if_neg hb, if_neg hb, ih (q + 1) (by omega), hn]

/-- Lane loop over the break lanes of the chunk at `pos + k` = scalar visit of those positions. -/
theorem laneLoop_scanPos (W : Nat) (hW : W ≤ 32) (buf : List Byte) (m pos : Nat) : ∀ n k, pos + k + n ≤ buf.length →
    laneLoop (simdLineTest W buf m) pos (((buf.drop (pos + k)).take n).map laneBreak) k =
      scanPos buf m n (pos + k) := by
  intro n
  induction n with
  | zero => intro k _; simp [laneLoop, scanPos]
  | succ n ih =>
    intro k hk
    have hq' : pos + k < buf.length := by omega
    have hg : buf.getD (pos + k) 0#8 = buf[pos + k] := by
      rw [List.getD_eq_getElem?_getD, List.getElem?_eq_getElem hq']; rfl
    rw [List.drop_eq_getElem_cons hq', List.take_succ_cons, List.map_cons, laneLoop, scanPos, hg,
      laneBreak_msb, simdLineTest_eq W hW]
    have hk1 : pos + k + 1 = pos + (k + 1) := by omega
    rw [hk1, ih (k + 1) (by omega)] <;> rfl

theorem blockEndSimd_succ (W : Nat) (buf : List Byte) (m fuel pos : Nat) :
    blockEndSimd W buf m (fuel + 1) pos =
      if pos + W < buf.length then
        match nlMaskLoop (simdLineTest W buf m) pos 33 (movemask ((chunkAt buf pos W).map laneBreak)) with
        | some r => r
        | none => blockEndSimd W buf m fuel (pos + W)
      else findBlockScalarEndScalar buf pos m := rfl

theorem blockEndSimd_eq (W : Nat) (hW : W ≤ 32) (buf : List Byte) (m : Nat) : ∀ fuel pos,
    blockEndSimd W buf m fuel pos = findBlockScalarEndScalar buf pos m := by
  intro fuel
  induction fuel with
  | zero => intro pos; rfl
  | succ fuel ih =>
    intro pos
    rw [blockEndSimd_succ]
    by_cases h : pos + W < buf.length
    · rw [if_pos h]
      unfold chunkAt
      have hcl : (((buf.drop pos).take W).map laneBreak).length = W := by
        rw [List.length_map, List.length_take, List.length_drop]; omega
      have hm := nlMaskLoop_lanes (simdLineTest W buf m) pos (((buf.drop pos).take W).map laneBreak) 0 33
        (by omega) (by omega)
      simp only [Nat.pow_zero, Nat.one_mul] at hm
      rw [hm]
      have hl := laneLoop_scanPos W hW buf m pos W 0 (by omega)
      simp only [Nat.add_zero] at hl
      rw [hl, ih]
      unfold findBlockScalarEndScalar
      rw [blockEndScan_scanPos buf m W pos (by omega)]
    · rw [if_neg h]

theorem blockEndKernel_eq (lvl : Level) (buf : List Byte) (start m : Nat) :
    blockEndKernel lvl buf start m = findBlockScalarEndScalar buf start m := by
  cases lvl
  · exact blockEndSimd_eq 32 (by decide) buf m _ _
  · exact blockEndSimd_eq 16 (by decide) buf m _ _
  · rfl

theorem findBlockScalarEnd_eq (lvl : Level) (buf : List Byte) (start m : Nat) :
    findBlockScalarEnd lvl buf start m = findBlockScalarEndScalar buf start m := by
  have hge : start ≥ buf.length → findBlockScalarEndScalar buf start m = buf.length := by
    intro h; unfold findBlockScalarEndScalar; rw [List.drop_eq_nil_of_le h]; rfl
  cases lvl
  · simp only [findBlockScalarEnd]; split
    · rename_i h; exact (hge h).symm
    · exact blockEndKernel_eq _ _ _ _
  · simp only [findBlockScalarEnd]; split
    · rename_i h; exact (hge h).symm
    · exact blockEndKernel_eq _ _ _ _
  · rfl



/-! ### classify_yaml_chars -/

theorem movemask_cmpeq (c : Byte) (chunk : List Byte) :
    movemask (chunk.map (cmpeq c)) = boolMask (chunk.map (· == c)) := by
  induction chunk with
  | nil => rfl
  | cons x xs ih => rw [List.map_cons, List.map_cons, movemask_cons, boolMask, cmpeq_msb, ih]

theorem classifyChunk_eq (W : Nat) (hasCr : Bool) (buf : List Byte) (offset : Nat) :
    classifyChunk W hasCr buf offset = classSpec hasCr buf offset W := by
  unfold classifyChunk classSpec classMask chunkAt
  simp only [movemask_cmpeq]

theorem classifyYamlChars_eq (avx2 hasCr : Bool) (buf : List Byte) (offset : Nat) :
    classifyYamlChars avx2 hasCr buf offset =
      if offset + 16 > buf.length then none
      else some (classSpec hasCr buf offset (if offset + 32 ≤ buf.length ∧ avx2 = true then 32 else 16)) := by
  unfold classifyYamlChars
  by_cases h16 : offset + 16 > buf.length
  · rw [if_pos h16, if_pos h16]
  · rw [if_neg h16, if_neg h16]
    by_cases h32 : offset + 32 ≤ buf.length ∧ avx2 = true
    · rw [if_pos h32, if_pos h32, classifyChunk_eq]
    · rw [if_neg h32, if_neg h32, if_pos (by omega), classifyChunk_eq]

theorem mod_double (b x p : Nat) (hb : b < 2) (hp : 0 < p) :
    (b + 2 * x) % (p * 2) = b + 2 * (x % p) := by
  have hx : p * (x / p) + x % p = x := Nat.div_add_mod x p
  have hr := Nat.mod_lt x hp
  generalize x / p = q at hx
  generalize x % p = r at hx hr
  subst hx
  have h1 : b + 2 * (p * q + r) = (b + 2 * r) + (p * 2) * q := by
    rw [Nat.mul_add, Nat.mul_assoc p 2 q, Nat.mul_left_comm p 2 q]; omega
  rw [h1, Nat.add_mul_mod_self_left, Nat.mod_eq_of_lt (by omega)]

theorem boolMask_take (bs : List Bool) : ∀ n, boolMask (bs.take n) = boolMask bs % 2 ^ n := by
  induction bs with
  | nil => intro n; simp [boolMask, Nat.zero_mod]
  | cons b bs ih =>
    intro n
    cases n with
    | zero => simp [boolMask, Nat.mod_one]
    | succ n =>
      rw [List.take_succ_cons, boolMask, boolMask, ih n, Nat.pow_succ]
      have hp : 0 < 2 ^ n := Nat.pow_pos (by decide)
      rw [mod_double _ _ _ (by split <;> omega) hp]

/-- The SSE2 classification is the low 16 bits of the AVX2 classification of the same offset. -/
theorem classMask_low16 (c : Byte) (buf : List Byte) (offset : Nat) :
    boolMask (classMask c buf offset 32) % 2 ^ 16 = boolMask (classMask c buf offset 16) := by
  rw [← boolMask_take]
  unfold classMask
  rw [← List.map_take, List.take_take]
  rfl

/-! ### SUCCINCTLY_SIMD clamp -/

theorem parseSimdClamp_true_iff (v : List Char) :
    parseSimdClamp v = some true ↔ normalise v ∈ clampSpellings := by
  unfold parseSimdClamp clampSpellings
  simp only [List.mem_cons, List.not_mem_nil, or_false]
  generalize normalise v = n
  constructor
  · intro h
    split at h
    · assumption
    · split at h <;> simp at h
  · intro h; rw [if_pos h]

theorem parseSimdClamp_false_iff (v : List Char) :
    parseSimdClamp v = some false ↔ normalise v ∈ noClampSpellings := by
  unfold parseSimdClamp noClampSpellings
  simp only [List.mem_cons, List.not_mem_nil, or_false]
  generalize normalise v = n
  constructor
  · intro h
    split at h
    · simp at h
    · split at h
      · assumption
      · simp at h
  · intro h
    have hn : ¬(n = ['s','c','a','l','a','r'] ∨ n = ['s','s','e','2'] ∨ n = ['s','s','e','4','2'] ∨
        n = ['s','s','e','4','.','2']) := by
      rcases h with rfl | rfl <;> decide
    rw [if_neg hn, if_pos h]

theorem parseSimdClamp_none_iff (v : List Char) :
    parseSimdClamp v = none ↔ normalise v ∉ clampSpellings ∧ normalise v ∉ noClampSpellings := by
  rw [← parseSimdClamp_true_iff, ← parseSimdClamp_false_iff]
  cases parseSimdClamp v with
  | none => simp
  | some b => cases b <;> simp

/-- The clamp can only lower the level: AVX2 is never enabled unless detected, and whatever the
environment says, it is enabled only if it would be enabled with no environment variable. -/
theorem avx2Enabled_only_lowers (detected : Bool) (env : Option (List Char)) :
    avx2Enabled detected env = true → detected = true ∧ avx2Enabled detected none = true := by
  unfold avx2Enabled
  cases detected <;> simp [clampBelowAvx2]


end SV.YamlK
