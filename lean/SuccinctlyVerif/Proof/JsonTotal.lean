/-
Proof/JsonTotal — helper lemmas for Props/C19: the checked operations of Model/JsonTotal never
answer `panic`, with the bounds each loop establishes.
-/
import SuccinctlyVerif.Model.JsonTotal
namespace SV.JsonTotal

theorem idx_of_lt (t : Bytes) (i : Nat) (h : i < t.size) : idx t i = .ok t[i] := by
  simp [idx, h]

theorem slice_ok (t : Bytes) (a b : Nat) (h1 : a ≤ b) (h2 : b ≤ t.size) : slice t a b = .ok (t.extract a b) := by
  simp [slice, h1, h2]

/-- `find_string_end`: never panics; the answer lies in `[min i len, len]`. -/
theorem findStringEndLoop_spec (t : Bytes) : ∀ fuel i,
    ∃ r, findStringEndLoop t fuel i = .ok r ∧ min i t.size ≤ r ∧ r ≤ t.size := by
  intro fuel
  induction fuel with
  | zero => intro i; exact ⟨t.size, rfl, Nat.min_le_right _ _, Nat.le_refl _⟩
  | succ f ih =>
    intro i
    unfold findStringEndLoop
    by_cases h : i < t.size
    · simp only [h, if_true, idx_of_lt t i h]
      by_cases hq : t[i] = QUOTE
      · simp only [hq, if_true]; exact ⟨i, rfl, Nat.min_le_left _ _, Nat.le_of_lt h⟩
      · simp only [hq, if_false]
        by_cases hb : t[i] = BSLASH
        · simp only [hb, if_true]
          obtain ⟨r, hr, h1, h2⟩ := ih (i + 2)
          exact ⟨r, hr, by omega, h2⟩
        · simp only [hb, if_false]
          obtain ⟨r, hr, h1, h2⟩ := ih (i + 1)
          exact ⟨r, hr, by omega, h2⟩
    · simp only [h, if_false]; exact ⟨t.size, rfl, Nat.min_le_right _ _, Nat.le_refl _⟩


theorem findStringEnd_spec (t : Bytes) (s : Nat) (h : s < t.size) :
    ∃ r, findStringEnd t s = .ok r ∧ s + 1 ≤ r ∧ r ≤ t.size := by
  obtain ⟨r, hr, h1, h2⟩ := findStringEndLoop_spec t (t.size + 1) (s + 1)
  exact ⟨r, hr, by omega, h2⟩

theorem rawBytes_ok (t : Bytes) (s : Nat) (h : s < t.size) : ∃ b, rawBytes t s = .ok b := by
  obtain ⟨r, hr, h1, h2⟩ := findStringEnd_spec t s h
  unfold rawBytes findEnd
  rw [hr]
  simp only [Res.bind]
  rw [slice_ok t s _ (by omega) (by omega)]
  exact ⟨_, rfl⟩

/-- The pre-repair `raw_bytes` panics exactly when the string has no closing quote. -/
theorem rawBytesV0_panic_iff (t : Bytes) (s : Nat) (h : s < t.size) :
    rawBytesV0 t s = .panic ↔ findStringEnd t s = .ok t.size := by
  obtain ⟨r, hr, h1, h2⟩ := findStringEnd_spec t s h
  unfold rawBytesV0 findEnd
  rw [hr]
  simp only [Res.bind, slice]
  constructor
  · intro hp
    by_cases hc : s ≤ r + 1 ∧ r + 1 ≤ t.size
    · simp [hc] at hp
    · have : r = t.size := by omega
      rw [this]
  · intro he
    have : r = t.size := by injection he
    have hc : ¬ (s ≤ r + 1 ∧ r + 1 ≤ t.size) := by omega
    simp [hc]

theorem rawAndEscapedLoop_ok (t : Bytes) (s : Nat) (hs : s ≤ t.size) : ∀ fuel i esc, s ≤ i →
    ∃ p, rawAndEscapedLoop t s fuel i esc = .ok p := by
  intro fuel
  induction fuel with
  | zero =>
    intro i esc _
    unfold rawAndEscapedLoop
    rw [slice_ok t s _ hs (Nat.le_refl _)]; exact ⟨_, rfl⟩
  | succ f ih =>
    intro i esc hi
    unfold rawAndEscapedLoop
    by_cases h : i < t.size
    · simp only [h, if_true, idx_of_lt t i h]
      by_cases hq : t[i] = QUOTE
      · simp only [hq, if_true]
        rw [slice_ok t s _ (by omega) (by omega)]; exact ⟨_, rfl⟩
      · simp only [hq, if_false]
        by_cases hb : t[i] = BSLASH
        · simp only [hb, if_true]; exact ih _ _ (by omega)
        · simp only [hb, if_false]; exact ih _ _ (by omega)
    · simp only [h, if_false]
      rw [slice_ok t s _ hs (Nat.le_refl _)]; exact ⟨_, rfl⟩

theorem rawAndEscaped_ok (t : Bytes) (s : Nat) (h : s < t.size) : ∃ p, rawAndEscaped t s = .ok p :=
  rawAndEscapedLoop_ok t s (Nat.le_of_lt h) _ _ _ (Nat.le_succ s)

theorem numberSpanLoop_spec (t : Bytes) : ∀ fuel i, i ≤ t.size →
    ∃ r, numberSpanLoop t fuel i = .ok r ∧ i ≤ r ∧ r ≤ t.size := by
  intro fuel
  induction fuel with
  | zero => intro i hi; exact ⟨i, rfl, Nat.le_refl _, hi⟩
  | succ f ih =>
    intro i hi
    unfold numberSpanLoop
    by_cases h : i < t.size
    · simp only [h, if_true, idx_of_lt t i h]
      by_cases hn : isNumByte t[i] = true
      · simp only [hn, if_true]
        obtain ⟨r, hr, h1, h2⟩ := ih (i + 1) (by omega)
        exact ⟨r, hr, by omega, h2⟩
      · simp only [hn]; exact ⟨i, rfl, Nat.le_refl _, hi⟩
    · simp only [h, if_false]; exact ⟨i, rfl, Nat.le_refl _, hi⟩

theorem nestedNumberSpan_spec (t : Bytes) (s : Nat) (h : s < t.size) :
    ∃ r, nestedNumberSpan t s = .ok r ∧ s ≤ r ∧ r ≤ t.size := by
  unfold nestedNumberSpan
  simp only [h, if_true, idx_of_lt t s h]
  by_cases hm : t[s] = 45
  · simp only [hm, if_true]
    obtain ⟨r, hr, h1, h2⟩ := numberSpanLoop_spec t (t.size + 1) (s + 1) (by omega)
    exact ⟨r, hr, by omega, h2⟩
  · simp only [hm, if_false]
    exact numberSpanLoop_spec t (t.size + 1) s (by omega)

theorem numberRawBytes_ok (t : Bytes) (s : Nat) (h : s < t.size) : ∃ b, numberRawBytes t s = .ok b := by
  obtain ⟨r, hr, h1, h2⟩ := nestedNumberSpan_spec t s h
  unfold numberRawBytes
  rw [hr]; simp only [Res.bind]
  rw [slice_ok t s r h1 h2]; exact ⟨_, rfl⟩

theorem chunkEnd_spec (bs : Bytes) : ∀ fuel i, i ≤ bs.size →
    ∃ r, chunkEnd bs fuel i = .ok r ∧ i ≤ r ∧ r ≤ bs.size := by
  intro fuel
  induction fuel with
  | zero => intro i hi; exact ⟨i, rfl, Nat.le_refl _, hi⟩
  | succ f ih =>
    intro i hi
    unfold chunkEnd
    by_cases h : i < bs.size
    · simp only [h, if_true, idx_of_lt bs i h]
      by_cases hn : bs[i] ≠ BSLASH
      · rw [if_pos hn]
        obtain ⟨r, hr, h1, h2⟩ := ih (i + 1) (by omega)
        exact ⟨r, hr, by omega, h2⟩
      · rw [if_neg hn]; exact ⟨i, rfl, Nat.le_refl _, hi⟩
    · simp only [h, if_false]; exact ⟨i, rfl, Nat.le_refl _, hi⟩

/-- A hex digit is a reported error or a value below 16; the `u8` subtractions never underflow. -/
theorem hexDigit_spec (b : UInt8) : hexDigit b = .err .unicode ∨ ∃ d, hexDigit b = .ok d ∧ d < 16 := by
  by_cases h1 : 48 ≤ b.toNat ∧ b.toNat ≤ 57
  · right
    refine ⟨b.toNat - 48, ?_, by omega⟩
    simp [hexDigit, csub, h1]
  · by_cases h2 : 97 ≤ b.toNat ∧ b.toNat ≤ 102
    · right
      refine ⟨b.toNat - 97 + 10, ?_, by omega⟩
      have : b.toNat - 97 + 10 < 256 := by omega
      simp [hexDigit, csub, cadd, Res.bind, h1, h2, this]
    · by_cases h3 : 65 ≤ b.toNat ∧ b.toNat ≤ 70
      · right
        refine ⟨b.toNat - 65 + 10, ?_, by omega⟩
        have : b.toNat - 65 + 10 < 256 := by omega
        simp [hexDigit, csub, cadd, Res.bind, h1, h2, h3, this]
      · left
        simp [hexDigit, h1, h2, h3]

theorem list_len4 {α} (l : List α) (h : l.length = 4) : ∃ a b c d, l = [a, b, c, d] := by
  match l, h with
  | [a, b, c, d], _ => exact ⟨a, b, c, d, rfl⟩

/-- one step of the `u16` accumulation: with `v < 4096` neither `value * 16` nor `+ digit` overflows. -/
theorem parseHex4Loop_step (b : UInt8) (rest : List UInt8) (v : Nat) (hv : v < 4096) :
    parseHex4Loop (b :: rest) v = .err .unicode ∨
    ∃ d, d < 16 ∧ parseHex4Loop (b :: rest) v = parseHex4Loop rest (v * 16 + d) := by
  rcases hexDigit_spec b with he | ⟨d, hd, hlt⟩
  · left; simp [parseHex4Loop, he, Res.bind]
  · right
    refine ⟨d, hlt, ?_⟩
    have h1 : v * 16 < 65536 := by omega
    have h2 : v * 16 + d < 65536 := by omega
    simp [parseHex4Loop, hd, Res.bind, cmul, cadd, h1, h2]

theorem parseHex4_noPanic (hex : Bytes) : parseHex4 hex ≠ .panic := by
  unfold parseHex4
  by_cases hs : hex.size ≠ 4
  · simp [hs]
  · have hs' : hex.size = 4 := by omega
    rw [if_neg hs]
    obtain ⟨a, b, c, d, hl⟩ := list_len4 hex.toList (by simp [hs'])
    rw [hl]
    rcases parseHex4Loop_step a [b, c, d] 0 (by omega) with h | ⟨d1, hd1, h⟩
    · rw [h]; simp
    rw [h]
    rcases parseHex4Loop_step b [c, d] (0 * 16 + d1) (by omega) with h | ⟨d2, hd2, h⟩
    · rw [h]; simp
    rw [h]
    rcases parseHex4Loop_step c [d] ((0 * 16 + d1) * 16 + d2) (by omega) with h | ⟨d3, hd3, h⟩
    · rw [h]; simp
    rw [h]
    rcases parseHex4Loop_step d [] (((0 * 16 + d1) * 16 + d2) * 16 + d3) (by omega) with h | ⟨d4, hd4, h⟩
    · rw [h]; simp
    rw [h]; simp [parseHex4Loop]

theorem size_extract4 (bs : Bytes) (a : Nat) (h : a + 4 ≤ bs.size) : (bs.extract a (a + 4)).size = 4 := by
  simp [Array.size_extract]; omega

theorem bind_ok {α β} (a : α) (f : α → Res β) : (Res.ok a).bind f = f a := rfl
theorem csub_ok (a b : Nat) (h : b ≤ a) : csub a b = .ok (a - b) := by simp [csub, h]
theorem cadd_ok (bound a b : Nat) (h : a + b < bound) : cadd bound a b = .ok (a + b) := by simp [cadd, h]

/-- surrogate-pair arithmetic: the `u32` subtractions are guarded by the range tests and the sums stay
below 2^32. -/
theorem surrogatePair_noPanic (cp low k : Nat) (a1 : 55296 ≤ cp) (hh : cp ≤ 56319) (a2 : 56320 ≤ low)
    (h3 : low ≤ 57343) :
    ((csub cp 0xD800).bind fun hi10 =>
      (csub low 0xDC00).bind fun lo10 =>
      (cadd U32 0x10000 (1024 * hi10)).bind fun x =>
      (cadd U32 x lo10).bind fun c =>
      match charFromU32 c with
      | some c => Res.ok (k, encodeUtf8 c)
      | none => Res.err JErr.unicode) ≠ .panic := by
  rw [csub_ok _ _ a1, bind_ok, csub_ok _ _ a2, bind_ok, cadd_ok _ _ _ (by unfold U32; omega), bind_ok,
      cadd_ok _ _ _ (by unfold U32; omega), bind_ok]
  cases charFromU32 _ with
  | none => intro h; cases h
  | some c => intro h; cases h

/-- `\\uXXXX` decoding never panics: the guards `i + 4 < len` / `i + 6 < len` cover every slice and
index, the surrogate subtractions are guarded by the range tests, and the `u32` sums stay below 2^32. -/
theorem decodeUnicode_noPanic (bs : Bytes) (i : Nat) : decodeUnicode bs i ≠ .panic := by
  unfold decodeUnicode
  by_cases h0 : i + 4 ≥ bs.size
  · rw [if_pos h0]; intro h; cases h
  · rw [if_neg h0, slice_ok bs (i + 1) (i + 5) (by omega) (by omega), bind_ok]
    generalize hcp : parseHex4 (bs.extract (i + 1) (i + 5)) = rcp
    have hnp := parseHex4_noPanic (bs.extract (i + 1) (i + 5))
    rw [hcp] at hnp
    cases rcp with
    | panic => exact absurd rfl hnp
    | err e => intro h; cases h
    | ok cp =>
      rw [bind_ok]
      simp only []
      by_cases hhi : 0xD800 ≤ cp ∧ cp ≤ 0xDBFF
      · rw [if_pos hhi]
        by_cases h6 : i + 4 + 6 < bs.size
        · rw [if_pos h6, idx_of_lt bs (i + 4 + 1) (by omega), bind_ok]
          by_cases hc1 : bs[i + 4 + 1] ≠ BSLASH
          · rw [if_pos hc1]; intro h; cases h
          · rw [if_neg hc1, idx_of_lt bs (i + 4 + 2) (by omega), bind_ok]
            by_cases hc2 : bs[i + 4 + 2] ≠ (117 : UInt8)
            · rw [if_pos hc2]; intro h; cases h
            · rw [if_neg hc2, slice_ok bs (i + 4 + 3) (i + 4 + 7) (by omega) (by omega), bind_ok]
              generalize hlo : parseHex4 (bs.extract (i + 4 + 3) (i + 4 + 7)) = rlo
              have hnp2 := parseHex4_noPanic (bs.extract (i + 4 + 3) (i + 4 + 7))
              rw [hlo] at hnp2
              cases rlo with
              | panic => exact absurd rfl hnp2
              | err e => intro h; cases h
              | ok low =>
                rw [bind_ok]
                by_cases hlow : 0xDC00 ≤ low ∧ low ≤ 0xDFFF
                · rw [if_pos hlow]
                  exact surrogatePair_noPanic cp low _ hhi.1 hhi.2 hlow.1 hlow.2
                · rw [if_neg hlow]; intro h; cases h
        · rw [if_neg h6]; intro h; cases h
      · rw [if_neg hhi]
        by_cases hlo : 0xDC00 ≤ cp ∧ cp ≤ 0xDFFF
        · rw [if_pos hlo]; intro h; cases h
        · rw [if_neg hlo]
          cases charFromU32 cp with
          | none => intro h; cases h
          | some c => intro h; cases h

/-- `decode_escapes` never panics, for every byte string (not only what `as_str` passes). -/
theorem decodeLoop_noPanic (bs : Bytes) : ∀ fuel i acc, decodeLoop bs fuel i acc ≠ .panic := by
  intro fuel
  induction fuel with
  | zero => intro i acc h; cases h
  | succ f ih =>
    intro i acc
    unfold decodeLoop
    by_cases h : i < bs.size
    · rw [if_pos h, idx_of_lt bs i h]
      simp only []
      by_cases hb : bs[i] = BSLASH
      · rw [if_pos hb]
        by_cases h1 : i + 1 ≥ bs.size
        · rw [if_pos h1]; intro hh; cases hh
        · rw [if_neg h1]
          try simp only []
          rw [idx_of_lt bs (i + 1) (by omega)]
          simp only []
          repeat' (first
            | exact ih _ _
            | exact absurd ‹_› (decodeUnicode_noPanic _ _)
            | (intro hh; cases hh; done)
            | split)
      · rw [if_neg hb]
        obtain ⟨j, hj, h1, h2⟩ := chunkEnd_spec bs (bs.size + 1) i (Nat.le_of_lt h)
        rw [hj]
        simp only []
        rw [slice_ok bs i j h1 h2]
        simp only []
        split
        · exact ih _ _
        · intro hh; cases hh
    · rw [if_neg h]; intro hh; cases hh

theorem decodeEscapes_noPanic (bs : Bytes) : decodeEscapes bs ≠ .panic := decodeLoop_noPanic bs _ _ _

theorem asStr_noPanic (t : Bytes) (s : Nat) (h : s < t.size) : asStr t s ≠ .panic := by
  obtain ⟨r, hr, h1, h2⟩ := findStringEnd_spec t s h
  unfold asStr
  rw [hr, bind_ok, slice_ok t (s + 1) r h1 h2, bind_ok]
  split
  · split <;> (intro hh; cases hh)
  · exact decodeEscapes_noPanic _

/-! ### cursor: `value()`, `text_range()`, `raw_bytes()` -/

theorem startsWith_len (t : Bytes) (pos : Nat) (lit : Bytes) (hp : pos ≤ t.size)
    (h : startsWith (t.extract pos t.size) lit = true) : pos + lit.size ≤ t.size := by
  unfold startsWith at h
  simp [Array.size_extract] at h
  omega

theorem valueKind_noPanic (t : Bytes) (pos : Nat) : valueKind t pos ≠ .panic := by
  unfold valueKind
  by_cases h : pos ≥ t.size
  · rw [if_pos h]; intro hh; cases hh
  · rw [if_neg h, idx_of_lt t pos (by omega), bind_ok]
    simp only [slice_ok t pos t.size (by omega) (Nat.le_refl _), bind_ok]
    repeat' (first
      | (intro hh; cases hh; done)
      | split)

theorem skipString_spec (t : Bytes) : ∀ fuel i, ∃ r, skipString t fuel i = .ok r ∧ i ≤ r := by
  intro fuel
  induction fuel with
  | zero => intro i; exact ⟨i, rfl, Nat.le_refl _⟩
  | succ f ih =>
    intro i
    unfold skipString
    by_cases h : i < t.size
    · simp only [h, if_true, idx_of_lt t i h]
      by_cases hq : t[i] = QUOTE
      · simp only [hq, if_true]; exact ⟨i + 1, rfl, by omega⟩
      · simp only [hq, if_false]
        by_cases hb : t[i] = BSLASH
        · simp only [hb, if_true]
          obtain ⟨r, hr, h1⟩ := ih (i + 2); exact ⟨r, hr, by omega⟩
        · simp only [hb, if_false]
          obtain ⟨r, hr, h1⟩ := ih (i + 1); exact ⟨r, hr, by omega⟩
    · simp only [h, if_false]; exact ⟨i, rfl, Nat.le_refl _⟩

/-- Container scan of `text_range`: never panics while the `u32` depth counter cannot overflow
(`depth + remaining bytes < 2^32`) and `depth ≥ 1`; a returned range lies inside the text. -/
theorem containerLoop_spec (t : Bytes) (start : Nat) (o c : UInt8) : ∀ fuel i depth,
    start ≤ i → 1 ≤ depth → depth + (t.size - i) < 4294967296 →
    ∃ r, containerLoop t start o c fuel i depth = .ok r ∧ ∀ a b, r = some (a, b) → a ≤ b ∧ b ≤ t.size := by
  intro fuel
  induction fuel with
  | zero => intro i d _ _ _; exact ⟨none, rfl, by intro a b hh; cases hh⟩
  | succ f ih =>
    intro i d hi hd hov
    unfold containerLoop
    by_cases h : i < t.size
    · rw [if_pos h, idx_of_lt t i h]
      simp only []
      by_cases hq : t[i] = QUOTE
      · rw [if_pos hq]
        obtain ⟨j, hj, hij⟩ := skipString_spec t (t.size + 1) (i + 1)
        rw [hj]
        simp only []
        exact ih j d (by omega) hd (by omega)
      · rw [if_neg hq]
        by_cases ho : t[i] = o
        · rw [if_pos ho, cadd_ok U32 d 1 (by unfold U32; omega)]
          simp only []
          exact ih (i + 1) (d + 1) (by omega) (by omega) (by omega)
        · rw [if_neg ho]
          by_cases hc : t[i] = c
          · rw [if_pos hc, csub_ok d 1 hd]
            simp only []
            by_cases hz : d - 1 = 0
            · rw [if_pos hz]
              refine ⟨_, rfl, ?_⟩
              intro a b hh
              injection hh with hh
              injection hh with ha hb
              omega
            · rw [if_neg hz]
              exact ih (i + 1) (d - 1) (by omega) (by omega) (by omega)
          · rw [if_neg hc]
            exact ih (i + 1) d (by omega) hd (by omega)
    · rw [if_neg h]; exact ⟨none, rfl, by intro a b hh; cases hh⟩

theorem stringRangeLoop_spec (t : Bytes) (start : Nat) (hs : start ≤ t.size) : ∀ fuel i, start ≤ i →
    ∃ r, stringRangeLoop t start fuel i = .ok r ∧ ∀ a b, r = some (a, b) → a ≤ b ∧ b ≤ t.size := by
  intro fuel
  induction fuel with
  | zero =>
    intro i _
    refine ⟨_, rfl, ?_⟩
    intro a b hh; injection hh with hh; injection hh with ha hb; omega
  | succ f ih =>
    intro i hi
    unfold stringRangeLoop
    by_cases h : i < t.size
    · simp only [h, if_true, idx_of_lt t i h]
      by_cases hq : t[i] = QUOTE
      · simp only [hq, if_true]
        refine ⟨_, rfl, ?_⟩
        intro a b hh; injection hh with hh; injection hh with ha hb; omega
      · simp only [hq, if_false]
        by_cases hb : t[i] = BSLASH
        · simp only [hb, if_true]; exact ih (i + 2) (by omega)
        · simp only [hb, if_false]; exact ih (i + 1) (by omega)
    · simp only [h, if_false]
      refine ⟨_, rfl, ?_⟩
      intro a b hh; injection hh with hh; injection hh with ha hb; omega

theorem LIT_TRUE_size : LIT_TRUE.size = 4 := rfl
theorem LIT_FALSE_size : LIT_FALSE.size = 5 := rfl
theorem LIT_NULL_size : LIT_NULL.size = 4 := rfl

/-- `text_range`: never panics for a text shorter than 2^32 bytes (the `u32` depth counter); every
range it returns satisfies `a ≤ b ≤ len`, which is what `raw_bytes` slices with. -/
theorem textRange_spec (t : Bytes) (s : Nat) (hlen : t.size < 4294967296) :
    ∃ r, textRange t s = .ok r ∧ ∀ a b, r = some (a, b) → a ≤ b ∧ b ≤ t.size := by
  unfold textRange
  by_cases h : s ≥ t.size
  · rw [if_pos h]; exact ⟨none, rfl, by intro a b hh; cases hh⟩
  · have hs : s < t.size := by omega
    rw [if_neg h, idx_of_lt t s hs, bind_ok]
    by_cases hc : t[s] = 123 ∨ t[s] = 91
    · rw [if_pos hc]
      exact containerLoop_spec t s _ _ _ _ _ (by omega) (by omega) (by omega)
    · rw [if_neg hc]
      by_cases hq : t[s] = QUOTE
      · rw [if_pos hq]; exact stringRangeLoop_spec t s (by omega) _ _ (by omega)
      · rw [if_neg hq]
        simp only [slice_ok t s t.size (by omega) (Nat.le_refl _), bind_ok]
        by_cases h1 : t[s] = 116
        · rw [if_pos h1]
          by_cases hw : startsWith (t.extract s t.size) LIT_TRUE = true
          · rw [if_pos hw]
            have := startsWith_len t s LIT_TRUE (by omega) hw
            rw [LIT_TRUE_size] at this
            refine ⟨_, rfl, ?_⟩
            intro a b hh; injection hh with hh; injection hh with ha hb; omega
          · rw [if_neg hw]; exact ⟨none, rfl, by intro a b hh; cases hh⟩
        · rw [if_neg h1]
          by_cases h2 : t[s] = 102
          · rw [if_pos h2]
            by_cases hw : startsWith (t.extract s t.size) LIT_FALSE = true
            · rw [if_pos hw]
              have := startsWith_len t s LIT_FALSE (by omega) hw
              rw [LIT_FALSE_size] at this
              refine ⟨_, rfl, ?_⟩
              intro a b hh; injection hh with hh; injection hh with ha hb; omega
            · rw [if_neg hw]; exact ⟨none, rfl, by intro a b hh; cases hh⟩
          · rw [if_neg h2]
            by_cases h3 : t[s] = 110
            · rw [if_pos h3]
              by_cases hw : startsWith (t.extract s t.size) LIT_NULL = true
              · rw [if_pos hw]
                have := startsWith_len t s LIT_NULL (by omega) hw
                rw [LIT_NULL_size] at this
                refine ⟨_, rfl, ?_⟩
                intro a b hh; injection hh with hh; injection hh with ha hb; omega
              · rw [if_neg hw]; exact ⟨none, rfl, by intro a b hh; cases hh⟩
            · rw [if_neg h3]
              by_cases h4 : isNumStart t[s] = true
              · rw [if_pos h4]
                obtain ⟨r, hr, hr1, hr2⟩ := nestedNumberSpan_spec t s hs
                rw [hr, bind_ok]
                refine ⟨_, rfl, ?_⟩
                intro a b hh; injection hh with hh; injection hh with ha hb; omega
              · rw [if_neg h4]; exact ⟨none, rfl, by intro a b hh; cases hh⟩

theorem cursorRawBytes_ok (t : Bytes) (s : Nat) (hlen : t.size < 4294967296) :
    ∃ r, cursorRawBytes t s = .ok r := by
  obtain ⟨r, hr, hb⟩ := textRange_spec t s hlen
  unfold cursorRawBytes
  rw [hr, bind_ok]
  match r, hb with
  | none, _ => exact ⟨none, rfl⟩
  | some (a, b), hb =>
    obtain ⟨h1, h2⟩ := hb a b rfl
    simp only []
    rw [slice_ok t a b h1 h2, bind_ok]
    exact ⟨_, rfl⟩

/-! ### DSV field slicing -/

/-- In a strictly increasing marker list the marker selected by `select1 (rank1 pos)` is the first
marker at or after `pos`. -/
theorem select_rank_ge : ∀ (ms : List Nat) (pos m : Nat), ms.Pairwise (· < ·) →
    select1 ms (rank1 ms pos) = some m → pos ≤ m := by
  intro ms
  induction ms with
  | nil => intro pos m _ h; simp [select1] at h
  | cons x xs ih =>
    intro pos m hp h
    have hp' := List.pairwise_cons.mp hp
    unfold rank1 select1 at h
    by_cases hx : x < pos
    · simp [List.filter, hx] at h
      exact ih pos m hp'.2 (by simpa [rank1, select1] using h)
    · -- no later marker is below pos either, so the rank is 0 and the selected marker is x
      have hall : ∀ y ∈ xs, ¬ y < pos := by
        intro y hy; have := hp'.1 y hy; omega
      have hf : xs.filter (· < pos) = [] := by
        apply List.filter_eq_nil_iff.mpr
        intro y hy; simpa using hall y hy
      simp [List.filter, hx, hf] at h
      omega

/-- `current_field` never panics when the index is well-formed: marker positions strictly increasing
and inside the text. -/
theorem currentField_ok (t : Bytes) (ms : List Nat) (pos : Nat) (hs : ms.Pairwise (· < ·))
    (hin : ∀ m ∈ ms, m < t.size) : ∃ b, currentField t ms pos = .ok b := by
  unfold currentField
  by_cases h : pos ≥ t.size
  · rw [if_pos h]; exact ⟨_, rfl⟩
  · rw [if_neg h]
    simp only []
    cases hsel : select1 ms (rank1 ms pos) with
    | none =>
      simp only [Option.getD]
      rw [slice_ok t pos t.size (by omega) (Nat.le_refl _)]; exact ⟨_, rfl⟩
    | some m =>
      simp only [Option.getD]
      have h1 := select_rank_ge ms pos m hs hsel
      have h2 : m < t.size := hin m (by unfold select1 at hsel; exact List.mem_of_getElem? hsel)
      rw [slice_ok t pos m h1 (by omega)]; exact ⟨_, rfl⟩

end SV.JsonTotal
