/-
Proof/JsonPdaInv — the invariant `WF` of the reference automaton (Spec/JsonPda) is preserved by
every transition, the constructive completion `complete` of a well-formed state is accepted, and
`lvp` is the longest surviving prefix.
-/
import SuccinctlyVerif.Proof.JsonPdaWF
namespace SV.Json.Pda.Inv
open SV.Json

/-! ## (3) `lvp` is the longest surviving prefix -/

theorem lvpFrom_shift (max : Nat) : ∀ (b : Bytes) (s : PState) (n : Nat),
    lvpFrom max s b n = ((lvpFrom max s b 0).1 + n, (lvpFrom max s b 0).2) := by
  intro b
  induction b with
  | nil => intro s n; simp [lvpFrom]
  | cons x r ih =>
    intro s n
    simp only [lvpFrom]
    cases step max s x with
    | none => simp
    | some s' =>
      simp only
      rw [ih s' (n + 1), ih s' (0 + 1)]
      simp; omega

theorem lvpFrom_spec (max : Nat) : ∀ (b : Bytes) (s : PState),
    (lvpFrom max s b 0).1 ≤ b.length ∧
    runFrom max s (b.take (lvpFrom max s b 0).1) = some (lvpFrom max s b 0).2 ∧
    ∀ m, (lvpFrom max s b 0).1 < m → m ≤ b.length → runFrom max s (b.take m) = none := by
  intro b
  induction b with
  | nil => intro s; simp [lvpFrom, runFrom]; intro m h1 h2; omega
  | cons x r ih =>
    intro s
    simp only [lvpFrom]
    cases hs : step max s x with
    | none =>
      simp only [List.take_zero, runFrom, List.length_cons, Nat.zero_le, true_and]
      intro m h1 h2
      obtain ⟨m', rfl⟩ : ∃ m', m = m' + 1 := ⟨m - 1, by omega⟩
      simp [runFrom, hs]
    | some s' =>
      simp only
      rw [lvpFrom_shift max r s' (0 + 1)]
      obtain ⟨h1, h2, h3⟩ := ih s'
      refine ⟨by simp; omega, ?_, ?_⟩
      · simp [runFrom, hs, h2]
      · intro m hm1 hm2
        obtain ⟨m', rfl⟩ : ∃ m', m = m' + 1 := ⟨m - 1, by simp at hm1; omega⟩
        simp only [List.take_succ_cons, runFrom, hs]
        apply h3 m'
        · simp at hm1; omega
        · simp at hm2; omega

/-- (3) `lvp` really is the longest surviving prefix -/
theorem lvp_le (max : Nat) (b : Bytes) : lvp max b ≤ b.length :=
  (lvpFrom_spec max b init).1

theorem lvpState_eq (max : Nat) (b : Bytes) :
    runFrom max init (b.take (lvp max b)) = some (lvpState max b) :=
  (lvpFrom_spec max b init).2.1

theorem lvp_viable (max : Nat) (b : Bytes) : viableB max (b.take (lvp max b)) = true := by
  simp [viableB, lvpState_eq]

theorem lvp_maximal (max : Nat) (b : Bytes) (n : Nat) (h1 : lvp max b < n) (h2 : n ≤ b.length) :
    viableB max (b.take n) = false := by
  have := (lvpFrom_spec max b init).2.2 n h1 h2
  simp [viableB, this]

/-! ## (1) the invariant is preserved -/

theorem hexVal_lt (b : Byte) : hexVal b < 16 := by
  unfold hexVal isDigit isLowerHex isUpperHex
  split
  · rename_i h; simp at h; bv_omega
  · split
    · rename_i h; simp at h; bv_omega
    · split
      · rename_i h; simp at h; bv_omega
      · omega

theorem startValue_WF (max : Nat) (stk : List Bool) (b : Byte) (s' : PState)
    (hl : stk.length ≤ max) (h : startValue max stk b = some s') : WF max s' := by
  unfold startValue at h
  repeat' split at h
  all_goals (cases h <;> refine ⟨by simp at *; omega, ?_⟩ <;> simp [LexWF, KeyOK, kwTails])

theorem afterStep_WF (max : Nat) (stk : List Bool) (b : Byte) (s' : PState)
    (hl : stk.length ≤ max) (h : afterStep stk b = some s') : WF max s' := by
  unfold afterStep at h
  repeat' split at h
  all_goals (cases h <;> refine ⟨by simp at *; omega, ?_⟩ <;> simp [LexWF])

/-- (1) the invariant is preserved by every transition -/
theorem step_preserves_WF (max : Nat) : StepPreservesWF max := by
  intro s s' b hwf hstep
  obtain ⟨lex, stk⟩ := s
  obtain ⟨hl, hx⟩ := hwf
  simp only at hl hx
  have htail : stk.tail.length ≤ max := by simp; omega
  cases lex with
  | top =>
    simp only [step] at hstep
    split at hstep
    · cases hstep; exact ⟨hl, hx⟩
    · exact startValue_WF max stk b s' hl hstep
  | after => exact afterStep_WF max stk b s' hl hstep
  | arrStart =>
    simp only [step] at hstep
    split at hstep
    · cases hstep; exact ⟨hl, hx⟩
    · split at hstep
      · cases hstep; exact ⟨htail, trivial⟩
      · exact startValue_WF max stk b s' hl hstep
  | arrNext =>
    simp only [step] at hstep
    split at hstep
    · cases hstep; exact ⟨hl, hx⟩
    · exact startValue_WF max stk b s' hl hstep
  | objStart =>
    simp only [step] at hstep
    split at hstep
    · cases hstep; exact ⟨hl, hx⟩
    · split at hstep
      · cases hstep; exact ⟨htail, trivial⟩
      · split at hstep
        · cases hstep; exact ⟨hl, fun _ => hx⟩
        · cases hstep
  | objKey =>
    simp only [step] at hstep
    split at hstep
    · cases hstep; exact ⟨hl, hx⟩
    · split at hstep
      · cases hstep; exact ⟨hl, fun _ => hx⟩
      · cases hstep
  | objColon =>
    simp only [step] at hstep
    split at hstep
    · cases hstep; exact ⟨hl, hx⟩
    · split at hstep
      · cases hstep; exact ⟨hl, hx⟩
      · cases hstep
  | objVal =>
    simp only [step] at hstep
    split at hstep
    · cases hstep; exact ⟨hl, hx⟩
    · exact startValue_WF max stk b s' hl hstep
  | str k =>
    simp only [step] at hstep
    have hk : KeyOK k stk := hx
    split at hstep
    · cases hstep
      cases k
      · exact ⟨hl, trivial⟩
      · exact ⟨hl, hk rfl⟩
    repeat' split at hstep
    all_goals (cases hstep <;> refine ⟨hl, ?_⟩)
    all_goals first
      | exact hk
      | exact ⟨hk, by decide⟩
  | esc k =>
    simp only [step] at hstep
    have hk : KeyOK k stk := hx
    repeat' split at hstep
    all_goals (cases hstep <;> refine ⟨hl, ?_⟩)
    · exact hk
    · exact ⟨hk, by omega, by omega, by omega⟩
  | uni k n v =>
    simp only [step] at hstep
    obtain ⟨hk, hn, hv, hc⟩ := hx
    have hh := hexVal_lt b
    repeat' split at hstep
    all_goals (cases hstep <;> refine ⟨hl, ?_⟩)
    · exact hk
    · exact hk
    · rename_i h1 h2 h3
      refine ⟨hk, by omega, ?_, ?_⟩
      · rw [Nat.pow_succ]; omega
      · intro h2n
        have : n = 1 ∨ n = 2 := by omega
        rcases this with rfl | rfl
        · simpa using h2
        · have := hc (by omega)
          simp at this ⊢
          have e : (v * 16 + hexVal b) / 16 = v := by omega
          rw [e]; exact this
  | hiDone k =>
    simp only [step] at hstep
    split at hstep
    · cases hstep; exact ⟨hl, hx⟩
    · cases hstep
  | hiBs k =>
    simp only [step] at hstep
    split at hstep
    · cases hstep; exact ⟨hl, hx, by omega⟩
    · cases hstep
  | lo k n =>
    simp only [step] at hstep
    repeat' split at hstep
    all_goals (cases hstep <;> refine ⟨hl, ?_⟩)
    all_goals first
      | exact ⟨hx.1, by omega⟩
      | exact hx.1
  | utf8 k n lo hi =>
    simp only [step] at hstep
    obtain ⟨hk, h1, h3, _, _, _⟩ := hx
    repeat' split at hstep
    all_goals (cases hstep <;> refine ⟨hl, ?_⟩)
    · exact hk
    · exact ⟨hk, by omega, by omega, by decide⟩
  | minus =>
    simp only [step] at hstep
    repeat' split at hstep
    all_goals (cases hstep <;> exact ⟨hl, trivial⟩)
  | zero =>
    simp only [step] at hstep
    split at hstep
    · cases hstep; exact ⟨hl, trivial⟩
    · split at hstep
      · cases hstep; exact ⟨hl, trivial⟩
      · exact afterStep_WF max stk b s' hl hstep
  | int =>
    simp only [step] at hstep
    split at hstep
    · cases hstep; exact ⟨hl, trivial⟩
    · split at hstep
      · cases hstep; exact ⟨hl, trivial⟩
      · split at hstep
        · cases hstep; exact ⟨hl, trivial⟩
        · exact afterStep_WF max stk b s' hl hstep
  | dot =>
    simp only [step] at hstep
    repeat' split at hstep
    all_goals (cases hstep <;> exact ⟨hl, trivial⟩)
  | frac =>
    simp only [step] at hstep
    split at hstep
    · cases hstep; exact ⟨hl, trivial⟩
    · split at hstep
      · cases hstep; exact ⟨hl, trivial⟩
      · exact afterStep_WF max stk b s' hl hstep
  | e =>
    simp only [step] at hstep
    repeat' split at hstep
    all_goals (cases hstep <;> exact ⟨hl, trivial⟩)
  | esign =>
    simp only [step] at hstep
    repeat' split at hstep
    all_goals (cases hstep <;> exact ⟨hl, trivial⟩)
  | exp =>
    simp only [step] at hstep
    split at hstep
    · cases hstep; exact ⟨hl, trivial⟩
    · exact afterStep_WF max stk b s' hl hstep
  | kw r =>
    simp only [step] at hstep
    have hr : r ∈ kwTails := hx
    split at hstep
    · exact afterStep_WF max stk b s' hl hstep
    · rename_i c r'
      split at hstep
      · split at hstep
        · cases hstep; exact ⟨hl, trivial⟩
        · cases hstep
          refine ⟨hl, ?_⟩
          rename_i hne
          simp only [kwTails, List.mem_cons, List.cons.injEq, List.not_mem_nil, or_false] at hr
          show r' ∈ kwTails
          rcases hr with h | h | h | h | h | h | h | h | h <;> obtain ⟨_, rfl⟩ := h <;>
            first | (exact absurd rfl hne) | simp [kwTails]
      · cases hstep

/-- (1') hence holds along every run -/
theorem runFrom_WF (max : Nat) : ∀ (p : Bytes) (s s' : PState),
    WF max s → runFrom max s p = some s' → WF max s' := by
  intro p
  induction p with
  | nil => intro s s' h hr; simp only [runFrom] at hr; cases hr; exact h
  | cons x r ih =>
    intro s s' h hr
    simp only [runFrom] at hr
    cases hs : step max s x with
    | none => rw [hs] at hr; cases hr
    | some s1 =>
      rw [hs] at hr
      exact ih s1 s' (step_preserves_WF max s s1 x h hs) hr

/-! ## (2) the constructive completion is accepted -/

/-- lexical positions "after a complete value" (possibly an unterminated number) -/
def EndLex (l : Lex) : Prop := l = .after ∨ l = .zero ∨ l = .int ∨ l = .frac ∨ l = .exp

theorem run_closers_after (max : Nat) : ∀ stk : List Bool,
    runFrom max ⟨.after, stk⟩ (closers stk) = some ⟨.after, []⟩ := by
  intro stk
  induction stk with
  | nil => simp [closers, runFrom]
  | cons a t ih =>
    cases a
    · simp [closers, runFrom, step, afterStep, isWs, ih]
    · simp [closers, runFrom, step, afterStep, isWs, ih]

theorem run_closers_end (max : Nat) (l : Lex) (hl : EndLex l) (stk : List Bool) :
    ∃ fin, runFrom max ⟨l, stk⟩ (closers stk) = some fin ∧ accepting fin = true := by
  cases stk with
  | nil =>
    refine ⟨⟨l, []⟩, by simp [closers, runFrom], ?_⟩
    rcases hl with rfl | rfl | rfl | rfl | rfl <;> simp [accepting]
  | cons a t =>
    refine ⟨⟨.after, []⟩, ?_, by simp [accepting]⟩
    have := run_closers_after max t
    cases a <;> rcases hl with rfl | rfl | rfl | rfl | rfl <;>
      simp [closers, runFrom, step, afterStep, isWs, isE, isDigit, this]

theorem finish (max : Nat) (s : PState) (pre : Bytes) (el : Lex) (stk : List Bool)
    (h : runFrom max s pre = some ⟨el, stk⟩) (he : EndLex el) :
    ∃ fin, runFrom max s (pre ++ closers stk) = some fin ∧ accepting fin = true := by
  obtain ⟨fin, h1, h2⟩ := run_closers_end max el he stk
  exact ⟨fin, by rw [runFrom_append, h]; simpa using h1, h2⟩

theorem run_strClose (max : Nat) (k : Bool) (stk : List Bool) :
    ∃ el, EndLex el ∧ runFrom max ⟨.str k, stk⟩ (strClose k) = some ⟨el, stk⟩ := by
  cases k
  · exact ⟨.after, by simp [EndLex], by simp [strClose, runFrom, step, strEnd]⟩
  · exact ⟨.zero, by simp [EndLex],
      by simp [strClose, runFrom, step, strEnd, isWs, startValue]⟩

/-- a prefix leading back to the plain string state, then `strClose`, then the closers -/
theorem finish_str (max : Nat) (s : PState) (pre : Bytes) (k : Bool) (stk : List Bool)
    (h : runFrom max s pre = some ⟨.str k, stk⟩) :
    ∃ fin, runFrom max s (pre ++ strClose k ++ closers stk) = some fin ∧ accepting fin = true := by
  obtain ⟨el, he, hr⟩ := run_strClose max k stk
  apply finish max s (pre ++ strClose k) el stk _ he
  rw [runFrom_append, h]; simpa using hr

theorem isHex30 : isHex 48#8 = true := by decide
theorem hexVal30 : hexVal 48#8 = 0 := by decide
theorem isHex43 : isHex 67#8 = true := by decide
theorem hexVal43 : hexVal 67#8 = 12 := by decide

theorem step_uni_zero (max : Nat) (k : Bool) (n v : Nat) (stk : List Bool) (hn : n < 3) :
    step max ⟨.uni k n v, stk⟩ 48#8 = some ⟨.uni k (n + 1) (v * 16), stk⟩ := by
  have h1 : ¬ (n = 1 ∧ 220 ≤ v * 16 ∧ v * 16 ≤ 223) := by omega
  have h2 : ¬ (n ≥ 3) := by omega
  simp [step, isHex30, hexVal30, h1, h2]

theorem step_uni_zero3 (max : Nat) (k : Bool) (v : Nat) (stk : List Bool) :
    step max ⟨.uni k 3 v, stk⟩ 48#8 =
      some (if isHighSurr (v * 16) then ⟨.hiDone k, stk⟩ else ⟨.str k, stk⟩) := by
  simp [step, isHex30, hexVal30]
  split <;> rfl

theorem run_uni_pad (max : Nat) (k : Bool) (n v : Nat) (stk : List Bool) (hn : n ≤ 3) :
    runFrom max ⟨.uni k n v, stk⟩ (List.replicate (4 - n) 0x30) =
      some (if isHighSurr (v * 16 ^ (4 - n)) then ⟨.hiDone k, stk⟩ else ⟨.str k, stk⟩) := by
  have : n = 0 ∨ n = 1 ∨ n = 2 ∨ n = 3 := by omega
  rcases this with rfl | rfl | rfl | rfl
  · simp [List.replicate, runFrom, step_uni_zero, step_uni_zero3]
    rw [show v * 16 * 16 * 16 * 16 = v * 65536 by omega]
  · simp [List.replicate, runFrom, step_uni_zero, step_uni_zero3]
    rw [show v * 16 * 16 * 16 = v * 4096 by omega]
  · simp [List.replicate, runFrom, step_uni_zero, step_uni_zero3]
    rw [show v * 16 * 16 = v * 256 by omega]
  · simp [runFrom, step_uni_zero3]

theorem run_loRest (max : Nat) (k : Bool) (stk : List Bool) :
    runFrom max ⟨.hiDone k, stk⟩ loRest = some ⟨.str k, stk⟩ := by
  simp [loRest, runFrom, step, isHex30, isHex43, hexVal43]

theorem run_uni (max : Nat) (k : Bool) (n v : Nat) (stk : List Bool) (hn : n ≤ 3) :
    runFrom max ⟨.uni k n v, stk⟩
      (List.replicate (4 - n) 0x30 ++ (if isHighSurr (v * 16 ^ (4 - n)) then loRest else [])) =
      some ⟨.str k, stk⟩ := by
  rw [runFrom_append, run_uni_pad max k n v stk hn]
  split
  · simpa using run_loRest max k stk
  · simp [runFrom]

theorem run_lo (max : Nat) (k : Bool) (n : Nat) (stk : List Bool) (hn : n ≤ 3) :
    runFrom max ⟨.lo k n, stk⟩ (loRest.drop (2 + n)) = some ⟨.str k, stk⟩ := by
  have : n = 0 ∨ n = 1 ∨ n = 2 ∨ n = 3 := by omega
  rcases this with rfl | rfl | rfl | rfl <;>
    simp [loRest, runFrom, step, isHex30, isHex43, hexVal43]

theorem run_utf8 (max : Nat) (k : Bool) (n : Nat) (lo hi : Byte) (stk : List Bool)
    (h1 : 1 ≤ n) (h3 : n ≤ 3) (hlo : lo ≤ hi) :
    runFrom max ⟨.utf8 k n lo hi, stk⟩ (lo :: List.replicate (n - 1) 0x80) =
      some ⟨.str k, stk⟩ := by
  have : n = 1 ∨ n = 2 ∨ n = 3 := by omega
  rcases this with rfl | rfl | rfl <;>
    simp [List.replicate, runFrom, step, hlo]

theorem run_kw (max : Nat) (r : Bytes) (stk : List Bool) (hr : r ∈ kwTails) :
    runFrom max ⟨.kw r, stk⟩ r = some ⟨.after, stk⟩ := by
  simp only [kwTails, List.mem_cons, List.not_mem_nil, or_false] at hr
  rcases hr with rfl | rfl | rfl | rfl | rfl | rfl | rfl | rfl | rfl <;>
    simp [runFrom, step]

/-- (2) the constructive completion of a well-formed state is accepted -/
theorem complete_accepted (max : Nat) (s : PState) (h : WF max s) :
    ∃ fin, runFrom max s (complete s) = some fin ∧ accepting fin = true := by
  obtain ⟨lex, stk⟩ := s
  obtain ⟨_, hx⟩ := h
  simp only at hx
  cases lex with
  | top =>
    exact finish max ⟨.top, stk⟩ [0x30] .zero stk (by simp [runFrom, step, isWs, startValue])
      (by simp [EndLex])
  | after => exact finish max ⟨.after, stk⟩ [] .after stk (by simp [runFrom]) (by simp [EndLex])
  | arrStart =>
    obtain ⟨t, rfl⟩ := hx
    exact finish max ⟨.arrStart, true :: t⟩ [0x5D] .after t (by simp [runFrom, step, isWs])
      (by simp [EndLex])
  | arrNext =>
    exact finish max ⟨.arrNext, stk⟩ [0x30] .zero stk (by simp [runFrom, step, isWs, startValue])
      (by simp [EndLex])
  | objStart =>
    obtain ⟨t, rfl⟩ := hx
    exact finish max ⟨.objStart, false :: t⟩ [0x7D] .after t (by simp [runFrom, step, isWs])
      (by simp [EndLex])
  | objKey =>
    exact finish max ⟨.objKey, stk⟩ [0x22, 0x22, 0x3A, 0x30] .zero stk
      (by simp [runFrom, step, isWs, startValue, strEnd]) (by simp [EndLex])
  | objColon =>
    exact finish max ⟨.objColon, stk⟩ [0x3A, 0x30] .zero stk
      (by simp [runFrom, step, isWs, startValue]) (by simp [EndLex])
  | objVal =>
    exact finish max ⟨.objVal, stk⟩ [0x30] .zero stk (by simp [runFrom, step, isWs, startValue])
      (by simp [EndLex])
  | str k => exact finish_str max ⟨.str k, stk⟩ [] k stk (by simp [runFrom])
  | esc k =>
    exact finish_str max ⟨.esc k, stk⟩ [0x6E] k stk (by simp [runFrom, step, isSimpleEsc])
  | uni k n v =>
    obtain ⟨_, hn, _, _⟩ := hx
    exact finish_str max ⟨.uni k n v, stk⟩ _ k stk (run_uni max k n v stk hn)
  | hiDone k => exact finish_str max ⟨.hiDone k, stk⟩ loRest k stk (run_loRest max k stk)
  | hiBs k =>
    exact finish_str max ⟨.hiBs k, stk⟩ (loRest.drop 1) k stk
      (by simp [loRest, runFrom, step, isHex30, isHex43, hexVal43])
  | lo k n =>
    exact finish_str max ⟨.lo k n, stk⟩ (loRest.drop (2 + n)) k stk (run_lo max k n stk hx.2)
  | utf8 k n lo hi =>
    obtain ⟨_, h1, h3, _, hlo, _⟩ := hx
    have := finish_str max ⟨.utf8 k n lo hi, stk⟩ (lo :: List.replicate (n - 1) 0x80) k stk
      (run_utf8 max k n lo hi stk h1 h3 hlo)
    simpa [complete, completeLex] using this
  | minus =>
    exact finish max ⟨.minus, stk⟩ [0x30] .zero stk (by simp [runFrom, step]) (by simp [EndLex])
  | zero => exact finish max ⟨.zero, stk⟩ [] .zero stk (by simp [runFrom]) (by simp [EndLex])
  | int => exact finish max ⟨.int, stk⟩ [] .int stk (by simp [runFrom]) (by simp [EndLex])
  | dot =>
    exact finish max ⟨.dot, stk⟩ [0x30] .frac stk (by simp [runFrom, step, isDigit])
      (by simp [EndLex])
  | frac => exact finish max ⟨.frac, stk⟩ [] .frac stk (by simp [runFrom]) (by simp [EndLex])
  | e =>
    exact finish max ⟨.e, stk⟩ [0x30] .exp stk (by simp [runFrom, step, isDigit])
      (by simp [EndLex])
  | esign =>
    exact finish max ⟨.esign, stk⟩ [0x30] .exp stk (by simp [runFrom, step, isDigit])
      (by simp [EndLex])
  | exp => exact finish max ⟨.exp, stk⟩ [] .exp stk (by simp [runFrom]) (by simp [EndLex])
  | kw r => exact finish max ⟨.kw r, stk⟩ r .after stk (run_kw max r stk hx) (by simp [EndLex])

/-- (2') so every prefix the automaton survives extends to an accepted text -/
theorem viableB_extends (max : Nat) (p : Bytes) (h : viableB max p = true) :
    ∃ c, acceptB max (p ++ c) = true := by
  simp only [viableB, Option.isSome_iff_exists] at h
  obtain ⟨s, hs⟩ := h
  have hwf := runFrom_WF max p init s (WF_init max) hs
  obtain ⟨fin, h1, h2⟩ := complete_accepted max s hwf
  refine ⟨complete s, ?_⟩
  simp [acceptB, runFrom_append, hs, h1, h2]

/-- viability is prefix-closed -/
theorem viableB_prefix (max : Nat) (p q : Bytes) :
    viableB max (p ++ q) = true → viableB max p = true := by
  simp only [viableB, runFrom_append]
  cases runFrom max init p with
  | none => simp
  | some s => simp

end SV.Json.Pda.Inv
