/-
Proof/JqStream — `fromstream(tostream)` reproduces every duplicate-free value.

Structure of the proof.  `leafAct evs` is what the leaf events `[path, leaf]` of an event list do to
the accumulator of `fromstream` (closing events do nothing to it).
(L) `setpath h (p ++ q) y = updpath h p (setpath · q y)`;
(C) two updates at the same good path compose: `updpath · p f >=> updpath · p g = updpath · p (f >=> g)`
    — for *every* accumulator, no freshness condition;
(R) hence the events of `streamFrom pre v` act as `updpath · pre (leafAct (streamFrom [] v))`;
(B) `leafAct (streamFrom [] v) null = v` (arrays are appended to, fresh keys are inserted at the end);
(Q) below a non-empty prefix no event emits; the single top-level closing event emits the result.
-/
import SuccinctlyVerif.Proof.JqPaths
namespace SV.Jq
variable {N : Type} [NumOps N] [LawfulNum N]

/-! ### good keys and the composition law -/

inductive GoodKey : JV N → Prop
  | str (s : String) : GoodKey (.str s)
  | idx (i : Nat) : GoodKey (JV.ofNat i)

def GoodPath (p : List (JV N)) : Prop := ∀ k ∈ p, GoodKey k

theorem updpath_append (h : JV N) (p q : List (JV N)) (f : JV N → Except String (JV N)) :
    h.updpath (p ++ q) f = h.updpath p (fun w => w.updpath q f) := by
  induction p generalizing h with
  | nil => rfl
  | cons k p ih =>
    simp only [List.cons_append, JV.updpath]
    congr 1
    funext w
    exact ih w

theorem insert_insert (fs : List (String × JV N)) (k : String) (a b : JV N) :
    JV.insert (JV.insert fs k a) k b = JV.insert fs k b := by
  induction fs with
  | nil => simp [JV.insert]
  | cons f rest ih =>
    obtain ⟨k', v'⟩ := f
    simp only [JV.insert]
    split
    · rename_i hk; simp [JV.insert, hk]
    · rename_i hk; simp [JV.insert, hk, ih]

theorem lookup_insert_self (fs : List (String × JV N)) (k : String) (a : JV N) :
    JV.lookup (JV.insert fs k a) k = some a := by
  induction fs with
  | nil => simp [JV.insert, JV.lookup]
  | cons f rest ih =>
    obtain ⟨k', v'⟩ := f
    simp only [JV.insert]
    split
    · rename_i hk; simp [JV.lookup, hk]
    · rename_i hk; simp [JV.lookup, hk, ih]

theorem listSet_listSet {α} (xs : List α) (i : Nat) (a b pad : α) :
    listSet (listSet xs i a pad) i b pad = listSet xs i b pad := by
  induction xs generalizing i with
  | nil =>
    induction i with
    | zero => simp [listSet]
    | succ i ih => simp [listSet, ih]
  | cons x xs ih =>
    cases i with
    | zero => simp [listSet]
    | succ i => simp [listSet, ih]

theorem listSet_getD {α} (xs : List α) (i : Nat) (a pad : α) :
    (listSet xs i a pad).getD i pad = a := by
  induction xs generalizing i with
  | nil =>
    induction i with
    | zero => simp [listSet]
    | succ i ih => simpa [listSet] using ih
  | cons x xs ih =>
    cases i with
    | zero => simp [listSet]
    | succ i => simpa [listSet] using ih i

theorem listSet_get?_self {α} (xs : List α) (i : Nat) (a pad : α) : (listSet xs i a pad)[i]? = some a := by
  induction xs generalizing i with
  | nil =>
    induction i with
    | zero => simp [listSet]
    | succ i ih => simpa [listSet] using ih
  | cons x xs ih =>
    cases i with
    | zero => simp [listSet]
    | succ i => simpa [listSet] using ih i

theorem listSet_length_ge {α} (xs : List α) (i : Nat) (a pad : α) : i < (listSet xs i a pad).length := by
  induction xs generalizing i with
  | nil =>
    induction i with
    | zero => simp [listSet]
    | succ i ih => simp [listSet]; omega
  | cons x xs ih =>
    cases i with
    | zero => simp [listSet]
    | succ i => simp [listSet]; exact ih i

theorem updStep_null_key (s : String) (f : JV N → Except String (JV N)) :
    (JV.null : JV N).updStep (.str s) f = (f .null).bind fun w => .ok (.obj [(s, w)]) := by
  simp [JV.updStep, bind, Except.bind]

theorem updStep_arr_idx (xs : List (JV N)) (i : Nat) (f : JV N → Except String (JV N)) :
    (JV.arr xs).updStep (JV.ofNat i) f =
      if i > xs.length + 100000 then .error "UNMODELLED huge index"
      else (f (xs.getD i .null)).bind fun w => .ok (.arr (listSet xs i w .null)) := by
  simp [JV.updStep, JV.ofNat, idxOf_ofNat, resolveIdx_ofNat, bind, Except.bind]

theorem updStep_null_idx (i : Nat) (f : JV N → Except String (JV N)) :
    (JV.null : JV N).updStep (JV.ofNat i) f = (JV.arr []).updStep (JV.ofNat i) f := by
  simp [JV.updStep, JV.ofNat, idxOf_ofNat, resolveIdx_ofNat, bind, Except.bind]

/-- two updates at the same good key compose, for every value -/
theorem updStep_compose (v k : JV N) (hk : GoodKey k) (f g : JV N → Except String (JV N)) :
    (v.updStep k f).bind (fun v' => v'.updStep k g) = v.updStep k (fun w => (f w).bind g) := by
  cases hk with
  | str s =>
    cases v with
    | null =>
      rw [updStep_null_key, updStep_null_key]
      cases hf : f .null with
      | error e => rfl
      | ok w =>
        simp only [Except.bind]
        rw [updStep_key]
        simp [JV.lookup, JV.insert, Except.bind]
    | obj fs =>
      rw [updStep_key, updStep_key]
      cases hf : f ((JV.lookup fs s).getD .null) with
      | error e => rfl
      | ok w =>
        simp only [Except.bind]
        rw [updStep_key]
        simp only [lookup_insert_self, insert_insert, Option.getD_some]
        cases g w <;> rfl
    | bool b => simp [JV.updStep, Except.bind]
    | num n => simp [JV.updStep, Except.bind]
    | str t => simp [JV.updStep, Except.bind]
    | arr xs => simp [JV.updStep, Except.bind]
  | idx i =>
    have key : ∀ xs : List (JV N),
        ((JV.arr xs).updStep (JV.ofNat i) f).bind (fun v' => v'.updStep (JV.ofNat i) g) =
          (JV.arr xs).updStep (JV.ofNat i) (fun w => (f w).bind g) := by
      intro xs
      rw [updStep_arr_idx, updStep_arr_idx]
      split
      · rfl
      · cases hf : f (xs.getD i .null) with
        | error e => rfl
        | ok w =>
          simp only [Except.bind]
          rw [updStep_arr_idx]
          have hlt := listSet_length_ge xs i w (.null : JV N)
          have hg2 : ¬ (i > (listSet xs i w (.null : JV N)).length + 100000) := by omega
          simp only [hg2, ↓reduceIte, List.getD_eq_getElem?_getD, listSet_get?_self, listSet_listSet, Option.getD_some]
          cases g w <;> rfl
    cases v with
    | arr xs => exact key xs
    | null =>
      rw [updStep_null_idx, updStep_null_idx]
      exact key []
    | bool b => simp [JV.updStep, JV.ofNat, Except.bind]
    | num n => simp [JV.updStep, JV.ofNat, Except.bind]
    | str t => simp [JV.updStep, JV.ofNat, Except.bind]
    | obj fs => simp [JV.updStep, JV.ofNat, Except.bind]

theorem updpath_compose (p : List (JV N)) (hp : GoodPath p) (v : JV N) (f g : JV N → Except String (JV N)) :
    (v.updpath p f).bind (fun v' => v'.updpath p g) = v.updpath p (fun w => (f w).bind g) := by
  induction p generalizing v f g with
  | nil => rfl
  | cons k p ih =>
    simp only [JV.updpath]
    rw [updStep_compose v k (hp k (by simp))]
    congr 1
    funext w
    exact ih (fun k' hk' => hp k' (by simp [hk'])) w f g


/-! ### what the leaf events do to the accumulator -/

/-- the accumulator after the `[path, leaf]` events of a list (closing events leave it alone) -/
def leafAct : List (JV N) → JV N → Except String (JV N)
  | [], h => .ok h
  | .arr [.arr p, leaf] :: rest, h => (h.setpath p leaf).bind (leafAct rest)
  | _ :: rest, h => leafAct rest h

theorem bind_ok {ε α} (e : Except ε α) : e.bind .ok = e := by cases e <;> rfl

theorem bind_assoc' {ε α β γ} (e : Except ε α) (f : α → Except ε β) (g : β → Except ε γ) :
    (e.bind f).bind g = e.bind (fun a => (f a).bind g) := by cases e <;> rfl

theorem leafAct_append (a b : List (JV N)) (h : JV N) :
    leafAct (a ++ b) h = (leafAct a h).bind (leafAct b) := by
  induction a generalizing h with
  | nil => rfl
  | cons ev rest ih =>
    -- by the shape of the event
    rcases ev with _ | _ | _ | _ | xs | _
    case arr =>
      rcases xs with _ | ⟨e1, _ | ⟨e2, _ | ⟨e3, tl⟩⟩⟩
      · simp [leafAct, ih]
      · rcases e1 with _ | _ | _ | _ | _ | _ <;> simp [leafAct, ih]
      · rcases e1 with _ | _ | _ | _ | p | _ <;> simp [leafAct, ih]
        · rw [bind_assoc']
          congr 1
          funext h'
          exact ih h'
      · rcases e1 with _ | _ | _ | _ | _ | _ <;> simp [leafAct, ih]
    all_goals simp [leafAct, ih]

theorem leafAct_closer (p : List (JV N)) (h : JV N) : leafAct [.arr [.arr p]] h = .ok h := by
  simp [leafAct]

theorem leafAct_leaf (p : List (JV N)) (leaf h : JV N) :
    leafAct [.arr [.arr p, leaf]] h = h.setpath p leaf := by
  simp [leafAct, bind_ok]

theorem goodPath_snoc {p : List (JV N)} (hp : GoodPath p) {k : JV N} (hk : GoodKey k) : GoodPath (p ++ [k]) := by
  intro x hx
  rcases List.mem_append.mp hx with h | h
  · exact hp x h
  · simp at h; subst h; exact hk

theorem leafAct_append_fun (a b : List (JV N)) :
    leafAct (a ++ b) = fun h => (leafAct a h).bind (leafAct b) := funext (leafAct_append a b)

theorem leafAct_closer_fun (p : List (JV N)) : leafAct [JV.arr [JV.arr p]] = Except.ok :=
  funext (leafAct_closer p)

theorem goodPath_single {k : JV N} (hk : GoodKey k) : GoodPath [k] := by
  intro x hx; simp at hx; subst hx; exact hk

/-- one child followed by the rest: the common step of (R) for arrays and objects -/
theorem child_then_rest (k : JV N) (hk : GoodKey k) (x : JV N) (pre : List (JV N)) (hp : GoodPath pre) (h : JV N)
    (Hx : ∀ pre h, GoodPath pre → leafAct (JV.streamFrom pre x) h = h.updpath pre (leafAct (JV.streamFrom [] x)))
    (restPre restNil : List (JV N))
    (Hrest : ∀ h', leafAct restPre h' = h'.updpath pre (leafAct restNil)) :
    leafAct (JV.streamFrom (pre ++ [k]) x ++ restPre) h =
      h.updpath pre (leafAct (JV.streamFrom ([] ++ [k]) x ++ restNil)) := by
  rw [leafAct_append, leafAct_append_fun]
  rw [Hx _ h (goodPath_snoc hp hk), updpath_append]
  rw [show leafAct restPre = fun h' => h'.updpath pre (leafAct restNil) from funext Hrest]
  rw [updpath_compose pre hp]
  congr 1
  funext w
  simp only [List.nil_append]
  rw [Hx [k] w (goodPath_single hk)]

/-- a closing event acts as the identity update -/
theorem closer_act (k : JV N) (x : JV N) (pre : List (JV N)) (hp : GoodPath pre) (hk : GoodKey k) (h : JV N)
    (Hx : ∀ pre h, GoodPath pre → leafAct (JV.streamFrom pre x) h = h.updpath pre (leafAct (JV.streamFrom [] x))) :
    leafAct (JV.streamFrom (pre ++ [k]) x ++ [JV.arr [JV.arr (pre ++ [k])]]) h =
      h.updpath pre (leafAct (JV.streamFrom ([] ++ [k]) x ++ [JV.arr [JV.arr ([] ++ [k])]])) := by
  rw [leafAct_append, leafAct_append_fun, leafAct_closer_fun, leafAct_closer_fun, bind_ok]
  rw [Hx _ h (goodPath_snoc hp hk), updpath_append]
  congr 1
  funext w
  simp only [List.nil_append, bind_ok]
  rw [Hx [k] w (goodPath_single hk)]

/-- (R) for the children of a non-empty array -/
theorem streamArr_act (rest : List (JV N)) : ∀ (x : JV N) (i : Nat) (pre : List (JV N)) (h : JV N),
    (∀ z ∈ x :: rest, ∀ pre h, GoodPath pre →
      leafAct (JV.streamFrom pre z) h = h.updpath pre (leafAct (JV.streamFrom [] z))) →
    GoodPath pre →
      leafAct (streamArr pre i (x :: rest)) h = h.updpath pre (leafAct (streamArr [] i (x :: rest))) := by
  induction rest with
  | nil =>
    intro x i pre h H hp
    simp only [streamArr]
    exact closer_act (JV.ofNat i) x pre hp (GoodKey.idx i) h (H x (by simp))
  | cons y rest' ih =>
    intro x i pre h H hp
    simp only [streamArr]
    exact child_then_rest (JV.ofNat i) (GoodKey.idx i) x pre hp h (H x (by simp)) _ _
      (fun h' => ih y (i + 1) pre h' (fun z hz => H z (by simp [hz])) hp)

/-- (R) for the fields of a non-empty object -/
theorem streamObj_act (rest : List (String × JV N)) : ∀ (f : String × JV N) (pre : List (JV N)) (h : JV N),
    (∀ z ∈ f :: rest, ∀ pre h, GoodPath pre →
      leafAct (JV.streamFrom pre z.2) h = h.updpath pre (leafAct (JV.streamFrom [] z.2))) →
    GoodPath pre →
      leafAct (streamObj pre (f :: rest)) h = h.updpath pre (leafAct (streamObj [] (f :: rest))) := by
  induction rest with
  | nil =>
    intro f pre h H hp
    obtain ⟨k, x⟩ := f
    simp only [streamObj]
    exact closer_act (.str k) x pre hp (GoodKey.str k) h (H (k, x) (by simp))
  | cons g rest' ih =>
    intro f pre h H hp
    obtain ⟨k, x⟩ := f
    simp only [streamObj]
    exact child_then_rest (.str k) (GoodKey.str k) x pre hp h (H (k, x) (by simp)) _ _
      (fun h' => ih g pre h' (fun z hz => H z (by simp [hz])) hp)

theorem setpath_eq_updpath_const (h : JV N) (p : List (JV N)) (v : JV N) :
    h.setpath p v = h.updpath p (fun w => w.setpath [] v) := by
  simp [JV.setpath, JV.updpath]

/-- **(R)** the events of `streamFrom pre v` act on the accumulator as an update at `pre` -/
theorem streamFrom_act (n : Nat) : ∀ (v : JV N), v.size ≤ n → ∀ pre h, GoodPath pre →
    leafAct (JV.streamFrom pre v) h = h.updpath pre (leafAct (JV.streamFrom [] v)) := by
  induction n with
  | zero => intro v hs; cases v <;> simp [JV.size] at hs <;> omega
  | succ n ih =>
    intro v hs pre h hp
    have leafCase : ∀ w : JV N, leafAct [.arr [.arr pre, w]] h = h.updpath pre (leafAct [.arr [.arr [], w]]) := by
      intro w
      rw [leafAct_leaf, setpath_eq_updpath_const]
      congr 1
    cases v with
    | null => simpa [JV.streamFrom] using leafCase .null
    | bool b => simpa [JV.streamFrom] using leafCase (.bool b)
    | num x => simpa [JV.streamFrom] using leafCase (.num x)
    | str s => simpa [JV.streamFrom] using leafCase (.str s)
    | arr xs =>
      cases xs with
      | nil => simpa [JV.streamFrom] using leafCase (.arr [])
      | cons x rest =>
        simp only [JV.streamFrom]
        simp only [JV.size] at hs
        exact streamArr_act rest x 0 pre h
          (fun z hz pre' h' hp' => ih z (by have := mem_sizeL hz; omega) pre' h' hp') hp
    | obj fs =>
      cases fs with
      | nil => simpa [JV.streamFrom] using leafCase (.obj [])
      | cons f rest =>
        simp only [JV.streamFrom]
        simp only [JV.size] at hs
        exact streamObj_act rest f pre h
          (fun z hz pre' h' hp' => ih z.2 (by have := mem_sizeF hz; omega) pre' h' hp') hp


/-! ### (B) starting from `null`, the events rebuild the value -/

theorem listSet_at_length {α} (A : List α) (x pad : α) : listSet A A.length x pad = A ++ [x] := by
  induction A with
  | nil => simp [listSet]
  | cons a A ih => simp [listSet, ih]

theorem insert_of_not_mem (F : List (String × JV N)) (k : String) (x : JV N) (h : k ∉ F.map (·.1)) :
    JV.insert F k x = F ++ [(k, x)] ∧ JV.lookup F k = none := by
  induction F with
  | nil => simp [JV.insert, JV.lookup]
  | cons f F ih =>
    obtain ⟨k', v'⟩ := f
    simp only [List.map_cons, List.mem_cons, not_or] at h
    have hne : (k' == k) = false := by simpa using fun e => h.1 e.symm
    have := ih h.2
    simp [JV.insert, JV.lookup, hne, this.1, this.2]

theorem updpath_single (cur k : JV N) (f : JV N → Except String (JV N)) :
    cur.updpath [k] f = cur.updStep k f := by
  simp [JV.updpath]

/-- building an array: `A` is what has been appended so far -/
theorem streamArr_build (rest : List (JV N)) : ∀ (x : JV N) (A : List (JV N)) (cur : JV N),
    (cur = .arr A ∨ (A = [] ∧ cur = .null)) →
    (∀ z ∈ x :: rest, (∀ pre h, GoodPath pre →
        leafAct (JV.streamFrom pre z) h = h.updpath pre (leafAct (JV.streamFrom [] z))) ∧
      leafAct (JV.streamFrom [] z) .null = .ok z) →
    leafAct (streamArr [] A.length (x :: rest)) cur = .ok (.arr (A ++ x :: rest)) := by
  induction rest with
  | nil =>
    intro x A cur hc H
    have ⟨HR, HB⟩ := H x (by simp)
    simp only [streamArr, List.nil_append]
    rw [leafAct_append, leafAct_closer_fun, bind_ok, HR _ cur (goodPath_single (GoodKey.idx A.length)), updpath_single]
    have harr : (JV.arr A).updStep (JV.ofNat A.length) (leafAct (JV.streamFrom [] x)) = .ok (.arr (A ++ [x])) := by
      rw [updStep_arr_idx]
      have : ¬ (A.length > A.length + 100000) := by omega
      simp [this, HB, Except.bind, listSet_at_length]
    rcases hc with rfl | ⟨rfl, rfl⟩
    · exact harr
    · rw [updStep_null_idx]; exact harr
  | cons y rest' ih =>
    intro x A cur hc H
    have ⟨HR, HB⟩ := H x (by simp)
    simp only [streamArr, List.nil_append]
    rw [leafAct_append, HR _ cur (goodPath_single (GoodKey.idx A.length)), updpath_single]
    have harr : (JV.arr A).updStep (JV.ofNat A.length) (leafAct (JV.streamFrom [] x)) = .ok (.arr (A ++ [x])) := by
      rw [updStep_arr_idx]
      have : ¬ (A.length > A.length + 100000) := by omega
      simp [this, HB, Except.bind, listSet_at_length]
    have hstep : cur.updStep (JV.ofNat A.length) (leafAct (JV.streamFrom [] x)) = .ok (.arr (A ++ [x])) := by
      rcases hc with rfl | ⟨rfl, rfl⟩
      · exact harr
      · rw [updStep_null_idx]; exact harr
    rw [hstep]
    simp only [Except.bind]
    have := ih y (A ++ [x]) (.arr (A ++ [x])) (Or.inl rfl) (fun z hz => H z (by simp [hz]))
    simpa [List.length_append] using this

/-- building an object: `F` holds the fields inserted so far -/
theorem streamObj_build (rest : List (String × JV N)) : ∀ (f : String × JV N) (F : List (String × JV N)) (cur : JV N),
    (cur = .obj F ∨ (F = [] ∧ cur = .null)) →
    ((F ++ f :: rest).map (·.1)).Nodup →
    (∀ z ∈ f :: rest, (∀ pre h, GoodPath pre →
        leafAct (JV.streamFrom pre z.2) h = h.updpath pre (leafAct (JV.streamFrom [] z.2))) ∧
      leafAct (JV.streamFrom [] z.2) .null = .ok z.2) →
    leafAct (streamObj [] (f :: rest)) cur = .ok (.obj (F ++ f :: rest)) := by
  induction rest with
  | nil =>
    intro f F cur hc hn H
    obtain ⟨k, x⟩ := f
    have ⟨HR, HB⟩ := H (k, x) (by simp)
    have hk : k ∉ F.map (·.1) := by
      simp only [List.map_append, List.map_cons, List.map_nil, List.nodup_append] at hn
      intro hmem; exact (hn.2.2 k hmem k (by simp)) rfl
    simp only [streamObj, List.nil_append]
    rw [leafAct_append, leafAct_closer_fun, bind_ok, HR _ cur (goodPath_single (GoodKey.str k)), updpath_single]
    have hobj : (JV.obj F).updStep (.str k) (leafAct (JV.streamFrom [] x)) = .ok (.obj (F ++ [(k, x)])) := by
      rw [updStep_key]
      simp [(insert_of_not_mem F k x hk).2, (insert_of_not_mem F k x hk).1, HB, Except.bind]
    rcases hc with rfl | ⟨rfl, rfl⟩
    · exact hobj
    · rw [updStep_null_key]; simp [HB, Except.bind]
  | cons g rest' ih =>
    intro f F cur hc hn H
    obtain ⟨k, x⟩ := f
    have ⟨HR, HB⟩ := H (k, x) (by simp)
    have hk : k ∉ F.map (·.1) := by
      simp only [List.map_append, List.map_cons, List.nodup_append] at hn
      intro hmem; exact (hn.2.2 k hmem k (by simp)) rfl
    simp only [streamObj, List.nil_append]
    rw [leafAct_append, HR _ cur (goodPath_single (GoodKey.str k)), updpath_single]
    have hstep : cur.updStep (.str k) (leafAct (JV.streamFrom [] x)) = .ok (.obj (F ++ [(k, x)])) := by
      rcases hc with rfl | ⟨rfl, rfl⟩
      · rw [updStep_key]
        simp [(insert_of_not_mem F k x hk).2, (insert_of_not_mem F k x hk).1, HB, Except.bind]
      · rw [updStep_null_key]; simp [HB, Except.bind]
    rw [hstep]
    simp only [Except.bind]
    have := ih g (F ++ [(k, x)]) (.obj (F ++ [(k, x)])) (Or.inl rfl) (by simpa using hn) (fun z hz => H z (by simp [hz]))
    simpa using this

/-- **(B)** from `null`, the leaf events of `tostream v` rebuild `v` -/
theorem streamFrom_build (n : Nat) : ∀ (v : JV N), v.size ≤ n → v.WF → leafAct (JV.streamFrom [] v) .null = .ok v := by
  induction n with
  | zero => intro v hs; cases v <;> simp [JV.size] at hs <;> omega
  | succ n ih =>
    intro v hs hw
    cases v with
    | null => simp [JV.streamFrom, leafAct, JV.setpath, JV.updpath, Except.bind]
    | bool b => simp [JV.streamFrom, leafAct, JV.setpath, JV.updpath, Except.bind]
    | num x => simp [JV.streamFrom, leafAct, JV.setpath, JV.updpath, Except.bind]
    | str s => simp [JV.streamFrom, leafAct, JV.setpath, JV.updpath, Except.bind]
    | arr xs =>
      cases xs with
      | nil => simp [JV.streamFrom, leafAct, JV.setpath, JV.updpath, Except.bind]
      | cons x rest =>
        simp only [JV.streamFrom]
        simp only [JV.size] at hs
        simp only [JV.WF] at hw
        have := streamArr_build rest x [] .null (Or.inr ⟨rfl, rfl⟩) (fun z hz =>
          ⟨fun pre h hp => streamFrom_act n z (by have := mem_sizeL hz; omega) pre h hp,
           ih z (by have := mem_sizeL hz; omega) (mem_wfL hw hz)⟩)
        simpa using this
    | obj fs =>
      cases fs with
      | nil => simp [JV.streamFrom, leafAct, JV.setpath, JV.updpath, Except.bind]
      | cons f rest =>
        simp only [JV.streamFrom]
        simp only [JV.size] at hs
        simp only [JV.WF] at hw
        have := streamObj_build rest f [] .null (Or.inr ⟨rfl, rfl⟩) (by simpa using hw.1) (fun z hz =>
          ⟨fun pre h hp => streamFrom_act n z.2 (by have := mem_sizeF hz; omega) pre h hp,
           ih z.2 (by have := mem_sizeF hz; omega) (mem_wfF hw.2 hz)⟩)
        simpa using this


/-! ### (Q) emissions: only the top-level closing event emits -/

/-- an event that neither emits nor ends a top-level value -/
def Quiet (ev : JV N) : Prop :=
  (∃ p leaf, p ≠ [] ∧ ev = .arr [.arr p, leaf]) ∨ (∃ p, p.length ≠ 1 ∧ ev = .arr [.arr p])

/-- events of a sub-value: all paths extend `pre`, closing events strictly -/
def Below (pre : List (JV N)) (ev : JV N) : Prop :=
  (∃ p leaf, ev = .arr [.arr (pre ++ p), leaf]) ∨ (∃ p, p ≠ [] ∧ ev = .arr [.arr (pre ++ p)])

theorem below_snoc {pre : List (JV N)} {k ev : JV N} (h : Below (pre ++ [k]) ev) :
    (∃ p leaf, p ≠ [] ∧ ev = .arr [.arr (pre ++ p), leaf]) ∨ (∃ p, p ≠ [] ∧ ev = .arr [.arr (pre ++ p)]) := by
  rcases h with ⟨p, leaf, rfl⟩ | ⟨p, _, rfl⟩
  · exact Or.inl ⟨k :: p, leaf, by simp, by simp⟩
  · exact Or.inr ⟨k :: p, by simp, by simp⟩

theorem streamArr_below (rest : List (JV N)) : ∀ (x : JV N) (i : Nat) (pre : List (JV N)),
    (∀ z ∈ x :: rest, ∀ pre', ∀ ev ∈ JV.streamFrom pre' z, Below pre' ev) →
    ∀ ev ∈ streamArr pre i (x :: rest),
      (∃ p leaf, p ≠ [] ∧ ev = .arr [.arr (pre ++ p), leaf]) ∨ (∃ p, p ≠ [] ∧ ev = .arr [.arr (pre ++ p)]) := by
  induction rest with
  | nil =>
    intro x i pre H ev hev
    simp only [streamArr, List.mem_append, List.mem_singleton] at hev
    rcases hev with h | rfl
    · exact below_snoc (H x (by simp) _ ev h)
    · exact Or.inr ⟨[JV.ofNat i], by simp, rfl⟩
  | cons y rest' ih =>
    intro x i pre H ev hev
    simp only [streamArr, List.mem_append] at hev
    rcases hev with h | h
    · exact below_snoc (H x (by simp) _ ev h)
    · exact ih y (i + 1) pre (fun z hz => H z (by simp [hz])) ev h

theorem streamObj_below (rest : List (String × JV N)) : ∀ (f : String × JV N) (pre : List (JV N)),
    (∀ z ∈ f :: rest, ∀ pre', ∀ ev ∈ JV.streamFrom pre' z.2, Below pre' ev) →
    ∀ ev ∈ streamObj pre (f :: rest),
      (∃ p leaf, p ≠ [] ∧ ev = .arr [.arr (pre ++ p), leaf]) ∨ (∃ p, p ≠ [] ∧ ev = .arr [.arr (pre ++ p)]) := by
  induction rest with
  | nil =>
    intro f pre H ev hev
    obtain ⟨k, x⟩ := f
    simp only [streamObj, List.mem_append, List.mem_singleton] at hev
    rcases hev with h | rfl
    · exact below_snoc (H (k, x) (by simp) _ ev h)
    · exact Or.inr ⟨[.str k], by simp, rfl⟩
  | cons g rest' ih =>
    intro f pre H ev hev
    obtain ⟨k, x⟩ := f
    simp only [streamObj, List.mem_append] at hev
    rcases hev with h | h
    · exact below_snoc (H (k, x) (by simp) _ ev h)
    · exact ih g pre (fun z hz => H z (by simp [hz])) ev h

theorem streamFrom_below (n : Nat) : ∀ (v : JV N), v.size ≤ n → ∀ pre, ∀ ev ∈ JV.streamFrom pre v, Below pre ev := by
  induction n with
  | zero => intro v hs; cases v <;> simp [JV.size] at hs <;> omega
  | succ n ih =>
    intro v hs pre ev hev
    have leafCase : ∀ w : JV N, ev = .arr [.arr pre, w] → Below pre ev := by
      intro w h; exact Or.inl ⟨[], w, by simpa using h⟩
    have lift : ((∃ p leaf, p ≠ [] ∧ ev = .arr [.arr (pre ++ p), leaf]) ∨ (∃ p, p ≠ [] ∧ ev = .arr [.arr (pre ++ p)])) →
        Below pre ev := by
      rintro (⟨p, leaf, _, rfl⟩ | ⟨p, hp, rfl⟩)
      · exact Or.inl ⟨p, leaf, rfl⟩
      · exact Or.inr ⟨p, hp, rfl⟩
    cases v with
    | null => exact leafCase _ (by simpa [JV.streamFrom] using hev)
    | bool b => exact leafCase _ (by simpa [JV.streamFrom] using hev)
    | num x => exact leafCase _ (by simpa [JV.streamFrom] using hev)
    | str s => exact leafCase _ (by simpa [JV.streamFrom] using hev)
    | arr xs =>
      cases xs with
      | nil => exact leafCase _ (by simpa [JV.streamFrom] using hev)
      | cons x rest =>
        simp only [JV.streamFrom] at hev
        simp only [JV.size] at hs
        exact lift (streamArr_below rest x 0 pre
          (fun z hz pre' ev' h' => ih z (by have := mem_sizeL hz; omega) pre' ev' h') ev hev)
    | obj fs =>
      cases fs with
      | nil => exact leafCase _ (by simpa [JV.streamFrom] using hev)
      | cons f rest =>
        simp only [JV.streamFrom] at hev
        simp only [JV.size] at hs
        exact lift (streamObj_below rest f pre
          (fun z hz pre' ev' h' => ih z.2 (by have := mem_sizeF hz; omega) pre' ev' h') ev hev)

/-- quiet events only move the accumulator -/
theorem go_quiet (evs : List (JV N)) (hq : ∀ ev ∈ evs, Quiet ev) (h : JV N) (tail acc : List (JV N)) :
    JV.fromstream.go (h, false) (evs ++ tail) acc =
      (leafAct evs h).bind (fun h' => JV.fromstream.go (h', false) tail acc) := by
  induction evs generalizing h with
  | nil => rfl
  | cons ev rest ih =>
    have hrest : ∀ e ∈ rest, Quiet e := fun e he => hq e (by simp [he])
    rcases hq ev (by simp) with ⟨p, leaf, hp, rfl⟩ | ⟨p, hp, rfl⟩
    · have hemp : p.isEmpty = false := by cases p <;> simp_all
      cases hs : h.setpath p leaf with
      | error e => simp [JV.fromstream.go, fromstreamStep, leafAct, hs, Except.bind, bind]
      | ok h' =>
        simp [JV.fromstream.go, fromstreamStep, leafAct, hs, Except.bind, bind, hemp, hp]
        exact ih hrest h'
    · have : (p.length == 1) = false := by simpa using hp
      simp [JV.fromstream.go, fromstreamStep, leafAct, this, Except.bind, bind, ih hrest h]


theorem quiet_of_below {k ev : JV N} (h : Below [k] ev) : Quiet ev := by
  rcases h with ⟨p, leaf, rfl⟩ | ⟨p, hp, rfl⟩
  · exact Or.inl ⟨[k] ++ p, leaf, by simp, rfl⟩
  · refine Or.inr ⟨[k] ++ p, ?_, rfl⟩
    cases p with
    | nil => exact absurd rfl hp
    | cons a t => simp

theorem streamArr_decomp (rest : List (JV N)) : ∀ (x : JV N) (i : Nat),
    ∃ body, streamArr [] i (x :: rest) = body ++ [JV.arr [JV.arr [JV.ofNat (i + rest.length)]]] ∧
      ∀ ev ∈ body, ∃ j z, z ∈ x :: rest ∧ ev ∈ JV.streamFrom [JV.ofNat j] z := by
  induction rest with
  | nil =>
    intro x i
    exact ⟨JV.streamFrom [JV.ofNat i] x, by simp [streamArr], fun ev h => ⟨i, x, by simp, h⟩⟩
  | cons y rest' ih =>
    intro x i
    obtain ⟨body, hb, hq⟩ := ih y (i + 1)
    refine ⟨JV.streamFrom [JV.ofNat i] x ++ body, ?_, ?_⟩
    · have e : i + 1 + rest'.length = i + (y :: rest').length := by simp; omega
      simp only [streamArr, List.nil_append, hb, List.append_assoc, e]
    · intro ev hev
      rcases List.mem_append.mp hev with h | h
      · exact ⟨i, x, by simp, h⟩
      · obtain ⟨j, z, hz, hm⟩ := hq ev h
        exact ⟨j, z, List.mem_cons_of_mem _ hz, hm⟩

theorem streamObj_decomp (rest : List (String × JV N)) : ∀ (f : String × JV N),
    ∃ body k, streamObj [] (f :: rest) = body ++ [JV.arr [JV.arr [JV.str k]]] ∧
      ∀ ev ∈ body, ∃ k' z, z ∈ f :: rest ∧ ev ∈ JV.streamFrom [JV.str k'] z.2 := by
  induction rest with
  | nil =>
    intro f
    obtain ⟨k, x⟩ := f
    exact ⟨JV.streamFrom [.str k] x, k, by simp [streamObj], fun ev h => ⟨k, (k, x), by simp, h⟩⟩
  | cons g rest' ih =>
    intro f
    obtain ⟨k, x⟩ := f
    obtain ⟨body, k2, hb, hq⟩ := ih g
    refine ⟨JV.streamFrom [.str k] x ++ body, k2, ?_, ?_⟩
    · simp only [streamObj, List.nil_append, hb, List.append_assoc]
    · intro ev hev
      rcases List.mem_append.mp hev with h | h
      · exact ⟨k, (k, x), by simp, h⟩
      · obtain ⟨k', z, hz, hm⟩ := hq ev h
        exact ⟨k', z, List.mem_cons_of_mem _ hz, hm⟩

/-- a non-empty container: quiet body, then the single top-level closing event emits the result -/
theorem fromstream_body_closer (body : List (JV N)) (k v : JV N) (hq : ∀ ev ∈ body, Quiet ev)
    (hb : leafAct (body ++ [JV.arr [JV.arr [k]]]) .null = .ok v) :
    JV.fromstream (body ++ [JV.arr [JV.arr [k]]]) = .ok [v] := by
  have hbody : leafAct body .null = .ok v := by
    rw [leafAct_append, leafAct_closer_fun, bind_ok] at hb; exact hb
  simp only [JV.fromstream]
  rw [go_quiet body hq .null _ [], hbody]
  simp [Except.bind, JV.fromstream.go, fromstreamStep, bind]

/-- **`tostream_fromstream`**: `fromstream(tostream)` reproduces every duplicate-free value. -/
theorem tostream_fromstream (v : JV N) (hw : v.WF) : JV.fromstream (JV.tostream v) = .ok [v] := by
  have hB := streamFrom_build v.size v (Nat.le_refl _) hw
  have scalar : ∀ w : JV N, JV.fromstream [JV.arr [JV.arr [], w]] = .ok [w] := by
    intro w
    simp [JV.fromstream, JV.fromstream.go, fromstreamStep, JV.setpath, JV.updpath, bind, Except.bind]
  cases v with
  | null => simpa [JV.tostream, JV.streamFrom] using scalar .null
  | bool b => simpa [JV.tostream, JV.streamFrom] using scalar (.bool b)
  | num x => simpa [JV.tostream, JV.streamFrom] using scalar (.num x)
  | str s => simpa [JV.tostream, JV.streamFrom] using scalar (.str s)
  | arr xs =>
    cases xs with
    | nil => simpa [JV.tostream, JV.streamFrom] using scalar (.arr [])
    | cons x rest =>
      simp only [JV.tostream, JV.streamFrom] at hB ⊢
      obtain ⟨body, hd, hq⟩ := streamArr_decomp rest x 0
      rw [hd] at hB ⊢
      refine fromstream_body_closer body _ _ ?_ hB
      intro ev hev
      obtain ⟨j, z, _, hm⟩ := hq ev hev
      exact quiet_of_below (streamFrom_below z.size z (Nat.le_refl _) _ ev hm)
  | obj fs =>
    cases fs with
    | nil => simpa [JV.tostream, JV.streamFrom] using scalar (.obj [])
    | cons f rest =>
      simp only [JV.tostream, JV.streamFrom] at hB ⊢
      obtain ⟨body, k, hd, hq⟩ := streamObj_decomp rest f
      rw [hd] at hB ⊢
      refine fromstream_body_closer body _ _ ?_ hB
      intro ev hev
      obtain ⟨k', z, _, hm⟩ := hq ev hev
      exact quiet_of_below (streamFrom_below z.2.size z.2 (Nat.le_refl _) _ ev hm)

end SV.Jq
