/-
Proof/JqGuards — helper lemmas for Props/C30 (loop length bounds, index resolution).
-/
import SuccinctlyVerif.Model.JqGuards
namespace SV.JqGuards

theorem rangeUp_length (to step : Int) : ∀ fuel i acc, (rangeUp to step fuel i acc).length ≤ acc.length + fuel := by
  intro fuel
  induction fuel with
  | zero => intro i acc; simp [rangeUp]
  | succ f ih =>
    intro i acc
    unfold rangeUp
    split
    · have := ih (i + step) (i :: acc); simp at this; omega
    · omega

theorem rangeDown_length (to step : Int) : ∀ fuel i acc, (rangeDown to step fuel i acc).length ≤ acc.length + fuel := by
  intro fuel
  induction fuel with
  | zero => intro i acc; simp [rangeDown]
  | succ f ih =>
    intro i acc
    unfold rangeDown
    split
    · have := ih (i + step) (i :: acc); simp at this; omega
    · omega

theorem resolve_spec (idx : Int) (len : Nat) :
    (∃ m, resolveSetpathIndex idx len = .error m) ∨
    (∃ r, resolveSetpathIndex idx len = .ok r ∧ (r : Int) = (if idx < 0 then (len : Int) + idx else idx)) := by
  unfold resolveSetpathIndex
  simp only []
  by_cases h1 : (if idx < 0 then (len : Int) + idx else idx) < 0
  · left; rw [if_pos h1]; exact ⟨_, rfl⟩
  · rw [if_neg h1]
    by_cases h2 : (if idx < 0 then (len : Int) + idx else idx).toNat < USIZE
    · right; rw [if_pos h2]; refine ⟨_, rfl, ?_⟩; omega
    · left; rw [if_neg h2]; exact ⟨_, rfl⟩

end SV.JqGuards
