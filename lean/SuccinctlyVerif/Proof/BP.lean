/-
Proof/BP — bit-level lemmas for C04: indexing and counting in `bitsOf`, masks, popcounts.
-/
import SuccinctlyVerif.Spec.Bits
import SuccinctlyVerif.Spec.BP
import SuccinctlyVerif.Spec.BPNav
import SuccinctlyVerif.Model.BP
import SuccinctlyVerif.Proof.Kernels
namespace SV.BPP
open SV SV.BP SV.BPM

/-! ### wordBits / allBits / bitsOf -/

theorem wordBits_length (w : BitVec 64) : (wordBits w).length = 64 := by simp [wordBits]

theorem wordBits_getElem? (w : BitVec 64) (i : Nat) :
    (wordBits w)[i]? = if i < 64 then some (w.getLsbD i) else none := by
  unfold wordBits
  by_cases h : i < 64
  · simp [h]
  · simp [h]

theorem allBits_length (ws : List (BitVec 64)) : (allBits ws).length = 64 * ws.length := by
  induction ws with
  | nil => rfl
  | cons w ws ih =>
    simp only [allBits, List.flatMap_cons, List.length_append, List.length_cons] at *
    rw [ih, wordBits_length]; omega

theorem allBits_cons (w : BitVec 64) (ws : List (BitVec 64)) :
    allBits (w :: ws) = wordBits w ++ allBits ws := by simp [allBits]

theorem allBits_getElem? (ws : List (BitVec 64)) (p : Nat) :
    (allBits ws)[p]? = (ws[p / 64]?).map (·.getLsbD (p % 64)) := by
  induction ws generalizing p with
  | nil => simp [allBits]
  | cons w ws ih =>
    rw [allBits_cons]
    by_cases h : p < 64
    · rw [List.getElem?_append_left (by rw [wordBits_length]; exact h), wordBits_getElem?]
      have h0 : p / 64 = 0 := by omega
      have h1 : p % 64 = p := by omega
      simp [h, h0, h1]
    · rw [List.getElem?_append_right (by rw [wordBits_length]; omega), wordBits_length, ih]
      have h0 : p / 64 = (p - 64) / 64 + 1 := by omega
      have h1 : (p - 64) % 64 = p % 64 := by omega
      rw [h0, h1]; simp

theorem bitsOf_length (ws : List (BitVec 64)) (len : Nat) (h : len ≤ 64 * ws.length) :
    (bitsOf ws len).length = len := by
  simp [bitsOf, allBits_length]; omega

theorem bitsOf_getElem? (ws : List (BitVec 64)) (len p : Nat) :
    (bitsOf ws len)[p]? = if p < len then (ws[p / 64]?).map (·.getLsbD (p % 64)) else none := by
  unfold bitsOf
  rw [List.getElem?_take]
  by_cases h : p < len
  · simp [h, allBits_getElem?]
  · simp [h]

/-! ### counting -/

theorem wordBits_zero_count : ((wordBits 0#64).take r).count true = 0 := by
  have : ∀ x ∈ (wordBits 0#64).take r, x ≠ true := by
    intro x hx
    have := List.mem_of_mem_take hx
    simp [wordBits] at this
    simp [this]
  exact List.count_eq_zero.mpr (fun hx => this true hx rfl)

/-- Ones among the first `p` bits of a word vector: whole words before `p / 64` plus the partial
word. -/
theorem count_take_allBits (ws : List (BitVec 64)) (p : Nat) :
    ((allBits ws).take p).count true =
      ((ws.take (p / 64)).map popcount).sum + ((wordBits (ws.getD (p / 64) 0)).take (p % 64)).count true := by
  induction ws generalizing p with
  | nil => simp [allBits, wordBits_zero_count]
  | cons w ws ih =>
    rw [allBits_cons]
    by_cases h : p < 64
    · have h0 : p / 64 = 0 := by omega
      have h1 : p % 64 = p := by omega
      rw [List.take_append_of_le_length (by rw [wordBits_length]; omega), h0, h1]
      simp
    · rw [List.take_append, wordBits_length, List.take_of_length_le (by rw [wordBits_length]; omega),
        List.count_append, ih]
      have h0 : p / 64 = (p - 64) / 64 + 1 := by omega
      have h1 : (p - 64) % 64 = p % 64 := by omega
      rw [h0, h1]
      simp [popcount]
      omega

/-! ### masks -/

theorem lowMask_getLsbD : ∀ (bi i : Fin 64), ((1#64 <<< bi.val) - 1).getLsbD i.val = decide (i.val < bi.val) := by
  decide +kernel

theorem wordBits_and_lowMask (w : BitVec 64) (bi : Nat) (hbi : bi < 64) :
    wordBits (w &&& ((1#64 <<< bi) - 1)) = (wordBits w).take bi ++ List.replicate (64 - bi) false := by
  apply List.ext_getElem?
  intro i
  rw [wordBits_getElem?]
  by_cases hi : i < 64
  · simp only [hi, if_true]
    have hm := lowMask_getLsbD ⟨bi, hbi⟩ ⟨i, hi⟩
    simp only at hm
    rw [BitVec.getLsbD_and, hm]
    by_cases hlt : i < bi
    · rw [List.getElem?_append_left (by rw [List.length_take, wordBits_length]; omega), List.getElem?_take,
        if_pos hlt, wordBits_getElem?, if_pos hi]
      simp only [hlt, decide_true, Bool.and_true]
    · rw [List.getElem?_append_right (by rw [List.length_take, wordBits_length]; omega)]
      simp only [hlt, decide_false, Bool.and_false, List.length_take, wordBits_length]
      rw [List.getElem?_replicate]
      have : i - min bi 64 < 64 - bi := by omega
      simp [this]
  · simp only [hi, if_false]
    symm
    apply List.getElem?_eq_none
    rw [List.length_append, List.length_take, wordBits_length, List.length_replicate]; omega

theorem popc_eq_count (w : BitVec 64) : popc w = (wordBits w).count true := Kernels.popc_eq_popcount w

theorem popcBelow_eq (w : BitVec 64) (bi : Nat) (hbi : bi < 64) :
    popcBelow w bi = ((wordBits w).take bi).count true := by
  unfold popcBelow
  rw [popc_eq_count, wordBits_and_lowMask w bi hbi, List.count_append]
  simp [List.count_replicate]

end SV.BPP
