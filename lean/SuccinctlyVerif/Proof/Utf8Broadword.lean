/-
Proof/Utf8Broadword — `broadword::accepts` accepts exactly the Table 3-7 language.
-/
import SuccinctlyVerif.Proof.Utf8ScalarMain
set_option linter.unusedSimpArgs false
namespace SV.Utf8
open SV

theorem run_ne_start_of_dead {s : St} {r : List Byte} (h : s = .dead) : run s r ≠ .start := by
  subst h; simp

/-- `validate_sequence` returning `Some(n)`: the `n` bytes at the head are one well-formed sequence. -/
theorem bwVS_some (l : List Byte) (n : Nat) (h : bwValidateSequence l = some n) :
    1 ≤ n ∧ n ≤ l.length ∧ run .start l = run .start (l.drop n) := by
  unfold bwValidateSequence at h
  dsimp only at h
  repeat' split at h
  all_goals first | (cases h; done) | skip
  all_goals
    cases h
    refine ⟨by decide, by simp, ?_⟩
    simp only [List.drop_succ_cons, List.drop_zero, run_cons]
    congr 1
    try simp only [isContinuationByte] at *
    st_decide

section none_cases
variable {b0 b1 b2 b3 : Byte} {r : List Byte}

theorem dd1 (h : step .start b0 = .dead) : run .start (b0 :: r) ≠ .start := by
  simp only [run_cons]; exact run_ne_start_of_dead h
theorem dd2 (h : step (step .start b0) b1 = .dead) : run .start (b0 :: b1 :: r) ≠ .start := by
  simp only [run_cons]; exact run_ne_start_of_dead h
theorem dd3 (h : step (step (step .start b0) b1) b2 = .dead) : run .start (b0 :: b1 :: b2 :: r) ≠ .start := by
  simp only [run_cons]; exact run_ne_start_of_dead h
theorem dd4 (h : step (step (step (step .start b0) b1) b2) b3 = .dead) :
    run .start (b0 :: b1 :: b2 :: b3 :: r) ≠ .start := by
  simp only [run_cons]; exact run_ne_start_of_dead h
theorem tt1 (h : step .start b0 ≠ .start) : run .start [b0] ≠ .start := by simpa using h
theorem tt2 (h : step (step .start b0) b1 ≠ .start) : run .start [b0, b1] ≠ .start := by simpa using h
theorem tt3 (h : step (step (step .start b0) b1) b2 ≠ .start) : run .start [b0, b1, b2] ≠ .start := by
  simpa using h

theorem bwVS_none2 (h0 : ¬ b0 ≤ 0x7F#8) (hA : inR 0xC2#8 0xDF#8 b0 = true)
    (h : bwValidateSequence (b0 :: r) = none) : run .start (b0 :: r) ≠ .start := by
  unfold bwValidateSequence at h
  simp only [h0, hA, if_true, if_false] at h
  repeat' split at h
  all_goals first | (cases h; done) | skip
  · apply dd2
    simp only [isContinuationByte] at *
    st_decide
  · exact tt1 (by st_decide)

theorem bwVS_none3 (h0 : ¬ b0 ≤ 0x7F#8) (hA : ¬ inR 0xC2#8 0xDF#8 b0 = true) (hB : inR 0xE0#8 0xEF#8 b0 = true)
    (h : bwValidateSequence (b0 :: r) = none) : run .start (b0 :: r) ≠ .start := by
  unfold bwValidateSequence at h
  simp only [h0, hA, hB, Bool.false_eq_true, if_true, if_false, ↓reduceIte] at h
  repeat' split at h
  all_goals first | (cases h; done) | skip
  · apply dd3
    simp only [isContinuationByte] at *
    st_decide
  · apply dd3
    simp only [isContinuationByte] at *
    st_decide
  · apply dd3
    simp only [isContinuationByte] at *
    st_decide
  · rename_i hx
    rcases r with _ | ⟨b1, _ | ⟨b2, r2⟩⟩
    · exact tt1 (by st_decide)
    · exact tt2 (by st_decide)
    · exact absurd rfl (hx b1 b2 r2)

theorem bwVS_none4 (h0 : ¬ b0 ≤ 0x7F#8) (hA : ¬ inR 0xC2#8 0xDF#8 b0 = true) (hB : ¬ inR 0xE0#8 0xEF#8 b0 = true)
    (hC : inR 0xF0#8 0xF4#8 b0 = true)
    (h : bwValidateSequence (b0 :: r) = none) : run .start (b0 :: r) ≠ .start := by
  unfold bwValidateSequence at h
  simp only [h0, hA, hB, hC, Bool.false_eq_true, if_true, if_false, ↓reduceIte] at h
  repeat' split at h
  all_goals first | (cases h; done) | skip
  · apply dd4
    simp only [isContinuationByte] at *
    st_decide
  · apply dd4
    simp only [isContinuationByte] at *
    st_decide
  · apply dd4
    simp only [isContinuationByte] at *
    st_decide
  · rename_i hx
    rcases r with _ | ⟨b1, _ | ⟨b2, _ | ⟨b3, r3⟩⟩⟩
    · exact tt1 (by st_decide)
    · exact tt2 (by st_decide)
    · exact tt3 (by st_decide)
    · exact absurd rfl (hx b1 b2 b3 r3)

theorem bwVS_none0 (h0 : ¬ b0 ≤ 0x7F#8) (hA : ¬ inR 0xC2#8 0xDF#8 b0 = true) (hB : ¬ inR 0xE0#8 0xEF#8 b0 = true)
    (hC : ¬ inR 0xF0#8 0xF4#8 b0 = true) : run .start (b0 :: r) ≠ .start := by
  exact dd1 (by st_decide)

end none_cases

/-- `validate_sequence` returning `None` on a non-empty suffix: the suffix is ill-formed. -/
theorem bwVS_none (l : List Byte) (h : bwValidateSequence l = none) (hne : l ≠ []) :
    run .start l ≠ .start := by
  match l with
  | [] => exact absurd rfl hne
  | b0 :: r =>
    by_cases h0 : b0 ≤ 0x7F#8
    · simp [bwValidateSequence, h0] at h
    · by_cases hA : inR 0xC2#8 0xDF#8 b0 = true
      · exact bwVS_none2 h0 hA h
      · by_cases hB : inR 0xE0#8 0xEF#8 b0 = true
        · exact bwVS_none3 h0 hA hB h
        · by_cases hC : inR 0xF0#8 0xF4#8 b0 = true
          · exact bwVS_none4 h0 hA hB hC h
          · exact bwVS_none0 h0 hA hB hC

end SV.Utf8
