/-
Props/C15 — yq never emits YAML it cannot read back (decision level).
Property theorems only; helper lemmas live in Proof/YamlEmit.lean.  `Rev.v1` is the source with the
`fix:` commit, `Rev.v0` the source before it; `current_is_fixed` ties the theorems to the working
tree (the marker is regenerated from the source on every run).
-/
import SuccinctlyVerif.Proof.YamlEmit
import SuccinctlyVerif.Proof.YamlAnchor
import SuccinctlyVerif.Proof.YamlResolve
import SuccinctlyVerif.Proof.YamlBlock
import SuccinctlyVerif.Proof.YamlBlockScalar
namespace SV.Props.C15
open SV.Yaml SV.Yaml.Emit

/-- The working tree's `yaml_quote_string` is the fixed revision (generated marker). -/
theorem current_is_fixed : currentRev = .v1 := by decide

example : currentRev ≠ .v0 := by decide

/-- `yaml_double_quote_escaped`: for every string, in every context and for every plain-scalar
resolver, the double-quoted text reads back as that string. -/
theorem double_quote_reread (resolve : List Char → Scalar) (ctx : Ctx) (s : List Char) :
    loadScalar resolve ctx (yamlDoubleQuoteEscaped s) = some (.str s) := by
  simp [loadScalar, yamlDoubleQuoteEscaped, readDouble_body]

example : yamlDoubleQuoteEscaped "a\"\n\x01é".toList = "\"a\\\"\\n\\x01é\"".toList := by decide

/-- `yaml_single_quote_escaped` under its guard `can_single_quote`. -/
theorem single_quote_reread (resolve : List Char → Scalar) (ctx : Ctx) (s : List Char)
    (h : canSingleQuote s = true) :
    loadScalar resolve ctx (yamlSingleQuoteEscaped s) = some (.str s) := by
  have hb : ∀ c ∈ s, isBreak c = false := by
    intro c hc
    apply isBreak_false_of_not_asciiControl
    simp only [canSingleQuote, Bool.not_eq_true', List.any_eq_false] at h
    simpa using h c hc
  simp [loadScalar, yamlSingleQuoteEscaped, readSingle_body s hb]

example : canSingleQuote "it's".toList = true ∧
    yamlSingleQuoteEscaped "it's".toList = "'it''s'".toList := by decide

/-- A string the fixed `yaml_quote_string` leaves unquoted is a plain scalar of exactly that content
in its context, and the loader's resolver types it as a string. -/
theorem plain_reread (inFlow : Bool) (s : List Char) (hne : s ≠ [])
    (h : needsQuotingValue .v1 inFlow s = false) :
    plainSafe (valueCtx inFlow) s = true ∧ resolvePlainRs s = .str s := by
  cases s with
  | nil => exact absurd rfl hne
  | cons c rest =>
    have f := value_plain_of_facts inFlow c rest (valueFacts_of inFlow _ h)
    exact ⟨f.1, f.2.1⟩

example : needsQuotingValue .v1 false "a:b#c -x".toList = false := by decide

/-- `yaml_quote_string` (fixed): whatever it prints for `s` — `''`, the double-quoted form or `s`
itself — loads back as the string `s`, in block and in flow context. -/
theorem quote_string_reread (inFlow : Bool) (s : List Char) :
    loadScalar resolvePlainRs (valueCtx inFlow) (yamlQuoteString .v1 inFlow s) = some (.str s) := by
  unfold yamlQuoteString
  by_cases hs : s = []
  · subst hs; simp [loadScalar, readSingle, readSingleSt]
  · rw [if_neg hs]
    by_cases hq : needsQuotingValue .v1 inFlow s = true
    · rw [if_pos hq]; exact double_quote_reread _ _ s
    · rw [if_neg hq]
      cases s with
      | nil => exact absurd rfl hs
      | cons c rest =>
        have f := value_plain_of_facts inFlow c rest
          (valueFacts_of inFlow _ (by simpa [needsQuotingValue] using hq))
        simp [loadScalar, f.2.2.1, f.2.2.2, f.1, f.2.1]

/-- `scalar_reread`: `yaml_quote_string_with_style` (fixed) for every string, every source style
and both contexts. -/
theorem scalar_reread (inFlow : Bool) (s : List Char) (style : Style) :
    loadScalar resolvePlainRs (valueCtx inFlow) (yamlQuoteStringWithStyle .v1 inFlow s style) =
      some (.str s) := by
  cases style with
  | single =>
    unfold yamlQuoteStringWithStyle
    by_cases h : canSingleQuote s = true
    · simp only [h, if_true]; exact single_quote_reread _ _ s h
    · simp only [h]; exact quote_string_reread inFlow s
  | double => exact double_quote_reread _ _ s
  | other => exact quote_string_reread inFlow s

example : yamlQuoteStringWithStyle .v1 false " x".toList .other = "\" x\"".toList := by decide
example : yamlQuoteStringWithStyle .v1 true "x, y".toList .other = "\"x, y\"".toList := by decide

/-- `key_reread`: `yaml_quote_key` (fixed) — the text it prints for the key `s` contributes exactly
`s` to the JSON view of the document, as a block-mapping key (at column 0 or nested) and as a
flow-mapping key. -/
theorem key_reread (inFlow top : Bool) (s : List Char) :
    loadKeyText (keyCtx inFlow top) (yamlQuoteKey .v1 inFlow s) = some s := by
  unfold yamlQuoteKey
  by_cases hs : s = []
  · subst hs; simp [loadKeyText, readSingle, readSingleSt]
  · rw [if_neg hs]
    simp only []
    by_cases hq : needsQuotingKeyV1 inFlow s = true
    · rw [if_pos hq]; simp [loadKeyText, yamlDoubleQuoteEscaped, readDouble_body]
    · rw [if_neg hq]
      cases s with
      | nil => exact absurd rfl hs
      | cons c rest =>
        have kf := keyFacts_of inFlow _ (by simpa using hq)
        have f := key_plain_of_facts inFlow top c rest kf
        have hm : (c :: rest) ≠ "<<".toList := kf.merge
        simp only [loadKeyText, f.2.1, f.2.2, f.1, if_false, Bool.true_and, decide_eq_true_eq]
        simp
        intro e1 e2
        exact hm (by rw [e1, e2]; rfl)

example : yamlQuoteKey .v1 false " k".toList = "\" k\"".toList := by decide
example : yamlQuoteKey .v1 false "k".toList = "k".toList := by decide

/-- Streaming emitter, `stream_yaml_double_quoted`. -/
theorem stream_double_quoted_reread (resolve : List Char → Scalar) (ctx : Ctx) (s : List Char) :
    loadScalar resolve ctx (streamYamlDoubleQuoted s) = some (.str s) := by
  simp [loadScalar, streamYamlDoubleQuoted, readDouble_streamBody]

/-- Streaming emitter, the smart-quoting fallback (`stream_yaml_block_scalar_quoted`,
`stream_yaml_nonstring_key`, `jq/stream.rs::stream_yaml_string`) with the fixed
`needs_yaml_quoting`. -/
theorem stream_smart_quoted_reread (s : List Char) :
    loadScalar resolvePlainRs .blockValue (streamSmartQuoted .v1 s) = some (.str s) := by
  unfold streamSmartQuoted
  by_cases hq : needsYamlQuoting .v1 s = true
  · rw [if_pos hq]; exact stream_double_quoted_reread _ _ s
  · rw [if_neg hq]
    cases s with
    | nil => simp [needsYamlQuoting] at hq
    | cons c rest =>
      have f := stream_plain_of_not_needs c rest (by simpa using hq)
      simp [loadScalar, f.2.2.1, f.2.2.2, f.1, f.2.1]

example : streamSmartQuoted .v1 "0x1F".toList = "\"0x1F\"".toList := by decide

/-- `stream_yaml_string_value` (fixed) for double-quoted, single-quoted and block-scalar source
styles: the re-quoted text reads back as the decoded value. -/
theorem stream_string_value_reread (st : SrcStyle) (s : List Char) (hst : st ≠ .unquoted) :
    loadScalar resolvePlainRs .blockValue (streamStringValue .v1 st s) = some (.str s) := by
  cases st with
  | doubleQuoted => exact stream_double_quoted_reread _ _ s
  | singleQuoted =>
    simp only [streamStringValue]
    by_cases hb : s.any isBreak = true
    · rw [if_pos hb]; exact stream_double_quoted_reread _ _ s
    · rw [if_neg hb]
      have hb' : ∀ c ∈ s, isBreak c = false := by
        intro c hc
        have := List.any_eq_false.mp (by simpa using hb) c hc
        simpa using this
      simp [loadScalar, streamYamlSingleQuoted, yamlSingleQuoteEscaped, readSingle_body s hb']
  | unquoted => exact absurd rfl hst
  | block => exact stream_smart_quoted_reread s

/-- `stream_yaml_string_value`, unquoted source scalar: the decoded value is echoed unless it is
empty, contains a C0 control or starts like a sequence entry.  PARTIAL: proved under the hypothesis
that the decoded value of a source plain scalar is itself one-line plain-safe and string-typed
(true of what the loader hands over for a one-line source scalar; for folded multi-line plain
scalars it is checked by the `sloop`/`ssv` correspondence, not proved). -/
theorem stream_unquoted_reread_partial (s : List Char)
    (hsrc : plainSafe .blockValue s = true ∧ resolvePlainRs s = .str s) :
    loadScalar resolvePlainRs .blockValue (streamStringValue .v1 .unquoted s) = some (.str s) := by
  simp only [streamStringValue]
  split
  · exact stream_double_quoted_reread _ _ s
  · cases s with
    | nil => simp [plainSafe, plainOneLine] at hsrc
    | cons c rest =>
      have hq : c ≠ '"' ∧ c ≠ '\'' := by
        have h1 := hsrc.1
        simp only [plainSafe, plainOneLine, nsPlainFirst, Bool.and_eq_true, Bool.or_eq_true] at h1
        constructor <;> (intro e; subst e; simp [isIndicator] at h1)
      simp [loadScalar, hq.1, hq.2, hsrc.1, hsrc.2]

/-- Every indentation step of the (fixed) DOM emitter is positive for `--indent 0..7`, and the two
emitters agree. -/
theorem indent_step_positive (n : Nat) :
    0 < domIndentWidth .v1 n ∧ domIndentWidth .v1 n = streamIndentWidth n := by
  unfold domIndentWidth streamIndentWidth
  split <;> simp <;> omega

/-- The statements above, for the revision the driver actually runs (`currentRev`, read from the
working tree on every run): value and key quoting of the current source re-read. -/
theorem current_source_reread (inFlow top : Bool) (s : List Char) (style : Style) :
    loadScalar resolvePlainRs (valueCtx inFlow) (yamlQuoteStringWithStyle currentRev inFlow s style) =
      some (.str s) ∧
    loadKeyText (keyCtx inFlow top) (yamlQuoteKey currentRev inFlow s) = some s := by
  rw [current_is_fixed]
  exact ⟨scalar_reread inFlow s style, key_reread inFlow top s⟩

example : yamlQuoteKey currentRev true "k,l".toList = "\"k,l\"".toList := by decide

/-! ## Refutations on the source before the fix (`Rev.v0`): concrete witnesses -/

/-- F9: leading space. `a:  x` reads `x`. -/
example : loadScalar resolvePlainRs .blockValue (yamlQuoteString .v0 false " x".toList) ≠
    some (.str " x".toList) := by decide
/-- F9: `0x1F` is left plain and loads as the integer 31. -/
example : loadScalar resolvePlainRs .blockValue (yamlQuoteString .v0 false "0x1F".toList) =
    some (.int 31) := by decide
example : loadScalar resolvePlainRs .blockValue (yamlQuoteString .v0 false "0o17".toList) =
    some (.int 15) := by decide
example : loadScalar resolvePlainRs .blockValue (yamlQuoteString .v0 false "+.inf".toList) =
    some (.float .posInf) := by decide
/-- F9 (flow context): `x, y` is left plain inside `[…]`. -/
example : loadScalar resolvePlainRs .flowValue (yamlQuoteString .v0 true "x, y".toList) = none := by decide
/-- Indicators `,` `]` `}` in first position are left plain (the loader tolerates them in block
context; YAML 1.2 [126] does not). -/
example : loadScalar resolvePlainRs .blockValue (yamlQuoteString .v0 false ",x".toList) = none := by decide
/-- Keys: leading space, trailing tab, `|`, the merge key, a document-end marker at column 0. -/
example : loadKeyText (.blockKey false) (yamlQuoteKey .v0 false " k".toList) = none := by decide
example : loadKeyText (.blockKey false) (yamlQuoteKey .v0 false "k\t".toList) = none := by decide
example : loadKeyText (.blockKey false) (yamlQuoteKey .v0 false "|".toList) = none := by decide
example : loadKeyText (.blockKey false) (yamlQuoteKey .v0 false "<<".toList) = none := by decide
example : loadKeyText (.blockKey true) (yamlQuoteKey .v0 false "... x".toList) = none := by decide
example : loadKeyText .flowKey (yamlQuoteKey .v0 true "k,l".toList) = none := by decide
/-- Streaming: a single-quoted source scalar decoding to a line break is written between single
quotes on one line. -/
example : loadScalar resolvePlainRs .blockValue (streamStringValue .v0 .singleQuoted "x\ny".toList) = none := by
  decide
/-- Streaming `needs_yaml_quoting` before the fix misses `.5` / `0x1F` / `+.inf`. -/
example : loadScalar resolvePlainRs .blockValue (streamSmartQuoted .v0 "0x1F".toList) = some (.int 31) := by
  decide
example : loadScalar resolvePlainRs .blockValue (streamSmartQuoted .v0 ".5".toList) =
    some (.float .finite) := by decide
/-- `-I 0`: the DOM emitter's indentation step was empty. -/
example : domIndentWidth .v0 0 = 0 := by decide

/-! ## `resolve_plain` and the core schema -/

/-- `resolve_plain` (the loader's resolver, model of `src/yaml/scalar.rs`) IS the YAML 1.2 core
schema resolution `coreResolve` (written from §10.3.2) on every text, with exactly the exceptions
the source documents — `deviates s`: the core schema types `s` as an integer outside `i64`, or as a
decimal float whose value overflows `f64`. -/
theorem resolve_plain_is_core_schema (s : List Char) (h : deviates s = false) :
    resolvePlainRs s = coreResolve s := resolve_agrees_core s h

/-- The exceptions are real: a decimal integer beyond `i64` becomes a float, a based one and an
overflowing float stay strings. -/
example : deviates "9223372036854775808".toList = true ∧
    resolvePlainRs "9223372036854775808".toList = .float .finite ∧
    coreResolve "9223372036854775808".toList = .int 9223372036854775808 := by decide
example : deviates "0x8000000000000000".toList = true ∧
    resolvePlainRs "0x8000000000000000".toList = .str "0x8000000000000000".toList := by decide
example : deviates "1e999".toList = true ∧ resolvePlainRs "1e999".toList = .str "1e999".toList ∧
    coreResolve "1e999".toList = .float .finite := by decide
example : deviates "0x1F".toList = false ∧ deviates "-.5e3".toList = false ∧
    deviates "+.inf".toList = false := by decide

/-- `scalar_reread` for a reader that resolves with the core schema itself (any conforming YAML 1.2
reader), outside the deviations: there `0x8000000000000000` is left plain by the emitter (the loader
reads a string) but a core-schema reader reads an integer. -/
theorem scalar_reread_core (inFlow : Bool) (s : List Char) (style : Style)
    (hdev : deviates s = false) :
    loadScalar coreResolve (valueCtx inFlow) (yamlQuoteStringWithStyle .v1 inFlow s style) =
      some (.str s) := by
  have hq : loadScalar coreResolve (valueCtx inFlow) (yamlQuoteString .v1 inFlow s) = some (.str s) := by
    unfold yamlQuoteString
    by_cases hs : s = []
    · subst hs; simp [loadScalar, readSingle, readSingleSt]
    · rw [if_neg hs]
      by_cases hq : needsQuotingValue .v1 inFlow s = true
      · rw [if_pos hq]; exact double_quote_reread _ _ s
      · rw [if_neg hq]
        cases s with
        | nil => exact absurd rfl hs
        | cons c rest =>
          have f := value_plain_of_facts inFlow c rest
            (valueFacts_of inFlow _ (by simpa [needsQuotingValue] using hq))
          have hc : coreResolve (c :: rest) = .str (c :: rest) := by
            rw [← resolve_agrees_core _ hdev]; exact f.2.1
          simp [loadScalar, f.2.2.1, f.2.2.2, f.1, hc]
  cases style with
  | single =>
    unfold yamlQuoteStringWithStyle
    by_cases h : canSingleQuote s = true
    · simp only [h, if_true]; exact single_quote_reread _ _ s h
    · simp only [h]; exact hq
  | double => exact double_quote_reread _ _ s
  | other => exact hq

example : loadScalar coreResolve .blockValue
    (yamlQuoteString .v1 false "0x8000000000000000".toList) ≠
    some (.str "0x8000000000000000".toList) := by decide

/-! ## Literal block scalars on the streaming route -/

/-- `block_scalar_indicator_reread` (PARTIAL): whenever the block-scalar arm of `stream_yaml_value`
decides for block style (`blockScalarDecision … = some e`: `e` the explicit indentation indicator or
none), the lines `stream_yaml_block_scalar` writes for a literal scalar under a parent indented `n`
read back — with that indicator, or by auto-detection when there is none — as exactly the value's
content lines.  This is the obligation the indicator decision ("the first NON-BLANK content line
starts with a space") exists for.
Missing: the last step from content lines to the value (joining with line breaks and the chomping
indicator's treatment of the final breaks), and the folded style (`widen_folded_breaks`); both are
covered by the `sbl`/`sloop`/`cli` correspondence. -/
theorem block_scalar_indicator_reread (n k : Nat) (decoded : List Char) (e : Option Nat)
    (hd : blockScalarDecision k (n + k) decoded = some e) :
    readLiteralLines n e (literalBodyLines (n + k) decoded) = some (literalContentLines decoded) :=
  literal_lines_reread n k decoded e hd

/-- Non-vacuity, and why the decision must look past leading blank lines: for the value
`"\n  foo\nbar\n"` the decision is "indicator 2"; without it auto-detection takes the first
non-blank line's own two spaces for indentation and `bar` no longer fits. -/
example :
    let v := "\n  foo\nbar\n".toList
    blockScalarDecision 2 2 v = some (some 2) ∧
    streamBlockLiteral 2 (some 2) v = "|2\n\n    foo\n  bar".toList ∧
    readLiteralLines 0 (some 2) (literalBodyLines 2 v) = some (literalContentLines v) ∧
    readLiteralLines 0 none (literalBodyLines 2 v) = none := by decide

/-! ## Whole documents on the DOM route (block mappings) -/

section Block
open SV.Yaml.Block

/-- `emit_load` (PARTIAL): for every document that is a block mapping whose values are strings or
non-empty nested block mappings, to any depth, and for every indentation step ≥ 1, the lines the
(fixed) DOM emitter writes — keys through `yaml_quote_key`, values through `yaml_quote_string`,
nested mappings one `indent_str` step deeper — load back to exactly that document.
Missing from the modelled subset (covered only by the `cli` loop): sequences (block and the compact
`- key:` form), flow collections and empty containers, non-string scalars, block scalars, comments,
anchors/aliases inside the layout, multi-document streams, `--tab`, and the split of a physical line
into its key and value tokens. -/
theorem emit_load_partial (step : Nat) (hstep : 1 ≤ step) (t : Tree) (hw : wf t = true) :
    loadDoc resolvePlainRs (emitLines .v1 step 0 t) = some t := by
  have h := readBlock_emit resolvePlainRs .v1 step (by omega)
    (fun top key => key_reread false top key) (fun s => quote_string_reread false s)
    t 0 [] ((emitLines .v1 step 0 t).length + 1) hw (by simp) (by simp)
  simp only [List.append_nil] at h
  simp [loadDoc, h]

/-- For every `--indent` value the CLI accepts (0..7) the fixed DOM emitter's step qualifies. -/
theorem emit_load_indent_partial (n : Nat) (t : Tree) (hw : wf t = true) :
    loadDoc resolvePlainRs (emitLines .v1 (domIndentWidth .v1 n) 0 t) = some t :=
  emit_load_partial _ (indent_step_positive n).1 t hw

/-- Non-vacuity: `a: {" k": "0x1F", c: {d: " x"}}`, `e: "true"`. -/
example :
    let t := Tree.cons "a".toList none
      (.cons " k".toList (some "0x1F".toList) .nil
        (.cons "c".toList none (.cons "d".toList (some " x".toList) .nil .nil) .nil))
      (.cons "e".toList (some "true".toList) .nil .nil)
    wf t = true ∧
    (emitLines .v1 2 0 t).map (fun l => (l.indent, String.ofList l.key, l.value.map String.ofList)) =
      [(0, "a", none), (2, "\" k\"", some "\"0x1F\""), (2, "c", none), (4, "d", some "\" x\""),
       (0, "e", some "\"true\"")] := by decide

/-- Before the fix, `-I 0` (step 0) wrote the nested mapping on its parent's column. -/
example :
    let t := Tree.cons "a".toList none (.cons "b".toList (some "x".toList) .nil .nil) .nil
    loadDoc resolvePlainRs (emitLines .v0 (domIndentWidth .v0 0) 0 t) ≠ some t := by decide

end Block

/-! ## Anchors and aliases -/

section Anchors
open SV.Yaml.Anchor

/-- `alias_sound` (DOM route: `enforce_anchor_soundness` then `emit_yaml_value`): for every value
tree and anchor table in which no anchor mark lies below an alias-marked node, and for every notion
of value equality, every alias that is printed refers to an anchor printed earlier in the same
document — the most recent one of that name — whose value equals the alias's value.
The side condition is necessary for the pass as a function over arbitrary tables (see
`alias_sound_needs_opaque`); tables built by `to_owned_with_comments` do carry marks below alias
nodes (they mirror the target's), and there soundness rests on that mirror invariant, which this
model does not contain — the end-to-end loop (`ALIAS-FAIL`) covers it. -/
theorem alias_sound (eqv : Forest → Forest → Bool) (f : Forest) (h : aliasOpaque f = true) :
    sound eqv (emit (enforce eqv f)) = true := by
  have := soundFrom_scan eqv f [] [] h
  simpa [sound, enforce, soundFrom] using this

/-- Non-vacuity: `a: &0 1`, `b: *0` (equal value) keeps the alias; `c: *0` with another value and
`d: *7` (never declared) lose theirs. -/
example :
    let f := Forest.cons 0 (.declares 0) 1 .nil (.cons 1 (.aliases 0) 1 .nil
      (.cons 2 (.aliases 0) 2 .nil (.cons 3 (.aliases 7) 1 .nil .nil)))
    aliasOpaque f = true ∧
    emit (enforce (fun a b => a == b) f) =
      [.decl 0 (nodeVal 0 1 .nil), .alias 0 (nodeVal 0 1 .nil)] := by decide

/-- The pass alone is NOT sound on arbitrary anchor tables: `a: &0 {k: 1}`, `b: *0` whose table
entry carries `k: &1` below the alias, `c: *1`.  The scan records `&1` while walking below `b`,
keeps `c: *1`, and the writer prints `b` as `*0` — so `&1` is never printed. -/
theorem alias_sound_needs_opaque :
    let f := Forest.cons 0 (.declares 0) 9 (.cons 5 .none 1 .nil .nil)
      (.cons 1 (.aliases 0) 9 (.cons 5 (.declares 1) 1 .nil .nil)
      (.cons 2 (.aliases 1) 1 .nil .nil))
    aliasOpaque f = false ∧ sound (fun a b => a == b) (emit (enforce (fun a b => a == b) f)) = false := by
  decide

/-- K2 (streaming route, identity/navigation — no soundness pass, `YamlIndex` keeps one position per
anchor name): `a: &0 1`, `b: *0`, `c: &0 2`, `d: *0` prints `a: 1`, `b: *0`, `c: &0 2`, `d: *0`.
This refutes the streaming analogue of `alias_sound`; the DOM route prints the same document
soundly. -/
theorem stream_alias_unsound_redeclared :
    let f := Forest.cons 0 (.declares 0) 1 .nil (.cons 1 (.aliases 0) 1 .nil
      (.cons 2 (.declares 0) 2 .nil (.cons 3 (.aliases 0) 2 .nil .nil)))
    sound (fun a b => a == b) (streamEmit f []) = false ∧
    sound (fun a b => a == b) (emit (enforce (fun a b => a == b) f)) = true := by
  decide

/-- K3 (streaming route, navigation, upstream #1350): the result of `.a` on
`k: &0 1`, `a: [*0]` is the subtree `[*0]`; the streaming writer prints the alias without its
anchor, the DOM route (which would run the pass on the result) drops the mark. -/
theorem stream_alias_unsound_navigation :
    let sub := Forest.cons 1 .none 9 (.cons 0 (.aliases 0) 1 .nil .nil) .nil
    sound (fun a b => a == b) (streamEmit sub []) = false ∧
    sound (fun a b => a == b) (emit (enforce (fun a b => a == b) sub)) = true := by
  decide

end Anchors

end SV.Props.C15
