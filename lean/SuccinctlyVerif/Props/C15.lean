/-
Props/C15 — yq never emits YAML it cannot read back (decision level).
Property theorems only; helper lemmas live in Proof/YamlEmit.lean.  `Rev.v1` is the source with the
`fix:` commit, `Rev.v0` the source before it; `current_is_fixed` ties the theorems to the working
tree (the marker is regenerated from the source on every run).
-/
import SuccinctlyVerif.Proof.YamlEmit
namespace SV.Props.C15
open SV.Yaml SV.Yaml.Emit

/-- The working tree's `yaml_quote_string` is the fixed revision (generated marker). -/
theorem current_is_fixed : currentRev = .v1 := by decide

example : currentRev ≠ .v0 := by decide

/-- `yaml_double_quote_escaped`: for every string, in every context and for every plain-scalar
resolver, the double-quoted text reads back as that string. -/
theorem double_quote_reread (resolve : List Char → Scalar) (ctx : Ctx) (s : List Char) :
    loadScalar resolve ctx (yamlDoubleQuoteEscaped s) = some (.str s) := by
  simp [loadScalar, yamlDoubleQuoteEscaped, readDouble_body]

example : yamlDoubleQuoteEscaped "a\"\n\x01é".toList = "\"a\\\"\\n\\x01é\"".toList := by decide

/-- `yaml_single_quote_escaped` under its guard `can_single_quote`. -/
theorem single_quote_reread (resolve : List Char → Scalar) (ctx : Ctx) (s : List Char)
    (h : canSingleQuote s = true) :
    loadScalar resolve ctx (yamlSingleQuoteEscaped s) = some (.str s) := by
  have hb : ∀ c ∈ s, isBreak c = false := by
    intro c hc
    apply isBreak_false_of_not_asciiControl
    simp only [canSingleQuote, Bool.not_eq_true', List.any_eq_false] at h
    simpa using h c hc
  simp [loadScalar, yamlSingleQuoteEscaped, readSingle_body s hb]

example : canSingleQuote "it's".toList = true ∧
    yamlSingleQuoteEscaped "it's".toList = "'it''s'".toList := by decide

/-- A string the fixed `yaml_quote_string` leaves unquoted is a plain scalar of exactly that content
in its context, and the loader's resolver types it as a string. -/
theorem plain_reread (inFlow : Bool) (s : List Char) (hne : s ≠ [])
    (h : needsQuotingValue .v1 inFlow s = false) :
    plainSafe (valueCtx inFlow) s = true ∧ resolvePlainRs s = .str s := by
  cases s with
  | nil => exact absurd rfl hne
  | cons c rest =>
    have f := value_plain_of_facts inFlow c rest (valueFacts_of inFlow _ h)
    exact ⟨f.1, f.2.1⟩

example : needsQuotingValue .v1 false "a:b#c -x".toList = false := by decide

/-- `yaml_quote_string` (fixed): whatever it prints for `s` — `''`, the double-quoted form or `s`
itself — loads back as the string `s`, in block and in flow context. -/
theorem quote_string_reread (inFlow : Bool) (s : List Char) :
    loadScalar resolvePlainRs (valueCtx inFlow) (yamlQuoteString .v1 inFlow s) = some (.str s) := by
  unfold yamlQuoteString
  by_cases hs : s = []
  · subst hs; simp [loadScalar, readSingle, readSingleSt]
  · rw [if_neg hs]
    by_cases hq : needsQuotingValue .v1 inFlow s = true
    · rw [if_pos hq]; exact double_quote_reread _ _ s
    · rw [if_neg hq]
      cases s with
      | nil => exact absurd rfl hs
      | cons c rest =>
        have f := value_plain_of_facts inFlow c rest
          (valueFacts_of inFlow _ (by simpa [needsQuotingValue] using hq))
        simp [loadScalar, f.2.2.1, f.2.2.2, f.1, f.2.1]

/-- `scalar_reread`: `yaml_quote_string_with_style` (fixed) for every string, every source style
and both contexts. -/
theorem scalar_reread (inFlow : Bool) (s : List Char) (style : Style) :
    loadScalar resolvePlainRs (valueCtx inFlow) (yamlQuoteStringWithStyle .v1 inFlow s style) =
      some (.str s) := by
  cases style with
  | single =>
    unfold yamlQuoteStringWithStyle
    by_cases h : canSingleQuote s = true
    · simp only [h, if_true]; exact single_quote_reread _ _ s h
    · simp only [h]; exact quote_string_reread inFlow s
  | double => exact double_quote_reread _ _ s
  | other => exact quote_string_reread inFlow s

example : yamlQuoteStringWithStyle .v1 false " x".toList .other = "\" x\"".toList := by decide
example : yamlQuoteStringWithStyle .v1 true "x, y".toList .other = "\"x, y\"".toList := by decide

end SV.Props.C15
