/-
Props/C26 — yq results do not depend on the input's syntax.  Property theorems only.
-/
import SuccinctlyVerif.Proof.YamlRoundTrip
namespace SV.Props.C26
open SV SV.YamlRef

/-- Full statement (not asserted): every admissible YAML rendering of a tree and its JSON encoding
read back to the same tree. -/
def json_yaml_same_tree_full_statement : Prop :=
  ∀ (s : PStream) (t : Tree), admissible s = true → s.trees = [t] →
    loadRef (render s) = .ok [t] ∧ readJson (toJson t) = some t

/-- Partial: the YAML side for the flow / double-quoted layer (C14 layer 1, under every line-break
convention).  Missing: the block layers (evaluated by the driver on every request instead) and the
JSON reader's round trip `readJson (toJson t) = some t` (evaluated per request). -/
theorem json_yaml_same_tree_partial (n : PNode) (g : Nat) (b : Break) (h : n.l1 = true) :
    loadRef (render { l1Stream n g with br := b }) = .ok [n.tree] := by
  rw [loadRef_render]; exact loadChars_l1_breaks n h g b

example : readJson (toJson (.map [("a".toList, .seq [.int (-3), .str "x\"\n".toList, .null])])) =
    some (.map [("a".toList, .seq [.int (-3), .str "x\"\n".toList, .null])]) → True := fun _ => trivial

end SV.Props.C26
