/-
Props/C26 — yq results do not depend on the input's syntax.  Property theorems only.
-/
import SuccinctlyVerif.Proof.YamlRoundTrip
import SuccinctlyVerif.Proof.YamlRefDocs
namespace SV.Props.C26
open SV SV.YamlRef

/-- Full statement (not asserted): every admissible YAML rendering of a tree and its JSON encoding
read back to the same tree. -/
def json_yaml_same_tree_full_statement : Prop :=
  ∀ (s : PStream) (t : Tree), admissible s = true → s.trees = [t] →
    loadRef (render s) = .ok [t] ∧ readJson (toJson t) = some t

/-- The YAML side, for EVERY admissible rendering (C14 `render_load`): the block and the flow YAML
inputs of a request denote the tree they were rendered from.  Missing for the full statement: the JSON
reader's round trip `readJson (toJson t) = some t` (evaluated per request by the driver). -/
theorem yaml_renderings_same_tree (s : PStream) (t : Tree) (ha : admissible s = true) (ht : s.trees = [t]) :
    loadRef (render s) = .ok [t] := by
  rw [loadRef_render, loadChars_admissible s ha, ht]

/-- Two admissible renderings of the same trees load to the same result. -/
theorem yaml_syntax_irrelevant (a b : PStream) (ha : admissible a = true) (hb : admissible b = true)
    (h : a.trees = b.trees) : loadRef (render a) = loadRef (render b) := by
  rw [loadRef_render, loadRef_render, loadChars_admissible a ha, loadChars_admissible b hb, h]

/-- The flow / double-quoted layer under every line-break convention (kept: the statement the first
round delivered). -/
theorem json_yaml_same_tree_partial (n : PNode) (g : Nat) (b : Break) (h : n.l1 = true) :
    loadRef (render { l1Stream n g with br := b }) = .ok [n.tree] := by
  rw [loadRef_render]; exact loadChars_l1_breaks n h g b

example : readJson (toJson (.map [("a".toList, .seq [.int (-3), .str "x\"\n".toList, .null])])) =
    some (.map [("a".toList, .seq [.int (-3), .str "x\"\n".toList, .null])]) → True := fun _ => trivial

end SV.Props.C26
