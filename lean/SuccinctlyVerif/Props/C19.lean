/-
Props/C19 — Malformed input never crashes the library or the CLI: the part that is pure logic.

Proved here (over Model/JsonTotal, where every slice / index / checked arithmetic operation of
`src/json/light.rs` and `src/dsv/cursor.rs` can answer `panic`): for EVERY text and EVERY node offset
`start < len` the accessors of the JSON value-access layer answer a value or a reported error, never
`panic`.  The node offset is arbitrary because, for malformed input, the non-validating semi-index
may place a node at any byte that begins a value.

NOT proved here (monitored by the harness instead, see tools/props/C19.py): the index builders, BP
navigation, validators, YAML, printers, jq evaluation, the jq/yq program parser and the CLI glue; and
anything a theorem cannot exhibit (stack overflow, allocation failure).
-/
import SuccinctlyVerif.Proof.JsonTotal
namespace SV.Props.C19
open SV.JsonTotal

/-- `["abc` — the text of finding F3, node at offset 1 (the unterminated string). -/
def f3Text : Bytes := #[91, 34, 97, 98, 99]

/-! ## Finding F3: `JsonString::raw_bytes` before the repair -/

/-- REFUTATION of totality for the pre-repair `JsonString::raw_bytes` (`&text[start..find_end()]`):
on `["abc` with the string node at offset 1 the slice end is `len + 1` and the model answers `panic`
(replayed on the implementation: `C19 acc 5b22616263 1` answered `raw=PANIC` before the repair). -/
theorem raw_bytes_v0_refuted : rawBytesV0 f3Text 1 = .panic := by decide

/-- The exact guard of the pre-repair code: it panics if and only if the string has no closing quote
(`find_string_end` ran to the end of the text). -/
theorem raw_bytes_v0_total_partial (t : Bytes) (start : Nat) (h : start < t.size) :
    rawBytesV0 t start = .panic ↔ findStringEnd t start = .ok t.size :=
  rawBytesV0_panic_iff t start h

example : findStringEnd f3Text 1 = .ok f3Text.size := by decide

/-! ## Totality of the current source -/

/-- `JsonString::raw_bytes` (repaired: end clamped to the text length) is total. -/
theorem json_access_total_raw_bytes (t : Bytes) (start : Nat) (h : start < t.size) :
    rawBytes t start ≠ .panic := by
  obtain ⟨b, hb⟩ := rawBytes_ok t start h
  rw [hb]; intro hh; cases hh

example : rawBytes f3Text 1 = .ok #[34, 97, 98, 99] := by decide

/-- `JsonString::raw_and_escaped` is total. -/
theorem json_access_total_raw_and_escaped (t : Bytes) (start : Nat) (h : start < t.size) :
    rawAndEscaped t start ≠ .panic := by
  obtain ⟨b, hb⟩ := rawAndEscaped_ok t start h
  rw [hb]; intro hh; cases hh

example : rawAndEscaped f3Text 1 = .ok (#[34, 97, 98, 99], false) := by decide

/-- `JsonString::as_str` (string end scan, body slice, UTF-8 check or `decode_escapes`) answers a
string or a reported error. -/
theorem json_access_total_as_str (t : Bytes) (start : Nat) (h : start < t.size) :
    asStr t start ≠ .panic := asStr_noPanic t start h

example : asStr f3Text 1 = .ok [97, 98, 99] := by decide +kernel

/-- `decode_escapes` on ANY byte string (including truncated `\u` escapes and lone surrogates). -/
theorem decode_escapes_total (bs : Bytes) : decodeEscapes bs ≠ .panic := decodeEscapes_noPanic bs

/-- `"\ud800` truncated inside the escape: a reported error. -/
example : decodeEscapes #[92, 117, 100, 56, 48, 48] = .err .unicode := by decide
/-- `😀` decodes to U+1F600. -/
example : decodeEscapes #[92, 117, 100, 56, 51, 100, 92, 117, 100, 101, 48, 48] = .ok [0xF0, 0x9F, 0x98, 0x80] := by
  decide

/-- `parse_hex4` on any byte string: the `u8` digit subtractions and the `u16` accumulation never
overflow. -/
theorem parse_hex4_total (hex : Bytes) : parseHex4 hex ≠ .panic := parseHex4_noPanic hex

example : parseHex4 #[102, 70, 102, 70] = .ok 0xFFFF := by decide

/-- `nested_number_span` + `JsonNumber::raw_bytes` are total. -/
theorem json_access_total_number (t : Bytes) (start : Nat) (h : start < t.size) :
    numberRawBytes t start ≠ .panic := by
  obtain ⟨b, hb⟩ := numberRawBytes_ok t start h
  rw [hb]; intro hh; cases hh

example : numberRawBytes #[91, 45, 49, 101, 43, 93] 1 = .ok #[45, 49, 101, 43] := by decide

/-- `JsonCursor::value()` dispatch (first byte, `starts_with` on the rest) is total. -/
theorem json_access_total_value (t : Bytes) (pos : Nat) : valueKind t pos ≠ .panic := valueKind_noPanic t pos

example : valueKind #[116, 114, 117] 0 = .ok .error := by decide

/-- `JsonCursor::text_range()` is total for texts shorter than 2^32 bytes, and every range it returns
is a valid slice of the text.  `_partial`: the container scan counts nesting in a `u32` with checked
`+= 1`; a text of ≥ 2^32 opening brackets would overflow it (a panic in a debug build, a wrapped
counter in release), hence the length hypothesis — the exact guard of the code. -/
theorem json_access_total_text_range_partial (t : Bytes) (start : Nat) (hlen : t.size < 4294967296) :
    ∃ r, textRange t start = .ok r ∧ ∀ a b, r = some (a, b) → a ≤ b ∧ b ≤ t.size :=
  textRange_spec t start hlen

example : textRange f3Text 0 = .ok none := by decide
example : textRange f3Text 1 = .ok (some (1, 5)) := by decide

/-- `JsonCursor::raw_bytes()` (`&text[start..end]` over `text_range`) is total under the same guard. -/
theorem json_access_total_cursor_raw_bytes_partial (t : Bytes) (start : Nat) (hlen : t.size < 4294967296) :
    cursorRawBytes t start ≠ .panic := by
  obtain ⟨b, hb⟩ := cursorRawBytes_ok t start hlen
  rw [hb]; intro hh; cases hh

/-- All accessors at once: for every text below 2^32 bytes and every node offset inside it, no
accessor of the JSON value-access layer panics. -/
theorem json_access_total (t : Bytes) (start : Nat) (h : start < t.size) (hlen : t.size < 4294967296) :
    rawBytes t start ≠ .panic ∧ rawAndEscaped t start ≠ .panic ∧ asStr t start ≠ .panic ∧
    numberRawBytes t start ≠ .panic ∧ valueKind t start ≠ .panic ∧ cursorRawBytes t start ≠ .panic :=
  ⟨json_access_total_raw_bytes t start h, json_access_total_raw_and_escaped t start h,
   json_access_total_as_str t start h, json_access_total_number t start h, json_access_total_value t start,
   json_access_total_cursor_raw_bytes_partial t start hlen⟩

/-! ## DSV -/

/-- `DsvCursor::current_field` (`&text[start..end]` with `end` = the marker selected by
`markers_select1(markers_rank1(start))`) is total for every cursor position whenever the index is
well-formed: marker positions strictly increasing and inside the text.  `_partial`: that the DSV
index builders produce such marker sets is not proved here (monitored: `dsv` requests, and C20/C21). -/
theorem dsv_current_field_total_partial (t : Bytes) (ms : List Nat) (pos : Nat)
    (hs : ms.Pairwise (· < ·)) (hin : ∀ m ∈ ms, m < t.size) : currentField t ms pos ≠ .panic := by
  obtain ⟨b, hb⟩ := currentField_ok t ms pos hs hin
  rw [hb]; intro hh; cases hh

example : currentField #[97, 44, 98] [1] 0 = .ok #[97] := by decide
/-- a marker outside the text (ill-formed index) does make the slice panic: the hypothesis is needed. -/
example : currentField #[97, 44, 98] [7] 0 = .panic := by decide

end SV.Props.C19
