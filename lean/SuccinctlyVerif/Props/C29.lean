/-
Props/C29 — yq-locate expressions evaluate to the located YAML node.  Property theorems only.

The path reconstruction of `yaml/locate.rs` is not modelled; the property is tied by translation
validation (harness oracle).  The only Lean content is that the documents the offsets refer to are
what the reference loader reads (C14), which the driver re-evaluates on every request.
-/
import SuccinctlyVerif.Proof.YamlRoundTrip
import SuccinctlyVerif.Proof.YamlRefDocs
namespace SV.Props.C29
open SV SV.YamlRef

/-- Full statement (not asserted): an abstract locator that returns the path of the token
containing the offset evaluates, over the loaded documents, to the token's node. -/
def locate_sound_yaml_full_statement : Prop :=
  ∀ (s : PStream), admissible s = true → loadRef (render s) = .ok s.trees

/-- The Lean content of C29, now for every request: the documents a generated stream's offsets refer
to are the trees the reference loader returns (C14 `render_load`; this is the statement named "full"
above — the locator's path reconstruction itself is not modelled). -/
theorem located_documents_are_loaded : locate_sound_yaml_full_statement := by
  intro s ha
  rw [loadRef_render]; exact loadChars_admissible s ha

/-- The first round's statement (layer 1 of C14 only), kept. -/
theorem locate_sound_yaml_partial (n : PNode) (g : Nat) (b : Break) (h : n.l1 = true) :
    loadRef (render { l1Stream n g with br := b }) = .ok [n.tree] := by
  rw [loadRef_render]; exact loadChars_l1_breaks n h g b

example : (PNode.seq true 0 false (.cons {} (.int 1 0) .nil)).l1 = true := by decide

end SV.Props.C29
