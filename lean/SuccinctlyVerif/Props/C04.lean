/-
Props/C04 — Balanced-parentheses navigation matches its linear-scan definition.
Property theorems only; helper lemmas live in Proof/BP*.lean.

Conventions.  `construct simd owned ws len k` is any of the constructors of `BalancedParens`
(`owned`: `new*` vs `from_words*`; `k`: NoSelect / WithSelect / WithCsPoppy at any rate; `simd`:
scalar or SSE4.1 L1/L2 builders); it is `none` exactly when the constructor panics (`len ≥ 2^32`).
The domain is the constructors' documented one: `|ws| = ⌈len/64⌉` (any bits above `len` in the
final word) and `len < 2^32`.  The right-hand sides are the linear-scan definitions of
`Spec/BP.lean`, `Spec/BPNav.lean`, `Spec/Bits.lean` over `bitsOf ws len`, the first `len` bits.
-/
import SuccinctlyVerif.Proof.BPTables
import SuccinctlyVerif.Proof.BPNavEq
import SuccinctlyVerif.Proof.BPClose3
import SuccinctlyVerif.Proof.BPSibling
import SuccinctlyVerif.Proof.BPFast2
import SuccinctlyVerif.Proof.BPSelect0
import SuccinctlyVerif.Proof.BPSse3
import SuccinctlyVerif.Proof.BPSelCS3
import SuccinctlyVerif.Proof.BPWrap
namespace SV.Props.C04
open SV SV.BP SV.BPM

/-- The four byte tables dumped from the current build equal their definitional bit scans for all
256 bytes (and all 16 start excesses for `BYTE_FIND_CLOSE`): minimum prefix excess, total excess,
maximum right-to-left running excess, and the bit at which a start excess of `i + 1` reaches 0
(8 if it does not). -/
theorem byte_tables_eq :
    Gen.BYTE_MIN_EXCESS_L = BPT.specByteMin ∧ Gen.BYTE_TOTAL_EXCESS_L = BPT.specByteTot ∧
    Gen.BYTE_MAX_EXCESS_REV_L = BPT.specByteMaxRev ∧ Gen.BYTE_FIND_CLOSE_L = BPT.specByteFindClose :=
  ⟨BPT.byteMin_eq, BPT.byteTot_eq, BPT.byteMaxRev_eq, BPT.byteFindClose_eq⟩

example : BPT.specByteMin.getD 0b00001011 0 = -2 := by decide +kernel

/-- Every constructor succeeds on its documented domain and the structure it builds is the model
structure over the stored words (final word masked for owned storage). -/
theorem construct_some (simd owned : Bool) (ws : List (BitVec 64)) (len : Nat) (k : SelKind) (hlen : len < 2 ^ 32) :
    construct simd owned ws len k = some (mkBP simd (if owned then maskFinalWord ws len else ws) len k) := by
  unfold construct buildOwned buildBorrowed build
  have : ¬ len ≥ 2 ^ 32 := by omega
  cases owned <;> simp [this]

/-- `len ≥ 2^32` panics in every constructor (the documented `assert!`). -/
theorem construct_panics (simd owned : Bool) (ws : List (BitVec 64)) (len : Nat) (k : SelKind) (hlen : 2 ^ 32 ≤ len) :
    construct simd owned ws len k = none := by
  unfold construct buildOwned buildBorrowed build
  cases owned <;> simp [hlen]

/-- The stored words denote the same first `len` bits as the given words, and there are as many. -/
theorem stored_ok (owned : Bool) (ws : List (BitVec 64)) (len : Nat) (hw : ws.length = (len + 63) / 64) :
    (if owned then maskFinalWord ws len else ws).length = (len + 63) / 64 ∧
    bitsOf (if owned then maskFinalWord ws len else ws) len = bitsOf ws len := by
  cases owned
  · simp [hw]
  · simp [BPR.maskFinalWord_length, BPR.bitsOf_maskFinalWord ws len hw, hw]

/-- `rank1(p)` = number of opens among the first `p` bits (all of them for `p ≥ len`), for every
constructor, select support, rate, build variant and any stray bits above `len`. The proof goes
through the rank directory: absolute `u32` block ranks (lossless because `len < 2^32`) and the
7 × 9-bit packed offsets (lossless because a block holds `WORDS_PER_RANK_BLOCK = 8` words, so an
offset is at most 448 < 512). -/
theorem rank1_eq (simd owned : Bool) (ws : List (BitVec 64)) (len : Nat) (k : SelKind) (p : Nat)
    (hw : ws.length = (len + 63) / 64) (hlen : len < 2 ^ 32) :
    (construct simd owned ws len k).map (fun I => I.rank1 p) = some (BP.rank1 (bitsOf ws len) p) := by
  obtain ⟨h1, h2⟩ := stored_ok owned ws len hw
  rw [construct_some simd owned ws len k hlen, Option.map_some, BPR.rank1_eq simd _ len k p h1 hlen, h2]; rfl

example : (construct false false [0xFFFFFFFFFFFFFFCB#64] 6 .noSelect).map (fun I => I.rank1 4) = some 3 := by
  decide +kernel

/-- `rank0(p)` = number of closes among the first `p` bits. -/
theorem rank0_eq (simd owned : Bool) (ws : List (BitVec 64)) (len : Nat) (k : SelKind) (p : Nat)
    (hw : ws.length = (len + 63) / 64) (hlen : len < 2 ^ 32) :
    (construct simd owned ws len k).map (fun I => I.rank0 p) = some (BP.rank0 (bitsOf ws len) p) := by
  obtain ⟨h1, h2⟩ := stored_ok owned ws len hw
  rw [construct_some simd owned ws len k hlen, Option.map_some, BPR.rank0_eq simd _ len k p h1 hlen, h2]; rfl

example : (construct false true [0xFFFFFFFFFFFFFFCB#64] 6 .noSelect).map (fun I => I.rank0 9) = some 3 := by
  decide +kernel

/-- `excess(p)` = opens minus closes among positions `0..=p` (0 out of range), reduced to `i32`:
the code computes it in wrapping `i32` from `rank1`, so for `2^31 ≤ len < 2^32` the mathematical
value may not fit the return type. -/
theorem excess_eq_wrap (simd owned : Bool) (ws : List (BitVec 64)) (len : Nat) (k : SelKind) (p : Nat)
    (hw : ws.length = (len + 63) / 64) (hlen : len < 2 ^ 32) :
    (construct simd owned ws len k).map (fun I => I.excess p) = some (wrapI32 (BP.excessAt (bitsOf ws len) p)) := by
  obtain ⟨h1, h2⟩ := stored_ok owned ws len hw
  rw [construct_some simd owned ws len k hlen, Option.map_some, BPR.excess_eq_wrap simd _ len k p h1 hlen, h2]

/-- `excess(p)` is exactly the linear-scan excess whenever it fits the `i32` return type
(`len < 2^31`). -/
theorem excess_eq (simd owned : Bool) (ws : List (BitVec 64)) (len : Nat) (k : SelKind) (p : Nat)
    (hw : ws.length = (len + 63) / 64) (hlen : len < 2 ^ 31) :
    (construct simd owned ws len k).map (fun I => I.excess p) = some (BP.excessAt (bitsOf ws len) p) := by
  obtain ⟨h1, h2⟩ := stored_ok owned ws len hw
  rw [construct_some simd owned ws len k (by omega), Option.map_some, BPR.excess_eq simd _ len k p h1 hlen, h2]

example : (construct false true [0x0#64] 8 .noSelect).map (fun I => I.excess 2) = some (-3) := by
  decide +kernel

/-- `depth(p)` = the excess at `p` cast `i32 as usize` (so a negative excess, possible only in
unbalanced sequences, appears as `2^64 − |e|`, exactly as in the code), `none` out of range;
`len < 2^31` as for `excess_eq`. -/
theorem depth_eq (simd owned : Bool) (ws : List (BitVec 64)) (len : Nat) (k : SelKind) (p : Nat)
    (hw : ws.length = (len + 63) / 64) (hlen : len < 2 ^ 31) :
    (construct simd owned ws len k).map (fun I => I.depth p) = some (BP.depth (bitsOf ws len) p) := by
  obtain ⟨h1, h2⟩ := stored_ok owned ws len hw
  rw [construct_some simd owned ws len k (by omega), Option.map_some, BPR.depth_eq simd _ len k p h1 hlen, h2]

example : (construct false true [0x0#64] 8 .noSelect).map (fun I => I.depth 0) = some (some 18446744073709551615) := by
  decide +kernel

/-- `is_open(p)` / `is_close(p)` read the bit at `p` (false out of range), also under stray bits. -/
theorem is_open_eq (simd owned : Bool) (ws : List (BitVec 64)) (len : Nat) (k : SelKind) (p : Nat)
    (hw : ws.length = (len + 63) / 64) (hlen : len < 2 ^ 32) :
    (construct simd owned ws len k).map (fun I => (I.isOpen p, I.isClose p)) =
      some (BP.isOpen (bitsOf ws len) p, BP.isClose (bitsOf ws len) p) := by
  obtain ⟨h1, h2⟩ := stored_ok owned ws len hw
  rw [construct_some simd owned ws len k hlen, Option.map_some, BPR.isOpen_eq simd _ len k p h1,
    BPR.isClose_eq simd _ len k p h1, h2]

/-- `first_child(p)` = `p + 1` when `p` and `p + 1` are both opens, else `none`. -/
theorem first_child_eq (simd owned : Bool) (ws : List (BitVec 64)) (len : Nat) (k : SelKind) (p : Nat)
    (hw : ws.length = (len + 63) / 64) (hlen : len < 2 ^ 32) :
    (construct simd owned ws len k).map (fun I => I.firstChild p) = some (BP.firstChild (bitsOf ws len) p) := by
  obtain ⟨h1, h2⟩ := stored_ok owned ws len hw
  rw [construct_some simd owned ws len k hlen, Option.map_some, BPR.firstChild_eq simd _ len k p h1, h2]

example : (construct true false [0xB#64] 6 (.csPoppy 3)).map (fun I => I.firstChild 0) = some (some 1) := by
  decide +kernel

/-! ### free functions `trees::{find_close, find_open, enclose}` (word skipping) -/

/-- `trees::find_close(words, len, p)` = the matching close of the open at `p` by the left-to-right
excess scan over the first `len` bits; `none` for `p ≥ len`, a close at `p`, or no match. Covers the
in-word kernel, the partial first word, skipping of whole words by `word_min_excess_i32` (byte
tables) and the masked final word, for every `|ws| ≥ ⌈len/64⌉` — surplus whole words beyond
`⌈len/64⌉` are allowed (finding F1, repaired: the scan stops at the first word lying wholly beyond
`len`) — with any bits above `len`; `len < 2^31` so that the `i32` running excess cannot wrap. -/
theorem find_close_eq (ws : List (BitVec 64)) (len p : Nat) (hw : (len + 63) / 64 ≤ ws.length)
    (hlen : len < 2 ^ 31) :
    freeFindClose ws.toArray len p = BP.findClose (bitsOf ws len) p :=
  BPC.freeFindClose_eq ws len p hw hlen

example : freeFindClose #[0xFFFFFFFFFFFFFFCB#64] 6 0 = some 5 := by decide +kernel
example : freeFindClose #[0xFFFFFFFF#64, 0x0#64] 96 0 = some 63 := by decide +kernel
example : freeFindClose #[0x1#64, 0x0#64] 1 0 = none := by decide +kernel

/-- `trees::find_open(words, len, p)` = the matching open of the close at `p` by the right-to-left
scan; no bound on `len` is needed beyond `|ws| = ⌈len/64⌉` (the model's excess is unbounded here:
for `len ≥ 2^31` the code's `i32` could wrap, which the statement does not cover — see the
`freeFindOpen` model, which uses exact integers). -/
theorem find_open_eq (ws : List (BitVec 64)) (len p : Nat) (hw : (len + 63) / 64 ≤ ws.length) :
    freeFindOpen ws.toArray len p = BP.findOpen (bitsOf ws len) p :=
  BPS.freeFindOpen_eq ws len p hw

example : freeFindOpen #[0xFFFFFFFFFFFFFFCB#64] 6 5 = some 0 := by decide +kernel

/-- `trees::enclose(words, len, p)` = the nearest enclosing open (parent) by the right-to-left scan,
including the skipping of whole words by `word_max_excess_rev`. -/
theorem enclose_eq (ws : List (BitVec 64)) (len p : Nat) (hw : (len + 63) / 64 ≤ ws.length)
    (hlen : len < 2 ^ 31) :
    freeEnclose ws.toArray len p = BP.enclose (bitsOf ws len) p :=
  BPS.freeEnclose_eq ws len p hw hlen

example : freeEnclose #[0xFFFFFFFFFFFFFFCB#64] 6 3 = some 0 := by decide +kernel

/-! ### methods built on the free functions -/

/-- `BalancedParens::find_open(p)` for every constructor. -/
theorem method_find_open_eq (simd owned : Bool) (ws : List (BitVec 64)) (len : Nat) (k : SelKind) (p : Nat)
    (hw : ws.length = (len + 63) / 64) (hlen : len < 2 ^ 32) :
    (construct simd owned ws len k).map (fun I => I.findOpen p) = some (BP.findOpen (bitsOf ws len) p) := by
  obtain ⟨h1, h2⟩ := stored_ok owned ws len hw
  rw [construct_some simd owned ws len k hlen, Option.map_some, BPS.findOpen_eq simd _ len k p h1, h2]

/-- `BalancedParens::enclose(p)` and `parent(p)` for every constructor. -/
theorem method_enclose_eq (simd owned : Bool) (ws : List (BitVec 64)) (len : Nat) (k : SelKind) (p : Nat)
    (hw : ws.length = (len + 63) / 64) (hlen : len < 2 ^ 31) :
    (construct simd owned ws len k).map (fun I => (I.enclose p, I.parent p)) =
      some (BP.enclose (bitsOf ws len) p, BP.parent (bitsOf ws len) p) := by
  obtain ⟨h1, h2⟩ := stored_ok owned ws len hw
  rw [construct_some simd owned ws len k (by omega), Option.map_some]
  unfold BPM.BP.parent BP.parent
  rw [BPS.enclose_eq simd _ len k p h1 hlen, h2]

example : (construct true true [0xFFFFFFFFFFFFFFCB#64] 6 .withSelect).map (fun I => I.enclose 3) = some (some 0) := by
  decide +kernel

/-! ### the range-min machinery of `find_close_from` -/

/-- Core lemma of every block skip (L0 words, L1 and L2 blocks, bytes): if the running excess
`d + 1` plus the block's minimum prefix excess stays positive, no position of the block is the
matching close, and the scan resumes after the block with the block's total excess added. -/
theorem block_min_sound (a b : List Bool) (i d : Nat) (h : 0 < (d : Int) + 1 + minExc a) :
    scanClose a i d = none ∧
    scanClose (a ++ b) i d = scanClose b (i + a.length) ((d : Int) + totExc a).toNat :=
  ⟨BPC.block_min_sound a i d h, BPC.scanClose_skip a b i d h⟩

example : scanClose ([true, false] ++ [false]) 0 0 = some 2 := by decide

/-- The per-word summaries computed through the byte tables are exact and the `i8` clamp of the L0
entries is lossless: `word_min_excess` / `_i32` (any `valid_bits ≤ 64`), `word_min_excess_unrolled`
and `word_max_excess_rev` return (minimum prefix excess, total excess) resp. (maximum right-to-left
running excess, total excess) of the word's bits. -/
theorem word_summaries_exact (w : BitVec 64) (vb : Nat) (hvb : vb ≤ 64) :
    wordMinExcess w vb = (minExc ((wordBits w).take vb), totExc ((wordBits w).take vb)) ∧
    wordMinExcessI32 w vb = (minExc ((wordBits w).take vb), totExc ((wordBits w).take vb)) ∧
    wordMinExcessUnrolled w = (minExc (wordBits w), totExc (wordBits w)) ∧
    wordMaxExcessRev w = (maxSufExc (wordBits w), totExc (wordBits w)) :=
  ⟨BPW.wordMinExcess_spec w vb hvb, BPW.wordMinExcessRaw_spec w vb hvb, BPW.wordMinExcessUnrolled_spec w,
    BPW.wordMaxExcessRev_spec w⟩

/-- **Index exactness** (scalar builders): every L0 / L1 / L2 entry is the (minimum prefix excess,
total excess) of the bits of its 64- / 2048- / 65536-bit block. The width side conditions are
discharged from the generated constants: `i8` clamp (a word's minimum is within ±64), `i16` fold
(`64 · FACTOR_L1 = 2048 ≤ 2^15`), `i32` fold (`2048 · FACTOR_L2 = 65536 ≤ 2^31`). -/
theorem index_exact (st : List (BitVec 64)) (len : Nat) (hw : st.length = (len + 63) / 64) (hne : st ≠ []) :
    buildL0 st len = ((List.range' 0 st.length).map fun i => BPI.summ (BPI.blk (bitsOf st len) 64 (64 * i))) ∧
    buildL1 (buildL0 st len) =
      ((List.range' 0 ((st.length + 31) / 32)).map fun j => BPI.summ (BPI.blk (bitsOf st len) 2048 (2048 * j))) ∧
    buildL2 (buildL1 (buildL0 st len)) =
      ((List.range' 0 (((st.length + 31) / 32 + 31) / 32)).map fun j =>
        BPI.summ (BPI.blk (bitsOf st len) 65536 (65536 * j))) :=
  BPI.index_exact st len hw hne

/-- `find_close_in_word_fast` (partial first byte, full bytes through `BYTE_MIN_EXCESS` /
`BYTE_FIND_CLOSE` with the bit-scan fallback, partial last byte) = the forward scan over the valid
bits of the word, for every word, start bit, start excess ≥ 1 and `valid_bits ≤ 64`. -/
theorem find_close_in_word_fast_eq (w : BitVec 64) (sb : Nat) (e : Int) (vb : Nat) (h1 : sb < vb) (h2 : vb ≤ 64)
    (he : 1 ≤ e) :
    findCloseInWordFast w sb e vb = scanClose (BPW.seg w sb (vb - sb)) sb (e - 1).toNat :=
  BPF.fast_spec w sb e vb h1 h2 he

/-- `find_close_from(start, e)` (the seven-state `ScanWord/CheckL0/1/2/FromL0/1/2` loop over the
exact index, `e ≥ 1`) = first position `≥ start` where the running excess reaches 0, for the scalar
index builders (`simd = false`), every storage / select support, `|ws| = ⌈len/64⌉`, `len < 2^31`
(so the `i32` excess cannot wrap). Proof: invariant "no match in `[start, pos)` ∧ running excess
exact" (`BPF.fcfLoop_sound`), block skipping by `block_min_sound` over `index_exact`, the dead
`is_close(pos) && excess <= 1` branches shown unreachable, termination measure
`7·(word boundaries left) + rank(state)` below the model's fuel. -/
theorem find_close_from_eq (owned : Bool) (ws : List (BitVec 64)) (len : Nat) (k : SelKind) (start e : Nat)
    (hw : ws.length = (len + 63) / 64) (hlen : len < 2 ^ 31) (he : 1 ≤ e) (hb : e + (len - start) < 2 ^ 31) :
    (construct false owned ws len k).map (fun I => I.findCloseFrom start e) =
      some (BP.findCloseFrom (bitsOf ws len) start e) := by
  obtain ⟨h1, h2⟩ := stored_ok owned ws len hw
  rw [construct_some false owned ws len k (by omega), Option.map_some,
    BPF.findCloseFrom_eq _ len k h1 hlen start e (by omega) (by omega), h2]
  unfold BPF.R BP.findCloseFrom
  have : ¬ e = 0 := by omega
  simp only [this, if_false]
  congr 2
  omega

/-- Method `find_close(p)` = matching close by the left-to-right scan (scalar builders). -/
theorem method_find_close_eq (owned : Bool) (ws : List (BitVec 64)) (len : Nat) (k : SelKind) (p : Nat)
    (hw : ws.length = (len + 63) / 64) (hlen : len < 2 ^ 31) :
    (construct false owned ws len k).map (fun I => I.findClose p) = some (BP.findClose (bitsOf ws len) p) := by
  obtain ⟨h1, h2⟩ := stored_ok owned ws len hw
  rw [construct_some false owned ws len k (by omega), Option.map_some, BPF.findClose_eq _ len k h1 hlen p, h2]

example : (construct false false [0xFFFFFFFFFFFFFFCB#64] 6 .noSelect).map (fun I => I.findClose 0) = some (some 5) := by
  decide +kernel

/-- `next_sibling(p)` and `subtree_size(p)` = their linear-scan definitions (scalar builders). -/
theorem next_sibling_subtree_size_eq (owned : Bool) (ws : List (BitVec 64)) (len : Nat) (k : SelKind) (p : Nat)
    (hw : ws.length = (len + 63) / 64) (hlen : len < 2 ^ 31) :
    (construct false owned ws len k).map (fun I => (I.nextSibling p, I.subtreeSize p)) =
      some (BP.nextSibling (bitsOf ws len) p, BP.subtreeSize (bitsOf ws len) p) := by
  obtain ⟨h1, h2⟩ := stored_ok owned ws len hw
  have hfc := BPF.findClose_eq _ len k h1 hlen p
  rw [construct_some false owned ws len k (by omega), Option.map_some,
    BPS.nextSibling_of_findClose false _ len k p h1 hfc, BPS.subtreeSize_of_findClose false _ len k p h1 hfc, h2]

example : (construct false true [0xFFFFFFFFFFFFFFCB#64] 6 .noSelect).map (fun I => (I.nextSibling 1, I.subtreeSize 0)) =
    some (some 3, some 2) := by decide +kernel

/-- **SSE4.1 builders = scalar builders.** The lane model of `build_l1_index_sse41` (byte-shift
prefix sums in wrapping `i16`, `PHMINPOSUW` with the 0x8000 bias, horizontal sum, scalar tail)
equals the scalar `i16` fold for *all* inputs; the lane model of `build_l2_index_sse41` (chunk-
relative `i16` lanes, `i32` accumulation) equals the scalar `i32` fold whenever the L1 lanes are
within ±2048, which `index_exact` guarantees; hence the `simd` build constructs the same structure. -/
theorem sse41_builders_eq_scalar (st : List (BitVec 64)) (len : Nat) (k : SelKind) (hw : st.length = (len + 63) / 64) :
    (∀ l0, buildL1Sse l0 = buildL1 l0) ∧
    (∀ l1, (∀ x ∈ l1, BPX.Bd x.1 ∧ BPX.Bd x.2) → buildL2Sse l1 = buildL2 l1) ∧
    mkBP true st len k = mkBP false st len k :=
  ⟨BPX.buildL1Sse_eq, BPX.buildL2Sse_eq, BPX.mkBP_simd_eq st len k hw⟩

example : buildL1Sse [(-1, 1), (0, 2), (-128, -32768), (5, 7), (0, 0), (1, 1), (2, 2), (3, 3), (-4, 9)] =
    buildL1 [(-1, 1), (0, 2), (-128, -32768), (5, 7), (0, 0), (1, 1), (2, 2), (3, 3), (-4, 9)] := by decide +kernel

/-- Every constructor of the `simd` build yields the structure of the default build. -/
theorem construct_simd_eq (simd owned : Bool) (ws : List (BitVec 64)) (len : Nat) (k : SelKind)
    (hw : ws.length = (len + 63) / 64) (hlen : len < 2 ^ 32) :
    construct simd owned ws len k = construct false owned ws len k := by
  cases simd
  · rfl
  · obtain ⟨h1, _⟩ := stored_ok owned ws len hw
    rw [construct_some true owned ws len k hlen, construct_some false owned ws len k hlen,
      BPX.mkBP_simd_eq _ len k h1]

/-- `find_close(p)`, `find_close_from`, `next_sibling(p)`, `subtree_size(p)` for the default *and*
the `simd` build. -/
theorem find_close_family_eq (simd owned : Bool) (ws : List (BitVec 64)) (len : Nat) (k : SelKind) (p : Nat)
    (hw : ws.length = (len + 63) / 64) (hlen : len < 2 ^ 31) :
    (construct simd owned ws len k).map (fun I => (I.findClose p, I.nextSibling p, I.subtreeSize p)) =
      some (BP.findClose (bitsOf ws len) p, BP.nextSibling (bitsOf ws len) p, BP.subtreeSize (bitsOf ws len) p) := by
  rw [construct_simd_eq simd owned ws len k hw (by omega)]
  obtain ⟨h1, h2⟩ := stored_ok owned ws len hw
  have hfc := BPF.findClose_eq _ len k h1 hlen p
  rw [construct_some false owned ws len k (by omega), Option.map_some, hfc,
    BPS.nextSibling_of_findClose false _ len k p h1 hfc, BPS.subtreeSize_of_findClose false _ len k p h1 hfc, h2]

example : (construct true true [0xFFFFFFFFFFFFFFCB#64] 6 .noSelect).map (fun I => (I.findClose 0, I.nextSibling 1, I.subtreeSize 0)) =
    some (some 5, some 3, some 2) := by decide +kernel

/-! ### storage, stray bits, select support, build variant -/

/-- Owned vs borrowed storage, stray bits above `len`, the select-support variant and its rate, and
the scalar vs SSE4.1 index builders do not change any answer of the operations proved above: two
structures over word vectors denoting the same first `len` bits agree on rank1, rank0, excess,
depth, is_open, is_close, first_child, find_open, enclose and parent. (For the operations that go
through `find_close_from` and for `select1`/`select0` this is checked by the correspondence only.) -/
theorem storage_strays_variant_irrelevant (simd simd' owned owned' : Bool) (ws ws' : List (BitVec 64)) (len : Nat)
    (k k' : SelKind) (p : Nat) (hw : ws.length = (len + 63) / 64) (hw' : ws'.length = (len + 63) / 64)
    (hbits : bitsOf ws len = bitsOf ws' len) (hlen : len < 2 ^ 31) :
    (construct simd owned ws len k).map (fun I => (I.rank1 p, I.rank0 p, I.excess p, I.depth p, I.isOpen p, I.isClose p,
        I.firstChild p, I.findOpen p, I.enclose p)) =
    (construct simd' owned' ws' len k').map (fun I => (I.rank1 p, I.rank0 p, I.excess p, I.depth p, I.isOpen p, I.isClose p,
        I.firstChild p, I.findOpen p, I.enclose p)) := by
  obtain ⟨h1, h2⟩ := stored_ok owned ws len hw
  obtain ⟨h1', h2'⟩ := stored_ok owned' ws' len hw'
  rw [construct_some simd owned ws len k (by omega), construct_some simd' owned' ws' len k' (by omega)]
  simp only [Option.map_some]
  rw [BPR.rank1_eq simd _ len k p h1 (by omega), BPR.rank1_eq simd' _ len k' p h1' (by omega),
    BPR.rank0_eq simd _ len k p h1 (by omega), BPR.rank0_eq simd' _ len k' p h1' (by omega),
    BPR.excess_eq simd _ len k p h1 hlen, BPR.excess_eq simd' _ len k' p h1' hlen,
    BPR.depth_eq simd _ len k p h1 hlen, BPR.depth_eq simd' _ len k' p h1' hlen,
    BPR.isOpen_eq simd _ len k p h1, BPR.isOpen_eq simd' _ len k' p h1',
    BPR.isClose_eq simd _ len k p h1, BPR.isClose_eq simd' _ len k' p h1',
    BPR.firstChild_eq simd _ len k p h1, BPR.firstChild_eq simd' _ len k' p h1',
    BPS.findOpen_eq simd _ len k p h1, BPS.findOpen_eq simd' _ len k' p h1',
    BPS.enclose_eq simd _ len k p h1 hlen, BPS.enclose_eq simd' _ len k' p h1' hlen, h2, h2', hbits]

example : bitsOf [0xFFFFFFFFFFFFFFCB#64] 6 = bitsOf [0xB#64] 6 := by decide +kernel


/-- `total_ones()` = number of opens among the first `len` bits (stray bits above `len` are not
counted, for borrowed storage too), and `select0(k)` (binary search over `rank0`) = position of the
`k`-th close by the left-to-right scan, `none` for `k ≥` number of closes — for every constructor,
select support, rate and build variant. -/
theorem select0_eq (simd owned : Bool) (ws : List (BitVec 64)) (len : Nat) (k : SelKind) (j : Nat)
    (hw : ws.length = (len + 63) / 64) (hlen : len < 2 ^ 32) :
    (construct simd owned ws len k).map (fun I => (I.totalOnes, I.select0 j)) =
      some ((bitsOf ws len).count true, BP.select0 (bitsOf ws len) j) := by
  obtain ⟨h1, h2⟩ := stored_ok owned ws len hw
  rw [construct_some simd owned ws len k hlen, Option.map_some, BPR.totalOnes_eq simd _ len k h1 hlen,
    BPR.select0_eq simd _ len k j h1 hlen, h2]
  rfl

example : (construct false false [0xFFFFFFFFFFFFFFCB#64] 6 (.csPoppy 1)).map (fun I => (I.totalOnes, I.select0 1)) =
    some (3, some 4) := by decide +kernel

/-- The same for the `find_close` family, `select0` and `total_ones`: owned vs borrowed storage,
stray bits, select support / rate and build variant do not change the answers. -/
theorem storage_strays_variant_irrelevant_2 (simd simd' owned owned' : Bool) (ws ws' : List (BitVec 64)) (len : Nat)
    (k k' : SelKind) (p : Nat) (hw : ws.length = (len + 63) / 64) (hw' : ws'.length = (len + 63) / 64)
    (hbits : bitsOf ws len = bitsOf ws' len) (hlen : len < 2 ^ 31) :
    (construct simd owned ws len k).map (fun I => ((I.findClose p, I.nextSibling p, I.subtreeSize p), (I.totalOnes, I.select0 p))) =
    (construct simd' owned' ws' len k').map (fun I => ((I.findClose p, I.nextSibling p, I.subtreeSize p), (I.totalOnes, I.select0 p))) := by
  have a := find_close_family_eq simd owned ws len k p hw hlen
  have a' := find_close_family_eq simd' owned' ws' len k' p hw' hlen
  have b := select0_eq simd owned ws len k p hw (by omega)
  have b' := select0_eq simd' owned' ws' len k' p hw' (by omega)
  rw [construct_some simd owned ws len k (by omega)] at a b ⊢
  rw [construct_some simd' owned' ws' len k' (by omega)] at a' b' ⊢
  simp only [Option.map_some, Option.some.injEq] at a a' b b' ⊢
  rw [Prod.mk.injEq] at *
  rw [a.1, a.2, a'.1, a'.2, b.1, b.2, b'.1, b'.2, hbits]
  exact ⟨rfl, rfl⟩

/-! ### select1 -/

/-- `select1(k)` for every select support: `NoSelect` returns `None` for every `k` (documented: no
select index); `WithSelect` (sampled `SelectIndex<u32>` at rate 256: `jump_to`, `scan_select`,
`select_in_word`) and `WithCsPoppy` at any rate (block samples, bracket, `partition_point` over
`rank_l1` as core's binary search, 9-bit offset walk, `select_in_word`) return the position of the
`k`-th open by the left-to-right scan, `None` for `k ≥` number of opens — for owned and borrowed
storage, any stray bits above `len`, default and `simd` builds. `select_in_word` is the CTZ path;
C02 (`select_ctz_eq`, `select_pdep_eq`, `select_paths_agree`) proves every dispatch path equal to
it. -/
theorem select1_eq (simd owned : Bool) (ws : List (BitVec 64)) (len : Nat) (k : SelKind) (j : Nat)
    (hw : ws.length = (len + 63) / 64) (hlen : len < 2 ^ 32) :
    (construct simd owned ws len k).map (fun I => I.select1 j) =
      some (match k with
        | .noSelect => none
        | _ => BP.select1 (bitsOf ws len) j) := by
  obtain ⟨h1, h2⟩ := stored_ok owned ws len hw
  rw [construct_some simd owned ws len k hlen, Option.map_some]
  cases k with
  | noSelect => rfl
  | withSelect => rw [BPR.select1_withSelect_eq simd _ len j h1 hlen, h2]; rfl
  | csPoppy rate => rw [BPR.select1_csPoppy_eq simd _ len rate j h1 hlen, h2]; rfl

example : (construct false true [0xB#64] 6 .noSelect).map (fun I => I.select1 0) = some none := by decide +kernel
example : (construct false false [0xFFFFFFFFFFFFFFCB#64] 6 (.csPoppy 2)).map (fun I => I.select1 2) = some (some 3) := by
  decide +kernel
example : (construct true true [0xFFFFFFFFFFFFFFCB#64] 6 .withSelect).map (fun I => I.select1 3) = some none := by
  decide +kernel

/-! ### beyond `2^31` bits (finding F13)

The constructors accept `len ≤ u32::MAX`, but `excess()`, `depth()` and `find_close_from` keep the
excess in an `i32`. `excess_eq_wrap` shows `excess()` is exact whenever the true value is
representable; the theorems about `depth`, `find_close`, `next_sibling`, `subtree_size`, `enclose`
carry `len < 2^31`. For `2^31 ≤ len < 2^32` that side condition is necessary: -/

/-- On `2^31` opens (a 256 MiB bitmap every constructor accepts) the depth of the last open is
`2^31`, but `depth()` — `excess() as usize` through the wrapping `i32` — yields `2^64 − 2^31`. -/
theorem depth_defect_beyond_i32 :
    (construct false true (List.replicate 33554432 (BitVec.allOnes 64)) 2147483648 .noSelect).map
        (fun I => I.depth 2147483647) = some (some 18446744071562067968) ∧
    BP.depth (bitsOf (List.replicate 33554432 (BitVec.allOnes 64)) 2147483648) 2147483647 = some 2147483648 :=
  BPR.depth_defect_beyond_i32

/-- Mechanism of the false match of `find_close` beyond `2^31` opens: with the `i32` excess wrapped
to `−2^31`, `excess + l2_min_excess` wraps to a positive value, the block is skipped without being
searched and the branch `is_close(pos) && excess <= 1` — unreachable while the excess is exact
(`find_close_from_eq`) — returns `pos`. One `CheckL2` step over an all-closes block. The end-to-end
instance (`2^31` opens then closes: `find_close(0)` = `Some(2^31)`, expected `None`) is the manual
replay `corpus/C04/finding-13-big.manual`. -/
theorem find_close_false_match_mechanism :
    fcfStep { words := #[0#64], len := 64, totalOnes := 0, l0 := #[(-64, -64)], l1 := #[(-64, -64)],
              l2 := #[(-65536, -65536)], rankL1 := #[0], rankL2 := #[0], sel := Sel.none }
      St.checkL2 (wrapI32 2147483648) 0 = Sum.inl (some 0) :=
  BPR.checkL2_false_match

end SV.Props.C04
