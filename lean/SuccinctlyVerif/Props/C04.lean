/-
Props/C04 — Balanced-parentheses navigation matches its linear-scan definition.
Property theorems only; helper lemmas live in Proof/BP*.lean.
-/
import SuccinctlyVerif.Proof.BPTables
namespace SV.Props.C04
open SV SV.BP SV.BPM

/-- The four byte tables dumped from the current build equal their definitional bit scans for all
256 bytes (and all 16 start excesses for `BYTE_FIND_CLOSE`): minimum prefix excess, total excess,
maximum right-to-left running excess, and the bit at which a start excess of `i + 1` reaches 0
(8 if it does not). -/
theorem byte_tables_eq :
    Gen.BYTE_MIN_EXCESS_L = BPT.specByteMin ∧ Gen.BYTE_TOTAL_EXCESS_L = BPT.specByteTot ∧
    Gen.BYTE_MAX_EXCESS_REV_L = BPT.specByteMaxRev ∧ Gen.BYTE_FIND_CLOSE_L = BPT.specByteFindClose :=
  ⟨BPT.byteMin_eq, BPT.byteTot_eq, BPT.byteMaxRev_eq, BPT.byteFindClose_eq⟩

example : BPT.specByteMin.getD 0b00001011 0 = -2 := by decide +kernel

end SV.Props.C04
