/-
Props/C04 — Balanced-parentheses navigation matches its linear-scan definition.
Property theorems only; helper lemmas live in Proof/BP*.lean.

Conventions.  `construct simd owned ws len k` is any of the constructors of `BalancedParens`
(`owned`: `new*` vs `from_words*`; `k`: NoSelect / WithSelect / WithCsPoppy at any rate; `simd`:
scalar or SSE4.1 L1/L2 builders); it is `none` exactly when the constructor panics (`len ≥ 2^32`).
The domain is the constructors' documented one: `|ws| = ⌈len/64⌉` (any bits above `len` in the
final word) and `len < 2^32`.  The right-hand sides are the linear-scan definitions of
`Spec/BP.lean`, `Spec/BPNav.lean`, `Spec/Bits.lean` over `bitsOf ws len`, the first `len` bits.
-/
import SuccinctlyVerif.Proof.BPTables
import SuccinctlyVerif.Proof.BPNavEq
namespace SV.Props.C04
open SV SV.BP SV.BPM

/-- The four byte tables dumped from the current build equal their definitional bit scans for all
256 bytes (and all 16 start excesses for `BYTE_FIND_CLOSE`): minimum prefix excess, total excess,
maximum right-to-left running excess, and the bit at which a start excess of `i + 1` reaches 0
(8 if it does not). -/
theorem byte_tables_eq :
    Gen.BYTE_MIN_EXCESS_L = BPT.specByteMin ∧ Gen.BYTE_TOTAL_EXCESS_L = BPT.specByteTot ∧
    Gen.BYTE_MAX_EXCESS_REV_L = BPT.specByteMaxRev ∧ Gen.BYTE_FIND_CLOSE_L = BPT.specByteFindClose :=
  ⟨BPT.byteMin_eq, BPT.byteTot_eq, BPT.byteMaxRev_eq, BPT.byteFindClose_eq⟩

example : BPT.specByteMin.getD 0b00001011 0 = -2 := by decide +kernel

/-- Every constructor succeeds on its documented domain and the structure it builds is the model
structure over the stored words (final word masked for owned storage). -/
theorem construct_some (simd owned : Bool) (ws : List (BitVec 64)) (len : Nat) (k : SelKind) (hlen : len < 2 ^ 32) :
    construct simd owned ws len k = some (mkBP simd (if owned then maskFinalWord ws len else ws) len k) := by
  unfold construct buildOwned buildBorrowed build
  have : ¬ len ≥ 2 ^ 32 := by omega
  cases owned <;> simp [this]

/-- `len ≥ 2^32` panics in every constructor (the documented `assert!`). -/
theorem construct_panics (simd owned : Bool) (ws : List (BitVec 64)) (len : Nat) (k : SelKind) (hlen : 2 ^ 32 ≤ len) :
    construct simd owned ws len k = none := by
  unfold construct buildOwned buildBorrowed build
  cases owned <;> simp [hlen]

/-- The stored words denote the same first `len` bits as the given words, and there are as many. -/
theorem stored_ok (owned : Bool) (ws : List (BitVec 64)) (len : Nat) (hw : ws.length = (len + 63) / 64) :
    (if owned then maskFinalWord ws len else ws).length = (len + 63) / 64 ∧
    bitsOf (if owned then maskFinalWord ws len else ws) len = bitsOf ws len := by
  cases owned
  · simp [hw]
  · simp [BPR.maskFinalWord_length, BPR.bitsOf_maskFinalWord ws len hw, hw]

/-- `rank1(p)` = number of opens among the first `p` bits (all of them for `p ≥ len`), for every
constructor, select support, rate, build variant and any stray bits above `len`. The proof goes
through the rank directory: absolute `u32` block ranks (lossless because `len < 2^32`) and the
7 × 9-bit packed offsets (lossless because a block holds `WORDS_PER_RANK_BLOCK = 8` words, so an
offset is at most 448 < 512). -/
theorem rank1_eq (simd owned : Bool) (ws : List (BitVec 64)) (len : Nat) (k : SelKind) (p : Nat)
    (hw : ws.length = (len + 63) / 64) (hlen : len < 2 ^ 32) :
    (construct simd owned ws len k).map (fun I => I.rank1 p) = some (BP.rank1 (bitsOf ws len) p) := by
  obtain ⟨h1, h2⟩ := stored_ok owned ws len hw
  rw [construct_some simd owned ws len k hlen, Option.map_some, BPR.rank1_eq simd _ len k p h1 hlen, h2]; rfl

example : (construct false false [0xFFFFFFFFFFFFFFCB#64] 6 .noSelect).map (fun I => I.rank1 4) = some 3 := by
  decide +kernel

/-- `rank0(p)` = number of closes among the first `p` bits. -/
theorem rank0_eq (simd owned : Bool) (ws : List (BitVec 64)) (len : Nat) (k : SelKind) (p : Nat)
    (hw : ws.length = (len + 63) / 64) (hlen : len < 2 ^ 32) :
    (construct simd owned ws len k).map (fun I => I.rank0 p) = some (BP.rank0 (bitsOf ws len) p) := by
  obtain ⟨h1, h2⟩ := stored_ok owned ws len hw
  rw [construct_some simd owned ws len k hlen, Option.map_some, BPR.rank0_eq simd _ len k p h1 hlen, h2]; rfl

example : (construct false true [0xFFFFFFFFFFFFFFCB#64] 6 .noSelect).map (fun I => I.rank0 9) = some 3 := by
  decide +kernel

/-- `excess(p)` = opens minus closes among positions `0..=p` (0 out of range), reduced to `i32`:
the code computes it in wrapping `i32` from `rank1`, so for `2^31 ≤ len < 2^32` the mathematical
value may not fit the return type. -/
theorem excess_eq_wrap (simd owned : Bool) (ws : List (BitVec 64)) (len : Nat) (k : SelKind) (p : Nat)
    (hw : ws.length = (len + 63) / 64) (hlen : len < 2 ^ 32) :
    (construct simd owned ws len k).map (fun I => I.excess p) = some (wrapI32 (BP.excessAt (bitsOf ws len) p)) := by
  obtain ⟨h1, h2⟩ := stored_ok owned ws len hw
  rw [construct_some simd owned ws len k hlen, Option.map_some, BPR.excess_eq_wrap simd _ len k p h1 hlen, h2]

/-- `excess(p)` is exactly the linear-scan excess whenever it fits the `i32` return type
(`len < 2^31`). -/
theorem excess_eq (simd owned : Bool) (ws : List (BitVec 64)) (len : Nat) (k : SelKind) (p : Nat)
    (hw : ws.length = (len + 63) / 64) (hlen : len < 2 ^ 31) :
    (construct simd owned ws len k).map (fun I => I.excess p) = some (BP.excessAt (bitsOf ws len) p) := by
  obtain ⟨h1, h2⟩ := stored_ok owned ws len hw
  rw [construct_some simd owned ws len k (by omega), Option.map_some, BPR.excess_eq simd _ len k p h1 hlen, h2]

example : (construct false true [0x0#64] 8 .noSelect).map (fun I => I.excess 2) = some (-3) := by
  decide +kernel

/-- `depth(p)` = the excess at `p` cast `i32 as usize` (so a negative excess, possible only in
unbalanced sequences, appears as `2^64 − |e|`, exactly as in the code), `none` out of range;
`len < 2^31` as for `excess_eq`. -/
theorem depth_eq (simd owned : Bool) (ws : List (BitVec 64)) (len : Nat) (k : SelKind) (p : Nat)
    (hw : ws.length = (len + 63) / 64) (hlen : len < 2 ^ 31) :
    (construct simd owned ws len k).map (fun I => I.depth p) = some (BP.depth (bitsOf ws len) p) := by
  obtain ⟨h1, h2⟩ := stored_ok owned ws len hw
  rw [construct_some simd owned ws len k (by omega), Option.map_some, BPR.depth_eq simd _ len k p h1 hlen, h2]

example : (construct false true [0x0#64] 8 .noSelect).map (fun I => I.depth 0) = some (some 18446744073709551615) := by
  decide +kernel

/-- `is_open(p)` / `is_close(p)` read the bit at `p` (false out of range), also under stray bits. -/
theorem is_open_eq (simd owned : Bool) (ws : List (BitVec 64)) (len : Nat) (k : SelKind) (p : Nat)
    (hw : ws.length = (len + 63) / 64) (hlen : len < 2 ^ 32) :
    (construct simd owned ws len k).map (fun I => (I.isOpen p, I.isClose p)) =
      some (BP.isOpen (bitsOf ws len) p, BP.isClose (bitsOf ws len) p) := by
  obtain ⟨h1, h2⟩ := stored_ok owned ws len hw
  rw [construct_some simd owned ws len k hlen, Option.map_some, BPR.isOpen_eq simd _ len k p h1,
    BPR.isClose_eq simd _ len k p h1, h2]

/-- `first_child(p)` = `p + 1` when `p` and `p + 1` are both opens, else `none`. -/
theorem first_child_eq (simd owned : Bool) (ws : List (BitVec 64)) (len : Nat) (k : SelKind) (p : Nat)
    (hw : ws.length = (len + 63) / 64) (hlen : len < 2 ^ 32) :
    (construct simd owned ws len k).map (fun I => I.firstChild p) = some (BP.firstChild (bitsOf ws len) p) := by
  obtain ⟨h1, h2⟩ := stored_ok owned ws len hw
  rw [construct_some simd owned ws len k hlen, Option.map_some, BPR.firstChild_eq simd _ len k p h1, h2]

example : (construct true false [0xB#64] 6 (.csPoppy 3)).map (fun I => I.firstChild 0) = some (some 1) := by
  decide +kernel

end SV.Props.C04
