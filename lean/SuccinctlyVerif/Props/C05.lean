/-
Props/C05 — JSON semi-index does not depend on the indexing engine.
Property theorems only; helper lemmas live in Proof/JsonSemi.lean.
-/
import SuccinctlyVerif.Proof.JsonSemi
namespace SV.Props.C05
open SV SV.JsonSemi

/-- placeholder while the model and correspondence are brought up -/
theorem reference_nil : (reference []).st = St.inJson := rfl

end SV.Props.C05
