/-
Props/C05 — JSON semi-index does not depend on the indexing engine.
Property theorems only; helper lemmas live in Proof/JsonSemi.lean.

Reference = `Spec/JsonSemi`: the byte-at-a-time state machines `reference` (standard cursor) and
`sreference` (simple cursor) producing IB bits, BP bits and the final state; `referenceWords` /
`sreferenceWords` are those bit lists packed LSB-first into 64-bit words (`pack`).  Every theorem
below is for *all* byte strings; the engine models are those of `Model/JsonSemi`.
-/
import SuccinctlyVerif.Proof.JsonSemi
namespace SV.Props.C05
open SV SV.JsonSemi

/-! ### finite obligations over the regenerated parts -/

/-- Every entry of the generated `TRANSITION_TABLE` / `PHI_TABLE` (all 256 bytes × 4 states), decoded
by `extract_next_state` / `extract_phi`, is the reference transition and the reference output. -/
theorem pfsm_step_eq (c : BitVec 8) (s : St) :
    (extractNextState (transitionEntry c) s, phiOut (extractPhi (phiEntry c) s)) = step s c := by
  have h := pfsm_step c s
  have h1 : extractNextState (transitionEntry c) s = (stateMachine c s).1 := by rw [← h]
  have h2 : extractPhi (phiEntry c) s = (stateMachine c s).2 := by rw [← h]
  rw [h1, h2]; exact stateMachine_spec c s

example : (extractNextState (transitionEntry 0x22#8) .inJson, extractPhi (phiEntry 0x22#8) .inJson)
    = (St.inString, 7#8) := by decide +kernel

/-- `classify_chars` (the intrinsic DAG `cmpeq / or / sub / min_epu8`, identical in `avx2.rs` and
`x86.rs`) yields, in every lane and for all 256 byte values, `0xFF` exactly where the scalar
predicate (`"`, `\`, `{[`, `}]`, `,:`, value character) holds and `0x00` elsewhere. -/
theorem classify_eq (c : BitVec 8) : classifyLane c = classifyLaneScalar c :=
  congrFun classifyLane_eq_scalar c

example : (classifyLane 0x7A#8).valueChars = 0xFF#8 ∧ (classifyLane 0x7B#8).valueChars = 0x00#8 ∧
    (classifyLane 0x7B#8).opens = 0xFF#8 := by decide

/-- Mask level: for a `W`-lane vector `ch`, bit `i` of each of the six `movemask` results is the
scalar predicate of byte `ch[i]`. -/
theorem classify_masks_eq (W : Nat) (ch : List (BitVec 8)) (i : Nat) (hW : i < W) (hi : i < ch.length) :
    testBit (classifyChars W ch).quotes i = isQuote ch[i] ∧
    testBit (classifyChars W ch).backslashes i = isBackslash ch[i] ∧
    testBit (classifyChars W ch).opens i = isOpen ch[i] ∧
    testBit (classifyChars W ch).closes i = isClose ch[i] ∧
    testBit (classifyChars W ch).delims i = isDelim ch[i] ∧
    testBit (classifyChars W ch).valueChars i = isValueChar ch[i] :=
  classify_bits W ch i hW hi

example : testBit (classifyChars 16 [0x20#8, 0x22#8]).quotes 1 = true := by decide

/-- The lane model reproduces the masks the compiled AVX2 `classify_chars` returned on this run
for every byte value (table dumped through the hook into `Generated/C05.lean`). -/
theorem classify_model_matches_avx2 :
    (List.range 256).map (fun b => classCode (BitVec.ofNat 8 b)) = Gen.JSON_CLASS_AVX2_L := by
  decide +kernel

/-- Same for the compiled SSE2 `classify_chars`. -/
theorem classify_model_matches_sse2 :
    (List.range 256).map (fun b => classCode (BitVec.ofNat 8 b)) = Gen.JSON_CLASS_SSE2_L := by
  decide +kernel

/-- `BitWriter`: writing a bit list with `write_bit` and calling `finish` yields the naive
LSB-first packing of that list into `⌈len/64⌉` words; `len()` is the number of bits written. -/
theorem bitwriter_pack (bs : List Bool) :
    (BitWriter.empty.writeAll bs).finish = pack bs ∧ (BitWriter.empty.writeAll bs).len = bs.length :=
  ⟨finish_writeAll bs, len_writeAll bs⟩

example : (BitWriter.empty.writeAll [true, false, true, true]).finish = [0b1101#64] := by decide

/-- Any sequence of `write_bit` / `write_bits(v, count ≤ 64)` / `write_zeros(n)` calls followed by
`finish` yields the naive packing of the concatenation of the bits each call denotes (`count`
lowest bits of `v`, LSB first; `n` zeros), and `len()` is their number. -/
theorem bitwriter_ops_pack (ops : List BwOp) (h : ∀ op ∈ ops, op.ok) :
    (ops.foldl BwOp.apply BitWriter.empty).finish = pack (ops.flatMap BwOp.denote) ∧
    (ops.foldl BwOp.apply BitWriter.empty).len = (ops.flatMap BwOp.denote).length := by
  rw [canon_nil, foldl_apply_canon ops h]
  rw [List.nil_append]
  exact ⟨finish_canon _, len_canon _⟩

example : ([BwOp.bit true, .zeros 62, .bits 0b111#64 3].foldl BwOp.apply BitWriter.empty).finish
    = [0x8000000000000001#64, 0x3#64] := by decide

/-! ### standard cursor: every engine = reference, for all byte strings -/

/-- `build_semi_index_scalar` returns the reference index. -/
theorem scalar_eq_reference (json : List (BitVec 8)) : buildScalarStd json = referenceWords json := by
  rw [buildScalarStd, finishBuilt_agrees (scalarLoop_agrees json .inJson .empty .empty)]
  simp [referenceWords, reference, run_eq_runG]

/-- `standard::build_semi_index` (table-driven PFSM) returns the reference index. -/
theorem pfsm_eq_reference (json : List (BitVec 8)) : buildPfsmStd json = referenceWords json := by
  rw [buildPfsmStd, pfsmLoop_eq_scalarLoop]; exact scalar_eq_reference json

/-- The chunked SIMD builder returns the reference index for *every* chunk width `W ≥ 1`
(classification of `W` lanes, mask-driven `process_chunk_standard`, zero-padded tail). -/
theorem simd_eq_reference (W : Nat) (hW : 0 < W) (json : List (BitVec 8)) :
    buildSimdStd W json = referenceWords json := by
  rw [buildSimdStd, finishBuilt_agrees (chunkLoop_agrees step W hW processChunkStd
    (fun ch n i h1 h2 s ib bp => processChunkStd_agrees W ch n i h1 h2 s ib bp)
    (json.length + 1) json (by omega) .inJson .empty .empty)]
  simp [referenceWords, reference, run_eq_runG]

/-- `simd::avx2::build_semi_index_standard` (32-byte chunks). -/
theorem avx2_eq_reference (json : List (BitVec 8)) : buildAvx2Std json = referenceWords json :=
  simd_eq_reference 32 (by decide) json

/-- `simd::x86::build_semi_index_standard` (SSE2, 16-byte chunks). -/
theorem sse2_eq_reference (json : List (BitVec 8)) : buildSse2Std json = referenceWords json :=
  simd_eq_reference 16 (by decide) json

/-! ### simple cursor -/

/-- `simple::build_semi_index` returns the simple-cursor reference index. -/
theorem simple_scalar_eq_reference (json : List (BitVec 8)) :
    buildScalarSimple json = sreferenceWords json := by
  rw [buildScalarSimple, finishBuilt_agrees (simpleLoop_agrees json .inJson .empty .empty)]
  simp [sreferenceWords, sreference, srun_eq_runG]

theorem simple_simd_eq_reference (W : Nat) (hW : 0 < W) (json : List (BitVec 8)) :
    buildSimdSimple W json = sreferenceWords json := by
  rw [buildSimdSimple, finishBuilt_agrees (chunkLoop_agrees sstep W hW processChunkSimple
    (fun ch n i h1 h2 s ib bp => processChunkSimple_agrees W ch n i h1 h2 s ib bp)
    (json.length + 1) json (by omega) .inJson .empty .empty)]
  simp [sreferenceWords, sreference, srun_eq_runG]

/-- `simd::avx2::build_semi_index_simple`. -/
theorem simple_avx2_eq_reference (json : List (BitVec 8)) :
    buildAvx2Simple json = sreferenceWords json := simple_simd_eq_reference 32 (by decide) json

/-- `simd::x86::build_semi_index_simple`. -/
theorem simple_sse2_eq_reference (json : List (BitVec 8)) :
    buildSse2Simple json = sreferenceWords json := simple_simd_eq_reference 16 (by decide) json

/-! ### dispatcher: every index built by the library is the reference index -/

/-- Whatever `is_x86_feature_detected!("avx2")` answers, the runtime-dispatched builders
(`json::simd::build_semi_index_standard` / `_simple`) return the reference index of their input, and
so do the PFSM builder and the scalar builders: IB words, BP words and final state are identical
across engines. -/
theorem library_index_is_reference (hasAvx2 : Bool) (json : List (BitVec 8)) :
    buildDispatchStd hasAvx2 json = referenceWords json ∧
    buildPfsmStd json = referenceWords json ∧
    buildScalarStd json = referenceWords json ∧
    buildDispatchSimple hasAvx2 json = sreferenceWords json ∧
    buildScalarSimple json = sreferenceWords json := by
  refine ⟨?_, pfsm_eq_reference json, scalar_eq_reference json, ?_, simple_scalar_eq_reference json⟩
  · cases hasAvx2
    · exact sse2_eq_reference json
    · exact avx2_eq_reference json
  · cases hasAvx2
    · exact simple_sse2_eq_reference json
    · exact simple_avx2_eq_reference json

/-- Non-vacuity: a 40-byte document (crosses a 16- and a 32-byte chunk edge inside a string with an
escaped quote); all engines yield the same non-trivial index. -/
example :
    let doc : List (BitVec 8) :=
      [0x7B, 0x22, 0x61, 0x22, 0x3A, 0x22, 0x78, 0x78, 0x78, 0x78, 0x78, 0x78, 0x78, 0x78, 0x5C, 0x22,
       0x79, 0x79, 0x79, 0x79, 0x79, 0x79, 0x79, 0x79, 0x79, 0x79, 0x79, 0x79, 0x79, 0x79, 0x5C, 0x5C,
       0x22, 0x2C, 0x22, 0x62, 0x22, 0x3A, 0x31, 0x7D]
    buildAvx2Std doc = ⟨[0x4400000023#64], [0xab#64], .inJson⟩ ∧
    buildSse2Std doc = buildAvx2Std doc ∧ buildPfsmStd doc = buildAvx2Std doc := by
  decide +kernel

/-- The six lane DAGs of `classify_chars`, regenerated on this run from `src/json/simd/avx2.rs`
(AVX2) and `src/json/simd/x86.rs` (SSE2) (Generated/C05.lean), compute for all 256 byte values the
lane values of the hand-written `classifyLane` that `classify_eq` and the engine theorems are about. -/
theorem lanes_generated_eq :
    (∀ c : BitVec 8, Gen.json_classify_avx2_quotes_lane c = (classifyLane c).quotes) ∧
    (∀ c : BitVec 8, Gen.json_classify_avx2_backslashes_lane c = (classifyLane c).backslashes) ∧
    (∀ c : BitVec 8, Gen.json_classify_avx2_opens_lane c = (classifyLane c).opens) ∧
    (∀ c : BitVec 8, Gen.json_classify_avx2_closes_lane c = (classifyLane c).closes) ∧
    (∀ c : BitVec 8, Gen.json_classify_avx2_delims_lane c = (classifyLane c).delims) ∧
    (∀ c : BitVec 8, Gen.json_classify_avx2_value_chars_lane c = (classifyLane c).valueChars) ∧
    (∀ c : BitVec 8, Gen.json_classify_sse2_quotes_lane c = (classifyLane c).quotes) ∧
    (∀ c : BitVec 8, Gen.json_classify_sse2_backslashes_lane c = (classifyLane c).backslashes) ∧
    (∀ c : BitVec 8, Gen.json_classify_sse2_opens_lane c = (classifyLane c).opens) ∧
    (∀ c : BitVec 8, Gen.json_classify_sse2_closes_lane c = (classifyLane c).closes) ∧
    (∀ c : BitVec 8, Gen.json_classify_sse2_delims_lane c = (classifyLane c).delims) ∧
    (∀ c : BitVec 8, Gen.json_classify_sse2_value_chars_lane c = (classifyLane c).valueChars) := by
  repeat' constructor
  all_goals decide

example : Gen.json_classify_avx2_value_chars 0x7a#8 = true ∧ Gen.json_classify_avx2_value_chars 0x7b#8 = false := by
  decide

end SV.Props.C05
