/-
Props/C16 — YAML index does not depend on the SIMD dispatch level: kernel level.

Every vectorised scanning kernel of `src/yaml/simd/x86.rs` (AVX2: 32-byte loop + one 16-byte step +
scalar tail; SSE2: 16-byte loop + scalar tail), as modelled at lane level in Model/YamlSimd.lean,
returns exactly what the scalar kernel of `simd/mod.rs` / `simd/scalar.rs` (Spec/YamlKernels.lean)
returns — for every buffer, every `start`, `end`, `min_indent`, at every dispatch level.
`parse_simd_clamp` recognises exactly the documented spellings and can only lower the level.

NOT formalised: the step from "every kernel is level-independent" to "the index built by
`parser.rs` is level-independent" (the parser is not modelled); that part of C16 is checked by
translation validation across the three build/dispatch configurations (tools/props/C16.py).

Property theorems only; helper lemmas live in Proof/YamlChunked.lean and Proof/YamlKernels.lean.
-/
import SuccinctlyVerif.Proof.YamlKernels
import SuccinctlyVerif.Generated.C16
namespace SV.Props.C16
open SV SV.YamlK

/-! ### lane lemmas (all 256 byte values) -/

/-- The `cmpeq/or` tree of `find_quote_or_escape_{avx2,sse2}` sets a lane's movemask bit exactly
when the byte is `"` or `\`. -/
theorem lane_quote_or_escape (x : Byte) : (laneQuoteOrEsc x).msb = isQuoteOrEsc x := laneQuoteOrEsc_msb x
example : (laneQuoteOrEsc 0x5c#8).msb = true ∧ (laneQuoteOrEsc 0xdc#8).msb = false := by decide

/-- `find_single_quote_*`: lane bit ⇔ `'`. -/
theorem lane_single_quote (x : Byte) : (laneSingleQuote x).msb = isSingleQuote x := laneSingleQuote_msb x
example : (laneSingleQuote 0x27#8).msb = true ∧ (laneSingleQuote 0xa7#8).msb = false := by decide

/-- `count_leading_spaces_*` / indentation count of `find_block_scalar_end_*`: lane bit ⇔ space. -/
theorem lane_space (x : Byte) : (laneSpace x).msb = isSpace x := laneSpace_msb x
example : (laneSpace 0x20#8).msb = true ∧ (laneSpace 0xa0#8).msb = false := by decide

/-- `find_newline_*`: lane bit ⇔ `\n`. -/
theorem lane_newline (x : Byte) : (laneNewline x).msb = isLF x := laneNewline_msb x
example : (laneNewline 0x0a#8).msb = true ∧ (laneNewline 0x0d#8).msb = false := by decide

/-- `find_block_scalar_end_*`: lane bit ⇔ `\n` or `\r`. -/
theorem lane_break (x : Byte) : (laneBreak x).msb = isBreak x := laneBreak_msb x
example : (laneBreak 0x0d#8).msb = true ∧ (laneBreak 0x8d#8).msb = false := by decide

/-- `parse_anchor_name_avx2`: `definite` lane bit ⇔ whitespace or one of `[ ] { } ,`. -/
theorem lane_anchor_definite (x : Byte) : (laneAnchorDefinite x).msb = isAnchorStop x :=
  laneAnchorDefinite_msb x
example : (laneAnchorDefinite 0x7d#8).msb = true ∧ (laneAnchorDefinite 0x3a#8).msb = false := by decide

/-- `classify_yaml_chars_*`: the lane of `cmpeq(chunk, set1(c))` has its bit set ⇔ byte = `c`,
for every compared byte `c`. -/
theorem lane_cmpeq (c x : Byte) : (cmpeq c x).msb = (x == c) := cmpeq_msb c x
example : (cmpeq 0x23#8 0x23#8).msb = true ∧ (cmpeq 0x23#8 0xa3#8).msb = false := by decide

/-! ### kernel = scalar, at every dispatch level -/

/-- `find_quote_or_escape`: AVX2 = SSE2 = scalar = first `"`/`\` in `[start, min(end,len))`,
for every buffer, start and end (including `end` beyond the buffer and empty ranges). -/
theorem find_quote_or_escape_kernel_eq_scalar (lvl : Level) (buf : List Byte) (start end_ : Nat) :
    findQuoteOrEscape lvl buf start end_ = findIn isQuoteOrEsc buf start end_ :=
  findQuoteOrEscape_eq lvl buf start end_

example : findQuoteOrEscape .avx2 (List.replicate 37 0x61#8 ++ [0x5c#8, 0x22#8, 0x61#8]) 1 100 = some 36 := by
  decide +kernel
example : findQuoteOrEscape .sse2 (List.replicate 37 0x61#8 ++ [0x5c#8, 0x22#8, 0x61#8]) 1 37 = none := by
  decide +kernel

/-- `find_single_quote`: AVX2 = SSE2 = scalar. -/
theorem find_single_quote_kernel_eq_scalar (lvl : Level) (buf : List Byte) (start end_ : Nat) :
    findSingleQuote lvl buf start end_ = findIn isSingleQuote buf start end_ :=
  findSingleQuote_eq lvl buf start end_

example : findSingleQuote .avx2 (List.replicate 50 0x61#8 ++ [0x27#8]) 2 51 = some 48 := by decide +kernel

/-- `find_newline`: AVX2 = SSE2 = scalar = first `\n` at or after `start`. -/
theorem find_newline_kernel_eq_scalar (lvl : Level) (buf : List Byte) (start : Nat) :
    findNewline lvl buf start = findFrom isLF buf start :=
  findNewline_eq lvl buf start

example : findNewline .sse2 (List.replicate 20 0x0d#8 ++ [0x0a#8]) 3 = some 17 := by decide +kernel

/-- `count_leading_spaces`: AVX2 = SSE2 = scalar = length of the run of spaces at `start`. -/
theorem count_leading_spaces_kernel_eq_scalar (lvl : Level) (buf : List Byte) (start : Nat) :
    countLeadingSpacesAt lvl buf start = countLeadingSpaces buf start :=
  countLeadingSpacesAt_eq lvl buf start

example : countLeadingSpacesAt .avx2 (List.replicate 49 0x20#8 ++ [0x09#8, 0x20#8]) 0 = 49 := by decide +kernel

/-- `find_block_scalar_end`: the raw AVX2 / SSE2 kernels (`while pos + W < len` chunk loop, bit loop
over the line-break mask, vector indentation count) return what `find_block_scalar_end_scalar`
returns, for every buffer, start and `min_indent`. -/
theorem find_block_scalar_end_kernel_eq_scalar (lvl : Level) (buf : List Byte) (start minIndent : Nat) :
    blockEndKernel lvl buf start minIndent = findBlockScalarEndScalar buf start minIndent :=
  blockEndKernel_eq lvl buf start minIndent

/-- … and so does the public wrapper (`start >= len → len` on x86). -/
theorem find_block_scalar_end_eq_scalar (lvl : Level) (buf : List Byte) (start minIndent : Nat) :
    findBlockScalarEnd lvl buf start minIndent = findBlockScalarEndScalar buf start minIndent :=
  findBlockScalarEnd_eq lvl buf start minIndent

-- "  a\r\n" ++ 40 spaces ++ "b\r\nc\n" padded: the block (indent 2) ends at the dedented `c`
example : blockEndKernel .avx2
    ([0x20#8, 0x20#8, 0x61#8, 0x0d#8, 0x0a#8] ++ List.replicate 40 0x20#8 ++ [0x62#8, 0x0d#8, 0x0a#8, 0x63#8, 0x0a#8]
      ++ List.replicate 40 0x61#8) 0 2 = 48 := by decide +kernel

/-- `parse_anchor_name`: the AVX2 kernel (32-byte loop, definite/colon masks, colon look-ahead,
hand-over to the scalar kernel) returns what `parse_anchor_name_scalar` returns. -/
theorem parse_anchor_name_kernel_eq_scalar (buf : List Byte) (start : Nat) :
    parseAnchorNameAvx2 buf start = parseAnchorNameScalar buf start :=
  parseAnchorNameAvx2_eq buf start

/-- … and so does the dispatching public function at every level (SSE2 and `scalar-yaml` run the
scalar kernel; AVX2 runs the vector kernel only when `start + 16 <= len`). -/
theorem parse_anchor_name_eq_scalar (lvl : Level) (buf : List Byte) (start : Nat) :
    parseAnchorName lvl buf start = parseAnchorNameScalar buf start :=
  parseAnchorName_eq lvl buf start

-- a bare colon is a name character, `: ` terminates: "ab:c" ++ 30×'x' ++ ": " ++ …
example : parseAnchorNameAvx2
    ([0x61#8, 0x62#8, 0x3a#8, 0x63#8] ++ List.replicate 30 0x78#8 ++ [0x3a#8, 0x20#8] ++ List.replicate 10 0x78#8) 0 = 34 := by
  decide +kernel

/-- Any two dispatch levels give the same answer for every kernel. -/
theorem kernels_level_independent (l₁ l₂ : Level) (buf : List Byte) (a b : Nat) :
    findQuoteOrEscape l₁ buf a b = findQuoteOrEscape l₂ buf a b ∧
    findSingleQuote l₁ buf a b = findSingleQuote l₂ buf a b ∧
    findNewline l₁ buf a = findNewline l₂ buf a ∧
    countLeadingSpacesAt l₁ buf a = countLeadingSpacesAt l₂ buf a ∧
    findBlockScalarEnd l₁ buf a b = findBlockScalarEnd l₂ buf a b ∧
    parseAnchorName l₁ buf a = parseAnchorName l₂ buf a := by
  simp only [findQuoteOrEscape_eq, findSingleQuote_eq, findNewline_eq, countLeadingSpacesAt_eq,
    findBlockScalarEnd_eq, parseAnchorName_eq, and_self]

example : findQuoteOrEscape .avx2 [0x22#8] 0 1 = findQuoteOrEscape .scalar [0x22#8] 0 1 :=
  (kernels_level_independent .avx2 .scalar [0x22#8] 0 1).1

/-! ### classify_yaml_chars -/

/-- `classify_yaml_chars::<HAS_CR>`: `None` iff fewer than 16 bytes remain; otherwise every mask has
bit `i` set exactly when byte `offset+i` is that character, for the `width` bytes classified
(32 when AVX2 is enabled and 32 bytes remain, else 16); `carriage_returns = 0` under `HAS_CR = false`. -/
theorem classify_yaml_chars_eq_spec (avx2 hasCr : Bool) (buf : List Byte) (offset : Nat) :
    classifyYamlChars avx2 hasCr buf offset =
      if offset + 16 > buf.length then none
      else some (classSpec hasCr buf offset (if offset + 32 ≤ buf.length ∧ avx2 = true then 32 else 16)) :=
  classifyYamlChars_eq avx2 hasCr buf offset

example : (classifyYamlChars true true (List.replicate 31 0x3a#8 ++ [0x0d#8]) 0).map (·.carriageReturns)
    = some (2 ^ 31) := by decide +kernel

/-- The two levels differ only in how many bytes they classify: every SSE2 mask is the low 16 bits
of the AVX2 mask at the same offset. -/
theorem classify_sse2_is_low_half (c : Byte) (buf : List Byte) (offset : Nat) :
    boolMask (classMask c buf offset 32) % 2 ^ 16 = boolMask (classMask c buf offset 16) :=
  classMask_low16 c buf offset

example : boolMask (classMask 0x3a#8 (List.replicate 40 0x3a#8) 3 32) % 2 ^ 16 = 0xffff := by decide +kernel

/-! ### dispatch clamp -/

/-- `parse_simd_clamp` recognises exactly the documented spellings (after `trim` +
`to_ascii_lowercase`): `Some(true)` ⇔ `scalar|sse2|sse42|sse4.2`, `Some(false)` ⇔ `avx2|""`, `None`
otherwise; and the clamp can only lower the level: AVX2 is enabled only if detected and only if it
would be enabled without the variable; a default build never dispatches below SSE2. -/
theorem clamp_total :
    (∀ v, parseSimdClamp v = some true ↔ normalise v ∈ clampSpellings) ∧
    (∀ v, parseSimdClamp v = some false ↔ normalise v ∈ noClampSpellings) ∧
    (∀ v, parseSimdClamp v = none ↔ normalise v ∉ clampSpellings ∧ normalise v ∉ noClampSpellings) ∧
    (∀ detected env, avx2Enabled detected env = true → detected = true ∧ avx2Enabled detected none = true) ∧
    (∀ detected env, levelOf detected env ≠ .scalar) := by
  refine ⟨parseSimdClamp_true_iff, parseSimdClamp_false_iff, parseSimdClamp_none_iff,
    avx2Enabled_only_lowers, ?_⟩
  intro d e; unfold levelOf; split <;> simp

-- the spelling used by the SSE2 variant of the correspondence check, with noise
example : levelOf true (some [' ', 'S', 's', 'E', '2', '\n']) = .sse2 := by decide
example : levelOf true (some ['s', 's', 'e', '3']) = .avx2 := by decide
example : parseSimdClamp ['A', 'V', 'X', '2'] = some false := by decide

/-! ### the lane DAGs are the ones in the source -/

/-- Every lane DAG of `src/yaml/simd/x86.rs`, as regenerated from the source on this run by
`tools/rs2lean.py` (Generated/C16.lean: both classifiers, and the main-loop / tail-step / look-ahead
compare trees of every `find_*`, `count_leading_spaces`, `find_block_scalar_end` and
`parse_anchor_name` kernel at both widths), computes for all 256 byte values exactly the lane value
of the hand-written DAG of Model/YamlSimd.lean that the kernel theorems above are about.  A changed
comparison constant or a dropped `or` in x86.rs breaks this theorem. -/
theorem lanes_generated_eq :
    (∀ x, Gen.yaml_classify_avx2_newlines_lane x = cmpeq 0x0a#8 x) ∧
    (∀ x, Gen.yaml_classify_avx2_carriage_returns_then_lane x = cmpeq 0x0d#8 x) ∧
    (∀ x, Gen.yaml_classify_avx2_colons_lane x = cmpeq 0x3a#8 x) ∧
    (∀ x, Gen.yaml_classify_avx2_hyphens_lane x = cmpeq 0x2d#8 x) ∧
    (∀ x, Gen.yaml_classify_avx2_spaces_lane x = cmpeq 0x20#8 x) ∧
    (∀ x, Gen.yaml_classify_avx2_quotes_double_lane x = cmpeq 0x22#8 x) ∧
    (∀ x, Gen.yaml_classify_avx2_quotes_single_lane x = cmpeq 0x27#8 x) ∧
    (∀ x, Gen.yaml_classify_avx2_backslashes_lane x = cmpeq 0x5c#8 x) ∧
    (∀ x, Gen.yaml_classify_avx2_hash_lane x = cmpeq 0x23#8 x) ∧
    (∀ x, Gen.yaml_classify_sse2_newlines_lane x = cmpeq 0x0a#8 x) ∧
    (∀ x, Gen.yaml_classify_sse2_carriage_returns_then_lane x = cmpeq 0x0d#8 x) ∧
    (∀ x, Gen.yaml_classify_sse2_colons_lane x = cmpeq 0x3a#8 x) ∧
    (∀ x, Gen.yaml_classify_sse2_hyphens_lane x = cmpeq 0x2d#8 x) ∧
    (∀ x, Gen.yaml_classify_sse2_spaces_lane x = cmpeq 0x20#8 x) ∧
    (∀ x, Gen.yaml_classify_sse2_quotes_double_lane x = cmpeq 0x22#8 x) ∧
    (∀ x, Gen.yaml_classify_sse2_quotes_single_lane x = cmpeq 0x27#8 x) ∧
    (∀ x, Gen.yaml_classify_sse2_backslashes_lane x = cmpeq 0x5c#8 x) ∧
    (∀ x, Gen.yaml_classify_sse2_hash_lane x = cmpeq 0x23#8 x) ∧
    (∀ x, Gen.yaml_newline_sse2_mask_lane x = laneNewline x) ∧
    (∀ x, Gen.yaml_newline_avx2_mask_0_lane x = laneNewline x) ∧
    (∀ x, Gen.yaml_newline_avx2_mask_1_lane x = laneNewline x) ∧
    (∀ x, Gen.yaml_quote_sse2_mask_lane x = laneQuoteOrEsc x) ∧
    (∀ x, Gen.yaml_quote_avx2_mask_0_lane x = laneQuoteOrEsc x) ∧
    (∀ x, Gen.yaml_quote_avx2_mask_1_lane x = laneQuoteOrEsc x) ∧
    (∀ x, Gen.yaml_squote_sse2_mask_lane x = laneSingleQuote x) ∧
    (∀ x, Gen.yaml_squote_avx2_mask_0_lane x = laneSingleQuote x) ∧
    (∀ x, Gen.yaml_squote_avx2_mask_1_lane x = laneSingleQuote x) ∧
    (∀ x, Gen.yaml_spaces_sse2_mask_lane x = laneSpace x) ∧
    (∀ x, Gen.yaml_spaces_avx2_mask_0_lane x = laneSpace x) ∧
    (∀ x, Gen.yaml_spaces_avx2_mask_1_lane x = laneSpace x) ∧
    (∀ x, Gen.yaml_block_nl_avx2_nl_mask_0_lane x = laneBreak x) ∧
    (∀ x, Gen.yaml_block_sp_avx2_space_mask_lane x = laneSpace x) ∧
    (∀ x, Gen.yaml_block_nl_sse2_nl_mask_0_lane x = laneBreak x) ∧
    (∀ x, Gen.yaml_block_sp_sse2_space_mask_lane x = laneSpace x) ∧
    (∀ x, Gen.yaml_anchor_avx2_definite_mask_lane x = laneAnchorDefinite x) ∧
    (∀ x, Gen.yaml_anchor_avx2_colon_mask_lane x = laneColon x) := by
  repeat' constructor
  all_goals (apply byte_forall; decide +kernel)

example : Gen.yaml_quote_avx2_mask_0 0x5c#8 = true ∧ Gen.yaml_quote_avx2_mask_0 0x5d#8 = false := by decide

/-- The one consumer of the classifier, `Parser::skip_unquoted_simd` (src/yaml/parser.rs), still
computes its stop mask as exactly `class.plain_scalar_terminators::<HAS_CR>()` — `newlines | colons |
hash`, `| carriage_returns` under `HAS_CR` (x86.rs) — and stops at its lowest set bit.  This is u32
mask arithmetic outside the lane subset, so the source text of these bindings is pinned (regenerated
into Generated/C16.lean on every run): narrowing the mask (e.g. dropping `#` unless a space precedes
it) breaks this obligation.  The mask must stay a superset of the bytes the parser's byte loop stops
at — `\n`, `\r`, `:`, `#` — because the byte loop, not the mask, decides what they mean. -/
theorem plain_scalar_skip_source_pinned :
    Gen.yaml_skip_unquoted_pin_terminators_src = ["class . plain_scalar_terminators :: < HAS_CR > ( )"] ∧
    Gen.yaml_skip_unquoted_pin_first_pos_src = ["terminators . trailing_zeros ( ) as usize"] ∧
    Gen.yaml_plain_terminators_pin_terminators_src =
      ["self . newlines | self . colons | self . hash", "terminators | self . carriage_returns"] := by
  decide

example : Gen.yaml_plain_terminators_pin_terminators_src.length = 2 := by decide

end SV.Props.C16
