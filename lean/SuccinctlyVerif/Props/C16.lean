/-
Props/C16 — YAML index does not depend on the SIMD dispatch level (kernel level).
Property theorems only; helper lemmas live in Proof/YamlChunked.lean and Proof/YamlKernels.lean.
-/
import SuccinctlyVerif.Proof.YamlChunked
namespace SV.Props.C16
open SV SV.Yaml

/-- Lane lemma: the `cmpeq/or` tree of `find_quote_or_escape_{avx2,sse2}` sets the movemask bit of a
lane exactly when the byte is `"` or `\`, for all 256 byte values. -/
theorem lane_quote_or_escape (x : Byte) : (laneQuoteOrEsc x).msb = isQuoteOrEsc x := laneQuoteOrEsc_msb x

example : (laneQuoteOrEsc 0x5c#8).msb = true ∧ (laneQuoteOrEsc 0xdc#8).msb = false := by decide

end SV.Props.C16
