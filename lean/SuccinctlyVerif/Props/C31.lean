/-
Props/C31 — Index serialization round-trips and tolerates any byte alignment.
Property theorems only; helper lemmas live in Proof/Binary.lean.

Objects: `Binary.wordsBytes / bytesWords` — address-free arithmetic spec (Spec/Binary.lean);
`BinaryM.wordsToBytes`, `bytesToWords a`, `bytesToWordsVec a`, `tryBytesToWords a` — the model of
src/binary.rs over bytemuck's cast rule, where `a : Fin 8` is the slice's address mod 8
(Model/Binary.lean).  `Outcome.panic` = the Rust call panics.
-/
import SuccinctlyVerif.Proof.Binary
namespace SV.Props.C31
open SV SV.Binary SV.BinaryM SV.BinaryP

/-- **words → bytes → words is the identity**, for every word vector, through each of the three
readers (slices produced by `words_to_bytes` are 8-aligned: `a = 0`; the copying reader works at
every `a`). -/
theorem words_bytes_words (ws : List Word) :
    bytesToWords 0 (wordsToBytes ws) = .ok ws ∧
    (∀ a, bytesToWordsVec a (wordsToBytes ws) = .ok ws) ∧
    tryBytesToWords 0 (wordsToBytes ws) = .ok (some ws) := by
  have hl := wordsToBytes_length ws
  have hr := reinterpret_wordsToBytes ws
  cases ws with
  | nil => simp [bytesToWords, bytesToWordsVec, tryBytesToWords, wordsToBytes]
  | cons w ws =>
    have hne : (wordsToBytes (w :: ws)).isEmpty = false := by
      cases h : wordsToBytes (w :: ws) with
      | nil => rw [h] at hl; simp at hl
      | cons _ _ => rfl
    have hm : (wordsToBytes (w :: ws)).length % 8 = 0 := by rw [hl]; omega
    simp [bytesToWords, bytesToWordsVec, tryBytesToWords, castSliceU8U64, tryCastSliceU8U64,
      hne, hm, hr]

example : bytesToWords 0 (wordsToBytes [0x0123456789ABCDEF#64, 1#64]) =
    .ok [0x0123456789ABCDEF#64, 1#64] := by decide

/-- **bytes → words → bytes is the identity** for every byte string whose length is a multiple of
8 (so serialization loses nothing in either direction). -/
theorem bytes_words_bytes (bs : List Byte) (h : bs.length % 8 = 0) (ws : List Word)
    (hw : bytesToWords 0 bs = .ok ws) : wordsToBytes ws = bs := by
  have hlen : bs.length = 8 * (bs.length / 8) := by omega
  cases bs with
  | nil =>
    simp [bytesToWords] at hw; subst hw; rfl
  | cons b rest =>
    simp only [bytesToWords, List.isEmpty_cons, Bool.false_eq_true, if_false, h,
      ne_eq, not_true_eq_false, castSliceU8U64, tryCastSliceU8U64] at hw
    simp only [Fin.val_zero, not_true_eq_false, if_false, if_true, Outcome.ok.injEq] at hw
    subst hw
    exact wordsToBytes_reinterpret _ _ hlen

example : bytesToWords 0 [1, 2, 3, 4, 5, 6, 7, 8] = .ok [0x0807060504030201#64] := by decide

/-- The in-memory layout written by `words_to_bytes` is the arithmetic little-endian one
(`byte j of word k = ⌊wₖ / 256^j⌋ mod 256`), and reading groups of 8 bytes is `Σ bⱼ·256^j`. -/
theorem layout_little_endian (ws : List Word) (bs : List Byte) :
    wordsToBytes ws = wordsBytes ws ∧
    (bs.length % 8 = 0 → bytesToWords 0 bs = .ok ((bytesWords bs).getD [])) := by
  refine ⟨wordsToBytes_eq_wordsBytes ws, fun h => ?_⟩
  have hlen : bs.length = 8 * (bs.length / 8) := by omega
  cases bs with
  | nil => simp [bytesToWords, bytesWords, groups]
  | cons b rest =>
    simp only [bytesToWords, List.isEmpty_cons, Bool.false_eq_true, if_false, h,
      ne_eq, not_true_eq_false, castSliceU8U64, tryCastSliceU8U64, bytesWords, if_true,
      Option.getD_some, Fin.val_zero]
    rw [reinterpret_eq_groups _ _ hlen]

example : wordsBytes [0x0123456789ABCDEF#64] = [0xEF, 0xCD, 0xAB, 0x89, 0x67, 0x45, 0x23, 0x01] := by
  decide

/-- Exactly when each reader panics, as a function of address offset, emptiness and length. -/
theorem panics_iff (a : Fin 8) (bs : List Byte) :
    (tryBytesToWords a bs = .panic ↔ (a.val ≠ 0 ∧ bs ≠ [] ∧ bs.length % 8 = 0)) ∧
    (bytesToWords a bs = .panic ↔ (bs ≠ [] ∧ (bs.length % 8 ≠ 0 ∨ a.val ≠ 0))) ∧
    (bytesToWordsVec a bs = .panic ↔ (bs ≠ [] ∧ bs.length % 8 ≠ 0)) := by
  cases bs with
  | nil => simp [tryBytesToWords, bytesToWords, bytesToWordsVec]
  | cons b rest =>
    by_cases ha : a.val = 0 <;> by_cases hm : (rest.length + 1) % 8 = 0 <;>
      simp [tryBytesToWords, bytesToWords, bytesToWordsVec, castSliceU8U64, tryCastSliceU8U64, ha, hm]

example : tryBytesToWords 1 (List.replicate 16 0#8) = .panic := by decide

/-- The property's alignment clause at full strength for the two BORROWED readers: at EVERY
address offset, a byte slice whose length is a multiple of 8 converts, and the fallible reader
never panics.  NOT asserted — refuted below.  (For the copying reader the clause holds in full:
`vec_any_alignment`.) -/
def any_alignment_full_statement : Prop :=
  ∀ (a : Fin 8) (bs : List Byte),
    tryBytesToWords a bs ≠ .panic ∧
    (bs.length % 8 = 0 → ∃ ws, bytesToWords a bs = .ok ws ∧ tryBytesToWords a bs = .ok (some ws))

/-- Refutation witness (finding F8): 8 zero bytes at address offset 1 — `try_bytes_to_words`
panics inside `bytemuck::cast_slice`.  Replayed through the harness: corpus/C31/finding-1.case. -/
theorem any_alignment_full_statement_refuted : ¬ any_alignment_full_statement := by
  intro h
  have := (h 1 (List.replicate 8 0#8)).1
  revert this; decide

/-- **Any alignment, borrowed readers — partial (a = 0 only).**  For 8-aligned slices: a length
that is a multiple of 8 converts through `bytes_to_words` and `try_bytes_to_words` to the spec's
word vector, and the fallible reader never panics.  Missing: offsets 1..7, where the statement is
false for these two zero-copy forms (`panics_iff`, `any_alignment_full_statement_refuted`; open
finding F8). -/
theorem any_alignment_partial (bs : List Byte) :
    tryBytesToWords 0 bs ≠ .panic ∧
    (bs.length % 8 = 0 → ∃ ws, bytesWords bs = some ws ∧ bytesToWords 0 bs = .ok ws ∧
      tryBytesToWords 0 bs = .ok (some ws)) := by
  refine ⟨fun hp => by have := ((panics_iff 0 bs).1.mp hp).1; simp at this, fun h => ?_⟩
  have hlen : bs.length = 8 * (bs.length / 8) := by omega
  refine ⟨groups (bs.length / 8) bs, by simp [bytesWords, h], ?_⟩
  cases bs with
  | nil => simp [bytesToWords, tryBytesToWords, groups]
  | cons b rest =>
    rw [← reinterpret_eq_groups _ _ hlen]
    have h' : (rest.length + 1) % 8 = 0 := by simpa using h
    simp [bytesToWords, tryBytesToWords, castSliceU8U64, tryCastSliceU8U64, h']

example : tryBytesToWords 0 (List.replicate 16 0xFF#8) =
    .ok (some [0xFFFFFFFFFFFFFFFF#64, 0xFFFFFFFFFFFFFFFF#64]) := by decide

/-- **Any alignment, copying reader — full.**  At EVERY address offset `bytes_to_words_vec`
equals the address-free spec: the spec's word vector when the length is a multiple of 8, the
documented panic otherwise.  (Before fix b9692bb it went through `cast_slice` and panicked at
offsets 1..7.) -/
theorem vec_any_alignment (a : Fin 8) (bs : List Byte) :
    bytesToWordsVec a bs = (match bytesWords bs with
      | some ws => .ok ws
      | none => .panic) := by
  cases bs with
  | nil => simp [bytesToWordsVec, bytesWords, groups]
  | cons b rest =>
    by_cases hm : (rest.length + 1) % 8 = 0
    · have hlen : (b :: rest).length = 8 * ((b :: rest).length / 8) := by
        simp only [List.length_cons]; omega
      have hg := reinterpret_eq_groups _ _ hlen
      simp only [List.length_cons] at hg
      simp [bytesToWordsVec, bytesWords, hm, hg]
    · simp [bytesToWordsVec, bytesWords, hm]

example : bytesToWordsVec 3 [1, 2, 3, 4, 5, 6, 7, 8] = .ok [0x0807060504030201#64] := by decide

/-- **Bad length only — partial (a = 0).**  For 8-aligned slices the fallible reader returns `None`
exactly when the length is not a multiple of 8 (and the asserting readers panic exactly then, as
documented).  Missing: offsets 1..7 (there `None` is still returned exactly for bad lengths, but
good lengths panic instead of returning `Some`: `panics_iff`). -/
theorem bad_length_only_partial (bs : List Byte) :
    (tryBytesToWords 0 bs = .ok none ↔ bs.length % 8 ≠ 0) ∧
    (bytesToWords 0 bs = .panic ↔ bs.length % 8 ≠ 0) := by
  cases bs with
  | nil => simp [tryBytesToWords, bytesToWords]
  | cons b rest =>
    by_cases hm : (rest.length + 1) % 8 = 0 <;>
      simp [tryBytesToWords, bytesToWords, castSliceU8U64, tryCastSliceU8U64, hm]

example : tryBytesToWords 0 (List.replicate 7 0#8) = .ok none := by decide

/-- At every offset, `None` is returned exactly for bad lengths (the length test precedes the cast). -/
theorem none_iff_bad_length (a : Fin 8) (bs : List Byte) :
    tryBytesToWords a bs = .ok none ↔ bs.length % 8 ≠ 0 := by
  cases bs with
  | nil => simp [tryBytesToWords]
  | cons b rest =>
    by_cases ha : a.val = 0 <;> by_cases hm : (rest.length + 1) % 8 = 0 <;>
      simp [tryBytesToWords, castSliceU8U64, tryCastSliceU8U64, ha, hm]

example : tryBytesToWords 5 (List.replicate 9 0#8) = .ok none := by decide

/-- **Rebuilt indexes receive identical parts.**  Whatever a constructor computes from
`(words, len)` — `JsonIndex::from_parts`, `BalancedParens::from_words`, `BitVec::from_words` are
such functions (their exactness as functions of `(words, len)` is C01/C04/C07) — it computes the
same from the serialized-and-reloaded words as from the originals, through any of the readers. -/
theorem from_parts_answers_equal {β : Type} (index : List Word → Nat → β) (ws ws' : List Word)
    (len : Nat)
    (a : Fin 8)
    (h : bytesToWords 0 (wordsToBytes ws) = .ok ws' ∨ bytesToWordsVec a (wordsToBytes ws) = .ok ws' ∨
      tryBytesToWords 0 (wordsToBytes ws) = .ok (some ws')) :
    index ws' len = index ws len := by
  obtain ⟨h1, h2, h3⟩ := words_bytes_words ws
  rcases h with h | h | h
  · rw [h1] at h; cases h; rfl
  · rw [h2 a] at h; cases h; rfl
  · rw [h3] at h; cases h; rfl

example : bytesToWordsVec 0 (wordsToBytes [5#64]) = .ok [5#64] := by decide

end SV.Props.C31
