/-
Props/C20 — DSV index does not depend on the indexing engine.
Property theorems only; lemmas live in Proof/DsvKernels.lean (word kernels, `bv_decide`) and
Proof/Dsv.lean (chunk loops).  All statements are over the *generated* kernels
(`Gen.prefix_xor`, `Gen.next_carry`, `Gen.toggle64_from_prefix_xor`, `Gen.toggle64_from_deposit`,
`Gen.ODDS_MASK`) and the hand-written loop models of Model/Dsv.lean.
-/
import SuccinctlyVerif.Proof.Dsv
import SuccinctlyVerif.Proof.Lane
namespace SV.Props.C20
open SV SV.Dsv

/-- `prefix_xor` (doubling shift chain, translated from the source) satisfies the prefix-XOR
recurrence for every word … -/
theorem prefix_xor_spec (q : BitVec 64) : Gen.prefix_xor q = q ^^^ (Gen.prefix_xor q <<< 1) :=
  DsvK.prefix_xor_spec q

/-- … hence bit `i` of `prefix_xor q` is the parity of the quote bits at positions `0..=i`. -/
theorem prefix_xor_parity (q : BitVec 64) (i : Nat) (hi : i < 64) :
    (Gen.prefix_xor q).getLsbD i = decide (DsvK.cntBelow q (i + 1) % 2 = 1) :=
  DsvK.prefix_xor_parity q i hi

/-- The prefix-XOR tail (AVX2/SSE2) equals the bit-serial quote toggle on every carry word and every
quote bitmap: outside bit `i` is the negated serial state after bits `0..=i` (toggle, then test), and
the outgoing carry is the serial state after all 64 bits (so a quote at bit 63 is carried). -/
theorem toggle_prefix_eq_serial (c q : BitVec 64) :
    (∀ i, i < 64 → (togglePrefix c q).1.getLsbD i = !(serialState q (c.getLsbD 0) i))
    ∧ (togglePrefix c q).2 = (if serialState q (c.getLsbD 0) 63 then 1#64 else 0#64) :=
  ⟨fun i hi => DsvK.togglePrefix_fst_getLsbD c q i hi, DsvK.togglePrefix_snd c q⟩

/-- PDEP of the alternating pattern onto the quote positions marks exactly the quotes whose
previous position is outside quotes (proved from the bit-by-bit PDEP definition). -/
theorem pdep_odds (c q : BitVec 64) :
    pdep (oddsMask <<< (c &&& 1#64)) q = q &&& ~~~((DsvK.insideP c q <<< 1) ||| (c &&& 1#64)) :=
  DsvK.pdep_odds c q

/-- The BMI2 tail (`toggle64_bmi2`: PDEP deposit + one addition) equals the bit-serial quote toggle
as well — outside mask and carry, including the bit-63 case that an overflow-derived carry loses. -/
theorem toggle_deposit_eq_serial (c q : BitVec 64) :
    (∀ i, i < 64 → (toggleBmi2 c q).1.getLsbD i = !(serialState q (c.getLsbD 0) i))
    ∧ (toggleBmi2 c q).2 = (if serialState q (c.getLsbD 0) 63 then 1#64 else 0#64) := by
  rw [DsvK.toggleBmi2_eq_togglePrefix]
  exact toggle_prefix_eq_serial c q

/-- Every engine produces the packed bit-serial spec, for every text and every configuration
(no distinctness needed: all engines test a byte after toggling). -/
theorem engines_eq_spec (d q n : Byte) (text : List Byte) (fast avx2 : Bool) :
    buildIndexScalar d q n text = indexSpec d q n text
    ∧ buildIndexSse2 d q n text = indexSpec d q n text
    ∧ buildIndexAvx2 d q n text = indexSpec d q n text
    ∧ buildIndexBmi2 d q n text = indexSpec d q n text
    ∧ buildIndexDispatch fast avx2 d q n text = indexSpec d q n text :=
  ⟨DsvP.buildIndexScalar_eq_spec d q n text, DsvP.sse2_eq_spec d q n text, DsvP.avx2_eq_spec d q n text,
   DsvP.bmi2_eq_spec d q n text, DsvP.dispatch_eq_spec fast avx2 d q n text⟩

/-- **C20.** For every byte string and every configuration with pairwise distinct delimiter, quote
and record separator, the SSE2, AVX2 and BMI2 engines and the dispatcher (whatever the CPU flags)
produce exactly the marker and newline words of the scalar engine. -/
theorem engines_eq_scalar (d q n : Byte) (_hdq : d ≠ q) (_hqn : q ≠ n) (_hdn : d ≠ n) (text : List Byte)
    (fast avx2 : Bool) :
    buildIndexSse2 d q n text = buildIndexScalar d q n text
    ∧ buildIndexAvx2 d q n text = buildIndexScalar d q n text
    ∧ buildIndexBmi2 d q n text = buildIndexScalar d q n text
    ∧ buildIndexDispatch fast avx2 d q n text = buildIndexScalar d q n text := by
  obtain ⟨h0, h1, h2, h3, h4⟩ := engines_eq_spec d q n text fast avx2
  exact ⟨h1.trans h0.symm, h2.trans h0.symm, h3.trans h0.symm, h4.trans h0.symm⟩

/-- Corollary: anything computed from the index words and the text length — in particular every
rank/select answer of `DsvIndexLightweight` — is identical across engines. -/
theorem rank_select_equal {α : Type} (f : List (BitVec 64) × List (BitVec 64) → Nat → α)
    (d q n : Byte) (hdq : d ≠ q) (hqn : q ≠ n) (hdn : d ≠ n) (text : List Byte) (fast avx2 : Bool) :
    f (buildIndexSse2 d q n text) text.length = f (buildIndexScalar d q n text) text.length
    ∧ f (buildIndexAvx2 d q n text) text.length = f (buildIndexScalar d q n text) text.length
    ∧ f (buildIndexBmi2 d q n text) text.length = f (buildIndexScalar d q n text) text.length
    ∧ f (buildIndexDispatch fast avx2 d q n text) text.length = f (buildIndexScalar d q n text) text.length := by
  obtain ⟨h1, h2, h3, h4⟩ := engines_eq_scalar d q n hdq hqn hdn text fast avx2
  rw [h1, h2, h3, h4]; exact ⟨rfl, rfl, rfl, rfl⟩

/-! Non-vacuity: concrete instances (a quoted delimiter and newline, then an unquoted record). -/

-- text = `"a,\n",b\n` with (d,q,n) = (`,`, `"`, `\n`): markers at 6 and 8, newline at 8
example : buildIndexScalar 0x2c#8 0x22#8 0x0a#8 [0x22#8, 0x61#8, 0x2c#8, 0x0a#8, 0x22#8, 0x2c#8, 0x62#8, 0x0a#8]
    = ([0xa0#64], [0x80#64]) := by decide
example : (0x2c#8 : Byte) ≠ 0x22#8 ∧ (0x22#8 : Byte) ≠ 0x0a#8 ∧ (0x2c#8 : Byte) ≠ 0x0a#8 := by decide
-- a quote at bit 63 opens a region: outside mask is all but bit 63, carry out is 1
example : toggleBmi2 0#64 0x8000000000000000#64 = (0x7fffffffffffffff#64, 1#64) := by decide
example : togglePrefix 1#64 0x8000000000000000#64 = (0x8000000000000000#64, 0#64) := by decide

/-- The equality-mask lane DAGs of the three x86 engines (`process_chunk_64` of `avx2.rs` and
`sse2.rs`, `process_chunk_64_bmi2`), regenerated from the source on this run (Generated/C20.lean),
set a lane's movemask bit exactly when the byte equals the broadcast delimiter (`d`) resp. quote (`q`) resp. newline (`n`)
byte — the `cmpeq` lane predicate of Model/Dsv.lean — for every lane byte and every compared byte. -/
theorem lanes_generated_eq :
    (∀ x d q n : Byte, Gen.dsv_avx2_delim_mask0 x d q n = (x == d)) ∧
    (∀ x d q n : Byte, Gen.dsv_avx2_delim_mask1 x d q n = (x == d)) ∧
    (∀ x d q n : Byte, Gen.dsv_avx2_quote_mask0 x d q n = (x == q)) ∧
    (∀ x d q n : Byte, Gen.dsv_avx2_quote_mask1 x d q n = (x == q)) ∧
    (∀ x d q n : Byte, Gen.dsv_avx2_nl_mask0 x d q n = (x == n)) ∧
    (∀ x d q n : Byte, Gen.dsv_avx2_nl_mask1 x d q n = (x == n)) ∧
    (∀ x d q n : Byte, Gen.dsv_sse2_delim_mask0 x d q n = (x == d)) ∧
    (∀ x d q n : Byte, Gen.dsv_sse2_delim_mask1 x d q n = (x == d)) ∧
    (∀ x d q n : Byte, Gen.dsv_sse2_delim_mask2 x d q n = (x == d)) ∧
    (∀ x d q n : Byte, Gen.dsv_sse2_delim_mask3 x d q n = (x == d)) ∧
    (∀ x d q n : Byte, Gen.dsv_sse2_quote_mask0 x d q n = (x == q)) ∧
    (∀ x d q n : Byte, Gen.dsv_sse2_quote_mask1 x d q n = (x == q)) ∧
    (∀ x d q n : Byte, Gen.dsv_sse2_quote_mask2 x d q n = (x == q)) ∧
    (∀ x d q n : Byte, Gen.dsv_sse2_quote_mask3 x d q n = (x == q)) ∧
    (∀ x d q n : Byte, Gen.dsv_sse2_nl_mask0 x d q n = (x == n)) ∧
    (∀ x d q n : Byte, Gen.dsv_sse2_nl_mask1 x d q n = (x == n)) ∧
    (∀ x d q n : Byte, Gen.dsv_sse2_nl_mask2 x d q n = (x == n)) ∧
    (∀ x d q n : Byte, Gen.dsv_sse2_nl_mask3 x d q n = (x == n)) ∧
    (∀ x d q n : Byte, Gen.dsv_bmi2_delim_mask0 x d q n = (x == d)) ∧
    (∀ x d q n : Byte, Gen.dsv_bmi2_delim_mask1 x d q n = (x == d)) ∧
    (∀ x d q n : Byte, Gen.dsv_bmi2_quote_mask0 x d q n = (x == q)) ∧
    (∀ x d q n : Byte, Gen.dsv_bmi2_quote_mask1 x d q n = (x == q)) ∧
    (∀ x d q n : Byte, Gen.dsv_bmi2_nl_mask0 x d q n = (x == n)) ∧
    (∀ x d q n : Byte, Gen.dsv_bmi2_nl_mask1 x d q n = (x == n)) := by
  repeat' constructor
  all_goals (intro x d q n; exact SV.Lane.cmpeq_msb x _)

example : Gen.dsv_sse2_quote_mask3 0x22#8 0x2c#8 0x22#8 0x0a#8 = true ∧
    Gen.dsv_sse2_quote_mask3 0xa2#8 0x2c#8 0x22#8 0x0a#8 = false := by decide

end SV.Props.C20
