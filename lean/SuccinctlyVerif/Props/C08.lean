/-
Props/C08 — Strict JSON validation accepts exactly RFC 8259 documents.
Property theorems only; helper lemmas live in Proof/Json*.lean. `validate` is the function-by-
function model of `succinctly::json::validate::validate` (Model/JsonValidate.lean), `Valid`,
`Viable`, `lineCol` the specification (Spec/Json.lean); `MAX` is `MAX_NESTING_DEPTH`, regenerated
from `src/json/validate.rs` on every run.
-/
import SuccinctlyVerif.Proof.JsonF5
import SuccinctlyVerif.Proof.JsonErr
import SuccinctlyVerif.Proof.JsonLineCol
import SuccinctlyVerif.Generated.C08
namespace SV.Props.C08
open SV.Json SV.Json.Model

/-- `MAX_NESTING_DEPTH` as extracted from the source. -/
abbrev MAX : Nat := SV.Gen.JSON_MAX_NESTING_DEPTH

/-- The property text says "does not exceed 128": the extracted constant is that number. -/
theorem max_depth_eq : MAX = 128 := by decide

/-- **Soundness and completeness.** For every byte string and every nesting limit, the validator
succeeds iff the bytes are one RFC 8259 text (`ws value ws`, well-formed UTF-8 strings, paired
surrogate escapes, nothing trailing) whose containers nest at most `max` deep. -/
theorem validate_ok_iff_any (max : Nat) (b : Bytes) :
    (∃ s, validate max b = .ok () s) ↔ Valid max b :=
  ⟨fun ⟨s, h⟩ => validate_sound max b s () h, validate_complete max b⟩

/-- The same at the limit the code uses. -/
theorem validate_ok_iff (b : Bytes) : (∃ s, validate MAX b = .ok () s) ↔ Valid MAX b :=
  validate_ok_iff_any MAX b

example : (validate MAX [0x5B, 0x31, 0x2C, 0x20, 0x7B, 0x22, 0x61, 0x22, 0x3A, 0x6E, 0x75, 0x6C, 0x6C, 0x7D, 0x5D]).isOk = true := by
  decide +kernel   -- [1, {"a":null}]
example : Valid MAX [0x5B, 0x31, 0x2C, 0x20, 0x7B, 0x22, 0x61, 0x22, 0x3A, 0x6E, 0x75, 0x6C, 0x6C, 0x7D, 0x5D] := by
  obtain ⟨a, s, h⟩ := (Res.isOk_iff _).mp
    (by decide +kernel : (validate MAX [0x5B, 0x31, 0x2C, 0x20, 0x7B, 0x22, 0x61, 0x22, 0x3A, 0x6E, 0x75, 0x6C, 0x6C, 0x7D, 0x5D]).isOk = true)
  exact (validate_ok_iff _).mp ⟨s, h⟩
example : ¬ Valid MAX [0x5B, 0x31, 0x2C, 0x5D] := by   -- [1,]
  intro h
  obtain ⟨s, hs⟩ := (validate_ok_iff _).mpr h
  have : (validate MAX [0x5B, 0x31, 0x2C, 0x5D]).isOk = false := by decide +kernel
  rw [hs] at this; cases this

/-- **Line / column.** A reported error carries the line and column (1-based, bytes; LF, CR and
CRLF each one break) of the reported offset, and the offset lies within the input. -/
theorem error_linecol (b : Bytes) (e : Err) (h : validate MAX b = .err e) :
    (e.line, e.column) = lineCol b e.offset ∧ e.offset ≤ b.length :=
  LC.validate_error_linecol MAX b e h

example : (validate MAX [0x5B, 0x0D, 0x0A, 0x31, 0x2C, 0x0A, 0x5D]).err?
    = some ⟨.unexpectedCharacter .value 0x5D, 6, 3, 1⟩ := by decide +kernel   -- "[\r\n1,\n]"

/-- **Error offset (partial).** Whenever the validator fails with an error kind other than
`UnpairedSurrogate` / `InvalidUnicodeEscape`, the bytes before the reported offset can be extended
to a valid text, i.e. the offset is not beyond the longest viable prefix.
Missing for the full `error_offset_viable`: the two excluded kinds. For them the statement is
*false* as the code stands (finding F5, `error_offset_viable_fails` below: inside a `\u` escape
whose digits already commit it to an unpaired surrogate the error is raised 1–4 bytes late); what
is not proved is the positive half for those kinds (that the overshoot happens only in that
situation and never exceeds 4 bytes) – it is checked on every run by the correspondence oracle. -/
theorem error_offset_viable_partial (b : Bytes) (e : Err) (h : validate MAX b = .err e)
    (hk : ¬ SurrKind e.kind) : Viable MAX (b.take e.offset) :=
  validate_err_viable MAX b e h hk

example : (validate MAX [0x5B, 0x31, 0x2C, 0x5D]).err?   -- "[1,]": trailing comma, offset 3
    = some ⟨.unexpectedCharacter .value 0x5D, 3, 1, 4⟩ := by decide +kernel
example : ¬ SurrKind (Kind.unexpectedCharacter .value 0x5D) := by
  rintro (⟨_, h⟩ | ⟨_, h⟩) <;> cases h

/-- **F5 (finding).** `error_offset_viable` does *not* hold for the validator as written: on
`"\uD800A"` the model (and, by the correspondence, the implementation) reports
`UnpairedSurrogate` at offset 13 … -/
theorem f5_reported_offset :
    (validate MAX [0x22, 0x5C, 0x75, 0x44, 0x38, 0x30, 0x30, 0x5C, 0x75, 0x30, 0x30, 0x34, 0x31, 0x22]).err?
      = some ⟨.unpairedSurrogate 0xD800, 13, 1, 14⟩ := f5_model

/-- … although no text at all begins with the first 10 bytes `"\uD800\u0` (for any nesting
limit), so the longest viable prefix has length 9 … -/
theorem f5_prefix10_not_viable (max : Nat) :
    ¬ Viable max [0x22, 0x5C, 0x75, 0x44, 0x38, 0x30, 0x30, 0x5C, 0x75, 0x30] :=
  Model.f5_prefix10_not_viable max

/-- … (`"\uD800\u` is viable: `"𐀀"` is a text). -/
theorem f5_prefix9_viable : Viable MAX [0x22, 0x5C, 0x75, 0x44, 0x38, 0x30, 0x30, 0x5C, 0x75] :=
  Model.f5_prefix9_viable

/-- Hence the negation of `error_offset_viable` on a concrete witness. -/
theorem error_offset_viable_fails :
    ∃ b e, validate MAX b = .err e ∧ ¬ Viable MAX (b.take e.offset) := by
  refine ⟨[0x22, 0x5C, 0x75, 0x44, 0x38, 0x30, 0x30, 0x5C, 0x75, 0x30, 0x30, 0x34, 0x31, 0x22],
    ⟨.unpairedSurrogate 0xD800, 13, 1, 14⟩, ?_, ?_⟩
  · have h := f5_model
    cases hv : validate 128 [0x22, 0x5C, 0x75, 0x44, 0x38, 0x30, 0x30, 0x5C, 0x75, 0x30, 0x30, 0x34, 0x31, 0x22] with
    | ok a s => rw [hv] at h; cases h
    | fuel => rw [hv] at h; cases h
    | err e => rw [hv] at h; simp [Res.err?] at h; subst h; rfl
  · rintro ⟨s, hs⟩
    exact f5_not_valid MAX ([0x30, 0x34, 0x31] ++ s) (by simpa using hs)

end SV.Props.C08
