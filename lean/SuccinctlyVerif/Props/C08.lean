/-
Props/C08 — Strict JSON validation accepts exactly RFC 8259 documents.
Property theorems only; helper lemmas live in Proof/Json*.lean. `validate` is the function-by-
function model of `succinctly::json::validate::validate` (Model/JsonValidate.lean), `Valid`,
`Viable`, `lineCol` the specification (Spec/Json.lean); `MAX` is `MAX_NESTING_DEPTH`, regenerated
from `src/json/validate.rs` on every run.
-/
import SuccinctlyVerif.Proof.JsonF5
import SuccinctlyVerif.Proof.JsonErr
import SuccinctlyVerif.Proof.JsonErrSurr
import SuccinctlyVerif.Proof.JsonPdaSound
import SuccinctlyVerif.Proof.JsonPdaComplete
import SuccinctlyVerif.Proof.JsonPdaInv
import SuccinctlyVerif.Proof.JsonAlias
import SuccinctlyVerif.Proof.JsonLineCol
import SuccinctlyVerif.Generated.C08
namespace SV.Props.C08
open SV.Json SV.Json.Model

/-- `MAX_NESTING_DEPTH` as extracted from the source. -/
abbrev MAX : Nat := SV.Gen.JSON_MAX_NESTING_DEPTH

/-- The property text says "does not exceed 128": the extracted constant is that number. -/
theorem max_depth_eq : MAX = 128 := by decide

/-- **Soundness and completeness.** For every byte string and every nesting limit, the validator
succeeds iff the bytes are one RFC 8259 text (`ws value ws`, well-formed UTF-8 strings, paired
surrogate escapes, nothing trailing) whose containers nest at most `max` deep. -/
theorem validate_ok_iff_any (max : Nat) (b : Bytes) :
    (∃ s, validate max b = .ok () s) ↔ Valid max b :=
  ⟨fun ⟨s, h⟩ => validate_sound max b s () h, validate_complete max b⟩

/-- The same at the limit the code uses. -/
theorem validate_ok_iff (b : Bytes) : (∃ s, validate MAX b = .ok () s) ↔ Valid MAX b :=
  validate_ok_iff_any MAX b

example : (validate MAX [0x5B, 0x31, 0x2C, 0x20, 0x7B, 0x22, 0x61, 0x22, 0x3A, 0x6E, 0x75, 0x6C, 0x6C, 0x7D, 0x5D]).isOk = true := by
  decide +kernel   -- [1, {"a":null}]
example : Valid MAX [0x5B, 0x31, 0x2C, 0x20, 0x7B, 0x22, 0x61, 0x22, 0x3A, 0x6E, 0x75, 0x6C, 0x6C, 0x7D, 0x5D] := by
  obtain ⟨a, s, h⟩ := (Res.isOk_iff _).mp
    (by decide +kernel : (validate MAX [0x5B, 0x31, 0x2C, 0x20, 0x7B, 0x22, 0x61, 0x22, 0x3A, 0x6E, 0x75, 0x6C, 0x6C, 0x7D, 0x5D]).isOk = true)
  exact (validate_ok_iff _).mp ⟨s, h⟩
example : ¬ Valid MAX [0x5B, 0x31, 0x2C, 0x5D] := by   -- [1,]
  intro h
  obtain ⟨s, hs⟩ := (validate_ok_iff _).mpr h
  have : (validate MAX [0x5B, 0x31, 0x2C, 0x5D]).isOk = false := by decide +kernel
  rw [hs] at this; cases this

/-- **Line / column.** A reported error carries the line and column (1-based, bytes; LF, CR and
CRLF each one break) of the reported offset, and the offset lies within the input. -/
theorem error_linecol (b : Bytes) (e : Err) (h : validate MAX b = .err e) :
    (e.line, e.column) = lineCol b e.offset ∧ e.offset ≤ b.length :=
  LC.validate_error_linecol MAX b e h

example : (validate MAX [0x5B, 0x0D, 0x0A, 0x31, 0x2C, 0x0A, 0x5D]).err?
    = some ⟨.unexpectedCharacter .value 0x5D, 6, 3, 1⟩ := by decide +kernel   -- "[\r\n1,\n]"

/-- **Error offset (partial).** Whenever the validator fails with an error kind other than
`UnpairedSurrogate` / `InvalidUnicodeEscape`, the bytes before the reported offset can be extended
to a valid text, i.e. the offset is not beyond the longest viable prefix.
Missing for the full `error_offset_viable`: the two excluded kinds. For them the statement is
*false* as the code stands (finding F5, `error_offset_viable_fails` below: inside a `\u` escape
whose digits already commit it to an unpaired surrogate the error is raised 1–4 bytes late); what
is not proved is the positive half for those kinds (that the overshoot happens only in that
situation and never exceeds 4 bytes) – it is checked on every run by the correspondence oracle. -/
theorem error_offset_viable_partial (b : Bytes) (e : Err) (h : validate MAX b = .err e)
    (hk : ¬ SurrKind e.kind) : Viable MAX (b.take e.offset) :=
  validate_err_viable MAX b e h hk

example : (validate MAX [0x5B, 0x31, 0x2C, 0x5D]).err?   -- "[1,]": trailing comma, offset 3
    = some ⟨.unexpectedCharacter .value 0x5D, 3, 1, 4⟩ := by decide +kernel
example : ¬ SurrKind (Kind.unexpectedCharacter .value 0x5D) := by
  rintro (⟨_, h⟩ | ⟨_, h⟩) <;> cases h

/-- **F5 (finding).** `error_offset_viable` does *not* hold for the validator as written: on
`"\uD800A"` the model (and, by the correspondence, the implementation) reports
`UnpairedSurrogate` at offset 13 … -/
theorem f5_reported_offset :
    (validate MAX [0x22, 0x5C, 0x75, 0x44, 0x38, 0x30, 0x30, 0x5C, 0x75, 0x30, 0x30, 0x34, 0x31, 0x22]).err?
      = some ⟨.unpairedSurrogate 0xD800, 13, 1, 14⟩ := f5_model

/-- … although no text at all begins with the first 10 bytes `"\uD800\u0` (for any nesting
limit), so the longest viable prefix has length 9 … -/
theorem f5_prefix10_not_viable (max : Nat) :
    ¬ Viable max [0x22, 0x5C, 0x75, 0x44, 0x38, 0x30, 0x30, 0x5C, 0x75, 0x30] :=
  Model.f5_prefix10_not_viable max

/-- … (`"\uD800\u` is viable: `"𐀀"` is a text). -/
theorem f5_prefix9_viable : Viable MAX [0x22, 0x5C, 0x75, 0x44, 0x38, 0x30, 0x30, 0x5C, 0x75] :=
  Model.f5_prefix9_viable

/-- Hence the negation of `error_offset_viable` on a concrete witness. -/
theorem error_offset_viable_fails :
    ∃ b e, validate MAX b = .err e ∧ ¬ Viable MAX (b.take e.offset) := by
  refine ⟨[0x22, 0x5C, 0x75, 0x44, 0x38, 0x30, 0x30, 0x5C, 0x75, 0x30, 0x30, 0x34, 0x31, 0x22],
    ⟨.unpairedSurrogate 0xD800, 13, 1, 14⟩, ?_, ?_⟩
  · have h := f5_model
    cases hv : validate 128 [0x22, 0x5C, 0x75, 0x44, 0x38, 0x30, 0x30, 0x5C, 0x75, 0x30, 0x30, 0x34, 0x31, 0x22] with
    | ok a s => rw [hv] at h; cases h
    | fuel => rw [hv] at h; cases h
    | err e => rw [hv] at h; simp [Res.err?] at h; subst h; rfl
  · rintro ⟨s, hs⟩
    exact f5_not_valid MAX ([0x30, 0x34, 0x31] ++ s) (by simpa using hs)


/-! ### the executable oracle (`Spec/JsonPda`) is the specification -/

/-- **Reference recogniser.** The byte-at-a-time pushdown automaton accepts exactly the valid texts
(soundness by backward residual languages, completeness by induction on the derivation), for every
nesting limit. -/
theorem acceptB_iff_any (max : Nat) (b : Bytes) : Pda.acceptB max b = true ↔ Valid max b :=
  ⟨Pda.Snd.acceptB_sound max (Pda.Inv.step_preserves_WF max) b, Pda.Cpl.acceptB_complete max b⟩

theorem acceptB_iff (b : Bytes) : Pda.acceptB MAX b = true ↔ Valid MAX b := acceptB_iff_any MAX b

/-- **Viability is decidable**: the automaton survives a prefix iff the prefix extends to a valid
text (⇒ by the constructive completion `Pda.complete`: close the string / number / keyword /
escape, then every open container). -/
theorem viableB_iff_any (max : Nat) (p : Bytes) : Pda.viableB max p = true ↔ Viable max p :=
  ⟨fun h => let ⟨c, hc⟩ := Pda.Inv.viableB_extends max p h; ⟨c, (acceptB_iff_any max _).mp hc⟩,
   Pda.Cpl.viableB_of_viable max p⟩

theorem viableB_iff (p : Bytes) : Pda.viableB MAX p = true ↔ Viable MAX p := viableB_iff_any MAX p

/-- `lvp` is the length of the longest viable prefix. -/
theorem lvp_longest_viable (b : Bytes) :
    Pda.lvp MAX b ≤ b.length ∧ Viable MAX (b.take (Pda.lvp MAX b)) ∧
      ∀ n, Pda.lvp MAX b < n → n ≤ b.length → ¬ Viable MAX (b.take n) := by
  refine ⟨Pda.Inv.lvp_le MAX b, (viableB_iff _).mp (Pda.Inv.lvp_viable MAX b), ?_⟩
  intro n h1 h2 hv
  have := Pda.Inv.lvp_maximal MAX b n h1 h2
  rw [(viableB_iff _).mpr hv] at this
  cases this

example : Pda.lvp MAX [0x22, 0x5C, 0x75, 0x44, 0x38, 0x30, 0x30, 0x5C, 0x75, 0x30, 0x30, 0x34, 0x31, 0x22] = 9 := by
  decide +kernel

/-- **Error offset, positive half for all kinds.** Unless the text before the reported offset ends
in the decidable F5 pattern (`\uD[C-F]` + 0–2 hex digits, or `\uD[8-B]hh\u` + 1–4 hex digits that
cannot begin a low surrogate – a syntactic over-approximation of the defect class), the reported
offset lies within the longest viable prefix – for every error kind. -/
theorem error_offset_viable_outside_f5 (b : Bytes) (e : Err) (h : validate MAX b = .err e)
    (hc : f5Class (b.take e.offset) = false) : Viable MAX (b.take e.offset) :=
  validate_err_viable_f5 MAX b e h hc

/-- The same as a bound by the executable `lvp`. -/
theorem error_offset_le_lvp_outside_f5 (b : Bytes) (e : Err) (h : validate MAX b = .err e)
    (hc : f5Class (b.take e.offset) = false) : e.offset ≤ Pda.lvp MAX b := by
  have hv := error_offset_viable_outside_f5 b e h hc
  have hl := (error_linecol b e h).2
  rcases Nat.lt_or_ge (Pda.lvp MAX b) e.offset with hlt | hge
  · exact absurd hv ((lvp_longest_viable b).2.2 _ hlt hl)
  · exact hge

example : f5Class [0x22, 0x5C, 0x75, 0x44, 0x38, 0x30, 0x30, 0x5C, 0x75, 0x30, 0x30, 0x34, 0x31] = true := by decide
example : f5Class [0x5B, 0x31, 0x2C] = false := by decide

/-! ### reconciliation with the shared specs -/

/-- The local `utf8Wf` is "exactly one scalar value, well-formed per the Table 3-7 automaton of
`Spec/Utf8`", and equivalently the `SV.Utf8.encode` image of the scalar values. -/
theorem utf8Wf_iff_utf8_automaton (c : Bytes) :
    utf8Wf c = true ↔ c ≠ [] ∧ SV.Utf8.run .start c = .start ∧
      ∀ k, 0 < k → k < c.length → SV.Utf8.run .start (c.take k) ≠ .start :=
  Alias.utf8Wf_iff_run c

theorem utf8Wf_iff_encode (c : Bytes) :
    utf8Wf c = true ↔ ∃ cp, SV.Utf8.isScalar cp = true ∧ c = SV.Utf8.encode cp :=
  Alias.utf8Wf_iff_encode c

/-- `lineCol` (the validator module's definition) coincides with `SV.Lines.lineCol` at every offset
inside the text that is not the LF of a CRLF; it differs at the end of the text after a final line
break (the validator reports "line n+1, column 1" there, `SV.Lines` reports against the last
existing line) and inside a CRLF – which is why the local definition is kept. -/
theorem lineCol_eq_lines (b : Bytes) (off : Nat) (h : off < b.length)
    (hcrlf : ¬ (0 < off ∧ b[off - 1]? = some 0x0D ∧ b[off]? = some 0x0A)) :
    lineCol b off = SV.Lines.lineCol b off :=
  Alias.lineCol_eq_lines b off h hcrlf

end SV.Props.C08
