/-
Props/C06 — JSON index navigation reproduces every valid document's value.
Property theorems only; helper lemmas live in Proof/JsonNav*.lean.

"Valid document" = `Doc` of `Spec/JsonSimple.lean` (a value tree rendered through tokens with
arbitrary RFC 8259 whitespace in every gap).  The index is `JsonIndex::build` as modelled in
`Model/JsonNav.lean`; BP/IB primitives are taken at their specifications (see `level_note`).
-/
import SuccinctlyVerif.Proof.JsonNav
import SuccinctlyVerif.Proof.JsonNavTree
import SuccinctlyVerif.Proof.JsonNavDecode
import SuccinctlyVerif.Proof.JsonNavRange
import SuccinctlyVerif.Proof.JsonNavFull
import SuccinctlyVerif.Proof.JsonNavFast
import SuccinctlyVerif.Proof.JsonBridge
namespace SV.Props.C06
open SV SV.JsonNav SV.JsonText SV.JsonSemi

/-! ### (a) structure of the index of a valid document -/

/-- For every valid document the standard-cursor reference index (which by C05 is what every engine
builds) has: as BP string the balanced encoding of the document tree — `1 … 0` around the children
of each container, keys being leaf children preceding their value, a leaf `10` for every scalar and
key — and as interest bits exactly the first bytes of the node tokens (`{`, `[`, every string
including keys, every number and literal) in document order, i.e. the `k`-th IB one is the first
byte of the `k`-th node in preorder. -/
theorem index_structure (d : Doc) :
    (reference d.text).bp = treeBp d.value ∧ (reference d.text).ib = toksStdIb d.toks :=
  ⟨(reference_doc d).2, (reference_doc d).1⟩

/-- Tree-level statement of the IB part: for every valid document, the `k`-th interest bit of the
index is the first byte of the `k`-th node of the document tree in preorder (containers, object keys
and values, array elements; `spansOf` lists the nodes' spans in preorder), and there are no further
interest bits. -/
theorem index_structure_preorder (d : Doc) (k : Nat) :
    selectB true (reference d.text).ib k = ((spansOf d.value (blen (wsToks d.ws0))).map (·.1))[k]? := by
  rw [JsonSimple.selectB_truePositions, ib_preorder]

/-- Non-vacuity: `{"k":[1,{}]}`. -/
example :
    let d : Doc := ⟨[], .obj [] [.plain ⟨0x6B#8, by decide⟩] [] []
      (.arr [] (.num ⟨false, .nonzero 0 [], none, none⟩) [] (.cons [] (.obj0 []) [] .nil)) [] .nil, []⟩
    treeBp d.value = [true, true, false, true, true, false, true, false, false, false] ∧
    toksStdIb d.toks = [true, true, false, false, false, true, true, false, true, false, false, false] := by
  decide

/-! ### (b) text-level kernels, for every byte string -/

/-- `JsonString::find_string_end` returns the offset of the first `"` after the opening quote that
is not preceded by an unescaped backslash (`strEndSpec`, a two-state scan), or `text.len()` if
there is none — for every text and every start. -/
theorem string_end_eq (x : Index) (start : Nat) :
    findStringEnd x start = (strEndSpec (x.text.toList.drop (start + 1)) (start + 1) false).getD x.len :=
  findStringEnd_eq x start

/-- `raw_and_escaped`: the raw span ends just after that quote (or at the end of the text) and the
flag reports whether the body contains a backslash escape. -/
theorem raw_and_escaped_eq (x : Index) (start : Nat) :
    rawAndEscaped x start =
      (match strEndSpec (x.text.toList.drop (start + 1)) (start + 1) false with
        | some i => i + 1 | none => x.len,
       strEscSpec (x.text.toList.drop (start + 1)) false false) :=
  rawAndEscaped_eq x start

/-- `nested_number_span(text, start)` = `start` + the length of the longest run of bytes in
`0-9 . e E + -` beginning at `start` — for every text and every start. -/
theorem number_span_eq (x : Index) (start : Nat) :
    nestedNumberSpan x start = start + ((x.text.toList.drop start).takeWhile isSpanByte).length :=
  nestedNumberSpan_eq x start

/-- `decode_escapes(bytes)` equals the specification string-body decoder `specDecodeAll` (runs of
unescaped bytes must be well-formed UTF-8 and are copied; the eight two-character escapes; `\uXXXX`
for non-surrogates; a high surrogate must be immediately followed by a `\u` low surrogate and the pair
denotes one scalar value; the result is UTF-8) on EVERY byte string, and fails with the same error
(`InvalidUtf8` / `InvalidEscape` / `InvalidUnicodeEscape`) in every other case. -/
theorem decode_escapes_eq (bs : List (BitVec 8)) : decodeEscapes bs = specDecodeAll bs :=
  decodeEscapes_eq bs

example : decodeEscapes [0x5C#8, 0x75#8, 0x64#8, 0x38#8, 0x33#8, 0x64#8, 0x5C#8, 0x75#8, 0x64#8, 0x65#8, 0x30#8, 0x30#8]
    = .ok [0xF0#8, 0x9F#8, 0x98#8, 0x80#8] ∧
    decodeEscapes [0x5C#8, 0x75#8, 0x64#8, 0x38#8, 0x30#8, 0x30#8, 0x41#8] = .error .invalidUnicodeEscape := by
  decide +kernel

example : findStringEnd ⟨#[0x22#8, 0x61#8, 0x5C#8, 0x22#8, 0x62#8, 0x22#8, 0x20#8], Prims.spec [] []⟩ 0 = 5 := by
  decide
example : nestedNumberSpan ⟨#[0x2D#8, 0x31#8, 0x2E#8, 0x35#8, 0x2C#8], Prims.spec [] []⟩ 0 = 4 := by decide

/-! ### (c) navigation reconstructs the value -/

/-- For every valid document and either SIMD level: walking the index from the root — `value()` by
first byte, object fields by `JsonFields::uncons` (source order, duplicates kept), array elements by
the `children` iterator (`first_child` / `next_sibling`), strings through `as_str()`, numbers through
`JsonNumber::raw_bytes()` — yields exactly the value of the document tree (`valueOf`: literals,
numbers as their literal text, strings decoded from the bytes between their quotes, elements in
order, fields in source order).  `fuel` only bounds the recursion depth of the walk. -/
theorem navigate_eq (hasAvx2 : Bool) (d : Doc) (fuel : Nat) (hf : depth d.value ≤ fuel) :
    reconstruct (build hasAvx2 false d.text) fuel 0 = valueOf d.value :=
  navigate_doc hasAvx2 d fuel hf

/-- `navigate_eq` with no free navigation hypotheses: `buildComposed` is `JsonIndex::build` composed
from the dispatched semi-index builder (C05), the full model of `BalancedParens::new` with its
L0/L1/L2 and rank directories (C04, either feature build `simd`) and `ib_select1_from` with its rank
array and galloping search (C07).  For every document shorter than 2^30 bytes (so that
`bp_len = 2·nodes < 2^31`, the side condition of C04's `find_close` / `enclose` theorems; `build`
itself asserts `len ≤ u32::MAX`) the build succeeds and the walk from the root yields the value of
the document.  Which theorem closes which primitive: `is_open` ← `C04.is_open_eq`, `find_close` ←
`C04.find_close_family_eq`, `parent` ← `C04.method_enclose_eq`, `rank1` ← `C04.rank1_eq`,
`ib_select1_from` ← `C07.text_position_eq`; `first_child` / `next_sibling` are the C04 model's own
methods (`moves_composed`).  Still trusted: `core::str::from_utf8` and `char::from_u32`. -/
theorem navigate_eq_composed (hasAvx2 simd : Bool) (d : Doc) (hlen : d.text.length < 2 ^ 30) (fuel : Nat)
    (hf : depth d.value ≤ fuel) :
    (buildComposed hasAvx2 simd d.text).map (fun x => reconstruct x fuel 0) = some (valueOf d.value) :=
  navigate_composed hasAvx2 simd d hlen fuel hf

/-- The composed primitives equal the specification primitives on the whole domain of the
constructors (not only on documents). -/
theorem prims_discharged (simd : Bool) (ibWords bpWords : List (BitVec 64)) (ibLen bpLen : Nat)
    (hw : bpWords.length = (bpLen + 63) / 64) (hlen : bpLen < 2 ^ 31)
    (hb : (ibWords.map popcount).sum < JsonIb.U32) :
    (BPM.construct simd true bpWords bpLen .noSelect).map (fun I => Prims.composed I ibWords ibLen) =
      some (Prims.spec (bitsOf ibWords ibLen) (bitsOf bpWords bpLen)) :=
  prims_composed_eq_spec simd ibWords bpWords ibLen bpLen hw hlen hb

example : (buildComposed true false [0x5B#8, 0x31#8, 0x2C#8, 0x5B#8, 0x5D#8, 0x5D#8]).map
    (fun x => (children x 0, textPosition x 3, parent x 3)) = some ([1, 3], some 3, some 0) := by
  decide +kernel

/-- The array-backed primitives the driver uses on large documents (`Prims.fast`: array scans for
`find_close` / `enclose`, prefix counts for `rank1`, the array of interest-bit positions for select)
are the specification primitives, for all bit lists; so `build _ true` and `build _ false` are the
same index on every input and the correspondence run validates the model the theorems are about. -/
theorem prims_fast_eq (ib bp : List Bool) : Prims.fast ib bp = Prims.spec ib bp ∧
    ∀ (f : Bool) (json : List (BitVec 8)), build f true json = build f false json :=
  ⟨prims_fast_eq_spec ib bp, build_fast_eq⟩

/-- `JsonFields::find` / `find_cursor` on the object at cursor `p` of any index: when every key
decodes, the result is the value of the LAST field — in `uncons` order, which by `navigate_eq` is
source order — whose decoded key equals `name`, `None` when there is none.  (If some string key
fails to decode the lookup returns `None` altogether: `findSpec`.) -/
theorem find_last_dup (x : Index) (p : Nat) (name : List (BitVec 8))
    (hok : ∀ kv ∈ objectFields x p, ∃ key, keyOf x kv.1 = some (.ok key)) :
    findCursor x p name =
      match ((objectFields x p).filter fun kv => keyIs x name kv.1).getLast? with
      | some kv => some kv.2
      | none => none := by
  rw [findCursor, findLoop_eq]; exact findSpec_last x name _ none hok

/-- Non-vacuity: `{"a":1,"a":[],"b":3,"a":null}` — `find("a")` is the `null` (fourth field, BP
position 15), the walk returns all four fields in order. -/
example :
    let k : List SChar := [.plain ⟨0x61#8, by decide⟩]
    let kb : List SChar := [.plain ⟨0x62#8, by decide⟩]
    let one : JVal := .num ⟨false, .nonzero 0 [], none, none⟩
    let d : Doc := ⟨[], .obj [] k [] [] one []
      (.cons [] k [] [] (.arr0 []) [] (.cons [] kb [] [] one [] (.cons [] k [] [] (.lit .null) [] .nil))), []⟩
    findCursor (build true false d.text) 0 [0x61#8] = some 15 ∧
    (objectFields (build true false d.text) 0).length = 4 := by
  decide +kernel

/-! ### raw byte ranges -/

/-- For every valid document and either SIMD level, `text_range()` (hence `raw_bytes()`) of EVERY node
visited by the walk from the root — containers, object keys, field values, array elements, in
pre-order — is exactly the node's source span `spansOf`: the token of a scalar or key (string with
both quotes, number literal, `true`/`false`/`null`), or for a container the span from its open bracket
to its own close bracket.  `rangesWalk` is the walk of `navigate_eq` collecting `text_range()`. -/
theorem raw_range_eq (hasAvx2 : Bool) (d : Doc) (fuel : Nat) (hf : depth d.value ≤ fuel) :
    rangesWalk (build hasAvx2 false d.text) fuel 0 = (spansOf d.value (blen (wsToks d.ws0))).map some :=
  rangesWalk_doc hasAvx2 d fuel hf

/-- The same over the composed model (no navigation hypotheses). -/
theorem raw_range_eq_composed (hasAvx2 simd : Bool) (d : Doc) (hlen : d.text.length < 2 ^ 30) (fuel : Nat)
    (hf : depth d.value ≤ fuel) :
    (buildComposed hasAvx2 simd d.text).map (fun x => rangesWalk x fuel 0) =
      some ((spansOf d.value (blen (wsToks d.ws0))).map some) := by
  rw [buildComposed_doc hasAvx2 simd d hlen, Option.map_some, rangesWalk_doc hasAvx2 d fuel hf]

/-- Located form: `text_range` at any value or key located in an index (`LocT`), and at the root. -/
theorem raw_range_located (hasAvx2 : Bool) (d : Doc) :
    textRange (build hasAvx2 false d.text) 0 =
      some ((toksBytes (wsToks d.ws0)).length,
        (toksBytes (wsToks d.ws0)).length + (toksBytes d.value.toks).length) ∧
    (∀ (T : List (BitVec 8)) (IB BP : List Bool) (v : JVal) (follow : List Tok) (b a : Nat),
      LocT T IB BP (v.toks ++ follow) b a → JsonSimple.SafeNext follow → Anch T (v.toks ++ follow) follow a →
      textRange (mkIndex T IB BP) b = some (a, a + (toksBytes v.toks).length)) :=
  ⟨textRange_root hasAvx2 d, fun _ _ _ v follow _ _ h hs ha => textRange_at v follow h hs ha⟩

/-- Non-vacuity: ` [1, {"k":"]"}] ` — all five nodes with their spans. -/
example :
    let d : Doc := ⟨[.sp], .arr [] (.num ⟨false, .nonzero 0 [], none, none⟩) []
      (.cons [.sp] (.obj [] [.plain ⟨0x6B#8, by decide⟩] [] [] (.str [.plain ⟨0x5D#8, by decide⟩]) [] .nil) [] .nil), [.sp]⟩
    rangesWalk (build true false d.text) 3 0 =
      [some (1, 15), some (2, 3), some (5, 14), some (6, 9), some (10, 13)] := by
  decide +kernel

/-- Non-vacuity: ` [1, {"k":"]"}] ` — the root range is bytes 1..15 (whitespace excluded; the `]`
inside the string does not end the array). -/
example :
    let d : Doc := ⟨[.sp], .arr [] (.num ⟨false, .nonzero 0 [], none, none⟩) []
      (.cons [.sp] (.obj [] [.plain ⟨0x6B#8, by decide⟩] [] [] (.str [.plain ⟨0x5D#8, by decide⟩]) [] .nil) [] .nil), [.sp]⟩
    d.text.length = 16 ∧ textRange (build true false d.text) 0 = some (1, 15) := by
  decide +kernel

/-! ### the documents quantified over are exactly the RFC 8259 texts of C08 -/

/-- Every document whose strings are well-formed (`StrsOk`: each string body and key satisfies C08's
`StrBody` — unescaped characters are well-formed UTF-8 scalars ≥ U+0020 other than `"` and `\`,
`\u` escapes are non-surrogates or high/low pairs) renders to a text that is `Valid` in C08's
grammar (`Spec/Json.lean`), with nesting bound `depth d.value`. -/
theorem docs_are_valid_texts (d : Doc) (h : StrsOk d.value) : Json.Valid (depth d.value) d.text :=
  doc_valid d h

/-- Conversely every `Valid` text, for any nesting bound, is the rendering of such a document. -/
theorem valid_texts_are_docs (D : Nat) (b : List (BitVec 8)) (h : Json.Valid D b) :
    ∃ d : Doc, d.text = b ∧ StrsOk d.value :=
  valid_lift D b h

/-- Hence C06 over exactly the RFC 8259 texts of C08: for every `Valid` text shorter than 2^30 bytes
the composed `JsonIndex::build` succeeds and walking it from the root yields the value of a document
tree whose rendering is that text (and whose strings are well-formed, so every string decodes by
`decode_escapes_eq` to what the specification decoder gives). -/
theorem navigate_eq_valid (hasAvx2 simd : Bool) (D : Nat) (b : List (BitVec 8)) (h : Json.Valid D b)
    (hlen : b.length < 2 ^ 30) :
    ∃ d : Doc, d.text = b ∧ StrsOk d.value ∧ ∀ fuel, depth d.value ≤ fuel →
      (buildComposed hasAvx2 simd b).map (fun x => reconstruct x fuel 0) = some (valueOf d.value) := by
  obtain ⟨d, hd, hok⟩ := valid_lift D b h
  subst hd
  exact ⟨d, rfl, hok, fun fuel hf => navigate_composed hasAvx2 simd d hlen fuel hf⟩

end SV.Props.C06
