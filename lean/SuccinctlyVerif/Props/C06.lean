/-
Props/C06 — JSON index navigation reproduces every valid document's value.
-/
import SuccinctlyVerif.Model.JsonNav
namespace SV.Props.C06
open SV SV.JsonNav

/-- placeholder while model and correspondence are brought up -/
theorem placeholder : parseI64 [0x2D#8, 0x31#8] = some (-1) := by decide

end SV.Props.C06
