/-
Props/C06 — JSON index navigation reproduces every valid document's value.
Property theorems only; helper lemmas live in Proof/JsonNav*.lean.

"Valid document" = `Doc` of `Spec/JsonSimple.lean` (a value tree rendered through tokens with
arbitrary RFC 8259 whitespace in every gap).  The index is `JsonIndex::build` as modelled in
`Model/JsonNav.lean`; BP/IB primitives are taken at their specifications (see `level_note`).
-/
import SuccinctlyVerif.Proof.JsonNav
namespace SV.Props.C06
open SV SV.JsonNav SV.JsonText SV.JsonSemi

/-! ### (a) structure of the index of a valid document -/

/-- For every valid document the standard-cursor reference index (which by C05 is what every engine
builds) has: as BP string the balanced encoding of the document tree — `1 … 0` around the children
of each container, keys being leaf children preceding their value, a leaf `10` for every scalar and
key — and as interest bits exactly the first bytes of the node tokens (`{`, `[`, every string
including keys, every number and literal) in document order, i.e. the `k`-th IB one is the first
byte of the `k`-th node in preorder. -/
theorem index_structure (d : Doc) :
    (reference d.text).bp = treeBp d.value ∧ (reference d.text).ib = toksStdIb d.toks :=
  ⟨(reference_doc d).2, (reference_doc d).1⟩

/-- Non-vacuity: `{"k":[1,{}]}`. -/
example :
    let d : Doc := ⟨[], .obj [] [.plain ⟨0x6B#8, by decide⟩] [] []
      (.arr [] (.num ⟨false, .nonzero 0 [], none, none⟩) [] (.cons [] (.obj0 []) [] .nil)) [] .nil, []⟩
    treeBp d.value = [true, true, false, true, true, false, true, false, false, false] ∧
    toksStdIb d.toks = [true, true, false, false, false, true, true, false, true, false, false, false] := by
  decide

/-! ### (b) text-level kernels, for every byte string -/

/-- `JsonString::find_string_end` returns the offset of the first `"` after the opening quote that
is not preceded by an unescaped backslash (`strEndSpec`, a two-state scan), or `text.len()` if
there is none — for every text and every start. -/
theorem string_end_eq (x : Index) (start : Nat) :
    findStringEnd x start = (strEndSpec (x.text.toList.drop (start + 1)) (start + 1) false).getD x.len :=
  findStringEnd_eq x start

/-- `raw_and_escaped`: the raw span ends just after that quote (or at the end of the text) and the
flag reports whether the body contains a backslash escape. -/
theorem raw_and_escaped_eq (x : Index) (start : Nat) :
    rawAndEscaped x start =
      (match strEndSpec (x.text.toList.drop (start + 1)) (start + 1) false with
        | some i => i + 1 | none => x.len,
       strEscSpec (x.text.toList.drop (start + 1)) false false) :=
  rawAndEscaped_eq x start

/-- `nested_number_span(text, start)` = `start` + the length of the longest run of bytes in
`0-9 . e E + -` beginning at `start` — for every text and every start. -/
theorem number_span_eq (x : Index) (start : Nat) :
    nestedNumberSpan x start = start + ((x.text.toList.drop start).takeWhile isSpanByte).length :=
  nestedNumberSpan_eq x start

example : findStringEnd ⟨#[0x22#8, 0x61#8, 0x5C#8, 0x22#8, 0x62#8, 0x22#8, 0x20#8], Prims.spec [] []⟩ 0 = 5 := by
  decide
example : nestedNumberSpan ⟨#[0x2D#8, 0x31#8, 0x2E#8, 0x35#8, 0x2C#8], Prims.spec [] []⟩ 0 = 4 := by decide

end SV.Props.C06
