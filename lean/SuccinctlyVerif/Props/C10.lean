/-
Props/C10 — Printed numbers read back to the same value.

Property theorems only (helper lemmas: Proof/NumFmt.lean).  No theorem mentions `Float`: the
provable content is that every re-spelling the printers perform is value-preserving on exact
decimals (`Spec/Dec.sameVal`: same sign, same rational value) and stays inside the grammar the
readers accept (`isJsonNumber` = RFC 8259 = `is_valid_number`).  The step "`core` prints a decimal
that parses back to the same `f64`, and parsing is a function of the decimal's value" is trusted
Rust `core`; composition: value-preserving re-spelling ⇒ reads back to the same double.
Literals are quantified generatively (`Spec/Dec.Lit`): `Lit.strict` = RFC 8259, `Lit.wf` = RFC 8259
plus the reader leniencies the code documents (leading `+`, redundant leading zeros, leading `.`).
-/
import SuccinctlyVerif.Proof.NumFmtExp
namespace SV.Props.C10
open SV SV.Dec SV.NumFmt

/-- `write_i64` prints every 64-bit integer exactly: it never panics (the 20-byte buffer
suffices, `i64::MIN` included) and the integer reader returns `n` on its output. -/
theorem i64_print_exact (n : Int) (lo : I64_MIN ≤ n) (hi : n ≤ I64_MAX) :
    ∃ s, writeI64 n = some s ∧ readInt s = some n :=
  writeI64_readInt n lo hi

example : writeI64 (-9223372036854775808) = some "-9223372036854775808".toList := by decide
example : writeI64 9223372036854775807 = some "9223372036854775807".toList := by decide

/-- `format_float_with_fraction` on any text of the shape `f64`'s `Display` prints (an RFC 8259
number without exponent): the output denotes the same signed value, is again an RFC 8259 number,
and contains a `.` (so it reads back as a float, not an int). -/
theorem with_fraction_value_preserving (l : Lit) (hs : l.strict) (hexp : l.exp = none) :
    sameVal (parseDec (formatFloatWithFraction l.text)) (parseDec l.text) ∧
    isJsonNumber (formatFloatWithFraction l.text) = true ∧
    '.' ∈ formatFloatWithFraction l.text := by
  have hw := hs.towf
  obtain ⟨sign, ip, frac, exp⟩ := l
  simp only at hexp; subst hexp
  cases frac with
  | some f =>
    have hm : '.' ∈ Lit.text ⟨sign, ip, some f, none⟩ := by simp [Lit.text, Lit.fracText]
    have hc : (Lit.text ⟨sign, ip, some f, none⟩).contains '.' = true := List.contains_iff_mem.mpr hm
    have hout : formatFloatWithFraction (Lit.text ⟨sign, ip, some f, none⟩) = Lit.text ⟨sign, ip, some f, none⟩ := by
      unfold formatFloatWithFraction; rw [if_pos hc]
    rw [hout, parseDec_text _ hw]
    exact ⟨Dec.same_refl _, isJsonNumber_text _ hs, hm⟩
  | none =>
    have hnm : '.' ∉ Lit.text ⟨sign, ip, none, none⟩ := by
      simp only [Lit.text, Lit.fracText, Lit.expText, List.append_nil, List.mem_append, not_or]
      exact ⟨not_mem_signStr (by decide) (by decide) sign hw.sign, not_mem_of_allDigits (by decide) ip hw.ip⟩
    have hc : ¬ ((Lit.text ⟨sign, ip, none, none⟩).contains '.' = true) :=
      fun h => hnm (List.contains_iff_mem.mp h)
    have hout : formatFloatWithFraction (Lit.text ⟨sign, ip, none, none⟩) = Lit.text ⟨sign, ip, some ['0'], none⟩ := by
      unfold formatFloatWithFraction; rw [if_neg hc]
      simp [Lit.text, Lit.fracText, Lit.expText]
    have hs' : Lit.strict ⟨sign, ip, some ['0'], none⟩ :=
      { sign := hw.sign, ip := hw.ip, frac := ⟨by decide, by simp⟩, exp := trivial,
        noPlus := hs.noPlus, int := hs.int }
    rw [hout, parseDec_text _ hs'.towf, parseDec_text _ hw]
    refine ⟨?_, isJsonNumber_text _ hs', by simp [Lit.text, Lit.fracText]⟩
    show Dec.same _ _
    simp only [Lit.toDec, Option.getD_some, Option.getD_none, List.append_nil, List.length_cons,
      List.length_nil]
    rw [digitsVal_append, digitsVal_singleton]
    have := Dec.same_shift (sign == ['-']) (digitsVal ip) 1 (0 - ((0 + 1 : Nat) : Int))
    simpa [digitVal] using this

example : formatFloatWithFraction "-12".toList = "-12.0".toList := by decide
example : Lit.strict ⟨['-'], "12".toList, none, none⟩ :=
  { sign := by simp [isSignStr], ip := by decide, frac := by simp, exp := trivial,
    noPlus := by simp, int := Or.inr ⟨'1', ['2'], rfl, by decide⟩ }

/-- `format_number_jq_compat` on every literal **without exponent part** of the lenient grammar
(RFC 8259 plus leading `+`, redundant leading zeros, leading `.`): the output denotes the same signed
value and is a strict RFC 8259 number (for every digit cap – the cap is not consulted on this
branch).  Missing for the full statement `jq_literal_full_statement`: the exponent-notation branches
(`normalize_extreme_literal_mantissa` → `format_shifted_mantissa` / `try_positive_shifted_plain` /
`assemble_scientific`, `format_near_zero_literal`, `format_overflow_literal_mantissa`); they are
covered by the correspondence check with its parse-back oracle only. -/
theorem jq_literal_value_preserving_partial (cap : Nat) (l : Lit) (hw : l.wf) (hexp : l.exp = none) :
    sameVal (parseDec (formatNumberJqCompat cap l.text)) (parseDec l.text) ∧
    isJsonNumber (formatNumberJqCompat cap l.text) = true := by
  have he : (l.text.contains 'e' || l.text.contains 'E') = false := by
    have h1 : 'e' ∉ l.text := not_mem_text_noexp (by decide) (by decide) (by decide) (by decide) l hw hexp
    have h2 : 'E' ∉ l.text := not_mem_text_noexp (by decide) (by decide) (by decide) (by decide) l hw hexp
    simp [h1, h2]
  have hout : formatNumberJqCompat cap l.text = stripInsignificant l.text := by
    unfold formatNumberJqCompat formatNumberJqCompatWith
    simp only [he, Bool.not_false, if_true]
  rw [hout, stripInsignificant_text l hw hexp]
  obtain ⟨sign, ip, frac, exp⟩ := l
  simp only at hexp; subst hexp
  have hci := canonInt_spec ip hw.ip
  have hs' : Lit.strict ⟨if sign = ['-'] then ['-'] else [], canonInt ip, frac, none⟩ :=
    { sign := by by_cases h : sign = ['-'] <;> simp [h, isSignStr]
      ip := hci.1
      frac := by
        have := hw.frac
        cases frac with
        | none => simp only; rcases hci.2.2 with h | ⟨c, t, h, _⟩ <;> rw [h] <;> simp
        | some f => exact this
      exp := trivial
      noPlus := by by_cases h : sign = ['-'] <;> simp [h]
      int := hci.2.2 }
  rw [parseDec_text _ hs'.towf, parseDec_text _ hw]
  refine ⟨?_, isJsonNumber_text _ hs'⟩
  show Dec.same _ _
  have hneg : ((if sign = ['-'] then ['-'] else ([] : Str)) == ['-']) = (sign == ['-']) := by
    by_cases h : sign = ['-'] <;> simp [h]
  simp only [Lit.toDec, hneg, digitsVal_append, hci.2.1]
  exact Dec.same_refl _

example : formatNumberJqCompat 100000 "+007.50".toList = "7.50".toList := by decide
example : formatNumberJqCompat 100000 "-.5".toList = "-0.5".toList := by decide

/-- The statement for `format_number_jq_compat_with` (both variants): for every literal of the lenient
grammar whose exponent arithmetic stays inside `i128` (written exponent magnitude + mantissa length
`< 2^127`, so neither `parse_literal_exponent` nor the `checked_add`/`checked_sub` of the shift
saturates), the printed text denotes the same signed value and is an RFC 8259 number – for whichever
class (`fin` / `zero`) the trusted `core` parser assigns to the literal.  A bound on the number of
significant digits (`≤ cap + 1`) is needed only where the code still truncates: the bounded preview
variant, and literals that parse to zero (`format_near_zero_literal`; truncating those cannot change
the double they read back to, but it changes the decimal). -/
def jq_literal_full_statement (preview : Bool) : Prop :=
  ∀ (cap : Nat) (l : Lit), l.wf →
    (∀ m s d, l.exp = some (m, s, d) → (digitsVal d : Int) + ((l.ip ++ l.frac.getD []).length : Int) < 2 ^ 127) →
    (classify l.text = .fin ∨ classify l.text = .zero) →
    ((preview = true ∨ classify l.text = .zero) →
      (trimStartZeros (l.ip ++ l.frac.getD [])).length ≤ cap + 1) →
    sameVal (parseDec (formatNumberJqCompatWith cap preview l.text)) (parseDec l.text) ∧
    isJsonNumber (formatNumberJqCompatWith cap preview l.text) = true

theorem jq_literal_with_value_preserving (preview : Bool) : jq_literal_full_statement preview := by
  intro cap l hw hfit hcls hcap
  cases hexp : l.exp with
  | none =>
    have := jq_literal_value_preserving_partial cap l hw hexp
    cases preview
    · exact this
    · -- the two variants coincide without exponent
      have he : (l.text.contains 'e' || l.text.contains 'E') = false := by
        have h1 : 'e' ∉ l.text := not_mem_text_noexp (by decide) (by decide) (by decide) (by decide) l hw hexp
        have h2 : 'E' ∉ l.text := not_mem_text_noexp (by decide) (by decide) (by decide) (by decide) l hw hexp
        simp [h1, h2]
      have h1 : formatNumberJqCompatWith cap true l.text = formatNumberJqCompat cap l.text := by
        unfold formatNumberJqCompat formatNumberJqCompatWith
        simp only [he, Bool.not_false, if_true]
      rw [h1]; exact this
  | some x =>
    obtain ⟨m, s, d⟩ := x
    have hfit' : ExpFits l s d := hfit m s d hexp
    have hne : classify l.text ≠ .err := by rcases hcls with h | h <;> rw [h] <;> simp
    rw [formatNumberJqCompat_exp cap preview l hw m s d hexp hne, parseDec_text l hw]
    have he := hw.exp
    rw [hexp] at he
    simp only at he
    have hmant : l.toDec.mant = digitsVal (trimStartZeros (l.ip ++ l.frac.getD [])) := by
      rw [digitsVal_trimStartZeros]; rfl
    have hexpv : l.toDec.exp = expOf s d - ((l.frac.getD []).length : Int) := by
      simp [Lit.toDec, hexp, expOf]
    have hcm := classify_text l hw
    suffices h : Good (formatExpLiteral cap preview (classify l.text) (l.sign == ['-']) (rawOf l) (s ++ d)) l.toDec from h
    cases hsig : trimStartZeros (l.ip ++ l.frac.getD []) with
    | nil =>
      rw [hsig] at hmant hcm
      rw [hcm, classifyMag_nil]
      have hn := normalizeExtreme_nil l hw (s ++ d) (some cap) hsig
      have hE : -(digitsVal d : Int) ≤ expOf s d ∧ expOf s d ≤ (digitsVal d : Int) := by
        unfold expOf; split <;> omega
      have hfit2 : (digitsVal d : Int) + ((l.ip.length : Int) + ((l.frac.getD []).length : Int)) < 2 ^ 127 := by
        have := hfit'; unfold ExpFits at this; simpa [List.length_append] using this
      have := formatNearZeroLiteral_zero_good cap (rawOf l) s d he.2.1 he.2.2.1 he.2.2.2
        (l.frac.getD []).length hn (by simp only [I128_MIN, I128_MAX]; omega)
        (by simp only [I128_MIN, I128_MAX]; omega) (l.sign == ['-']) l.toDec.exp
      have hd : l.toDec = ⟨l.sign == ['-'], 0, l.toDec.exp⟩ := by
        have : l.toDec = ⟨l.toDec.neg, l.toDec.mant, l.toDec.exp⟩ := rfl
        rw [this, hmant]; rfl
      rw [hd]; exact this
    | cons lead full =>
      have hN := normed_of_lit l hw m s d hexp hfit' lead full hsig
      have hd : l.toDec = ⟨l.sign == ['-'], digitsVal (lead :: full),
          expOf s d + ((full.length : Int) - ((l.frac.getD []).length : Int)) - (full.length : Int)⟩ := by
        have : l.toDec = ⟨l.toDec.neg, l.toDec.mant, l.toDec.exp⟩ := rfl
        rw [this, hmant, hexpv, hsig]
        congr 1; omega
      rw [hd]
      rcases hcls with h | h
      · rw [h]
        refine formatExpLiteral_fin_good hN cap preview (fun hp => ?_) _
        have := hcap (Or.inl hp); rw [hsig] at this; simpa using this
      · rw [h]
        have hcap' : full.length ≤ cap := by
          have := hcap (Or.inr h); rw [hsig] at this; simpa using this
        exact formatNearZeroLiteral_good hN cap hcap' _

/-- Real output (`format_number_jq_compat`, after the fix of F-C10-1): value- and sign-preserving
RFC 8259 output for **every** literal of the lenient grammar that parses to a finite non-zero double
– no bound on the number of digits – and for every literal that parses to zero with at most `cap + 1`
significant digits; exponent arithmetic non-saturating.  Not covered (outside the property: not a
finite double / saturated arithmetic): literals that overflow `f64` (helper lemma
`formatOverflowLiteralMantissa_good` below the `10^9` ceiling), saturated `i128` exponents. -/
theorem jq_literal_value_preserving : jq_literal_full_statement false :=
  jq_literal_with_value_preserving false

/-- The bounded preview variant (`format_number_jq_compat_preview`, used by error-message previews)
under the `≤ cap + 1` significant digits condition, which `jq_literal_cap_truncates` shows necessary. -/
theorem jq_literal_preview_value_preserving : jq_literal_full_statement true :=
  jq_literal_with_value_preserving true

example : Lit.wf ⟨[], "12".toList, some "50".toList, some ('e', ['-'], "3".toList)⟩ :=
  { sign := Or.inl rfl, ip := by decide, frac := ⟨by decide, by simp⟩,
    exp := ⟨Or.inl rfl, Or.inr (Or.inl rfl), by decide, by simp⟩ }
example : Lit.text ⟨[], "12".toList, some "50".toList, some ('e', ['-'], "3".toList)⟩ = "12.50e-3".toList := by decide

/-- The digit-cap side condition of `jq_literal_full_statement` (preview / zero-valued) is necessary: with a cap of 2 digits
`normalize_extreme_literal_mantissa` turns the five-digit mantissa of `1.2345e-10` into `1.23`
(exponent −10, digit count 5), and `1.23E-10` is a different value.  (The shipped cap is 100 000;
the same truncation on a 100 002-digit literal changed the double it read back to before the fix of
F-C10-1 – corpus/C10/finding-1.case.) -/
theorem jq_literal_cap_truncates :
    ((normalizeExtreme "1.2345".toList "-10".toList (some 2)).toOption.map
        fun n => (n.mantissaStr, n.newExp, n.digitCount)) = some ("1.23".toList, .exact (-10), 5) ∧
    ¬ sameVal (parseDec "1.23E-10".toList) (parseDec "1.2345e-10".toList) := by
  decide

/-- `format_float_yq_with` (shared by `format_float_yq`, `format_float_yq_yaml`) on every text of the
shape `f64`'s `{:e}` prints – an RFC 8259 number `mantissa e [-]digits` with an `i32` exponent `v`:
it never panics; inside the window `-4 ≤ v < 6` it returns `ordinary_magnitude(f)` unchanged
(see `with_fraction_value_preserving` for the JSON variant; the YAML variant is `core`'s `{}` text
itself); outside the window the re-spelling `mantissa e±NN` denotes the same signed value as the
`{:e}` text and is an RFC 8259 number (hence also a YAML core-schema float: it contains `e`). -/
theorem yq_reformat_value_preserving (ordinary : Str) (l : Lit) (hs : l.strict)
    (s d : Str) (hexp : l.exp = some ('e', s, d)) (hns : s = [] ∨ s = ['-'])
    (hi32 : (digitsVal d : Int) < 2 ^ 31) :
    ∃ out, formatFloatYqWith ordinary l.text = some out ∧
      ((-4 ≤ (if s == ['-'] then -(digitsVal d : Int) else (digitsVal d : Int)) ∧
        (if s == ['-'] then -(digitsVal d : Int) else (digitsVal d : Int)) < 6) → out = ordinary) ∧
      (¬ (-4 ≤ (if s == ['-'] then -(digitsVal d : Int) else (digitsVal d : Int)) ∧
          (if s == ['-'] then -(digitsVal d : Int) else (digitsVal d : Int)) < 6) →
        sameVal (parseDec out) (parseDec l.text) ∧ isJsonNumber out = true) := by
  have hw := hs.towf
  obtain ⟨sign, ip, frac, exp⟩ := l
  simp only at hexp; subst hexp
  have he := hw.exp
  simp only at he
  have hsS : isSignStr s := by rcases hns with h | h <;> subst h <;> simp [isSignStr]
  -- the mantissa text contains no 'e'
  have hmant : 'e' ∉ sign ++ (ip ++ Lit.fracText ⟨sign, ip, frac, some ('e', s, d)⟩) := by
    simp only [List.mem_append, not_or]
    refine ⟨not_mem_signStr (by decide) (by decide) sign hw.sign, not_mem_of_allDigits (by decide) ip hw.ip, ?_⟩
    have hf := hw.frac
    cases frac with
    | none => simp [Lit.fracText]
    | some f =>
      simp only [Lit.fracText, List.mem_cons, not_or]
      exact ⟨by decide, not_mem_of_allDigits (by decide) f hf.1⟩
  have htext : Lit.text ⟨sign, ip, frac, some ('e', s, d)⟩
      = (sign ++ (ip ++ Lit.fracText ⟨sign, ip, frac, some ('e', s, d)⟩)) ++ 'e' :: (s ++ d) := by
    simp [Lit.text, Lit.expText]
  have hsplit := splitOnce_of_not_mem 'e' _ (s ++ d) hmant
  have hread := readInt_signed s d hsS he.2.2.1 he.2.2.2
  generalize hv : (if s == ['-'] then -(digitsVal d : Int) else (digitsVal d : Int)) = v at hread ⊢
  have hrange : -(2 ^ 31 : Int) ≤ v ∧ v ≤ 2 ^ 31 - 1 := by
    rw [← hv]; split <;> omega
  have hparse : parseRustInt (-(2 ^ 31)) (2 ^ 31 - 1) (s ++ d) = some v := by
    simp only [parseRustInt, hread]
    rw [if_pos hrange]
  by_cases hwin : -4 ≤ v ∧ v < 6
  · refine ⟨ordinary, ?_, fun _ => rfl, fun h => absurd hwin h⟩
    rw [htext]; unfold formatFloatYqWith; simp only [hsplit, hparse, hwin, and_self, if_true]
  · have hp := pad2_spec v.natAbs
    let l' : Lit := ⟨sign, ip, frac, some ('e', [if v < 0 then '-' else '+'], pad2 v.natAbs)⟩
    have hw' : l'.strict :=
      { sign := hw.sign, ip := hw.ip, frac := hw.frac
        exp := ⟨Or.inl rfl, by by_cases h : v < 0 <;> simp [h, isSignStr], hp.1, hp.2.2⟩
        noPlus := hs.noPlus, int := hs.int }
    refine ⟨l'.text, ?_, fun h => absurd h hwin, fun _ => ?_⟩
    · rw [htext]; unfold formatFloatYqWith
      simp only [hsplit, hparse, hwin, if_false]
      simp [l', Lit.text, Lit.expText, Lit.fracText]
    · rw [parseDec_text _ hw'.towf, parseDec_text _ hw]
      refine ⟨?_, isJsonNumber_text _ hw'⟩
      show Dec.same _ _
      have hexpv : (if ([if v < 0 then '-' else '+'] == ['-']) = true then -(digitsVal (pad2 v.natAbs) : Int)
          else (digitsVal (pad2 v.natAbs) : Int)) = v := by
        rw [hp.2.1]
        by_cases h : v < 0
        · simp [h]; omega
        · simp [h]; omega
      simp only [Lit.toDec, l', hexpv, hv]
      exact Dec.same_refl _

example : Lit.text ⟨['-'], ['1'], some ['5'], some ('e', ['-'], ['7'])⟩ = "-1.5e-7".toList := by decide
example : Lit.strict ⟨['-'], ['1'], some ['5'], some ('e', ['-'], ['7'])⟩ :=
  { sign := by simp [isSignStr], ip := by decide, frac := ⟨by decide, by simp⟩,
    exp := ⟨Or.inl rfl, by simp [isSignStr], by decide, by simp⟩,
    noPlus := by simp, int := Or.inr ⟨'1', [], rfl, by decide⟩ }

/-- The boolean RFC 8259 recogniser `isJsonNumber` (the model of `json::validate::is_valid_number`)
accepts exactly the texts of strict literals of the generative grammar `Lit` over which the
theorems above quantify (soundness and completeness). -/
theorem json_number_grammar_iff (s : Str) : isJsonNumber s = true ↔ ∃ l : Lit, l.strict ∧ l.text = s :=
  ⟨isJsonNumber_sound s, fun ⟨l, hs, ht⟩ => ht ▸ isJsonNumber_text l hs⟩

example : isJsonNumber "-0.50E+7".toList = true := by decide
example : isJsonNumber "007".toList = false := by decide

end SV.Props.C10
