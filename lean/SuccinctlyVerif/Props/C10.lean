/-
Props/C10 — Printed numbers read back to the same value.
-/
import SuccinctlyVerif.Proof.NumFmt
namespace SV.Props.C10
open SV SV.Dec SV.NumFmt

/-- placeholder while the correspondence is brought up -/
theorem with_fraction_idem_partial (d : Str) (h : d.contains '.' = true) : formatFloatWithFraction d = d := by
  simp [formatFloatWithFraction, h]

end SV.Props.C10
