/-
Props/C30 — jq programs never crash the process: the part that is pure logic.

The size guards of the evaluator as decision logic (Model/JqGuards; thresholds regenerated from the
source into Generated/C30): for the guarded builtins, the value built in one step has a size bounded
by a function of the inputs, the literals and the threshold, and nothing is built when the allocator
refuses the reservation.  Runtime aborts (failed infallible allocations, stack overflow) and panics
elsewhere in the evaluator are not expressible here; they are monitored by the harness.
-/
import SuccinctlyVerif.Proof.JqGuards
namespace SV.Props.C30
open SV.JqGuards SV.Gen

/-- `range(from; to; step)` never accumulates more than the cap, whatever the operands (including a
step that never reaches `to`, `to = 2^63 - 1`, or a zero step). -/
theorem range_bounded_cap (cap : Nat) (from_ to step : Int) : (rangeValuesCap cap from_ to step).length ≤ cap := by
  unfold rangeValuesCap
  split
  · have := rangeUp_length to step cap from_ []; simpa using this
  · split
    · have := rangeDown_length to step cap from_ []; simpa using this
    · simp

/-- With the threshold the source has now (`MAX_RANGE`, regenerated each run). -/
theorem range_bounded (from_ to step : Int) : (rangeValues from_ to step).length ≤ JQ_MAX_RANGE :=
  range_bounded_cap _ _ _ _

/-- `range(1e12)` with a cap of 7: exactly 7 values (the cap binds). -/
example : (rangeValuesCap 7 0 1000000000000 1).length = 7 := by decide +kernel
example : JQ_MAX_RANGE = 100000 := by decide
example : (rangeValuesCap 100 5 0 (-2)) = [5, 3, 1] := by decide +kernel

/-- String repetition builds a string only when the byte count fits a `usize` AND the allocator
accepted the reservation; the size is exactly `len · n`.  It never panics. -/
theorem repeat_bounded (len : Nat) (n : Int) (alloc : Nat → Bool) :
    repeatString len n alloc ≠ .panic ∧
    ∀ sz, repeatString len n alloc = .ok sz → sz = len * n.toNat ∧ sz < USIZE ∧ alloc sz = true := by
  unfold repeatString
  constructor
  · split
    · intro h; cases h
    · simp only []; split <;> (intro h; cases h)
  · intro sz
    split
    · intro h; cases h
    · simp only []
      split
      · rename_i hc
        intro h; injection h with h
        subst h; exact ⟨rfl, hc.1, hc.2⟩
      · intro h; cases h

/-- `"abc" * 4611686018427387904`: 3 · 2^62 bytes exceed `isize::MAX`, which no allocator accepts
(the pre-repair code called `str::repeat`, which panics with `capacity overflow`). -/
example : repeatString 3 4611686018427387904 (fun n => decide (n ≤ 9223372036854775807)) =
    .error "Repeat string result too long" := by decide +kernel
/-- `len · n ≥ 2^64`: refused by `checked_mul` whatever the allocator says. -/
example : repeatString 3 9223372036854775807 (fun _ => true) = .error "Repeat string result too long" := by
  decide +kernel
example : repeatString 2 3 (fun _ => true) = .ok 6 := by decide +kernel
example : repeatString 2 (-1) (fun _ => true) = .null := by decide +kernel

/-- `pad_with_nulls` under its call-site guard (`index ≥ arr.len()`): the subtraction cannot
underflow, the new length is `index + 1`, and it is reached only if the allocator accepted the
`index + 1 - len` additional slots. -/
theorem pad_bounded (arrLen index : Nat) (alloc : Nat → Bool) (h : index ≥ arrLen) :
    padWithNulls arrLen index alloc ≠ .panic ∧
    ∀ n, padWithNulls arrLen index alloc = .ok n → n = index + 1 ∧ alloc (n - arrLen) = true := by
  unfold padWithNulls
  constructor
  · split
    · simp only []
      rw [if_pos (by omega)]
      split <;> (intro hh; cases hh)
    · intro hh; cases hh
  · intro n
    split
    · simp only []
      rw [if_pos (by omega)]
      split
      · rename_i ha
        intro hh; injection hh with hh; subst hh; exact ⟨rfl, ha⟩
      · intro hh; cases hh
    · intro hh; cases hh

/-- `setpath([idx]; v)` / `.[idx] = v` on an array of `arrLen` elements: never panics, and the
resulting length is either unchanged or `resolved index + 1`, the latter only with the allocator's
consent. -/
theorem setpath_bounded (arrLen : Nat) (idx : Int) (alloc : Nat → Bool) :
    setpathLength arrLen idx alloc ≠ .panic ∧
    ∀ n, setpathLength arrLen idx alloc = .ok n →
      n = arrLen ∨ (arrLen < n ∧ alloc (n - arrLen) = true ∧
        (n : Int) = (if idx < 0 then (arrLen : Int) + idx else idx) + 1) := by
  unfold setpathLength
  rcases resolve_spec idx arrLen with ⟨m, hm⟩ | ⟨r, hr, hv⟩
  · rw [hm]
    simp only []
    exact ⟨(by intro hh; cases hh), (by intro n hn; cases hn)⟩
  · rw [hr]
    simp only []
    by_cases hge : r ≥ arrLen
    · rw [if_pos hge]
      have hp := pad_bounded arrLen r alloc hge
      refine ⟨hp.1, ?_⟩
      intro n hn
      obtain ⟨h1, h2⟩ := hp.2 n hn
      right
      exact ⟨by omega, h2, by omega⟩
    · rw [if_neg hge]
      exact ⟨(by intro hh; cases hh), (by intro n hn; injection hn with hn; left; exact hn.symm)⟩

example : setpathLength 3 5 (fun _ => true) = .ok 6 := by decide +kernel
example : setpathLength 3 (-5) (fun _ => true) = .error "Out of bounds negative array index" := by decide +kernel
/-- `null | setpath([1e30]; 9)`-style request under an allocator that refuses it: a jq error. -/
example : setpathLength 0 9000000000000000000 (fun n => decide (n < 1000000)) =
    .error "Cannot grow array to 9000000000000000001 elements" := by decide +kernel

/-- `combinations(n)` reserves its `n` copies only with the allocator's consent. -/
theorem combinations_bounded (n : Nat) (alloc : Nat → Bool) :
    combinationsCopies n alloc ≠ .panic ∧ ∀ k, combinationsCopies n alloc = .ok k → k = n ∧ alloc n = true := by
  unfold combinationsCopies
  constructor
  · split <;> (intro h; cases h)
  · intro k
    split
    · rename_i ha; intro h; injection h with h; exact ⟨h.symm, ha⟩
    · intro h; cases h

/-- `limit(n; f)` lets through at most the outputs of `f`, and at most `n` of them for `n ≥ 0`. -/
theorem limit_bounded (n : Int) (m : Nat) : limitCount n m ≤ m ∧ (0 ≤ n → limitCount n m ≤ n.toNat) := by
  unfold limitCount
  constructor
  · split
    · omega
    · split
      · omega
      · exact Nat.min_le_right _ _
  · intro hn
    split
    · omega
    · split
      · omega
      · exact Nat.min_le_left _ _

/-- Guarded builtins only (`_partial`): for `range`, string repetition, `setpath`/index assignment
padding, `combinations(n)` and `limit`, the value built in one step has size ≤ f(inputs, literals,
threshold), nothing is built without the allocator's consent, and the guard logic itself never
panics.  Missing: every other builtin and the evaluator's infallible allocations (`Vec::push`,
`String::push_str`, `format!`), which abort the process when memory runs out — monitored, not proved. -/
theorem guards_bound_allocation_partial :
    (∀ f t s : Int, (rangeValues f t s).length ≤ JQ_MAX_RANGE) ∧
    (∀ (len : Nat) (n : Int) (alloc : Nat → Bool) (sz : Nat),
        repeatString len n alloc = .ok sz → sz = len * n.toNat ∧ sz < USIZE ∧ alloc sz = true) ∧
    (∀ (arrLen : Nat) (idx : Int) (alloc : Nat → Bool), setpathLength arrLen idx alloc ≠ .panic) ∧
    (∀ (n : Nat) (alloc : Nat → Bool) (k : Nat), combinationsCopies n alloc = .ok k → alloc n = true) ∧
    (∀ (n : Int) (m : Nat), limitCount n m ≤ m) :=
  ⟨range_bounded, fun len n alloc => (repeat_bounded len n alloc).2,
   fun a i al => (setpath_bounded a i al).1, fun n al k h => ((combinations_bounded n al).2 k h).2,
   fun n m => (limit_bounded n m).1⟩

end SV.Props.C30
