/-
Props/C13 — UTF-8 validation matches the Unicode definition on every engine.
Property theorems only; helper lemmas live in Proof/Utf8*.lean.  Spec: Spec/Utf8.lean (Table 3-7
automaton `WellFormed`, `IsLongestValidPrefix`, rule classification `firstViolation`).
-/
import SuccinctlyVerif.Proof.Utf8ScalarMain
import SuccinctlyVerif.Proof.Utf8Avx2
import SuccinctlyVerif.Proof.Utf8BroadwordMain
import SuccinctlyVerif.Proof.Utf8Prefix
import SuccinctlyVerif.Proof.Utf8LineCol
import SuccinctlyVerif.Proof.Utf8RoundTrip
import SuccinctlyVerif.Proof.Utf8SpecLink
import SuccinctlyVerif.Proof.Utf8Codec
import SuccinctlyVerif.Generated.C13
namespace SV.Props.C13
open SV SV.Utf8

/-- `validate_utf8_scalar` (with the `skip_ascii` word loop) returns `Ok` exactly on well-formed
UTF-8 (Unicode Table 3-7), for every byte string. -/
theorem scalar_ok_iff (b : List Byte) : validateScalar b = none ↔ WellFormed b := by
  have h := scalarGo_spec b.length 0 b (Nat.le_refl _)
  unfold validateScalar scalarRaw
  cases hr : scalarGo b.length 0 b with
  | none => rw [hr] at h; simpa [WellFormed, ScalarPost] using h
  | some e =>
    rw [hr] at h
    obtain ⟨k, off⟩ := e
    obtain ⟨pre, suf, i, h1, h2, h3, h4, _⟩ := h
    have hne : suf ≠ [] := by rintro rfl; simp [firstViolation] at h4
    simp only [Option.map_some, WellFormed, h1, run_append, h2]
    constructor
    · intro hc; cases hc
    · intro hc; exact absurd hc (h3.not_wf hne)

example : validateScalar [0xE2#8, 0x82#8, 0xAC#8, 0x41#8] = none := by decide

/-- The AVX2 accept kernel (lane predicate of `check_block` over the zero-padded input, incl. the
always-run tail block) accepts exactly well-formed UTF-8. -/
theorem avx2_accept_iff (b : List Byte) : avx2Accepts b = true ↔ WellFormed b := avx2Accepts_iff b

example : avx2Accepts [0xF0#8, 0x9F#8, 0x98#8] = false := by decide

/-- The AVX2 engine with its scalar fallback (`validate_utf8_simd` = `validate_utf8` on AVX2 hosts)
returns exactly the scalar validator's result. -/
theorem simd_engine_agrees (b : List Byte) : validateSimd b = validateScalar b := by
  unfold validateSimd
  by_cases h : avx2Accepts b = true
  · rw [if_pos h]; exact ((scalar_ok_iff b).2 ((avx2_accept_iff b).1 h)).symm
  · rw [if_neg h]

/-- The broadword accept scan (`load_block` / `load_word` ASCII skips, `first_high_byte`,
`validate_sequence`) accepts exactly well-formed UTF-8. -/
theorem broadword_accept_iff (b : List Byte) : bwAccepts b = true ↔ WellFormed b := bwAccepts_iff b

/-- `validate_utf8_broadword` returns exactly the scalar validator's result. -/
theorem broadword_engine_agrees (b : List Byte) : validateBroadword b = validateScalar b := by
  unfold validateBroadword
  by_cases hb : bwAccepts b = true
  · rw [if_pos hb]; exact ((scalar_ok_iff b).2 ((broadword_accept_iff b).1 hb)).symm
  · rw [if_neg hb]

/-- All three engines (AVX2/dispatcher, broadword, scalar) return the same `Result` — same accept
set and, on rejection, the same `Utf8Error` — for every byte string. -/
theorem engines_agree (b : List Byte) :
    validateSimd b = validateScalar b ∧ validateBroadword b = validateScalar b :=
  ⟨simd_engine_agrees b, broadword_engine_agrees b⟩

example : bwAccepts [0x41#8, 0xC3#8, 0xA9#8] = true := by decide

/-- `kind names the violated rule` and the offset law that the code actually satisfies: on
rejection there is a longest valid prefix of length `n`; the reported kind is the first violated
rule (`firstViolation`, in the documented examination order) of the sequence starting at `n`; the
reported offset is `n + i` where `i = 0` for every kind except `InvalidContinuationByte`, for which
`i` is the index (1..3) of the offending continuation byte inside the sequence.
PARTIAL with respect to the property text ("offset is the length of the longest valid prefix"):
that holds for five of the six kinds; see `error_offset_refuted` for the sixth (finding F6). -/
theorem error_kind_and_offset_partial (b : List Byte) (e : Utf8Error) (h : validateScalar b = some e) :
    ∃ n i, IsLongestValidPrefix b n ∧ firstViolation (b.drop n) = some (e.kind, i) ∧
      e.offset = n + i ∧ (e.kind ≠ .invalidContinuationByte → i = 0) := by
  have hs := scalarGo_spec b.length 0 b (Nat.le_refl _)
  unfold validateScalar scalarRaw at h
  cases hr : scalarGo b.length 0 b with
  | none => rw [hr] at h; cases h
  | some r =>
    rw [hr] at h hs
    obtain ⟨k, off⟩ := r
    obtain ⟨pre, suf, i, h1, h2, h3, h4, h5⟩ := hs
    simp only [Option.map_some, Option.some.injEq] at h
    subst h
    refine ⟨pre.length, i, ?_, ?_, ?_, ?_⟩
    · rw [h1]; exact longest_of_headBad h2 h3
    · rw [h1]; simpa [errAt] using h4
    · simp [errAt, h5]
    · intro hk; exact firstViolation_idx h4 (by simpa [errAt] using hk)

example : validateScalar [0x41#8, 0xED#8, 0xA0#8, 0x80#8] =
    some { offset := 1, line := 1, column := 2, kind := .surrogateCodepoint } := by decide

/-- The executable `validPrefixLen` of the spec (used by the driver for the expected offset of the
`val` stream) is the length of the longest well-formed prefix, for every byte string. -/
theorem validPrefixLen_spec (b : List Byte) : IsLongestValidPrefix b (validPrefixLen b) :=
  Utf8.validPrefixLen_spec b

example : validPrefixLen [0x41#8, 0xC3#8, 0x28#8] = 1 := by decide

/-- The offset law in executable form: `offset = validPrefixLen b + i`, kind and `i` given by
`firstViolation` of the input after its longest valid prefix; `i = 0` unless the kind is
`InvalidContinuationByte`; the offset lies inside the input. -/
theorem error_offset_validPrefixLen (b : List Byte) (e : Utf8Error) (h : validateScalar b = some e) :
    ∃ i, firstViolation (b.drop (validPrefixLen b)) = some (e.kind, i) ∧
      e.offset = validPrefixLen b + i ∧ (e.kind ≠ .invalidContinuationByte → i = 0) ∧ e.offset < b.length := by
  obtain ⟨n, i, h1, h2, h3, h4⟩ := error_kind_and_offset_partial b e h
  have hn : n = validPrefixLen b := longest_unique h1 (validPrefixLen_spec b)
  subst hn
  refine ⟨i, h2, h3, h4, ?_⟩
  have := firstViolation_idx_lt h2
  rw [List.length_drop] at this
  omega

/-- `error_linecol`: the reported line and column are those of the reported offset — line = 1 +
number of `\n` before it, column = 1 + number of bytes after the last `\n` before it (LF-only
lines, as this module defines them); proved through the 8-byte newline-counting kernel. -/
theorem error_linecol (b : List Byte) (e : Utf8Error) (h : validateScalar b = some e) :
    (e.line, e.column) = lineColLF b e.offset := by
  obtain ⟨i, _, _, _, hlt⟩ := error_offset_validPrefixLen b e h
  unfold validateScalar at h
  cases hr : scalarRaw b with
  | none => rw [hr] at h; cases h
  | some r =>
    rw [hr] at h
    simp only [Option.map_some, Option.some.injEq] at h
    subst h
    simp only [errAt] at hlt ⊢
    rw [lineAndColumn_eq]
    have : ¬ r.2 > b.length := by omega
    simp [this]

/-- The statement that adds to `line` in the word loop of `line_and_column`, regenerated from the
source on every run (`Gen.utf8_line_inc`, from `line += mask.count_ones() as usize;`), is the
`popc mask` the model adds. -/
theorem line_increment_generated_eq (m : BitVec 64) : (Gen.utf8_line_inc m).toNat = popc m :=
  line_inc_toNat m

example : (Gen.utf8_line_inc 0x8000008000800080#64).toNat = 4 := by decide

/-- The text of `line_and_column` (comments stripped, whitespace normalised; hashed by
`tools/props/C13.py` on every run into `Gen.UTF8_LINECOL_SRC_HASH`) is the text the model
`lineAndColumn` / `lineColGo` / `lineColTail` was written from: one `line += mask.count_ones()` per
word with a non-zero newline mask (translated: `Gen.utf8_line_inc`), `line_start` from the highest
set bit, one `line += 1` per `\n` in the byte tail, nothing accumulated across words.  Any change to
how the count is accumulated changes the hash and breaks this obligation (then re-derive the model
and update the number). -/
theorem line_and_column_source_pinned : Gen.UTF8_LINECOL_SRC_HASH = 1034846609437025494 := by decide

/-- `line_and_column` itself (any input, any offset): the LF line/column, or a panic past the end. -/
theorem line_and_column_eq (input : List Byte) (offset : Nat) :
    lineAndColumn input offset = if offset > input.length then none else some (lineColLF input offset) :=
  lineAndColumn_eq input offset

example : lineAndColumn [0x0A#8, 0x41#8, 0x0A#8, 0x0A#8, 0x41#8, 0x41#8, 0x41#8, 0x41#8, 0x0A#8, 0x41#8] 10 = some (5, 2) := by
  decide

/-- The property's full offset claim (never asserted). -/
def error_offset_full_statement : Prop :=
  ∀ (b : List Byte) (e : Utf8Error), validateScalar b = some e → IsLongestValidPrefix b e.offset

/-- Finding F6: the full claim is false.  For `[C3 28]` the code reports
`InvalidContinuationByte` at offset 1 while the longest valid prefix has length 0. -/
theorem error_offset_refuted : ¬ error_offset_full_statement := by
  intro h
  have h1 := h [0xC3#8, 0x28#8]
    { offset := 1, line := 1, column := 2, kind := .invalidContinuationByte } (by decide)
  exact absurd h1.2.1 (by decide)

/-- For every kind other than `InvalidContinuationByte` the reported offset *is* the length of the
longest valid prefix (the property's claim, restricted to the class the code satisfies). -/
theorem error_offset_partial (b : List Byte) (e : Utf8Error) (h : validateScalar b = some e)
    (hk : e.kind ≠ .invalidContinuationByte) : IsLongestValidPrefix b e.offset := by
  obtain ⟨n, i, h1, _, h3, h4⟩ := error_kind_and_offset_partial b e h
  rw [h3, h4 hk]; exact h1

example : validateScalar [0x0A#8, 0xC0#8, 0x80#8] =
    some { offset := 1, line := 2, column := 1, kind := .overlongEncoding } := by decide

/-- `encode_code_point` rejects exactly the values that are not Unicode scalar values. -/
theorem encode_none_iff_not_scalar (cp : BitVec 32) :
    encodeCodePoint cp = none ↔ isScalar cp.toNat = false := by
  rw [(decode_encode_all cp).1]
  simp only [isScalar, BitVec.le_def, BitVec.lt_def, gt_iff_lt, BitVec.toNat_ofNat, Bool.or_eq_false_iff,
    Bool.and_eq_false_iff, decide_eq_false_iff_not]
  omega

/-- `decode_encode`: for every scalar value `cp` (every `u32` the encoder accepts),
`decode_code_point(encode_code_point(cp))` returns `(cp, len)`, both on the `len` encoded bytes and on
the whole zero-padded four-byte buffer. -/
theorem decode_encode (cp : BitVec 32) (buf : List Byte) (len : Nat)
    (h : encodeCodePoint cp = some (buf, len)) :
    decodeCodePoint (buf.take len) = some (cp, len) ∧ decodeCodePoint buf = some (cp, len) :=
  (decode_encode_all cp).2 buf len h

example : encodeCodePoint 0x20AC#32 = some ([0xE2#8, 0x82#8, 0xAC#8, 0x00#8], 3) := by decide

/-- `encode_decode`: whenever `decode_code_point` succeeds with `(cp, n)`, `encode_code_point(cp)`
yields exactly the `n` bytes that were decoded (so overlong forms, surrogates and values above
U+10FFFF never decode, and the decoded value is a scalar value). -/
theorem encode_decode (bs : List Byte) (cp : BitVec 32) (n : Nat)
    (h : decodeCodePoint bs = some (cp, n)) :
    ∃ buf, encodeCodePoint cp = some (buf, n) ∧ buf.take n = bs.take n :=
  encode_decode_all bs cp n h

example : decodeCodePoint [0xF0#8, 0x9F#8, 0x98#8, 0x80#8, 0x41#8] = some (0x1F600#32, 4) := by decide

/-- Model-to-spec link, encoder: `encode_code_point` yields exactly the spec encoding `Utf8.encode`
(Table 3-6 bit distribution over `Nat`) of the scalar value, zero-padded to four bytes. -/
theorem encode_eq_spec (cp : BitVec 32) (buf : List Byte) (len : Nat)
    (h : encodeCodePoint cp = some (buf, len)) :
    buf.take len = encode cp.toNat ∧ len = (encode cp.toNat).length :=
  Utf8.encode_eq_spec cp buf len h

example : encode 0x1F600 = [0xF0#8, 0x9F#8, 0x98#8, 0x80#8] := by decide

/-- Model-to-spec link, decoder: `decode_code_point` is the spec decoder `Utf8.decodeFirst` (first
well-formed Table 3-7 sequence and its scalar value) on every input, well-formed or not. -/
theorem decode_eq_spec (bs : List Byte) :
    (decodeCodePoint bs).map (fun p => (p.1.toNat, p.2)) = decodeFirst bs :=
  Utf8.decode_eq_spec bs

example : decodeFirst [0xED#8, 0xA0#8, 0x80#8] = none := by decide

/-- The round trip as a statement about the *spec* codec: every scalar value decodes back from its
encoding. -/
theorem spec_decode_encode (n : Nat) (hs : isScalar n = true) :
    decodeFirst (encode n) = some (n, (encode n).length) := by
  have hn : n ≤ 0x10FFFF := by
    simp only [isScalar, Bool.or_eq_true, Bool.and_eq_true, decide_eq_true_eq] at hs; omega
  have htn : (BitVec.ofNat 32 n).toNat = n := by simp only [BitVec.toNat_ofNat]; omega
  cases he : encodeCodePoint (BitVec.ofNat 32 n) with
  | none => rw [encode_none_iff_not_scalar, htn, hs] at he; cases he
  | some r =>
    obtain ⟨buf, len⟩ := r
    obtain ⟨h1, h2⟩ := encode_eq_spec _ buf len he
    have h3 := (decode_encode _ buf len he).1
    rw [htn] at h1 h2
    rw [← decode_eq_spec, ← h1, h3, h1, ← h2]
    simp [htn]

/-- … and whatever the spec decoder accepts is a scalar value whose encoding is the decoded bytes. -/
theorem spec_encode_decode (bs : List Byte) (n k : Nat) (h : decodeFirst bs = some (n, k)) :
    isScalar n = true ∧ encode n = bs.take k := by
  rw [← decode_eq_spec] at h
  cases hd : decodeCodePoint bs with
  | none => rw [hd] at h; cases h
  | some r =>
    obtain ⟨cp, k'⟩ := r
    rw [hd] at h
    simp only [Option.map_some, Option.some.injEq, Prod.mk.injEq] at h
    obtain ⟨rfl, rfl⟩ := h
    obtain ⟨buf, he, hb⟩ := encode_decode bs cp k' hd
    refine ⟨?_, by rw [← (encode_eq_spec cp buf k' he).1, hb]⟩
    cases hsc : isScalar cp.toNat with
    | true => rfl
    | false => rw [(encode_none_iff_not_scalar cp).2 hsc] at he; cases he

/-- The `err` lane DAG of `check_block`, regenerated from `src/text/utf8/simd_x86.rs` on this run
(Generated/C13.lean: chunk lane + the three shifted inputs), computes for every 4-tuple of bytes the
lane value of the hand-written `checkBlockLane` that `avx2_accept_iff` is about; and the three shifted
inputs are still defined in the source as `alignr(chunk, shifted, 15/14/13)` over
`permute2x128(prev_input, chunk, 0x21)`, i.e. "the byte 1/2/3 positions back" (cross-lane, modelled by
hand in `avx2Go`, not translated). -/
theorem lanes_generated_eq :
    (∀ c p1 p2 p3 : Byte, Gen.check_block_err_lane c p1 p2 p3 = checkBlockLane c p1 p2 p3) ∧
    Gen.check_block_input_prev1_src = ["_mm256_alignr_epi8 ( chunk , shifted , 15 )"] ∧
    Gen.check_block_input_prev2_src = ["_mm256_alignr_epi8 ( chunk , shifted , 14 )"] ∧
    Gen.check_block_input_prev3_src = ["_mm256_alignr_epi8 ( chunk , shifted , 13 )"] := by
  refine ⟨?_, by decide, by decide, by decide⟩
  have hmax : ∀ a b : Byte, SV.Lane.maxu a b = maxu a b := by
    intro a b; unfold SV.Lane.maxu maxu
    split <;> split <;> first | rfl | bv_omega
  intro c p1 p2 p3
  simp only [Gen.check_block_err_lane, checkBlockLane, uge, ult, hmax]
  rfl

example : Gen.check_block_err_lane 0x80#8 0x41#8 0x41#8 0x41#8 ≠ 0#8 ∧
    Gen.check_block_err_lane 0x80#8 0xC3#8 0x41#8 0x41#8 = 0#8 := by decide

end SV.Props.C13
