/-
Props/C01 — Bit vector rank, select and access are exact.
Property theorems only; helper lemmas live in Proof/BitVec.lean.
-/
import SuccinctlyVerif.Proof.BitVec
namespace SV.Props.C01
open SV SV.BV

/-- Width side conditions of the rank directory hold for the constants in the source. -/
theorem width_consts :
    Gen.RANK_WORDS_PER_BLOCK = 8 ∧ 0 < Gen.RANK_BLOCKS_PER_SUPERBLOCK ∧
    Gen.RANK_BLOCKS_PER_SUPERBLOCK * 512 ≤ 2 ^ 32 := consts_ok

end SV.Props.C01
