/-
Props/C01 — Bit vector rank, select and access are exact.
Property theorems only; helper lemmas live in Proof/BitVec.lean and Proof/BitVecPack.lean.

Setting of every theorem: `ws` is any word vector, `len ≤ 64·|ws|` any length, `rate` any
`select_sample_rate` (`0` included; `< 2^32` because it is a `u32`), `pc` any per-word popcount that
is exact (`count_ones`, the SWAR kernel, POPCNT/AVX-512 lanes — discharged by C02), and `b` the
structure `BitVec::with_config` returns.  `Fits ws` (`64·|ws| + 2^32 ≤ 2^64`) says no `usize`
computation wraps.  The right-hand sides are the naive definitions of `Spec/Bits.lean` applied to
`bitsOf ws len`, the first `len` bits of the input.
-/
import SuccinctlyVerif.Proof.BitVec
namespace SV.Props.C01
open SV SV.BV

/-! ### construction -/

/-- `with_config` succeeds on every in-capacity length … -/
theorem build_total (pc : BitVec 64 → Nat) (ws : List (BitVec 64)) (len rate : Nat)
    (hlen : len ≤ 64 * ws.length) (hf : Fits ws) : ∃ b, withConfig pc ws len rate = some b :=
  ⟨_, withConfig_eq pc ws len rate hlen hf⟩

/-- … and panics (the `assert!`) on every length beyond the capacity. -/
theorem build_panics (pc : BitVec 64 → Nat) (ws : List (BitVec 64)) (len rate : Nat)
    (hlen : len > 64 * ws.length) : withConfig pc ws len rate = none :=
  withConfig_none pc ws len rate hlen

example : withConfig popc [1#64] 65 256 = none := by decide +kernel
example : Fits [0x4D#64, 0xFFFFFFFFFFFFFFFF#64] := by unfold Fits; decide

/-- Tail masking: the stored words hold exactly the first `len` input bits followed by zeros — no
bit at or past `len` survives, whatever the input words contain there. -/
theorem masking_exact (ws : List (BitVec 64)) (len : Nat) (hlen : len ≤ 64 * ws.length) :
    allBits (maskWords ws len) = bitsOf ws len ++ List.replicate (64 * ws.length - len) false :=
  allBits_maskWords ws len hlen

example : maskWords [0xFFFFFFFFFFFFFFFF#64, 0xFFFFFFFFFFFFFFFF#64] 10 = [0x3FF#64, 0#64] := by
  decide +kernel

/-! ### the seven answers -/

/-- `count_ones` / `count_zeros` are the numbers of 1- / 0-bits among the first `len` bits (and the
subtraction `len - ones_count` cannot underflow). -/
theorem count_exact (pc : BitVec 64 → Nat) (hpc : ∀ w, pc w = popcount w) (ws : List (BitVec 64))
    (len rate : Nat) (hlen : len ≤ 64 * ws.length) (hf : Fits ws) (b : BVec)
    (hb : withConfig pc ws len rate = some b) :
    countOnes b = countB true (bitsOf ws len) ∧ b.ones ≤ b.len ∧
    countZeros b = countB false (bitsOf ws len) :=
  count_exact_aux pc hpc ws len rate hlen hf b hb

/-- `rank1(i)` = number of 1-bits among the first `min i len` bits, for **every** `i`
(`i = 0`, `i ≥ len` and `usize::MAX` included). -/
theorem rank1_exact (pc : BitVec 64 → Nat) (hpc : ∀ w, pc w = popcount w) (ws : List (BitVec 64))
    (len rate : Nat) (hlen : len ≤ 64 * ws.length) (hf : Fits ws) (b : BVec)
    (hb : withConfig pc ws len rate = some b) (i : Nat) :
    rank1 pc b i = rankB true (bitsOf ws len) i :=
  rank1_exact_aux pc hpc ws len rate hlen hf b hb i

/-- `rank0(i)` = number of 0-bits among the first `min i len` bits for every `i`; the `usize`
subtraction `i.min(len) - rank1(i)` never underflows. -/
theorem rank0_exact (pc : BitVec 64 → Nat) (hpc : ∀ w, pc w = popcount w) (ws : List (BitVec 64))
    (len rate : Nat) (hlen : len ≤ 64 * ws.length) (hf : Fits ws) (b : BVec)
    (hb : withConfig pc ws len rate = some b) (i : Nat) :
    rank1 pc b i ≤ min i b.len ∧ rank0 pc b i = rankB false (bitsOf ws len) i :=
  rank0_exact_aux pc hpc ws len rate hlen hf b hb i

/-- `select1(k)` = position of the `k`-th 1-bit, `None` exactly when there are at most `k` ones —
through the sampled index (any sample rate, `0` treated as `1`), the block-skipping scan and
`select_in_word`; the defensive `result < len` guard never rejects. -/
theorem select1_exact (pc : BitVec 64 → Nat) (hpc : ∀ w, pc w = popcount w) (ws : List (BitVec 64))
    (len rate : Nat) (hlen : len ≤ 64 * ws.length) (hf : Fits ws) (hrate : rate < 2 ^ 32) (b : BVec)
    (hb : withConfig pc ws len rate = some b) (k : Nat) :
    select1 b k = selectB true (bitsOf ws len) k :=
  select1_exact_aux pc hpc ws len rate hlen hf hrate b hb k

/-- `select0(k)` (binary search over `rank0`) = position of the `k`-th 0-bit, `None` exactly when
there are at most `k` zeros. -/
theorem select0_exact (pc : BitVec 64 → Nat) (hpc : ∀ w, pc w = popcount w) (ws : List (BitVec 64))
    (len rate : Nat) (hlen : len ≤ 64 * ws.length) (hf : Fits ws) (b : BVec)
    (hb : withConfig pc ws len rate = some b) (k : Nat) :
    select0 pc b k = selectB false (bitsOf ws len) k :=
  select0_exact_aux pc hpc ws len rate hlen hf b hb k

/-- `get(i)` = bit `i` for `i < len`; the model panics (`none`) exactly when `i ≥ len`, as the Rust
API documents. -/
theorem get_exact (pc : BitVec 64 → Nat) (ws : List (BitVec 64))
    (len rate : Nat) (hlen : len ≤ 64 * ws.length) (hf : Fits ws) (b : BVec)
    (hb : withConfig pc ws len rate = some b) (i : Nat) :
    get b i = (bitsOf ws len)[i]? ∧ (get b i = none ↔ i ≥ len) := by
  have h := get_exact_aux pc ws len rate hlen hf b hb i
  refine ⟨h, ?_⟩
  rw [h, List.getElem?_eq_none_iff, bitsOf_length ws len hlen]

/-- Non-vacuity: a two-word vector with garbage above `len = 70`, sample rate 3 — the hypotheses
hold and the answers are the expected ones. -/
example : ∃ b, withConfig popc [0x8000000000000001#64, 0xFFFFFFFFFFFFFFFF#64] 70 3 = some b ∧
    countOnes b = 8 ∧ countZeros b = 62 ∧ rank1 popc b 64 = 2 ∧ rank1 popc b 1000 = 8 ∧
    rank0 popc b 64 = 62 ∧ select1 b 1 = some 63 ∧ select1 b 7 = some 69 ∧ select1 b 8 = none ∧
    select0 popc b 0 = some 1 ∧ select0 popc b 61 = some 62 ∧ select0 popc b 62 = none ∧
    get b 69 = some true ∧ get b 70 = none :=
  ⟨_, rfl, by decide +kernel⟩

/-! ### corollaries: what the answers depend on -/

/-- All seven answers of two built vectors coincide as soon as the two inputs have the same first
`len` bits — whatever the stray bits, the sample rates and the (exact) popcount strategies are. -/
theorem answers_depend_only_on_bits
    (pc pc' : BitVec 64 → Nat) (hpc : ∀ w, pc w = popcount w) (hpc' : ∀ w, pc' w = popcount w)
    (ws ws' : List (BitVec 64)) (len rate rate' : Nat)
    (hlen : len ≤ 64 * ws.length) (hlen' : len ≤ 64 * ws'.length) (hf : Fits ws) (hf' : Fits ws')
    (hrate : rate < 2 ^ 32) (hrate' : rate' < 2 ^ 32)
    (hbits : bitsOf ws len = bitsOf ws' len) (b b' : BVec)
    (hb : withConfig pc ws len rate = some b) (hb' : withConfig pc' ws' len rate' = some b') :
    countOnes b = countOnes b' ∧ countZeros b = countZeros b' ∧
    (∀ i, rank1 pc b i = rank1 pc' b' i) ∧ (∀ i, rank0 pc b i = rank0 pc' b' i) ∧
    (∀ k, select1 b k = select1 b' k) ∧ (∀ k, select0 pc b k = select0 pc' b' k) ∧
    (∀ i, get b i = get b' i) := by
  obtain ⟨c1, _, c0⟩ := count_exact pc hpc ws len rate hlen hf b hb
  obtain ⟨c1', _, c0'⟩ := count_exact pc' hpc' ws' len rate' hlen' hf' b' hb'
  refine ⟨by rw [c1, c1', hbits], by rw [c0, c0', hbits], ?_, ?_, ?_, ?_, ?_⟩
  · intro i
    rw [rank1_exact pc hpc ws len rate hlen hf b hb, rank1_exact pc' hpc' ws' len rate' hlen' hf' b' hb', hbits]
  · intro i
    rw [(rank0_exact pc hpc ws len rate hlen hf b hb i).2,
      (rank0_exact pc' hpc' ws' len rate' hlen' hf' b' hb' i).2, hbits]
  · intro k
    rw [select1_exact pc hpc ws len rate hlen hf hrate b hb,
      select1_exact pc' hpc' ws' len rate' hlen' hf' hrate' b' hb', hbits]
  · intro k
    rw [select0_exact pc hpc ws len rate hlen hf b hb, select0_exact pc' hpc' ws' len rate' hlen' hf' b' hb', hbits]
  · intro i
    rw [(get_exact pc ws len rate hlen hf b hb i).1, (get_exact pc' ws' len rate' hlen' hf' b' hb' i).1, hbits]

/-- Bits stored at or past `len` (in the last used word or in surplus words, even a different
number of surplus words) never influence any answer. -/
theorem stray_bits_irrelevant (pc : BitVec 64 → Nat) (hpc : ∀ w, pc w = popcount w)
    (ws ws' : List (BitVec 64)) (len rate : Nat)
    (hlen : len ≤ 64 * ws.length) (hlen' : len ≤ 64 * ws'.length) (hf : Fits ws) (hf' : Fits ws')
    (hrate : rate < 2 ^ 32) (hbits : bitsOf ws len = bitsOf ws' len) (b b' : BVec)
    (hb : withConfig pc ws len rate = some b) (hb' : withConfig pc ws' len rate = some b') :
    countOnes b = countOnes b' ∧ countZeros b = countZeros b' ∧
    (∀ i, rank1 pc b i = rank1 pc b' i) ∧ (∀ i, rank0 pc b i = rank0 pc b' i) ∧
    (∀ k, select1 b k = select1 b' k) ∧ (∀ k, select0 pc b k = select0 pc b' k) ∧
    (∀ i, get b i = get b' i) :=
  answers_depend_only_on_bits pc pc hpc hpc ws ws' len rate rate hlen hlen' hf hf' hrate hrate hbits b b' hb hb'

example : bitsOf [0x3FF#64, 0#64] 10 = bitsOf [0xFFFFFFFFFFFFFFFF#64, 0x1234#64, 0x1#64] 10 := by
  decide +kernel

/-- The select sample rate chosen at construction never influences any answer. -/
theorem rate_irrelevant (pc : BitVec 64 → Nat) (hpc : ∀ w, pc w = popcount w)
    (ws : List (BitVec 64)) (len rate rate' : Nat) (hlen : len ≤ 64 * ws.length) (hf : Fits ws)
    (hrate : rate < 2 ^ 32) (hrate' : rate' < 2 ^ 32) (b b' : BVec)
    (hb : withConfig pc ws len rate = some b) (hb' : withConfig pc ws len rate' = some b') :
    countOnes b = countOnes b' ∧ countZeros b = countZeros b' ∧
    (∀ i, rank1 pc b i = rank1 pc b' i) ∧ (∀ i, rank0 pc b i = rank0 pc b' i) ∧
    (∀ k, select1 b k = select1 b' k) ∧ (∀ k, select0 pc b k = select0 pc b' k) ∧
    (∀ i, get b i = get b' i) :=
  answers_depend_only_on_bits pc pc hpc hpc ws ws len rate rate' hlen hlen hf hf hrate hrate' rfl b b' hb hb'

/-- The popcount strategy selected by cargo features (`count_ones`, SWAR `popcount_word_portable`,
POPCNT / AVX-512 lane sums) never influences any answer: any two exact per-word popcounts give
the same seven answers. -/
theorem popcount_strategy_irrelevant (pc pc' : BitVec 64 → Nat)
    (hpc : ∀ w, pc w = popcount w) (hpc' : ∀ w, pc' w = popcount w)
    (ws : List (BitVec 64)) (len rate : Nat) (hlen : len ≤ 64 * ws.length) (hf : Fits ws)
    (hrate : rate < 2 ^ 32) (b b' : BVec)
    (hb : withConfig pc ws len rate = some b) (hb' : withConfig pc' ws len rate = some b') :
    countOnes b = countOnes b' ∧ countZeros b = countZeros b' ∧
    (∀ i, rank1 pc b i = rank1 pc' b' i) ∧ (∀ i, rank0 pc b i = rank0 pc' b' i) ∧
    (∀ k, select1 b k = select1 b' k) ∧ (∀ k, select0 pc b k = select0 pc' b' k) ∧
    (∀ i, get b i = get b' i) :=
  answers_depend_only_on_bits pc pc' hpc hpc' ws ws len rate rate hlen hlen hf hf hrate hrate rfl b b' hb hb'

/-- The two strategies of this host are exact (C02): `count_ones` and the SWAR kernel translated
from the source; so is the AVX-512 loop shape (eight lanes per step + remainder) as a sum. -/
theorem strategies_exact :
    (∀ w, popc w = popcount w) ∧ (∀ w, popcountPortable w = popcount w) ∧
    (∀ (pc : BitVec 64 → Nat) (ws : List (BitVec 64)), (ws.map pc).sum < 2 ^ 64 →
      popcountWordsAvx512 pc ws.length ws 0 = (ws.map pc).sum) :=
  ⟨Kernels.popc_eq_popcount, Kernels.popcountPortable_eq,
   fun pc ws h => by rw [popcountWordsAvx512_eq pc ws.length ws 0 (by omega)]; omega⟩

/-! ### the rank directory and its width side conditions -/

/-- Width side conditions of the rank directory hold for the constants in the source: a block is
8 words and `BLOCKS_PER_SUPERBLOCK · 512 ≤ 2^32`. -/
theorem width_consts :
    Gen.RANK_WORDS_PER_BLOCK = 8 ∧ 0 < Gen.RANK_BLOCKS_PER_SUPERBLOCK ∧
    Gen.RANK_BLOCKS_PER_SUPERBLOCK * 512 ≤ 2 ^ 32 := consts_ok

/-- Every L2 offset the build loop stores is at most 448 (`< 2^9`), and the `u16` block accumulator
ends at the block's popcount, at most 512 (`< 2^16`), for every block of every vector. -/
theorem l2_and_accumulator_fit (ws : List (BitVec 64)) (blk : Nat) :
    (∀ t, t < 7 → (blockLoop ((ws.drop (8 * blk)).take 8) 0 (List.replicate 7 0) 0).1.getD t 0 ≤ 448) ∧
    (blockLoop ((ws.drop (8 * blk)).take 8) 0 (List.replicate 7 0) 0).2 =
      (((ws.drop (8 * blk)).take 8).map popc).sum ∧
    (blockLoop ((ws.drop (8 * blk)).take 8) 0 (List.replicate 7 0) 0).2 ≤ 512 := by
  have h := blockLoop_spec ((ws.drop (8 * blk)).take 8) 0 (List.replicate 7 0) 0 (by simp; omega) (by omega)
  have hs := sum_popc_le ((ws.drop (8 * blk)).take 8)
  have hl : ((ws.drop (8 * blk)).take 8).length ≤ 8 := by simp; omega
  refine ⟨(l2_fields ws blk).2.1, by rw [h.1]; omega, by rw [h.1]; omega⟩

/-- The `u32` L1 field never truncates: the rank relative to the L0 base of the block's superblock
is below `2^32`, for the superblock size in the source. -/
theorem l1_fits (ws : List (BitVec 64)) (blk : Nat) :
    prefPop ws (8 * blk) - superBase ws blk < 2 ^ 32 :=
  (l1_bound ws Gen.RANK_BLOCKS_PER_SUPERBLOCK blk consts_ok.2.1 consts_ok.2.2).2

/-- Rank directory correctness through the real packing: for every word index inside the vector
`rank_at_word` returns the number of ones in the preceding words (all three levels; any size below
2^64 bits). -/
theorem rank_directory_exact (ws : List (BitVec 64)) (hsz : 64 * ws.length < 2 ^ 64) (j : Nat)
    (hj : j < ws.length) : rankAtWord (buildRank ws) j = ((ws.take j).map popc).sum :=
  rankAtWord_buildRank ws hsz j hj

example : rankAtWord (buildRank [0xF#64, 0xFF#64, 0x3#64, 0#64, 0#64, 0#64, 0#64, 0#64, 1#64, 7#64]) 9 = 15 := by
  decide +kernel

/-- `rank_at_word` is only exact *inside* the vector: at `word_idx = |words|` the block clamp /
unwritten L2 slot make it return a stale value.  `rank1` never asks for it (`i ≥ len` is answered
from `ones_count`), which is why `rank1_exact` holds for every `i`. -/
example : rankAtWord (buildRank [1#64]) 1 = 0 := by decide +kernel

/-- The select index: `jump_to(k)` starts the scan at a word inside the vector and subtracts
exactly the ones before it, never more than `k` (no `usize` underflow), for every sample rate. -/
theorem jump_exact (mw : List (BitVec 64)) (rate k : Nat)
    (hsz : 64 * mw.length + 2 ^ 32 ≤ 2 ^ 64) (hrate : rate < 2 ^ 32) (hne : mw ≠ []) :
    ∃ sw, jumpTo (buildSelect mw (mw.map popc).sum rate) k = (sw, k - ((mw.take sw).map popc).sum) ∧
      sw < mw.length ∧ ((mw.take sw).map popc).sum ≤ k :=
  jumpTo_buildSelect mw _ rate k rfl hsz hrate hne

example : jumpTo (buildSelect [0xFF#64, 0#64, 0xFF#64] 16 3) 10 = (2, 2) := by decide +kernel

end SV.Props.C01
