/-
Props/C02 — Word-level bit kernels are exact on every word.
Property theorems only; helper lemmas live in Proof/Kernels.lean.
-/
import SuccinctlyVerif.Proof.Kernels
namespace SV.Props.C02
open SV

/-- `popcount_word_portable` (SWAR, translated from the source) counts the set bits of every word. -/
theorem popcount_portable_eq (x : BitVec 64) : popcountPortable x = popcount x :=
  Kernels.popcountPortable_eq x

/-- `u64::count_ones` as modelled (`cpop`) is the bit-at-a-time count. -/
theorem popc_eq (x : BitVec 64) : popc x = popcount x := Kernels.popc_eq_popcount x

/-- `select_in_byte` over the generated 2048-entry table = position of the k-th set bit of the
byte (8 if none), for every byte and every `k` (including `k ≥ 8`). -/
theorem select_in_byte_eq (b : BitVec 8) (k : Nat) : selectInByteTable b k = selectInByteSpec b k :=
  Kernels.selectInByteTable_eq b k

example : selectInByteTable 0b10101010#8 2 = 5 := by decide +kernel

end SV.Props.C02
