/-
Props/C02 — Word-level bit kernels are exact on every word.
Property theorems only; helper lemmas live in Proof/Kernels.lean, Proof/KernelsList.lean (list
lemmas), Proof/KernelsBP.lean, Proof/KernelsBlock.lean, Proof/KernelsSelect.lean, Proof/KernelsPdep.lean.
Every theorem is for all 2^64 words and every `k`/`p : Nat` (a Rust `u32` is the special case
`< 2^32`; no theorem needs that bound).
-/
import SuccinctlyVerif.Proof.Kernels
import SuccinctlyVerif.Proof.KernelsBP
import SuccinctlyVerif.Proof.KernelsBlock
import SuccinctlyVerif.Proof.KernelsSelect
import SuccinctlyVerif.Proof.KernelsPdep
namespace SV.Props.C02
open SV

/-- `popcount_word_portable` (SWAR, translated from the source) counts the set bits of every word. -/
theorem popcount_portable_eq (x : BitVec 64) : popcountPortable x = popcount x :=
  Kernels.popcountPortable_eq x

/-- `u64::count_ones` as modelled (`cpop`) is the bit-at-a-time count. -/
theorem popc_eq (x : BitVec 64) : popc x = popcount x := Kernels.popc_eq_popcount x

example : popcountPortable 0x8000_0000_00F0_F0F0#64 = 13 ∧ popc 0x8000_0000_00F0_F0F0#64 = 13
    ∧ popcountPortable (BitVec.allOnes 64) = 64 := by decide +kernel

/-- `select_in_byte` over the generated 2048-entry table = position of the k-th set bit of the
byte (8 if none), for every byte and every `k` (including `k ≥ 8`). -/
theorem select_in_byte_eq (b : BitVec 8) (k : Nat) : selectInByteTable b k = selectInByteSpec b k :=
  Kernels.selectInByteTable_eq b k

example : selectInByteTable 0b10101010#8 2 = 5 := by decide +kernel

/-- `u64::trailing_zeros` as modelled (`BitVec.ctz`) is the position of the first set bit of the
bit list, 64 for the zero word. -/
theorem tz_eq (x : BitVec 64) : tz x = (selectB true (wordBits x) 0).getD 64 := Kernels.tz_eq x

example : tz 0x0000_0F00_0000_0000#64 = 40 ∧ tz 0#64 = 64 := by decide +kernel

/-- `select_in_word_ctz` (the `x &= x-1` loop) returns the position of the `k`-th set bit, 64 if
there are at most `k` set bits — for every word and every `k`. -/
theorem select_ctz_eq (x : BitVec 64) (k : Nat) : selectCtz x k = selectInWordSpec x k :=
  Kernels.selectCtz_eq x k

example : selectCtz 0x8000_0000_00F0_F0F0#64 12 = 63 ∧ selectCtz 0x8000_0000_00F0_F0F0#64 13 = 64 := by
  decide +kernel

/-- `find_unmatched_close_in_word` = index of the first close with no open to its left in the
64-bit list (linear excess scan), 64 if there is none. -/
theorem find_unmatched_close_eq (x : BitVec 64) :
    findUnmatchedCloseInWord x = (BP.findUnmatchedClose (wordBits x)).getD 64 :=
  Kernels.findUnmatchedCloseInWord_eq x

-- "(()))(…": the first unmatched close is at bit 4
example : findUnmatchedCloseInWord 0xFFFF_FFFF_FFFF_FFE3#64 = 4 := by decide +kernel

/-- `find_close_in_word(word, p)` for every word and every `p`: `None` when `p ≥ 64`; `Some(p)` when
bit `p` is a close (the documented degenerate case); otherwise the matching close of the open at
`p` by the linear excess scan over the word's 64 bits, which is `None` exactly when the match lies
beyond bit 63. -/
theorem find_close_in_word_eq (x : BitVec 64) (p : Nat) :
    findCloseInWord x p =
      if p ≥ 64 then none
      else if x.getLsbD p = false then some p
      else BP.findClose (wordBits x) p :=
  Kernels.findCloseInWord_eq x p

-- "(()())" at bits 2..7: open at 2 matches close at 7; open at 8 has its match beyond bit 63
example : findCloseInWord 0xFFFF_FFFF_FFFF_FF2F#64 2 = some 7
    ∧ findCloseInWord 0xFFFF_FFFF_FFFF_FF2F#64 8 = none
    ∧ findCloseInWord 0xFFFF_FFFF_FFFF_FF2F#64 4 = some 4 := by decide +kernel

/-- `block_popcount_portable` (sum of `count_ones`) = sum of the bit-at-a-time counts, for every
block (of any length, 8 words in particular). -/
theorem block_popcount_portable_eq (block : List (BitVec 64)) :
    blockPopcountPortable block = (block.map popcount).sum :=
  Kernels.blockPopcountPortable_eq block

/-- Lane model of `block_popcount_avx2` (nibble `vpshufb` lookups, two wrapping `add_epi8`
accumulations, `vpsadbw`, four-lane sum) = sum of the bit-at-a-time counts, for every 8-word block;
in particular the `u8` lanes never wrap. -/
theorem block_popcount_avx2_eq (block : List (BitVec 64)) (h : block.length = 8) :
    blockPopcountAvx2 block = (block.map popcount).sum :=
  Kernels.blockPopcountAvx2_eq block h

example : ∃ block : List (BitVec 64), block.length = 8 ∧ blockPopcountAvx2 block = 64 * 8 - 3
    ∧ blockPopcountPortable block = 64 * 8 - 3 :=
  ⟨[BitVec.allOnes 64, BitVec.allOnes 64, 0x7FFF_FFFF_FFFF_FFFE#64, BitVec.allOnes 64,
    BitVec.allOnes 64, BitVec.allOnes 64, 0xFFFF_FFEF_FFFF_FFFF#64, BitVec.allOnes 64], by decide +kernel⟩

/-- `select_in_word_broadword` (SWAR byte counts translated from the source, byte-finding loop,
`select_in_byte` over the dumped table) returns the position of the `k`-th set bit, 64 if there
are at most `k` set bits — for every word and every `k`. -/
theorem select_broadword_eq (x : BitVec 64) (k : Nat) : selectBroadword x k = selectInWordSpec x k :=
  Kernels.selectBroadword_eq x k

/-- No arithmetic of `select_in_word_broadword` leaves its range when `k < count_ones(x)`: the
byte loop always breaks with `byte_idx < 8` (so `x >> byte_offset` shifts by < 64) and
`cumulative ≤ k` with `k - cumulative < 8` (so the `u32` subtraction cannot underflow and the table
index is in bounds).  The model's natural-number subtraction therefore never hides a wrap. -/
theorem broadword_in_range (x : BitVec 64) (k : Nat) (hk : k < popc x) :
    (bwFindByte (Gen.broadword_byte_counts x) k 8 0 0).1 < 8
      ∧ (bwFindByte (Gen.broadword_byte_counts x) k 8 0 0).2 ≤ k
      ∧ k - (bwFindByte (Gen.broadword_byte_counts x) k 8 0 0).2 < 8 :=
  Kernels.broadword_in_range x k hk

example : (12 : Nat) < popc 0x8000_0000_00F0_F0F0#64
    ∧ bwFindByte (Gen.broadword_byte_counts 0x8000_0000_00F0_F0F0#64) 12 8 0 0 = (7, 12) := by
  decide +kernel

example : selectBroadword 0x8000_0000_00F0_F0F0#64 12 = 63
    ∧ selectBroadword 0x8000_0000_00F0_F0F0#64 7 = 15
    ∧ selectBroadword 0x8000_0000_00F0_F0F0#64 13 = 64 := by
  decide +kernel

/-- `ilog2` as modelled (`63 - clz`) is the position of the highest set bit: if bit `q` is set and
no higher bit is, `ilog2 y = q`. -/
theorem ilog2_eq (y : BitVec 64) (q : Nat) (hq : y.getLsbD q = true)
    (hhi : ∀ p, q < p → y.getLsbD p = false) : ilog2 y = q :=
  Kernels.ilog2_unique y q hq hhi

example : ilog2 0x0000_0F00_0000_0001#64 = 43 := by decide +kernel

/-- The PDEP model deposits bit-exactly: result bit `p` is set iff mask bit `p` is set and the
source bit numbered by the count of mask bits below `p` is set (Intel SDM semantics). -/
theorem pdep_bit (src mask : BitVec 64) (p : Nat) :
    (pdep src mask).getLsbD p
      = (mask.getLsbD p && src.getLsbD (((wordBits mask).take p).count true)) :=
  Kernels.pdep_getLsbD src mask p

example : pdep 0b101#64 0xF0F0#64 = 0x50#64 := by decide +kernel

/-- `select_in_word_pdep` (`(1 << (k+1)) - 1` deposited onto the word, then `ilog2`) returns the
position of the `k`-th set bit, 64 if there are at most `k` set bits — for every word and every
`k` (the `k ≥ 63` mask branch included). -/
theorem select_pdep_eq (x : BitVec 64) (k : Nat) : selectPdep x k = selectInWordSpec x k :=
  Kernels.selectPdep_eq x k

example : selectPdep 0x8000_0000_00F0_F0F0#64 12 = 63
    ∧ selectPdep 0x8000_0000_00F0_F0F0#64 7 = 15
    ∧ selectPdep (BitVec.allOnes 64) 63 = 63
    ∧ selectPdep 0x8000_0000_00F0_F0F0#64 13 = 64 := by
  decide +kernel

/-- Dispatch independence: the three `select_in_word` paths (CTZ loop, broadword, PDEP) return the
same answer on every word and every `k`, so the runtime choice between them (CPU detection,
`k`-threshold) cannot change a result. -/
theorem select_paths_agree (x : BitVec 64) (k : Nat) :
    selectCtz x k = selectBroadword x k ∧ selectBroadword x k = selectPdep x k := by
  rw [select_ctz_eq, select_broadword_eq, select_pdep_eq]; exact ⟨rfl, rfl⟩

end SV.Props.C02
