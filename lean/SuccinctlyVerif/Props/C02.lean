/-
Props/C02 — Word-level bit kernels are exact on every word.
Property theorems only; helper lemmas live in Proof/Kernels.lean.
-/
import SuccinctlyVerif.Proof.Kernels
namespace SV.Props.C02
open SV

/-- `popcount_word_portable` (SWAR, translated from the source) counts the set bits of every word. -/
theorem popcount_portable_eq (x : BitVec 64) : popcountPortable x = popcount x :=
  Kernels.popcountPortable_eq x

/-- `u64::count_ones` as modelled (`cpop`) is the bit-at-a-time count. -/
theorem popc_eq (x : BitVec 64) : popc x = popcount x := Kernels.popc_eq_popcount x

/-- `select_in_byte` over the generated 2048-entry table = position of the k-th set bit of the
byte (8 if none), for every byte and every `k` (including `k ≥ 8`). -/
theorem select_in_byte_eq (b : BitVec 8) (k : Nat) : selectInByteTable b k = selectInByteSpec b k :=
  Kernels.selectInByteTable_eq b k

example : selectInByteTable 0b10101010#8 2 = 5 := by decide +kernel

/-- `u64::trailing_zeros` as modelled (`BitVec.ctz`) is the position of the first set bit of the
bit list, 64 for the zero word. -/
theorem tz_eq (x : BitVec 64) : tz x = (selectB true (wordBits x) 0).getD 64 := Kernels.tz_eq x

example : tz 0x0000_0F00_0000_0000#64 = 40 ∧ tz 0#64 = 64 := by decide +kernel

/-- `select_in_word_ctz` (the `x &= x-1` loop) returns the position of the `k`-th set bit, 64 if
there are at most `k` set bits — for every word and every `k`. -/
theorem select_ctz_eq (x : BitVec 64) (k : Nat) : selectCtz x k = selectInWordSpec x k :=
  Kernels.selectCtz_eq x k

example : selectCtz 0x8000_0000_00F0_F0F0#64 12 = 63 ∧ selectCtz 0x8000_0000_00F0_F0F0#64 13 = 64 := by
  decide +kernel

end SV.Props.C02
