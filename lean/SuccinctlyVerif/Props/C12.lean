/-
Props/C12 — Line/column mapping is exact and independent of query history.
Property theorems only; helper lemmas live in Proof/Lines.lean.

Objects: `Lines.lineCol / lineStarts / lineStart / toOffset` — the naive look-behind scan
(Spec/Lines.lean); `LinesM.*` — the model of `LineIndex` (Model/Lines.lean): `build`,
`toLineColumn cap ix cache offset` (answer, new cache), `toOffset`, `lineStart`, `lineCount`,
`step`/`run` over `Query` histories.  ASSUMPTION (C03): the Elias–Fano `starts` sequence is the plain
list it encodes and `len/get/predecessor` have their plain-list meaning.
Every theorem holds for EVERY walk cap `cap`; `Gen.FORWARD_WALK_CAP` only instantiates.
-/
import SuccinctlyVerif.Proof.Lines
import SuccinctlyVerif.Generated.C12
namespace SV.Props.C12
open SV SV.Lines SV.LinesM SV.LinesP

/-- a LF b CRLF c CR d — four lines starting at 0, 2, 5, 7. -/
private def demo : List Byte := [0x61, 0x0A, 0x62, 0x0D, 0x0A, 0x63, 0x0D, 0x64]
private def demoIx : LineIndex := { starts := [0, 2, 5, 7], textLen := 8 }

/-- `LineIndex::build` stores exactly the naive scan's line starts (LF, lone CR and CRLF each one
break; a break at the very end starts no line), for every text within the documented 4 GiB limit. -/
theorem build_exact (text : List Byte) (h : text.length ≤ U32_MAX) :
    build text = some { starts := lineStarts text, textLen := text.length } :=
  build_eq text h

example : build demo = some demoIx := by decide

/-- `build` panics (documented) exactly on texts longer than `u32::MAX` bytes. -/
theorem build_panics_iff (text : List Byte) : build text = none ↔ U32_MAX < text.length := by
  constructor
  · intro h
    rcases Nat.lt_or_ge U32_MAX text.length with hl | hl
    · exact hl
    · rw [build_eq text hl] at h; simp at h
  · intro h; exact build_none text (by omega)

example : build ([] : List Byte) ≠ none := by decide

/-- The freshly built index (empty cache cell) satisfies the cache invariant. -/
theorem cache_inv_init (ix : LineIndex) : CacheInv ix none := cacheInv_none ix

/-- **Invariant preservation.** Every public call, from every cache state satisfying the invariant
(the entry records the predecessor of its own offset among the line starts), leaves a cache state
satisfying it — for every walk cap. -/
theorem cache_inv_step (cap : Nat) (text : List Byte) (ix : LineIndex) (hb : build text = some ix)
    (c : Cache) (hc : CacheInv ix c) (q : Query) (hq : QueryOk q) :
    CacheInv ix (step cap ix c q).2 := by
  have htl : text.length ≤ U32_MAX := by
    rcases Nat.lt_or_ge U32_MAX text.length with hl | hl
    · rw [(build_panics_iff text).mpr hl] at hb; simp at hb
    · exact hl
  rw [build_eq text htl] at hb
  simp only [Option.some.injEq] at hb; subst hb
  exact (step_spec cap text htl c hc q hq).2

example : CacheInv demoIx (some { offset := 6, lineIdx := 2, lineStart := 5 }) := by
  intro e he
  simp only [Option.some.injEq] at he; subst he
  exact ⟨by decide, by decide, by decide, by intro y hy; simp [demoIx] at hy; subst hy; decide⟩

/-- **Each answer is exact.** From every cache state satisfying the invariant, `to_line_column`
returns (never panics) the naive scan's `(line, column)` — whichever branch it takes (exact repeat,
forward walk within the cap, walk exceeded, backward, cold), whatever the cap, including offsets
past the end and beyond `u32::MAX` (clamped internally).  Domain: `offset < usize::MAX` (at
`usize::MAX` the column of a one-line text, 2^64, is not representable). -/
theorem answer_exact (cap : Nat) (text : List Byte) (ix : LineIndex) (hb : build text = some ix)
    (c : Cache) (hc : CacheInv ix c) (offset : Nat) (ho : offset + 1 < USIZE) :
    (toLineColumn cap ix c offset).1 = some (lineCol text offset) := by
  obtain ⟨i, x, hp, h1, _⟩ := toLineColumn_spec cap ix (wf_build hb) c hc offset ho
  have htl : text.length ≤ U32_MAX := by
    rcases Nat.lt_or_ge U32_MAX text.length with hl | hl
    · rw [(build_panics_iff text).mpr hl] at hb; simp at hb
    · exact hl
  rw [build_eq text htl] at hb
  simp only [Option.some.injEq] at hb; subst hb
  rw [h1, lineCol_of_isPred text offset i x hp]

example : (toLineColumn 16 demoIx (some { offset := 6, lineIdx := 2, lineStart := 5 }) 7).1
    = some (4, 1) := by decide
example : lineCol demo 7 = (4, 1) := by decide
example : lineCol demo 4 = (2, 3) := by decide   -- the LF of the CRLF is still on line 2

/-- **History independence.** For every text, every walk cap, every cache state satisfying the
invariant (in particular the fresh index) and every history of admissible public calls, the list of
answers is the list of stateless naive-scan answers: no answer depends on earlier queries. -/
theorem history_irrelevant (cap : Nat) (text : List Byte) (ix : LineIndex)
    (hb : build text = some ix) (c : Cache) (hc : CacheInv ix c) (qs : List Query)
    (hq : ∀ q ∈ qs, QueryOk q) :
    run cap ix c qs = qs.map (specAnswer text) := by
  have htl : text.length ≤ U32_MAX := by
    rcases Nat.lt_or_ge U32_MAX text.length with hl | hl
    · rw [(build_panics_iff text).mpr hl] at hb; simp at hb
    · exact hl
  rw [build_eq text htl] at hb
  simp only [Option.some.injEq] at hb; subst hb
  exact (run_spec cap text htl qs c hc hq).1

/-- The instance the code runs: the generated `FORWARD_WALK_CAP`, starting from the fresh index. -/
theorem history_irrelevant_generated (text : List Byte) (ix : LineIndex)
    (hb : build text = some ix) (qs : List Query) (hq : ∀ q ∈ qs, QueryOk q) :
    run Gen.FORWARD_WALK_CAP ix none qs = qs.map (specAnswer text) :=
  history_irrelevant _ text ix hb none (cache_inv_init ix) qs hq

example : run 2 demoIx none [.lineCol 0, .lineCol 7, .lineCol 7, .lineCol 3, .roundTrip 5,
      .toOffset 3 1, .lineStart 4, .lineCount, .lineCol 4294967297]
    = [.lc 1 1, .lc 4 1, .lc 4 1, .lc 2 2, .rt 3 1 (some 5), .opt (some 5), .opt (some 7), .num 4,
       .lc 4 4294967291] := by decide
example : ∀ q ∈ [Query.lineCol 0, .roundTrip 5, .toOffset 3 1], QueryOk q := by
  intro q hq; simp at hq; rcases hq with h | h | h <;> subst h <;> simp [QueryOk, USIZE]

/-- `line_start` and `line_count` are the naive scan's. -/
theorem line_start_exact (text : List Byte) (ix : LineIndex) (hb : build text = some ix)
    (line : Nat) : LinesM.lineStart ix line = Lines.lineStart text line ∧
      LinesM.lineCount ix = Lines.lineCount text := by
  have htl : text.length ≤ U32_MAX := by
    rcases Nat.lt_or_ge U32_MAX text.length with hl | hl
    · rw [(build_panics_iff text).mpr hl] at hb; simp at hb
    · exact hl
  rw [build_eq text htl] at hb
  simp only [Option.some.injEq] at hb; subst hb
  simp [LinesM.lineStart, Lines.lineStart, efGet, LinesM.lineCount, Lines.lineCount, efLen]

example : Lines.lineStart demo 3 = some 5 ∧ Lines.lineCount demo = 4 := by decide

/-- **`to_offset` is exact**, for every line and every column (no side condition): the model of
the `checked_add` code equals the naive definition, in particular a column so large that
`line_start + column - 1` does not fit `usize` is rejected.  (Before fix 6400f9f the unchecked `+`
wrapped there — former finding F10; regression: corpus/C12/finding-1.case.) -/
theorem to_offset_exact (text : List Byte) (ix : LineIndex) (hb : build text = some ix)
    (line column : Nat) :
    LinesM.toOffset ix line column = Lines.toOffset text line column := by
  have htl : text.length ≤ U32_MAX := by
    rcases Nat.lt_or_ge U32_MAX text.length with hl | hl
    · rw [(build_panics_iff text).mpr hl] at hb; simp at hb
    · exact hl
  rw [build_eq text htl] at hb
  simp only [Option.some.injEq] at hb; subst hb
  exact LinesP.toOffset_eq text htl line column

example : LinesM.toOffset { starts := [0, 2], textLen := 4 } 2 18446744073709551615 = none := by
  decide
example : LinesM.toOffset demoIx 3 2 = some 6 ∧ Lines.toOffset demo 3 2 = some 6 := by decide

/-- **Round trip.** For every in-bounds offset, from every admissible cache state and for every
cap, `to_offset(to_line_column(offset)) = Some(offset)` — in the model and in the naive spec. -/
theorem round_trip (cap : Nat) (text : List Byte) (ix : LineIndex) (hb : build text = some ix)
    (c : Cache) (hc : CacheInv ix c) (offset : Nat) (ho : offset < text.length) :
    (step cap ix c (.roundTrip offset)).1 =
        .rt (lineCol text offset).1 (lineCol text offset).2 (some offset) ∧
      Lines.toOffset text (lineCol text offset).1 (lineCol text offset).2 = some offset := by
  have htl : text.length ≤ U32_MAX := by
    rcases Nat.lt_or_ge U32_MAX text.length with hl | hl
    · rw [(build_panics_iff text).mpr hl] at hb; simp at hb
    · exact hl
  rw [build_eq text htl] at hb
  simp only [Option.some.injEq] at hb; subst hb
  have hq : QueryOk (.roundTrip offset) := by
    simp only [QueryOk]; unfold USIZE; unfold U32_MAX at htl; omega
  obtain ⟨i, x, hp⟩ := exists_isPred (xs := lineStarts text) (by simp [lineStarts]) offset
  have hsp := lineCol_of_isPred text offset i x hp
  have hrt := spec_toOffset_of_isPred text offset i x hp ho
  have h1 := (step_spec cap text htl c hc (.roundTrip offset) hq).1
  rw [h1]
  simp only [specAnswer, hsp, hrt, and_self]

example : (step 16 demoIx none (.roundTrip 6)).1 = .rt 3 2 (some 6) := by decide

/-- **Out-of-range offsets report against the last line** (as documented): for `offset ≥ |text|`
the naive scan — hence, by `answer_exact`, the index — answers the last line, with the column
counted from that line's start. -/
theorem past_end_last_line (text : List Byte) (offset : Nat) (h : text.length ≤ offset) :
    (lineCol text offset).1 = Lines.lineCount text ∧
      ∃ s, Lines.lineStart text (Lines.lineCount text) = some s ∧
        (lineCol text offset).2 = offset - s + 1 := by
  obtain ⟨i, x, hp⟩ := exists_isPred (xs := lineStarts text) (by simp [lineStarts]) offset
  have hsp := lineCol_of_isPred text offset i x hp
  have hlast := isPred_past_end text offset i x hp h
  refine ⟨by rw [hsp]; exact hlast, x, ?_, by rw [hsp]⟩
  unfold Lines.lineCount Lines.lineStart
  rw [← hlast]
  simpa using hp.1

example : lineCol demo 99 = (4, 93) := by decide

end SV.Props.C12
