/-
Props/C28 — jq-locate expressions evaluate to the located JSON node.
Property theorems only; lemmas in Proof/JsonLocate*.lean. The jq side (`tokenize`, `lexStr`, `lex`,
`parseProgram`, `eval`) is the jq model of Model/JqParse + Model/Jq (jq 1.7.1 grammar); the locate
side is Model/JsonLocate (`canUseDotNotation`, `escapeJqString`, `renderPath`, node table).
-/
import SuccinctlyVerif.Proof.JsonLocate
import SuccinctlyVerif.Proof.JsonLocateLex
import SuccinctlyVerif.Proof.JsonLocatePath
namespace SV.Props.C28
open SV.Jq SV.JsonLocate

/-- **String-literal round trip.** The jq string-literal lexer reads back every key from its
`escape_jq_string` rendering – with *no* side condition on the characters: control characters other
than `\n \r \t` are emitted raw and the jq lexer accepts raw control characters. -/
theorem lex_roundtrip (k : List Char) (fuel : Nat) (hf : k.length + 1 ≤ fuel) :
    lexStr fuel (escapeJqString k ++ ['"']) [] [] = some ([(String.ofList k, none)], []) :=
  SV.JsonLocate.lex_roundtrip k fuel hf

example : escapeJqString ['a', '"', '\\', '\n', '\x01', '(', 'é'] =
    ['a', '\\', '"', '\\', '\\', '\\', 'n', '\x01', '(', 'é'] := by decide

/-- **Dot notation (partial: ASCII keys).** For a key accepted by `can_use_dot_notation` whose
characters are all ASCII, the jq lexer reads `.k` as the field token `k`.
Missing for the unconditional statement – and false as the code stands (finding F11,
`dot_notation_unsound_non_ascii`): `can_use_dot_notation` uses `char::is_alphabetic` /
`is_alphanumeric`, jq identifiers are ASCII. -/
theorem dot_notation_sound_partial (k rest : List Char) (h : canUseDotNotation k = true)
    (hascii : ∀ c ∈ k, c.toNat < 128)
    (hrest : ∀ c, rest.head? = some c → isIdChar c = false)
    (fuel depth : Nat) (interp : Bool) (acc : List Tok) :
    lex (fuel + 1) ('.' :: (k ++ rest)) depth interp acc
      = lex fuel rest depth interp (.field (String.ofList k) :: acc) :=
  dot_notation_sound k rest h hascii hrest fuel depth interp acc

/-- **F11 (finding), on the model.** `can_use_dot_notation("é")` holds, yet `.é` is not a jq
program: the side condition of `dot_notation_sound_partial` cannot be dropped. -/
theorem dot_notation_unsound_non_ascii :
    canUseDotNotation ['é'] = true ∧ tokenize ".é" = none :=
  ⟨canUseDotNotation_eacute, tokenize_dot_eacute⟩

/-- Reserved words are fine for the jq grammar after a dot (`.then` is one field token) – the
failures of finding F10 are on the side of the crate's own jq parser, not of the printed
expression. -/
theorem dot_reserved_word_is_field :
    canUseDotNotation "then".toList = true ∧ tokenize ".then" = some [.field "then"] :=
  ⟨canUseDotNotation_then, tokenize_dot_then⟩

/-- ASCII keys accepted by `can_use_dot_notation` are jq identifiers. -/
theorem dotOK_of_ascii (k : List Char) (h : canUseDotNotation k = true)
    (hascii : ∀ c ∈ k, c.toNat < 128) : DotOK (.dotKey k) := by
  cases k with
  | nil => simp [canUseDotNotation] at h
  | cons c r =>
    have hc := hascii c (by simp)
    simp only [canUseDotNotation] at h
    split at h
    · cases h
    · rename_i hfirst
      refine ⟨by simp, ?_, ?_⟩
      · intro x hx
        simp at hx; subst hx
        rw [isAlphabetic_ascii c hc] at hfirst
        simp only [isIdStart]
        cases hA : c.isAlpha <;> simp_all
      · intro x hx
        simp at hx
        rcases hx with rfl | hx
        · rw [isAlphabetic_ascii x hc] at hfirst
          simp only [isIdChar, Char.isAlphanum]
          cases hA : x.isAlpha <;> simp_all
        · have := List.all_eq_true.mp h x hx
          rw [isAlphanumeric_ascii x (hascii x (by simp [hx]))] at this
          simpa [isIdChar] using this

/-- **Path expression.** For every value tree and every component path that exists in it, whose
dot components are jq identifiers (`DotOK`; implied by `can_use_dot_notation` on ASCII keys) and
whose indices fit an `i64`, the rendered expression parses to the left-nested index chain and
evaluating it (any dialect, any environment, any sufficient fuel) yields exactly the sub-value the
path denotes. -/
theorem path_expr_sound (d : Dialect) (env : Env JNum) (comps : List Comp)
    (h : ∀ c ∈ comps, DotOK c) (hb : ∀ i, Comp.index i ∈ comps → (i : Int) ≤ I64_MAX)
    (v target : JV JNum) (hget : getPath v comps = some target) :
    ∃ e fuel0, parseProgram (String.ofList (renderPath comps)) = some e ∧ e = pathExpr comps ∧
      ∀ fuel ≥ fuel0, eval d fuel e env v .off = some [.val target .off] :=
  path_expr_sound_JNum d env comps h hb v target hget

/-- **Range.** At a qualifying offset the reported byte range of the selected node contains the
offset (container: its opening bracket; token: a byte of the token); past the end nothing is
located. That the range is the token's / container's full span is part of the correspondence (node
table vs `text_range`, every offset of every generated document), not of a theorem. -/
theorem range_eq_partial {table : List Entry} {n off : Nat} {e : Entry}
    (h : findEntry table n off = some e) (hq : qualifies e off = true) :
    off < n ∧ e.node.start ≤ off ∧ (off < e.node.stop ∨ off = e.node.start) :=
  ⟨(findEntry_some h).1, (range_contains h hq).1, (range_contains h hq).2⟩

example : (renderPath [.dotKey ['a'], .index 10, .bracketKey ['x', '"', ' ']]) = ".a[10][\"x\\\" \"]".toList := by
  decide

end SV.Props.C28
