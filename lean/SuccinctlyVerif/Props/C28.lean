/-
Props/C28 — jq-locate expressions evaluate to the located JSON node.
Property theorems only; lemmas in Proof/JsonLocate*.lean. The jq side (`tokenize`, `lexStr`, `lex`,
`parseProgram`, `eval`) is the jq model of Model/JqParse + Model/Jq (jq 1.7.1 grammar); the locate
side is Model/JsonLocate (`canUseDotNotation`, `escapeJqString`, `renderPath`, node table).
-/
import SuccinctlyVerif.Proof.JsonLocate
import SuccinctlyVerif.Proof.JsonLocateLex
import SuccinctlyVerif.Proof.JsonLocatePath
import SuccinctlyVerif.Proof.JsonLocateIndex
namespace SV.Props.C28
open SV.Jq SV.JsonLocate

/-- **String-literal round trip.** The jq string-literal lexer reads back every key from its
`escape_jq_string` rendering – with *no* side condition on the characters: control characters other
than `\n \r \t` are emitted raw and the jq lexer accepts raw control characters. -/
theorem lex_roundtrip (k : List Char) (fuel : Nat) (hf : k.length + 1 ≤ fuel) :
    lexStr fuel (escapeJqString k ++ ['"']) [] [] = some ([(String.ofList k, none)], []) :=
  SV.JsonLocate.lex_roundtrip k fuel hf

example : escapeJqString ['a', '"', '\\', '\n', '\x01', '(', 'é'] =
    ['a', '\\', '"', '\\', '\\', '\\', 'n', '\x01', '(', 'é'] := by decide

/-- **Dot notation.** For every key accepted by `can_use_dot_notation` (an ASCII jq identifier that
is not a reserved word – the source after the repair of C28-F1 / C28-F2), the jq lexer reads `.k`
as the single field token `k`. No side condition. -/
theorem dot_notation_sound (k rest : List Char) (h : canUseDotNotation k = true)
    (hrest : ∀ c, rest.head? = some c → isIdChar c = false)
    (fuel depth : Nat) (interp : Bool) (acc : List Tok) :
    lex (fuel + 1) ('.' :: (k ++ rest)) depth interp acc
      = lex fuel rest depth interp (.field (String.ofList k) :: acc) :=
  SV.JsonLocate.dot_notation_sound k rest h hrest fuel depth interp acc

/-- Regression witnesses of the repaired findings: non-ASCII letters (C28-F2) and reserved words
(C28-F1) are no longer printed in dot notation; ordinary identifiers still are. -/
theorem dot_notation_regression :
    canUseDotNotation ['é'] = false ∧ canUseDotNotation "then".toList = false ∧
      canUseDotNotation "foo_1".toList = true :=
  ⟨canUseDotNotation_eacute, canUseDotNotation_then, canUseDotNotation_foo⟩

/-- Keys accepted by `can_use_dot_notation` are jq identifiers. -/
theorem dotOK_of_canUse (k : List Char) (h : canUseDotNotation k = true) : DotOK (.dotKey k) := by
  cases k with
  | nil => simp [canUseDotNotation] at h
  | cons c r =>
    simp only [canUseDotNotation] at h
    split at h
    · cases h
    · rename_i hfirst
      have hs : isIdStart c = true := by
        simp only [isIdStart]
        cases hA : c.isAlpha <;> cases hU : (c == '_') <;> simp_all
      have h2 : (r.all fun c => c.isAlphanum || c == '_') = true := by
        simp only [Bool.and_eq_true] at h; exact h.1
      refine ⟨by simp, ?_, ?_⟩
      · intro x hx; simp at hx; subst hx; exact hs
      · intro x hx
        simp at hx
        rcases hx with rfl | hx
        · revert hs; simp only [isIdStart, isIdChar, Char.isAlphanum]
          cases x.isAlpha <;> simp <;> exact fun h => Or.inr h
        · exact List.all_eq_true.mp h2 x hx

/-- Every component `path_to_bp` produces for an object member satisfies the side condition of
`path_expr_sound`. -/
theorem ofKey_dotOK (k : List Char) : DotOK (Comp.ofKey k) := by
  unfold Comp.ofKey
  split
  · rename_i h; exact dotOK_of_canUse k h
  · trivial

/-- **Path expression.** For every value tree and every component path that exists in it, whose
dot components are jq identifiers (`DotOK`; holds for every component `path_to_bp` builds: `ofKey_dotOK`) and
whose indices fit an `i64`, the rendered expression parses to the left-nested index chain and
evaluating it (any dialect, any environment, any sufficient fuel) yields exactly the sub-value the
path denotes. -/
theorem path_expr_sound (d : Dialect) (env : Env JNum) (comps : List Comp)
    (h : ∀ c ∈ comps, DotOK c) (hb : ∀ i, Comp.index i ∈ comps → (i : Int) ≤ I64_MAX)
    (v target : JV JNum) (hget : getPath v comps = some target) :
    ∃ e fuel0, parseProgram (String.ofList (renderPath comps)) = some e ∧ e = pathExpr comps ∧
      ∀ fuel ≥ fuel0, eval d fuel e env v .off = some [.val target .off] :=
  path_expr_sound_JNum d env comps h hb v target hget

/-- **Range.** At a qualifying offset the reported byte range of the selected node contains the
offset (container: its opening bracket; token: a byte of the token); past the end nothing is
located. That the range is the token's / container's full span is part of the correspondence (node
table vs `text_range`, every offset of every generated document), not of a theorem. -/
theorem range_eq_partial {table : List Entry} {n off : Nat} {e : Entry}
    (h : findEntry table n off = some e) (hq : qualifies e off = true) :
    off < n ∧ e.node.start ≤ off ∧ (off < e.node.stop ∨ off = e.node.start) :=
  ⟨(findEntry_some h).1, (range_contains h hq).1, (range_contains h hq).2⟩

example : (renderPath [.dotKey ['a'], .index 10, .bracketKey ['x', '"', ' ']]) = ".a[10][\"x\\\" \"]".toList := by
  decide


/-! ### node selection on the real index (C05 + C06 + C07) -/

/-- **Node selection = preorder node of the document.** For every valid document (`Doc` of
`Spec/JsonSimple`) below 4 GiB and every offset inside its text, `find_node_at_offset` on the index
`JsonIndex::build` produces (C05 reference builder, C06 `index_structure`) returns the BP position
of the open parenthesis of the k-th node in preorder, where k+1 is the number of node first bytes
at positions ≤ offset (C07 `cursor_at_offset_eq`) – `None` before the first node. `at_offset` is
this same function (`JsonCursor::cursor_at_offset`). -/
theorem find_node_at_offset_eq (d : SV.JsonText.Doc) (off : Nat) (h : off < d.text.length)
    (hsmall : d.text.length < SV.JsonIb.U32) :
    (Idx.build d.text).findNodeAtOffset off =
      (if SV.rankB true (SV.JsonNav.toksStdIb d.toks) (off + 1) = 0 then none
       else SV.selectB true (SV.JsonNav.treeBp d.value)
         (SV.rankB true (SV.JsonNav.toksStdIb d.toks) (off + 1) - 1)) :=
  findNodeAtOffset_doc d off h hsmall

/-- … and the text position of the node found is the last node first byte at or before the offset:
the start of the reported byte range. -/
theorem located_start_eq (d : SV.JsonText.Doc) (off p : Nat) (h : off < d.text.length)
    (hsmall : d.text.length < SV.JsonIb.U32)
    (hp : (Idx.build d.text).findNodeAtOffset off = some p) :
    (Idx.build d.text).textPosition p =
      (SV.selectB true (SV.JsonNav.toksStdIb d.toks)
        (SV.rankB true (SV.JsonNav.toksStdIb d.toks) (off + 1) - 1)).filter (· < d.text.length) :=
  textPosition_findNode_doc d off p h hsmall hp

end SV.Props.C28
