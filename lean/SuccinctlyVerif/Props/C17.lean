/-
Props/C17 — YAML position tables return recorded positions under any access order.
Property theorems only; definitions (`tableFn`, `WF`, `SeqInv`, `FlavorOk`) and helper lemmas live
in Proof/YamlPos.lean.  `pc`/`siw` are the per-word primitives `u64::count_ones` /
`select_in_word`, assumed exact (`hpc`, `hsiw`; C02 proves the kernels).
-/
import SuccinctlyVerif.Proof.YamlPos
import SuccinctlyVerif.Model.Words
import SuccinctlyVerif.Generated.C17
namespace SV.Props.C17
open SV SV.YamlPos

variable {pc : Word → Nat} {siw : Word → Nat → Nat} {rate : Nat} {F : Flavor}

/-- The freshly constructed cursor (`SequentialCursor::default()`) satisfies the invariant `SeqInv`
(the two documented invariants + cached-select consistency) for every table. -/
theorem seqInv_default (F : Flavor) (T : Table) : SeqInv F T Cursor.init := seqInv_init F T

/-- `inv_step`: whichever path `get` takes (sequential, gap, backward jump), its answer is the
history-free table function `tableFn` of the index — never a panic — and the stored cursor satisfies
`SeqInv` again.  Holds for both flavors (`AdvancePositions`, `CompactEndPositions`). -/
theorem inv_step (hpc : ∀ w, pc w = popcount w) (hsiw : ∀ w k, siw w k = selectInWordSpec w k)
    (hF : FlavorOk pc F) {T : Table} (wf : WF pc rate T) {c : Cursor} (inv : SeqInv F T c) (i : Nat) :
    (get pc siw rate F T c i).1 = .val (tableFn F T i) ∧ SeqInv F T (get pc siw rate F T c i).2 :=
  get_spec hpc hsiw hF wf inv i

/-- `history_irrelevant`: for a well-formed table, the answer to a lookup of `i` after an arbitrary
earlier lookup list `h₁` equals the answer after any other list `h₂` (any order, gaps, backward
jumps, repeats, out-of-range indices). -/
theorem history_irrelevant (hpc : ∀ w, pc w = popcount w) (hsiw : ∀ w k, siw w k = selectInWordSpec w k)
    (hF : FlavorOk pc F) {T : Table} (wf : WF pc rate T) (h₁ h₂ : List Nat) (i : Nat) :
    (get pc siw rate F T (runFrom pc siw rate F T Cursor.init h₁).2 i).1
      = (get pc siw rate F T (runFrom pc siw rate F T Cursor.init h₂).2 i).1 := by
  have a := (runFrom_spec hpc hsiw hF wf _ (seqInv_init F T) h₁).2
  have b := (runFrom_spec hpc hsiw hF wf _ (seqInv_init F T) h₂).2
  rw [(get_spec hpc hsiw hF wf a i).1, (get_spec hpc hsiw hF wf b i).1]

/-- Every answer of an arbitrary lookup history is the table function of its own index. -/
theorem history_answers (hpc : ∀ w, pc w = popcount w) (hsiw : ∀ w k, siw w k = selectInWordSpec w k)
    (hF : FlavorOk pc F) {T : Table} (wf : WF pc rate T) (hist : List Nat) :
    (runFrom pc siw rate F T Cursor.init hist).1 = hist.map (fun i => Ans.val (tableFn F T i)) :=
  (runFrom_spec hpc hsiw hF wf _ (seqInv_init F T) hist).1

/-- Both flavors satisfy what the proofs need (`scan_select` = per-word scan by Proof/Scan; the
`as u32` cast is idempotent). -/
theorem flavors_ok (pc : Word → Nat) : FlavorOk pc (openFlavor pc) ∧ FlavorOk pc (endFlavor pc) :=
  ⟨openFlavor_ok pc, endFlavor_ok pc⟩

/-- The property's statement for start positions, at full strength (every recorded position
`≤ text_len` is returned after every history).  **False** for the code as it stands — see
`f4_witness` — and therefore only defined, never asserted. -/
def open_get_exact_full_statement : Prop :=
  ∀ (positions : List Nat) (textLen : Nat),
    (∀ p ∈ positions, p ≤ textLen) → (∀ p ∈ positions, p < 2 ^ 32) → positions.length < usizeMax →
    ∀ (hist : List Nat) (i : Nat),
      ((OpenPositions.build popc selectCtz 256 positions textLen).get popc selectCtz 256
        ((OpenPositions.build popc selectCtz 256 positions textLen).runFrom popc selectCtz 256
          Cursor.init hist).2 i).1 = .val positions[i]?

/-- `open_get_exact_partial`: for every `u32` start-position sequence (monotone with duplicates →
compact Advance Index; anything else → dense), every text length and **every lookup history**,
`OpenPositions::get(i)` returns exactly `positions[i]` (`None` past the end).  Missing with respect
to `open_get_exact_full_statement`: the case of a recorded position equal to `text_len` when
`text_len % 64 = 0` (finding F4: the IB bitmap has `⌈text_len/64⌉` words, so that bit is dropped). -/
theorem open_get_exact_partial (hpc : ∀ w, pc w = popcount w) (hsiw : ∀ w k, siw w k = selectInWordSpec w k)
    (hrate : 0 < rate) (positions : List Nat) (textLen : Nat)
    (hdom : ∀ p ∈ positions, p ≤ textLen ∧ (p = textLen → textLen % 64 ≠ 0))
    (hu32 : ∀ p ∈ positions, p < 2 ^ 32) (hsmall : positions.length < usizeMax)
    (hist : List Nat) (i : Nat) :
    ((OpenPositions.build pc siw rate positions textLen).get pc siw rate
      ((OpenPositions.build pc siw rate positions textLen).runFrom pc siw rate Cursor.init hist).2 i).1
      = .val positions[i]? := by
  apply open_get_after hpc hsiw hrate positions textLen _ hu32 hsmall
  intro p hp
  obtain ⟨h1, h2⟩ := hdom p hp
  unfold divCeil
  by_cases h : p = textLen
  · have := h2 h; omega
  · omega

/-- The exact guard the code needs: the same conclusion whenever every position is below
`64 · ⌈text_len / 64⌉` (this also covers positions beyond `text_len`). -/
theorem open_get_exact_under_capacity (hpc : ∀ w, pc w = popcount w)
    (hsiw : ∀ w k, siw w k = selectInWordSpec w k) (hrate : 0 < rate) (positions : List Nat) (textLen : Nat)
    (hcap : ∀ p ∈ positions, p < 64 * divCeil textLen 64)
    (hu32 : ∀ p ∈ positions, p < 2 ^ 32) (hsmall : positions.length < usizeMax)
    (hist : List Nat) (i : Nat) :
    ((OpenPositions.build pc siw rate positions textLen).get pc siw rate
      ((OpenPositions.build pc siw rate positions textLen).runFrom pc siw rate Cursor.init hist).2 i).1
      = .val positions[i]? :=
  open_get_after hpc hsiw hrate positions textLen hcap hu32 hsmall hist i

/-- The extracted sample rate satisfies the side condition `0 < rate`. -/
theorem sample_rate_pos : 0 < Gen.YAML_SELECT_SAMPLE_RATE := by decide

/-- The full statement is refuted by the model of the code (finding F4). -/
theorem open_get_exact_full_statement_false : ¬ open_get_exact_full_statement := by
  intro h
  have := h [0, 64] 64 (by decide) (by decide) (by decide) [] 1
  revert this
  decide +kernel

/-- `end_get_spec`, exactly as the property words it: for every end-position sequence (zeros =
nodes without a recorded end; any `text_len` that bounds the entries) and **every lookup history**,
`EndPositions::get(i)` is
* `None` past the end;
* exactly the node's own end if one was recorded (`ends[i] ≠ 0`);
* for a node without one: `None`, or the end recorded for the *last earlier* node that has one.
Holds for both variants (compact when the non-zero ends are non-decreasing, dense otherwise). -/
theorem end_get_spec (hpc : ∀ w, pc w = popcount w) (hsiw : ∀ w k, siw w k = selectInWordSpec w k)
    (hrate : 0 < rate) (ends : List Nat) (textLen : Nat) (hle : ∀ e ∈ ends, e ≤ textLen)
    (hsmall : ends.length < usizeMax) (hist : List Nat) (i : Nat) :
    let a := ((EndPositions.build pc siw rate ends textLen).get pc siw rate
      ((EndPositions.build pc siw rate ends textLen).runFrom pc siw rate Cursor.init hist).2 i).1
    (ends.length ≤ i → a = .val none) ∧
    (∀ (hi : i < ends.length), ends[i] ≠ 0 → a = .val (some ends[i])) ∧
    (∀ (hi : i < ends.length), ends[i] = 0 → a = .val none ∨
      ∃ j, ∃ (hj : j < i), ends[j] ≠ 0 ∧ (∀ j', j < j' → j' ≤ i → ends[j']? = some 0) ∧
        a = .val (some ends[j])) := by
  intro a
  have ha : a = _ := end_get_after hpc hsiw hrate ends textLen hle hsmall hist i
  by_cases hmono : endMono 0 ends = true
  · rw [if_pos hmono] at ha
    refine ⟨fun h => ?_, fun hi hne => ?_, fun hi h0 => ?_⟩
    · rw [ha]; unfold endFn
      rw [List.getElem?_eq_none (by rw [fillFrom_length]; exact h)]
    · have hi' : i < (fillFrom 0 ends).length := by rw [fillFrom_length]; exact hi
      have := (fillFrom_getElem 0 ends i hi hi').1 hne
      rw [ha]; unfold endFn
      rw [List.getElem?_eq_getElem hi', this]
      cases h : ends[i] with
      | zero => exact absurd h hne
      | succ v => rfl
    · have hi' : i < (fillFrom 0 ends).length := by rw [fillFrom_length]; exact hi
      rcases (fillFrom_getElem 0 ends i hi hi').2 h0 with ⟨b1, _⟩ | ⟨j, hj, b1, b2, b3⟩
      · left
        rw [ha]; unfold endFn
        rw [List.getElem?_eq_getElem hi', b1]
        rfl
      · right
        refine ⟨j, hj, b1, b3, ?_⟩
        rw [ha]; unfold endFn
        rw [List.getElem?_eq_getElem hi', b2]
        cases h : ends[j] with
        | zero => exact absurd h b1
        | succ v => rfl
  · rw [if_neg hmono] at ha
    refine ⟨fun h => ?_, fun hi hne => ?_, fun hi h0 => ?_⟩
    · rw [ha, List.getElem?_eq_none h]; rfl
    · rw [ha, List.getElem?_eq_getElem hi]
      simp [Option.filter, Nat.pos_of_ne_zero hne]
    · left
      rw [ha, List.getElem?_eq_getElem hi, h0]
      rfl

/-- The clause "an end recorded for an earlier node that lies at or before its start": whenever the
recorder upholds the parser's invariant (every end recorded before node `i` is at or before node
`i`'s start `s`), an inherited answer for a node without an own end is `≤ s`. -/
theorem end_inherited_le_start (hpc : ∀ w, pc w = popcount w) (hsiw : ∀ w k, siw w k = selectInWordSpec w k)
    (hrate : 0 < rate) (ends : List Nat) (textLen : Nat) (hle : ∀ e ∈ ends, e ≤ textLen)
    (hsmall : ends.length < usizeMax) (hist : List Nat) (i : Nat) (hi : i < ends.length)
    (h0 : ends[i] = 0) (s : Nat) (hparser : ∀ j, ∀ (hj : j < i), ends[j]'(by omega) ≤ s) (e : Nat)
    (he : ((EndPositions.build pc siw rate ends textLen).get pc siw rate
      ((EndPositions.build pc siw rate ends textLen).runFrom pc siw rate Cursor.init hist).2 i).1
        = .val (some e)) : e ≤ s := by
  obtain ⟨_, _, h3⟩ := end_get_spec hpc hsiw hrate ends textLen hle hsmall hist i
  rcases h3 hi h0 with h | ⟨j, hj, _, _, h⟩
  · rw [h] at he; simp at he
  · rw [h] at he
    have : ends[j] = e := by simpa using he
    rw [← this]; exact hparser j hj

/-- `history_irrelevant` for the structures the index actually holds: the answers of
`OpenPositions::get` and `EndPositions::get` after two arbitrary histories coincide (no hypothesis
on the positions beyond the `usize` size bound; holds in particular in the F4 situation). -/
theorem open_history_irrelevant (hpc : ∀ w, pc w = popcount w) (hsiw : ∀ w k, siw w k = selectInWordSpec w k)
    (hrate : 0 < rate) (positions : List Nat) (textLen : Nat) (hsmall : positions.length < usizeMax)
    (h₁ h₂ : List Nat) (i : Nat) :
    ((OpenPositions.build pc siw rate positions textLen).get pc siw rate
      ((OpenPositions.build pc siw rate positions textLen).runFrom pc siw rate Cursor.init h₁).2 i).1
    = ((OpenPositions.build pc siw rate positions textLen).get pc siw rate
      ((OpenPositions.build pc siw rate positions textLen).runFrom pc siw rate Cursor.init h₂).2 i).1 := by
  unfold OpenPositions.build
  by_cases hm : isMonotonic positions = true
  · rw [if_pos hm]
    have wf := wf_buildOpen (pc := pc) (siw := siw) hpc hsiw hrate positions textLen
      (pairwise_of_isMonotonic positions hm) hsmall
    rw [open_runFrom_compact, open_runFrom_compact]
    exact history_irrelevant hpc hsiw (openFlavor_ok pc) wf h₁ h₂ i
  · rw [if_neg hm]; rfl

/-- Finding F4, refutation witness on the model of the code: with start positions `[0, 64]` and
`text_len = 64` the open-position table answers `None` for node 1 (recorded start 64). -/
theorem f4_witness :
    (get popc selectCtz 256 (openFlavor popc) (buildOpen popc selectCtz 256 [0, 64] 64) Cursor.init 1).1
      = .val none := by decide +kernel

/-- The same sequence one byte longer is answered exactly (non-vacuity of the partial theorem). -/
example :
    (get popc selectCtz 256 (openFlavor popc) (buildOpen popc selectCtz 256 [0, 64] 65) Cursor.init 1).1
      = .val (some 64) := by decide +kernel

/-- Non-vacuity of the history theorems: a backward jump and a repeat on a concrete table. -/
example :
    (runFrom popc selectCtz 256 (openFlavor popc) (buildOpen popc selectCtz 256 [0, 0, 9, 9, 70] 100)
      Cursor.init [4, 1, 1, 3, 9, 0]).1
      = [.val (some 70), .val (some 0), .val (some 0), .val (some 9), .val none, .val (some 0)] := by
  decide +kernel

/-- Non-vacuity of `end_get_spec`: own end, inherited end, leading container, dense fallback. -/
example :
    (EndPositions.runFrom popc selectCtz 256 (EndPositions.build popc selectCtz 256 [0, 10, 0, 0, 20, 0] 20)
      Cursor.init [5, 0, 3, 1, 4, 9]).1
      = [.val (some 20), .val none, .val (some 10), .val (some 10), .val (some 20), .val none] := by
  decide +kernel

example :
    (EndPositions.runFrom popc selectCtz 256 (EndPositions.build popc selectCtz 256 [0, 20, 10, 0, 30] 100)
      Cursor.init [3, 2, 1, 0]).1
      = [.val none, .val (some 10), .val (some 20), .val none] := by
  decide +kernel

end SV.Props.C17
