/-
Props/C17 — YAML position tables return recorded positions under any access order.
Property theorems only; definitions and helper lemmas live in Spec/YamlPos.lean, Proof/YamlPos.lean.
-/
import SuccinctlyVerif.Model.YamlPos
import SuccinctlyVerif.Model.Words
namespace SV.Props.C17
open SV SV.YamlPos

/-- Finding F4, refutation witness on the model of the code: with start positions `[0, 64]` and
`text_len = 64` the open-position table answers `None` for node 1 (recorded start 64). -/
theorem f4_witness :
    (get popc selectCtz 256 (openFlavor popc) (buildOpen popc selectCtz 256 [0, 64] 64) Cursor.init 1).1
      = .val none := by decide +kernel

/-- The same sequence one byte longer is answered exactly. -/
example :
    (get popc selectCtz 256 (openFlavor popc) (buildOpen popc selectCtz 256 [0, 64] 65) Cursor.init 1).1
      = .val (some 64) := by decide +kernel

end SV.Props.C17
