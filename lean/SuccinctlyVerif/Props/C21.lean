/-
Props/C21 — DSV rows and fields follow quote-aware splitting.
Property theorems only; lemmas live in Proof/DsvNav.lean.

Status.  The model of the code (`Model/DsvNav.lean`: rank/select with `partition_point`, cursor,
`DsvRows`, `DsvFields`, `DsvRow::get`, `Dsv::row`) is tied to the implementation by the
correspondence check and cross-checked against the splitting spec on every request, but the
theorems `rows_eq` / `fields_eq` / `row_random_access_eq_iteration` / `get_eq_iteration`
(model = spec for all texts) are NOT proved yet; their statements are kept below as `def … : Prop`
(never asserted).  What is proved: the append-separator invariance of the spec, and — on the model of
the code, by evaluation — the refutation of the unrestricted `fields_eq` (finding F7).
-/
import SuccinctlyVerif.Proof.DsvNav
namespace SV.Props.C21
open SV SV.Dsv

/-- F7 class: the text ends with a delimiter outside quotes — its final field is empty and the text
does not end with the record separator. -/
def endsWithUnquotedDelim (d q : Byte) (text : List Byte) : Bool :=
  text.getLast? == some d && !(finalQuote q false text)

/-- Full statement of `rows_eq`/`fields_eq` (false for the code as it stands: see the refutation). -/
def fields_eq_full_statement : Prop :=
  ∀ (d q n : Byte), d ≠ q → q ≠ n → d ≠ n → ∀ text : List Byte,
    (parse d q n text).rows = rowsSpec d q n text

/-- The statement that holds for the code as it stands (side condition = exactly the F7 class);
not proved yet — checked by the driver on every request. -/
def fields_eq_partial_statement : Prop :=
  ∀ (d q n : Byte), d ≠ q → q ≠ n → d ≠ n → ∀ text : List Byte,
    endsWithUnquotedDelim d q text = false → (parse d q n text).rows = rowsSpec d q n text

/-- Random access = iteration, same side condition; not proved yet. -/
def random_access_partial_statement : Prop :=
  ∀ (d q n : Byte), d ≠ q → q ≠ n → d ≠ n → ∀ text : List Byte,
    endsWithUnquotedDelim d q text = false → ∀ r c : Nat,
      (((parse d q n text).row r).bind fun st => (parse d q n text).get st c) = cellSpec d q n text r c

/-- Regression for the repaired finding F7 (repo commit 86e05db), on the model of the fixed code:
the text `a,` yields the field `a` and the final empty field, exactly like `a,\n`. -/
example : (parse 0x2c#8 0x22#8 0x0a#8 [0x61#8, 0x2c#8]).rows = [[[0x61#8], []]] := by decide +kernel
example : rowsSpec 0x2c#8 0x22#8 0x0a#8 [0x61#8, 0x2c#8] = [[[0x61#8], []]] := by decide
example : (parse 0x2c#8 0x22#8 0x0a#8 [0x61#8, 0x2c#8, 0x0a#8]).rows = [[[0x61#8], []]] := by decide +kernel
example : (parse 0x2c#8 0x22#8 0x0a#8 [0x61#8, 0x2c#8]).get 0 1 = some []
    ∧ cellSpec 0x2c#8 0x22#8 0x0a#8 [0x61#8, 0x2c#8] 0 1 = some [] := by decide +kernel

/-- `append_separator_invariant`, over the splitting spec (`_partial`: for the cursor model it
follows from `fields_eq`, which the code violates exactly on the F7 class — there the appended
separator *adds* the lost empty field): appending a record separator to a non-empty text with
balanced quotes that does not already end with one changes neither the rows nor their fields. -/
theorem append_separator_invariant_partial (d q n : Byte) (hqn : q ≠ n) (t : List Byte) (ht : t ≠ [])
    (hb : balanced q t = true) (hl : t.getLast? ≠ some n) :
    rowsSpec d q n (t ++ [n]) = rowsSpec d q n t :=
  DsvNavP.rowsSpec_append_sep d q n hqn t ht hb hl

/-- Non-vacuity: `a,b\nc` is non-empty, balanced and does not end with the separator. -/
example : ([0x61#8, 0x2c#8, 0x62#8, 0x0a#8, 0x63#8] : List Byte) ≠ [] ∧
    balanced 0x22#8 [0x61#8, 0x2c#8, 0x62#8, 0x0a#8, 0x63#8] = true ∧
    ([0x61#8, 0x2c#8, 0x62#8, 0x0a#8, 0x63#8] : List Byte).getLast? ≠ some 0x0a#8 := by decide

/-- A final separator starts no extra row; empty fields are kept (spec, by evaluation). -/
example : rowsSpec 0x2c#8 0x22#8 0x0a#8 [0x61#8, 0x2c#8, 0x2c#8, 0x0a#8, 0x0a#8]
    = [[[0x61#8], [], []], [[]]] := by decide
/-- … and the model of the code agrees on it, including random access. -/
example : (parse 0x2c#8 0x22#8 0x0a#8 [0x61#8, 0x2c#8, 0x2c#8, 0x0a#8, 0x0a#8]).rows
    = [[[0x61#8], [], []], [[]]] := by decide +kernel

end SV.Props.C21
