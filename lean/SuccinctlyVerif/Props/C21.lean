/-
Props/C21 — DSV rows and fields follow quote-aware splitting.
Property theorems only; lemmas live in Proof/DsvRank.lean (rank/select), Proof/DsvNavModel.lean
(iteration = spec), Proof/DsvNavAccess.lean (random access), Proof/DsvNav.lean (spec facts).

All theorems are about the model of the *repaired* code (repo commit 86e05db, finding F7): the
cursor model `parse d q n text` = index built by any engine (C20) + `DsvIndexLightweight` rank/select
with `partition_point` + `DsvCursor`/`DsvRows`/`DsvFields`/`DsvRow::get`/`Dsv::row`.  None of them
needs the distinctness of the three special bytes.
-/
import SuccinctlyVerif.Proof.DsvNavAccess
import SuccinctlyVerif.Proof.DsvNav
namespace SV.Props.C21
open SV SV.Dsv

/-- **fields_eq.** Iterating the rows and, within each row, its fields yields exactly the text split
at record separators outside quotes (a final separator starts no row) and then at delimiters
outside quotes, every field — including empty ones at the end of a row — as its raw bytes. -/
theorem fields_eq (d q n : Byte) (text : List Byte) : (parse d q n text).rows = rowsSpec d q n text :=
  DsvNavM.rows_eq_spec d q n text

/-- **rows_eq.** The rows the iteration yields are, one for one, the record segments of the spec. -/
theorem rows_eq (d q n : Byte) (text : List Byte) :
    (parse d q n text).rowStarts.length = (rowSegs q n text).length
    ∧ ∀ r : Nat, ((parse d q n text).rowStarts[r]?).map (parse d q n text).rowFields
        = ((rowSegs q n text)[r]?).map (fieldsOf d q) := by
  have h := fields_eq d q n text
  unfold Ctx.rows rowsSpec at h
  refine ⟨by simpa using congrArg List.length h, ?_⟩
  intro r
  have := congrArg (fun l => l[r]?) h
  simpa using this

/-- **row_random_access_eq_iteration.** `Dsv::row(r)` is the `r`-th row of the iteration — and `None`
exactly when the iteration has no `r`-th row — for every `r`, including out-of-range ones. -/
theorem row_random_access_eq_iteration (d q n : Byte) (text : List Byte) (r : Nat) :
    (parse d q n text).row r = (parse d q n text).rowStarts[r]?
    ∧ ((parse d q n text).row r).map (parse d q n text).rowFields = (rowsSpec d q n text)[r]? := by
  have hr := DsvNavA.row_eq_rowStarts (DsvNavM.parse_good d q n text).1 r
  refine ⟨hr, ?_⟩
  rw [hr, ← fields_eq]
  simp [Ctx.rows]

/-- **get_eq_iteration.** `row.get(col)` is the `col`-th field that iterating the row yields
(`None` past the last field), for every row that exists and every `col`. -/
theorem get_eq_iteration (d q n : Byte) (text : List Byte) (r st col : Nat)
    (h : (parse d q n text).row r = some st) :
    (parse d q n text).get st col = ((parse d q n text).rowFields st)[col]? := by
  obtain ⟨g, ht⟩ := DsvNavM.parse_good d q n text
  have hlt := DsvNavA.rowStarts_lt g r st (by rw [← DsvNavA.row_eq_rowStarts g r]; exact h)
  exact DsvNavA.get_eq_fields g (DsvNavM.newline_sub_marker d q n text) st col hlt

/-- Random access to row `r`, column `col` returns the spec's cell, for all indices. -/
theorem cell_eq (d q n : Byte) (text : List Byte) (r col : Nat) :
    (((parse d q n text).row r).bind fun st => (parse d q n text).get st col) = cellSpec d q n text r col := by
  unfold cellSpec
  rw [← (row_random_access_eq_iteration d q n text r).2]
  cases h : (parse d q n text).row r with
  | none => simp
  | some st => simp [get_eq_iteration d q n text r st col h]

/-- **append_separator_invariant.** Appending a record separator to a non-empty text with balanced
quotes that does not already end with one changes neither the rows nor their fields — as returned
by the cursor model. -/
theorem append_separator_invariant (d q n : Byte) (hqn : q ≠ n) (t : List Byte) (ht : t ≠ [])
    (hb : balanced q t = true) (hl : t.getLast? ≠ some n) :
    (parse d q n (t ++ [n])).rows = (parse d q n t).rows := by
  rw [fields_eq, fields_eq]
  exact DsvNavP.rowsSpec_append_sep d q n hqn t ht hb hl

/-! Non-vacuity and regression. -/

/-- `a,b\nc` is non-empty, balanced and does not end with the separator. -/
example : ([0x61#8, 0x2c#8, 0x62#8, 0x0a#8, 0x63#8] : List Byte) ≠ [] ∧
    balanced 0x22#8 [0x61#8, 0x2c#8, 0x62#8, 0x0a#8, 0x63#8] = true ∧
    ([0x61#8, 0x2c#8, 0x62#8, 0x0a#8, 0x63#8] : List Byte).getLast? ≠ some 0x0a#8 := by decide

/-- A final separator starts no extra row; empty fields are kept. -/
example : rowsSpec 0x2c#8 0x22#8 0x0a#8 [0x61#8, 0x2c#8, 0x2c#8, 0x0a#8, 0x0a#8]
    = [[[0x61#8], [], []], [[]]] := by decide

/-- Regression for the repaired finding F7 (repo commit 86e05db): the text `a,` yields the field
`a` and the final empty field, exactly like `a,\n`; before the repair the model of the code yielded
`[["a"]]` and `get(1) = None` here. -/
example : (parse 0x2c#8 0x22#8 0x0a#8 [0x61#8, 0x2c#8]).rows = [[[0x61#8], []]] := by
  rw [fields_eq]; decide
example : (parse 0x2c#8 0x22#8 0x0a#8 [0x61#8, 0x2c#8]).row 0 = some 0 := by decide +kernel
example : (parse 0x2c#8 0x22#8 0x0a#8 [0x61#8, 0x2c#8]).get 0 1 = some [] := by decide +kernel

end SV.Props.C21
