/-
Props/C27 — query output does not depend on the evaluation route (model part).
Property theorems only; helper lemmas live in Proof/JqCursor.lean.
-/
import SuccinctlyVerif.Proof.JqCursor
namespace SV.Props.C27
open SV SV.JqOut

/-- The streaming printer that walks a document cursor (`value`, `first_child`, `next_sibling`,
member `key`) writes exactly the bytes the structural printer writes for the owned value, for every
value, every printer configuration (compact / indent unit / `-a` / number spelling), every nesting
level and every fuel that covers the value's navigation steps. -/
theorem stream_eq_materialise (c : Cfg) (v : V) (lvl f : Nat) (h : v.steps ≤ f) :
    streamAt c f lvl (Cur.root v) = render c lvl v :=
  streamAt_eq c v f lvl none [] h

/-- The same at any position of the document: whatever cursor a path of child indices resolves to
(first_child followed by next_sibling hops per index), streaming from that cursor equals printing
the node it designates — the siblings and the key the cursor carries do not leak into the output. -/
theorem stream_at_path (c : Cfg) (root : V) (p : List Nat) (cur : Cur) (lvl f : Nat)
    (_hp : (Cur.root root).ofPath p = some cur) (h : cur.value.steps ≤ f) :
    streamAt c f lvl cur = render c lvl cur.value := by
  cases cur with
  | mk node key rest => exact streamAt_eq c node f lvl key rest h

/-- Results that are sequences of cursors (`.[]`): streaming every sibling after a cursor equals
printing the remaining elements / members structurally. -/
theorem stream_siblings_eq (c : Cfg) (xs : List V) (x0 : V) (lvl f : Nat) (h : stepsList xs ≤ f) :
    streamSibs c f lvl ⟨x0, none, elemsOf xs⟩ = renderRest c lvl xs :=
  sibsElems c xs f lvl x0 none h

/-- non-vacuity: a cursor two levels down, reached by navigation, prints its own node -/
example :
    let doc : V := .arr [.num [0x31], .obj [(⟨['a'], false⟩, .arr [.null, .bool true])]]
    let cfg : Cfg := { compact := true, unit := [], ascii := false, fmt := id }
    (((Cur.root doc).ofPath [1, 0]).map fun cur => streamAt cfg 9 0 cur)
      = some [0x5b, 0x6e, 0x75, 0x6c, 0x6c, 0x2c, 0x74, 0x72, 0x75, 0x65, 0x5d] := by
  decide

end SV.Props.C27
