/-
Props/C27 — query output does not depend on the evaluation route (model part).
Property theorems only; helper lemmas live in Proof/JqCursor.lean.
-/
import SuccinctlyVerif.Proof.JqCursor
import SuccinctlyVerif.Proof.JqOutput
namespace SV.Props.C27
open SV SV.JqOut

/-- The streaming printer that walks a document cursor (`value`, `first_child`, `next_sibling`,
member `key`) writes exactly the bytes the structural printer writes for the owned value, for every
value, every printer configuration (compact / indent unit / `-a` / number spelling), every nesting
level and every fuel that covers the value's navigation steps. -/
theorem stream_eq_materialise (c : Cfg) (v : V) (lvl f : Nat) (h : v.steps ≤ f) :
    streamAt c f lvl (Cur.root v) = render c lvl v :=
  streamAt_eq c v f lvl none [] h

/-- The same at any position of the document: whatever cursor a path of child indices resolves to
(first_child followed by next_sibling hops per index), streaming from that cursor equals printing
the node it designates — the siblings and the key the cursor carries do not leak into the output. -/
theorem stream_at_path (c : Cfg) (root : V) (p : List Nat) (cur : Cur) (lvl f : Nat)
    (_hp : (Cur.root root).ofPath p = some cur) (h : cur.value.steps ≤ f) :
    streamAt c f lvl cur = render c lvl cur.value := by
  cases cur with
  | mk node key rest => exact streamAt_eq c node f lvl key rest h

/-- Results that are sequences of cursors (`.[]`): streaming every sibling after a cursor equals
printing the remaining elements / members structurally. -/
theorem stream_siblings_eq (c : Cfg) (xs : List V) (x0 : V) (lvl f : Nat) (h : stepsList xs ≤ f) :
    streamSibs c f lvl ⟨x0, none, elemsOf xs⟩ = renderRest c lvl xs :=
  sibsElems c xs f lvl x0 none h

/-- `routes_agree`: in the model (as the code stands after the `fix:` commits for `--indent 0` and
raw DEL) the three jq printing routes write the same JSON text for every well-formed value and
every option set without `--preserve-input`: the lazy cursor printer and the lazy owned printer
always, and the materialised printer whenever `-S` does not reorder keys. What remains
route-specific is exactly `--preserve-input` (lazy routes keep duplicates and number spelling)
— the recorded finding C27-jq-preserve. -/
theorem routes_agree (o : Opts) (fmt : Bytes → Bytes) (v : V) (hv : v.wf = true) (hp : o.preserve = false) :
    body o .cursor fmt v = body o .ownedLazy fmt v ∧
      (o.sortKeys = false → body o .ownedLazy fmt v = body o .mat fmt v) := by
  have hw := wf_collapseDeep v hv
  constructor
  · simp only [body, Opts.cfg, Opts.prep, hp, Bool.false_eq_true, ↓reduceIte]
    exact (render_owned _ _ 0 hw).symm
  · intro hs
    simp only [body, Opts.cfg, Opts.prep, hp, hs, Bool.false_eq_true, ↓reduceIte]

/-- non-vacuity: a raw DEL and `--indent 0` print the same on the cursor and materialised routes -/
example :
    let v : V := .arr [.str ⟨[Char.ofNat 0x7f], false⟩, .obj [(⟨['a'], false⟩, .num [0x31])]]
    body { indent := some 0 } .cursor id v = body { indent := some 0 } .mat id v := by
  decide

/-- non-vacuity: a cursor two levels down, reached by navigation, prints its own node -/
example :
    let doc : V := .arr [.num [0x31], .obj [(⟨['a'], false⟩, .arr [.null, .bool true])]]
    let cfg : Cfg := { compact := true, unit := [], ascii := false, fmt := id }
    (((Cur.root doc).ofPath [1, 0]).map fun cur => streamAt cfg 9 0 cur)
      = some [0x5b, 0x6e, 0x75, 0x6c, 0x6c, 0x2c, 0x74, 0x72, 0x75, 0x65, 0x5d] := by
  decide

end SV.Props.C27
