/-
Props/C32 — Simple-cursor JSON index navigates valid documents exactly.
Property theorems only; helper lemmas live in Proof/JsonSimple.lean.

"Valid JSON document" = `Doc` of `Spec/JsonSimple.lean` (a value tree rendered through tokens with
arbitrary RFC 8259 whitespace); `toksTags` marks, per byte of the text, the `{ } [ ] , :` tokens —
bytes of string tokens are never marked.  The index is `SimpleJsonIndex::build` as modelled in
`Model/JsonSimple.lean` (runtime-dispatched SIMD builder; by C05 it is the reference index).
-/
import SuccinctlyVerif.Proof.JsonSimple
import SuccinctlyVerif.Proof.JsonBridge
namespace SV.Props.C32
open SV SV.JsonSimple SV.JsonText

/-- For every valid JSON document (indeed for every token sequence), whichever SIMD level built the
index: the `structural_positions` iterator lists exactly the byte positions of the `{ } [ ] , :`
tokens — never a byte inside a string — in increasing order, `structural_pos(k)` is the `k`-th of
them (`None` from `structural_count()` on), and `structural_count()` is their number. -/
theorem structural_list_eq (hasAvx2 : Bool) (d : Doc) :
    structuralPositions (build hasAvx2 d.text) = truePositions (toksTags d.toks) ∧
    (∀ k, structuralPos (build hasAvx2 d.text) k = (truePositions (toksTags d.toks))[k]?) ∧
    structuralCount (build hasAvx2 d.text) = (truePositions (toksTags d.toks)).length := by
  refine ⟨structuralPositions_build hasAvx2 d.toks, ?_, ?_⟩
  · intro k
    rw [Doc.text, structuralPos_build, (sreference_toks d.toks).1, selectB_truePositions]
  · rw [Doc.text, structuralCount_build, (sreference_toks d.toks).1, truePositions_length]

/-- Non-vacuity: `{"a,":[1]}` — the comma inside the key is not listed. -/
example :
    let d : Doc := ⟨[], .obj [] [.plain ⟨0x61#8, by decide⟩, .plain ⟨0x2C#8, by decide⟩] [] []
      (.arr [] (.num ⟨false, .nonzero 0 [], none, none⟩) [] .nil) [] .nil, []⟩
    d.text = [0x7B, 0x22, 0x61, 0x2C, 0x22, 0x3A, 0x5B, 0x31, 0x5D, 0x7D] ∧
    truePositions (toksTags d.toks) = [0, 5, 6, 8, 9] := by decide

/-- `structural_index` and `structural_pos` are mutually inverse on every document (indeed on every
byte string): the `k`-th structural position maps back to ordinal `k`, a position with an ordinal is
the position of that ordinal, and a position has an ordinal exactly when it holds a structural
token (`{ } [ ] , :` outside strings). -/
theorem index_pos_inverse (hasAvx2 : Bool) (d : Doc) :
    (∀ k p, structuralPos (build hasAvx2 d.text) k = some p →
      structuralIndex (build hasAvx2 d.text) p = some k) ∧
    (∀ p k, structuralIndex (build hasAvx2 d.text) p = some k →
      structuralPos (build hasAvx2 d.text) k = some p) ∧
    (∀ p, (structuralIndex (build hasAvx2 d.text) p).isSome = (toksTags d.toks).getD p false) := by
  have hib : (JsonSemi.sreference d.text).ib = toksTags d.toks := (sreference_toks d.toks).1
  refine ⟨?_, ?_, ?_⟩
  · intro k p h
    rw [structuralPos_build] at h
    obtain ⟨h1, h2⟩ := selectB_spec _ k p h
    rw [structuralIndex_build, h1, h2]; rfl
  · intro p k h
    rw [structuralIndex_build] at h
    by_cases hb : (JsonSemi.sreference d.text).ib.getD p false = true
    · rw [hb] at h
      simp only [if_true, Option.some.injEq] at h
      rw [structuralPos_build, ← h]; exact selectB_rankB _ p hb
    · have hb' : (JsonSemi.sreference d.text).ib.getD p false = false := by simpa using hb
      rw [hb'] at h; simp at h
  · intro p
    rw [structuralIndex_build, hib]
    cases (toksTags d.toks).getD p false <;> rfl

example :
    let d : Doc := ⟨[], .arr [] (.lit .tru) [] .nil, []⟩
    structuralIndex (build true d.text) 5 = some 1 ∧ structuralPos (build true d.text) 1 = some 5 := by
  decide +kernel

/-- For every container (`[…]` or `{…}`) occurring in a valid document — `d.toks = A ++ c.toks ++ B`
says that the value `c` occupies the token segment after `A`; every sub-value of the document
occupies such a segment by construction of `JVal.toks` — `find_close` at the byte position of its
open bracket returns the byte position of its own close bracket (the last byte of `c`). -/
theorem find_close_in_context (hasAvx2 : Bool) (d : Doc) (A B : List Tok) (c : JVal)
    (hc : c.isContainer = true) (hocc : d.toks = A ++ c.toks ++ B) :
    findClose (build hasAvx2 d.text) d.text (toksBytes A).length =
      some ((toksBytes A).length + (toksBytes c.toks).length - 1) := by
  rw [Doc.text, hocc]; exact findClose_in_context hasAvx2 A B c hc

/-- Non-vacuity: in `[[],{}]` the inner `{}` at byte 4 closes at byte 5, the outer array at 6. -/
example :
    let inner : JVal := .obj0 []
    let d : Doc := ⟨[], .arr [] (.arr0 []) [] (.cons [] inner [] .nil), []⟩
    d.toks = [.lbracket, .lbracket, .rbracket, .comma] ++ inner.toks ++ [.rbracket] ∧
    findClose (build true d.text) d.text 4 = some 5 ∧ findClose (build true d.text) d.text 0 = some 6 := by
  refine ⟨rfl, ?_, ?_⟩ <;> decide +kernel

/-- For every value `v` (container, string, number, `true`/`false`/`null`) occupying the token
segment after `A` in a valid document, `skip_value` at the byte position of its first byte returns
the position of the byte just after its last byte.  For a number the byte following it, if any,
must not be one of `0-9 - + . e E` (`find_number_end` is greedy over that class); in a document a
value is followed by whitespace, `,`, `]`, `}` or the end of the text, so this always holds there. -/
theorem skip_value_in_context (hasAvx2 : Bool) (d : Doc) (A B : List Tok) (v : JVal)
    (hocc : d.toks = A ++ v.toks ++ B)
    (hnum : ∀ n, v = .num n → ∀ b, (toksBytes B).head? = some b → isNumberByte b = false) :
    skipValue (build hasAvx2 d.text) d.text (toksBytes A).length =
      some ((toksBytes A).length + (toksBytes v.toks).length) := by
  rw [Doc.text, hocc]; exact skipValue_in_context hasAvx2 A B v hnum

/-- Non-vacuity: `[-1.5e3,"a\"b"]`: the number at byte 1 ends at 7, the string at 8 ends at 14, the
array at 0 ends at 15. -/
example :
    let num : JVal := .num ⟨true, .nonzero 0 [], some (5, []), some ⟨false, none, 3, []⟩⟩
    let str : JVal := .str [.plain ⟨0x61#8, by decide⟩, .esc .quote, .plain ⟨0x62#8, by decide⟩]
    let d : Doc := ⟨[], .arr [] num [] (.cons [] str [] .nil), []⟩
    d.toks = [.lbracket] ++ num.toks ++ ([.comma] ++ str.toks ++ [.rbracket]) ∧
    d.text.length = 15 ∧
    skipValue (build true d.text) d.text 1 = some 7 ∧ skipValue (build true d.text) d.text 8 = some 14 ∧
    skipValue (build true d.text) d.text 0 = some 15 := by
  refine ⟨rfl, ?_, ?_, ?_, ?_⟩ <;> decide +kernel

/-! ### every container and every value of every valid document

`Doc.occs d` enumerates every value of the document — the root and all nested array items and
object member values — as `(A, v, B)` with `d.toks = A ++ v.toks ++ B` (`doc_occs`), so the byte
position of `v` is `(toksBytes A).length` and its byte length `(toksBytes v.toks).length`. -/

/-- For every valid JSON document and every container in it, `find_close` at the container's open
bracket returns the position of its matching close bracket. -/
theorem find_close_eq (hasAvx2 : Bool) (d : Doc) (o : Occ) (ho : o ∈ d.occs)
    (hc : o.2.1.isContainer = true) :
    findClose (build hasAvx2 d.text) d.text (toksBytes o.1).length =
      some ((toksBytes o.1).length + (toksBytes o.2.1.toks).length - 1) :=
  find_close_in_context hasAvx2 d o.1 o.2.2 o.2.1 hc (doc_occs d o ho).1

/-- For every valid JSON document and every value in it (container, string, number, literal),
`skip_value` at the value's first byte returns the position of the byte just after the value. -/
theorem skip_value_eq (hasAvx2 : Bool) (d : Doc) (o : Occ) (ho : o ∈ d.occs) :
    skipValue (build hasAvx2 d.text) d.text (toksBytes o.1).length =
      some ((toksBytes o.1).length + (toksBytes o.2.1.toks).length) :=
  skip_value_in_context hasAvx2 d o.1 o.2.2 o.2.1 (doc_occs d o ho).1
    (fun _ _ b hb => (doc_occs d o ho).2 b hb)

/-- Non-vacuity: `{"k":[1,{}]}` has four values: the object, the array, `1` and `{}`. -/
example :
    let d : Doc := ⟨[], .obj [] [.plain ⟨0x6B#8, by decide⟩] [] []
      (.arr [] (.num ⟨false, .nonzero 0 [], none, none⟩) [] (.cons [] (.obj0 []) [] .nil)) [] .nil, []⟩
    d.occs.map (fun o => ((toksBytes o.1).length, (toksBytes o.2.1.toks).length)) = [(0, 12), (5, 6), (6, 1), (8, 2)] := by
  decide

/-! ### the documents quantified over include exactly the RFC 8259 texts of C08 -/

/-- Every text that is `Valid` in C08's grammar (`Spec/Json.lean`, any nesting bound) is `d.text` for
some `Doc` (`JsonNav.valid_lift`), and every `Doc` whose strings are well-formed renders to a `Valid`
text (`JsonNav.doc_valid`); so the theorems above hold in particular for every RFC 8259 text. -/
theorem covers_rfc8259_texts (hasAvx2 : Bool) (D : Nat) (b : List (BitVec 8)) (h : Json.Valid D b) :
    ∃ d : Doc, d.text = b ∧
      structuralPositions (build hasAvx2 b) = truePositions (toksTags d.toks) := by
  obtain ⟨d, hd, _⟩ := JsonNav.valid_lift D b h
  subst hd
  exact ⟨d, rfl, (structural_list_eq hasAvx2 d).1⟩

end SV.Props.C32
