/-
Props/C32 — Simple-cursor JSON index navigates valid documents exactly.
Property theorems only; helper lemmas live in Proof/JsonSimple.lean.

"Valid JSON document" = `Doc` of `Spec/JsonSimple.lean` (a value tree rendered through tokens with
arbitrary RFC 8259 whitespace); `toksTags` marks, per byte of the text, the `{ } [ ] , :` tokens —
bytes of string tokens are never marked.  The index is `SimpleJsonIndex::build` as modelled in
`Model/JsonSimple.lean` (runtime-dispatched SIMD builder; by C05 it is the reference index).
-/
import SuccinctlyVerif.Proof.JsonSimple
namespace SV.Props.C32
open SV SV.JsonSimple SV.JsonText

/-- For every valid JSON document (indeed for every token sequence), whichever SIMD level built the
index: the `structural_positions` iterator lists exactly the byte positions of the `{ } [ ] , :`
tokens — never a byte inside a string — in increasing order, `structural_pos(k)` is the `k`-th of
them (`None` from `structural_count()` on), and `structural_count()` is their number. -/
theorem structural_list_eq (hasAvx2 : Bool) (d : Doc) :
    structuralPositions (build hasAvx2 d.text) = truePositions (toksTags d.toks) ∧
    (∀ k, structuralPos (build hasAvx2 d.text) k = (truePositions (toksTags d.toks))[k]?) ∧
    structuralCount (build hasAvx2 d.text) = (truePositions (toksTags d.toks)).length := by
  refine ⟨structuralPositions_build hasAvx2 d.toks, ?_, ?_⟩
  · intro k
    rw [Doc.text, structuralPos_build, (sreference_toks d.toks).1, selectB_truePositions]
  · rw [Doc.text, structuralCount_build, (sreference_toks d.toks).1, truePositions_length]

/-- Non-vacuity: `{"a,":[1]}` — the comma inside the key is not listed. -/
example :
    let d : Doc := ⟨[], .obj [] [.plain ⟨0x61#8, by decide⟩, .plain ⟨0x2C#8, by decide⟩] [] []
      (.arr [] (.num ⟨false, .nonzero 0 [], none, none⟩) [] .nil) [] .nil, []⟩
    d.text = [0x7B, 0x22, 0x61, 0x2C, 0x22, 0x3A, 0x5B, 0x31, 0x5D, 0x7D] ∧
    truePositions (toksTags d.toks) = [0, 5, 6, 8, 9] := by decide

/-- `structural_index` and `structural_pos` are mutually inverse on every document (indeed on every
byte string): the `k`-th structural position maps back to ordinal `k`, a position with an ordinal is
the position of that ordinal, and a position has an ordinal exactly when it holds a structural
token (`{ } [ ] , :` outside strings). -/
theorem index_pos_inverse (hasAvx2 : Bool) (d : Doc) :
    (∀ k p, structuralPos (build hasAvx2 d.text) k = some p →
      structuralIndex (build hasAvx2 d.text) p = some k) ∧
    (∀ p k, structuralIndex (build hasAvx2 d.text) p = some k →
      structuralPos (build hasAvx2 d.text) k = some p) ∧
    (∀ p, (structuralIndex (build hasAvx2 d.text) p).isSome = (toksTags d.toks).getD p false) := by
  have hib : (JsonSemi.sreference d.text).ib = toksTags d.toks := (sreference_toks d.toks).1
  refine ⟨?_, ?_, ?_⟩
  · intro k p h
    rw [structuralPos_build] at h
    obtain ⟨h1, h2⟩ := selectB_spec _ k p h
    rw [structuralIndex_build, h1, h2]; rfl
  · intro p k h
    rw [structuralIndex_build] at h
    by_cases hb : (JsonSemi.sreference d.text).ib.getD p false = true
    · rw [hb] at h
      simp only [if_true, Option.some.injEq] at h
      rw [structuralPos_build, ← h]; exact selectB_rankB _ p hb
    · have hb' : (JsonSemi.sreference d.text).ib.getD p false = false := by simpa using hb
      rw [hb'] at h; simp at h
  · intro p
    rw [structuralIndex_build, hib]
    cases (toksTags d.toks).getD p false <;> rfl

example :
    let d : Doc := ⟨[], .arr [] (.lit .tru) [] .nil, []⟩
    structuralIndex (build true d.text) 5 = some 1 ∧ structuralPos (build true d.text) 1 = some 5 := by
  decide +kernel

end SV.Props.C32
