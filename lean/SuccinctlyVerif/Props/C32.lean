/-
Props/C32 — Simple-cursor JSON index navigates valid documents exactly.
-/
import SuccinctlyVerif.Model.JsonSimple
namespace SV.Props.C32
open SV SV.JsonSimple

/-- placeholder while model and correspondence are brought up -/
theorem placeholder : structuralCount ⟨[], 0, [], 0⟩ = 0 := rfl

end SV.Props.C32
