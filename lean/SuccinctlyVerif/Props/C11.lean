/-
Props/C11 — jq output of a JSON document reads back to the same value.
Property theorems only; helper lemmas live in Proof/JqOutput.lean.
-/
import SuccinctlyVerif.Proof.JqOutput
namespace SV.Props.C11
open SV SV.JqOut

/-- Framing of one result on stdout: optional RS prefix (`--seq`), the payload (the raw string
under `-r`/`-j`/`--raw-output0` for a string result, the JSON text otherwise), then the terminator
(NUL for `--raw-output0`, nothing for `-j`, newline otherwise). -/
theorem print_framing (o : Opts) (r : Route) (fmt : Bytes → Bytes) (v : V) :
    ∃ payload, print o r fmt v = o.pre ++ payload ++ o.term ∧
      (payload = body o r fmt v ∨ (o.rawOut = true ∧ ∃ s, v = .str s ∧ payload = rawBody s.cs)) := by
  unfold print
  split
  · next s h => exact ⟨_, rfl, Or.inr ⟨h, s, rfl, rfl⟩⟩
  · exact ⟨_, rfl, Or.inl rfl⟩

example : print { seq := true, compact := true } .mat id (.arr [.null]) = [0x1e, 0x5b, 0x6e, 0x75, 0x6c, 0x6c, 0x5d, 0x0a] := by
  decide

end SV.Props.C11
