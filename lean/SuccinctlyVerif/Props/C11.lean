/-
Props/C11 — jq output of a JSON document reads back to the same value.
Property theorems only; helper lemmas live in Proof/JqOutput.lean.
-/
import SuccinctlyVerif.Proof.JqOutput
namespace SV.Props.C11
open SV SV.JqOut

/-- Framing of one result on stdout: optional RS prefix (`--seq`), the payload (the raw string
under `-r`/`-j`/`--raw-output0` for a string result, the JSON text otherwise), then the terminator
(NUL for `--raw-output0`, nothing for `-j`, newline otherwise). -/
theorem print_framing (o : Opts) (r : Route) (fmt : Bytes → Bytes) (v : V) :
    ∃ payload, print o r fmt v = o.pre ++ payload ++ o.term ∧
      (payload = body o r fmt v ∨ (o.rawOut = true ∧ ∃ s, v = .str s ∧ payload = rawBody s.cs)) := by
  unfold print
  split
  · next s h => exact ⟨_, rfl, Or.inr ⟨h, s, rfl, rfl⟩⟩
  · exact ⟨_, rfl, Or.inl rfl⟩

/-- `print_read`. For every value, every option set and every printing route, the reference
RFC 8259 reader (any whitespace in gaps, strict strings, duplicates kept) applied to the JSON text
the printer writes returns `canon o r fmt v`: the value after the route's preparation (duplicate keys
collapsed — first position, last value — unless `--preserve-input` on the cursor route; keys sorted
iff `-S`), with number tokens re-spelled by the route's `fmt` and spelling bits forgotten.
Hypotheses: `fmt` maps RFC 8259 number tokens to RFC 8259 number tokens (that it preserves the
*value* is property C10's theorem; the driver checks "same double" on every number of every
request), and `v` is well-formed (`V.wf`: number literals are in the RFC 8259 grammar and a string
marked "no backslash in the source span" holds no character JSON must escape — what a reader of
valid JSON produces; the driver checks it on every document). Trailing whitespace / the newline
terminator is covered by `w`. -/
theorem print_read (o : Opts) (r : Route) (fmt : Bytes → Bytes)
    (hfmt : ∀ l, validNum l = true → validNum (fmt l) = true)
    (v : V) (hv : v.wf = true) (w : Bytes) (hw : w.all isWs = true) :
    read (body o r fmt v ++ w) = .ok (canon o r fmt v) := by
  unfold body canon
  apply read_render
  · -- the indent unit is whitespace for every option set
    have hu : o.unit.all isWs = true := by
      unfold Opts.unit
      split
      · decide
      · split
        · exact spaces_ws _
        · split <;> decide
    cases r <;> simpa [Opts.cfg] using hu
  · intro l hl
    cases r <;> simp only [Opts.cfg] <;> first | exact hfmt l hl | (split <;> first | exact hl | exact hfmt l hl)
  · exact wf_prep o r v hv
  · exact hw

/-- `print_read_value`: the value read back is the route's prepared value itself — same structure,
identical strings and keys — with number tokens related by whatever relation `R` the number
re-spelling guarantees (`R (fmt l) l` for RFC 8259 tokens `l`; for "denote the same double" this is
property C10's theorem about `format_number_jq_compat`, taken here as the hypothesis `hR`; under
`--preserve-input` on the lazy routes `fmt` is the identity and only reflexivity of `R` is used). -/
theorem print_read_value (R : Bytes → Bytes → Prop) (o : Opts) (r : Route) (fmt : Bytes → Bytes)
    (hfmt : ∀ l, validNum l = true → validNum (fmt l) = true)
    (hR : ∀ l, validNum l = true → R (fmt l) l) (hrefl : ∀ l, R l l)
    (v : V) (hv : v.wf = true) (w : Bytes) (hw : w.all isWs = true) :
    ∃ u, read (body o r fmt v ++ w) = .ok u ∧ SameUpTo R u (o.prep r v) := by
  refine ⟨_, print_read o r fmt hfmt v hv w hw, ?_⟩
  unfold canon
  apply sameUpTo_norm_mapNum
  · intro l hl
    cases r <;> simp only [Opts.cfg] <;> first | exact hR l hl | (split <;> first | exact hrefl l | exact hR l hl)
  · exact wf_prep o r v hv

/-- the output as framed on stdout (newline terminator) reads back: `print` for the default framing -/
theorem print_read_line (o : Opts) (r : Route) (fmt : Bytes → Bytes)
    (hfmt : ∀ l, validNum l = true → validNum (fmt l) = true)
    (v : V) (hv : v.wf = true) :
    read (body o r fmt v ++ [0x0a]) = .ok (canon o r fmt v) :=
  print_read o r fmt hfmt v hv [0x0a] (by decide)

/-- `print_fast_read`: the identity fast path echoes the input span and a newline; whatever the
span reads as, the output reads as — for **every** span (reader locality and fuel monotonicity,
`p_local`). Also with the spelling-keeping reader the driver uses for inputs. -/
theorem print_fast_read (span : Bytes) (v : V) (h : read span = .ok v) : read (printFast span) = .ok v :=
  readWith_append_ws false span [0x0a] (by decide) v h

/-- any whitespace after a JSON text is insignificant to the reference reader -/
theorem read_trailing_ws (keep : Bool) (s w : Bytes) (hw : w.all isWs = true) (v : V)
    (h : readWith keep s = .ok v) : readWith keep (s ++ w) = .ok v :=
  readWith_append_ws keep s w hw v h

/-- `input_wf`: the reader of input documents only produces well-formed values (number tokens in
the RFC 8259 grammar; a string marked "no backslash in the span" holds no character that JSON
must escape), so `print_read` applies to every input the CLI accepts. -/
theorem input_wf (t : Bytes) (v : V) (h : readSrc t = .ok v) : v.wf = true := readSrc_wf t v h

/-- `input_print_read`: for every input text `t` the reader accepts, every option set and every
route: the printed result reads back as the canonical value of what `t` denotes. -/
theorem input_print_read (o : Opts) (r : Route) (fmt : Bytes → Bytes)
    (hfmt : ∀ l, validNum l = true → validNum (fmt l) = true)
    (t : Bytes) (v : V) (ht : readSrc t = .ok v) (w : Bytes) (hw : w.all isWs = true) :
    read (body o r fmt v ++ w) = .ok (canon o r fmt v) :=
  print_read o r fmt hfmt v (readSrc_wf t v ht) w hw

/-- non-vacuity: a span with insignificant whitespace reads, so the echoed output reads as the same value -/
example : (match read (printFast "{ \"a\" : [1 , 2] }".toUTF8.toList) with
    | .ok w => some (render { compact := true, unit := [], ascii := true, fmt := id } 0 w)
    | .error _ => none) = some "{\"a\":[1,2]}".toUTF8.toList := by
  decide +kernel

/-- non-vacuity: an object with a duplicate key, an escape and a number, pretty-printed with tabs -/
example :
    let v : V := .obj [(⟨['a'], false⟩, .num [0x31]), (⟨['b', '\n'], true⟩, .arr [.null]), (⟨['a'], false⟩, .bool true)]
    let show' : V → Bytes := render { compact := true, unit := [], ascii := true, fmt := id } 0
    (match read (body { tab := true } .cursor id v) with
      | .ok w => some (show' w)
      | .error _ => none) = some (show' (canon { tab := true } .cursor id v)) := by
  decide +kernel

/-- `collapse_spec`: jq's duplicate-key rule as implemented by `collapse_repeated` /
`collapse_duplicate_fields` — *first position, last value*: the collapsed object's keys are the
distinct keys of the input in order of first occurrence, no key repeats, and looking a key up
yields the **last** field of the input with that key (its value and its spelling). -/
theorem collapse_spec (fs : List (Str × V)) :
    keysOf (collapse fs) = firstOcc (keysOf fs) ∧ (keysOf (collapse fs)).Nodup ∧
      ∀ q, findField q (collapse fs) = lastField q fs := by
  refine ⟨?_, nodup_collapseInto fs [] (by simp [keysOf]), ?_⟩
  · have := keys_collapseInto fs []
    have e : keysOf ([] : List (Str × V)) = [] := rfl
    rw [e] at this
    simp only [List.nil_append, List.not_mem_nil, not_false_eq_true, decide_true] at this
    have ft : ∀ l : List Key, l.filter (fun _ => true) = l := by
      intro l; induction l with
      | nil => rfl
      | cons a l ih => simp [List.filter, ih]
    rw [ft] at this
    exact this
  · intro q
    have := findField_collapseInto fs [] q
    simp only [collapse, this, findField]
    cases lastField q fs <;> rfl

/-- non-vacuity: `{"a":1,"b":2,"a":3}` collapses to `{"a":3,"b":2}` -/
example :
    (collapse [(⟨['a'], false⟩, .num [0x31]), (⟨['b'], false⟩, .num [0x32]), (⟨['a'], true⟩, .num [0x33])]).map
        (fun f => (f.1.cs, f.1.esc, render { compact := true, unit := [], ascii := false, fmt := id } 0 f.2))
      = [(['a'], true, [0x33]), (['b'], false, [0x32])] := by
  decide

/-- `sorted_keys`: with `-S` (which always selects the materialised route: `Opts.lazy` is false)
every object of the printed value has strictly increasing keys in the order `String::cmp` uses —
lexicographic by UTF-8 bytes, i.e. by Unicode scalar value (`keyLt`), which is jq's order too; strict
because duplicate keys were collapsed first. Together with `print_read` the *text* has its keys in
that order. -/
theorem sorted_keys (o : Opts) (v : V) (hs : o.sortKeys = true) :
    o.lazy = false ∧ SortedV (o.prep .mat v) := by
  refine ⟨by simp [Opts.lazy, hs], ?_⟩
  simp only [Opts.prep, hs, ↓reduceIte]
  exact sorted_sortDeep _ (nodup_owned _ (nodup_collapseDeep v))

/-- non-vacuity: `{"b":1,"é":2,"a":3,"b":{"z":0,"y":0}}` under `-S -c` -/
example :
    body { sortKeys := true, compact := true } .mat id
      (.obj [(⟨['b'], false⟩, .num [0x31]), (⟨['é'], false⟩, .num [0x32]), (⟨['a'], false⟩, .num [0x33]),
             (⟨['b'], false⟩, .obj [(⟨['z'], false⟩, .num [0x30]), (⟨['y'], false⟩, .num [0x30])])])
      = "{\"a\":3,\"b\":{\"y\":0,\"z\":0},\"é\":2}".toUTF8.toList := by
  decide +kernel

/-- `ascii_only`: with `-a` (which always selects the materialised route: `Opts.lazy` is false)
every byte of the JSON text is below 0x80, provided the number re-spelling writes ASCII. -/
theorem ascii_only (o : Opts) (fmt : Bytes → Bytes) (hfmt : ∀ l, asciiB (fmt l) = true) (v : V)
    (ha : o.ascii = true) :
    o.lazy = false ∧ ∀ b ∈ body o .mat fmt v, b.toNat < 0x80 := by
  refine ⟨by simp [Opts.lazy, ha], ?_⟩
  have hu : asciiB o.unit = true := by
    apply ws_ascii
    unfold Opts.unit
    split
    · decide
    · split
      · exact spaces_ws _
      · split <;> decide
  have := render_ascii (o.cfg .mat fmt) (by simp [Opts.cfg, ha]) (by simpa [Opts.cfg] using hu)
    (by simpa [Opts.cfg] using hfmt) (o.prep .mat v) 0
  intro b hb
  simp only [asciiB, List.all_eq_true, decide_eq_true_eq] at this
  exact this b hb

/-- non-vacuity: U+00E9 and U+1F600 under `-a` -/
example : body { ascii := true, compact := true } .mat id (.str ⟨['é', '😀'], false⟩)
    = [0x22, 0x5c, 0x75, 0x30, 0x30, 0x65, 0x39, 0x5c, 0x75, 0x64, 0x38, 0x33, 0x64, 0x5c, 0x75, 0x64, 0x65, 0x30, 0x30, 0x22] := by
  decide

example : print { seq := true, compact := true } .mat id (.arr [.null]) = [0x1e, 0x5b, 0x6e, 0x75, 0x6c, 0x6c, 0x5d, 0x0a] := by
  decide

end SV.Props.C11
