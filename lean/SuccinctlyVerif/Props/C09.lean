/-
Props/C09 — JSON string escaping round-trips and escapes exactly the required set.
Property theorems only; helpers in Proof/Chunked.lean (generic chunked scan) and Proof/Escape.lean.
-/
import SuccinctlyVerif.Proof.Escape
namespace SV.Props.C09
open SV SV.Escape

/-- `scanner_eq`, SSE2 tier (`dispatch(.., false)`, and `find` on hosts without AVX2): for every byte
string and every start offset the result is the first index `≥ start` holding `"`, `\` or a byte
`< 0x20`, else `len`. -/
theorem scanner_eq_sse2 (bytes : List (BitVec 8)) (start : Nat) :
    findWith sse2Scan bytes start = firstEscapeSpec bytes start :=
  findWith_eq sse2Scan sse2Scan_eq bytes start

/-- `scanner_eq`, AVX2 tier (32-byte loop + one 16-byte step + scalar tail; `find_json_escape` on
AVX2 hosts). -/
theorem scanner_eq_avx2 (bytes : List (BitVec 8)) (start : Nat) :
    findWith avx2Scan bytes start = firstEscapeSpec bytes start :=
  findWith_eq avx2Scan avx2Scan_eq bytes start

example : findWith avx2Scan ((List.replicate 40 0x61#8) ++ [0x22#8]) 3 = 40 := by decide

/-- `escaped_iff_required`, jq convention: a character is written raw exactly when it is not a C0
control, DEL, `"` or `\`. -/
theorem escaped_iff_required_jq (c : Nat) :
    jqChar c = [c] ↔ ¬ (c < 0x20 ∨ c = 0x7F ∨ c = 34 ∨ c = 92) := jqChar_raw_iff c

/-- jq `--ascii-output`: additionally every non-ASCII character is escaped; nothing else. -/
theorem escaped_iff_required_jq_ascii (c : Nat) :
    jqAsciiChar c = [c] ↔ ¬ (c < 0x20 ∨ c = 0x7F ∨ c = 34 ∨ c = 92 ∨ 0x80 ≤ c) := jqAsciiChar_raw_iff c

/-- yq ASCII mode: C0, `"`, `\` and every non-ASCII character are escaped; DEL is raw. -/
theorem escaped_iff_required_yq_ascii (c : Nat) :
    yqAsciiChar c = [c] ↔ ¬ (c < 0x20 ∨ c = 34 ∨ c = 92 ∨ 0x80 ≤ c) := yqAsciiChar_raw_iff c

example : jqChar 0x7F = [92, 117, 48, 48, 55, 102] := by decide

/-- Round trip, PARTIAL: every ASCII character decodes back from each char-level writer's output
(RFC 8259 §7 decoder).  MISSING: the same for non-ASCII scalar values (`\uXXXX` / surrogate-pair hex
arithmetic), the lift to whole strings by induction, and the byte-level yq span-copy writer
(`writeYq`); these are cross-checked against `decode` on every correspondence request (all 1.1 M
scalar values in the thorough tier) but not proved. -/
theorem roundtrip_partial : ∀ c : Fin 128,
    decode (jqChar c.val) = some [c.val] ∧ decode (jqAsciiChar c.val) = some [c.val] ∧
    decode (yqAsciiChar c.val) = some [c.val] := ascii_roundtrip

example : decode (writeJqAscii [0x1F600]) = some [0x1F600] := by decide

end SV.Props.C09
