/-
Props/C09 — JSON string escaping round-trips and escapes exactly the required set.
Property theorems only; helpers in Proof/Chunked.lean (generic chunked scan), Proof/Escape.lean,
Proof/EscapeRoundTrip.lean and Proof/EscapeYq.lean.  Strings are lists of Unicode scalar values;
`decode` is the RFC 8259 §7 string-body decoder of Model/Escape.lean.
-/
import SuccinctlyVerif.Proof.EscapeYq
import SuccinctlyVerif.Generated.C09
namespace SV.Props.C09
open SV SV.Utf8 SV.Escape

/-! ### the escape scanner -/

/-- `scanner_eq`, scalar tier: first index `≥ start` holding `"`, `\` or a byte `< 0x20`, else
`len`; the slice `bytes[start..]` panics exactly for `start > len`. -/
theorem scanner_eq_scalar (bytes : List (BitVec 8)) (start : Nat) :
    scalarFind bytes start = if start > bytes.length then none else some (firstEscapeSpec bytes start) :=
  scalarFind_eq bytes start

/-- `scanner_eq`, SSE2 tier (`dispatch(.., false)`, and `find` on hosts without AVX2): for every byte
string and every start offset the result is the first index `≥ start` holding `"`, `\` or a byte
`< 0x20`, else `len`. -/
theorem scanner_eq_sse2 (bytes : List (BitVec 8)) (start : Nat) :
    findWith sse2Scan bytes start = firstEscapeSpec bytes start :=
  findWith_eq sse2Scan sse2Scan_eq bytes start

/-- `scanner_eq`, AVX2 tier (32-byte loop + one 16-byte step + scalar tail; `find_json_escape` on
AVX2 hosts). -/
theorem scanner_eq_avx2 (bytes : List (BitVec 8)) (start : Nat) :
    findWith avx2Scan bytes start = firstEscapeSpec bytes start :=
  findWith_eq avx2Scan avx2Scan_eq bytes start

example : findWith avx2Scan ((List.replicate 40 0x61#8) ++ [0x22#8]) 3 = 40 := by decide

/-! ### escaped exactly when required -/

/-- jq convention: a character is written raw exactly when it is not a C0 control, DEL, `"` or `\`. -/
theorem escaped_iff_required_jq (c : Nat) :
    jqChar c = [c] ↔ ¬ (c < 0x20 ∨ c = 0x7F ∨ c = 34 ∨ c = 92) := jqChar_raw_iff c

/-- jq `--ascii-output`: additionally every non-ASCII character is escaped; nothing else. -/
theorem escaped_iff_required_jq_ascii (c : Nat) :
    jqAsciiChar c = [c] ↔ ¬ (c < 0x20 ∨ c = 0x7F ∨ c = 34 ∨ c = 92 ∨ 0x80 ≤ c) := jqAsciiChar_raw_iff c

/-- yq ASCII mode: C0, `"`, `\` and every non-ASCII character are escaped; DEL is raw. -/
theorem escaped_iff_required_yq_ascii (c : Nat) :
    yqAsciiChar c = [c] ↔ ¬ (c < 0x20 ∨ c = 34 ∨ c = 92 ∨ 0x80 ≤ c) := yqAsciiChar_raw_iff c

/-- yq convention: exactly C0, `"` and `\` are escaped (DEL and all non-ASCII raw). -/
theorem escaped_iff_required_yq (c : Nat) :
    yqChar c = [c] ↔ ¬ (c < 0x20 ∨ c = 34 ∨ c = 92) := by
  unfold yqChar shortU
  repeat' split
  all_goals simp_all
  all_goals omega

/-- The ASCII writers emit ASCII only. -/
theorem ascii_writers_emit_ascii (c : Nat) (hs : isScalar c = true) :
    (∀ x ∈ jqAsciiChar c, x < 0x80) ∧ (∀ x ∈ yqAsciiChar c, x < 0x80) :=
  ascii_output c hs

example : jqChar 0x7F = [92, 117, 48, 48, 55, 102] := by decide

/-- `conventions_differ_exactly_at`: the jq and yq conventions (and their ASCII variants) write a
character differently exactly at U+0008, U+000C and U+007F. -/
theorem conventions_differ_exactly_at (c : Nat) :
    (jqChar c ≠ yqChar c ↔ (c = 8 ∨ c = 12 ∨ c = 0x7F)) ∧
    (jqAsciiChar c ≠ yqAsciiChar c ↔ (c = 8 ∨ c = 12 ∨ c = 0x7F)) :=
  ⟨jq_yq_differ c, jq_yq_ascii_differ c⟩

/-! ### the byte-level yq writer -/

/-- `write_json_body_yq` — SIMD escape scan over the UTF-8 bytes, span copy between hits — writes,
character by character, exactly the yq convention `yqChar`, for every string. -/
theorem yq_writer_eq (s : List Nat) (hs : ∀ c ∈ s, isScalar c = true) :
    writeYq s = encodeAll (s.flatMap yqChar) := writeYq_eq s hs

/-- `yq_writer_slices_on_char_boundaries`: in well-formed UTF-8 the scanner can only stop on a
character boundary (a hit is an ASCII byte, which the Table 3-7 automaton accepts only on a
boundary), so the span `s[i..escape_pos]` the writer copies never splits a character. -/
theorem yq_writer_slices_on_char_boundaries (bytes : List (BitVec 8)) (hwf : WellFormed bytes)
    (start : Nat) : WellFormed (bytes.take (firstEscapeSpec bytes start)) :=
  hit_on_boundary bytes hwf start

/-! ### round trip -/

/-- Every string decodes back from the jq-convention body. -/
theorem roundtrip_jq (s : List Nat) (hs : ∀ c ∈ s, isScalar c = true) : decode (writeJq s) = some s :=
  decode_flatMap jqChar jqChar_decodable jqChar_ne_nil s hs

/-- … from the jq `--ascii-output` body (`\uXXXX`, surrogate pairs for supplementary characters). -/
theorem roundtrip_jq_ascii (s : List Nat) (hs : ∀ c ∈ s, isScalar c = true) :
    decode (writeJqAscii s) = some s :=
  decode_flatMap jqAsciiChar jqAsciiChar_decodable (fun c => jqAsciiChar_ne_nil c) s hs

/-- … from the yq ASCII body. -/
theorem roundtrip_yq_ascii (s : List Nat) (hs : ∀ c ∈ s, isScalar c = true) :
    decode (writeYqAscii s) = some s :=
  decode_flatMap yqAsciiChar yqAsciiChar_decodable (fun c => yqAsciiChar_ne_nil c) s hs

/-- … and from the yq body: the bytes `write_json_body_yq` produces are the UTF-8 encoding of a body
that decodes back to the string. -/
theorem roundtrip_yq (s : List Nat) (hs : ∀ c ∈ s, isScalar c = true) :
    ∃ body, writeYq s = encodeAll body ∧ decode body = some s :=
  ⟨s.flatMap yqChar, writeYq_eq s hs,
    decode_flatMap yqChar yqChar_decodable yqChar_ne_nil s hs⟩

example : decode (writeJqAscii [0x1F600, 0x22, 0x8]) = some [0x1F600, 0x22, 0x8] := by decide

/-- The lane DAGs of `json_avx2_mask` and `json_sse2_mask`, regenerated from
`src/util/simd/escape.rs` on this run (Generated/C09.lean), compute for all 256 byte values the lane
value of the hand-written `jsonMaskLane` the scanner theorems are about. -/
theorem lanes_generated_eq :
    (∀ c : BitVec 8, Gen.json_avx2_mask_ret_lane c = jsonMaskLane c) ∧
    (∀ c : BitVec 8, Gen.json_sse2_mask_ret_lane c = jsonMaskLane c) := by
  constructor <;> decide

example : Gen.json_avx2_mask_ret 0x1F#8 = true ∧ Gen.json_avx2_mask_ret 0x20#8 = false := by decide

end SV.Props.C09
