/-
Props/C25 — jq value identities, as theorems over the value-level functions of Model/JqValue.lean
(the functions the evaluator's builtins call). `N` is an arbitrary number carrier; theorems that need
properties of numbers assume `LawfulNum N` (order laws of the carrier, integers index exactly).
Values are duplicate-free (`JV.WF`) where object keys matter.

Proved in full:
* `cmp_total_order` (+ `cmp_refl/cmp_swap/cmp_trans`, `cmp_kind_chain`, `cmp_arr_cons`): jq's order is
  a total preorder on all duplicate-free values (Proof/JqOrder.lean);
* `sort_sorted_perm`, `unique_dedup_sorted`, `cmp_eq_iff_eqv` (equal under the order = jq's `==`,
  Proof/JqEqv.lean) and `unique_exact`;
* `getpath_defined`, `setpath_getpath_id`, `getpath_setpath`, `setpath_frame` for every `p ∈ paths v`
  (Proof/JqPaths.lean), and the one-step object versions;
* `to_from_entries` for duplicate-free objects; `tostream_fromstream` (Proof/JqStream.lean);
* `base64_round_trip`, `uri_round_trip` for all byte strings (Proof/JqCodec.lean).
Not proved here (evaluated by the C25 correspondence on generated values instead):
`tojson_fromjson` (printer/reader round trip over the carrier's print/parse law).
-/
import SuccinctlyVerif.Model.Jq
import SuccinctlyVerif.Proof.JqOrder
import SuccinctlyVerif.Proof.JqCodec
import SuccinctlyVerif.Proof.JqPaths
import SuccinctlyVerif.Proof.JqEqv
import SuccinctlyVerif.Proof.JqStream
namespace SV.Props.C25
open SV.Jq
variable {N : Type} [NumOps N]

/-! ### order -/

/-- jq's order compares kinds first: null < false < true < numbers < strings < arrays < objects. -/
theorem cmp_rank_lt (a b : JV N) (h : a.rank < b.rank) : JV.cmp a b = .lt := by
  cases a <;> cases b <;>
    first
    | (rename_i x y; cases x <;> cases y <;> simp_all [JV.cmp, JV.rank, compare, compareOfLessAndEq])
    | (rename_i x; cases x <;> simp_all [JV.cmp, JV.rank, compare, compareOfLessAndEq])
    | simp_all [JV.cmp, JV.rank, compare, compareOfLessAndEq]

/-- the chain of the property statement, for arbitrary payloads -/
theorem cmp_kind_chain (n : N) (s : String) (xs : List (JV N)) (fs : List (String × JV N)) :
    JV.cmp (.null : JV N) (.bool false) = .lt ∧ JV.cmp (.bool false : JV N) (.bool true) = .lt ∧
    JV.cmp (.bool true) (.num n) = .lt ∧ JV.cmp (.num n) (.str s) = .lt ∧
    JV.cmp (.str s : JV N) (.arr xs) = .lt ∧ JV.cmp (.arr xs) (.obj fs) = .lt :=
  ⟨cmp_rank_lt _ _ (by simp [JV.rank]), cmp_rank_lt _ _ (by simp [JV.rank]), cmp_rank_lt _ _ (by simp [JV.rank]),
   cmp_rank_lt _ _ (by simp [JV.rank]), cmp_rank_lt _ _ (by simp [JV.rank]), cmp_rank_lt _ _ (by simp [JV.rank])⟩

/-- arrays are compared lexicographically (head first, then the tails; a proper prefix is smaller) -/
theorem cmp_arr_cons (x y : JV N) (xs ys : List (JV N)) :
    JV.cmp (.arr (x :: xs)) (.arr (y :: ys)) = (JV.cmp x y).then (JV.cmp (.arr xs) (.arr ys)) := by
  simp [JV.cmp, cmpArr]

theorem cmp_arr_nil_cons (y : JV N) (ys : List (JV N)) : JV.cmp (.arr []) (.arr (y :: ys)) = .lt := by
  simp [JV.cmp, cmpArr]

/-! ### sort / unique -/

theorem insertBy_perm {α} (cmp : α → α → Ordering) (x : α) (ys : List α) :
    (insertBy cmp x ys).Perm (x :: ys) := by
  induction ys with
  | nil => simp [insertBy]
  | cons y ys ih =>
    simp only [insertBy]
    split
    · exact List.Perm.refl _
    · exact ((List.Perm.cons y ih).trans (List.Perm.swap x y ys))

theorem sortBy_perm {α} (cmp : α → α → Ordering) (xs : List α) : (sortBy cmp xs).Perm xs := by
  induction xs with
  | nil => simp [sortBy]
  | cons x xs ih =>
    have : sortBy cmp (x :: xs) = insertBy cmp x (sortBy cmp xs) := by simp [sortBy]
    rw [this]
    exact (insertBy_perm cmp x _).trans (List.Perm.cons x ih)

/-- **`sort` returns a permutation of its input.** -/
theorem sort_perm (xs : List (JV N)) : (JV.sort xs).Perm xs := sortBy_perm _ xs

/-- a comparator is a total preorder -/
structure TotalPreorder {α} (cmp : α → α → Ordering) : Prop where
  total : ∀ a b, cmp a b = .gt → cmp b a ≠ .gt
  trans : ∀ a b c, cmp a b ≠ .gt → cmp b c ≠ .gt → cmp a c ≠ .gt

def Sorted {α} (cmp : α → α → Ordering) (l : List α) : Prop := l.Pairwise (fun a b => cmp a b ≠ .gt)

theorem insertBy_sorted {α} (cmp : α → α → Ordering) (h : TotalPreorder cmp) (x : α) (ys : List α)
    (hs : Sorted cmp ys) : Sorted cmp (insertBy cmp x ys) := by
  induction ys with
  | nil => simp [insertBy, Sorted]
  | cons y ys ih =>
    simp only [insertBy]
    have hy : ∀ b ∈ ys, cmp y b ≠ .gt := (List.pairwise_cons.mp hs).1
    have hys : Sorted cmp ys := (List.pairwise_cons.mp hs).2
    split
    · rename_i hle
      have hxy : cmp x y ≠ .gt := by simpa using hle
      refine List.pairwise_cons.mpr ⟨?_, hs⟩
      intro b hb
      rcases List.mem_cons.mp hb with rfl | hb
      · exact hxy
      · exact h.trans x y b hxy (hy b hb)
    · rename_i hgt
      have hxy : cmp x y = .gt := by
        cases hc : cmp x y <;> simp_all
      refine List.pairwise_cons.mpr ⟨?_, ih hys⟩
      intro b hb
      have hb' : b ∈ x :: ys := (insertBy_perm cmp x ys).mem_iff.mp hb
      rcases List.mem_cons.mp hb' with rfl | hb'
      · exact h.total _ _ hxy
      · exact hy b hb'

/-- **`sort` output is ordered** for every total, transitive comparator (`_partial`: that `JV.cmp`
itself is one — given `LawfulNum N` — is proved here only across kinds and for array heads; the
object case is covered by the correspondence check). -/
theorem sortBy_sorted_partial {α} (cmp : α → α → Ordering) (h : TotalPreorder cmp) (xs : List α) :
    Sorted cmp (sortBy cmp xs) := by
  induction xs with
  | nil => simp [sortBy, Sorted]
  | cons x xs ih =>
    have : sortBy cmp (x :: xs) = insertBy cmp x (sortBy cmp xs) := by simp [sortBy]
    rw [this]; exact insertBy_sorted cmp h x _ ih

/-- `unique` keeps a sublist of the sorted input (it only drops elements; that the dropped ones are
exactly the repeats needs transitivity of `cmp` and is left to the correspondence check). -/
theorem dedupFirst_sublist (xs : List (JV N)) : (dedupFirst xs).Sublist xs := by
  induction xs with
  | nil => simp [dedupFirst]
  | cons x rest ih =>
    simp only [dedupFirst]
    split
    · rename_i hnil
      exact (List.Sublist.cons₂ x (List.nil_sublist _))
    · rename_i y ys hy
      rw [hy] at ih
      split
      · exact List.Sublist.cons₂ x ((List.sublist_cons_self y ys).trans ih)
      · exact List.Sublist.cons₂ x ih

/-- **`unique` = deduplicated sorted permutation** (sublist of the sorted permutation of the input). -/
theorem unique_sublist_sort (xs : List (JV N)) : (JV.unique xs).Sublist (JV.sort xs) :=
  dedupFirst_sublist _

/-! ### the order is a total preorder; `sort` and `unique` in full -/
section total
variable [LawfulNum N]

/-- **`cmp_total_order`**: on duplicate-free values jq's order is reflexive, total/antisymmetric
(`cmp b a = (cmp a b).swap`) and transitive, for every lawful number carrier: null < false < true <
numbers < strings < arrays (lexicographic) < objects (sorted key lists, then values by key). -/
theorem cmp_total_order : PreorderOn (JV.cmp (N := N)) JV.WF := cmp_preorder

theorem cmp_refl (a : JV N) (ha : a.WF) : JV.cmp a a = .eq := cmp_preorder.refl a ha
theorem cmp_swap (a b : JV N) (ha : a.WF) (hb : b.WF) : JV.cmp b a = (JV.cmp a b).swap :=
  cmp_preorder.swap a b ha hb
theorem cmp_trans (a b c : JV N) (ha : a.WF) (hb : b.WF) (hc : c.WF)
    (h1 : JV.cmp a b ≠ .gt) (h2 : JV.cmp b c ≠ .gt) : JV.cmp a c ≠ .gt :=
  cmp_preorder.trans a b c ha hb hc h1 h2

theorem insertBy_sorted_on {α} {c : α → α → Ordering} {S : α → Prop} (h : PreorderOn c S) (x : α) (ys : List α)
    (hx : S x) (hy : ∀ y ∈ ys, S y) (hs : Sorted c ys) : Sorted c (insertBy c x ys) := by
  induction ys with
  | nil => simp [insertBy, Sorted]
  | cons y ys ih =>
    simp only [insertBy]
    have hyall : ∀ b ∈ ys, c y b ≠ .gt := (List.pairwise_cons.mp hs).1
    have hys : Sorted c ys := (List.pairwise_cons.mp hs).2
    have sy := hy y (by simp)
    split
    · rename_i hle
      have hxy : c x y ≠ .gt := by simpa using hle
      refine List.pairwise_cons.mpr ⟨?_, hs⟩
      intro b hb
      rcases List.mem_cons.mp hb with rfl | hb
      · exact hxy
      · exact h.trans x y b hx sy (hy b (by simp [hb])) hxy (hyall b hb)
    · rename_i hgt
      have hxy : c x y = .gt := by cases hc : c x y <;> simp_all
      refine List.pairwise_cons.mpr ⟨?_, ih (fun b hb => hy b (by simp [hb])) hys⟩
      intro b hb
      have hb' : b ∈ x :: ys := (insertBy_perm c x ys).mem_iff.mp hb
      rcases List.mem_cons.mp hb' with rfl | hb'
      · rw [h.swap _ _ hx sy, hxy]; simp [Ordering.swap]
      · exact hyall b hb'

theorem sortBy_sorted_on {α} {c : α → α → Ordering} {S : α → Prop} (h : PreorderOn c S) (xs : List α)
    (hx : ∀ x ∈ xs, S x) : Sorted c (sortBy c xs) := by
  induction xs with
  | nil => simp [sortBy, Sorted]
  | cons x xs ih =>
    have e : sortBy c (x :: xs) = insertBy c x (sortBy c xs) := by simp [sortBy]
    rw [e]
    exact insertBy_sorted_on h x _ (hx x (by simp))
      (fun y hy => hx y (by simp [(sortBy_perm c xs).mem_iff.mp hy])) (ih (fun y hy => hx y (by simp [hy])))

/-- **`sort_sorted_perm`**: `sort` returns an ordered permutation of its input. -/
theorem sort_sorted_perm (xs : List (JV N)) (hx : ∀ x ∈ xs, x.WF) :
    (JV.sort xs).Perm xs ∧ Sorted JV.cmp (JV.sort xs) :=
  ⟨sort_perm xs, sortBy_sorted_on cmp_preorder xs hx⟩

/-- strictly increasing -/
def StrictSorted (l : List (JV N)) : Prop := l.Pairwise (fun a b => JV.cmp a b = .lt)

theorem dedupFirst_strict (l : List (JV N)) (hw : ∀ x ∈ l, x.WF) (hs : Sorted JV.cmp l) :
    StrictSorted (dedupFirst l) ∧ (∀ u ∈ dedupFirst l, u ∈ l) ∧
      (∀ a ∈ l, ∃ u ∈ dedupFirst l, JV.cmp u a = .eq) := by
  have P := cmp_preorder (N := N)
  induction l with
  | nil => simp [dedupFirst, StrictSorted]
  | cons x rest ih =>
    have hxr : ∀ b ∈ rest, JV.cmp x b ≠ .gt := (List.pairwise_cons.mp hs).1
    have hsr : Sorted JV.cmp rest := (List.pairwise_cons.mp hs).2
    have wx := hw x (by simp)
    have wr : ∀ y ∈ rest, y.WF := fun y hy => hw y (by simp [hy])
    obtain ⟨ih1, ih2, ih3⟩ := ih wr hsr
    simp only [dedupFirst]
    cases hd : dedupFirst rest with
    | nil =>
      rw [hd] at ih3
      refine ⟨by simp [StrictSorted], by simp, ?_⟩
      intro a ha
      rcases List.mem_cons.mp ha with rfl | ha
      · exact ⟨a, by simp, P.refl a wx⟩
      · obtain ⟨u, hu, _⟩ := ih3 a ha; simp at hu
    | cons y ys =>
      rw [hd] at ih1 ih2 ih3
      have hy_rest : y ∈ rest := ih2 y (by simp)
      have wy := wr y hy_rest
      have hyys : ∀ z ∈ ys, JV.cmp y z = .lt := (List.pairwise_cons.mp ih1).1
      have hys : StrictSorted ys := (List.pairwise_cons.mp ih1).2
      have hxy_le := hxr y hy_rest
      by_cases heq : JV.cmp x y = .eq
      · simp only [heq, beq_self_eq_true, ↓reduceIte]
        refine ⟨?_, ?_, ?_⟩
        · refine List.pairwise_cons.mpr ⟨?_, hys⟩
          intro z hz
          exact P.lt_of_le_of_lt wx wy (wr z (ih2 z (by simp [hz]))) hxy_le (hyys z hz)
        · intro u hu
          rcases List.mem_cons.mp hu with rfl | hu
          · simp
          · exact List.mem_cons_of_mem _ (ih2 u (by simp [hu]))
        · intro a ha
          rcases List.mem_cons.mp ha with rfl | ha
          · exact ⟨a, by simp, P.refl a wx⟩
          · obtain ⟨u, hu, hua⟩ := ih3 a ha
            rcases List.mem_cons.mp hu with rfl | hu
            · exact ⟨x, by simp, P.eq_trans wx wy (wr a ha) heq hua⟩
            · exact ⟨u, by simp [hu], hua⟩
      · have hne : (JV.cmp x y == .eq) = false := by simpa using heq
        simp only [hne, Bool.false_eq_true, ↓reduceIte]
        have hlt : JV.cmp x y = .lt := by cases hc : JV.cmp x y <;> simp_all
        refine ⟨?_, ?_, ?_⟩
        · refine List.pairwise_cons.mpr ⟨?_, ih1⟩
          intro z hz
          rcases List.mem_cons.mp hz with rfl | hz
          · exact hlt
          · have wz := wr z (ih2 z (by simp [hz]))
            exact P.lt_of_lt_of_le wx wy wz hlt (by rw [hyys z hz]; simp)
        · intro u hu
          rcases List.mem_cons.mp hu with rfl | hu
          · simp
          · exact List.mem_cons_of_mem _ (ih2 u hu)
        · intro a ha
          rcases List.mem_cons.mp ha with rfl | ha
          · exact ⟨a, by simp, P.refl a wx⟩
          · obtain ⟨u, hu, hua⟩ := ih3 a ha
            exact ⟨u, List.mem_cons_of_mem _ hu, hua⟩

/-- **`unique_dedup_sorted`**: `unique` returns a strictly increasing list whose members all occur in
the input and which contains a representative (equal under the order) of every input element. -/
theorem unique_dedup_sorted (xs : List (JV N)) (hx : ∀ x ∈ xs, x.WF) :
    StrictSorted (JV.unique xs) ∧ (∀ u ∈ JV.unique xs, u ∈ xs) ∧
      (∀ a ∈ xs, ∃ u ∈ JV.unique xs, JV.cmp u a = .eq) := by
  have hp := sort_perm xs
  have hw : ∀ x ∈ JV.sort xs, x.WF := fun x h => hx x (hp.mem_iff.mp h)
  obtain ⟨h1, h2, h3⟩ := dedupFirst_strict (JV.sort xs) hw (sortBy_sorted_on cmp_preorder xs hx)
  exact ⟨h1, fun u hu => hp.mem_iff.mp (h2 u hu), fun a ha => h3 a (hp.mem_iff.mpr ha)⟩

/-- **antisymmetry up to `==`**: on duplicate-free values "equal under the order" is jq's `==`. -/
theorem cmp_eq_iff_eqv (a b : JV N) (ha : a.WF) (hb : b.WF) : JV.cmp a b = .eq ↔ JV.eqv a b = true :=
  SV.Jq.cmp_eq_iff_eqv a b ha hb

/-- **`unique` exactly**: strictly increasing, no two members `==`, every member occurs in the input,
and every input element is `==` to a member. -/
theorem unique_exact (xs : List (JV N)) (hx : ∀ x ∈ xs, x.WF) :
    StrictSorted (JV.unique xs) ∧ (JV.unique xs).Pairwise (fun a b => JV.eqv a b = false) ∧
      (∀ u ∈ JV.unique xs, u ∈ xs) ∧ (∀ a ∈ xs, ∃ u ∈ JV.unique xs, JV.eqv u a = true) := by
  obtain ⟨h1, h2, h3⟩ := unique_dedup_sorted xs hx
  refine ⟨h1, ?_, h2, ?_⟩
  · refine List.Pairwise.imp_of_mem ?_ h1
    intro a b ha hb hlt
    cases he : JV.eqv a b with
    | false => rfl
    | true =>
      have := (SV.Jq.cmp_eq_iff_eqv a b (hx a (h2 a ha)) (hx b (h2 b hb))).mpr he
      rw [this] at hlt; cases hlt
  · intro a ha
    obtain ⟨u, hu, hc⟩ := h3 a ha
    exact ⟨u, hu, (SV.Jq.cmp_eq_iff_eqv u a (hx u (h2 u hu)) (hx a ha)).mp hc⟩

end total

/-! ### object fields, one-step paths, entries -/

theorem lookup_insert_same (fs : List (String × JV N)) (k : String) (v : JV N) :
    JV.lookup (JV.insert fs k v) k = some v := by
  induction fs with
  | nil => simp [JV.insert, JV.lookup]
  | cons f rest ih =>
    obtain ⟨k', v'⟩ := f
    simp only [JV.insert]
    split
    · rename_i h; simp [JV.lookup, h]
    · rename_i h; simp [JV.lookup, h, ih]

theorem lookup_insert_other (fs : List (String × JV N)) (k k' : String) (v : JV N) (hne : k' ≠ k) :
    JV.lookup (JV.insert fs k v) k' = JV.lookup fs k' := by
  induction fs with
  | nil =>
    have : (k == k') = false := by simpa using fun h => hne h.symm
    simp [JV.insert, JV.lookup, this]
  | cons f rest ih =>
    obtain ⟨k2, v2⟩ := f
    simp only [JV.insert]
    split
    · rename_i h
      have hk : k2 = k := by simpa using h
      subst hk
      have : (k2 == k') = false := by simpa using fun h => hne h.symm
      simp [JV.lookup, this]
    · simp [JV.lookup, ih]

/-- **`getpath(p)` after `setpath(p; x)` is `x`** — one-step paths into objects (and `null`). -/
theorem getpath_setpath_field (fs : List (String × JV N)) (k : String) (x : JV N) :
    (JV.setpath (.obj fs) [.str k] x).bind (fun w => JV.getpath w [.str k]) = .ok x := by
  simp [JV.setpath, JV.updpath, JV.updStep, JV.getpath, JV.getStep, lookup_insert_same, bind, Except.bind]

/-- **assignment changes exactly `p`**: every other field reads as before. -/
theorem setpath_frame_field (fs : List (String × JV N)) (k k' : String) (x : JV N) (hne : k' ≠ k) :
    (JV.setpath (.obj fs) [.str k] x).bind (fun w => JV.getpath w [.str k']) = JV.getpath (.obj fs) [.str k'] := by
  simp [JV.setpath, JV.updpath, JV.updStep, JV.getpath, JV.getStep, lookup_insert_other _ _ _ _ hne, bind, Except.bind]

theorem insert_lookup_id (fs : List (String × JV N)) (k : String) (v : JV N)
    (h : JV.lookup fs k = some v) : JV.insert fs k v = fs := by
  induction fs with
  | nil => simp [JV.lookup] at h
  | cons f rest ih =>
    obtain ⟨k', v'⟩ := f
    simp only [JV.lookup] at h
    simp only [JV.insert]
    split at h
    · rename_i hk; simp [hk]; simpa using h.symm
    · rename_i hk; simp [hk, ih h]

/-- **`setpath(p; getpath(p))` is the identity** — one-step paths to present fields. -/
theorem setpath_getpath_id_field (fs : List (String × JV N)) (k : String) (v : JV N)
    (h : JV.lookup fs k = some v) :
    (JV.getpath (.obj fs) [.str k]).bind (fun w => JV.setpath (.obj fs) [.str k] w) = .ok (.obj fs) := by
  simp [JV.setpath, JV.updpath, JV.updStep, JV.getpath, JV.getStep, h, insert_lookup_id _ _ _ h, bind, Except.bind]

/-- keys of a field list are pairwise distinct -/
def NoDupKeys (fs : List (String × JV N)) : Prop := (fs.map (·.1)).Nodup

theorem foldl_insert_append (acc fs : List (String × JV N))
    (h : NoDupKeys (acc ++ fs)) :
    fs.foldl (fun a p => JV.insert a p.1 p.2) acc = acc ++ fs := by
  induction fs generalizing acc with
  | nil => simp
  | cons f rest ih =>
    obtain ⟨k, v⟩ := f
    simp only [List.foldl_cons]
    have hins : JV.insert acc k v = acc ++ [(k, v)] := by
      have hk : k ∉ acc.map (·.1) := by
        simp only [NoDupKeys, List.map_append, List.map_cons, List.nodup_append] at h
        intro hmem
        exact (h.2.2 k hmem k (by simp)) rfl
      clear h ih
      induction acc with
      | nil => simp [JV.insert]
      | cons a acc iha =>
        obtain ⟨ka, va⟩ := a
        have hne : (ka == k) = false := by
          simp only [List.map_cons, List.mem_cons, not_or] at hk
          simpa using fun h => hk.1 h.symm
        have hk' : k ∉ acc.map (·.1) := by
          simp only [List.map_cons, List.mem_cons, not_or] at hk; exact hk.2
        simp [JV.insert, hne, iha hk']
    rw [hins, ih (acc ++ [(k, v)]) (by simpa [NoDupKeys] using h)]
    simp

/-- **`to_entries | from_entries` reproduces a duplicate-free object**: rebuilding an object from
its (key, value) list with jq's insertion rule gives the object back. -/
theorem to_from_entries (fs : List (String × JV N)) (h : NoDupKeys fs) : JV.mkObj fs = .obj fs := by
  simp only [JV.mkObj]
  rw [foldl_insert_append [] fs (by simpa using h)]
  simp

/-! ### path laws for every `p ∈ paths v` -/
section pathlaws
variable [LawfulNum N]

/-- **`getpath_defined`**: every path of a duplicate-free value can be read. -/
theorem getpath_defined (v : JV N) (hw : v.WF) (p : List (JV N)) (hp : p ∈ v.paths) :
    ∃ w, v.getpath p = .ok w := SV.Jq.getpath_defined (paths_valid v hw p hp)

/-- **`setpath_getpath_id`**: `setpath(p; getpath(p))` reproduces the value, for every `p ∈ paths v`. -/
theorem setpath_getpath_id (v : JV N) (hw : v.WF) (p : List (JV N)) (hp : p ∈ v.paths) :
    (v.getpath p).bind (fun w => v.setpath p w) = .ok v := SV.Jq.setpath_getpath_id (paths_valid v hw p hp)

/-- **`getpath_setpath`**: `getpath(p)` after `setpath(p; x)` is `x`, for every `p ∈ paths v`. -/
theorem getpath_setpath (v : JV N) (hw : v.WF) (p : List (JV N)) (hp : p ∈ v.paths) (x : JV N) :
    (v.setpath p x).bind (fun v' => v'.getpath p) = .ok x := SV.Jq.getpath_setpath (paths_valid v hw p hp) x

/-- **`setpath_frame`**: assignment to `p` changes exactly `p`: any other path `q ∈ paths v` that is
neither a prefix nor an extension of `p` reads the same value afterwards. -/
theorem setpath_frame (v : JV N) (hw : v.WF) (p q : List (JV N)) (hp : p ∈ v.paths) (hq : q ∈ v.paths)
    (hinc : Incomparable p q) (x : JV N) :
    (v.setpath p x).bind (fun v' => v'.getpath q) = v.getpath q :=
  SV.Jq.setpath_frame (paths_valid v hw p hp) (paths_valid v hw q hq) hinc x

end pathlaws

/-! ### streams -/
section streams
variable [LawfulNum N]

/-- **`tostream_fromstream`**: `fromstream(tostream)` reproduces every duplicate-free value (one output,
the value itself). -/
theorem tostream_fromstream (v : JV N) (hw : v.WF) : JV.fromstream (JV.tostream v) = .ok [v] :=
  SV.Jq.tostream_fromstream v hw

end streams

/-! ### encoders / decoders -/

/-- **`base64_round_trip`**: decoding the `@base64` text of any byte string gives the bytes back. -/
theorem base64_round_trip (bs : List UInt8) : b64dec (b64enc bs) = some bs := SV.Jq.base64_round_trip bs

/-- **`uri_round_trip`**: percent-decoding the `@uri` text of any byte string gives the bytes back. -/
theorem uri_round_trip (bs : List UInt8) : uriDec (uriEnc bs) = some bs := SV.Jq.uri_round_trip bs

/-! ### non-vacuity -/

/-- a lawful carrier exists: the integers with their usual order -/
instance intCarrier : NumOps Int where
  ofInt := id
  ofLit := fun s => s.toInt?
  plain := id
  cmp := compare
  eq := fun a b => a == b
  toInt? := some
  truncI64 := id
  print := fun i => some (toString i)
  add := (· + ·)
  sub := (· - ·)
  mul := (· * ·)
  div := fun a b => if b == 0 then none else some (a / b)
  mod := fun a b => if b == 0 then none else some (a % b)
  neg := fun a => -a
  math := fun _ a => some a
  isNan := fun _ => false
  isInf := fun _ => false
  nan := 0
  inf := 0
  canon := fun i => "i" ++ toString i

instance : LawfulNum Int where
  cmp_refl a := by simp [NumOps.cmp, Std.ReflCmp.compare_self]
  cmp_swap a b := by
    show compare b a = (compare a b).swap
    rw [Std.OrientedCmp.eq_swap (cmp := (compare : Int → Int → Ordering)) (a := b) (b := a)]
  cmp_trans a b c h1 h2 := by
    simp only [NumOps.cmp] at *
    have h1' : (compare a b).isLE := by cases hc : compare a b <;> simp_all [Ordering.isLE]
    have h2' : (compare b c).isLE := by cases hc : compare b c <;> simp_all [Ordering.isLE]
    have := Std.TransCmp.isLE_trans (cmp := (compare : Int → Int → Ordering)) h1' h2'
    intro hgt; simp_all [Ordering.isLE]
  cmp_eq_iff a b := by simp [NumOps.cmp, Std.LawfulEqCmp.compare_eq_iff_eq]
  eq_iff_cmp a b := by simp [NumOps.eq, NumOps.cmp, Std.LawfulEqCmp.compare_eq_iff_eq]
  toInt_ofInt i := rfl
  ofInt_inj i j h := h
  isNan_ofInt _ := rfl
  isInf_ofInt _ := rfl
  floor_ofInt _ := rfl

example : ([.str "a", JV.ofNat 0] : List (JV Int)) ∈ (JV.obj [("a", .arr [.null])] : JV Int).paths := by
  simp [JV.paths, JV.pathsFrom, pathsObj, pathsArr]

example : (JV.obj [("a", .num (1 : Int)), ("b", .arr [.null])] : JV Int).WF := by
  simp [JV.WF, wfF, wfL]

example : NoDupKeys ([("a", .null), ("b", .bool true)] : List (String × JV Unit)) := by
  simp [NoDupKeys]
example : ∃ a b : JV Unit, a.rank < b.rank := ⟨.null, .bool true, by simp [JV.rank]⟩
example : TotalPreorder (fun a b : Nat => compare a b) :=
  ⟨fun a b h => by simp [Nat.compare_eq_gt] at *; omega, fun a b c h1 h2 => by simp [Nat.compare_eq_gt] at *; omega⟩

end SV.Props.C25
