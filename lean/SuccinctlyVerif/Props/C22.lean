/-
Props/C22 — CSV/DSV formatting reads back through DSV input.
Property theorems only; lemmas live in Proof/DsvCsv.lean.
-/
import SuccinctlyVerif.Proof.DsvCsv
namespace SV.Props.C22
open SV SV.Dsv

/-- `strip_quotes_and_decode` inverts `quote_csv_field` on every string (any bytes: delimiters,
quotes, CR/LF, non-ASCII, empty). -/
theorem decode_quote_field (s : List Byte) : stripQuotesAndDecode (quoteField s) = s :=
  DsvCsvP.strip_quoteField s

/-- The formatted row splits back into exactly its quoted fields at the delimiter, for every
delimiter other than the quote. -/
theorem fields_of_formatted (d : Byte) (hd : d ≠ QUOTE) (xs : List (List Byte)) (hx : xs ≠ []) :
    fieldsOf d QUOTE (formatDsv d xs) = xs.map quoteField :=
  DsvCsvP.fields_of_join d hd xs hx

/-- **C22 over the splitting spec** (`_partial`: the reader here is the quote-aware splitting
*specification* of C21 followed by `strip_quotes_and_decode`; lifting it to the `DsvRows`/`DsvFields`
cursor model needs C21's `rows_eq`, which is not proved yet — the driver cross-checks the cursor
model against this spec on every request).  For every non-empty array of strings and every
admissible delimiter, the line printed by `-r '@dsv(d)'` (`@csv` for `,`) reads back as exactly
that one array. -/
theorem csv_round_trip_partial (d : Byte) (hd : admissible d = true) (xs : List (List Byte)) (hx : 1 ≤ xs.length) :
    readDsvSpec d (printedLine d xs) = [xs] := by
  have h : d ≠ QUOTE ∧ d ≠ LF := by
    simp only [admissible, Bool.and_eq_true, bne_iff_ne, ne_eq] at hd
    exact ⟨hd.1.1.2, hd.1.2⟩
  exact DsvCsvP.readSpec_printed d h.1 h.2 xs (by intro e; subst e; simp at hx)

/-- The same without the final newline (`decodeRow d (format d xs) = xs`): the last field is
quoted, hence non-empty, so the unterminated last record is read completely. -/
theorem csv_round_trip_unterminated_partial (d : Byte) (hd : admissible d = true) (xs : List (List Byte))
    (hx : 1 ≤ xs.length) : readDsvSpec d (formatDsv d xs) = [xs] := by
  have h : d ≠ QUOTE ∧ d ≠ LF := by
    simp only [admissible, Bool.and_eq_true, bne_iff_ne, ne_eq] at hd
    exact ⟨hd.1.1.2, hd.1.2⟩
  exact DsvCsvP.readSpec_unterminated d h.1 h.2 xs (by intro e; subst e; simp at hx)

/-- `@csv` is the comma instance. -/
theorem csv_comma_round_trip_partial (xs : List (List Byte)) (hx : 1 ≤ xs.length) :
    readDsvSpec COMMA (formatCsv xs ++ [LF]) = [xs] :=
  csv_round_trip_partial COMMA (by decide) xs hx

/-! Non-vacuity: an admissible delimiter, a concrete array with a quote, a delimiter, a newline and
an empty string — through the *cursor model* of the code (`readDsv`), by evaluation. -/
example : admissible COMMA = true := by decide
example : readDsv COMMA (printedLine COMMA [[0x61#8, 0x22#8], [0x2c#8, 0x0a#8], []])
    = [[[0x61#8, 0x22#8], [0x2c#8, 0x0a#8], []]] := by decide +kernel
/-- The hypothesis `1 ≤ |xs|` is needed: the empty array prints an empty line, which reads back as
one row with one empty field. -/
example : readDsvSpec COMMA (printedLine COMMA []) = [[[]]] := by decide

end SV.Props.C22
