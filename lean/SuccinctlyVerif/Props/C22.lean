/-
Props/C22 — CSV/DSV formatting reads back through DSV input.
Property theorems only; lemmas live in Proof/DsvCsv.lean.
-/
import SuccinctlyVerif.Proof.DsvCsv
import SuccinctlyVerif.Proof.DsvNavModel
namespace SV.Props.C22
open SV SV.Dsv

/-- `strip_quotes_and_decode` inverts `quote_csv_field` on every string (any bytes: delimiters,
quotes, CR/LF, non-ASCII, empty). -/
theorem decode_quote_field (s : List Byte) : stripQuotesAndDecode (quoteField s) = s :=
  DsvCsvP.strip_quoteField s

/-- The formatted row splits back into exactly its quoted fields at the delimiter, for every
delimiter other than the quote. -/
theorem fields_of_formatted (d : Byte) (hd : d ≠ QUOTE) (xs : List (List Byte)) (hx : xs ≠ []) :
    fieldsOf d QUOTE (formatDsv d xs) = xs.map quoteField :=
  DsvCsvP.fields_of_join d hd xs hx

/-- The `--input-dsv` reader over the cursor model (`DsvRows`/`DsvFields` + rank/select, C21) reads
exactly what the quote-aware splitting spec reads (C21 `fields_eq`). -/
theorem readDsv_eq_spec (d : Byte) (text : List Byte) : readDsv d text = readDsvSpec d text := by
  unfold readDsv readDsvSpec
  rw [DsvNavM.rows_eq_spec]

theorem admissible_ne (d : Byte) (hd : admissible d = true) : d ≠ QUOTE ∧ d ≠ LF := by
  simp only [admissible, Bool.and_eq_true, bne_iff_ne, ne_eq] at hd
  exact ⟨hd.1.1.2, hd.1.2⟩

/-- **C22, csv_round_trip.** For every non-empty array of strings and every admissible delimiter,
the line printed by `-r '@dsv(d)'` (`@csv` for `,`), read back with `--input-dsv d` — the real
reader: DSV index, `DsvRows`/`DsvFields` iteration, `strip_quotes_and_decode` — yields exactly that
one array of strings. -/
theorem csv_round_trip (d : Byte) (hd : admissible d = true) (xs : List (List Byte)) (hx : 1 ≤ xs.length) :
    readDsv d (printedLine d xs) = [xs] := by
  have h := admissible_ne d hd
  rw [readDsv_eq_spec]
  exact DsvCsvP.readSpec_printed d h.1 h.2 xs (by intro e; subst e; simp at hx)

/-- The same without the final newline (`decodeRow d (format d xs) = xs`): the last field is
quoted, hence non-empty, so the unterminated last record is read completely. -/
theorem csv_round_trip_unterminated (d : Byte) (hd : admissible d = true) (xs : List (List Byte))
    (hx : 1 ≤ xs.length) : readDsv d (formatDsv d xs) = [xs] := by
  have h := admissible_ne d hd
  rw [readDsv_eq_spec]
  exact DsvCsvP.readSpec_unterminated d h.1 h.2 xs (by intro e; subst e; simp at hx)

/-- `@csv` is the comma instance. -/
theorem csv_comma_round_trip (xs : List (List Byte)) (hx : 1 ≤ xs.length) :
    readDsv COMMA (formatCsv xs ++ [LF]) = [xs] :=
  csv_round_trip COMMA (by decide) xs hx

/-! Non-vacuity: an admissible delimiter, a concrete array with a quote, a delimiter, a newline and
an empty string — through the *cursor model* of the code (`readDsv`), by evaluation. -/
example : admissible COMMA = true := by decide
example : readDsv COMMA (printedLine COMMA [[0x61#8, 0x22#8], [0x2c#8, 0x0a#8], []])
    = [[[0x61#8, 0x22#8], [0x2c#8, 0x0a#8], []]] := by decide +kernel
/-- The hypothesis `1 ≤ |xs|` is needed: the empty array prints an empty line, which reads back as
one row with one empty field. -/
example : readDsv COMMA (printedLine COMMA []) = [[[]]] := by rw [readDsv_eq_spec]; decide

end SV.Props.C22
