/-
Props/C18 — strict YAML validation: positioned errors.  Property theorems only.

Partial model (level "other"): only the validator's position bookkeeping is modelled
(Model/YamlPos: the cursor moved by per-byte `advance`-style steps and by `consume_line_break`);
which operation the 2 274-line validator performs where, hence acceptance and termination, is NOT
modelled — acceptance of every generated well-formed stream and termination on arbitrary bytes are
checked by the correspondence only.
-/
import SuccinctlyVerif.Proof.YamlValPos
namespace SV.Props.C18
open SV SV.YamlVPos

/-- `error_linecol`: whatever sequence of cursor movements the validator performs before it
constructs an error (`Validator::error` reports the cursor), as long as per-byte steps are taken on
non-break bytes and breaks are taken by `consume_line_break`, the reported `(line, column)` equals
the naive line/column of the reported offset — LF, lone CR and CRLF each being one break, columns
counted in bytes from 1. -/
theorem error_linecol (bs : List UInt8) (ops : List Op) (c : Cursor)
    (h : run bs ⟨0, 1, 1⟩ ops = some c) : (c.line, c.col) = lineCol bs c.off :=
  run_linecol bs ops c h

/-- The cursor never rests between the CR and the LF of a CRLF break (part of the invariant). -/
theorem cursor_not_inside_crlf (bs : List UInt8) (ops : List Op) (c : Cursor)
    (h : run bs ⟨0, 1, 1⟩ ops = some c) : ∃ cr, scan (bs.take c.off) = (c.line, c.col, cr) ∧ (cr = true → bs[c.off]? ≠ some 10) :=
  inv_run bs ops ⟨0, 1, 1⟩ c (inv_init bs) h

-- "a\r\nb: \tc\n": advance, CRLF, four advances → offset 7, line 2, column 5
example : run [97, 13, 10, 98, 58, 32, 9, 99, 10] ⟨0, 1, 1⟩ [.adv, .brk, .adv, .adv, .adv, .adv] = some ⟨7, 2, 5⟩ := by decide
example : lineCol [97, 13, 10, 98, 58, 32, 9, 99, 10] 7 = (2, 5) := by decide

end SV.Props.C18
