/-
Props/C03 — Elias–Fano sequences answer exactly under any access history.
Property theorems only; helper lemmas live in Proof/EliasFano.lean.
-/
import SuccinctlyVerif.Proof.EliasFano
namespace SV.Props.C03
open SV SV.EF

/-- Whenever `build` returns, the encoded sequence reports the input's length. -/
theorem len_eq_partial (R : Nat) (vs : List Nat) (ef : EliasFano) (h : build R vs = some ef) :
    ef.len = vs.length := build_len R vs ef h

example : (build 256 [1, 5, 5, 900]).map (·.len) = some 4 := by decide +kernel

end SV.Props.C03
