/-
Props/C03 — Elias–Fano sequences answer exactly under any access history.
Property theorems only; helper lemmas live in Proof/EliasFano*.lean.

Setting of every theorem: `vs` is a non-decreasing list of `u32` values, `R ≥ 1` is the select
sample rate (`Gen.EF_SELECT_SAMPLE_RATE`, extracted from the source, is one instance), and the
high-bits vector has at most 2^32 bit positions (`HighFits`), which is what makes the
`global_pos as u32` cast of the select samples lossless; `highFits_of_length` derives it from
`3·len + 64 ≤ 2^32`.  In the model `none` is a Rust panic, so `= some …` also states that the
operation does not panic.
-/
import SuccinctlyVerif.Proof.EliasFanoSelect
import SuccinctlyVerif.Proof.EliasFanoPred
namespace SV.Props.C03
open SV SV.EF

/-- The sample positions fit `u32`: the high-bits vector has at most 2^32 bits. -/
def HighFits (ef : EliasFano) : Prop := 64 * ef.highBits.length ≤ 2 ^ 32

/-- `build` does not panic on a non-decreasing `u32` sequence. -/
theorem build_total (R : Nat) (vs : List Nat) (hs : EFSpec.Sorted vs) (hu : EFSpec.AllU32 vs) :
    ∃ ef, build R vs = some ef :=
  let ⟨ef, h, _⟩ := build_ok R vs hs hu; ⟨ef, h⟩

/-- `len()` is the length of the sequence. -/
theorem len_eq (R : Nat) (vs : List Nat) (hs : EFSpec.Sorted vs) (hu : EFSpec.AllU32 vs)
    (ef : EliasFano) (h : build R vs = some ef) : ef.len = vs.length := by
  obtain ⟨ef', h', hb⟩ := build_ok R vs hs hu
  rw [h] at h'; cases h'; exact hb.len

/-- `universe()` is the last (largest) element + 1, and 0 for the empty sequence. -/
theorem universe_eq (R : Nat) (vs : List Nat) (hs : EFSpec.Sorted vs) (hu : EFSpec.AllU32 vs)
    (ef : EliasFano) (h : build R vs = some ef) : ef.univ = EFSpec.universeOf vs := by
  obtain ⟨ef', h', hb⟩ := build_ok R vs hs hu
  rw [h] at h'; cases h'; exact hb.univ

/-- `get(i)` is element `i` for every `i` (`None` past the end), and never panics. -/
theorem get_eq (R : Nat) (hR : 0 < R) (vs : List Nat) (hs : EFSpec.Sorted vs) (hu : EFSpec.AllU32 vs)
    (ef : EliasFano) (h : build R vs = some ef) (hf : HighFits ef) (i : Nat) :
    get R ef i = some vs[i]? := by
  obtain ⟨ef', h', hb⟩ := build_ok R vs hs hu
  rw [h] at h'; cases h'; exact hb.get_eq hs hu hR hf i

/-- `predecessor(v)` is the plain left-to-right scan keeping the last index whose element is
`≤ v` … -/
theorem predecessor_eq (R : Nat) (hR : 0 < R) (vs : List Nat) (hs : EFSpec.Sorted vs)
    (hu : EFSpec.AllU32 vs) (ef : EliasFano) (h : build R vs = some ef) (hf : HighFits ef) (v : Nat) :
    predecessor R ef v = some (EFSpec.predecessor vs v) :=
  predecessor_eq_scan R ef vs (len_eq R vs hs hu ef h) (get_eq R hR vs hs hu ef h hf) hs v

/-- … which on a non-decreasing sequence is `None` exactly when every element exceeds `v` … -/
theorem predecessor_none_iff (vs : List Nat) (v : Nat) :
    EFSpec.predecessor vs v = none ↔ ∀ x ∈ vs, v < x := predScan_none_iff vs v

/-- … and otherwise the last index holding the largest element `≤ v`. -/
theorem predecessor_some (vs : List Nat) (hs : EFSpec.Sorted vs) (v i x : Nat)
    (h : EFSpec.predecessor vs v = some (i, x)) :
    vs[i]? = some x ∧ x ≤ v ∧
    (∀ j y : Nat, vs[j]? = some y → y ≤ v → y ≤ x) ∧
    (∀ j : Nat, vs[j]? = some x → j ≤ i) := predScan_some vs hs v i x h

-- non-vacuity: a sequence with duplicates and a gap, queried through the generated sample rate
example : (build Gen.EF_SELECT_SAMPLE_RATE [1, 5, 5, 900]).map (·.len) = some 4 := by decide +kernel
example : (build Gen.EF_SELECT_SAMPLE_RATE [1, 5, 5, 900]).bind (get Gen.EF_SELECT_SAMPLE_RATE · 3) = some (some 900) := by
  decide +kernel
example : (build Gen.EF_SELECT_SAMPLE_RATE [1, 5, 5, 900]).bind (predecessor Gen.EF_SELECT_SAMPLE_RATE · 7) = some (some (2, 5)) := by
  decide +kernel
example : EFSpec.Sorted [1, 5, 5, 900] ∧ EFSpec.AllU32 [1, 5, 5, 900] := by
  constructor
  · unfold EFSpec.Sorted; decide
  · unfold EFSpec.AllU32; decide

end SV.Props.C03
