/-
Props/C03 — Elias–Fano sequences answer exactly under any access history.
Property theorems only; helper lemmas live in Proof/EliasFano*.lean.

Setting of every theorem: `vs` is a non-decreasing list of `u32` values, `R ≥ 1` is the select
sample rate (`Gen.EF_SELECT_SAMPLE_RATE`, extracted from the source, is one instance), and the
high-bits vector has at most 2^32 bit positions (`HighFits`), which is what makes the
`global_pos as u32` cast of the select samples lossless; `highFits_of_length` derives it from
`3·len + 64 ≤ 2^32` (beyond that bound the code is wrong: known finding F12).  In the model `none` is a Rust panic, so `= some …` also states that the
operation does not panic.
-/
import SuccinctlyVerif.Proof.EliasFanoHistory
import SuccinctlyVerif.Proof.EliasFanoPred
namespace SV.Props.C03
open SV SV.EF

/-- The sample positions fit `u32`: the high-bits vector has at most 2^32 bits. -/
def HighFits (ef : EliasFano) : Prop := 64 * ef.highBits.length ≤ 2 ^ 32

/-- `HighFits` holds for every sequence of at most `(2^32 - 64) / 3 = 1 431 655 744` elements
(whatever its values); longer inputs can truncate a sample (`global_pos as u32`). -/
theorem highFits_of_length (R : Nat) (vs : List Nat) (hs : EFSpec.Sorted vs) (hu : EFSpec.AllU32 vs)
    (ef : EliasFano) (h : build R vs = some ef) (hn : 3 * vs.length + 64 ≤ 2 ^ 32) : HighFits ef := by
  obtain ⟨ef', h', hb⟩ := build_ok R vs hs hu
  rw [h] at h'; cases h'; exact hb.high_fits hu hn

/-- `build` does not panic on a non-decreasing `u32` sequence. -/
theorem build_total (R : Nat) (vs : List Nat) (hs : EFSpec.Sorted vs) (hu : EFSpec.AllU32 vs) :
    ∃ ef, build R vs = some ef :=
  let ⟨ef, h, _⟩ := build_ok R vs hs hu; ⟨ef, h⟩

/-- `len()` is the length of the sequence. -/
theorem len_eq (R : Nat) (vs : List Nat) (hs : EFSpec.Sorted vs) (hu : EFSpec.AllU32 vs)
    (ef : EliasFano) (h : build R vs = some ef) : ef.len = vs.length := by
  obtain ⟨ef', h', hb⟩ := build_ok R vs hs hu
  rw [h] at h'; cases h'; exact hb.len

/-- `universe()` is the last (largest) element + 1, and 0 for the empty sequence. -/
theorem universe_eq (R : Nat) (vs : List Nat) (hs : EFSpec.Sorted vs) (hu : EFSpec.AllU32 vs)
    (ef : EliasFano) (h : build R vs = some ef) : ef.univ = EFSpec.universeOf vs := by
  obtain ⟨ef', h', hb⟩ := build_ok R vs hs hu
  rw [h] at h'; cases h'; exact hb.univ

/-- `get(i)` is element `i` for every `i` (`None` past the end), and never panics. -/
theorem get_eq (R : Nat) (hR : 0 < R) (vs : List Nat) (hs : EFSpec.Sorted vs) (hu : EFSpec.AllU32 vs)
    (ef : EliasFano) (h : build R vs = some ef) (hf : HighFits ef) (i : Nat) :
    get R ef i = some vs[i]? := by
  obtain ⟨ef', h', hb⟩ := build_ok R vs hs hu
  rw [h] at h'; cases h'; exact hb.get_eq hs hu hR hf i

/-- `predecessor(v)` is the plain left-to-right scan keeping the last index whose element is
`≤ v` … -/
theorem predecessor_eq (R : Nat) (hR : 0 < R) (vs : List Nat) (hs : EFSpec.Sorted vs)
    (hu : EFSpec.AllU32 vs) (ef : EliasFano) (h : build R vs = some ef) (hf : HighFits ef) (v : Nat) :
    predecessor R ef v = some (EFSpec.predecessor vs v) :=
  predecessor_eq_scan R ef vs (len_eq R vs hs hu ef h) (get_eq R hR vs hs hu ef h hf) hs v

/-- … which on a non-decreasing sequence is `None` exactly when every element exceeds `v` … -/
theorem predecessor_none_iff (vs : List Nat) (v : Nat) :
    EFSpec.predecessor vs v = none ↔ ∀ x ∈ vs, v < x := predScan_none_iff vs v

/-- … and otherwise the last index holding the largest element `≤ v`. -/
theorem predecessor_some (vs : List Nat) (hs : EFSpec.Sorted vs) (v i x : Nat)
    (h : EFSpec.predecessor vs v = some (i, x)) :
    vs[i]? = some x ∧ x ≤ v ∧
    (∀ j y : Nat, vs[j]? = some y → y ≤ v → y ≤ x) ∧
    (∀ j : Nat, vs[j]? = some x → j ≤ i) := predScan_some vs hs v i x h

/-- Iterating the encoded sequence yields the sequence, in order. -/
theorem iter_eq (R : Nat) (vs : List Nat) (hs : EFSpec.Sorted vs) (hu : EFSpec.AllU32 vs)
    (ef : EliasFano) (h : build R vs = some ef) : toList ef = some vs := by
  obtain ⟨ef', h', hb⟩ := build_ok R vs hs hu
  rw [h] at h'; cases h'; exact toList_spec hb hs hu

/-! ### cursor refinement

`CurInv vs ef c` (Proof/EliasFanoCursor): `c.idx ≤ n`, and if `c.idx < n` then `high_pos` is the
position of the `idx`-th one of the high bits, `word_idx = high_pos / 64`, and `remaining_bits` is
that word with the bits below `high_pos % 64` cleared (current bit still set). -/

/-- `cursor()` satisfies the invariant and stands where the plain cursor stands. -/
theorem inv_init_cursor (R : Nat) (vs : List Nat) (hs : EFSpec.Sorted vs) (hu : EFSpec.AllU32 vs)
    (ef : EliasFano) (h : build R vs = some ef) :
    CurInv vs ef (cursor ef) ∧ (cursor ef).idx = EFSpec.goto vs 0 := by
  obtain ⟨ef', h', hb⟩ := build_ok R vs hs hu
  rw [h] at h'; cases h'; exact ⟨(cursor_spec hb hs).2, (cursor_spec hb hs).1⟩

/-- `cursor_from(i)` satisfies the invariant and stands at `min i n`, for every `i`. -/
theorem inv_init_cursor_from (R : Nat) (hR : 0 < R) (vs : List Nat) (hs : EFSpec.Sorted vs)
    (hu : EFSpec.AllU32 vs) (ef : EliasFano) (h : build R vs = some ef) (hf : HighFits ef) (i : Nat) :
    ∃ c, cursorFrom R ef i = some c ∧ CurInv vs ef c ∧ c.idx = EFSpec.goto vs i := by
  obtain ⟨ef', h', hb⟩ := build_ok R vs hs hu
  rw [h] at h'; cases h'
  obtain ⟨c, h1, h2, h3⟩ := cursorFrom_spec hb hs hR hf i
  exact ⟨c, h1, h3, h2⟩

/-- `inv_step` and `out_step` for every operation: from a state satisfying the invariant, the
operation does not panic, re-establishes the invariant, lands on the index the plain sequence
lands on and returns what the plain sequence returns (every `k`, `i` included: `advance_by`
saturates `idx + k`). -/
theorem inv_out_step (R : Nat) (hR : 0 < R) (vs : List Nat) (hs : EFSpec.Sorted vs)
    (hu : EFSpec.AllU32 vs) (ef : EliasFano) (h : build R vs = some ef) (hf : HighFits ef)
    (c : Cursor) (hc : CurInv vs ef c) (op : EFSpec.Op) :
    ∃ c', stepOp R ef c op = some (c', (EFSpec.step vs c.idx op).2) ∧
      c'.idx = (EFSpec.step vs c.idx op).1 ∧ CurInv vs ef c' := by
  obtain ⟨ef', h', hb⟩ := build_ok R vs hs hu
  rw [h] at h'; cases h'
  exact stepOp_spec hb hs hu hR hf c hc op

/-- The getters observed after an operation are the plain sequence's. -/
theorem observe_eq (R : Nat) (vs : List Nat) (hs : EFSpec.Sorted vs)
    (hu : EFSpec.AllU32 vs) (ef : EliasFano) (h : build R vs = some ef)
    (c : Cursor) (hc : CurInv vs ef c) (r : Option (Option Nat)) :
    observe ef c r = some (EFSpec.observe vs c.idx r) := by
  obtain ⟨ef', h', hb⟩ := build_ok R vs hs hu
  rw [h] at h'; cases h'
  exact observe_spec hb hs hu c hc r

/-- **Any access history.** A cursor created by `cursor()` and driven by any finite list of
advance-one / advance-by-k / seek / cursor-from / cursor / getter operations never panics and
reports, after every operation, the return value, `current()`, `index()` and `is_exhausted()` that
the same operations produce on the plain sequence (an index into `vs`; moving past the end gives
`idx = n` and `None`). -/
theorem cursor_history (R : Nat) (hR : 0 < R) (vs : List Nat) (hs : EFSpec.Sorted vs)
    (hu : EFSpec.AllU32 vs) (ef : EliasFano) (h : build R vs = some ef) (hf : HighFits ef)
    (ops : List EFSpec.Op) :
    run R ef (cursor ef) ops = some (EFSpec.runPlain vs 0 ops) := by
  obtain ⟨ef', h', hb⟩ := build_ok R vs hs hu
  rw [h] at h'; cases h'
  obtain ⟨h1, h2⟩ := cursor_spec hb hs
  have := run_spec hb hs hu hR hf ops (cursor ef) h2
  rw [this, h1]
  congr 2
  unfold EFSpec.goto; split <;> omega

/-- The same from any state satisfying the invariant (e.g. after `cursor_from(i)`). -/
theorem cursor_history_from (R : Nat) (hR : 0 < R) (vs : List Nat) (hs : EFSpec.Sorted vs)
    (hu : EFSpec.AllU32 vs) (ef : EliasFano) (h : build R vs = some ef) (hf : HighFits ef)
    (c : Cursor) (hc : CurInv vs ef c) (ops : List EFSpec.Op) :
    run R ef c ops = some (EFSpec.runPlain vs c.idx ops) := by
  obtain ⟨ef', h', hb⟩ := build_ok R vs hs hu
  rw [h] at h'; cases h'
  exact run_spec hb hs hu hR hf ops c hc

/-- The instance for the sample rate the source currently declares. -/
theorem cursor_history_generated (vs : List Nat) (hs : EFSpec.Sorted vs) (hu : EFSpec.AllU32 vs)
    (hn : 3 * vs.length + 64 ≤ 2 ^ 32) (ef : EliasFano)
    (h : build Gen.EF_SELECT_SAMPLE_RATE vs = some ef)
    (ops : List EFSpec.Op) :
    run Gen.EF_SELECT_SAMPLE_RATE ef (cursor ef) ops = some (EFSpec.runPlain vs 0 ops) :=
  cursor_history _ (by decide) vs hs hu ef h
    (highFits_of_length _ vs hs hu ef h hn) ops

-- non-vacuity: a sequence with duplicates and a gap, queried through the generated sample rate
example : (build Gen.EF_SELECT_SAMPLE_RATE [1, 5, 5, 900]).map (·.len) = some 4 := by decide +kernel
example : (build Gen.EF_SELECT_SAMPLE_RATE [1, 5, 5, 900]).bind (get Gen.EF_SELECT_SAMPLE_RATE · 3) = some (some 900) := by
  decide +kernel
example : (build Gen.EF_SELECT_SAMPLE_RATE [1, 5, 5, 900]).bind (predecessor Gen.EF_SELECT_SAMPLE_RATE · 7) = some (some (2, 5)) := by
  decide +kernel
example : EFSpec.Sorted [1, 5, 5, 900] ∧ EFSpec.AllU32 [1, 5, 5, 900] := by
  constructor
  · unfold EFSpec.Sorted; decide
  · unfold EFSpec.AllU32; decide

example : (build Gen.EF_SELECT_SAMPLE_RATE [1, 5, 5, 900]).bind toList = some [1, 5, 5, 900] := by decide +kernel
example : (build Gen.EF_SELECT_SAMPLE_RATE [1, 5, 5, 900]).bind
    (fun ef => run Gen.EF_SELECT_SAMPLE_RATE ef (cursor ef) [.advanceBy 2, .advanceOne, .advanceOne, .seek 1, .cursorFrom 9, .cursor]) =
    some (EFSpec.runPlain [1, 5, 5, 900] 0 [.advanceBy 2, .advanceOne, .advanceOne, .seek 1, .cursorFrom 9, .cursor]) := by
  decide +kernel
-- regression witness of the repaired `advance_by` overflow: an exhausted cursor stays exhausted
example : (build Gen.EF_SELECT_SAMPLE_RATE [1]).bind
    (fun ef => run Gen.EF_SELECT_SAMPLE_RATE ef (cursor ef) [.advanceOne, .advanceBy (2 ^ 64 - 1)]) =
    some (EFSpec.runPlain [1] 0 [.advanceOne, .advanceBy (2 ^ 64 - 1)]) := by
  decide +kernel

end SV.Props.C03
