/-
Props/C07 — JSON interest-bit rank/select and node positions are exact.
Property theorems only; lemmas in Proof/JsonIb.lean.
-/
import SuccinctlyVerif.Proof.JsonIb
namespace SV.Props.C07
open SV SV.JsonIb

/-- `ib_rank1(pos)` = number of interest bits strictly below `pos`, for every word vector and every
`pos` (out-of-range included), provided the bit count fits the `u32` rank entries (every
constructor asserts `ib_len ≤ u32::MAX`). -/
theorem ib_rank1_eq (ws : List (BitVec 64)) (pos : Nat) (hb : (ws.map popcount).sum < U32) :
    ibRank1 ws pos = rankB true (allBits ws) pos :=
  ibRank1_eq ws pos hb

/-- `ib_select1(k)` = position of the `k`-th interest bit if it lies below `ib_len`, else `None` —
for every `k` (the code rejects `k` beyond `u32::MAX` before truncating). -/
theorem ib_select1_eq (ws : List (BitVec 64)) (ibLen k : Nat) (hb : (ws.map popcount).sum < U32) :
    ibSelect1 ws ibLen k = (selectB true (allBits ws) k).filter (· < ibLen) :=
  ibSelect1_eq_all ws ibLen k hb

/-- Select with a starting hint returns the same position for every hint value. -/
theorem select_from_hint_irrelevant (ws : List (BitVec 64)) (ibLen k hint : Nat)
    (hb : (ws.map popcount).sum < U32) :
    ibSelect1From ws ibLen k hint = ibSelect1 ws ibLen k := by
  rw [ibSelect1From_eq_all ws ibLen k hint hb, ibSelect1_eq_all ws ibLen k hb]

/-- A node's text position is the position of the interest bit with the node's BP rank. -/
theorem text_position_eq (ws : List (BitVec 64)) (ibLen bpRank : Nat) (hb : (ws.map popcount).sum < U32) :
    textPosition ws ibLen bpRank = (selectB true (allBits ws) bpRank).filter (· < ibLen) := by
  unfold textPosition
  exact ibSelect1From_eq_all ws ibLen bpRank _ hb

/-- The node reached from a byte offset inside the text is the node whose interest bit is the last
one at a position `≤ offset` (`None` before the first node); the BP position returned is that of
the corresponding open parenthesis. `bp.rank1` is the exact BP rank (property C04). -/
theorem cursor_at_offset_eq (ws : List (BitVec 64)) (ibLen textLen offset : Nat) (bp : List Bool)
    (hb : (ws.map popcount).sum < U32) (hlen : textLen ≤ ibLen) (hoff : offset < textLen) :
    cursorAtOffset ws ibLen textLen bp.length (rankB true bp) offset =
      (if rankB true (allBits ws) (offset + 1) = 0 then none
       else selectB true bp (rankB true (allBits ws) (offset + 1) - 1)) :=
  cursorAtOffset_eq ws ibLen textLen offset bp hb hlen hoff

/-- Offsets at or past the end of the text reach no node. -/
theorem cursor_at_offset_out_of_range (ws : List (BitVec 64)) (ibLen textLen offset bpLen : Nat)
    (r : Nat → Nat) (h : textLen ≤ offset) : cursorAtOffset ws ibLen textLen bpLen r offset = none := by
  unfold cursorAtOffset cursorAtOffsetWith ibIdxAtOffsetWith
  simp [h]

-- non-vacuity: a two-word index with 5 interest bits, hints on both sides of the answer
example : ibSelect1From [0x11#64, 0x8000000000000007#64] 128 4 0 = some 66 ∧
    ibSelect1From [0x11#64, 0x8000000000000007#64] 128 4 7 = some 66 ∧
    ibRank1 [0x11#64, 0x8000000000000007#64] 66 = 4 := by decide +kernel

end SV.Props.C07
