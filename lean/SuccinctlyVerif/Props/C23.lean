/-
Props/C23 — the library evaluator and the CLI's generic evaluator agree on every program.

Determinism is definitional: the model `SV.Jq.eval` is a function, so "both implementations refine
`eval`" implies they agree. The Lean content of the property is that the comparison is well defined:
a finished run does not depend on how much fuel was available.
-/
import SuccinctlyVerif.Proof.JqMono
import SuccinctlyVerif.Model.JqPrelude
open Lean.Order
namespace SV.Props.C23
open SV.Jq
variable {N : Type} [NumOps N]

/-- One more unit of fuel never changes a finished run (`some outs`): `eval` is the chain of
approximations of the least fixed point of the monotone step function `evalStep`. -/
theorem eval_fuel_succ (d : Dialect) (f : Nat) (e : Expr) (env : Env N) (v : JV N) (p : PInfo N)
    (r : List (Out N)) (h : eval d f e env v p = some r) : eval d (f + 1) e env v p = some r := by
  induction f generalizing e env v p r with
  | zero => simp [eval] at h
  | succ n ih =>
    have hle : (eval d n : Rec N) ⊑ eval d (n + 1) := by
      intro e' env' v' p'
      show FlatOrder.rel _ _
      cases h' : eval d n e' env' v' p' with
      | none => exact FlatOrder.rel.bot
      | some r' => rw [ih e' env' v' p' r' h']; exact FlatOrder.rel.refl
    exact flat_some (evalStep_mono d e env v p _ _ hle) r h

/-- **C23 (`eval_fuel_mono`)**: more fuel never changes a finished run — for every dialect switch,
program, environment, input, path-tracking state and every number carrier. Hence "the run of
program `e` on input `v`" is well defined whenever some fuel finishes it, and two implementations
that both refine `eval` produce the same output sequence and the same terminator. -/
theorem eval_fuel_mono (d : Dialect) (f g : Nat) (hfg : f ≤ g) (e : Expr) (env : Env N) (v : JV N)
    (p : PInfo N) (r : List (Out N)) (h : eval d f e env v p = some r) :
    eval d g e env v p = some r := by
  obtain ⟨k, rfl⟩ := Nat.exists_eq_add_of_le hfg
  induction k with
  | zero => exact h
  | succ k ih => exact eval_fuel_succ d (f + k) e env v p r (ih (Nat.le_add_right _ _))

/-- two finished runs of the same program on the same input coincide, whatever fuel each had -/
theorem eval_deterministic (d : Dialect) (f g : Nat) (e : Expr) (env : Env N) (v : JV N) (p : PInfo N)
    (r s : List (Out N)) (hf : eval d f e env v p = some r) (hg : eval d g e env v p = some s) : r = s := by
  have h1 := eval_fuel_mono d f (max f g) (Nat.le_max_left _ _) e env v p r hf
  have h2 := eval_fuel_mono d g (max f g) (Nat.le_max_right _ _) e env v p s hg
  rw [h1] at h2; exact Option.some.inj h2

/-- non-vacuity: a concrete program (`.a | .[]` desugared) finishes with fuel 3 on a concrete input,
over the unit number carrier, so the hypothesis of `eval_fuel_mono` is satisfiable. -/
example : ∃ (r : List (Out Unit)),
    @eval Unit ⟨fun _ => (), fun _ => some (), id, fun _ _ => .eq, fun _ _ => true, fun _ => none,
        fun _ => 0, fun _ => some "0", fun _ _ => (), fun _ _ => (), fun _ _ => (), fun _ _ => none,
        fun _ _ => none, id, fun _ _ => none, fun _ => false, fun _ => false, (), (), fun _ => "u", fun _ _ _ => none, fun _ => false⟩
      {} 3 (.iterate (.index .identity (.lit (.str "a")))) .nil
      (.obj [("a", .arr [.null, .bool true])]) .off = some r :=
  ⟨_, rfl⟩

end SV.Props.C23
