/-
Props/C14 — YAML loading reproduces the value of every well-formed document.
Property theorems only; lemmas live in Proof/YamlRoundTrip.lean.

`render_load` (DESIGN §5): `∀ s, admissible s → loadRef (render s) = ok s.trees` — proved here for
EVERY admissible stream (`render_load`): the byte layer, layer 1 (flow collections + double-quoted
scalars), layer 2 (block collections, nesting, compact forms, plain / single / double scalars and
keys, every null / bool / int spelling), layer 3 (literal and folded block scalars, chomping,
indentation indicator, at any depth and at the root), layer 4 (comment lines, blank lines, trailing
comments, before / inside / after documents), layer 5 (LF / CRLF / CR), layer 6 (anchors and
aliases in flow and block context, re-definition, anchored collections and block scalars) and layer 7
(`---` / `...`, several documents, root node on the marker line).  No layer is left to the
correspondence check alone; the driver still re-evaluates `loadRef (render s) = ok s.trees` on every
generated stream (a run-time re-check of the theorem's instance and of `admissible`).
-/
import SuccinctlyVerif.Proof.YamlRoundTrip
import SuccinctlyVerif.Proof.YamlRefBlock
import SuccinctlyVerif.Proof.YamlRefDocs
import SuccinctlyVerif.Proof.YamlFamilies
namespace SV.Props.C14
open SV SV.YamlRef

/-- The full statement (not asserted): every admissible stream loads back to its trees. -/
def render_load_full_statement : Prop :=
  ∀ s : PStream, admissible s = true → loadRef (render s) = .ok s.trees

/-- Byte layer: rendering encodes the character stream as UTF-8 and the reference loader decodes
exactly that stream, for every stream (no side condition). -/
theorem render_load_bytes (s : PStream) : loadRef (render s) = loadChars s.chars :=
  loadRef_render s

/-- Layer 1 (flow collections + double-quoted scalars, "JSON-like"): for every tree presentation
built from flow sequences and flow mappings (any nesting, any number of spaces after `,` `[` `:`),
double-quoted strings and keys (any string of Unicode scalar values, with either escape policy
`short`/numeric and with or without escaping of non-ASCII), `null` in its four spellings, booleans in
their six spellings and decimal integers of any size, written as a single bare document, the
reference loader returns exactly the tree. -/
theorem render_load_flow (n : PNode) (g : Nat) (h : n.l1 = true) :
    loadRef (render (l1Stream n g)) = .ok [n.tree] := by
  rw [render_load_bytes]; exact loadChars_l1 n h g

/-- Layer 5 (line breaks), general form: for EVERY stream whose LF rendering contains no carriage
return, loading the CRLF or CR rendering equals loading the LF rendering (both equal the loader run
on the LF text's lines).  No restriction to a layer. -/
theorem render_load_breaks (s : PStream) (h : s.lfChars.all (· != '\r') = true) :
    loadRef (render s) = loadLines (linesOf (stripBom s.lfChars)) := by
  rw [render_load_bytes]; exact loadChars_breaks s h

/-- Layers 1 + 5: layer-1 documents load back under LF, CRLF and CR line breaks. -/
theorem render_load_flow_breaks (n : PNode) (g : Nat) (b : Break) (h : n.l1 = true) :
    loadRef (render { l1Stream n g with br := b }) = .ok [n.tree] := by
  rw [render_load_bytes]; exact loadChars_l1_breaks n h g b

/-- Double-quoted scalars: decoding the escaped body returns the string, for every string and both
escape policies (used by every layer that contains a double-quoted scalar or key). -/
theorem double_quoted_round_trip (sh eu : Bool) (s rest : Str) :
    parseDQ (s.flatMap (dqChar sh eu) ++ '"' :: rest) = .ok (s, rest) :=
  parseDQ_dqBody sh eu s rest

/-! Non-vacuity: a layer-1 presentation with nested collections, escapes and all scalar kinds. -/

def exL1 : PNode :=
  .map true 0 false (.cons {} "k\"\n".toList (.double true false)
      (.seq true 0 false (.cons { gap := 1 } (.int (-12) 0) (.cons {} (.null 3) (.cons {} (.bool true 2)
        (.cons {} (.str "é\t😀\\".toList (.double false true)) .nil)))))
    (.cons { gap := 2 } [] (.double false false) (.map true 0 false .nil) .nil))

example : exL1.l1 = true := by decide
example : admissible (l1Stream exL1 0) = true := by decide +kernel
example : (l1Stream exL1 0).chars = "{\"k\\\"\\n\": [ -12, ~, TRUE, \"\\xe9\\x09\\U0001f600\\\\\"], \"\":   {}}\n".toList := by
  decide +kernel

/-! ## Every admissible stream -/

/-- `render_load`, for ALL presentations: every admissible stream loads back to its trees.
`admissible` is the specification's side condition (Spec/YamlRef.lean); the stream may consist of any
number of documents, each with or without `---` / `...` (a bare document only first), with comment
and blank lines anywhere `admissible` allows them, any nesting of block and flow collections with any
indentation steps and compact forms, every scalar style including literal and folded block scalars
(also as a document's root), trailing comments, anchors on any node that may carry one and aliases to
anchors in scope (`PNode.scope`), and LF, CRLF or CR line breaks. -/
theorem render_load (s : PStream) (ha : admissible s = true) : loadRef (render s) = .ok s.trees := by
  rw [render_load_bytes]; exact loadChars_admissible s ha

/-- The full statement of DESIGN §5 holds. -/
theorem render_load_full : render_load_full_statement := render_load

/-- The same for the proof-side predicates `docsOk2` + anchor scoping (weaker than `admissible`: no
bound on indentation steps, key lengths or integer ranges, duplicate keys allowed). -/
theorem render_load_docs (s : PStream) (h : docsOk2 true s.docs = true)
    (hsc : ∀ d ∈ s.docs, (d.root.scope []).isSome = true) : loadRef (render s) = .ok s.trees := by
  rw [render_load_bytes]; exact loadChars_docs s h hsc

/-- Layers 2–4 as a bare single document whose root satisfies `bl2` (kept as the statement the
non-vacuity examples below refer to). -/
theorem render_load_block (x : PNode) (g : Nat) (h : x.bl2 .root = true) (hb : bareOk x = true)
    (hs : (x.scope []).isSome = true) :
    loadRef (render (bareStream x g)) = .ok [x.tree] :=
  render_load_docs (bareStream x g) (bareStream_ok x g h hb) (bareStream_scope x g hs)

/-- Layers 2–5: the same under LF, CRLF and CR line breaks. -/
theorem render_load_block_breaks (x : PNode) (g : Nat) (b : Break) (h : x.bl2 .root = true) (hb : bareOk x = true)
    (hs : (x.scope []).isSome = true) :
    loadRef (render { bareStream x g with br := b }) = .ok [x.tree] :=
  render_load_docs { bareStream x g with br := b } (bareStream_ok x g h hb) (bareStream_scope x g hs)

/-- Non-vacuity: nested, compact, step 0, all scalar kinds. -/
def exL2 : PNode :=
  .map false 0 false (.cons {} "name".toList .plain (.str "a b:c#x".toList .plain)
    (.cons {} "it's".toList .single (.seq false 0 false (.cons {} (.int 7 2) (.cons {} (.str "- x".toList .single) (.cons {} (.null 4) .nil))))
    (.cons { gap := 1 } "k\n".toList (.double true false)
      (.seq false 3 false (.cons {} (.map false 0 true (.cons {} "in".toList .plain (.bool false 1) (.cons {} "e".toList .plain (.seq true 0 false (.cons {} exL1 .nil)) .nil)))
        (.cons { gap := 2 } (.seq false 0 true (.cons {} (.int (-5) 4) (.cons {} (.str "?deep".toList .plain) .nil))) .nil))) .nil)))


example : exL2.bl2 .root = true := by decide +kernel
example : admissible (bareStream exL2 0) = true := by decide +kernel

/-- Non-vacuity for the block scalars of layer 3: keep / strip / clip, explicit indicator,
deeper-indented and blank lines, a scalar followed by a sibling entry and one ending the document;
folded scalars with folds, line feeds inside and at the end. -/
def exL3 : PNode :=
  .map false 0 false (.cons {} "a".toList .plain (.str "x\n  y\n\nz\n".toList (.literal .clip 2 false))
    (.cons {} "b".toList .plain (.seq false 2 false
        (.cons {} (.str " lead\nk: v # no comment".toList (.literal .strip 3 true))
        (.cons {} (.map false 0 true (.cons {} "c".toList .plain (.str "t\n\n\n".toList (.literal .keep 1 false)) .nil)) .nil)))
    (.cons {} "d".toList .plain (.str "".toList (.literal .strip 1 true))
    (.cons {} "e".toList .plain (.str "one two three\nfour\n\nfive six\n\n".toList (.folded .keep 2 false [3, 24]))
    (.cons {} "f".toList .plain (.seq false 0 false (.cons {} (.str "k: v # x".toList (.folded .strip 4 true [])) (.cons {} (.int 1 0) .nil))) .nil)))))


example : exL3.bl2 .root = true := by decide +kernel
example : admissible (bareStream exL3 0) = true := by decide +kernel
example : (bareStream exL3 0).chars =
    "a: |\n  x\n    y\n\n  z\nb:\n  - |3-\n      lead\n     k: v # no comment\n  - c: |+\n     t\n\n\nd: |1-\n\ne: >+\n  one\n  two three\n\n  four\n\n\n  five\n  six\n\nf:\n- >4-\n    k: v # x\n- 1\n".toList := by
  decide +kernel

/-- Non-vacuity for layer 4: comment and blank lines between entries at several depths, trailing
comments after scalars, after `key:`, after a block scalar header and after a flow collection. -/
def exL4 : PNode :=
  .map false 0 false (.cons { trail := some " t: 1".toList } "a".toList .plain (.int 1 0)
    (.cons { fill := [.blank, .comment " about b".toList], trail := some " on key line".toList } "b".toList .plain
      (.seq false 2 false (.cons { fill := [.comment "in".toList] } (.str "x".toList .plain)
        (.cons { trail := some "e".toList } (.null 4)
        (.cons { fill := [.blank], trail := some " hdr".toList } (.str "l\n".toList (.literal .clip 2 false)) .nil))))
    (.cons { fill := [.comment "".toList, .blank], gap := 1, trail := some " [".toList } "c".toList .plain
      (.seq true 0 false (.cons {} (.int 2 0) .nil)) .nil)))


example : exL4.bl2 .root = true := by decide +kernel
example : admissible (bareStream exL4 0) = true := by decide +kernel
example : (bareStream exL4 0).chars =
    "a: 1 # t: 1\n\n# about b\nb: # on key line\n  #in\n  - x\n  - #e\n\n  - | # hdr\n    l\n#\n\nc:  [2] # [\n".toList := by
  decide +kernel

/-- Non-vacuity for layer 7 and the document-level parts of layers 3 and 4: filler lines before the
first document, a bare first document with a comment on its root, `...`, a `---` document whose root
is a block scalar on the marker line, a `---` document with an inline root and a comment, an empty
document, CRLF line breaks. -/
def exS7 : PStream :=
  { docs := [
      { fill := [.comment " top".toList, .blank], root := exL4, rootMeta := { trail := some " root".toList }, endMarker := true },
      { fill := [.blank], marker := true, root := .str "lit\n  x\n".toList (.literal .clip 2 false), rootMeta := { trail := some "c".toList } },
      { marker := true, root := .seq true 0 false (.cons {} (.int 1 0) .nil), rootMeta := { gap := 1, trail := some "".toList }, endMarker := true },
      { fill := [.comment "".toList], marker := true, root := .null 4 },
      { marker := true, root := exL3 } ],
    br := .crlf }

example : admissible exS7 = true := by decide +kernel

/-- Non-vacuity for layer 6: the streams of `familyAnchors` (scalar and collection anchors,
re-definition of an anchor name, aliases in flow and block context, an anchored block scalar) are
admissible (and load back: an instance of `render_load`, also evaluated by the kernel). -/
example : familyAnchors.all loadsBack = true := by decide +kernel

end SV.Props.C14
