/-
Props/C14 — YAML loading reproduces the value of every well-formed document.
Property theorems only; lemmas live in Proof/YamlRoundTrip.lean.
-/
import SuccinctlyVerif.Proof.YamlRoundTrip
namespace SV.Props.C14
open SV SV.Yaml

/-- Byte layer of `render_load`: rendering encodes the character stream as UTF-8 and the reference
loader decodes exactly that stream, for every stream (no side condition). -/
theorem render_load_bytes (s : PStream) : loadRef (render s) = loadChars s.chars :=
  loadRef_render s

example : (match loadChars (PStream.chars { docs := [{ root := .str "é x".toList .plain }] }) with
    | .ok [t] => t.beq (.str "é x".toList) | _ => false) = true := by decide +kernel

end SV.Props.C14
