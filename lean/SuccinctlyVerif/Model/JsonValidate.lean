/-
Model/JsonValidate — the strict validator of `src/json/validate.rs`, function by function.

`Validator { input, offset, line, column, nesting_depth }` becomes the value `St`: `rest` is
`input[offset..]` (so `peek = rest.head?`, `input[offset + i] = rest[i]`, `offset + n > input.len()`
⇔ `rest.length < n`), the four counters are carried explicitly. `&mut self` methods return the new
state; `Result<T, ValidationError>` is `Res T` (`fuel` = the model's recursion fuel ran out, proved
impossible for `validate`). Loops: `skip_whitespace` is structural on the remaining bytes, the
string loop and the value / array-loop / object-loop cycle are fuelled.
-/
import SuccinctlyVerif.Spec.Json
namespace SV.Json.Model
open SV.Json

/-- `expected:` payloads of `UnexpectedCharacter` / `UnexpectedEof`. -/
inductive Expected where
  | value          -- "JSON value"
  | key            -- "string key"
  | colon          -- "':'"
  | commaOrBrace   -- "',' or '}'"
  | commaOrBracket -- "',' or ']'"
  deriving DecidableEq, Repr

/-- `reason:` payloads. -/
inductive Reason where
  | hex4      -- "expected 4 hex digits"
  | hexEof    -- "unexpected end of input"
  | minus     -- "expected digit after minus sign"
  | frac      -- "expected digit after decimal point"
  | exp       -- "expected digit in exponent"
  deriving DecidableEq, Repr

/-- `ValidationErrorKind`. -/
inductive Kind where
  | unexpectedCharacter (expected : Expected) (found : Nat)
  | unexpectedEof (expected : Expected)
  | trailingContent
  | unclosedString
  | invalidEscape (sequence : Nat)
  | invalidUnicodeEscape (reason : Reason)
  | unpairedSurrogate (codepoint : Nat)
  | controlCharacter (byte : Nat)
  | leadingZero
  | leadingPlus
  | invalidNumber (reason : Reason)
  | invalidKeyword (found : Bytes)
  | invalidUtf8
  | nestingTooDeep (limit : Nat)
  deriving DecidableEq, Repr

/-- `ValidationError { kind, position: Position { offset, line, column } }`. -/
structure Err where
  kind : Kind
  offset : Nat
  line : Nat
  column : Nat
  deriving DecidableEq, Repr

/-- Validator state. -/
structure St where
  rest : Bytes
  offset : Nat
  line : Nat
  column : Nat
  depth : Nat
  deriving DecidableEq, Repr

inductive Res (α : Type) where
  | ok (a : α) (s : St)
  | err (e : Err)
  | fuel
  deriving Repr

def St.init (b : Bytes) : St := ⟨b, 0, 1, 1, 0⟩
/-- `peek` -/
def St.peek (s : St) : Option Byte := s.rest.head?
/-- `advance` -/
def St.advance (s : St) : St :=
  match s.rest with
  | [] => s
  | _ :: r => { s with rest := r, offset := s.offset + 1, column := s.column + 1 }
/-- `error` (at the current position) -/
def St.error (s : St) (k : Kind) : Err := ⟨k, s.offset, s.line, s.column⟩
def St.isEof (s : St) : Bool := s.rest.isEmpty

/-- `skip_whitespace` on the remaining bytes and the three position counters. `afterCr` = a `\r`
was just consumed (`offset += 1`) and the "Handle CRLF" peek is pending: a `\n` here is consumed
with it (`offset += 1`), then `line += 1; column = 1` – which is applied eagerly at the `\r`. -/
def skipWsL : Bytes → Bool → Nat → Nat → Nat → Bytes × Nat × Nat × Nat
  | [], _, o, l, c => ([], o, l, c)
  | b :: r, afterCr, o, l, c =>
    if afterCr ∧ b = 0x0A then skipWsL r false (o + 1) l c
    else if b = 0x20 ∨ b = 0x09 then skipWsL r false (o + 1) l (c + 1)
    else if b = 0x0A then skipWsL r false (o + 1) (l + 1) 1
    else if b = 0x0D then skipWsL r true (o + 1) (l + 1) 1
    else (b :: r, o, l, c)

def St.skipWs (s : St) : St :=
  let (r, o, l, c) := skipWsL s.rest false s.offset s.line s.column
  { s with rest := r, offset := o, line := l, column := c }

/-- `skip_digits`: consume the run of ASCII digits, `offset += n; column += n`. -/
def St.skipDigits (s : St) : Nat × St :=
  let n := (s.rest.takeWhile isDigit).length
  (n, { s with rest := s.rest.dropWhile isDigit, offset := s.offset + n, column := s.column + n })

def advanceN : Nat → St → St
  | 0, s => s
  | n + 1, s => advanceN n s.advance

/-- The decision of `validate_utf8_char` on `input[offset..]` (whose first byte is ≥ 0x80 or any
ASCII byte): `some len` = accept and advance `len` bytes, `none` = `InvalidUtf8`. -/
def utf8Len : Bytes → Option Nat
  | [] => none
  | b :: t =>
    if b < 0x80 then some 1
    else if b &&& 0xE0 = 0xC0 then
      match t with
      | b1 :: _ =>
        if b1 &&& 0xC0 ≠ 0x80 then none else
        let cp : BitVec 32 := ((b.setWidth 32 &&& 0x1F) <<< 6) ||| (b1.setWidth 32 &&& 0x3F)
        if cp < 0x80 ∨ cp > 0x7FF then none
        else if 0xD800 ≤ cp ∧ cp ≤ 0xDFFF then none else some 2
      | _ => none
    else if b &&& 0xF0 = 0xE0 then
      match t with
      | b1 :: b2 :: _ =>
        if b1 &&& 0xC0 ≠ 0x80 ∨ b2 &&& 0xC0 ≠ 0x80 then none else
        let cp : BitVec 32 := ((b.setWidth 32 &&& 0x0F) <<< 12)
          ||| ((b1.setWidth 32 &&& 0x3F) <<< 6) ||| (b2.setWidth 32 &&& 0x3F)
        if cp < 0x800 ∨ cp > 0xFFFF then none
        else if 0xD800 ≤ cp ∧ cp ≤ 0xDFFF then none else some 3
      | _ => none
    else if b &&& 0xF8 = 0xF0 then
      match t with
      | b1 :: b2 :: b3 :: _ =>
        if b1 &&& 0xC0 ≠ 0x80 ∨ b2 &&& 0xC0 ≠ 0x80 ∨ b3 &&& 0xC0 ≠ 0x80 then none else
        let cp : BitVec 32 := ((b.setWidth 32 &&& 0x07) <<< 18)
          ||| ((b1.setWidth 32 &&& 0x3F) <<< 12) ||| ((b2.setWidth 32 &&& 0x3F) <<< 6)
          ||| (b3.setWidth 32 &&& 0x3F)
        if cp < 0x10000 ∨ cp > 0x10FFFF then none
        else if 0xD800 ≤ cp ∧ cp ≤ 0xDFFF then none else some 4
      | _ => none
    else none

/-- `validate_utf8_char` -/
def validateUtf8Char (s : St) : Res Unit :=
  match utf8Len s.rest with
  | none => .err (s.error .invalidUtf8)
  | some n => .ok () (advanceN n s)

/-- The loop of `validate_unicode_escape`: `k` digits to go, value so far `v`. -/
def hexDigits : Nat → Nat → St → Res Nat
  | 0, v, s => .ok v s
  | k + 1, v, s =>
    match s.peek with
    | none => .err (s.error (.invalidUnicodeEscape .hexEof))
    | some b =>
      if isDigit b then hexDigits k (v * 16 + (b - 0x30).toNat) s.advance
      else if isLowerHex b then hexDigits k (v * 16 + ((b - 0x61).toNat + 10)) s.advance
      else if isUpperHex b then hexDigits k (v * 16 + ((b - 0x41).toNat + 10)) s.advance
      else .err (s.error (.invalidUnicodeEscape .hex4))

/-- `validate_unicode_escape` -/
def validateUnicodeEscape (s : St) : Res Nat := hexDigits 4 0 s

/-- `validate_escape` (called at the backslash) -/
def validateEscape (s : St) : Res Unit :=
  let s := s.advance
  match s.peek with
  | none => .err (s.error .unclosedString)
  | some c =>
    if isSimpleEsc c then .ok () s.advance
    else if c = 0x75 then
      match validateUnicodeEscape s.advance with
      | .err e => .err e
      | .fuel => .fuel
      | .ok high s =>
        if 0xD800 ≤ high ∧ high ≤ 0xDBFF then
          if s.peek ≠ some 0x5C then .err (s.error (.unpairedSurrogate high)) else
          let s := s.advance
          if s.peek ≠ some 0x75 then .err (s.error (.unpairedSurrogate high)) else
          let s := s.advance
          match validateUnicodeEscape s with
          | .err e => .err e
          | .fuel => .fuel
          | .ok low s =>
            if ¬(0xDC00 ≤ low ∧ low ≤ 0xDFFF) then .err (s.error (.unpairedSurrogate high))
            else .ok () s
        else if 0xDC00 ≤ high ∧ high ≤ 0xDFFF then .err (s.error (.unpairedSurrogate high))
        else .ok () s
    else .err (s.error (.invalidEscape c.toNat))

/-- The `loop` of `validate_string` (after the opening quote). -/
def stringLoop : Nat → St → Res Unit
  | 0, _ => .fuel
  | f + 1, s =>
    match s.peek with
    | none => .err (s.error .unclosedString)
    | some b =>
      if b = 0x22 then .ok () s.advance
      else if b = 0x5C then
        match validateEscape s with
        | .ok _ s => stringLoop f s
        | e => e
      else if b < 0x20 then .err (s.error (.controlCharacter b.toNat))
      else
        match validateUtf8Char s with
        | .ok _ s => stringLoop f s
        | e => e

/-- `validate_string` (called at the opening quote) -/
def validateString (s : St) : Res Unit := stringLoop (s.rest.length + 1) s.advance

def isE (b : Byte) : Bool := b == 0x65 || b == 0x45

/-- `validate_number` -/
def validateNumber (s : St) : Res Unit :=
  let s := if s.peek = some 0x2D then s.advance else s
  let intPart : Res Unit :=
    match s.peek with
    | some b =>
      if b = 0x30 then
        let s := s.advance
        match s.peek with
        | some d => if isDigit d then .err (s.error .leadingZero) else .ok () s
        | none => .ok () s
      else if isDigit19 b then .ok () s.advance.skipDigits.2
      else .err (s.error (.invalidNumber .minus))
    | none => .err (s.error (.invalidNumber .minus))
  match intPart with
  | .err e => .err e
  | .fuel => .fuel
  | .ok _ s =>
    let fracPart : Res Unit :=
      if s.peek = some 0x2E then
        let (n, s) := s.advance.skipDigits
        if n = 0 then .err (s.error (.invalidNumber .frac)) else .ok () s
      else .ok () s
    match fracPart with
    | .err e => .err e
    | .fuel => .fuel
    | .ok _ s =>
      match s.peek with
      | some e =>
        if isE e then
          let s := s.advance
          let s := match s.peek with
            | some g => if g = 0x2B ∨ g = 0x2D then s.advance else s
            | none => s
          let (n, s) := s.skipDigits
          if n = 0 then .err (s.error (.invalidNumber .exp)) else .ok () s
        else .ok () s
      | none => .ok () s

def isLower (b : Byte) : Bool := decide (0x61 ≤ b) && decide (b ≤ 0x7A)

/-- `validate_keyword` -/
def validateKeyword (s : St) : Res Unit :=
  let kw := s.rest.takeWhile isLower
  let n := kw.length
  if kw = kwNull ∨ kw = kwTrue ∨ kw = kwFalse then
    .ok () { s with rest := s.rest.dropWhile isLower, offset := s.offset + n, column := s.column + n }
  else
    -- position reset to `start`: offset = start, column = column' - (offset' - start)
    .err ⟨.invalidKeyword kw, s.offset, s.line, (s.column + n) - ((s.offset + n) - s.offset)⟩

inductive Mode where
  | value | arrayLoop | objectLoop
  deriving DecidableEq, Repr

def foundOf (o : Option Byte) : Nat := match o with | some b => b.toNat | none => 0

/-- `validate_value` / the `loop` of `validate_array_inner` / the `loop` of
`validate_object_inner`, with `validate_array`, `validate_object`, `enter_nested` inlined into the
`value` case. -/
def run (maxDepth : Nat) : Nat → Mode → St → Res Unit
  | 0, _, _ => .fuel
  | f + 1, .value, s =>
    match s.peek with
    | none => .err (s.error (.unexpectedEof .value))
    | some c =>
      if c = 0x7B then
        -- validate_object: enter_nested, inner, nesting_depth -= 1
        if s.depth ≥ maxDepth then .err (s.error (.nestingTooDeep maxDepth)) else
        let s1 := ({ s with depth := s.depth + 1 }).advance.skipWs
        if s1.peek = some 0x7D then .ok () { s1.advance with depth := s.depth }
        else
          match run maxDepth f .objectLoop s1 with
          | .ok _ s2 => .ok () { s2 with depth := s.depth }
          | e => e
      else if c = 0x5B then
        if s.depth ≥ maxDepth then .err (s.error (.nestingTooDeep maxDepth)) else
        let s1 := ({ s with depth := s.depth + 1 }).advance.skipWs
        if s1.peek = some 0x5D then .ok () { s1.advance with depth := s.depth }
        else
          match run maxDepth f .arrayLoop s1 with
          | .ok _ s2 => .ok () { s2 with depth := s.depth }
          | e => e
      else if c = 0x22 then validateString s
      else if c = 0x2D ∨ isDigit c then validateNumber s
      else if c = 0x74 ∨ c = 0x66 ∨ c = 0x6E then validateKeyword s
      else if c = 0x2B then .err (s.error .leadingPlus)
      else .err (s.error (.unexpectedCharacter .value c.toNat))
  | f + 1, .arrayLoop, s =>
    match run maxDepth f .value s with
    | .ok _ s =>
      let s := s.skipWs
      match s.peek with
      | none => .err (s.error (.unexpectedEof .commaOrBracket))
      | some c =>
        if c = 0x2C then
          let s := s.advance.skipWs
          if s.peek = some 0x5D then .err (s.error (.unexpectedCharacter .value 0x5D))
          else run maxDepth f .arrayLoop s
        else if c = 0x5D then .ok () s.advance
        else .err (s.error (.unexpectedCharacter .commaOrBracket c.toNat))
    | e => e
  | f + 1, .objectLoop, s =>
    if s.peek ≠ some 0x22 then .err (s.error (.unexpectedCharacter .key (foundOf s.peek))) else
    match validateString s with
    | .ok _ s =>
      let s := s.skipWs
      if s.peek ≠ some 0x3A then .err (s.error (.unexpectedCharacter .colon (foundOf s.peek))) else
      let s := s.advance.skipWs
      match run maxDepth f .value s with
      | .ok _ s =>
        let s := s.skipWs
        match s.peek with
        | none => .err (s.error (.unexpectedEof .commaOrBrace))
        | some c =>
          if c = 0x2C then
            let s := s.advance.skipWs
            if s.peek = some 0x7D then .err (s.error (.unexpectedCharacter .key 0x7D))
            else run maxDepth f .objectLoop s
          else if c = 0x7D then .ok () s.advance
          else .err (s.error (.unexpectedCharacter .commaOrBrace c.toNat))
      | e => e
    | e => e

/-- `Validator::new(input).validate()` -/
def validate (maxDepth : Nat) (b : Bytes) : Res Unit :=
  let s := (St.init b).skipWs
  if s.isEof then .err (s.error (.unexpectedEof .value)) else
  match run maxDepth (2 * b.length + 2) .value s with
  | .ok _ s =>
    let s := s.skipWs
    if ¬ s.isEof then .err (s.error .trailingContent) else .ok () s
  | e => e

end SV.Json.Model
