/-
Model/Binary — executable model of `src/binary.rs` over `bytemuck::cast_slice`.

A Rust `&[u8]` is a pointer + length; `bytemuck::cast_slice::<u8, u64>` inspects the POINTER: it
fails (and `cast_slice` panics) when the address is not a multiple of `align_of::<u64>() = 8`.
The model therefore takes the slice's address misalignment `a : Fin 8` (address mod 8) as an
explicit parameter next to the bytes.  `try_cast_slice` is modelled branch by branch from
bytemuck 1.25 `internal.rs` (alignment test first, then the size test); that this is what
bytemuck does is the assumed external behaviour (DESIGN §3), exercised by the harness at every
offset 0..7.  Words are laid out little-endian (x86-64 / aarch64 targets).
-/
import SuccinctlyVerif.Spec.Binary
namespace SV.BinaryM
open SV.Binary

/-- A Rust call either returns or panics. -/
inductive Outcome (α : Type) where
  | ok (v : α)
  | panic
deriving Repr, DecidableEq

inductive PodCastError where
  | TargetAlignmentGreaterAndInputNotAligned
  | OutputSliceWouldHaveSlop
deriving Repr, DecidableEq

/-- In-memory bytes of one `u64` on a little-endian target. -/
def wordToBytes (w : Word) : List Byte :=
  [w.setWidth 8, (w >>> 8).setWidth 8, (w >>> 16).setWidth 8, (w >>> 24).setWidth 8,
   (w >>> 32).setWidth 8, (w >>> 40).setWidth 8, (w >>> 48).setWidth 8, (w >>> 56).setWidth 8]

/-- The `u64` whose in-memory bytes are these eight. -/
def bytesToWord (b0 b1 b2 b3 b4 b5 b6 b7 : Byte) : Word :=
  b0.setWidth 64 ||| (b1.setWidth 64 <<< 8) ||| (b2.setWidth 64 <<< 16) ||| (b3.setWidth 64 <<< 24) |||
  (b4.setWidth 64 <<< 32) ||| (b5.setWidth 64 <<< 40) ||| (b6.setWidth 64 <<< 48) ||| (b7.setWidth 64 <<< 56)

/-- Reinterpret memory as `u64`s: full groups of 8 bytes (what `from_raw_parts(ptr as *const u64,
len / 8)` reads). -/
def reinterpret : List Byte → List Word
  | b0 :: b1 :: b2 :: b3 :: b4 :: b5 :: b6 :: b7 :: rest =>
    bytesToWord b0 b1 b2 b3 b4 b5 b6 b7 :: reinterpret rest
  | _ => []

/-- `bytemuck::try_cast_slice::<u8, u64>` on a slice at address ≡ `a` (mod 8):
`align_of::<u64>() > align_of::<u8>() && !is_aligned_to(ptr, 8)` ⇒ `TargetAlignment…`;
else (sizes differ) `input_bytes % 8 == 0` ⇒ `Ok`, else `OutputSliceWouldHaveSlop`. -/
def tryCastSliceU8U64 (a : Fin 8) (bytes : List Byte) : Except PodCastError (List Word) :=
  if a.val ≠ 0 then .error .TargetAlignmentGreaterAndInputNotAligned
  else if bytes.length % 8 = 0 then .ok (reinterpret bytes)
  else .error .OutputSliceWouldHaveSlop

/-- `bytemuck::cast_slice::<u8, u64>`: panics on any error. -/
def castSliceU8U64 (a : Fin 8) (bytes : List Byte) : Outcome (List Word) :=
  match tryCastSliceU8U64 a bytes with
  | .ok ws => .ok ws
  | .error _ => .panic

/-- `binary::words_to_bytes` = `cast_slice::<u64, u8>`: target alignment 1, `input_bytes % 1 == 0`
— never fails. -/
def wordsToBytes (ws : List Word) : List Byte := ws.flatMap wordToBytes

/-- `binary::bytes_to_words` -/
def bytesToWords (a : Fin 8) (bytes : List Byte) : Outcome (List Word) :=
  if bytes.isEmpty then .ok []                                  -- return &[]
  else if bytes.length % 8 ≠ 0 then .panic                     -- assert!(len % 8 == 0) (documented)
  else castSliceU8U64 a bytes

/-- `binary::bytes_to_words_vec` (after fix b9692bb): same empty / length checks, then
`bytes.chunks_exact(8).map(|c| u64::from_ne_bytes(c)).collect()` — a copy, which never looks at the
address: the misalignment `_a` is irrelevant. -/
def bytesToWordsVec (_a : Fin 8) (bytes : List Byte) : Outcome (List Word) :=
  if bytes.isEmpty then .ok []                                  -- return Vec::new()
  else if bytes.length % 8 ≠ 0 then .panic                     -- assert!(len % 8 == 0) (documented)
  else .ok (reinterpret bytes)                                  -- chunks_exact(8) + from_ne_bytes

/-- `binary::try_bytes_to_words` -/
def tryBytesToWords (a : Fin 8) (bytes : List Byte) : Outcome (Option (List Word)) :=
  if bytes.isEmpty then .ok (some [])
  else if bytes.length % 8 = 0 then
    match castSliceU8U64 a bytes with
    | .ok ws => .ok (some ws)
    | .panic => .panic
  else .ok none

end SV.BinaryM
