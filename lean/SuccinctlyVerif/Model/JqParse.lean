/-
Model/JqParse — total parser for jq program text (the modelled fragment of jq 1.7.1's grammar).

`parseProgram : String → Option Expr`; `none` = the text is outside the modelled fragment (or not
jq at all); the driver then answers `OUT-OF-FRAGMENT`. Precedences follow jq's `parser.y`:
`|` (right) < `,` < `//` (right) < `= |= += …` (nonassoc) < `or` < `and` < comparisons (nonassoc)
< `+ -` < `* / %`; unary minus at additive level; postfix `.f [e] [] [a:b] ?` bind tightest;
`T as P | body`, `label $l | body`, `def f: …; body` take everything to their right.
Desugarings are jq's own (`parser.y`): `.a` = index, `e?` = `try e`, `a op= b` =
`b as $__tmp | _modify(a; . op $__tmp)`, `a = b` = `_assign(a; b)`, `..` = `recurse`.
-/
import SuccinctlyVerif.Model.Jq
namespace SV.Jq

inductive Tok where
  | punct (s : String)
  | ident (s : String)
  | field (s : String)
  | var (s : String)
  | fmt (s : String)
  | num (s : String)
  /-- string literal: literal pieces, each optionally followed by an interpolated token list -/
  | str (parts : List (String × Option (List Tok)))
  deriving Inhabited, Repr

def isIdStart (c : Char) : Bool := c.isAlpha || c == '_'
def isIdChar (c : Char) : Bool := c.isAlphanum || c == '_'

def takeWhileL (f : Char → Bool) : List Char → List Char × List Char
  | c :: rest => if f c then let (a, b) := takeWhileL f rest; (c :: a, b) else ([], c :: rest)
  | [] => ([], [])

/-- identifier with `::` namespaces (namespaces are then rejected by the parser) -/
def takeIdent (cs : List Char) : List Char × List Char := takeWhileL isIdChar cs

def punct3 : List String := ["?//", "//="]
def punct2 : List String := ["|=", "+=", "-=", "*=", "/=", "%=", "==", "!=", "<=", ">=", "//", ".."]
def punct1 : List Char := ['.', '[', ']', '{', '}', '(', ')', '|', ',', ':', ';', '?', '=', '<', '>', '+', '-', '*', '/', '%']

mutual
/-- tokens until end of input (`interp = false`) or the closing `)` of an interpolation -/
def lex (fuel : Nat) (cs : List Char) (depth : Nat) (interp : Bool) (acc : List Tok) :
    Option (List Tok × List Char) :=
  match fuel with
  | 0 => none
  | fuel + 1 =>
    match cs with
    | [] => if interp then none else some (acc.reverse, [])
    | c :: rest =>
      if c == ' ' || c == '\t' || c == '\n' || c == '\r' then lex fuel rest depth interp acc
      else if c == '#' then lex fuel (rest.dropWhile (· != '\n')) depth interp acc
      else if c == '"' then
        match lexStr fuel rest [] [] with
        | some (parts, rest') => lex fuel rest' depth interp (.str parts :: acc)
        | none => none
      else if c == '$' then
        let (id, rest') := takeIdent rest
        if id.isEmpty then none else lex fuel rest' depth interp (.var (String.ofList id) :: acc)
      else if c == '@' then
        let (id, rest') := takeIdent rest
        if id.isEmpty then none else lex fuel rest' depth interp (.fmt (String.ofList ('@' :: id)) :: acc)
      else if isDigit c || (c == '.' && (match rest with | d :: _ => isDigit d | [] => false)) then
        -- number: digits [. digits] [e[+-]digits]
        let (ip, r1) := takeWhileL isDigit (c :: rest)
        let (fp, r2) := match r1 with
          | '.' :: r => let (a, b) := takeWhileL isDigit r; ('.' :: a, b)
          | r => ([], r)
        let (ep, r3) := match r2 with
          | e :: r =>
            if e == 'e' || e == 'E' then
              let (sg, r') := match r with
                | '+' :: r' => (['+'], r') | '-' :: r' => (['-'], r') | r' => ([], r')
              let (ds, r'') := takeWhileL isDigit r'
              if ds.isEmpty then ([], e :: r) else (e :: sg ++ ds, r'')
            else ([], e :: r)
          | [] => ([], [])
        lex fuel r3 depth interp (.num (String.ofList (ip ++ fp ++ ep)) :: acc)
      else if c == '.' && (match rest with | d :: _ => isIdStart d | [] => false) then
        let (id, rest') := takeIdent rest
        lex fuel rest' depth interp (.field (String.ofList id) :: acc)
      else if isIdStart c then
        let (id, rest') := takeIdent (c :: rest)
        match rest' with
        | ':' :: ':' :: _ => none
        | _ => lex fuel rest' depth interp (.ident (String.ofList id) :: acc)
      else
        let s3 := String.ofList ((c :: rest).take 3)
        let s2 := String.ofList ((c :: rest).take 2)
        if punct3.contains s3 then lex fuel (rest.drop 2) depth interp (.punct s3 :: acc)
        else if punct2.contains s2 then lex fuel (rest.drop 1) depth interp (.punct s2 :: acc)
        else if c == '(' then lex fuel rest (depth + 1) interp (.punct "(" :: acc)
        else if c == ')' then
          if depth == 0 then (if interp then some (acc.reverse, rest) else none)
          else lex fuel rest (depth - 1) interp (.punct ")" :: acc)
        else if punct1.contains c then lex fuel rest depth interp (.punct (String.singleton c) :: acc)
        else none
/-- body of a string literal after the opening quote -/
def lexStr (fuel : Nat) (cs : List Char) (cur : List Char)
    (parts : List (String × Option (List Tok))) :
    Option (List (String × Option (List Tok)) × List Char) :=
  match fuel with
  | 0 => none
  | fuel + 1 =>
    match cs with
    | [] => none
    | '"' :: rest => some ((parts.reverse ++ [(String.ofList cur.reverse, none)]), rest)
    | '\\' :: e :: rest =>
      let simple (c : Char) := lexStr fuel rest (c :: cur) parts
      if e == '"' then simple '"' else if e == '\\' then simple '\\' else if e == '/' then simple '/'
      else if e == 'b' then simple '\x08' else if e == 'f' then simple '\x0c'
      else if e == 'n' then simple '\n' else if e == 'r' then simple '\r' else if e == 't' then simple '\t'
      else if e == '(' then
        match lex fuel rest 0 true [] with
        | some (toks, rest') => lexStr fuel rest' [] ((String.ofList cur.reverse, some toks) :: parts)
        | none => none
      else if e == 'u' then
        match hex4Val rest with
        | none => none
        | some (u, rest') =>
          if 0xD800 ≤ u && u < 0xDC00 then
            match rest' with
            | '\\' :: 'u' :: rest2 =>
              match hex4Val rest2 with
              | some (lo, rest3) =>
                if 0xDC00 ≤ lo && lo < 0xE000 then
                  lexStr fuel rest3 (Char.ofNat (0x10000 + (u - 0xD800) * 1024 + (lo - 0xDC00)) :: cur) parts
                else none
              | none => none
            | _ => none
          else if 0xDC00 ≤ u && u < 0xE000 then none
          else lexStr fuel rest' (Char.ofNat u :: cur) parts
      else none
    | c :: rest => lexStr fuel rest (c :: cur) parts
end

def tokenize (s : String) : Option (List Tok) :=
  let cs := s.toList
  match lex (cs.length * 2 + 10) cs 0 false [] with
  | some (toks, _) => some toks
  | none => none

/-- does this token end an operand (so that a following `-` is the binary operator)? -/
def endsOperand : Tok → Bool
  | .num _ | .str _ | .field _ | .var _ | .fmt _ => true
  | .ident s => !(["and", "or", "if", "then", "elif", "else", "try", "catch", "reduce", "foreach", "as", "def", "label", "not_a_kw"].contains s) || s == "end"
  | .punct s => s == ")" || s == "]" || s == "}" || s == "?" || s == "." || s == ".."

/-- succinctly's lexer reads `-` directly followed by a number as one negative literal where a new
operand may start (`-1 * "a"` is `(-1) * "a"`, jq: `-(1 * "a")`); mirrored on the token list
(top level only; interpolations keep jq's reading). -/
def foldNegTokens (prev : Option Tok) : List Tok → List Tok
  | .punct "-" :: .num n :: rest =>
    if (match prev with | some t => endsOperand t | none => false) then
      .punct "-" :: foldNegTokens (some (.punct "-")) (.num n :: rest)
    else if n.toList.all isDigit then .num ("-" ++ n) :: foldNegTokens (some (.num n)) rest
    else .punct "-" :: foldNegTokens (some (.punct "-")) (.num n :: rest)
  | t :: rest => t :: foldNegTokens (some t) rest
  | [] => []

/-! ### parser -/

abbrev P (α : Type) := Option (α × List Tok)

def keywords : List String :=
  ["and", "or", "if", "then", "elif", "else", "end", "try", "catch", "reduce", "foreach", "as",
   "def", "label", "import", "include", "__loc__"]

def binPrec (t : Tok) : Option (String × Nat × Bool × Bool) :=
  -- (op, precedence, rightAssoc, nonAssoc)
  match t with
  | .punct "|" => some ("|", 1, true, false)
  | .punct "," => some (",", 2, false, false)
  | .punct "//" => some ("//", 3, true, false)
  | .punct "=" => some ("=", 4, false, true)
  | .punct "|=" => some ("|=", 4, false, true)
  | .punct "+=" => some ("+=", 4, false, true)
  | .punct "-=" => some ("-=", 4, false, true)
  | .punct "*=" => some ("*=", 4, false, true)
  | .punct "/=" => some ("/=", 4, false, true)
  | .punct "%=" => some ("%=", 4, false, true)
  | .punct "//=" => some ("//=", 4, false, true)
  | .ident "or" => some ("or", 5, false, false)
  | .ident "and" => some ("and", 6, false, false)
  | .punct "==" => some ("==", 7, false, true)
  | .punct "!=" => some ("!=", 7, false, true)
  | .punct "<" => some ("<", 7, false, true)
  | .punct "<=" => some ("<=", 7, false, true)
  | .punct ">" => some (">", 7, false, true)
  | .punct ">=" => some (">=", 7, false, true)
  | .punct "+" => some ("+", 8, false, false)
  | .punct "-" => some ("-", 8, false, false)
  | .punct "*" => some ("*", 9, false, false)
  | .punct "/" => some ("/", 9, false, false)
  | .punct "%" => some ("%", 9, false, false)
  | _ => none

def mkBin (op : String) (a b : Expr) : Expr :=
  match op with
  | "|" => .pipe a b
  | "," => .comma a b
  | "//" => .alt a b
  | "=" => .call "_assign" [a, b]
  | "|=" => .call "_modify" [a, b]
  | "//=" => .bind b (.var "__tmp") (.call "_modify_alt" [a, .var "__tmp"])
  | "or" => .or_ a b
  | "and" => .and_ a b
  | op =>
    if op.endsWith "=" && op.length == 2 && op != "==" && op != "!=" && op != "<=" && op != ">=" then
      let o := (op.take 1).toString
      .bind b (.var "__tmp") (.call "_modify" [a, .binop o .identity (.var "__tmp")])
    else .binop op a b

def expect (s : String) : List Tok → Option (List Tok)
  | .punct p :: rest => if p == s then some rest else none
  | _ => none

def expectKw (s : String) : List Tok → Option (List Tok)
  | .ident p :: rest => if p == s then some rest else none
  | _ => none

mutual
/-- full expression (pipe level) -/
def pPipe (fuel : Nat) (ts : List Tok) : P Expr := pExpr fuel 1 ts

/-- precedence climbing from `minPrec` -/
def pExpr (fuel : Nat) (minPrec : Nat) (ts : List Tok) : P Expr :=
  match fuel with
  | 0 => none
  | fuel + 1 =>
    match pOperand fuel ts with
    | none => none
    | some (lhs, rest) => pBinLoop fuel minPrec lhs rest 100

/-- `maxPrec`: operators of precedence ≥ maxPrec are not allowed next (non-associativity) -/
def pBinLoop (fuel : Nat) (minPrec : Nat) (lhs : Expr) (ts : List Tok) (maxPrec : Nat) : P Expr :=
  match fuel with
  | 0 => none
  | fuel + 1 =>
    match ts with
    | [] => some (lhs, [])
    | t :: rest =>
      match binPrec t with
      | none => some (lhs, ts)
      | some (op, prec, rightA, nonA) =>
        if prec < minPrec then some (lhs, ts)
        else if prec ≥ maxPrec then none
        else
          match pExpr fuel (if rightA then prec else prec + 1) rest with
          | none => none
          | some (rhs, rest') =>
            pBinLoop fuel minPrec (mkBin op lhs rhs) rest' (if nonA then prec else 100)

/-- operand: prefix forms, then a postfix term, then optional `as` binding -/
def pOperand (fuel : Nat) (ts : List Tok) : P Expr :=
  match fuel with
  | 0 => none
  | fuel + 1 =>
    match ts with
    | .punct "-" :: rest =>
      -- unary minus: operand at additive level
      match pExpr fuel 9 rest with
      | some (e, rest') => some (.neg e, rest')
      | none => none
    | .ident "def" :: rest =>
      match pDef fuel rest with
      | some ((name, params, body), rest') =>
        match pPipe fuel rest' with
        | some (k, rest'') => some (.def_ name params body k, rest'')
        | none => none
      | none => none
    | .ident "label" :: .var l :: .punct "|" :: rest =>
      match pPipe fuel rest with
      | some (b, rest') => some (.label l b, rest')
      | none => none
    | _ =>
      match pPostfix fuel ts with
      | none => none
      | some (t, rest) =>
        match rest with
        | .ident "as" :: rest' =>
          match pPattern fuel rest' with
          | some (pat, .punct "|" :: rest'') =>
            match pPipe fuel rest'' with
            | some (b, r) => some (.bind t pat b, r)
            | none => none
          | _ => none
        | _ => some (t, rest)

def pDef (fuel : Nat) (ts : List Tok) : P (String × List String × Expr) :=
  match fuel with
  | 0 => none
  | fuel + 1 =>
    match ts with
    | .ident name :: .punct ":" :: rest =>
      match pPipe fuel rest with
      | some (body, .punct ";" :: rest') => some ((name, [], body), rest')
      | _ => none
    | .ident name :: .punct "(" :: rest =>
      match pParams fuel rest [] with
      | some (ps, .punct ":" :: rest') =>
        match pPipe fuel rest' with
        | some (body, .punct ";" :: rest'') => some ((name, ps, body), rest'')
        | _ => none
      | _ => none
    | _ => none

def pParams (fuel : Nat) (ts : List Tok) (acc : List String) : P (List String) :=
  match fuel with
  | 0 => none
  | fuel + 1 =>
    match ts with
    | .ident p :: .punct ";" :: rest => pParams fuel rest (p :: acc)
    | .ident p :: .punct ")" :: rest => some ((p :: acc).reverse, rest)
    | .var p :: .punct ";" :: rest => pParams fuel rest (("$" ++ p) :: acc)
    | .var p :: .punct ")" :: rest => some ((("$" ++ p) :: acc).reverse, rest)
    | _ => none

def pPattern (fuel : Nat) (ts : List Tok) : P Pattern :=
  match fuel with
  | 0 => none
  | fuel + 1 =>
    match ts with
    | .var x :: rest => some (.var x, rest)
    | .punct "[" :: rest => pPatArr fuel rest []
    | .punct "{" :: rest => pPatObj fuel rest []
    | _ => none

def pPatArr (fuel : Nat) (ts : List Tok) (acc : List Pattern) : P Pattern :=
  match fuel with
  | 0 => none
  | fuel + 1 =>
    match pPattern fuel ts with
    | some (q, .punct "," :: rest) => pPatArr fuel rest (q :: acc)
    | some (q, .punct "]" :: rest) => some (.arr (q :: acc).reverse, rest)
    | _ => none

def pPatObj (fuel : Nat) (ts : List Tok) (acc : List (String × Bool × Option Pattern)) : P Pattern :=
  match fuel with
  | 0 => none
  | fuel + 1 =>
    let fin (e : String × Bool × Option Pattern) (rest : List Tok) : P Pattern :=
      match rest with
      | .punct "," :: rest' => pPatObj fuel rest' (e :: acc)
      | .punct "}" :: rest' => some (.obj (e :: acc).reverse, rest')
      | _ => none
    match ts with
    | .var x :: .punct ":" :: rest =>
      match pPattern fuel rest with
      | some (q, rest') => fin (x, true, some q) rest'
      | none => none
    | .var x :: rest => fin (x, true, none) rest
    | .ident k :: .punct ":" :: rest =>
      match pPattern fuel rest with
      | some (q, rest') => fin (k, false, some q) rest'
      | none => none
    | .str [(k, none)] :: .punct ":" :: rest =>
      match pPattern fuel rest with
      | some (q, rest') => fin (k, false, some q) rest'
      | none => none
    | _ => none

/-- postfix term: primary followed by `.f`, `."s"`, `[…]`, `?` -/
def pPostfix (fuel : Nat) (ts : List Tok) : P Expr :=
  match fuel with
  | 0 => none
  | fuel + 1 =>
    match pPrimary fuel ts with
    | none => none
    | some (t, rest) => pPostLoop fuel t rest

def pPostLoop (fuel : Nat) (t : Expr) (ts : List Tok) : P Expr :=
  match fuel with
  | 0 => none
  | fuel + 1 =>
    match ts with
    | .field f :: rest => pPostLoop fuel (.index t (.lit (.str f))) rest
    | .punct "." :: .str parts :: rest =>
      match pStrParts fuel parts [] with
      | some se => pPostLoop fuel (.index t (mkStr none se)) rest
      | none => none
    | .punct "." :: .punct "[" :: rest => pBracket fuel t rest
    | .punct "[" :: rest => pBracket fuel t rest
    | .punct "?" :: rest =>
      -- jq: `T.f?`, `T[e]?`, `T[]?`, `T[a:b]?` make only that step optional; otherwise `E?` = `try E`
      let t' := match t with
        | .index a k false => Expr.index a k true
        | .slice a lo hi false => Expr.slice a lo hi true
        | .iterate a false => Expr.iterate a true
        | t => .try_ t none
      pPostLoop fuel t' rest
    | _ => some (t, ts)

/-- after `[`: `]`, `e]`, `e:]`, `:e]`, `e:e]` -/
def pBracket (fuel : Nat) (t : Expr) (ts : List Tok) : P Expr :=
  match fuel with
  | 0 => none
  | fuel + 1 =>
    match ts with
    | .punct "]" :: rest => pPostLoop fuel (.iterate t) rest
    | .punct ":" :: rest =>
      match pPipe fuel rest with
      | some (hi, .punct "]" :: rest') => pPostLoop fuel (.slice t none (some hi)) rest'
      | _ => none
    | _ =>
      match pPipe fuel ts with
      | some (e, .punct "]" :: rest) => pPostLoop fuel (.index t e) rest
      | some (lo, .punct ":" :: .punct "]" :: rest) => pPostLoop fuel (.slice t (some lo) none) rest
      | some (lo, .punct ":" :: rest) =>
        match pPipe fuel rest with
        | some (hi, .punct "]" :: rest') => pPostLoop fuel (.slice t (some lo) (some hi)) rest'
        | _ => none
      | _ => none

def mkStr (fmt : Option String) (parts : List (String × Option Expr)) : Expr :=
  match fmt, parts with
  | none, [(s, none)] => .lit (.str s)
  | some _, [(s, none)] => .lit (.str s)
  | f, ps => .interp f ps

def pStrParts (fuel : Nat) (parts : List (String × Option (List Tok))) (acc : List (String × Option Expr)) :
    Option (List (String × Option Expr)) :=
  match fuel with
  | 0 => none
  | fuel + 1 =>
    match parts with
    | [] => some acc.reverse
    | (s, none) :: rest => pStrParts fuel rest ((s, none) :: acc)
    | (s, some toks) :: rest =>
      match pPipe fuel toks with
      | some (e, []) => pStrParts fuel rest ((s, some e) :: acc)
      | _ => none

def pPrimary (fuel : Nat) (ts : List Tok) : P Expr :=
  match fuel with
  | 0 => none
  | fuel + 1 =>
    match ts with
    | .punct ".." :: rest => some (.call "recurse" [], rest)
    | .punct "." :: .str parts :: rest =>
      match pStrParts fuel parts [] with
      | some se => some (.index .identity (mkStr none se), rest)
      | none => none
    | .punct "." :: rest => some (.identity, rest)
    | .field f :: rest => some (.index .identity (.lit (.str f)), rest)
    | .num s :: rest => some (.lit (.num s), rest)
    | .str parts :: rest =>
      match pStrParts fuel parts [] with
      | some se => some (mkStr none se, rest)
      | none => none
    | .fmt f :: .str parts :: rest =>
      match pStrParts fuel parts [] with
      | some se => some (mkStr (some f) se, rest)
      | none => none
    | .fmt f :: rest => some (.format f, rest)
    | .var "__loc__" :: _ => none
    | .var "ENV" :: _ => none
    | .var x :: rest => some (.var x, rest)
    | .punct "(" :: rest =>
      match pPipe fuel rest with
      -- parentheses are dropped, except that `(.)`, `(.a)`, `(.[0])`, `(tostring)` stay distinguishable
      -- from the bare forms (as the equivalent `. | e`): succinctly answers only the bare forms directly
      -- on a `reduce`/`foreach` state (`foldFastPath`)
      | some (e, .punct ")" :: rest') => some (if foldFastPath e then .pipe .identity e else e, rest')
      | _ => none
    | .punct "[" :: .punct "]" :: rest => some (.arr none, rest)
    | .punct "[" :: rest =>
      match pPipe fuel rest with
      | some (e, .punct "]" :: rest') => some (.arr (some e), rest')
      | _ => none
    | .punct "{" :: .punct "}" :: rest => some (.obj [], rest)
    | .punct "{" :: rest => pObjEntries fuel rest []
    | .ident "if" :: rest => pIf fuel rest
    | .ident "try" :: rest =>
      match pPostfix fuel rest with
      | some (b, .ident "catch" :: rest') =>
        match pPostfix fuel rest' with
        | some (h, rest'') => some (.try_ b (some h), rest'')
        | none => none
      | some (b, rest') => some (.try_ b none, rest')
      | none => none
    | .ident "reduce" :: rest =>
      match pPostfix fuel rest with
      | some (src, .ident "as" :: rest') =>
        match pPattern fuel rest' with
        | some (pat, .punct "(" :: rest'') =>
          match pPipe fuel rest'' with
          | some (init, .punct ";" :: r3) =>
            match pPipe fuel r3 with
            | some (upd, .punct ")" :: r4) => some (.reduce src pat init upd, r4)
            | _ => none
          | _ => none
        | _ => none
      | _ => none
    | .ident "foreach" :: rest =>
      match pPostfix fuel rest with
      | some (src, .ident "as" :: rest') =>
        match pPattern fuel rest' with
        | some (pat, .punct "(" :: rest'') =>
          match pPipe fuel rest'' with
          | some (init, .punct ";" :: r3) =>
            match pPipe fuel r3 with
            | some (upd, .punct ")" :: r4) => some (.foreach src pat init upd none, r4)
            | some (upd, .punct ";" :: r4) =>
              match pPipe fuel r4 with
              | some (ext, .punct ")" :: r5) => some (.foreach src pat init upd (some ext), r5)
              | _ => none
            | _ => none
          | _ => none
        | _ => none
      | _ => none
    | .ident "break" :: .var l :: rest => some (.brk l, rest)
    | .ident "null" :: rest => some (.lit .null, rest)
    | .ident "true" :: rest => some (.lit .true_, rest)
    | .ident "false" :: rest => some (.lit .false_, rest)
    | .ident name :: rest =>
      if keywords.contains name then none
      else
        match rest with
        | .punct "(" :: rest' =>
          match pArgs fuel rest' [] with
          | some (args, rest'') => some (.call name args, rest'')
          | none => none
        | _ => some (.call name [], rest)
    | _ => none

def pArgs (fuel : Nat) (ts : List Tok) (acc : List Expr) : P (List Expr) :=
  match fuel with
  | 0 => none
  | fuel + 1 =>
    match pPipe fuel ts with
    | some (e, .punct ";" :: rest) => pArgs fuel rest (e :: acc)
    | some (e, .punct ")" :: rest) => some ((e :: acc).reverse, rest)
    | _ => none

def pIf (fuel : Nat) (ts : List Tok) : P Expr :=
  match fuel with
  | 0 => none
  | fuel + 1 =>
    match pPipe fuel ts with
    | some (c, .ident "then" :: rest) =>
      match pPipe fuel rest with
      | some (t, .ident "end" :: rest') => some (.ite c t none, rest')
      | some (t, .ident "else" :: rest') =>
        match pPipe fuel rest' with
        | some (e, .ident "end" :: r) => some (.ite c t (some e), r)
        | _ => none
      | some (t, .ident "elif" :: rest') =>
        match pIf fuel rest' with
        | some (e, r) => some (.ite c t (some e), r)
        | none => none
      | _ => none
    | _ => none

/-- object value (`ExpD`): postfix terms joined by `|`, with unary minus -/
def pObjVal (fuel : Nat) (ts : List Tok) : P Expr :=
  match fuel with
  | 0 => none
  | fuel + 1 =>
    let one : P Expr :=
      match ts with
      | .punct "-" :: rest =>
        match pObjVal fuel rest with
        | some (e, r) => some (.neg e, r)
        | none => none
      | _ => pPostfix fuel ts
    match one with
    | some (a, .punct "|" :: rest) =>
      match pObjVal fuel rest with
      | some (b, r) => some (.pipe a b, r)
      | none => none
    | o => o

def pObjEntries (fuel : Nat) (ts : List Tok) (acc : List (Expr × Expr)) : P Expr :=
  match fuel with
  | 0 => none
  | fuel + 1 =>
    let fin (e : Expr × Expr) (rest : List Tok) : P Expr :=
      match rest with
      | .punct "," :: rest' => pObjEntries fuel rest' (e :: acc)
      | .punct "}" :: rest' => some (.obj (e :: acc).reverse, rest')
      | _ => none
    let withKey (k : Expr) (rest : List Tok) (dflt : Option Expr) : P Expr :=
      match rest with
      | .punct ":" :: rest' =>
        match pObjVal fuel rest' with
        | some (v, r) => fin (k, v) r
        | none => none
      | _ =>
        match dflt with
        | some v => fin (k, v) rest
        | none => none
    match ts with
    | .ident k :: rest => withKey (.lit (.str k)) rest (some (.index .identity (.lit (.str k))))
    | .var "__loc__" :: _ => none
    | .var x :: rest => fin (.lit (.str x), .var x) rest
    | .str parts :: rest =>
      match pStrParts fuel parts [] with
      | some se => withKey (mkStr none se) rest (some (.index .identity (mkStr none se)))
      | none => none
    | .fmt f :: .str parts :: rest =>
      match pStrParts fuel parts [] with
      | some se => withKey (mkStr (some f) se) rest none
      | none => none
    | .num s :: rest => withKey (.lit (.num s)) rest none
    | .punct "(" :: rest =>
      match pPipe fuel rest with
      | some (k, .punct ")" :: rest') => withKey k rest' none
      | _ => none
    | _ => none
end

def isP (c : String) : Tok → Bool
  | .punct s => s == c
  | _ => false

/-- `-` directly before a number inside a string interpolation (succinctly folds it into the literal
there as well; the token-level mirror `foldNegTokens` works on the top level only) -/
def interpNeg (fuel : Nat) (ts : List Tok) (inInterp : Bool) : Bool :=
  match fuel with
  | 0 => false
  | fuel + 1 =>
    (inInterp && (ts.zip (ts.drop 1)).any (fun (a, b) => isP "-" a && (match b with | .num _ => true | _ => false))) ||
    ts.any fun t =>
      match t with
      | .str parts => parts.any fun (_, o) => match o with | some ts' => interpNeg fuel ts' true | none => false
      | _ => false

def parseProgram (s : String) (foldNeg : Bool := false) : Option Expr :=
  match tokenize s with
  | none => none
  | some toks0 =>
    let toks := if foldNeg then foldNegTokens none toks0 else toks0
    -- succinctly reads `-T??` as `(-(T?))?` (jq: `-((T?)?)`): no verdict on `??` in a program with a minus
    if foldNeg && interpNeg 50 toks0 false then none else
    if foldNeg && toks.any (isP "-") && (toks.zip (toks.drop 1)).any (fun (a, b) => isP "?" a && isP "?" b) then none else
    match pPipe (toks.length * 4 + 50) toks with
    | some (e, []) => some e
    | _ => none

end SV.Jq
