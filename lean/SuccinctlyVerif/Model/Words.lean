/-
Model/Words — executable models of the word-level kernels (C02), following the Rust code line by
line.  `k`/`p` arguments are Rust `u32`; they are modelled as `Nat` with the bound as a hypothesis
of the theorems where it matters (`k < 2^32`).
-/
import SuccinctlyVerif.Model.Prim
import SuccinctlyVerif.Generated.Common
namespace SV

/-! ### select_in_word — CTZ loop (`src/util/broadword.rs select_in_word_ctz`) -/

/-- The `loop { … }` of `select_in_word_ctz`; `fuel` bounds the iterations (65 suffice: each
iteration that does not return clears one set bit). -/
def selectCtzLoop : Nat → BitVec 64 → Nat → Nat
  | 0, _, _ => 64
  | fuel + 1, val, remaining =>
    if val = 0 then 64
    else if remaining = 0 then tz val
    else selectCtzLoop fuel (val &&& (val - 1)) (remaining - 1)

def selectCtz (x : BitVec 64) (k : Nat) : Nat := selectCtzLoop 65 x k

/-! ### select_in_byte (`src/util/table.rs`) over the generated table -/

def selectInByteTable (b : BitVec 8) (k : Nat) : Nat :=
  if k ≥ 8 then 8 else (Gen.SELECT_IN_BYTE_TABLE_L.getD (b.toNat * 8 + k) 8).toNat

/-! ### select_in_word — broadword (`src/util/broadword.rs select_in_word_broadword`) -/

/-- The `for i in 0..8 { … break }` loop: returns `(byte_idx, cumulative)`. -/
def bwFindByte (byteCounts : BitVec 64) (k : Nat) : Nat → Nat → Nat → Nat × Nat
  | 0, _, cumulative => (0, cumulative)   -- loop ran to completion: byte_idx stays 0
  | fuel + 1, i, cumulative =>
    let bytePop := ((byteCounts >>> (i * 8)) &&& 0xFF#64).toNat
    if cumulative + bytePop > k then (i, cumulative)
    else bwFindByte byteCounts k fuel (i + 1) (cumulative + bytePop)

def selectBroadword (x : BitVec 64) (k : Nat) : Nat :=
  if x = 0 then 64
  else
    let pop := popc x
    if k ≥ pop then 64
    else
      let byteCounts := Gen.broadword_byte_counts x
      let (byteIdx, cumulative) := bwFindByte byteCounts k 8 0 0
      let byteOffset := byteIdx * 8
      let targetByte := ((x >>> byteOffset) &&& 0xFF#64).setWidth 8
      let kInByte := k - cumulative
      byteOffset + selectInByteTable targetByte kInByte

/-! ### select_in_word — PDEP (`src/util/simd/x86.rs select_in_word_pdep`) -/

def selectPdep (x : BitVec 64) (k : Nat) : Nat :=
  if x = 0 then 64
  else
    let pop := popc x
    if k ≥ pop then 64
    else
      let mask : BitVec 64 := if k ≥ 63 then BitVec.allOnes 64 else (1#64 <<< (k + 1)) - 1
      let scattered := pdep mask x
      if scattered = 0 then 64 else ilog2 scattered

/-! ### popcounts -/

def popcountPortable (x : BitVec 64) : Nat := (Gen.popcount_word_portable x).toNat

def blockPopcountPortable (block : List (BitVec 64)) : Nat :=
  (block.map popc).sum

/-- Nibble lookup table of `block_popcount_avx2` (the `_mm256_setr_epi8` literal, one 16-byte lane). -/
def nibbleLut : List Nat := [0, 1, 1, 2, 1, 2, 2, 3, 1, 2, 2, 3, 2, 3, 3, 4]

/-- Bytes of a word, little endian. -/
def wordBytes (w : BitVec 64) : List (BitVec 8) :=
  (List.range 8).map fun i => (w >>> (i * 8)).setWidth 8

/-- Lane model of `block_popcount_avx2`: two 32-byte vectors; per byte
`lut[b & 0x0F] + lut[(b >> 4) & 0x0F]` (`vpshufb` lookups, `add_epi8`), accumulated across the two
vectors in `u8` lanes (`add_epi8`, wrapping), `vpsadbw` against zero sums each group of 8 bytes into
a `u64` lane, and the four lanes are added. -/
def blockPopcountAvx2 (block : List (BitVec 64)) : Nat :=
  let bytes := block.flatMap wordBytes              -- 64 bytes
  let counts := bytes.map fun b =>
    (nibbleLut.getD (b &&& 0x0F#8).toNat 0 + nibbleLut.getD ((b >>> 4) &&& 0x0F#8).toNat 0) % 256
  let v0 := counts.take 32
  let v1 := (counts.drop 32).take 32
  let acc := List.zipWith (fun a b => (a + b) % 256) v0 v1   -- 32 u8 lanes
  let lane (j : Nat) := ((acc.drop (8 * j)).take 8).sum       -- vpsadbw: u64 lane j
  lane 0 + lane 1 + lane 2 + lane 3

/-! ### in-word parenthesis kernels (`src/trees/bp.rs`) -/

/-- `find_unmatched_close_in_word`: the `for bit in 0..64` scan with an `i32` excess. -/
def fucLoop (x : BitVec 64) : Nat → Nat → Int → Nat
  | 0, _, _ => 64
  | fuel + 1, bit, excess =>
    if x.getLsbD bit then fucLoop x fuel (bit + 1) (excess + 1)
    else if excess - 1 < 0 then bit
    else fucLoop x fuel (bit + 1) (excess - 1)

def findUnmatchedCloseInWord (x : BitVec 64) : Nat := fucLoop x 64 0 0

/-- `find_close_in_word(word, p)`. -/
def findCloseInWord (word : BitVec 64) (p : Nat) : Option Nat :=
  if p ≥ 64 then none
  else
    let shifted := word >>> p
    if shifted &&& 1#64 = 0 then some p
    else
      let afterOpen := shifted >>> 1
      let remainingBits := 63 - p
      if remainingBits = 0 then none
      else
        let result := findUnmatchedCloseInWord afterOpen
        if result < remainingBits then some (p + 1 + result) else none

end SV
