/-
Model/JsonLocate — `src/json/locate.rs`: which node a byte offset denotes, the path from the root to
it, and the jq expression printed for that path.

Two layers.
* Rendering (function by function): `can_use_dot_notation`, `escape_jq_string`,
  `PathComponent::to_jq_string`, the expression assembly at the end of `path_to_bp`.
* Node selection over the document's node table (`PNode`: every value and every key, in preorder,
  with its byte span): `find_node_at_offset` picks the node whose interest bit is the last one at a
  position ≤ offset (C07 `cursor_at_offset_eq`; interest bits = first bytes of nodes, C05/C06),
  `path_to_bp` walks `parent` links counting preceding siblings / finding the member's key.
-/
namespace SV.JsonLocate

abbrev Byte := BitVec 8
abbrev Bytes := List Byte

/-! ### rendering -/

/-- the `RESERVED` list of `can_use_dot_notation` -/
def reservedWords : List (List Char) :=
  ["and", "as", "catch", "def", "elif", "else", "end", "foreach", "if", "import", "include",
   "label", "or", "reduce", "then", "try", "__loc__"].map String.toList

/-- `can_use_dot_notation`: an ASCII jq identifier (`char::is_ascii_alphabetic` = `Char.isAlpha`,
`is_ascii_alphanumeric` = `Char.isAlphanum`) that is not a reserved word -/
def canUseDotNotation (key : List Char) : Bool :=
  match key with
  | [] => false
  | first :: rest =>
    if !(first.isAlpha || first == '_') then false
    else (rest.all fun c => c.isAlphanum || c == '_') && !reservedWords.contains key

/-- `escape_jq_string` -/
def escapeJqString (s : List Char) : List Char :=
  s.flatMap fun c =>
    if c = '"' then ['\\', '"']
    else if c = '\\' then ['\\', '\\']
    else if c = '\n' then ['\\', 'n']
    else if c = '\r' then ['\\', 'r']
    else if c = '\t' then ['\\', 't']
    else [c]

/-- `PathComponent` -/
inductive Comp where
  | index (i : Nat)
  | dotKey (k : List Char)
  | bracketKey (k : List Char)
  deriving DecidableEq, Repr

/-- `PathComponent::to_jq_string` -/
def Comp.toJq : Comp → List Char
  | .index i => ['['] ++ (toString i).toList ++ [']']
  | .dotKey k => '.' :: k
  | .bracketKey k => ['[', '"'] ++ escapeJqString k ++ ['"', ']']

/-- component for an object member (the `if can_use_dot_notation(&key)` in `path_to_bp`) -/
def Comp.ofKey (k : List Char) : Comp := if canUseDotNotation k then .dotKey k else .bracketKey k

/-- The expression assembly at the end of `path_to_bp`. -/
def renderPath (comps : List Comp) : List Char :=
  match comps with
  | [] => ['.']
  | first :: _ =>
    (match first with
      | .dotKey _ => []
      | _ => ['.']) ++ comps.flatMap Comp.toJq

/-! ### node table -/

/-- One node of the document (a value or an object key) with its byte span; for an object the
children alternate key, value. -/
inductive PNode where
  | mk (start stop : Nat) (first : Byte) (kids : List PNode)
  deriving Inhabited

def PNode.start : PNode → Nat | .mk s _ _ _ => s
def PNode.stop : PNode → Nat | .mk _ e _ _ => e
def PNode.first : PNode → Byte | .mk _ _ f _ => f
def PNode.kids : PNode → List PNode | .mk _ _ _ k => k
def PNode.isObj (n : PNode) : Bool := n.first == 0x7B
def PNode.isArr (n : PNode) : Bool := n.first == 0x5B

def isWsB (b : Byte) : Bool := b == 0x20 || b == 0x09 || b == 0x0A || b == 0x0D

def skipWs : Bytes → Nat → Bytes × Nat
  | b :: r, p => if isWsB b then skipWs r (p + 1) else (b :: r, p)
  | [], p => ([], p)

/-- end of a string token whose opening quote has been consumed -/
def strEnd : Bytes → Nat → Option (Bytes × Nat)
  | [], _ => none
  | b :: r, p =>
    if b = 0x22 then some (r, p + 1)
    else if b = 0x5C then
      match r with
      | _ :: r2 => strEnd r2 (p + 2)
      | [] => none
    else strEnd r (p + 1)
termination_by bs => bs.length

/-- end of a number / literal token -/
def atomEnd : Bytes → Nat → Bytes × Nat
  | b :: r, p =>
    if isWsB b || b == 0x2C || b == 0x5D || b == 0x7D then (b :: r, p) else atomEnd r (p + 1)
  | [], p => ([], p)

mutual
  /-- one value starting at the head of the input (which is not whitespace) -/
  def scanValue : Nat → Bytes → Nat → Option (PNode × Bytes × Nat)
    | 0, _, _ => none
    | _, [], _ => none
    | f + 1, b :: r, p =>
      if b = 0x22 then
        (strEnd r (p + 1)).map fun (r', e) => (.mk p e b [], r', e)
      else if b = 0x5B then
        let (r1, p1) := skipWs r (p + 1)
        match r1 with
        | c :: r2 =>
          if c = 0x5D then some (.mk p (p1 + 1) b [], r2, p1 + 1)
          else (scanElems f r1 p1 []).map fun (kids, r', e) => (.mk p e b kids, r', e)
        | [] => none
      else if b = 0x7B then
        let (r1, p1) := skipWs r (p + 1)
        match r1 with
        | c :: r2 =>
          if c = 0x7D then some (.mk p (p1 + 1) b [], r2, p1 + 1)
          else (scanMembers f r1 p1 []).map fun (kids, r', e) => (.mk p e b kids, r', e)
        | [] => none
      else
        let (r', e) := atomEnd r (p + 1)
        some (.mk p e b [], r', e)
  /-- `value ws (, ws value ws)* ]` -/
  def scanElems : Nat → Bytes → Nat → List PNode → Option (List PNode × Bytes × Nat)
    | 0, _, _, _ => none
    | f + 1, bs, p, acc =>
      match scanValue f bs p with
      | none => none
      | some (n, r, e) =>
        let (r1, p1) := skipWs r e
        match r1 with
        | c :: r2 =>
          if c = 0x2C then
            let (r3, p3) := skipWs r2 (p1 + 1)
            scanElems f r3 p3 (n :: acc)
          else if c = 0x5D then some ((n :: acc).reverse, r2, p1 + 1)
          else none
        | [] => none
  /-- `key ws : ws value ws (, ws key …)* }` -/
  def scanMembers : Nat → Bytes → Nat → List PNode → Option (List PNode × Bytes × Nat)
    | 0, _, _, _ => none
    | f + 1, bs, p, acc =>
      match bs with
      | q :: r =>
        if q ≠ 0x22 then none else
        match strEnd r (p + 1) with
        | none => none
        | some (r0, e0) =>
          let key : PNode := .mk p e0 q []
          let (r1, p1) := skipWs r0 e0
          match r1 with
          | c :: r2 =>
            if c ≠ 0x3A then none else
            let (r3, p3) := skipWs r2 (p1 + 1)
            match scanValue f r3 p3 with
            | none => none
            | some (v, r4, e4) =>
              let (r5, p5) := skipWs r4 e4
              match r5 with
              | d :: r6 =>
                if d = 0x2C then
                  let (r7, p7) := skipWs r6 (p5 + 1)
                  scanMembers f r7 p7 (v :: key :: acc)
                else if d = 0x7D then some ((v :: key :: acc).reverse, r6, p5 + 1)
                else none
              | [] => none
          | [] => none
      | [] => none
end

/-- The node table of a (valid) document. -/
def scanDoc (text : Bytes) : Option PNode :=
  let (r, p) := skipWs text 0
  match scanValue (2 * text.length + 2) r p with
  | some (n, r', e) => if (skipWs r' e).1.isEmpty then some n else none
  | none => none

/-! ### string tokens → characters -/

def hexDigitVal (b : Byte) : Option Nat :=
  if 0x30 ≤ b ∧ b ≤ 0x39 then some (b.toNat - 0x30)
  else if 0x61 ≤ b ∧ b ≤ 0x66 then some (b.toNat - 0x61 + 10)
  else if 0x41 ≤ b ∧ b ≤ 0x46 then some (b.toNat - 0x41 + 10)
  else none

def hex4 : Bytes → Option (Nat × Bytes)
  | a :: b :: c :: d :: r =>
    match hexDigitVal a, hexDigitVal b, hexDigitVal c, hexDigitVal d with
    | some x, some y, some z, some w => some (((x * 16 + y) * 16 + z) * 16 + w, r)
    | _, _, _, _ => none
  | _ => none

def utf8Encode (cp : Nat) : List UInt8 :=
  if cp < 0x80 then [UInt8.ofNat cp]
  else if cp < 0x800 then [UInt8.ofNat (0xC0 + cp / 64), UInt8.ofNat (0x80 + cp % 64)]
  else if cp < 0x10000 then
    [UInt8.ofNat (0xE0 + cp / 4096), UInt8.ofNat (0x80 + cp / 64 % 64), UInt8.ofNat (0x80 + cp % 64)]
  else
    [UInt8.ofNat (0xF0 + cp / 262144), UInt8.ofNat (0x80 + cp / 4096 % 64),
     UInt8.ofNat (0x80 + cp / 64 % 64), UInt8.ofNat (0x80 + cp % 64)]

/-- body of a JSON string token (after the opening quote) decoded to UTF-8 bytes (`as_str`) -/
def decodeBody : Nat → Bytes → List UInt8 → Option (List UInt8)
  | 0, _, _ => none
  | _, [], _ => none
  | f + 1, b :: r, acc =>
    if b = 0x22 then some acc.reverse
    else if b = 0x5C then
      match r with
      | e :: r2 =>
        let simple (c : Nat) := decodeBody f r2 (UInt8.ofNat c :: acc)
        if e = 0x22 then simple 0x22 else if e = 0x5C then simple 0x5C else if e = 0x2F then simple 0x2F
        else if e = 0x62 then simple 8 else if e = 0x66 then simple 12 else if e = 0x6E then simple 10
        else if e = 0x72 then simple 13 else if e = 0x74 then simple 9
        else if e = 0x75 then
          match hex4 r2 with
          | none => none
          | some (hi, r3) =>
            if 0xD800 ≤ hi ∧ hi < 0xDC00 then
              match r3 with
              | x :: y :: r4 =>
                if x = 0x5C ∧ y = 0x75 then
                  match hex4 r4 with
                  | some (lo, r5) =>
                    if 0xDC00 ≤ lo ∧ lo < 0xE000 then
                      decodeBody f r5 ((utf8Encode (0x10000 + (hi - 0xD800) * 1024 + (lo - 0xDC00))).reverse ++ acc)
                    else none
                  | none => none
                else none
              | _ => none
            else decodeBody f r3 ((utf8Encode hi).reverse ++ acc)
        else none
      | [] => none
    else decodeBody f r (UInt8.ofNat b.toNat :: acc)

/-- `extract_key_string`: the decoded key of a string token spanning `[start, stop)` -/
def keyChars (text : Bytes) (n : PNode) : Option (List Char) :=
  let tok := (text.drop (n.start + 1)).take (n.stop - n.start - 1)
  match decodeBody (tok.length + 1) tok [] with
  | some bs => (String.fromUTF8? (ByteArray.mk bs.toArray)).map String.toList
  | none => none

/-! ### node selection and path -/

/-- An entry of the preorder node table: the node, the path components from the root to the value
it denotes (for a key: the value it names), whether it is a key, and the node whose value the path
denotes. -/
structure Entry where
  node : PNode
  comps : List Comp
  isKey : Bool
  value : PNode
  deriving Inhabited

mutual
  /-- preorder table of `n` reached by `comps` -/
  def entries (text : Bytes) : Nat → PNode → List Comp → List Entry
    | 0, _, _ => []
    | f + 1, n, comps =>
      ⟨n, comps, false, n⟩ ::
        (if n.isObj then memberEntries text f n.kids comps
         else if n.isArr then elemEntries text f n.kids comps 0
         else [])
  def elemEntries (text : Bytes) : Nat → List PNode → List Comp → Nat → List Entry
    | 0, _, _, _ => []
    | _, [], _, _ => []
    | f + 1, k :: rest, comps, i =>
      entries text f k (comps ++ [.index i]) ++ elemEntries text f rest comps (i + 1)
  def memberEntries (text : Bytes) : Nat → List PNode → List Comp → List Entry
    | 0, _, _ => []
    | f + 1, key :: v :: rest, comps =>
      let c := Comp.ofKey ((keyChars text key).getD [])
      ⟨key, comps ++ [c], true, v⟩ :: (entries text f v (comps ++ [c]) ++ memberEntries text f rest comps)
    | _, _, _ => []
end

/-- `find_node_at_offset`: the last node (preorder = text order of first bytes) starting at or
before `offset`; `None` past the end of the text or before the first node. -/
def findEntry (table : List Entry) (textLen offset : Nat) : Option Entry :=
  if offset ≥ textLen then none
  else (table.filter fun e => e.node.start ≤ offset).getLast?

/-- `value_type` of `locate_offset_detailed` (first-byte dispatch of `cursor.value()`) -/
def typeName (b : Byte) : String :=
  if b = 0x7B then "object" else if b = 0x5B then "array" else if b = 0x22 then "string"
  else if b = 0x74 ∨ b = 0x66 then "boolean" else if b = 0x6E then "null" else "number"

/-- the qualifying offsets: inside a scalar or key token, or on a container's opening bracket -/
def qualifies (e : Entry) (offset : Nat) : Bool :=
  if e.node.isObj || e.node.isArr then offset == e.node.start else offset < e.node.stop

end SV.JsonLocate
