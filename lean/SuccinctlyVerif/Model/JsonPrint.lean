/-
Model/JsonPrint — JSON text ⇄ `JV`, jq's compact printer, and the executable number carrier `JNum`.

* `JNum` mirrors `OwnedValue::{Int(i64), Float(f64), NumberLiteral(repr, text)}`: an exact integer
  inside i64 or an IEEE double, plus the preserved source spelling. All decimal ⇄ binary conversions
  are done with exact `Nat` arithmetic (`ratToBits`: correctly rounded; `shortestDigits`:
  Burger–Dybvig free-format = what Rust's `Display`/jq's dtoa print); `Float` is used only for the
  IEEE operations themselves.
* `JV.toJson` is the compact printer (`OwnedValue::to_json`, `tojson`), generic in the carrier.
* `readJson` is a total RFC 8259 reader (lenient about nothing), generic in the carrier; duplicate
  keys collapse as jq does (first position, last value).
* `JV.canon` is the driver's exchange format: compact JSON whose numbers are `NumOps.canon`.
-/
import SuccinctlyVerif.Model.JqValue
namespace SV.Jq

/-! ### exact double conversion -/

def I64_MIN : Int := -9223372036854775808
def I64_MAX : Int := 9223372036854775807
def inI64 (i : Int) : Bool := I64_MIN ≤ i && i ≤ I64_MAX

def shiftI (n : Nat) (e : Int) : Nat := if e ≥ 0 then n <<< e.toNat else n >>> (-e).toNat

/-- correctly rounded (nearest, ties to even) IEEE-754 binary64 bit pattern of `num / den`
(`num, den > 0`), without sign. -/
def ratToBits (num den : Nat) : UInt64 :=
  if num == 0 then 0 else
  let e0 : Int := (num.log2 : Int) - (den.log2 : Int) - 53
  let e0 := if e0 < -1074 then -1074 else e0
  let qr (e : Int) : Nat × Nat × Nat :=
    if e ≥ 0 then let d := den <<< e.toNat; (num / d, num % d, d)
    else let n := num <<< (-e).toNat; (n / den, n % den, den)
  let (e, q, r, d) :=
    let (q, r, d) := qr e0
    if q ≥ 2 ^ 53 then
      let (q, r, d) := qr (e0 + 1)
      if q ≥ 2 ^ 53 then let (q, r, d) := qr (e0 + 2); (e0 + 2, q, r, d) else (e0 + 1, q, r, d)
    else (e0, q, r, d)
  let q := if 2 * r > d || (2 * r == d && q % 2 == 1) then q + 1 else q
  let bits : Int := (e + 1074) * (2 ^ 52 : Nat) + q
  if bits ≥ 0x7FF0000000000000 then 0x7FF0000000000000 else UInt64.ofNat bits.toNat

/-- (negative, mantissa, exponent) with value = ± m·2^e; `none` for NaN / ±Inf -/
def decodeBits (b : UInt64) : Option (Bool × Nat × Int) :=
  let neg := b >>> 63 == 1
  let ex := ((b >>> 52) &&& 0x7FF).toNat
  let fr := (b &&& 0xFFFFFFFFFFFFF).toNat
  if ex == 0x7FF then none
  else if ex == 0 then some (neg, fr, -1074)
  else some (neg, fr + 2 ^ 52, (ex : Int) - 1075)

def natToFloat (n : Nat) : Float := Float.ofBits (ratToBits n 1)
def intToFloat (i : Int) : Float :=
  if i ≥ 0 then natToFloat i.toNat else Float.neg (natToFloat (-i).toNat)

/-- exact integer value of a finite integral double -/
def floatToInt? (f : Float) : Option Int :=
  match decodeBits f.toBits with
  | none => none
  | some (neg, m, e) =>
    if e ≥ 0 then some (if neg then -((m <<< e.toNat : Nat) : Int) else ((m <<< e.toNat : Nat) : Int))
    else
      let s := (-e).toNat
      if s ≥ 64 then (if m == 0 then some 0 else none)
      else if m % (2 ^ s) == 0 then
        let v : Int := ((m >>> s : Nat) : Int)
        some (if neg then -v else v)
      else none

/-- Rust `f as i64`: truncate toward zero, saturate, NaN ↦ 0 -/
def floatAsI64 (f : Float) : Int :=
  match decodeBits f.toBits with
  | none => if f.isNaN then 0 else if f < 0 then I64_MIN else I64_MAX
  | some (neg, m, e) =>
    let mag : Nat := if e ≥ 0 then (if e > 80 then 2 ^ 70 else m <<< e.toNat) else m >>> (-e).toNat
    let v : Int := if neg then -(mag : Int) else mag
    if v < I64_MIN then I64_MIN else if v > I64_MAX then I64_MAX else v

/-- Burger–Dybvig free-format digit generation: shortest digit string that reads back to the same
double, closest to the true value. Returns (digits, k) with value = 0.d₁d₂… × 10^k. -/
def shortestDigits (m : Nat) (e : Int) : List Nat × Int :=
  let even := m % 2 == 0
  let (r, s, mp, mm) : Nat × Nat × Nat × Nat :=
    if e ≥ 0 then
      let be := 2 ^ e.toNat
      if m != 2 ^ 52 then (m * be * 2, 2, be, be) else (m * be * 4, 4, be * 2, be)
    else
      if e == -1074 || m != 2 ^ 52 then (m * 2, 2 ^ ((-e).toNat + 1), 1, 1)
      else (m * 4, 2 ^ ((-e).toNat + 2), 2, 1)
  -- scale: find k with (r + mp)/s ≤ 10^k (< when not even) minimal
  let high (r s mp : Nat) : Bool := if even then r + mp ≥ s else r + mp > s
  -- first bring value below 1 by multiplying s, then above 1/10 by multiplying r
  let rec up (fuel : Nat) (r s mp mm : Nat) (k : Int) : Nat × Nat × Nat × Nat × Int :=
    match fuel with
    | 0 => (r, s, mp, mm, k)
    | fuel + 1 => if high r s mp then up fuel r (s * 10) mp mm (k + 1) else (r, s, mp, mm, k)
  let rec down (fuel : Nat) (r s mp mm : Nat) (k : Int) : Nat × Nat × Nat × Nat × Int :=
    match fuel with
    | 0 => (r, s, mp, mm, k)
    | fuel + 1 =>
      if high (r * 10) s (mp * 10) then (r, s, mp, mm, k) else down fuel (r * 10) s (mp * 10) (mm * 10) (k - 1)
  let (r, s, mp, mm, k) := up 400 r s mp mm 0
  let (r, s, mp, mm, k) := down 400 r s mp mm k
  let rec gen (fuel : Nat) (r mp mm : Nat) (acc : List Nat) : List Nat :=
    match fuel with
    | 0 => acc.reverse
    | fuel + 1 =>
      let d := (r * 10) / s
      let r := (r * 10) % s
      let mp := mp * 10
      let mm := mm * 10
      let tc1 := if even then r ≤ mm else r < mm
      let tc2 := if even then r + mp ≥ s else r + mp > s
      if !tc1 && !tc2 then gen fuel r mp mm (d :: acc)
      else if tc1 && !tc2 then (d :: acc).reverse
      else if !tc1 && tc2 then ((d + 1) :: acc).reverse
      else if r * 2 < s then (d :: acc).reverse else ((d + 1) :: acc).reverse
  (gen 30 r mp mm [], k)

def digitsStr (ds : List Nat) : String := String.ofList (ds.map fun d => Char.ofNat (d + 48))
def zeros (n : Nat) : String := String.ofList (List.replicate n '0')

/-- Rust `f64` `Display` (`f.to_string()`): shortest digits, positional, no exponent, `-0` keeps
its sign, integral values without a fraction. NaN / inf handled by callers. -/
def rustFloatDisplay (f : Float) : String :=
  match decodeBits f.toBits with
  | none => if f.isNaN then "NaN" else if f < 0 then "-inf" else "inf"
  | some (neg, m, e) =>
    let sign := if neg then "-" else ""
    if m == 0 then sign ++ "0" else
    let (ds, k) := shortestDigits m e
    let n := ds.length
    if k ≤ 0 then sign ++ "0." ++ zeros (-k).toNat ++ digitsStr ds
    else if k.toNat ≥ n then sign ++ digitsStr ds ++ zeros (k.toNat - n)
    else sign ++ digitsStr (ds.take k.toNat) ++ "." ++ digitsStr (ds.drop k.toNat)

/-- jq 1.7.1 `jvp_dtoa_fmt` layout of the same shortest digits -/
def jqFloatDisplay (f : Float) : String :=
  match decodeBits f.toBits with
  | none => "null"
  | some (neg, m, e) =>
    let sign := if neg then "-" else ""
    if m == 0 then sign ++ "0" else
    let (ds, k) := shortestDigits m e
    let n := ds.length
    if k ≤ -4 || k > (n : Int) + 15 then
      let ex := k - 1
      let mant := digitsStr (ds.take 1) ++ (if n > 1 then "." ++ digitsStr (ds.drop 1) else "")
      let exs := toString ex.natAbs
      let exs := if exs.length < 2 then "0" ++ exs else exs
      sign ++ mant ++ "e" ++ (if ex < 0 then "-" else "+") ++ exs
    else if k ≤ 0 then sign ++ "0." ++ zeros (-k).toNat ++ digitsStr ds
    else if k.toNat ≥ n then sign ++ digitsStr ds ++ zeros (k.toNat - n)
    else sign ++ digitsStr (ds.take k.toNat) ++ "." ++ digitsStr (ds.drop k.toNat)

/-! ### decimal literals -/

structure DecLit where
  neg : Bool
  digits : Nat      -- all mantissa digits as one integer
  exp10 : Int       -- value = digits × 10^exp10
  isInt : Bool      -- spelled without '.', 'e', 'E'
  deriving Inhabited

def isDigit (c : Char) : Bool := '0' ≤ c && c ≤ '9'

def takeDigits : List Char → List Char × List Char
  | c :: rest => if isDigit c then let (a, b) := takeDigits rest; (c :: a, b) else ([], c :: rest)
  | [] => ([], [])

def digitsToNat (cs : List Char) : Nat := cs.foldl (fun acc c => acc * 10 + (c.toNat - 48)) 0

/-- parse `[+-]?digits[.digits][(e|E)[+-]?digits]` (at least one digit overall); Rust's
`str::parse::<f64>` grammar restricted to decimal forms, a superset of JSON's. -/
def parseDecLit (s : String) : Option DecLit :=
  let cs := s.toList
  let (neg, cs) := match cs with
    | '-' :: r => (true, r) | '+' :: r => (false, r) | r => (false, r)
  let (ip, cs) := takeDigits cs
  let (fp, cs, dot) := match cs with
    | '.' :: r => let (a, b) := takeDigits r; (a, b, true)
    | r => ([], r, false)
  if ip.isEmpty && fp.isEmpty then none else
  match cs with
  | [] => some ⟨neg, digitsToNat (ip ++ fp), -(fp.length : Int), !dot⟩
  | c :: r =>
    if c == 'e' || c == 'E' then
      let (eneg, r) := match r with
        | '-' :: r => (true, r) | '+' :: r => (false, r) | r => (false, r)
      let (ed, r) := takeDigits r
      if ed.isEmpty || !r.isEmpty then none else
      -- clamp absurd exponents (value is 0 or inf anyway)
      let ev : Int := if ed.length > 8 then 99999999 else digitsToNat ed
      let ev := if eneg then -ev else ev
      some ⟨neg, digitsToNat (ip ++ fp), ev - fp.length, false⟩
    else none

def DecLit.toFloat (d : DecLit) : Float :=
  let bits :=
    if d.digits == 0 then (0 : UInt64)
    else if d.exp10 ≥ 0 then
      (if d.exp10 > 400 then 0x7FF0000000000000 else ratToBits (d.digits * 10 ^ d.exp10.toNat) 1)
    else
      (if (-d.exp10) > 1200 + (toString d.digits).length then 0 else ratToBits d.digits (10 ^ (-d.exp10).toNat))
  Float.ofBits (if d.neg then bits ||| 0x8000000000000000 else bits)

/-! ### the executable carrier -/

inductive NRepr where
  | int (i : Int)
  | flt (f : Float)
  deriving Inhabited

structure JNum where
  repr : NRepr
  lit : Option String := none
  deriving Inhabited

namespace JNum

def ofI (i : Int) : JNum := if inI64 i then ⟨.int i, none⟩ else ⟨.flt (intToFloat i), none⟩
def ofF (f : Float) : JNum := ⟨.flt f, none⟩
def toF (n : JNum) : Float := match n.repr with | .int i => intToFloat i | .flt f => f

/-- `parse_i64_or_f64` + `NumberLiteral(repr, text)` -/
def ofLiteral (s : String) : Option JNum :=
  match parseDecLit s with
  | none => none
  | some d =>
    let v : Int := if d.neg then -(d.digits : Int) else d.digits
    if d.isInt && inI64 v then some ⟨.int v, some s⟩
    else some ⟨.flt d.toFloat, some s⟩

def cmpF (a b : Float) : Ordering :=
  if a.isNaN then .lt else if b.isNaN then .gt
  else if a < b then .lt else if a > b then .gt else .eq

def cmp (a b : JNum) : Ordering :=
  match a.repr, b.repr with
  | .int x, .int y => compare x y
  | _, _ => cmpF a.toF b.toF

def eq (a b : JNum) : Bool :=
  match a.repr, b.repr with
  | .int x, .int y => x == y
  | _, _ => a.toF == b.toF

def toInt? (n : JNum) : Option Int :=
  match n.repr with | .int i => some i | .flt f => floatToInt? f

def truncI64 (n : JNum) : Int :=
  match n.repr with | .int i => i | .flt f => floatAsI64 f

/-- `strip_insignificant_leading_zero_and_plus` for literals without an exponent -/
def stripLit (s : String) : String :=
  let cs := s.toList
  let (neg, cs) := match cs with
    | '-' :: r => (true, r) | '+' :: r => (false, r) | r => (false, r)
  let ip := cs.takeWhile (· != '.')
  let rest := cs.dropWhile (· != '.')
  let ip := ip.dropWhile (· == '0')
  let ip := if ip.isEmpty then ['0'] else ip
  String.ofList ((if neg then ['-'] else []) ++ ip ++ rest)

/-- jq 1.7.1 canonical spelling of a literal written with an exponent (decNumber `to-scientific-string`):
plain notation when the exponent of the coefficient is ≤ 0 and the adjusted exponent ≥ -6, otherwise
`d.dddE±x`. Only for finite non-zero values of moderate exponent (the rest: no verdict). -/
def decString (l : String) : Option String :=
  match parseDecLit l with
  | none => none
  | some d =>
    let ds := (toString d.digits).toList
    let n := ds.length
    if d.digits == 0 || d.exp10 > 300 || d.exp10 < -300 then none else
    -- keep the written coefficient digits (trailing zeros are significant), drop leading zeros
    let cs := l.toList.filter (fun c => c != '-' && c != '+')
    let mant := (cs.takeWhile (fun c => c != 'e' && c != 'E')).filter isDigit
    let mant := mant.dropWhile (· == '0')
    let ds := if mant.length ≥ n then mant else ds
    let n := ds.length
    let sign := if d.neg then "-" else ""
    let adj : Int := d.exp10 + (n - 1 : Int)
    if d.exp10 ≤ 0 && adj ≥ -6 then
      if d.exp10 == 0 then some (sign ++ String.ofList ds)
      else
        let pt : Int := n + d.exp10
        if pt > 0 then some (sign ++ String.ofList (ds.take pt.toNat) ++ "." ++ String.ofList (ds.drop pt.toNat))
        else some (sign ++ "0." ++ zeros (-pt).toNat ++ String.ofList ds)
    else
      let m := String.ofList (ds.take 1) ++ (if n > 1 then "." ++ String.ofList (ds.drop 1) else "")
      some (sign ++ m ++ "E" ++ (if adj < 0 then "-" else "+") ++ toString adj.natAbs)

def print (n : JNum) : Option String :=
  match n.lit, n.repr with
  | some l, r =>
    let hasExp := l.any (fun c => c == 'e' || c == 'E')
    (match r with
     | .flt f => if f.isNaN then some "null" else if f.isInf then none else if hasExp then decString l else some (stripLit l)
     | .int _ => if hasExp then decString l else some (stripLit l))
  | none, .int i => some (toString i)
  | none, .flt f =>
    if f.isNaN then some "null"
    else if f.isInf then some (if f < 0 then "-1.7976931348623157e+308" else "1.7976931348623157e+308")
    else some (rustFloatDisplay f)

def arith (fi : Int → Int → Int) (ff : Float → Float → Float) (a b : JNum) : JNum :=
  match a.repr, b.repr with
  | .int x, .int y =>
    let r := fi x y
    if inI64 r then ⟨.int r, none⟩ else ⟨.flt (ff (intToFloat x) (intToFloat y)), none⟩
  | _, _ => ⟨.flt (ff a.toF b.toF), none⟩

def add := arith (· + ·) (· + ·)
def sub := arith (· - ·) (· - ·)
def mul := arith (· * ·) (· * ·)

def div (a b : JNum) : Option JNum :=
  let z := match b.repr with | .int y => y == 0 | .flt f => f == 0.0
  if z then none else some ⟨.flt (a.toF / b.toF), none⟩

/-- Rust `wrapping_rem` (truncated remainder; `MIN % -1 = 0`) -/
def wrappingRem (a b : Int) : Int := Int.tmod a b

def mod (a b : JNum) : Option JNum :=
  match a.repr, b.repr with
  | .int x, .int y => if y == 0 then none else some ⟨.int (wrappingRem x y), none⟩
  | _, _ =>
    let fa := a.toF; let fb := b.toF
    if fa.isNaN || fb.isNaN then some ⟨.flt (0.0 / 0.0), none⟩
    else
      let ai := floatAsI64 fa; let bi := floatAsI64 fb
      if bi == 0 then none else some ⟨.int (wrappingRem ai bi), none⟩

def neg (a : JNum) : JNum :=
  match a.repr with
  | .int 0 => ⟨.flt (-0.0), none⟩
  | .int i => if inI64 (-i) then ⟨.int (-i), none⟩ else ⟨.flt (Float.neg (intToFloat i)), none⟩
  | .flt f => ⟨.flt (Float.neg f), none⟩

def hex16 (b : UInt64) : String :=
  let n := b.toNat
  String.ofList ((List.range 16).map fun i =>
    let d := (n >>> ((15 - i) * 4)) % 16
    if d < 10 then Char.ofNat (48 + d) else Char.ofNat (87 + d))

/-- exchange format: integers exactly (`i…`), also integral doubles up to 2^53 in magnitude (they
print identically); other doubles as bit patterns; NaN canonical. The preserved literal is appended
after `~` only when it differs from what the plain value prints as (so `1` and a `1` that still
carries the spelling "1" are the same answer). Negative zero is `-0` however it is represented
(double -0.0, or integer 0 spelled "-0"): all of them print `-0`. -/
def canon (n : JNum) : String :=
  let base :=
    match n.repr with
    | .int i => "i" ++ toString i
    | .flt f =>
      if f.isNaN then "nan" else
      match floatToInt? f with
      | some i =>
        if i == 0 && f.toBits != 0 then "-0"
        else if i.natAbs ≤ 9007199254740992 then "i" ++ toString i
        else "f" ++ hex16 f.toBits
      | none => "f" ++ hex16 f.toBits
  match n.lit with
  | some l =>
    let plainText := (print { n with lit := none }).getD ""
    if l == plainText then base
    else if l == "-0" && base == "i0" then "-0"
    else base ++ "~" ++ l
  | none => base

def math (name : String) (a : JNum) : Option JNum :=
  match name with
  | "floor" => some (match a.repr with | .int i => ⟨.int i, none⟩ | .flt f => ofFloatIntegral f.floor)
  | "ceil" => some (match a.repr with | .int i => ⟨.int i, none⟩ | .flt f => ofFloatIntegral f.ceil)
  | "round" => some (match a.repr with | .int i => ⟨.int i, none⟩ | .flt f => ofFloatIntegral f.round)
  | "floor_i64" => some (match a.repr with | .int i => ofI (floatAsI64 (intToFloat i).floor) | .flt f => ofI (floatAsI64 f.floor))
  | "ceil_i64" => some (match a.repr with | .int i => ofI (floatAsI64 (intToFloat i).ceil) | .flt f => ofI (floatAsI64 f.ceil))
  | "round_i64" => some (match a.repr with | .int i => ofI (floatAsI64 (intToFloat i).round) | .flt f => ofI (floatAsI64 f.round))
  | "length" => some (match a.repr with
      | .int i => if inI64 (-i) || i ≥ 0 then ⟨.int (if i < 0 then -i else i), none⟩ else ⟨.flt (intToFloat i).abs, none⟩
      | .flt f => ⟨.flt f.abs, none⟩)
  | "trunc_i64" => some (match a.repr with | .int i => ofI (floatAsI64 (intToFloat i)) | .flt f => ofI (floatAsI64 f))
  | "trunc" => some (match a.repr with
      | .int i => ⟨.flt (intToFloat i), none⟩
      | .flt f => ⟨.flt (if f < 0 then f.ceil else f.floor), none⟩)
  | "sqrt" => some ⟨.flt a.toF.sqrt, none⟩
  -- libm functions (platform `libm` through Lean's `Float`; used by the jq-1.7.1 dialect only, where the
  -- recorded cases round the results)
  | "sin" => some (ofF a.toF.sin) | "cos" => some (ofF a.toF.cos) | "tan" => some (ofF a.toF.tan)
  | "asin" => some (ofF a.toF.asin) | "acos" => some (ofF a.toF.acos) | "atan" => some (ofF a.toF.atan)
  | "sinh" => some (ofF a.toF.sinh) | "cosh" => some (ofF a.toF.cosh) | "tanh" => some (ofF a.toF.tanh)
  | "exp" => some (ofF a.toF.exp) | "exp2" => some (ofF a.toF.exp2) | "exp10" => some (ofF (Float.pow 10.0 a.toF))
  | "log" => some (ofF a.toF.log) | "log2" => some (ofF a.toF.log2) | "log10" => some (ofF a.toF.log10)
  | "cbrt" => some (ofF a.toF.cbrt)
  | "fabs" => some ⟨.flt a.toF.abs, none⟩
  | _ => none
where
  ofFloatIntegral (f : Float) : JNum := ⟨.flt f, none⟩

end JNum

instance : NumOps JNum where
  ofInt := JNum.ofI
  ofLit := JNum.ofLiteral
  plain n := { n with lit := none }
  cmp := JNum.cmp
  eq := JNum.eq
  toInt? := JNum.toInt?
  truncI64 := JNum.truncI64
  print := JNum.print
  add := JNum.add
  sub := JNum.sub
  mul := JNum.mul
  div := JNum.div
  mod := JNum.mod
  neg := JNum.neg
  math := JNum.math
  isNan n := match n.repr with | .flt f => f.isNaN | _ => false
  isInf n := match n.repr with | .flt f => f.isInf | _ => false
  nan := ⟨.flt (0.0 / 0.0), none⟩
  inf := ⟨.flt (1.0 / 0.0), none⟩
  canon := JNum.canon
  math2 := fun name a b =>
    match name with
    | "pow" => some (JNum.ofF (Float.pow a.toF b.toF))
    | "atan2" => some (JNum.ofF (Float.atan2 a.toF b.toF))
    | _ => none
  unstable := fun n =>
    match n.repr, n.lit with
    | .flt f, none =>
      f.isFinite && f.floor == f && f.abs ≥ 9007199254740992.0 && f ≥ -9223372036854775808.0 && f < 9223372036854775808.0
    | _, _ => false

/-! ### printing -/
section print
variable {N : Type} [NumOps N]

def hex4 (n : Nat) : String :=
  String.ofList ((List.range 4).map fun i =>
    let d := (n >>> ((3 - i) * 4)) % 16
    if d < 10 then Char.ofNat (48 + d) else Char.ofNat (87 + d))

/-- `write_json_body_jq` -/
def escapeChar (c : Char) : String :=
  if c == '"' then "\\\"" else if c == '\\' then "\\\\"
  else if c == '\x08' then "\\b" else if c == '\x0c' then "\\f"
  else if c == '\n' then "\\n" else if c == '\r' then "\\r" else if c == '\t' then "\\t"
  else if c.toNat < 0x20 || c.toNat == 0x7f then "\\u" ++ hex4 c.toNat
  else String.singleton c

def quoteStr (s : String) : String :=
  "\"" ++ s.foldl (fun acc c => acc ++ escapeChar c) "" ++ "\""

def joinWith (sep : String) : List String → String
  | [] => ""
  | [x] => x
  | x :: rest => x ++ sep ++ joinWith sep rest

mutual
/-- compact JSON with a pluggable number printer (`none` propagates: spelling not modelled) -/
def JV.render (pn : N → Option String) : JV N → Option String
  | .null => some "null"
  | .bool true => some "true"
  | .bool false => some "false"
  | .num n => pn n
  | .str s => some (quoteStr s)
  | .arr xs => (renderArr pn xs).map fun parts => "[" ++ joinWith "," parts ++ "]"
  | .obj fs => (renderObj pn fs).map fun parts => "{" ++ joinWith "," parts ++ "}"
def renderArr (pn : N → Option String) : List (JV N) → Option (List String)
  | [] => some []
  | x :: rest =>
    match JV.render pn x, renderArr pn rest with
    | some a, some b => some (a :: b)
    | _, _ => none
def renderObj (pn : N → Option String) : List (String × JV N) → Option (List String)
  | [] => some []
  | (k, x) :: rest =>
    match JV.render pn x, renderObj pn rest with
    | some a, some b => some ((quoteStr k ++ ":" ++ a) :: b)
    | _, _ => none
end

/-- `OwnedValue::to_json` / `tojson` -/
def JV.toJson (v : JV N) : Option String := v.render NumOps.print

/-- driver exchange format -/
def JV.canon (v : JV N) : String := (v.render (fun n => some (NumOps.canon n))).getD "?"

end print

/-! ### reading -/
section read
variable {N : Type} [NumOps N]

def isWs (c : Char) : Bool := c == ' ' || c == '\t' || c == '\n' || c == '\r'

def skipWs : List Char → List Char
  | c :: rest => if isWs c then skipWs rest else c :: rest
  | [] => []

def hexVal (c : Char) : Option Nat :=
  if '0' ≤ c && c ≤ '9' then some (c.toNat - 48)
  else if 'a' ≤ c && c ≤ 'f' then some (c.toNat - 87)
  else if 'A' ≤ c && c ≤ 'F' then some (c.toNat - 55)
  else none

def hex4Val : List Char → Option (Nat × List Char)
  | a :: b :: c :: d :: rest =>
    match hexVal a, hexVal b, hexVal c, hexVal d with
    | some a, some b, some c, some d => some (a * 4096 + b * 256 + c * 16 + d, rest)
    | _, _, _, _ => none
  | _ => none

/-- string body after the opening quote; returns decoded string and the rest after the closing
quote. Lone surrogates become U+FFFD (jq's behaviour). -/
def readStrBody (fuel : Nat) (cs : List Char) (acc : List Char) : Option (String × List Char) :=
  match fuel with
  | 0 => none
  | fuel + 1 =>
    match cs with
    | [] => none
    | '"' :: rest => some (String.ofList acc.reverse, rest)
    | '\\' :: e :: rest =>
      let simple (c : Char) := readStrBody fuel rest (c :: acc)
      if e == '"' then simple '"' else if e == '\\' then simple '\\' else if e == '/' then simple '/'
      else if e == 'b' then simple '\x08' else if e == 'f' then simple '\x0c'
      else if e == 'n' then simple '\n' else if e == 'r' then simple '\r' else if e == 't' then simple '\t'
      else if e == 'u' then
        match hex4Val rest with
        | none => none
        | some (u, rest) =>
          if 0xD800 ≤ u && u < 0xDC00 then
            match rest with
            | '\\' :: 'u' :: rest2 =>
              match hex4Val rest2 with
              | some (lo, rest3) =>
                if 0xDC00 ≤ lo && lo < 0xE000 then
                  readStrBody fuel rest3 (Char.ofNat (0x10000 + (u - 0xD800) * 1024 + (lo - 0xDC00)) :: acc)
                else readStrBody fuel rest ('�' :: acc)
              | none => none
            | _ => readStrBody fuel rest ('�' :: acc)
          else if 0xDC00 ≤ u && u < 0xE000 then readStrBody fuel rest ('�' :: acc)
          else readStrBody fuel rest (Char.ofNat u :: acc)
      else none
    | c :: rest => if c.toNat < 0x20 then none else readStrBody fuel rest (c :: acc)

def isNumChar (c : Char) : Bool :=
  isDigit c || c == '-' || c == '+' || c == '.' || c == 'e' || c == 'E'

/-- JSON number grammar check: `-?(0|[1-9][0-9]*)(\.[0-9]+)?([eE][+-]?[0-9]+)?` -/
def validJsonNumber (cs : List Char) : Bool :=
  let cs := match cs with | '-' :: r => r | r => r
  let (ip, cs) := takeDigits cs
  if ip.isEmpty || (ip.length > 1 && ip.head? == some '0') then false else
  let cs? : Option (List Char) := match cs with
    | '.' :: r => let (fp, r) := takeDigits r; if fp.isEmpty then none else some r
    | r => some r
  match cs? with
  | none => false
  | some cs =>
    match cs with
    | [] => true
    | c :: r =>
      if c == 'e' || c == 'E' then
        let r := match r with | '-' :: r => r | '+' :: r => r | r => r
        let (ed, r) := takeDigits r
        !ed.isEmpty && r.isEmpty
      else false

mutual
/-- one JSON value; fuel bounds total work (each call consumes one unit) -/
def readValue (fuel : Nat) (cs : List Char) : Option (JV N × List Char) :=
  match fuel with
  | 0 => none
  | fuel + 1 =>
    match skipWs cs with
    | 'n' :: 'u' :: 'l' :: 'l' :: rest => some (.null, rest)
    | 't' :: 'r' :: 'u' :: 'e' :: rest => some (.bool true, rest)
    | 'f' :: 'a' :: 'l' :: 's' :: 'e' :: rest => some (.bool false, rest)
    | '"' :: rest => (readStrBody (rest.length + 1) rest []).map fun (s, r) => (.str s, r)
    | '[' :: rest =>
      match skipWs rest with
      | ']' :: rest => some (.arr [], rest)
      | rest => (readElems fuel rest []).map fun (xs, r) => (.arr xs, r)
    | '{' :: rest =>
      match skipWs rest with
      | '}' :: rest => some (.obj [], rest)
      | rest => (readFields fuel rest []).map fun (fs, r) => (JV.mkObj fs, r)
    | c :: rest =>
      if c == '-' || isDigit c then
        let tok := (c :: rest).takeWhile isNumChar
        let rest := (c :: rest).dropWhile isNumChar
        if validJsonNumber tok then
          (NumOps.ofLit (String.ofList tok)).map fun n => (.num n, rest)
        else none
      else none
    | [] => none
def readElems (fuel : Nat) (cs : List Char) (acc : List (JV N)) : Option (List (JV N) × List Char) :=
  match fuel with
  | 0 => none
  | fuel + 1 =>
    match readValue fuel cs with
    | none => none
    | some (v, rest) =>
      match skipWs rest with
      | ',' :: rest => readElems fuel rest (v :: acc)
      | ']' :: rest => some ((v :: acc).reverse, rest)
      | _ => none
def readFields (fuel : Nat) (cs : List Char) (acc : List (String × JV N)) :
    Option (List (String × JV N) × List Char) :=
  match fuel with
  | 0 => none
  | fuel + 1 =>
    match skipWs cs with
    | '"' :: rest =>
      match readStrBody (rest.length + 1) rest [] with
      | none => none
      | some (k, rest) =>
        match skipWs rest with
        | ':' :: rest =>
          match readValue fuel rest with
          | none => none
          | some (v, rest) =>
            match skipWs rest with
            | ',' :: rest => readFields fuel rest ((k, v) :: acc)
            | '}' :: rest => some (((k, v) :: acc).reverse, rest)
            | _ => none
        | _ => none
    | _ => none
end

/-- a complete JSON text (one value, surrounded by optional whitespace) -/
def readJson (s : String) : Option (JV N) :=
  let cs := s.toList
  match readValue (cs.length + 2) cs with
  | some (v, rest) => if (skipWs rest).isEmpty then some v else none
  | none => none

end read

end SV.Jq
