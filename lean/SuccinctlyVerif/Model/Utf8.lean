/-
Model/Utf8 — executable models of `succinctly::text::utf8` (C13), following the Rust line by line.

Representation: a Rust `(input, pos)` cursor is modelled by the *suffix* `input[pos..]` together with
the number `pos`; loops that advance `pos` by a data-dependent amount carry a fuel argument that is
initialised with the input length (every iteration consumes at least one byte).  Word loads
(`u64::from_le_bytes`, `from_ne_bytes` on this little-endian host) are `leWord`.  The word tests
themselves (`word & H8`, the zero-byte newline mask, `word & HI`) are *generated* from the source
(`Generated/C13.lean`); the per-word line increment of `line_and_column` is generated too
(`Gen.utf8_line_inc`) and proved equal to the `popc` used here (`Props/C13.line_increment_generated_eq`),
so that the driver still builds - and the failing-input search still runs - when that statement changes.

  * `validateScalar`  — `validate_utf8_scalar` incl. `skip_ascii`, `err_at`, `line_and_column`
  * `bwAccepts`       — `broadword::accepts` (`load_block`, `load_word`, `first_high_byte`, `validate_sequence`)
  * `avx2Accepts`     — `validate_utf8_avx2`: the lane expression of `check_block` evaluated at every
                        position of the zero-padded input with `prev1/2/3` = the bytes 1/2/3 back
  * `sequenceLength`, `decodeCodePoint`, `encodeCodePoint`
-/
import SuccinctlyVerif.Spec.Utf8
import SuccinctlyVerif.Generated.C13
namespace SV.Utf8
open SV

/-- `u64::from_le_bytes([b0, …, b7])`. -/
def leWord (b0 b1 b2 b3 b4 b5 b6 b7 : Byte) : BitVec 64 :=
  b0.setWidth 64 ||| (b1.setWidth 64 <<< 8) ||| (b2.setWidth 64 <<< 16) ||| (b3.setWidth 64 <<< 24)
    ||| (b4.setWidth 64 <<< 32) ||| (b5.setWidth 64 <<< 40) ||| (b6.setWidth 64 <<< 48) ||| (b7.setWidth 64 <<< 56)

/-- `Utf8Error`. -/
structure Utf8Error where
  offset : Nat
  line : Nat
  column : Nat
  kind : ErrKind
  deriving DecidableEq, Repr

/-- `is_continuation_byte`: `(byte & 0xC0) == 0x80`. -/
def isContinuationByte (b : Byte) : Bool := (b &&& 0xC0#8) == 0x80#8

/-! ### `skip_ascii` -/

/-- The byte-at-a-time tail loop of `skip_ascii`. -/
def skipAsciiTail : List Byte → Nat
  | [] => 0
  | b :: r => if b < 0x80#8 then 1 + skipAsciiTail r else 0

/-- `skip_ascii(input, pos) - pos` where the argument is `input[pos..]`: the word loop (eight bytes
per step, `trailing_zeros >> 3` locating the first non-ASCII byte) followed by the byte loop. -/
def skipAscii : List Byte → Nat
  | b0 :: b1 :: b2 :: b3 :: b4 :: b5 :: b6 :: b7 :: rest =>
    let nonAscii := Gen.utf8_non_ascii (leWord b0 b1 b2 b3 b4 b5 b6 b7)
    if nonAscii ≠ 0#64 then tz nonAscii >>> 3 else 8 + skipAscii rest
  | l => skipAsciiTail l

/-! ### `line_and_column` / `err_at` -/

/-- The trailing `for` loop of `line_and_column` (fewer than eight bytes left). -/
def lineColTail : List Byte → Nat → Nat → Nat → Nat × Nat
  | [], _, line, ls => (line, ls)
  | b :: r, pos, line, ls =>
    if b = 0x0A#8 then lineColTail r (pos + 1) (line + 1) (pos + 1) else lineColTail r (pos + 1) line ls

/-- The word loop of `line_and_column` over `prefix[pos..]`; returns `(line, line_start)`. -/
def lineColGo : List Byte → Nat → Nat → Nat → Nat × Nat
  | b0 :: b1 :: b2 :: b3 :: b4 :: b5 :: b6 :: b7 :: rest, pos, line, ls =>
    let mask := Gen.utf8_newline_mask (leWord b0 b1 b2 b3 b4 b5 b6 b7)
    if mask ≠ 0#64 then
      lineColGo rest (pos + 8) (line + popc mask) (pos + (63 - mask.clz.toNat) / 8 + 1)
    else lineColGo rest (pos + 8) line ls
  | l, pos, line, ls => lineColTail l pos line ls

/-- `line_and_column(input, offset)`; `none` = the slice `&input[..offset]` panics. -/
def lineAndColumn (input : List Byte) (offset : Nat) : Option (Nat × Nat) :=
  if offset > input.length then none
  else
    let r := lineColGo (input.take offset) 0 1 0
    some (r.1, offset - r.2 + 1)

/-- `err_at` (only called with `offset ≤ len`). -/
def errAt (input : List Byte) (offset : Nat) (kind : ErrKind) : Utf8Error :=
  let lc := (lineAndColumn input offset).getD (0, 0)
  { offset := offset, line := lc.1, column := lc.2, kind := kind }

/-! ### `validate_utf8_scalar` -/

/-- `code_point_bounds_violation` (already mapped to `Utf8ErrorKind`). -/
def cpBoundsViolation (cp : BitVec 32) (len : Nat) : Option ErrKind :=
  if len = 2 ∧ cp < 0x80#32 then some .overlongEncoding
  else if len = 3 ∧ cp < 0x800#32 then some .overlongEncoding
  else if len = 3 ∧ (0xD800#32 ≤ cp ∧ cp ≤ 0xDFFF#32) then some .surrogateCodepoint
  else if len = 4 ∧ cp < 0x10000#32 then some .overlongEncoding
  else if len = 4 ∧ cp > 0x10FFFF#32 then some .outOfRangeCodepoint
  else none

def cp2 (b0 b1 : Byte) : BitVec 32 :=
  ((b0.setWidth 32 &&& 0x1F#32) <<< 6) ||| (b1.setWidth 32 &&& 0x3F#32)

def cp3 (b0 b1 b2 : Byte) : BitVec 32 :=
  ((b0.setWidth 32 &&& 0x0F#32) <<< 12) ||| ((b1.setWidth 32 &&& 0x3F#32) <<< 6) ||| (b2.setWidth 32 &&& 0x3F#32)

def cp4 (b0 b1 b2 b3 : Byte) : BitVec 32 :=
  ((b0.setWidth 32 &&& 0x07#32) <<< 18) ||| ((b1.setWidth 32 &&& 0x3F#32) <<< 12)
    ||| ((b2.setWidth 32 &&& 0x3F#32) <<< 6) ||| (b3.setWidth 32 &&& 0x3F#32)

/-- The main loop of `validate_utf8_scalar` at `(pos, input[pos..])`; `none` = `Ok(())`, `some
(kind, offset)` = the arguments of the `err_at` call. -/
def scalarGo : Nat → Nat → List Byte → Option (ErrKind × Nat)
  | 0, _, _ => none
  | _ + 1, _, [] => none
  | f + 1, pos, b0 :: r =>
    if b0 ≤ 0x7F#8 then
      let k := skipAscii r
      scalarGo f (pos + 1 + k) (r.drop k)
    else if b0 ≤ 0xBF#8 then some (.invalidLeadByte, pos)
    else if b0 ≤ 0xDF#8 then
      match r with
      | b1 :: r1 =>
        if !isContinuationByte b1 then some (.invalidContinuationByte, pos + 1)
        else match cpBoundsViolation (cp2 b0 b1) 2 with
          | some k => some (k, pos)
          | none => scalarGo f (pos + 2) r1
      | _ => some (.truncatedSequence, pos)
    else if b0 ≤ 0xEF#8 then
      match r with
      | b1 :: b2 :: r2 =>
        if !isContinuationByte b1 then some (.invalidContinuationByte, pos + 1)
        else if !isContinuationByte b2 then some (.invalidContinuationByte, pos + 2)
        else match cpBoundsViolation (cp3 b0 b1 b2) 3 with
          | some k => some (k, pos)
          | none => scalarGo f (pos + 3) r2
      | _ => some (.truncatedSequence, pos)
    else if b0 ≤ 0xF7#8 then
      match r with
      | b1 :: b2 :: b3 :: r3 =>
        if !isContinuationByte b1 then some (.invalidContinuationByte, pos + 1)
        else if !isContinuationByte b2 then some (.invalidContinuationByte, pos + 2)
        else if !isContinuationByte b3 then some (.invalidContinuationByte, pos + 3)
        else match cpBoundsViolation (cp4 b0 b1 b2 b3) 4 with
          | some k => some (k, pos)
          | none => scalarGo f (pos + 4) r3
      | _ => some (.truncatedSequence, pos)
    else some (.invalidLeadByte, pos)

/-- `(kind, offset)` of the error `validate_utf8_scalar` reports, before `err_at`. -/
def scalarRaw (input : List Byte) : Option (ErrKind × Nat) := scalarGo input.length 0 input

/-- `validate_utf8_scalar`: `none` = `Ok(())`. -/
def validateScalar (input : List Byte) : Option Utf8Error :=
  (scalarRaw input).map fun e => errAt input e.2 e.1

/-! ### `broadword::accepts` -/

/-- The eight bytes at the head as a word (`load_word`, given that eight bytes remain). -/
def wordAt (l : List Byte) : BitVec 64 :=
  leWord (l.getD 0 0) (l.getD 1 0) (l.getD 2 0) (l.getD 3 0) (l.getD 4 0) (l.getD 5 0) (l.getD 6 0) (l.getD 7 0)

/-- `load_word`. -/
def bwLoadWord (l : List Byte) : Option (BitVec 64) := if 8 ≤ l.length then some (wordAt l) else none

/-- `load_block`: OR of the four words. -/
def bwLoadBlock (l : List Byte) : Option (BitVec 64) :=
  if 32 ≤ l.length then
    some ((((0#64 ||| wordAt l) ||| wordAt (l.drop 8)) ||| wordAt (l.drop 16)) ||| wordAt (l.drop 24))
  else none

/-- `validate_sequence(input, pos)` on `input[pos..]`. -/
def bwValidateSequence : List Byte → Option Nat
  | [] => none
  | b0 :: r =>
    if b0 ≤ 0x7F#8 then some 1
    else if inR 0xC2#8 0xDF#8 b0 then
      match r with
      | b1 :: _ => if !isContinuationByte b1 then none else some 2
      | [] => none
    else if inR 0xE0#8 0xEF#8 b0 then
      match r with
      | b1 :: b2 :: _ =>
        let b1ok := if b0 = 0xE0#8 then inR 0xA0#8 0xBF#8 b1 else if b0 = 0xED#8 then inR 0x80#8 0x9F#8 b1
                    else isContinuationByte b1
        if !b1ok || !isContinuationByte b2 then none else some 3
      | _ => none
    else if inR 0xF0#8 0xF4#8 b0 then
      match r with
      | b1 :: b2 :: b3 :: _ =>
        let b1ok := if b0 = 0xF0#8 then inR 0x90#8 0xBF#8 b1 else if b0 = 0xF4#8 then inR 0x80#8 0x8F#8 b1
                    else isContinuationByte b1
        if !b1ok || !isContinuationByte b2 || !isContinuationByte b3 then none else some 4
      | _ => none
    else none

/-- The ASCII-skipping head of one iteration of `accepts` at a non-empty suffix: `.inl l` =
`continue` at `l`; `.inr l` = fall through to `validate_sequence` at `l`. -/
def bwSkip (rest : List Byte) : Sum (List Byte) (List Byte) :=
  if rest.headD 0 < 0x80#8 then
    if (match bwLoadBlock rest with
        | some block => Gen.utf8_bw_block_hi block == 0#64
        | none => false) then .inl (rest.drop 32)
    else
      match bwLoadWord rest with
      | some word =>
        let hi := Gen.utf8_bw_hi word
        if hi == 0#64 then .inl (rest.drop 8)
        else .inr (rest.drop (tz hi >>> 3))
      | none => .inl (rest.drop 1)
  else .inr rest

def bwAcceptsGo : Nat → List Byte → Bool
  | 0, _ => true
  | _ + 1, [] => true
  | f + 1, b :: r =>
    match bwSkip (b :: r) with
    | .inl l => bwAcceptsGo f l
    | .inr l =>
      match bwValidateSequence l with
      | some n => bwAcceptsGo f (l.drop n)
      | none => false

/-- `broadword::accepts`. -/
def bwAccepts (input : List Byte) : Bool := bwAcceptsGo input.length input

/-! ### AVX2 `validate_utf8_avx2` -/

/-- `_mm256_cmpeq_epi8`, one lane. -/
def cmpeq (a b : Byte) : Byte := if a = b then 0xFF#8 else 0x00#8

/-- `_mm256_max_epu8`, one lane. -/
def maxu (a b : Byte) : Byte := if a < b then b else a

/-- `uge(a, k)`: `cmpeq(max_epu8(a, k), a)`. -/
def uge (a k : Byte) : Byte := cmpeq (maxu a k) a

/-- `ult(a, k)`: `uge(a, k) ^ 0xFF`. -/
def ult (a k : Byte) : Byte := uge a k ^^^ 0xFF#8

/-- The `err` lane of `check_block` for the byte `c` whose predecessors are `p1`, `p2`, `p3`
(`prev1/2/3`), following the intrinsic DAG of the source. -/
def checkBlockLane (c p1 p2 p3 : Byte) : Byte :=
  let c0 := 0xC0#8
  let is_cont := cmpeq (c &&& c0) 0x80#8
  let must_cont := (uge p1 0xC0#8 ||| uge p2 0xE0#8) ||| uge p3 0xF0#8
  let err := is_cont ^^^ must_cont
  let invalid_c0c1 := cmpeq (c &&& 0xFE#8) c0
  let err := err ||| (invalid_c0c1 ||| uge c 0xF5#8)
  let e0 := cmpeq p1 0xE0#8
  let ed := cmpeq p1 0xED#8
  let f0 := cmpeq p1 0xF0#8
  let f4 := cmpeq p1 0xF4#8
  let err := err ||| (e0 &&& ult c 0xA0#8)
  let err := err ||| (ed &&& uge c 0xA0#8)
  let err := err ||| (f0 &&& ult c 0x90#8)
  let err := err ||| (f4 &&& uge c 0x90#8)
  err

/-- All `err` lanes are zero over the byte stream, `p1 p2 p3` = the three bytes before it. -/
def avx2Go (p1 p2 p3 : Byte) : List Byte → Bool
  | [] => true
  | c :: r => checkBlockLane c p1 p2 p3 == 0x00#8 && avx2Go c p1 p2 r

/-- `validate_utf8_avx2`: full 32-byte blocks, then the always-run zero-padded tail block (so the
stream is the input followed by `32 - len % 32` zero bytes); `prev_input` starts as zeros. -/
def avx2Accepts (input : List Byte) : Bool :=
  if input.isEmpty then true
  else avx2Go 0#8 0#8 0#8 (input ++ List.replicate (32 - input.length % 32) 0#8)

/-! ### engines with scalar fallback -/

/-- `validate_utf8_broadword`. -/
def validateBroadword (input : List Byte) : Option Utf8Error :=
  if bwAccepts input then none else validateScalar input

/-- `validate_utf8_simd` on an AVX2 host (= `validate_utf8`). -/
def validateSimd (input : List Byte) : Option Utf8Error :=
  if avx2Accepts input then none else validateScalar input

/-! ### single code points -/

/-- `sequence_length`. -/
def sequenceLength (b : Byte) : Nat :=
  if b ≤ 0x7F#8 then 1 else if inR 0xC0#8 0xDF#8 b then 2 else if inR 0xE0#8 0xEF#8 b then 3
  else if inR 0xF0#8 0xF7#8 b then 4 else 0

/-- `decode_code_point`. -/
def decodeCodePoint (input : List Byte) : Option (BitVec 32 × Nat) :=
  match input with
  | [] => none
  | lead :: r =>
    let len := sequenceLength lead
    if len = 0 ∨ input.length < len then none
    else
      let cp : Option (BitVec 32) :=
        match len, r with
        | 1, _ => some (lead.setWidth 32)
        | 2, b1 :: _ => if !isContinuationByte b1 then none else some (cp2 lead b1)
        | 3, b1 :: b2 :: _ =>
          if !isContinuationByte b1 || !isContinuationByte b2 then none else some (cp3 lead b1 b2)
        | 4, b1 :: b2 :: b3 :: _ =>
          if !isContinuationByte b1 || !isContinuationByte b2 || !isContinuationByte b3 then none
          else some (cp4 lead b1 b2 b3)
        | _, _ => none
      match cp with
      | none => none
      | some cp => if (cpBoundsViolation cp len).isSome then none else some (cp, len)

/-- `encode_code_point`: the four-byte buffer and the length. -/
def encodeCodePoint (cp : BitVec 32) : Option (List Byte × Nat) :=
  if (0xD800#32 ≤ cp ∧ cp ≤ 0xDFFF#32) ∨ cp > 0x10FFFF#32 then none
  else if cp < 0x80#32 then some ([cp.setWidth 8, 0, 0, 0], 1)
  else if cp < 0x800#32 then
    some ([0xC0#8 ||| (cp >>> 6).setWidth 8, 0x80#8 ||| (cp &&& 0x3F#32).setWidth 8, 0, 0], 2)
  else if cp < 0x10000#32 then
    some ([0xE0#8 ||| (cp >>> 12).setWidth 8, 0x80#8 ||| ((cp >>> 6) &&& 0x3F#32).setWidth 8,
           0x80#8 ||| (cp &&& 0x3F#32).setWidth 8, 0], 3)
  else
    some ([0xF0#8 ||| (cp >>> 18).setWidth 8, 0x80#8 ||| ((cp >>> 12) &&& 0x3F#32).setWidth 8,
           0x80#8 ||| ((cp >>> 6) &&& 0x3F#32).setWidth 8, 0x80#8 ||| (cp &&& 0x3F#32).setWidth 8], 4)

end SV.Utf8
