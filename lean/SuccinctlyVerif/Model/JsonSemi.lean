/-
Model/JsonSemi — executable models of the JSON semi-index builders (C05), following the Rust code:

* `BitWriter` (`src/json/bit_writer.rs`): `write_bit`, `write_bits`, `write_zeros`, `finish`;
* the scalar reference loops (`standard.rs build_semi_index_scalar`, `simple.rs build_semi_index`);
* the table-driven PFSM loop (`pfsm_optimized.rs` over `pfsm_tables.rs`, tables regenerated into
  `Generated/C05.lean`);
* the AVX2 (32 lanes) and SSE2 (16 lanes) engines of `src/json/simd/{avx2,x86}.rs` at lane level:
  `classify_chars` as the DAG of per-lane intrinsics, `movemask`, `process_chunk_standard/simple`
  driven by the masks, the chunk loop with zero-padded tail; and the dispatcher of `simd/mod.rs`.
-/
import SuccinctlyVerif.Spec.JsonSemi
import SuccinctlyVerif.Generated.C05
namespace SV.JsonSemi

/-! ### BitWriter -/

/-- `struct BitWriter { words, current_word, bit_position }`; `words` in push order. -/
structure BitWriter where
  words : List (BitVec 64)
  cur : BitVec 64
  pos : Nat
  deriving DecidableEq, Repr

def BitWriter.empty : BitWriter := ⟨[], 0#64, 0⟩

/-- `write_bit` -/
def BitWriter.writeBit (w : BitWriter) (bit : Bool) : BitWriter :=
  let cur := if bit then w.cur ||| (1#64 <<< w.pos) else w.cur
  let pos := w.pos + 1
  if pos = 64 then ⟨w.words ++ [cur], 0#64, 0⟩ else ⟨w.words, cur, pos⟩

/-- Compiled form of `write_bit` (no reduction modulo `2^64`); proved equal below. -/
def BitWriter.writeBitFast (w : BitWriter) (bit : Bool) : BitWriter :=
  let cur : BitVec 64 :=
    if bit then
      if h : w.pos < 64 then
        BitVec.ofNatLT (w.cur.toNat ||| (1 <<< w.pos))
          (Nat.or_lt_two_pow w.cur.isLt (by rw [Nat.one_shiftLeft]; exact Nat.pow_lt_pow_right (by omega) h))
      else w.cur
    else w.cur
  let pos := w.pos + 1
  if pos = 64 then ⟨w.words ++ [cur], 0#64, 0⟩ else ⟨w.words, cur, pos⟩

@[csimp] theorem BitWriter.writeBit_eq_fast : @BitWriter.writeBit = @BitWriter.writeBitFast := by
  funext w bit
  have key : w.cur ||| (1#64 <<< w.pos) =
      (if h : w.pos < 64 then
        BitVec.ofNatLT (w.cur.toNat ||| (1 <<< w.pos))
          (Nat.or_lt_two_pow w.cur.isLt (by rw [Nat.one_shiftLeft]; exact Nat.pow_lt_pow_right (by omega) h))
      else w.cur) := by
    by_cases h : w.pos < 64
    · simp only [h, dite_true]
      apply BitVec.eq_of_toNat_eq
      simp only [BitVec.toNat_or, BitVec.toNat_shiftLeft, BitVec.toNat_ofNatLT]
      have : (1 : Nat) <<< w.pos < 2 ^ 64 := by
        rw [Nat.one_shiftLeft]; exact Nat.pow_lt_pow_right (by omega) h
      simp [Nat.mod_eq_of_lt this]
    · simp only [h, dite_false]
      have : (1#64 <<< w.pos) = 0#64 := by
        apply BitVec.eq_of_getLsbD_eq; intro i hi
        simp [BitVec.getLsbD_shiftLeft]; omega
      simp [this]
  unfold BitWriter.writeBit BitWriter.writeBitFast
  cases bit <;> simp only [key] <;> rfl

def BitWriter.write0 (w : BitWriter) : BitWriter := w.writeBit false
def BitWriter.write1 (w : BitWriter) : BitWriter := w.writeBit true

/-- `write_bits(bits, count)` for `count ≤ 64` (the documented domain; larger counts are a
`debug_assert` failure in the Rust code and are left unchanged here). -/
def BitWriter.writeBits (w : BitWriter) (bits : BitVec 64) (count : Nat) : BitWriter :=
  if count = 0 ∨ count > 64 then w
  else
    let pos := w.pos
    let space := 64 - pos
    let mask : BitVec 64 := if count = 64 then BitVec.allOnes 64 else (1#64 <<< count) - 1#64
    if count ≤ space then
      let cur := w.cur ||| ((bits &&& mask) <<< pos)
      let pos' := pos + count
      if pos' = 64 then ⟨w.words ++ [cur], 0#64, 0⟩ else ⟨w.words, cur, pos'⟩
    else
      let masked := bits &&& mask
      let cur := w.cur ||| (masked <<< pos)
      ⟨w.words ++ [cur], masked >>> space, count - space⟩

/-- `write_zeros(count)` -/
def BitWriter.writeZeros (w : BitWriter) (count : Nat) : BitWriter :=
  if count = 0 then w
  else if w.pos > 0 then
    let space := 64 - w.pos
    if count < space then ⟨w.words, w.cur, w.pos + count⟩
    else
      let remaining := count - space
      ⟨w.words ++ [w.cur] ++ List.replicate (remaining / 64) 0#64, 0#64, remaining % 64⟩
  else
    ⟨w.words ++ List.replicate (count / 64) 0#64, w.cur, count % 64⟩

/-- `finish` -/
def BitWriter.finish (w : BitWriter) : List (BitVec 64) :=
  if w.pos > 0 then w.words ++ [w.cur] else w.words

/-- `len` -/
def BitWriter.len (w : BitWriter) : Nat := w.words.length * 64 + w.pos

/-- Writing a list of bits one `write_bit` at a time. -/
def BitWriter.writeAll (w : BitWriter) (bs : List Bool) : BitWriter := bs.foldl BitWriter.writeBit w

/-- What every builder returns: `SemiIndex { state, ib, bp }`. -/
structure Built (σ : Type) where
  ib : List (BitVec 64)
  bp : List (BitVec 64)
  st : σ
  deriving DecidableEq

/-! ### scalar reference, standard cursor (`build_semi_index_scalar`) -/

/-- `Phi` constants -/
def PHI_NONE : BitVec 8 := 0b000#8
def PHI_CLOSE : BitVec 8 := 0b001#8
def PHI_OPEN : BitVec 8 := 0b110#8
def PHI_LEAF : BitVec 8 := 0b111#8

/-- `state_machine(c, state) -> (State, Phi)` -/
def stateMachine (c : BitVec 8) (s : St) : St × BitVec 8 :=
  match s with
  | .inJson =>
    if isOpen c then (.inJson, PHI_OPEN)
    else if isClose c then (.inJson, PHI_CLOSE)
    else if isDelim c then (.inJson, PHI_NONE)
    else if isValueChar c then (.inValue, PHI_LEAF)
    else if isQuote c then (.inString, PHI_LEAF)
    else (.inJson, PHI_NONE)
  | .inString =>
    if isQuote c then (.inJson, PHI_NONE)
    else if isBackslash c then (.inEscape, PHI_NONE)
    else (.inString, PHI_NONE)
  | .inEscape => (.inString, PHI_NONE)
  | .inValue =>
    if isOpen c then (.inJson, PHI_OPEN)
    else if isClose c then (.inJson, PHI_CLOSE)
    else if isDelim c then (.inJson, PHI_NONE)
    else if isValueChar c then (.inValue, PHI_NONE)
    else (.inJson, PHI_NONE)

/-- The `for &c in json` loop of `build_semi_index_scalar`. -/
def scalarLoop : List (BitVec 8) → St → BitWriter → BitWriter → St × BitWriter × BitWriter
  | [], s, ib, bp => (s, ib, bp)
  | c :: cs, s, ib, bp =>
    let (s', phi) := stateMachine c s
    let ib := ib.writeBit (phi &&& 0b100#8 != 0#8)
    let bp := if phi &&& 0b010#8 != 0#8 then bp.write1 else bp
    let bp := if phi &&& 0b001#8 != 0#8 then bp.write0 else bp
    scalarLoop cs s' ib bp

def finishBuilt {σ : Type} (r : σ × BitWriter × BitWriter) : Built σ :=
  ⟨r.2.1.finish, r.2.2.finish, r.1⟩

def buildScalarStd (json : List (BitVec 8)) : Built St :=
  finishBuilt (scalarLoop json .inJson .empty .empty)

/-! ### PFSM (`pfsm_tables.rs`, `pfsm_optimized.rs`, `standard.rs build_semi_index`) -/

/-- The generated tables as `[u32; 256]` arrays (what the driver indexes). -/
def transitionArr : Array (BitVec 32) := (Gen.TRANSITION_TABLE_L.map (BitVec.ofInt 32)).toArray
def phiArr : Array (BitVec 32) := (Gen.PHI_TABLE_L.map (BitVec.ofInt 32)).toArray

/-- `TRANSITION_TABLE[byte as usize]` -/
def transitionEntry (c : BitVec 8) : BitVec 32 := transitionArr.getD c.toNat 0#32
/-- `PHI_TABLE[byte as usize]` -/
def phiEntry (c : BitVec 8) : BitVec 32 := phiArr.getD c.toNat 0#32

/-- `PfsmState as u32` -/
def stCode : St → Nat
  | .inJson => 0 | .inString => 1 | .inEscape => 2 | .inValue => 3

/-- `byte_offset` -/
def byteOffset (s : St) : Nat := stCode s * 8

/-- `extract_next_state` -/
def extractNextState (entry : BitVec 32) (s : St) : St :=
  let byte := ((entry >>> byteOffset s) &&& 0xFF#32).setWidth 8
  if byte = 0#8 then .inJson
  else if byte = 1#8 then .inString
  else if byte = 2#8 then .inEscape
  else if byte = 3#8 then .inValue
  else .inJson

/-- `extract_phi` -/
def extractPhi (entry : BitVec 32) (s : St) : BitVec 8 :=
  ((entry >>> byteOffset s) &&& 0xFF#32).setWidth 8

/-- The loop of `pfsm_process_chunk_optimized`. -/
def pfsmLoop : List (BitVec 8) → St → BitWriter → BitWriter → St × BitWriter × BitWriter
  | [], s, ib, bp => (s, ib, bp)
  | byte :: cs, s, ib, bp =>
    let transition := transitionEntry byte
    let phiE := phiEntry byte
    let phi := extractPhi phiE s
    let s' := extractNextState transition s
    let bpClose := phi &&& 1#8
    let bpOpen := (phi >>> 1) &&& 1#8
    let ibBit := (phi >>> 2) &&& 1#8
    let ib := ib.writeBit (ibBit != 0#8)
    let bp := if bpOpen != 0#8 then bp.write1 else bp
    let bp := if bpClose != 0#8 then bp.write0 else bp
    pfsmLoop cs s' ib bp

def buildPfsmStd (json : List (BitVec 8)) : Built St :=
  finishBuilt (pfsmLoop json .inJson .empty .empty)

/-! ### scalar reference, simple cursor (`simple.rs build_semi_index`) -/

def simpleLoop : List (BitVec 8) → SSt → BitWriter → BitWriter → SSt × BitWriter × BitWriter
  | [], s, ib, bp => (s, ib, bp)
  | c :: cs, s, ib, bp =>
    match s with
    | .inJson =>
      if isOpen c then simpleLoop cs .inJson ib.write1 bp.write1.write1
      else if isClose c then simpleLoop cs .inJson ib.write1 bp.write0.write0
      else if isDelim c then simpleLoop cs .inJson ib.write1 bp.write0.write1
      else if isQuote c then simpleLoop cs .inString ib.write0 bp
      else simpleLoop cs .inJson ib.write0 bp
    | .inString =>
      if isQuote c then simpleLoop cs .inJson ib.write0 bp
      else if isBackslash c then simpleLoop cs .inEscape ib.write0 bp
      else simpleLoop cs .inString ib.write0 bp
    | .inEscape => simpleLoop cs .inString ib.write0 bp

def buildScalarSimple (json : List (BitVec 8)) : Built SSt :=
  finishBuilt (simpleLoop json .inJson .empty .empty)

/-! ### SIMD lane semantics (Intel SDM, per 8-bit lane) -/

/-- `_mm*_cmpeq_epi8`: all-ones lane iff equal. -/
def cmpeq8 (a b : BitVec 8) : BitVec 8 := if a = b then 0xFF#8 else 0x00#8
/-- `_mm*_or_si*` on one lane. -/
def or8 (a b : BitVec 8) : BitVec 8 := a ||| b
/-- `_mm*_sub_epi8`: wrapping subtraction. -/
def sub8 (a b : BitVec 8) : BitVec 8 := a - b
/-- `_mm*_min_epu8`: unsigned minimum. -/
def minu8 (a b : BitVec 8) : BitVec 8 := if a.toNat ≤ b.toNat then a else b
/-- `unsigned_le(a, b)` of `avx2.rs` / `x86.rs`: `cmpeq(min_epu8(a, b), a)`. -/
def unsignedLe8 (a b : BitVec 8) : BitVec 8 := cmpeq8 (minu8 a b) a

/-- The six result vectors of `classify_chars`, one lane. -/
structure LaneClass where
  quotes : BitVec 8
  backslashes : BitVec 8
  opens : BitVec 8
  closes : BitVec 8
  delims : BitVec 8
  valueChars : BitVec 8
  deriving DecidableEq

/-- `classify_chars`, one lane (the DAG is the same in `avx2.rs` and `x86.rs`; `set1_epi8`
constants are the lane constants). -/
def classifyLane (chunk : BitVec 8) : LaneClass :=
  let v_quote := 0x22#8          -- DOUBLE_QUOTE
  let v_backslash := 0x5C#8      -- BACKSLASH
  let v_open_brace := 0x7B#8
  let v_close_brace := 0x7D#8
  let v_open_bracket := 0x5B#8
  let v_close_bracket := 0x5D#8
  let v_comma := 0x2C#8
  let v_colon := 0x3A#8
  let eq_quote := cmpeq8 chunk v_quote
  let eq_backslash := cmpeq8 chunk v_backslash
  let eq_open_brace := cmpeq8 chunk v_open_brace
  let eq_close_brace := cmpeq8 chunk v_close_brace
  let eq_open_bracket := cmpeq8 chunk v_open_bracket
  let eq_close_bracket := cmpeq8 chunk v_close_bracket
  let eq_comma := cmpeq8 chunk v_comma
  let eq_colon := cmpeq8 chunk v_colon
  let opens := or8 eq_open_brace eq_open_bracket
  let closes := or8 eq_close_brace eq_close_bracket
  let delims := or8 eq_comma eq_colon
  let v_a_lower := 0x61#8
  let v_z_range := 25#8          -- b'z' - b'a'
  let sub_a := sub8 chunk v_a_lower
  let lowercase := unsignedLe8 sub_a v_z_range
  let v_a_upper := 0x41#8
  let sub_a_upper := sub8 chunk v_a_upper
  let uppercase := unsignedLe8 sub_a_upper v_z_range
  let v_0 := 0x30#8
  let v_9_range := 9#8
  let sub_0 := sub8 chunk v_0
  let digit := unsignedLe8 sub_0 v_9_range
  let v_period := 0x2E#8
  let v_minus := 0x2D#8
  let v_plus := 0x2B#8
  let eq_period := cmpeq8 chunk v_period
  let eq_minus := cmpeq8 chunk v_minus
  let eq_plus := cmpeq8 chunk v_plus
  let alpha := or8 lowercase uppercase
  let alnum := or8 alpha digit
  let punct := or8 (or8 eq_period eq_minus) eq_plus
  let value_chars := or8 alnum punct
  ⟨eq_quote, eq_backslash, opens, closes, delims, value_chars⟩

/-- 0xFF / 0x00 lane from a predicate. -/
def laneOfBool (b : Bool) : BitVec 8 := if b then 0xFF#8 else 0x00#8

/-- What `classify_chars` computes, per lane, in terms of the scalar byte predicates. -/
def classifyLaneScalar (c : BitVec 8) : LaneClass :=
  ⟨laneOfBool (isQuote c), laneOfBool (isBackslash c), laneOfBool (isOpen c), laneOfBool (isClose c),
   laneOfBool (isDelim c), laneOfBool (isValueChar c)⟩

/-- The intrinsic DAG computes exactly the scalar predicates, for all 256 byte values.  (Also
registered as the compiled form of `classifyLane`.) -/
@[csimp] theorem classifyLane_eq_scalar : @classifyLane = @classifyLaneScalar := by
  funext c; revert c; decide

/-- `_mm*_movemask_epi8` (then `as u32` / `as u16`): bit `i` = most significant bit of lane `i`. -/
def movemask (w : Nat) (lanes : List (BitVec 8)) : BitVec w := packBits w (lanes.map (·.msb))

/-- `struct CharClass` with `w`-bit masks (`w = 32` for AVX2, `16` for SSE2). -/
structure CharClass (w : Nat) where
  quotes : BitVec w
  backslashes : BitVec w
  opens : BitVec w
  closes : BitVec w
  delims : BitVec w
  valueChars : BitVec w

/-- `classify_chars(chunk)` on a `w`-lane vector. -/
def classifyChars (w : Nat) (chunk : List (BitVec 8)) : CharClass w :=
  let ls := chunk.map classifyLane
  ⟨movemask w (ls.map (·.quotes)), movemask w (ls.map (·.backslashes)), movemask w (ls.map (·.opens)),
   movemask w (ls.map (·.closes)), movemask w (ls.map (·.delims)), movemask w (ls.map (·.valueChars))⟩

/-- `(mask & bit) != 0` with `bit = 1 << i`. -/
def testBit {w : Nat} (mask : BitVec w) (i : Nat) : Bool := (mask &&& (1#w <<< i)) != 0#w

/-- `(mask & (1 << i)) != 0` reads bit `i` of the mask (also the compiled form of `testBit`). -/
@[csimp] theorem testBit_eq_getLsbD : @testBit = @BitVec.getLsbD := by
  funext w mask i
  simp only [testBit, ← BitVec.twoPow_eq, BitVec.and_twoPow]
  by_cases h : mask.getLsbD i = true
  · have hi : i < w := by
      apply Classical.byContradiction; intro hn
      have := BitVec.getLsbD_of_ge mask i (by omega)
      simp [this] at h
    simp only [h, if_true]
    have : (BitVec.twoPow w i).getLsbD i = true := by simp [hi]
    apply bne_iff_ne.mpr
    intro h0; rw [h0] at this; simp at this
  · simp at h; simp [h]

/-- `process_chunk_standard`: the loop `for i in 0..bytes.len().min(W)`; `n` iterations remain,
`i` is the loop variable. -/
def processChunkStd {w : Nat} (cls : CharClass w) :
    Nat → Nat → St → BitWriter → BitWriter → St × BitWriter × BitWriter
  | 0, _, s, ib, bp => (s, ib, bp)
  | n + 1, i, s, ib, bp =>
    let isQuote := testBit cls.quotes i
    let isBackslash := testBit cls.backslashes i
    let isOpen := testBit cls.opens i
    let isClose := testBit cls.closes i
    let isDelim := testBit cls.delims i
    let isValueChar := testBit cls.valueChars i
    match s with
    | .inJson =>
      if isOpen then processChunkStd cls n (i + 1) .inJson ib.write1 bp.write1
      else if isClose then processChunkStd cls n (i + 1) .inJson ib.write0 bp.write0
      else if isDelim then processChunkStd cls n (i + 1) .inJson ib.write0 bp
      else if isValueChar then processChunkStd cls n (i + 1) .inValue ib.write1 bp.write1.write0
      else if isQuote then processChunkStd cls n (i + 1) .inString ib.write1 bp.write1.write0
      else processChunkStd cls n (i + 1) .inJson ib.write0 bp
    | .inString =>
      if isQuote then processChunkStd cls n (i + 1) .inJson ib.write0 bp
      else if isBackslash then processChunkStd cls n (i + 1) .inEscape ib.write0 bp
      else processChunkStd cls n (i + 1) .inString ib.write0 bp
    | .inEscape => processChunkStd cls n (i + 1) .inString ib.write0 bp
    | .inValue =>
      if isOpen then processChunkStd cls n (i + 1) .inJson ib.write1 bp.write1
      else if isClose then processChunkStd cls n (i + 1) .inJson ib.write0 bp.write0
      else if isDelim then processChunkStd cls n (i + 1) .inJson ib.write0 bp
      else if isValueChar then processChunkStd cls n (i + 1) .inValue ib.write0 bp
      else processChunkStd cls n (i + 1) .inJson ib.write0 bp

/-- `process_chunk_simple`. -/
def processChunkSimple {w : Nat} (cls : CharClass w) :
    Nat → Nat → SSt → BitWriter → BitWriter → SSt × BitWriter × BitWriter
  | 0, _, s, ib, bp => (s, ib, bp)
  | n + 1, i, s, ib, bp =>
    let isQuote := testBit cls.quotes i
    let isBackslash := testBit cls.backslashes i
    let isOpen := testBit cls.opens i
    let isClose := testBit cls.closes i
    let isDelim := testBit cls.delims i
    match s with
    | .inJson =>
      if isOpen then processChunkSimple cls n (i + 1) .inJson ib.write1 bp.write1.write1
      else if isClose then processChunkSimple cls n (i + 1) .inJson ib.write1 bp.write0.write0
      else if isDelim then processChunkSimple cls n (i + 1) .inJson ib.write1 bp.write0.write1
      else if isQuote then processChunkSimple cls n (i + 1) .inString ib.write0 bp
      else processChunkSimple cls n (i + 1) .inJson ib.write0 bp
    | .inString =>
      if isQuote then processChunkSimple cls n (i + 1) .inJson ib.write0 bp
      else if isBackslash then processChunkSimple cls n (i + 1) .inEscape ib.write0 bp
      else processChunkSimple cls n (i + 1) .inString ib.write0 bp
    | .inEscape => processChunkSimple cls n (i + 1) .inString ib.write0 bp

/-- The chunk loop of `build_semi_index_*_{avx2,sse2}` with chunk width `W`, generic in the
per-chunk processor: `rest` is `json[offset..]`; `while offset + W <= json.len()` processes
`rest.take W`, then the tail (`< W` bytes) is zero-padded to `W` lanes for `classify_chars` while
`process_chunk_*` receives only the real bytes.  `fuel` bounds the iterations (`json.len()`). -/
def chunkLoop {σ : Type} (W : Nat)
    (proc : CharClass W → Nat → Nat → σ → BitWriter → BitWriter → σ × BitWriter × BitWriter) :
    Nat → List (BitVec 8) → σ → BitWriter → BitWriter → σ × BitWriter × BitWriter
  | 0, _, s, ib, bp => (s, ib, bp)
  | fuel + 1, rest, s, ib, bp =>
    if W ≤ rest.length then
      let chunk := rest.take W
      let cls := classifyChars W chunk
      let (s, ib, bp) := proc cls (min chunk.length W) 0 s ib bp
      chunkLoop W proc fuel (rest.drop W) s ib bp
    else if 0 < rest.length then
      let padded := rest ++ List.replicate (W - rest.length) 0#8
      let cls := classifyChars W padded
      proc cls (min rest.length W) 0 s ib bp
    else (s, ib, bp)

/-- `build_semi_index_standard` of `avx2.rs` (`W = 32`) / `x86.rs` (`W = 16`). -/
def buildSimdStd (W : Nat) (json : List (BitVec 8)) : Built St :=
  finishBuilt (chunkLoop W processChunkStd (json.length + 1) json .inJson .empty .empty)

/-- `build_semi_index_simple` of `avx2.rs` / `x86.rs`. -/
def buildSimdSimple (W : Nat) (json : List (BitVec 8)) : Built SSt :=
  finishBuilt (chunkLoop W processChunkSimple (json.length + 1) json .inJson .empty .empty)

def buildAvx2Std := buildSimdStd 32
def buildSse2Std := buildSimdStd 16
def buildAvx2Simple := buildSimdSimple 32
def buildSse2Simple := buildSimdSimple 16

/-- `simd::build_semi_index_standard`: runtime dispatch on `is_x86_feature_detected!("avx2")`. -/
def buildDispatchStd (hasAvx2 : Bool) (json : List (BitVec 8)) : Built St :=
  if hasAvx2 then buildAvx2Std json else buildSse2Std json

/-- `simd::build_semi_index_simple`. -/
def buildDispatchSimple (hasAvx2 : Bool) (json : List (BitVec 8)) : Built SSt :=
  if hasAvx2 then buildAvx2Simple json else buildSse2Simple json

/-! ### the reference index as words -/

def referenceWords (json : List (BitVec 8)) : Built St :=
  let r := reference json
  ⟨pack r.ib, pack r.bp, r.st⟩

def sreferenceWords (json : List (BitVec 8)) : Built SSt :=
  let r := sreference json
  ⟨pack r.ib, pack r.bp, r.st⟩

end SV.JsonSemi
