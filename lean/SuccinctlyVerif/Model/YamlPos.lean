/-
Model/YamlPos — executable model of the YAML position tables (C17):
`src/yaml/advance_positions.rs` (`OpenPositions`, `AdvancePositions`, `SequentialCursor`,
`AdvancePositionsCursor`, `build_cumulative_rank`, `build_select_samples`) and
`src/yaml/end_positions.rs` (`EndPositions`, `CompactEndPositions`).

Conventions.  `usize`/`u32` values are `Nat`; the one cast that can change a value
(`result as u32` in `AdvancePositions::get`) is modelled (`conv`), the one subtraction that the
cursor invariant has to protect (`k - cursor.ib_ones_before`) is modelled with an explicit `panic`
answer.  The `u32` accumulators of `build_cumulative_rank` and the `u32` select samples are modelled
unbounded (they would need ≥ 2^32 set bits / a set bit at a position ≥ 2^32 to wrap).
`Cell<SequentialCursor>` is a state component that every `get` returns.  The per-word primitives
`u64::count_ones` (`pc`) and `select_in_word` (`siw`) are parameters (C02 proves the kernels).
-/
import SuccinctlyVerif.Model.Scan
namespace SV.YamlPos
open SV

abbrev Word := BitVec 64

/-- `usize::MAX` (the "uninitialised" marker of `last_ib_arg`). -/
def usizeMax : Nat := 2 ^ 64 - 1

/-! ### bit helpers (`(words[i / 64] >> (i % 64)) & 1`, `words[i / 64] |= 1 << (i % 64)`) -/

def testBit (ws : List Word) (pos : Nat) : Bool := (ws.getD (pos / 64) 0).getLsbD (pos % 64)

def setBit (ws : List Word) (pos : Nat) : List Word :=
  ws.set (pos / 64) (ws.getD (pos / 64) 0 ||| (1#64 <<< (pos % 64)))

/-- `(1u64 << bit_idx) - 1`. -/
def lowMask (bitIdx : Nat) : Word := (1#64 <<< bitIdx) - 1

/-! ### `build_cumulative_rank` -/

def cumRankGo (pc : Word → Nat) : List Word → Nat → List Nat
  | [], _ => []
  | w :: ws, c => (c + pc w) :: cumRankGo pc ws (c + pc w)

def buildCumulativeRank (pc : Word → Nat) (ws : List Word) : List Nat := 0 :: cumRankGo pc ws 0

/-! ### `build_select_samples` -/

/-- The inner `while sample_target < ones_seen + word_ones { … }`; returns
`(samples, sample_target, broke_outer)`.  `fuel` bounds the iterations (65 suffice for a rate ≥ 1). -/
def sampWhile (siw : Word → Nat → Nat) (rate numSamples wordIdx : Nat) (word : Word)
    (onesSeen wordOnes : Nat) : Nat → List Nat → Nat → List Nat × Nat × Bool
  | 0, s, t => (s, t, false)
  | fuel + 1, s, t =>
    if t < onesSeen + wordOnes then
      let localRank := t - onesSeen
      let s' := s ++ [wordIdx * 64 + siw word localRank]
      let t' := t + rate
      if s'.length ≥ numSamples then (s', t', true)
      else sampWhile siw rate numSamples wordIdx word onesSeen wordOnes fuel s' t'
    else (s, t, false)

/-- The `'outer: for (word_idx, &word) in words.iter().enumerate()` loop. -/
def sampFor (pc : Word → Nat) (siw : Word → Nat → Nat) (rate numSamples : Nat) :
    List Word → Nat → List Nat → Nat → Nat → List Nat
  | [], _, s, _, _ => s
  | w :: ws, wi, s, seen, t =>
    if w = 0 then sampFor pc siw rate numSamples ws (wi + 1) s seen t
    else
      let ones := pc w
      match sampWhile siw rate numSamples wi w seen ones 65 s t with
      | (s', t', brk) =>
        if brk then s' else sampFor pc siw rate numSamples ws (wi + 1) s' (seen + ones) t'

def buildSelectSamples (pc : Word → Nat) (siw : Word → Nat → Nat) (rate : Nat)
    (words : List Word) (totalOnes : Nat) : List Nat :=
  if totalOnes = 0 then []
  else sampFor pc siw rate ((totalOnes + rate - 1) / rate) words 0 [] 0 0

/-! ### the table (fields of `AdvancePositions` / `CompactEndPositions`) -/

structure Table where
  ibWords : List Word
  ibLen : Nat
  /-- `ib_rank` (`AdvancePositions` only; `[]` for `CompactEndPositions`). -/
  ibRank : List Nat
  ibSelectSamples : List Nat
  ibOnes : Nat
  advanceWords : List Word
  numOpens : Nat
  advanceRank : List Nat
  deriving Repr, DecidableEq

/-- Loop state of the two builders. -/
structure BState where
  ib : List Word
  adv : List Word
  prev : Option Nat
  ibOnes : Nat

/-- The common tail of both build loops:
`let is_new_position = prev != Some(pos); if is_new_position { set IB bit (if the word exists and
the bit is clear); set advance bit }; prev = Some(pos)`. -/
def stepCore (st : BState) (i pos : Nat) : BState :=
  let isNew := st.prev ≠ some pos
  if isNew then
    let wordIdx := pos / 64
    let (ib, ones) :=
      if wordIdx < st.ib.length ∧ ¬ testBit st.ib pos then (setBit st.ib pos, st.ibOnes + 1)
      else (st.ib, st.ibOnes)
    { ib := ib, adv := setBit st.adv i, prev := some pos, ibOnes := ones }
  else { st with prev := some pos }

/-- `for (i, &pos) in positions.iter().enumerate()` of `AdvancePositions::build_unchecked`. -/
def openLoop : List Nat → Nat → BState → BState
  | [], _, st => st
  | p :: ps, i, st => openLoop ps (i + 1) (stepCore st i p)

def divCeil (a b : Nat) : Nat := (a + b - 1) / b

/-- `AdvancePositions::build_unchecked(positions, text_len)`. -/
def buildOpen (pc : Word → Nat) (siw : Word → Nat → Nat) (rate : Nat) (positions : List Nat)
    (textLen : Nat) : Table :=
  if positions.isEmpty then
    { ibWords := [], ibLen := textLen, ibRank := [0], ibSelectSamples := [], ibOnes := 0,
      advanceWords := [], numOpens := 0, advanceRank := [0] }
  else
    let numOpens := positions.length
    let ibNumWords := divCeil textLen 64
    let advanceNumWords := divCeil numOpens 64
    let st := openLoop positions 0
      { ib := List.replicate ibNumWords 0, adv := List.replicate advanceNumWords 0, prev := none, ibOnes := 0 }
    { ibWords := st.ib, ibLen := textLen, ibRank := buildCumulativeRank pc st.ib,
      ibSelectSamples := buildSelectSamples pc siw rate st.ib st.ibOnes, ibOnes := st.ibOnes,
      advanceWords := st.adv, numOpens := numOpens, advanceRank := buildCumulativeRank pc st.adv }

/-- `CompactEndPositions::empty`. -/
def emptyEnd (textLen : Nat) : Table :=
  { ibWords := [], ibLen := textLen, ibRank := [], ibSelectSamples := [], ibOnes := 0,
    advanceWords := [], numOpens := 0, advanceRank := [0] }

/-- The loop of `CompactEndPositions::try_build`; `none` = the early `return None`.
State: builder state (`prev` = `prev_effective`) and `prev_nonzero`. -/
def endLoop : List Nat → Nat → BState → Nat → Option BState
  | [], _, st, _ => some st
  | pos :: ps, i, st, prevNonzero =>
    if pos > 0 then
      if prevNonzero > 0 ∧ pos < prevNonzero then none
      else endLoop ps (i + 1) (stepCore st i pos) pos
    else
      let effective := prevNonzero
      if effective = 0 then endLoop ps (i + 1) { st with prev := some 0 } prevNonzero
      else endLoop ps (i + 1) (stepCore st i effective) prevNonzero

/-- `CompactEndPositions::try_build(positions, text_len)`. -/
def tryBuildEnd (pc : Word → Nat) (siw : Word → Nat → Nat) (rate : Nat) (positions : List Nat)
    (textLen : Nat) : Option Table :=
  let numOpens := positions.length
  let ibNumWords := divCeil (textLen + 1) 64
  let advanceNumWords := divCeil numOpens 64
  match endLoop positions 0
      { ib := List.replicate ibNumWords 0, adv := List.replicate advanceNumWords 0, prev := none, ibOnes := 0 } 0 with
  | none => none
  | some st =>
    if st.ibOnes = 0 then some (emptyEnd textLen)
    else some
      { ibWords := st.ib, ibLen := textLen, ibRank := [],
        ibSelectSamples := buildSelectSamples pc siw rate st.ib st.ibOnes, ibOnes := st.ibOnes,
        advanceWords := st.adv, numOpens := numOpens, advanceRank := buildCumulativeRank pc st.adv }

/-! ### `SequentialCursor` and `get` -/

structure Cursor where
  nextOpenIdx : Nat
  advCumulative : Nat
  ibWordIdx : Nat
  ibOnesBefore : Nat
  lastIbArg : Nat
  lastIbResult : Nat
  deriving Repr, DecidableEq

/-- `SequentialCursor::default()`. -/
def Cursor.init : Cursor :=
  { nextOpenIdx := 0, advCumulative := 0, ibWordIdx := 0, ibOnesBefore := 0, lastIbArg := usizeMax,
    lastIbResult := 0 }

/-- Answer of one lookup: a value or a panic (usize underflow in debug builds). -/
inductive Ans where
  | val (v : Option Nat)
  | panic
  deriving Repr, DecidableEq

/-- What differs between `AdvancePositions` and `CompactEndPositions`: the forward scan used by
`get_sequential` (`bits::scan_select` vs. an inline per-word loop) and the result cast
(`as u32` vs. none). -/
structure Flavor where
  scan : List Word → Nat → Nat → Option (Nat × Nat)
  conv : Nat → Nat

def openFlavor (pc : Word → Nat) : Flavor := { scan := scanSelect pc, conv := fun r => r % 2 ^ 32 }

/-- The `while wi < self.ib_words.len() { … }` loop of `CompactEndPositions::get_sequential`. -/
def endFlavor (pc : Word → Nat) : Flavor :=
  { scan := fun ws wi rem => scanScalar pc (ws.drop wi) wi rem, conv := id }

section Get
variable (pc : Word → Nat) (siw : Word → Nat → Nat) (rate : Nat) (F : Flavor)

/-- `advance_rank1(pos)`. -/
def advanceRank1 (T : Table) (pos : Nat) : Nat :=
  if pos = 0 then 0
  else
    let wordIdx := pos / 64
    let bitIdx := pos % 64
    let count := T.advanceRank.getD (min wordIdx T.advanceWords.length) 0
    if wordIdx < T.advanceWords.length ∧ bitIdx > 0 then
      count + pc (T.advanceWords.getD wordIdx 0 &&& lowMask bitIdx)
    else count

/-- `get_sequential(open_idx, cursor)`: answer and the cursor stored by `self.cursor.set` (`none` =
the stored cursor is left untouched). -/
def getSequential (T : Table) (openIdx : Nat) (c : Cursor) : Ans × Option Cursor :=
  if openIdx ≥ T.numOpens then (.val none, none)
  else
    let wordIdx := openIdx / 64
    let bitIdx := openIdx % 64
    let advBit := if wordIdx < T.advanceWords.length then
        (if (T.advanceWords.getD wordIdx 0).getLsbD bitIdx then 1 else 0) else 0
    let advanceCount := c.advCumulative + advBit
    let c := { c with advCumulative := advanceCount, nextOpenIdx := openIdx + 1 }
    if advanceCount = 0 then (.val none, some c)
    else
      let k := advanceCount - 1
      if k = c.lastIbArg then (.val (some (F.conv c.lastIbResult)), some c)
      else if k < c.ibOnesBefore then (.panic, none)
      else
        let startWi := c.ibWordIdx
        let remaining := k - c.ibOnesBefore
        match F.scan T.ibWords startWi remaining with
        | some (wi, rem) =>
          let word := T.ibWords.getD wi 0
          let result := wi * 64 + siw word rem
          let c := { c with ibOnesBefore := k - rem, ibWordIdx := wi, lastIbArg := k, lastIbResult := result }
          (.val (some (F.conv result)), some c)
        | none => (.val none, some c)

/-- The `for word_idx in start_word..self.ib_words.len()` loop of `ib_select1_with_state`;
`maskFirst = some bit_offset` on the first iteration when a sample was used. -/
def ibSelLoop : List Word → Nat → Nat → Nat → Option Nat → Option (Nat × Nat × Nat)
  | [], _, _, _, _ => none
  | full :: rest, wordIdx, remaining, onesBefore, maskFirst =>
    let word := match maskFirst with
      | some bitOffset => full &&& ~~~ lowMask bitOffset
      | none => full
    let ones := pc word
    if ones > remaining then some (wordIdx * 64 + siw word remaining, wordIdx, onesBefore)
    else ibSelLoop rest (wordIdx + 1) (remaining - ones) (onesBefore + pc full) none

/-- `ib_select1_with_state(k)`: `(position, word index, ones before that word)`. -/
def ibSelect1WithState (T : Table) (k : Nat) : Option (Nat × Nat × Nat) :=
  if k ≥ T.ibOnes then none
  else
    let sampleIdx := k / rate
    if sampleIdx < T.ibSelectSamples.length then
      let samplePos := T.ibSelectSamples.getD sampleIdx 0
      let skipOnes := sampleIdx * rate
      let wordIdx := samplePos / 64
      let bitOffset := samplePos % 64
      let prefixOnes := pc (T.ibWords.getD wordIdx 0 &&& lowMask bitOffset)
      ibSelLoop pc siw (T.ibWords.drop wordIdx) wordIdx (k - skipOnes) (skipOnes - prefixOnes) (some bitOffset)
    else ibSelLoop pc siw T.ibWords 0 k 0 none

/-- `get_random(open_idx)`. -/
def getRandom (T : Table) (openIdx : Nat) : Ans × Option Cursor :=
  if openIdx ≥ T.numOpens then (.val none, none)
  else
    let advanceCount := advanceRank1 pc T (openIdx + 1)
    let (result, ibWordIdx, ibOnesBefore, lastIbArg) : Option Nat × Nat × Nat × Nat :=
      if advanceCount = 0 then (none, 0, 0, usizeMax)
      else
        let k := advanceCount - 1
        match ibSelect1WithState pc siw rate T k with
        | some (pos, wordIdx, onesBefore) => (some (F.conv pos), wordIdx, onesBefore, k)
        | none => (none, 0, 0, usizeMax)
    (.val result, some
      { nextOpenIdx := openIdx + 1, advCumulative := advanceCount, ibWordIdx := ibWordIdx,
        ibOnesBefore := ibOnesBefore, lastIbArg := lastIbArg, lastIbResult := result.getD 0 })

/-- `get(open_idx)` on the stored cursor `c`: answer and the stored cursor afterwards. -/
def get (T : Table) (c : Cursor) (openIdx : Nat) : Ans × Cursor :=
  let (a, c') :=
    if openIdx = c.nextOpenIdx then getSequential siw F T openIdx c
    else if openIdx > c.nextOpenIdx then
      -- advance_cursor_to
      let c1 := { c with advCumulative := advanceRank1 pc T openIdx, nextOpenIdx := openIdx }
      getSequential siw F T openIdx c1
    else getRandom pc siw rate F T openIdx
  (a, c'.getD c)

/-- A whole lookup history from a given stored cursor: the answers in order and the final cursor. -/
def runFrom (T : Table) : Cursor → List Nat → List Ans × Cursor
  | c, [] => ([], c)
  | c, i :: is =>
    let (a, c') := get pc siw rate F T c i
    let (as, c'') := runFrom T c' is
    (a :: as, c'')

/-! ### reverse lookup (`find_last_open_at_text_pos`) -/

/-- `ib_rank1(pos)`. -/
def ibRank1 (T : Table) (pos : Nat) : Nat :=
  if pos = 0 then 0
  else
    let wordIdx := pos / 64
    let bitIdx := pos % 64
    let count := T.ibRank.getD (min wordIdx T.ibWords.length) 0
    if wordIdx < T.ibWords.length ∧ bitIdx > 0 then
      count + pc (T.ibWords.getD wordIdx 0 &&& lowMask bitIdx)
    else count

/-- `advance_select1(k)` (linear scan over all words). -/
def advanceSelect1 (T : Table) (k : Nat) : Option Nat :=
  let total := T.advanceRank.getLast?.getD 0
  if k ≥ total then none
  else match scanScalar pc T.advanceWords 0 k with
    | some (wi, rem) => some (wi * 64 + siw (T.advanceWords.getD wi 0) rem)
    | none => none

/-- `advance_bit(pos)`. -/
def advanceBit (T : Table) (pos : Nat) : Bool :=
  if pos ≥ T.numOpens then false else testBit T.advanceWords pos

/-- `while last_open + 1 < num_opens && !advance_bit(last_open + 1) { last_open += 1 }`. -/
def lastOpenLoop (T : Table) : Nat → Nat → Nat
  | 0, last => last
  | fuel + 1, last =>
    if last + 1 < T.numOpens ∧ ¬ advanceBit T (last + 1) then lastOpenLoop T fuel (last + 1) else last

/-- `AdvancePositions::find_last_open_at_text_pos(text_pos)`. -/
def findLastOpenAtTextPos (T : Table) (textPos : Nat) : Option Nat :=
  if T.numOpens = 0 ∨ textPos ≥ T.ibLen then none
  else if textPos / 64 ≥ T.ibWords.length then none
  else if ¬ testBit T.ibWords textPos then none
  else
    match advanceSelect1 pc siw T (ibRank1 pc T textPos) with
    | none => none
    | some first => some (lastOpenLoop T T.numOpens first)

/-! ### `AdvancePositionsCursor` -/

structure ACursor where
  openIdx : Nat
  textPos : Nat
  advanceRank : Nat
  ibWordIdx : Nat
  ibRemainingBits : Word
  deriving Repr, DecidableEq

/-- `ib_select1(k)`. -/
def ibSelect1 (T : Table) (k : Nat) : Option Nat :=
  (ibSelect1WithState pc siw rate T k).map (·.1)

def acursorAt (T : Table) (openIdx textPos advanceRank : Nat) : ACursor :=
  let ibWordIdx := textPos / 64
  let ibBitOffset := textPos % 64
  let rem := if ibWordIdx < T.ibWords.length then T.ibWords.getD ibWordIdx 0 &&& ~~~ lowMask ibBitOffset else 0
  { openIdx := openIdx, textPos := textPos, advanceRank := advanceRank, ibWordIdx := ibWordIdx,
    ibRemainingBits := rem }

/-- `AdvancePositions::cursor()`. -/
def acursor (T : Table) : ACursor :=
  if T.numOpens = 0 then
    { openIdx := 0, textPos := 0, advanceRank := 0, ibWordIdx := 0, ibRemainingBits := 0 }
  else acursorAt T 0 ((ibSelect1 pc siw rate T 0).getD 0) 1

/-- `AdvancePositions::cursor_from(open_idx)`. -/
def acursorFrom (T : Table) (openIdx : Nat) : ACursor :=
  if openIdx ≥ T.numOpens then
    { openIdx := T.numOpens, textPos := 0, advanceRank := T.ibOnes, ibWordIdx := T.ibWords.length,
      ibRemainingBits := 0 }
  else if openIdx = 0 then acursor pc siw rate T
  else
    let advanceRank := advanceRank1 pc T (openIdx + 1)
    let textPos := if advanceRank > 0 then (ibSelect1 pc siw rate T (advanceRank - 1)).getD 0 else 0
    acursorAt T openIdx textPos advanceRank

/-- `AdvancePositionsCursor::current()`. -/
def ACursor.current (T : Table) (c : ACursor) : Option Nat :=
  if c.openIdx ≥ T.numOpens then none else some (c.textPos % 2 ^ 32)

/-- The `while ib_word_idx < len && ib_words[ib_word_idx] == 0 { ib_word_idx += 1 }` loop over
`ws = ib_words[ib_word_idx..]`. -/
def skipZeroWords : List Word → Nat → Nat
  | [], wi => wi
  | w :: ws, wi => if w = 0 then skipZeroWords ws (wi + 1) else wi

/-- `advance_ib_cursor()`. -/
def ACursor.advanceIb (T : Table) (c : ACursor) : ACursor :=
  let rem := c.ibRemainingBits &&& (c.ibRemainingBits - 1)
  if rem ≠ 0 then { c with ibRemainingBits := rem, textPos := c.ibWordIdx * 64 + tz rem }
  else
    let wi := skipZeroWords (T.ibWords.drop (c.ibWordIdx + 1)) (c.ibWordIdx + 1)
    if wi < T.ibWords.length then
      let w := T.ibWords.getD wi 0
      { c with ibWordIdx := wi, ibRemainingBits := w, textPos := wi * 64 + tz w }
    else { c with ibWordIdx := wi, ibRemainingBits := rem }

/-- `AdvancePositionsCursor::advance_one()`. -/
def ACursor.advanceOne (T : Table) (c : ACursor) : Option Nat × ACursor :=
  if c.openIdx + 1 ≥ T.numOpens then (none, { c with openIdx := T.numOpens })
  else
    let c := { c with openIdx := c.openIdx + 1 }
    if ¬ advanceBit T c.openIdx then (some (c.textPos % 2 ^ 32), c)
    else
      let c := ACursor.advanceIb T { c with advanceRank := c.advanceRank + 1 }
      (some (c.textPos % 2 ^ 32), c)

end Get

/-! ### `OpenPositions` / `EndPositions` (variant choice) -/

/-- `positions.windows(2).all(|w| w[0] <= w[1])`. -/
def isMonotonic : List Nat → Bool
  | a :: b :: rest => a ≤ b && isMonotonic (b :: rest)
  | _ => true

inductive OpenPositions where
  | compact (t : Table)
  | dense (v : List Nat)
  deriving Repr, DecidableEq

/-- `OpenPositions::build`. -/
def OpenPositions.build (pc : Word → Nat) (siw : Word → Nat → Nat) (rate : Nat) (positions : List Nat)
    (textLen : Nat) : OpenPositions :=
  if isMonotonic positions then .compact (buildOpen pc siw rate positions textLen) else .dense positions

inductive EndPositions where
  | compact (t : Table)
  | dense (v : List Nat)
  deriving Repr, DecidableEq

/-- `EndPositions::build`. -/
def EndPositions.build (pc : Word → Nat) (siw : Word → Nat → Nat) (rate : Nat) (positions : List Nat)
    (textLen : Nat) : EndPositions :=
  if positions.isEmpty then .compact (emptyEnd textLen)
  else match tryBuildEnd pc siw rate positions textLen with
    | some t => .compact t
    | none => .dense positions

/-- `OpenPositions::get` on (structure, stored cursor). -/
def OpenPositions.get (pc : Word → Nat) (siw : Word → Nat → Nat) (rate : Nat) (o : OpenPositions)
    (c : Cursor) (i : Nat) : Ans × Cursor :=
  match o with
  | .compact t => YamlPos.get pc siw rate (openFlavor pc) t c i
  | .dense v => (.val v[i]?, c)

/-- `EndPositions::get`: the dense variant filters `> 0`. -/
def EndPositions.get (pc : Word → Nat) (siw : Word → Nat → Nat) (rate : Nat) (e : EndPositions)
    (c : Cursor) (i : Nat) : Ans × Cursor :=
  match e with
  | .compact t => YamlPos.get pc siw rate (endFlavor pc) t c i
  | .dense v => (.val (v[i]?.filter (· > 0)), c)

/-- A whole lookup history on an `OpenPositions` value (answers in order, final stored cursor). -/
def OpenPositions.runFrom (pc : Word → Nat) (siw : Word → Nat → Nat) (rate : Nat) (o : OpenPositions) :
    Cursor → List Nat → List Ans × Cursor
  | c, [] => ([], c)
  | c, i :: is =>
    let (a, c') := o.get pc siw rate c i
    let (as, c'') := OpenPositions.runFrom pc siw rate o c' is
    (a :: as, c'')

/-- A whole lookup history on an `EndPositions` value. -/
def EndPositions.runFrom (pc : Word → Nat) (siw : Word → Nat → Nat) (rate : Nat) (e : EndPositions) :
    Cursor → List Nat → List Ans × Cursor
  | c, [] => ([], c)
  | c, i :: is =>
    let (a, c') := e.get pc siw rate c i
    let (as, c'') := EndPositions.runFrom pc siw rate e c' is
    (a :: as, c'')

end SV.YamlPos
