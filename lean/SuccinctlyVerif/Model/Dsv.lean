/-
Model/Dsv — the DSV indexing engines as the Rust code runs them (C20).

* `BitWriter` (src/json/bit_writer.rs): `write_bit`, `write_bits`, `finish`.
* scalar `build_index` (src/dsv/parser.rs): byte loop, toggle then test.
* AVX2 / SSE2 / BMI2 `build_index_simd` (src/dsv/simd/*.rs): 64-byte chunk loop, equality lane
  masks combined from 2×32 resp. 4×16 lanes, quote masking by the *generated* kernels
  `Gen.prefix_xor`, `Gen.toggle64_from_prefix_xor`, `Gen.toggle64_from_deposit`, `Gen.next_carry`
  (PDEP from Model/Prim), zero-padded masked tail.
* the runtime dispatcher (src/dsv/simd/mod.rs), with the CPU feature flags as parameters.

Not modelled: the `text_len ≤ u32::MAX` assertion of `DsvIndexLightweight::new` (4 GiB inputs),
allocation, alignment, `target_feature` soundness.
-/
import SuccinctlyVerif.Spec.Dsv
import SuccinctlyVerif.Generated.Common
import SuccinctlyVerif.Generated.C20
namespace SV.Dsv

/-! ### BitWriter -/

structure BitWriter where
  words : List (BitVec 64)
  cur : BitVec 64
  pos : Nat
deriving Repr

def BitWriter.empty : BitWriter := ⟨[], 0#64, 0⟩

/-- `write_bit` -/
def BitWriter.writeBit (w : BitWriter) (bit : Bool) : BitWriter :=
  let cur := if bit then w.cur ||| (1#64 <<< w.pos) else w.cur
  let pos := w.pos + 1
  if pos = 64 then ⟨w.words ++ [cur], 0#64, 0⟩ else ⟨w.words, cur, pos⟩

/-- `write_bits(bits, count)` for `count ≤ 64` (the callers pass 64 or the tail length). -/
def BitWriter.writeBits (w : BitWriter) (bits : BitVec 64) (count : Nat) : BitWriter :=
  if count = 0 then w else
  let space := 64 - w.pos
  let mask : BitVec 64 := if count = 64 then BitVec.allOnes 64 else (1#64 <<< count) - 1#64
  let masked := bits &&& mask
  if count ≤ space then
    let cur := w.cur ||| (masked <<< w.pos)
    let pos := w.pos + count
    if pos = 64 then ⟨w.words ++ [cur], 0#64, 0⟩ else ⟨w.words, cur, pos⟩
  else
    let cur := w.cur ||| (masked <<< w.pos)
    ⟨w.words ++ [cur], masked >>> space, count - space⟩

/-- `finish` -/
def BitWriter.finish (w : BitWriter) : List (BitVec 64) :=
  if w.pos > 0 then w.words ++ [w.cur] else w.words

/-! ### scalar engine -/

structure ScalarState where
  mw : BitWriter
  nw : BitWriter
  inq : Bool

/-- Body of the byte loop of `parser::build_index`. -/
def scalarStep (d q n : Byte) (s : ScalarState) (byte : Byte) : ScalarState :=
  let isQuote := byte == q
  let isDelim := byte == d
  let isNewline := byte == n
  let inq := if isQuote then !s.inq else s.inq
  if !inq then
    ⟨s.mw.writeBit (isDelim || isNewline), s.nw.writeBit isNewline, inq⟩
  else
    ⟨s.mw.writeBit false, s.nw.writeBit false, inq⟩

def buildIndexScalar (d q n : Byte) (text : List Byte) : List (BitVec 64) × List (BitVec 64) :=
  if text.isEmpty then ([], []) else
  let s := text.foldl (scalarStep d q n) ⟨BitWriter.empty, BitWriter.empty, false⟩
  (s.mw.finish, s.nw.finish)

/-! ### SIMD engines -/

/-- `movemask_epi8` of a compare result: bit `i` = lane `i`. -/
def movemask (lanes : List Bool) : BitVec 64 := wordOfBits lanes

/-- `cmpeq_epi8` against `set1_epi8(c)` on a run of lanes. -/
def cmpeq (lanes : List Byte) (c : Byte) : List Bool := lanes.map (· == c)

/-- AVX2: two 32-byte loads, `m0 | (m1 << 32)`. -/
def eqMaskAvx2 (chunk : List Byte) (c : Byte) : BitVec 64 :=
  let m0 := movemask (cmpeq (chunk.take 32) c)
  let m1 := movemask (cmpeq ((chunk.drop 32).take 32) c)
  m0 ||| (m1 <<< 32)

/-- SSE2: four 16-byte loads, `m0 | (m1 << 16) | (m2 << 32) | (m3 << 48)`. -/
def eqMaskSse2 (chunk : List Byte) (c : Byte) : BitVec 64 :=
  let m0 := movemask (cmpeq (chunk.take 16) c)
  let m1 := movemask (cmpeq ((chunk.drop 16).take 16) c)
  let m2 := movemask (cmpeq ((chunk.drop 32).take 16) c)
  let m3 := movemask (cmpeq ((chunk.drop 48).take 16) c)
  m0 ||| (m1 <<< 16) ||| (m2 <<< 32) ||| (m3 <<< 48)

/-- `ODDS_MASK` (generated constant). -/
def oddsMask : BitVec 64 := BitVec.ofNat 64 Gen.ODDS_MASK

/-- Prefix-XOR tail of the AVX2/SSE2 engines. -/
def togglePrefix (carry qm : BitVec 64) : BitVec 64 × BitVec 64 :=
  Gen.toggle64_from_prefix_xor carry qm (Gen.prefix_xor qm)

/-- `toggle64_bmi2`: `addend = _pdep_u64(ODDS_MASK << (carry & 1), quote_mask)`. -/
def toggleBmi2 (carry qm : BitVec 64) : BitVec 64 × BitVec 64 :=
  let addend := pdep (oddsMask <<< (carry &&& 1#64)) qm
  Gen.toggle64_from_deposit carry qm addend

abbrev EqMask := List Byte → Byte → BitVec 64
abbrev Toggle := BitVec 64 → BitVec 64 → BitVec 64 × BitVec 64

/-- `process_chunk_64` / `process_chunk_64_bmi2` on one 64-byte chunk. -/
def processChunk (em : EqMask) (tg : Toggle) (d q n : Byte) (chunk : List Byte) (carry : BitVec 64) :
    BitVec 64 × BitVec 64 × BitVec 64 :=
  let delimMask := em chunk d
  let quoteMask := em chunk q
  let nlMask := em chunk n
  let (outside, newCarry) := tg carry quoteMask
  let validDelim := delimMask &&& outside
  let validNl := nlMask &&& outside
  (validDelim ||| validNl, validNl, newCarry)

/-- The `while offset + 64 <= len` loop followed by the zero-padded, masked tail. -/
def simdLoop (em : EqMask) (tg : Toggle) (d q n : Byte) (text : List Byte) (carry : BitVec 64)
    (mw nw : BitWriter) : BitWriter × BitWriter :=
  if _h : 64 ≤ text.length then
    let (m, nl, c) := processChunk em tg d q n (text.take 64) carry
    simdLoop em tg d q n (text.drop 64) c (mw.writeBits m 64) (nw.writeBits nl 64)
  else if text.length > 0 then
    let remaining := text.length
    let padded := text ++ List.replicate (64 - remaining) 0#8
    let (m, nl, _) := processChunk em tg d q n padded carry
    let mask : BitVec 64 := (1#64 <<< remaining) - 1#64
    (mw.writeBits (m &&& mask) remaining, nw.writeBits (nl &&& mask) remaining)
  else (mw, nw)
termination_by text.length
decreasing_by simp only [List.length_drop]; omega

def buildIndexSimd (em : EqMask) (tg : Toggle) (d q n : Byte) (text : List Byte) :
    List (BitVec 64) × List (BitVec 64) :=
  if text.isEmpty then ([], []) else
  let (mw, nw) := simdLoop em tg d q n text 0#64 BitWriter.empty BitWriter.empty
  (mw.finish, nw.finish)

def buildIndexAvx2 := buildIndexSimd eqMaskAvx2 togglePrefix
def buildIndexSse2 := buildIndexSimd eqMaskSse2 togglePrefix
def buildIndexBmi2 := buildIndexSimd eqMaskAvx2 toggleBmi2

/-- `simd::build_index_simd` (x86_64, std): BMI2 if *fast* BMI2 and AVX2, else AVX2, else SSE2. -/
def buildIndexDispatch (fastBmi2 avx2 : Bool) (d q n : Byte) (text : List Byte) :
    List (BitVec 64) × List (BitVec 64) :=
  if fastBmi2 && avx2 then buildIndexBmi2 d q n text
  else if avx2 then buildIndexAvx2 d q n text
  else buildIndexSse2 d q n text

end SV.Dsv
