/-
Model/JsonLocateBp — `src/json/locate.rs` function by function over the semi-index:
`find_node_at_offset` / `ib_index_to_bp_pos` (= `JsonIb.cursorAtOffset`, C07), `count_siblings_before`,
`is_ancestor`, `find_key_for_value`, `extract_key_string`, `path_to_bp`, `locate_offset_detailed`
(expression, `text_range`, `value_type`).

Callees that are the subject of other properties are taken at their proved specification:
`JsonIndex::build` = the scalar reference builder `JsonSemi.buildScalarStd` (C05) with
`bp_len = 2·ones(IB)` (C06), `BalancedParens::{find_close, enclose, rank1}` = `Spec/BP` /
`rankB` (C04), `ib_select1` = `selectB` (C07), `JsonString::as_str` = the escape decoder of
Model/JsonLocate. The driver runs this layer next to the node-table layer of Model/JsonLocate on
every request and reports `MODEL-SPEC` if they differ.
-/
import SuccinctlyVerif.Model.JsonLocate
import SuccinctlyVerif.Model.JsonSemi
import SuccinctlyVerif.Model.JsonIb
import SuccinctlyVerif.Spec.BP
import SuccinctlyVerif.Spec.Bits
namespace SV.JsonLocate
open SV

/-- `JsonIndex` + text, as bit lists. -/
structure Idx where
  ibWords : List (BitVec 64)
  ib : List Bool
  bp : List Bool
  text : Bytes

/-- `JsonIndex::build` -/
def Idx.build (text : Bytes) : Idx :=
  let b := JsonSemi.buildScalarStd text
  let ib := bitsOf b.ib text.length
  ⟨b.ib, ib, bitsOf b.bp (2 * ib.count true), text⟩

/-- `bp.rank1(p)` -/
def Idx.bpRank1 (x : Idx) (p : Nat) : Nat := rankB true x.bp p
/-- `is_open(p)` -/
def Idx.isOpen (x : Idx) (p : Nat) : Bool := x.bp[p]? == some true
/-- `first_child` -/
def Idx.firstChild (x : Idx) (p : Nat) : Option Nat :=
  if !x.isOpen p || p + 1 ≥ x.bp.length then none
  else if x.isOpen (p + 1) then some (p + 1) else none
/-- `next_sibling` -/
def Idx.nextSibling (x : Idx) (p : Nat) : Option Nat :=
  if !x.isOpen p then none else
  match BP.findClose x.bp p with
  | none => none
  | some close => if close + 1 < x.bp.length ∧ x.isOpen (close + 1) then some (close + 1) else none
/-- `parent` -/
def Idx.parent (x : Idx) (p : Nat) : Option Nat := BP.enclose x.bp p
/-- `JsonCursor::text_position` -/
def Idx.textPosition (x : Idx) (bpPos : Nat) : Option Nat :=
  (selectB true x.ib (x.bpRank1 bpPos)).filter (· < x.text.length)

/-- `find_node_at_offset` -/
def Idx.findNodeAtOffset (x : Idx) (offset : Nat) : Option Nat :=
  JsonIb.cursorAtOffset x.ibWords x.text.length x.text.length x.bp.length x.bpRank1 offset

/-- `count_siblings_before` -/
def Idx.countSiblingsBefore (x : Idx) (container target : Nat) : Nat :=
  match x.firstChild container with
  | none => 0
  | some c =>
    let rec go : Nat → Nat → Nat → Nat
      | 0, _, count => count
      | f + 1, child, count =>
        if child < target then
          match x.nextSibling child with
          | some c' => go f c' (count + 1)
          | none => count + 1
        else count
    go x.bp.length c 0

/-- `is_ancestor` -/
def Idx.isAncestor (x : Idx) (anc desc : Nat) : Bool :=
  if anc ≥ desc then false
  else match BP.findClose x.bp anc with
    | some close => desc < close
    | none => false

/-- `find_key_for_value` -/
def Idx.findKeyForValue (x : Idx) (object target : Nat) : Option (Nat × Nat) :=
  match x.firstChild object with
  | none => none
  | some c =>
    let rec go : Nat → Nat → Option (Nat × Nat)
      | 0, _ => none
      | f + 1, key =>
        match x.nextSibling key with
        | none => none
        | some value =>
          if key = target then some (key, value)
          else if value = target ∨ x.isAncestor value target then some (key, value)
          else match x.nextSibling value with
            | none => none
            | some next => go f next
    go x.bp.length c

/-- `extract_key_string` at a BP position (`cursor.value()` must be a string) -/
def Idx.keyString (x : Idx) (bpPos : Nat) : Option (List Char) :=
  match x.textPosition bpPos with
  | none => none
  | some pos =>
    match x.text.drop pos with
    | q :: r =>
      if q ≠ 0x22 then none else
      match decodeBody (r.length + 1) r [] with
      | some bs => (String.fromUTF8? (ByteArray.mk bs.toArray)).map String.toList
      | none => none
    | [] => none

/-- the `while let Some(parent_bp)` loop of `path_to_bp` (components innermost first) -/
def Idx.pathLoop (x : Idx) : Nat → Nat → List Comp → Option (List Comp)
  | 0, _, acc => some acc
  | f + 1, current, acc =>
    match x.parent current with
    | none => some acc
    | some parentBp =>
      match x.textPosition parentBp with
      | none => none
      | some ppos =>
        match x.text[ppos]? with
        | none => none
        | some b =>
          if b = 0x5B then
            x.pathLoop f parentBp (.index (x.countSiblingsBefore parentBp current) :: acc)
          else if b = 0x7B then
            match x.findKeyForValue parentBp current with
            | none => none
            | some (keyBp, _) =>
              match x.keyString keyBp with
              | none => none
              | some key => x.pathLoop f parentBp (Comp.ofKey key :: acc)
          else some acc

/-- `path_to_bp` -/
def Idx.pathToBp (x : Idx) (target : Nat) : Option (List Char) :=
  (x.pathLoop x.bp.length target []).map renderPath

/-- end of the token starting at `pos` (`text_range` for a valid document) -/
def tokenEnd (text : Bytes) (pos : Nat) : Option Nat :=
  match text.drop pos with
  | b :: r =>
    if b = 0x22 then (strEnd r (pos + 1)).map (·.2)
    else if b = 0x7B ∨ b = 0x5B then
      -- matching close by depth counting over same-type brackets, skipping strings
      let close : Byte := if b = 0x7B then 0x7D else 0x5D
      let rec go : Nat → Bytes → Nat → Nat → Option Nat
        | 0, _, _, _ => none
        | _, [], _, _ => none
        | f + 1, c :: rest, i, depth =>
          if c = 0x22 then
            match strEnd rest (i + 1) with
            | some (rest', j) => go f rest' j depth
            | none => none
          else if c = b then go f rest (i + 1) (depth + 1)
          else if c = close then (if depth = 1 then some (i + 1) else go f rest (i + 1) (depth - 1))
          else go f rest (i + 1) depth
      go (r.length + 1) r (pos + 1) 1
    else some (atomEnd r (pos + 1)).2
  | [] => none

/-- `locate_offset_detailed`: expression, byte range, first byte (→ `value_type`) -/
def Idx.locate (x : Idx) (offset : Nat) : Option (List Char × Nat × Nat × Byte) :=
  match x.findNodeAtOffset offset with
  | none => none
  | some bpPos =>
    match x.pathToBp bpPos, x.textPosition bpPos with
    | some expr, some start =>
      (match tokenEnd x.text start, x.text[start]? with
       | some stop, some b => some (expr, start, stop, b)
       | none, some b => some (expr, start, x.text.length, b)
       | _, none => none)
    | _, _ => none

end SV.JsonLocate
