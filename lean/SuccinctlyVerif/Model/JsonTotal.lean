/-
Model/JsonTotal — the JSON value-access layer of `src/json/light.rs` (and the DSV field slicer of
`src/dsv/cursor.rs`) with EXPLICIT PARTIALITY.

Every slice (`&t[a..b]`), index (`t[i]`), checked subtraction and fixed-width addition/multiplication
of the Rust code is a *checked* operation here: it answers `Res.panic` exactly where the Rust
operation panics (slice bounds, index out of range, `u8`/`u16`/`u32` overflow in a debug build).  The
functions follow the Rust line by line; `while` loops are structural recursions over a fuel that is
the text length + 1 (each iteration advances the cursor by ≥ 1; `Proof/JsonTotal` shows the fuel is
never exhausted before the loop condition fails).

`usize` additions (`i += 2`, `start + 1`) are modelled over `Nat`: offsets are ≤ len + 1 ≤ isize::MAX
(Rust's slice-length guarantee), so they cannot overflow.

A node is given as `(text, start)` with `start < text.size`: for malformed input the semi-index may
place a node at any byte that starts a value, which is treated as arbitrary.

Imports nothing (linked into `svdriver`).
-/
namespace SV.JsonTotal

abbrev Bytes := Array UInt8

/-- `JsonError` of `src/json/light.rs`. -/
inductive JErr
  | utf8 | number | escape | unicode
  deriving DecidableEq, Repr

/-- Result of a modelled operation: a value, a *reported* error, or a Rust panic. -/
inductive Res (α : Type)
  | ok (a : α)
  | err (e : JErr)
  | panic
  deriving DecidableEq, Repr

namespace Res
@[inline] def bind {α β} (r : Res α) (f : α → Res β) : Res β :=
  match r with
  | .ok a => f a
  | .err e => .err e
  | .panic => .panic
instance : Monad Res where
  pure := .ok
  bind := bind
def isPanic {α} : Res α → Bool
  | .panic => true
  | _ => false
end Res

/-! ## checked primitives -/

/-- `&t[a..b]`: panics unless `a ≤ b ≤ t.len()`. -/
def slice (t : Bytes) (a b : Nat) : Res Bytes :=
  if a ≤ b ∧ b ≤ t.size then .ok (t.extract a b) else .panic

/-- `t[i]`: panics unless `i < t.len()`. -/
def idx (t : Bytes) (i : Nat) : Res UInt8 :=
  match t[i]? with
  | some b => .ok b
  | none => .panic

/-- checked subtraction (`a - b` with overflow checks). -/
def csub (a b : Nat) : Res Nat := if b ≤ a then .ok (a - b) else .panic

/-- checked addition at a fixed width (`bound` = 2^width: `U8`, `U16`, `U32`). -/
def cadd (bound : Nat) (a b : Nat) : Res Nat := if a + b < bound then .ok (a + b) else .panic

/-- checked multiplication at a fixed width. -/
def cmul (bound : Nat) (a b : Nat) : Res Nat := if a * b < bound then .ok (a * b) else .panic

abbrev U8 : Nat := 256
abbrev U16 : Nat := 65536
abbrev U32 : Nat := 4294967296

def QUOTE : UInt8 := 34      -- '"'
def BSLASH : UInt8 := 92     -- '\\'

/-! ## `JsonString` -/

/-- `JsonString::find_string_end` loop: `while i < len { match text[i] { '"' => return i, '\\' => i += 2, _ => i += 1 } } len`. -/
def findStringEndLoop (t : Bytes) : Nat → Nat → Res Nat
  | 0, _ => .ok t.size
  | fuel + 1, i =>
    if i < t.size then
      match idx t i with
      | .ok b =>
        if b = QUOTE then .ok i
        else if b = BSLASH then findStringEndLoop t fuel (i + 2)
        else findStringEndLoop t fuel (i + 1)
      | .err e => .err e
      | .panic => .panic
    else .ok t.size

/-- `find_string_end`: starts after the opening quote. -/
def findStringEnd (t : Bytes) (start : Nat) : Res Nat := findStringEndLoop t (t.size + 1) (start + 1)

/-- `find_end = find_string_end() + 1`. -/
def findEnd (t : Bytes) (start : Nat) : Res Nat := (findStringEnd t start).bind fun e => .ok (e + 1)

/-- `JsonString::raw_bytes` BEFORE the repair (`&text[start..find_end()]`): kept for the refutation. -/
def rawBytesV0 (t : Bytes) (start : Nat) : Res Bytes :=
  (findEnd t start).bind fun e => slice t start e

/-- `JsonString::raw_bytes` (current source): `let end = find_end().min(text.len()); &text[start..end]`. -/
def rawBytes (t : Bytes) (start : Nat) : Res Bytes :=
  (findEnd t start).bind fun e => slice t start (min e t.size)

/-- `JsonString::raw_and_escaped` loop. -/
def rawAndEscapedLoop (t : Bytes) (start : Nat) : Nat → Nat → Bool → Res (Bytes × Bool)
  | 0, _, esc => (slice t start t.size).bind fun b => .ok (b, esc)
  | fuel + 1, i, esc =>
    if i < t.size then
      match idx t i with
      | .ok b =>
        if b = QUOTE then (slice t start (i + 1)).bind fun s => .ok (s, esc)      -- `start..=i`
        else if b = BSLASH then rawAndEscapedLoop t start fuel (i + 2) true
        else rawAndEscapedLoop t start fuel (i + 1) esc
      | .err e => .err e
      | .panic => .panic
    else (slice t start t.size).bind fun b => .ok (b, esc)                        -- `start..`

def rawAndEscaped (t : Bytes) (start : Nat) : Res (Bytes × Bool) :=
  rawAndEscapedLoop t start (t.size + 1) (start + 1) false

/-! ## UTF-8 (`core::str::from_utf8`, modelled: accept exactly well-formed UTF-8, Unicode Table 3-7) -/

def inR (b : UInt8) (lo hi : Nat) : Bool := lo ≤ b.toNat && b.toNat ≤ hi

def utf8ValidL : List UInt8 → Bool
  | [] => true
  | b0 :: rest =>
    if b0.toNat < 0x80 then utf8ValidL rest
    else if inR b0 0xC2 0xDF then
      match rest with
      | b1 :: r => inR b1 0x80 0xBF && utf8ValidL r
      | _ => false
    else if inR b0 0xE0 0xEF then
      match rest with
      | b1 :: b2 :: r =>
        (if b0.toNat = 0xE0 then inR b1 0xA0 0xBF else if b0.toNat = 0xED then inR b1 0x80 0x9F else inR b1 0x80 0xBF)
          && inR b2 0x80 0xBF && utf8ValidL r
      | _ => false
    else if inR b0 0xF0 0xF4 then
      match rest with
      | b1 :: b2 :: b3 :: r =>
        (if b0.toNat = 0xF0 then inR b1 0x90 0xBF else if b0.toNat = 0xF4 then inR b1 0x80 0x8F else inR b1 0x80 0xBF)
          && inR b2 0x80 0xBF && inR b3 0x80 0xBF && utf8ValidL r
      | _ => false
    else false

def utf8Valid (b : Bytes) : Bool := utf8ValidL b.toList

/-- `String::push(char)`: UTF-8 encoding of a scalar value (callers pass only scalar values). -/
def encodeUtf8 (cp : Nat) : List UInt8 :=
  if cp < 0x80 then [UInt8.ofNat cp]
  else if cp < 0x800 then [UInt8.ofNat (0xC0 + cp / 64), UInt8.ofNat (0x80 + cp % 64)]
  else if cp < 0x10000 then
    [UInt8.ofNat (0xE0 + cp / 4096), UInt8.ofNat (0x80 + cp / 64 % 64), UInt8.ofNat (0x80 + cp % 64)]
  else
    [UInt8.ofNat (0xF0 + cp / 262144), UInt8.ofNat (0x80 + cp / 4096 % 64), UInt8.ofNat (0x80 + cp / 64 % 64),
     UInt8.ofNat (0x80 + cp % 64)]

/-- `char::from_u32`. -/
def charFromU32 (cp : Nat) : Option Nat :=
  if cp < 0xD800 ∨ (0xE000 ≤ cp ∧ cp < 0x110000) then some cp else none

/-! ## `parse_hex4` -/

/-- one hex digit: `b - b'0'`, `b - b'a' + 10`, `b - b'A' + 10` (checked `u8` arithmetic). -/
def hexDigit (b : UInt8) : Res Nat :=
  let n := b.toNat
  if 48 ≤ n ∧ n ≤ 57 then csub n 48
  else if 97 ≤ n ∧ n ≤ 102 then (csub n 97).bind fun d => cadd U8 d 10
  else if 65 ≤ n ∧ n ≤ 70 then (csub n 65).bind fun d => cadd U8 d 10
  else .err .unicode

/-- `for &b in hex { value = value * 16 + digit as u16 }` with `u16` overflow checks. -/
def parseHex4Loop : List UInt8 → Nat → Res Nat
  | [], v => .ok v
  | b :: rest, v =>
    (hexDigit b).bind fun d => (cmul U16 v 16).bind fun m => (cadd U16 m d).bind fun v' => parseHex4Loop rest v'

def parseHex4 (hex : Bytes) : Res Nat :=
  if hex.size ≠ 4 then .err .unicode else parseHex4Loop hex.toList 0

/-! ## `decode_escapes` -/

/-- the inner `while i < bytes.len() && bytes[i] != b'\\' { i += 1 }` -/
def chunkEnd (bs : Bytes) : Nat → Nat → Res Nat
  | 0, i => .ok i
  | fuel + 1, i =>
    if i < bs.size then
      match idx bs i with
      | .ok b => if b ≠ BSLASH then chunkEnd bs fuel (i + 1) else .ok i
      | .err e => .err e
      | .panic => .panic
    else .ok i

/-- `\uXXXX` handling at `i` = index of the `u`; returns the new `i` (index of the last consumed
byte; the caller adds 1) and the bytes pushed. -/
def decodeUnicode (bs : Bytes) (i : Nat) : Res (Nat × List UInt8) :=
  if i + 4 ≥ bs.size then .err .unicode else
  (slice bs (i + 1) (i + 5)).bind fun hex =>
  (parseHex4 hex).bind fun cp =>
  let i := i + 4
  if 0xD800 ≤ cp ∧ cp ≤ 0xDBFF then
    if i + 6 < bs.size then
      (idx bs (i + 1)).bind fun c1 =>
      if c1 ≠ BSLASH then .err .unicode else
      (idx bs (i + 2)).bind fun c2 =>
      if c2 ≠ (117 : UInt8) then .err .unicode else
      (slice bs (i + 3) (i + 7)).bind fun lowHex =>
      (parseHex4 lowHex).bind fun low =>
      if 0xDC00 ≤ low ∧ low ≤ 0xDFFF then
        (csub cp 0xD800).bind fun hi10 =>
        (csub low 0xDC00).bind fun lo10 =>
        (cadd U32 0x10000 (1024 * hi10)).bind fun x =>
        (cadd U32 x lo10).bind fun c =>
        match charFromU32 c with
        | some c => .ok (i + 6, encodeUtf8 c)
        | none => .err .unicode
      else .err .unicode
    else .err .unicode
  else if 0xDC00 ≤ cp ∧ cp ≤ 0xDFFF then .err .unicode
  else
    match charFromU32 cp with
    | some c => .ok (i, encodeUtf8 c)
    | none => .err .unicode

/-- `decode_escapes` main loop. -/
def decodeLoop (bs : Bytes) : Nat → Nat → List UInt8 → Res (List UInt8)
  | 0, _, acc => .ok acc
  | fuel + 1, i, acc =>
    if i < bs.size then
      match idx bs i with
      | .ok b =>
        if b = BSLASH then
          if i + 1 ≥ bs.size then .err .escape else
          let i := i + 1
          match idx bs i with
          | .ok e =>
            if e = 34 then decodeLoop bs fuel (i + 1) (acc ++ [34])
            else if e = 92 then decodeLoop bs fuel (i + 1) (acc ++ [92])
            else if e = 47 then decodeLoop bs fuel (i + 1) (acc ++ [47])
            else if e = 98 then decodeLoop bs fuel (i + 1) (acc ++ [8])
            else if e = 102 then decodeLoop bs fuel (i + 1) (acc ++ [12])
            else if e = 110 then decodeLoop bs fuel (i + 1) (acc ++ [10])
            else if e = 114 then decodeLoop bs fuel (i + 1) (acc ++ [13])
            else if e = 116 then decodeLoop bs fuel (i + 1) (acc ++ [9])
            else if e = 117 then
              match decodeUnicode bs i with
              | .ok (i', out) => decodeLoop bs fuel (i' + 1) (acc ++ out)
              | .err er => .err er
              | .panic => .panic
            else .err .escape
          | .err er => .err er
          | .panic => .panic
        else
          match chunkEnd bs (bs.size + 1) i with
          | .ok j =>
            match slice bs i j with
            | .ok chunk => if utf8Valid chunk then decodeLoop bs fuel j (acc ++ chunk.toList) else .err .utf8
            | .err er => .err er
            | .panic => .panic
          | .err er => .err er
          | .panic => .panic
      | .err er => .err er
      | .panic => .panic
    else .ok acc

def decodeEscapes (bs : Bytes) : Res (List UInt8) := decodeLoop bs (bs.size + 1) 0 []

/-- `JsonString::as_str`. -/
def asStr (t : Bytes) (start : Nat) : Res (List UInt8) :=
  (findStringEnd t start).bind fun e =>
  (slice t (start + 1) e).bind fun bytes =>
  if !(bytes.contains BSLASH) then
    if utf8Valid bytes then .ok bytes.toList else .err .utf8
  else decodeEscapes bytes

/-! ## numbers -/

def isNumByte (b : UInt8) : Bool :=
  (48 ≤ b.toNat && b.toNat ≤ 57) || b = 46 || b = 101 || b = 69 || b = 43 || b = 45

/-- `nested_number_span` greedy loop. -/
def numberSpanLoop (t : Bytes) : Nat → Nat → Res Nat
  | 0, i => .ok i
  | fuel + 1, i =>
    if i < t.size then
      match idx t i with
      | .ok b => if isNumByte b then numberSpanLoop t fuel (i + 1) else .ok i
      | .err e => .err e
      | .panic => .panic
    else .ok i

/-- `nested_number_span(text, start)`. -/
def nestedNumberSpan (t : Bytes) (start : Nat) : Res Nat :=
  if start < t.size then
    match idx t start with
    | .ok b => numberSpanLoop t (t.size + 1) (if b = 45 then start + 1 else start)
    | .err e => .err e
    | .panic => .panic
  else numberSpanLoop t (t.size + 1) start

/-- `JsonNumber::raw_bytes`: `&text[start..find_end()]`. -/
def numberRawBytes (t : Bytes) (start : Nat) : Res Bytes :=
  (nestedNumberSpan t start).bind fun e => slice t start e

/-! ## cursor: `value()` dispatch, `text_range()`, `raw_bytes()` -/

/-- `s.starts_with(lit)`. -/
def startsWith (s lit : Bytes) : Bool := lit.size ≤ s.size && s.extract 0 lit.size == lit

def LIT_TRUE : Bytes := #[116, 114, 117, 101]
def LIT_FALSE : Bytes := #[102, 97, 108, 115, 101]
def LIT_NULL : Bytes := #[110, 117, 108, 108]

inductive Kind | obj | arr | str | num | true_ | false_ | null | error
  deriving DecidableEq, Repr

def isNumStart (c : UInt8) : Bool := c = 45 || c = 46 || (48 ≤ c.toNat && c.toNat ≤ 57)

/-- `JsonCursor::value()` for a cursor whose text position is `pos` (the kind only). -/
def valueKind (t : Bytes) (pos : Nat) : Res Kind :=
  if pos ≥ t.size then .ok .error else
  (idx t pos).bind fun c =>
  if c = 123 then .ok .obj
  else if c = 91 then .ok .arr
  else if c = QUOTE then .ok .str
  else if c = 116 ∨ c = 102 then
    (slice t pos t.size).bind fun rest =>
    if startsWith rest LIT_TRUE then .ok .true_
    else if startsWith rest LIT_FALSE then .ok .false_
    else .ok .error
  else if c = 110 then
    (slice t pos t.size).bind fun rest => if startsWith rest LIT_NULL then .ok .null else .ok .error
  else if isNumStart c then .ok .num
  else .ok .error

/-- the string-skipping inner loop of `text_range`'s container scan: returns the index after the
closing quote (or ≥ len). -/
def skipString (t : Bytes) : Nat → Nat → Res Nat
  | 0, i => .ok i
  | fuel + 1, i =>
    if i < t.size then
      match idx t i with
      | .ok b =>
        if b = QUOTE then .ok (i + 1)
        else if b = BSLASH then skipString t fuel (i + 2)
        else skipString t fuel (i + 1)
      | .err e => .err e
      | .panic => .panic
    else .ok i

/-- container scan of `text_range`: `depth: u32` with checked `+= 1` / `-= 1`. -/
def containerLoop (t : Bytes) (start : Nat) (openC closeC : UInt8) : Nat → Nat → Nat → Res (Option (Nat × Nat))
  | 0, _, _ => .ok none
  | fuel + 1, i, depth =>
    if i < t.size then
      match idx t i with
      | .ok b =>
        if b = QUOTE then
          match skipString t (t.size + 1) (i + 1) with
          | .ok j => containerLoop t start openC closeC fuel j depth
          | .err e => .err e
          | .panic => .panic
        else if b = openC then
          match cadd U32 depth 1 with
          | .ok d => containerLoop t start openC closeC fuel (i + 1) d
          | .err e => .err e
          | .panic => .panic
        else if b = closeC then
          match csub depth 1 with
          | .ok d => if d = 0 then .ok (some (start, i + 1)) else containerLoop t start openC closeC fuel (i + 1) d
          | .err e => .err e
          | .panic => .panic
        else containerLoop t start openC closeC fuel (i + 1) depth
      | .err e => .err e
      | .panic => .panic
    else .ok none

/-- string arm of `text_range`. -/
def stringRangeLoop (t : Bytes) (start : Nat) : Nat → Nat → Res (Option (Nat × Nat))
  | 0, _ => .ok (some (start, t.size))
  | fuel + 1, i =>
    if i < t.size then
      match idx t i with
      | .ok b =>
        if b = QUOTE then .ok (some (start, i + 1))
        else if b = BSLASH then stringRangeLoop t start fuel (i + 2)
        else stringRangeLoop t start fuel (i + 1)
      | .err e => .err e
      | .panic => .panic
    else .ok (some (start, t.size))

/-- `JsonCursor::text_range()` for a cursor whose text position is `start`. -/
def textRange (t : Bytes) (start : Nat) : Res (Option (Nat × Nat)) :=
  if start ≥ t.size then .ok none else
  (idx t start).bind fun c =>
  if c = 123 ∨ c = 91 then
    containerLoop t start c (if c = 123 then 125 else 93) (t.size + 1) (start + 1) 1
  else if c = QUOTE then stringRangeLoop t start (t.size + 1) (start + 1)
  else if c = 116 then
    (slice t start t.size).bind fun rest => if startsWith rest LIT_TRUE then .ok (some (start, start + 4)) else .ok none
  else if c = 102 then
    (slice t start t.size).bind fun rest => if startsWith rest LIT_FALSE then .ok (some (start, start + 5)) else .ok none
  else if c = 110 then
    (slice t start t.size).bind fun rest => if startsWith rest LIT_NULL then .ok (some (start, start + 4)) else .ok none
  else if isNumStart c then
    (nestedNumberSpan t start).bind fun e => .ok (some (start, e))
  else .ok none

/-- `JsonCursor::raw_bytes()`: `let (start, end) = self.text_range()?; Some(&self.text[start..end])`. -/
def cursorRawBytes (t : Bytes) (start : Nat) : Res (Option Bytes) :=
  (textRange t start).bind fun r =>
  match r with
  | none => .ok none
  | some (a, b) => (slice t a b).bind fun s => .ok (some s)

/-! ## DSV: `DsvCursor::current_field` / `next_field` over an index given by its marker positions -/

/-- `markers_rank1(pos)`: number of markers strictly before `pos`. -/
def rank1 (ms : List Nat) (pos : Nat) : Nat := (ms.filter (· < pos)).length

/-- `markers_select1(k)`: position of the `k`-th marker. -/
def select1 (ms : List Nat) (k : Nat) : Option Nat := ms[k]?

/-- `DsvCursor::current_field` at `pos`. -/
def currentField (t : Bytes) (ms : List Nat) (pos : Nat) : Res Bytes :=
  if pos ≥ t.size then .ok #[] else
  let e := (select1 ms (rank1 ms pos)).getD t.size
  slice t pos e

/-- `DsvCursor::next_field`: new position and the returned flag. -/
def nextField (t : Bytes) (ms : List Nat) (pos : Nat) : Nat × Bool :=
  if pos ≥ t.size then (pos, false) else
  match select1 ms (rank1 ms pos) with
  | some p => if p < t.size then (p + 1, !(p + 1 ≥ t.size)) else (t.size, false)
  | none => (t.size, false)

end SV.JsonTotal
