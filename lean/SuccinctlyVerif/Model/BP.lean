/-
Model/BP — executable model of `src/trees/bp.rs` (C04), following the Rust code function by
function.  Signed machine integers (`i8`/`i16`/`i32`) are modelled as `Int` with the wrap / clamp
the code performs written out (`wrapI16`, `wrapI32`, `clampI8`; the harness builds with
`overflow-checks = false`, so `+`/`-` wrap); `usize`/`u64` values as `Nat` with explicit `% 2^k`
where the code truncates (`as u32`, `as u16`, `u64 <<`).  Loops are structural recursions over a
fuel / a list.  Index arrays are `Array`s (O(1) access in the compiled driver) obtained with
`List.toArray` from list-level builders, which is what the proofs talk about.
-/
import SuccinctlyVerif.Model.Prim
import SuccinctlyVerif.Model.Scan
import SuccinctlyVerif.Model.Words
import SuccinctlyVerif.Spec.Bits
import SuccinctlyVerif.Generated.C04
namespace SV.BPM
open SV

/-! ### machine integers -/

def wrapI16 (x : Int) : Int := (x + 32768) % 65536 - 32768
def wrapI32 (x : Int) : Int := (x + 2147483648) % 4294967296 - 2147483648
/-- `i16::clamp(-128, 127) as i8` -/
def clampI8 (x : Int) : Int := if x < -128 then -128 else if x > 127 then 127 else x

/-! ### byte tables (generated lists; `Array` twins for the driver) -/

def byteMinA : Array Int := Gen.BYTE_MIN_EXCESS_L.toArray
def byteMaxRevA : Array Int := Gen.BYTE_MAX_EXCESS_REV_L.toArray
def byteTotA : Array Int := Gen.BYTE_TOTAL_EXCESS_L.toArray
def byteFindCloseA : Array (Array Int) := (Gen.BYTE_FIND_CLOSE_L.map List.toArray).toArray

def byteMin (b : Nat) : Int := byteMinA.getD b 0
def byteMaxRev (b : Nat) : Int := byteMaxRevA.getD b 0
def byteTot (b : Nat) : Int := byteTotA.getD b 0
def byteFindClose (b i : Nat) : Nat := ((byteFindCloseA.getD b #[]).getD i 8).toNat

/-- `word.to_le_bytes()[i]` (0 for `i ≥ 8`; the code never indexes there inside its domain). -/
def byteOf (w : BitVec 64) (i : Nat) : Nat := (w.toNat >>> (8 * i)) % 256

/-- `(x >> bit) & 1 == 1` on a `u64`/`u8` value. -/
def bitOf (x : Nat) (bit : Nat) : Bool := x.testBit bit

/-! ### per-word min excess (`word_min_excess*`) -/

/-- The `for byte in bytes.iter().take(full_bytes)` loop: `(global_min, running_excess)`. -/
def fullBytes (w : BitVec 64) : Nat → Nat → Int → Int → Int × Int
  | 0, _, r, g => (g, r)
  | n + 1, i, r, g =>
    let b := byteOf w i
    fullBytes w n (i + 1) (r + byteTot b) (min g (r + byteMin b))

/-- The `for bit in 0..remaining_bits` loop over one byte: `(global_min, excess)`. -/
def partialBits (byteVal : Nat) : Nat → Nat → Int → Int → Int × Int
  | 0, _, e, g => (g, e)
  | n + 1, bit, e, g =>
    if bitOf byteVal bit then partialBits byteVal n (bit + 1) (e + 1) g
    else partialBits byteVal n (bit + 1) (e - 1) (min g (e - 1))

/-- Common body of `word_min_excess` / `word_min_excess_i32` before the clamp (`valid_bits ≤ 64`;
all intermediate values are within ±64 so neither `i16` nor `i32` arithmetic wraps). -/
def wordMinExcessRaw (w : BitVec 64) (validBits : Nat) : Int × Int :=
  if validBits = 0 then (0, 0)
  else
    let fb := validBits / 8
    let rb := validBits % 8
    let (g, r) := fullBytes w (min fb 8) 0 0 0
    if rb > 0 then partialBits (byteOf w fb) rb 0 r g else (g, r)

/-- `word_min_excess(word, valid_bits) -> (i8, i16)`. -/
def wordMinExcess (w : BitVec 64) (validBits : Nat) : Int × Int :=
  let (g, r) := wordMinExcessRaw w validBits
  (clampI8 g, r)

/-- `word_min_excess_i32`. -/
def wordMinExcessI32 (w : BitVec 64) (validBits : Nat) : Int × Int := wordMinExcessRaw w validBits

/-- `word_min_excess_unrolled(word) -> (i8, i16)`. -/
def wordMinExcessUnrolled (w : BitVec 64) : Int × Int :=
  let b0 := byteOf w 0; let b1 := byteOf w 1; let b2 := byteOf w 2; let b3 := byteOf w 3
  let b4 := byteOf w 4; let b5 := byteOf w 5; let b6 := byteOf w 6; let b7 := byteOf w 7
  let m0 := byteMin b0; let m1 := byteMin b1; let m2 := byteMin b2; let m3 := byteMin b3
  let m4 := byteMin b4; let m5 := byteMin b5; let m6 := byteMin b6; let m7 := byteMin b7
  let t0 := byteTot b0; let t1 := byteTot b1; let t2 := byteTot b2; let t3 := byteTot b3
  let t4 := byteTot b4; let t5 := byteTot b5; let t6 := byteTot b6; let t7 := byteTot b7
  let p1 := t0
  let p2 := p1 + t1
  let p3 := p2 + t2
  let p4 := p3 + t3
  let p5 := p4 + t4
  let p6 := p5 + t5
  let p7 := p6 + t6
  let total := p7 + t7
  let g := m0
  let g := min g (p1 + m1)
  let g := min g (p2 + m2)
  let g := min g (p3 + m3)
  let g := min g (p4 + m4)
  let g := min g (p5 + m5)
  let g := min g (p6 + m6)
  let g := min g (p7 + m7)
  (clampI8 g, total)

/-- `word_max_excess_rev(word) -> (i32, i32)`: bytes 7 down to 0. -/
def maxRevBytes (w : BitVec 64) : Nat → Int → Int → Int × Int
  | 0, r, g => (g, r)
  | n + 1, r, g =>
    let b := byteOf w n
    maxRevBytes w n (r + byteTot b) (max g (r + byteMaxRev b))

def wordMaxExcessRev (w : BitVec 64) : Int × Int := maxRevBytes w 8 0 0

/-! ### L0 / L1 / L2 builders -/

/-- `build_l0_index(words, len, num_words)`: list of `(min_excess : i8, word_excess : i16)`. -/
def buildL0 (ws : List (BitVec 64)) (len : Nat) : List (Int × Int) :=
  let n := ws.length
  let full := if len % 64 = 0 then n else n - 1
  (ws.take full).map wordMinExcessUnrolled ++
    (if full < n then [wordMinExcess (ws.getD (n - 1) 0) (len % 64)] else [])

/-- Consecutive chunks of `k` elements (the last may be shorter); `fuel ≥ length` suffices. -/
def chunksOf (k : Nat) : Nat → List α → List (List α)
  | 0, _ => []
  | f + 1, l => if l.isEmpty then [] else l.take k :: chunksOf k f (l.drop k)

/-- Scalar L1 fold of one block in `i16`: `(block_min, running_excess)`. -/
def foldI16 : List (Int × Int) → Int → Int → Int × Int
  | [], bm, re => (bm, re)
  | (m, e) :: rest, bm, re => foldI16 rest (min bm (wrapI16 (re + m))) (wrapI16 (re + e))

/-- Scalar L2 fold of one block in `i32`. -/
def foldI32 : List (Int × Int) → Int → Int → Int × Int
  | [], bm, re => (bm, re)
  | (m, e) :: rest, bm, re => foldI32 rest (min bm (wrapI32 (re + m))) (wrapI32 (re + e))

/-- The scalar L1 loop of `build_bp_index` (also `build_l1_index_scalar`): one entry per
`FACTOR_L1` words. -/
def buildL1 (l0 : List (Int × Int)) : List (Int × Int) :=
  (chunksOf Gen.BP_FACTOR_L1 l0.length l0).map fun c => foldI16 c 0 0

/-- The scalar L2 loop: one entry per `FACTOR_L2` L1 blocks. -/
def buildL2 (l1 : List (Int × Int)) : List (Int × Int) :=
  (chunksOf Gen.BP_FACTOR_L2 l1.length l1).map fun c => foldI32 c 0 0

/-! ### SSE4.1 lane model of the L1 / L2 builders

An `__m128i` holding eight `i16` lanes is a list of eight `Int`s in `[-32768, 32767]`, lane 0 first.
`_mm_slli_si128(v, 2k)` shifts lanes towards higher indices filling with zero, `_mm_srli_si128`
the other way; `_mm_add_epi16` wraps per lane; `_mm_minpos_epu16` yields the unsigned minimum in
lane 0; `_mm_extract_epi16(.., 0) as i16` reads lane 0 as signed. -/

def laneAdd (a b : List Int) : List Int := List.zipWith (fun x y => wrapI16 (x + y)) a b
def laneShl (v : List Int) (k : Nat) : List Int := (List.replicate k 0 ++ v).take 8
def laneShr (v : List Int) (k : Nat) : List Int := v.drop k ++ List.replicate k 0

/-- Inclusive prefix sums by the three shift-and-add steps. -/
def lanePrefix (excs : List Int) : List Int :=
  let sum1 := laneAdd excs (laneShl excs 1)
  let sum2 := laneAdd sum1 (laneShl sum1 2)
  laneAdd sum2 (laneShl sum2 4)

/-- Horizontal sum: lane 0 after three shift-right-and-add steps. -/
def laneHSum (excs : List Int) : Int :=
  let s := laneAdd excs (laneShr excs 4)
  let s := laneAdd s (laneShr s 2)
  let s := laneAdd s (laneShr s 1)
  s.getD 0 0

/-- Signed minimum through the `0x8000` bias and `PHMINPOSUW`. -/
def laneMinBiased (v : List Int) : Int :=
  let biased := v.map fun x => (x + 32768) % 65536        -- add_epi16 with 0x8000, read unsigned
  let umin := biased.foldl min 65535
  let asI16 := if umin ≥ 32768 then umin - 65536 else umin -- extract_epi16 .. as i16
  wrapI16 (asI16 + (-32768))                               -- wrapping_add(i16::MIN)

/-- One 8-lane iteration of `build_l1_index_sse41_impl`: `(chunk_min, chunk_sum)`. -/
def sseChunkL1 (mins excs : List Int) (running : Int) : Int × Int :=
  let pre := lanePrefix excs
  let adjusted := pre.map fun x => wrapI16 (x + running)
  let excl := running :: adjusted.take 7                   -- slli_si128 2 ; insert_epi16 lane 0
  let adjMin := laneAdd mins excl
  (laneMinBiased adjMin, laneHSum excs)

/-- One block of the SSE4.1 L1 builder: 8-lane iterations then the scalar tail. -/
def sseBlockL1 : Nat → List (Int × Int) → Int → Int → Int × Int
  | 0, _, bm, re => (bm, re)
  | f + 1, c, bm, re =>
    if 8 ≤ c.length then
      let ch := c.take 8
      let (cm, s) := sseChunkL1 (ch.map Prod.fst) (ch.map Prod.snd) re
      sseBlockL1 f (c.drop 8) (min bm cm) (wrapI16 (re + s))
    else foldI16 c bm re

def buildL1Sse (l0 : List (Int × Int)) : List (Int × Int) :=
  (chunksOf Gen.BP_FACTOR_L1 l0.length l0).map fun c => sseBlockL1 (c.length + 1) c 0 0

/-- One 8-lane iteration of `build_l2_index_sse41_impl`: chunk-relative `(chunk_min, chunk_sum)`. -/
def sseChunkL2 (mins excs : List Int) : Int × Int :=
  let pre := lanePrefix excs
  let excl := (0 : Int) :: pre.take 7
  let adjMin := laneAdd mins excl
  (laneMinBiased adjMin, laneHSum excs)

def sseBlockL2 : Nat → List (Int × Int) → Int → Int → Int × Int
  | 0, _, bm, re => (bm, re)
  | f + 1, c, bm, re =>
    if 8 ≤ c.length then
      let ch := c.take 8
      let (cm, s) := sseChunkL2 (ch.map Prod.fst) (ch.map Prod.snd)
      sseBlockL2 f (c.drop 8) (min bm (wrapI32 (re + cm))) (wrapI32 (re + s))
    else foldI32 c bm re

def buildL2Sse (l1 : List (Int × Int)) : List (Int × Int) :=
  (chunksOf Gen.BP_FACTOR_L2 l1.length l1).map fun c => sseBlockL2 (c.length + 1) c 0 0

/-- The builders with an explicit block count (`num_l1` / `num_l2` argument of the Rust
functions; blocks past the data are `(0, 0)`). -/
def padBlocks (n : Nat) (l : List (Int × Int)) : List (Int × Int) :=
  (l ++ List.replicate (n - l.length) (0, 0)).take n

/-! ### rank directory -/

/-- The word as counted by the directory loop: the final word masked to `len % 64` bits. -/
def countedWord (ws : List (BitVec 64)) (len : Nat) (i : Nat) : BitVec 64 :=
  let w := ws.getD i 0
  if i = ws.length - 1 ∧ len % 64 ≠ 0 then w &&& ((1#64 <<< (len % 64)) - 1) else w

/-- Inner loop over the words of one rank block: `(l2_packed : u64, block_cumulative : u16)`. -/
def rankBlock (ws : List (BitVec 64)) (len : Nat) : List Nat → Nat → Nat → Nat → Nat × Nat
  | [], _, packed, cum => (packed, cum)
  | wi :: rest, i, packed, cum =>
    let packed := if 0 < i ∧ i < 8 then (packed ||| ((cum <<< ((i - 1) * 9)) % 2 ^ 64)) else packed
    let cum := (cum + popc (countedWord ws len wi)) % 65536
    rankBlock ws len rest (i + 1) packed cum

/-- Outer loop: `(rank_l1 : Vec<u32>, rank_l2 : Vec<u64>, cumulative_rank : u64)`, lists reversed. -/
def rankLoop (ws : List (BitVec 64)) (len : Nat) : List (List Nat) → Nat → List Nat → List Nat →
    List Nat × List Nat × Nat
  | [], cum, l1, l2 => (l1.reverse, l2.reverse, cum)
  | blk :: rest, cum, l1, l2 =>
    let (packed, bc) := rankBlock ws len blk 0 0 0
    rankLoop ws len rest ((cum + bc) % 2 ^ 64) ((cum % 2 ^ 32) :: l1) (packed :: l2)

def buildRank (ws : List (BitVec 64)) (len : Nat) : List Nat × List Nat × Nat :=
  rankLoop ws len (chunksOf Gen.BP_WORDS_PER_RANK_BLOCK ws.length (List.range ws.length)) 0 [] []

/-! ### select supports -/

/-- `SelectIndex<u32>::build` / `WithCsPoppy::build_with_rate` share one sampling loop.  This is
the inner `while next_sample < total_ones && count + pop > next_sample { push; next_sample += rate }`
for one word: pushes the entry `(word_idx, count)` each time (at most `pop ≤ 64` times). -/
def sampleGo (rate totalOnes wi count pop : Nat) : Nat → Nat → List (Nat × Nat) → Nat × List (Nat × Nat)
  | 0, next, acc => (next, acc)
  | f + 1, next, acc =>
    if next < totalOnes ∧ count + pop > next then
      sampleGo rate totalOnes wi count pop f (next + rate) ((wi, count) :: acc)
    else (next, acc)

/-- The `for (word_idx, &word) in words.iter().enumerate()` loop: samples `(word_idx, count before
the word)` in order. -/
def sampleLoop (rate totalOnes : Nat) : List (BitVec 64) → Nat → Nat → Nat → List (Nat × Nat) →
    List (Nat × Nat)
  | [], _, _, _, acc => acc.reverse
  | w :: rest, wi, count, next, acc =>
    let pop := popc w
    let (next, acc) := sampleGo rate totalOnes wi count pop 65 next acc
    sampleLoop rate totalOnes rest (wi + 1) (count + pop) next acc

/-- `SelectIndex::<u32>::build(words, total_ones, 256)`: samples `(word_idx as u32, cumulative as u32)`. -/
def selectIndexBuild (ws : List (BitVec 64)) (totalOnes rate : Nat) : List (Nat × Nat) :=
  if ws.isEmpty ∨ totalOnes = 0 then []
  else
    let rate := max rate 1
    (sampleLoop rate totalOnes ws 0 0 0 []).map fun (a, b) => (a % 2 ^ 32, b % 2 ^ 32)

/-- `WithCsPoppy::build_with_rate`: samples are rank-block indices `(word_idx / 8) as u32`. -/
def csPoppyBuild (ws : List (BitVec 64)) (totalOnes rate : Nat) : List Nat :=
  let rate := max rate 1
  if ws.isEmpty ∨ totalOnes = 0 then []
  else (sampleLoop rate totalOnes ws 0 0 0 []).map fun (a, _) => (a / Gen.BP_WORDS_PER_RANK_BLOCK) % 2 ^ 32

inductive Sel where
  | none
  | withSelect (samples : Array (Nat × Nat))                -- rate 256
  | csPoppy (samples : Array Nat) (rate : Nat)
  deriving Inhabited

/-! ### the structure -/

structure BP where
  /-- stored words (owned constructors: final word masked; borrowed: as given) -/
  words : Array (BitVec 64)
  len : Nat
  totalOnes : Nat
  l0 : Array (Int × Int)
  l1 : Array (Int × Int)
  l2 : Array (Int × Int)
  rankL1 : Array Nat
  rankL2 : Array Nat
  sel : Sel
  deriving Inhabited

/-- `mask_final_word_in_place`. -/
def maskFinalWord (ws : List (BitVec 64)) (len : Nat) : List (BitVec 64) :=
  if len % 64 ≠ 0 then
    match ws.reverse with
    | [] => ws
    | last :: revInit => (revInit.reverse) ++ [last &&& ((1#64 <<< (len % 64)) - 1)]
  else ws

/-- Which select support a constructor builds. -/
inductive SelKind where
  | noSelect
  | withSelect
  | csPoppy (rate : Nat)

/-- `build_bp_index` (+ select support) for `len < 2^32`; `simd = true` uses the SSE4.1 lane model
for L1/L2. -/
def mkBP (simd : Bool) (stored : List (BitVec 64)) (len : Nat) (k : SelKind) : BP :=
  let empty := stored.isEmpty ∨ len = 0
  let l0 := if empty then [] else buildL0 stored len
  let l1 := if simd then buildL1Sse l0 else buildL1 l0
  let l2 := if simd then buildL2Sse l1 else buildL2 l1
  let r := if empty then ([], [], 0) else buildRank stored len
  let tot := r.2.2
  let sel := match k with
    | .noSelect => Sel.none
    | .withSelect => Sel.withSelect (selectIndexBuild stored tot 256).toArray
    | .csPoppy rate => Sel.csPoppy (csPoppyBuild stored tot (rate % 2 ^ 32)).toArray (max (rate % 2 ^ 32) 1)
  { words := stored.toArray, len := len, totalOnes := tot, l0 := l0.toArray, l1 := l1.toArray,
    l2 := l2.toArray, rankL1 := r.1.toArray, rankL2 := r.2.1.toArray, sel := sel }

/-- The constructors' common body: `none` = the `assert!(len <= u32::MAX)` panic. -/
def build (simd : Bool) (stored : List (BitVec 64)) (len : Nat) (k : SelKind) : Option BP :=
  if len ≥ 2 ^ 32 then none else some (mkBP simd stored len k)

/-- Owned constructors (`new`, `new_with_select`, `new_with_cspoppy[_config]`). -/
def buildOwned (simd : Bool) (ws : List (BitVec 64)) (len : Nat) (k : SelKind) : Option BP :=
  build simd (maskFinalWord ws len) len k

/-- Borrowed constructors (`from_words*`). -/
def buildBorrowed (simd : Bool) (ws : List (BitVec 64)) (len : Nat) (k : SelKind) : Option BP :=
  build simd ws len k

/-- Any of the eight constructors: owned (`new*`) or borrowed (`from_words*`) storage, a select
support, scalar or SSE4.1 (`simd` build) L1/L2 builders. -/
def construct (simd owned : Bool) (ws : List (BitVec 64)) (len : Nat) (k : SelKind) : Option BP :=
  if owned then buildOwned simd ws len k else buildBorrowed simd ws len k

/-! ### accessors -/

def BP.word (I : BP) (i : Nat) : BitVec 64 := I.words.getD i 0
def BP.l0Min (I : BP) (i : Nat) : Int := (I.l0.getD i (0, 0)).1
def BP.l0Exc (I : BP) (i : Nat) : Int := (I.l0.getD i (0, 0)).2
def BP.l1Min (I : BP) (i : Nat) : Int := (I.l1.getD i (0, 0)).1
def BP.l1Exc (I : BP) (i : Nat) : Int := (I.l1.getD i (0, 0)).2
def BP.l2Min (I : BP) (i : Nat) : Int := (I.l2.getD i (0, 0)).1
def BP.l2Exc (I : BP) (i : Nat) : Int := (I.l2.getD i (0, 0)).2

def BP.isOpen (I : BP) (p : Nat) : Bool :=
  if p ≥ I.len then false else (I.word (p / 64)).getLsbD (p % 64)

def BP.isClose (I : BP) (p : Nat) : Bool :=
  if p ≥ I.len then false else !I.isOpen p

/-! ### rank -/

/-- `(word & ((1 << bit_idx) - 1)).count_ones()` for `0 < bit_idx < 64`. -/
def popcBelow (w : BitVec 64) (bitIdx : Nat) : Nat := popc (w &&& ((1#64 <<< bitIdx) - 1))

/-- `rank1_slow(p)`. -/
def BP.rank1Slow (I : BP) (p : Nat) : Nat :=
  let wi := p / 64
  let bi := p % 64
  let count := ((I.words.toList.take wi).map popc).sum
  if bi > 0 ∧ wi < I.words.size then count + popcBelow (I.word wi) bi else count

/-- `rank1(p)`. -/
def BP.rank1 (I : BP) (p : Nat) : Nat :=
  if p = 0 then 0
  else
    let p := min p I.len
    let wi := p / 64
    let bi := p % 64
    if wi ≥ I.words.size then I.rank1Slow p
    else
      let blk := wi / Gen.BP_WORDS_PER_RANK_BLOCK
      let wib := wi % Gen.BP_WORDS_PER_RANK_BLOCK
      if blk ≥ I.rankL1.size then I.rank1Slow p
      else
        let l1 := I.rankL1.getD blk 0
        if wib ≠ 0 ∧ blk ≥ I.rankL2.size then I.rank1Slow p
        else
          let l2 := if wib = 0 then 0 else ((I.rankL2.getD blk 0) >>> ((wib - 1) * 9)) &&& 0x1FF
          let part := if bi > 0 then popcBelow (I.word wi) bi else 0
          l1 + l2 + part

/-- `rank0(p)`. -/
def BP.rank0 (I : BP) (p : Nat) : Nat := min p I.len - I.rank1 p

/-- `excess(p) -> i32`: `2 * (rank1(p+1) as i32) - ((p+1) as i32)` in wrapping `i32`. -/
def BP.excess (I : BP) (p : Nat) : Int :=
  if p ≥ I.len then 0
  else wrapI32 (2 * wrapI32 (I.rank1 (p + 1)) - wrapI32 ((p + 1 : Nat) : Int))

/-- `i32 as usize` (sign extension to 64 bits). -/
def i32AsUsize (e : Int) : Nat := if e < 0 then (e + 18446744073709551616).toNat else e.toNat

/-- `depth(p)`. -/
def BP.depth (I : BP) (p : Nat) : Option Nat :=
  if p ≥ I.len then none else some (i32AsUsize (I.excess p))

/-! ### select -/

/-- `select0(k)`: binary search over `rank0`. -/
def select0Loop (I : BP) (k : Nat) : Nat → Nat → Nat → Nat
  | 0, lo, _ => lo
  | f + 1, lo, hi =>
    if lo < hi then
      let mid := lo + (hi - lo) / 2
      if I.rank0 (mid + 1) > k then select0Loop I k f lo mid else select0Loop I k f (mid + 1) hi
    else lo

def BP.select0 (I : BP) (k : Nat) : Option Nat :=
  if k ≥ I.len - I.totalOnes then none else some (select0Loop I k (I.len + 1) 0 I.len)

/-- `select_in_word(word, k as u32) as usize`: the dispatcher takes the PDEP path on CPUs with fast
BMI2 and the CTZ loop otherwise; both (and the broadword fallback) are proved equal to the
bit-at-a-time definition for every word and `k` in C02 (`select_ctz_eq`, `select_pdep_eq`,
`select_paths_agree`), so the model runs the CTZ loop. -/
def selectInWord (w : BitVec 64) (k : Nat) : Nat := selectCtz w (k % 2 ^ 32)

/-- `SelectIndex::jump_to(k)`. -/
def jumpTo (samples : Array (Nat × Nat)) (rate k : Nat) : Nat × Nat :=
  if samples.isEmpty then (0, k)
  else
    let si := k / rate
    let e := if si ≥ samples.size then samples.getD (samples.size - 1) (0, 0) else samples.getD si (0, 0)
    (e.1, k - e.2)

/-- The `while size > 1` loop of core's `binary_search_by` (branch-free form used since Rust 1.82):
`half = size / 2; mid = base + half; base = if cmp == Greater { base } else { mid }; size -= half`,
with `cmp = Less` when the predicate `r <= k` holds and `Greater` otherwise. -/
def ppLoop (window : Array Nat) (k : Nat) : Nat → Nat → Nat → Nat
  | 0, _, base => base
  | f + 1, size, base =>
    if size > 1 then
      let half := size / 2
      let mid := base + half
      ppLoop window k f (size - half) (if window.getD mid 0 ≤ k then mid else base)
    else base

/-- `slice.partition_point(|r| r <= k)` = `binary_search_by(..).unwrap_or_else(|i| i)`: after the
loop, `Err(base + (cmp == Less) as usize)`. -/
def partitionPointLe (window : List Nat) (k : Nat) : Nat :=
  let a := window.toArray
  if a.size = 0 then 0
  else
    let base := ppLoop a k a.size a.size 0
    base + (if a.getD base 0 ≤ k then 1 else 0)

/-- The `for i in (1..words_in_block).rev()` loop: `(word_in_block, word_rank)`. -/
def csWordLoop (packed blockRank k : Nat) : Nat → Nat × Nat
  | 0 => (0, blockRank)
  | i + 1 =>
    -- iteration index `i + 1` (≥ 1)
    let offset := (packed >>> (i * 9)) &&& 0x1FF
    if blockRank + offset ≤ k then (i + 1, blockRank + offset) else csWordLoop packed blockRank k i

def BP.select1 (I : BP) (k : Nat) : Option Nat :=
  match I.sel with
  | .none => none
  | .withSelect samples =>
    if k ≥ I.totalOnes then none
    else
      let (startWord, remaining) := jumpTo samples 256 k
      match scanSelect popc I.words.toList startWord remaining with
      | none => none
      | some (wordIdx, rem) =>
        let bitPos := selectInWord (I.word wordIdx) rem
        let result := wordIdx * 64 + bitPos
        if result < I.len then some result else none
  | .csPoppy samples rate =>
    if k ≥ I.totalOnes ∨ samples.isEmpty ∨ I.rankL1.isEmpty then none
    else
      let si := k / rate
      let lastBlock := I.rankL1.size - 1
      let lo := if si < samples.size then samples.getD si 0 else samples.getD (samples.size - 1) 0
      let hi := min (if si + 1 < samples.size then samples.getD (si + 1) 0 else lastBlock) lastBlock
      let lo := min lo hi
      let window := (I.rankL1.toList.drop lo).take (hi + 1 - lo)
      let block := lo + (partitionPointLe window k - 1)
      let blockRank := I.rankL1.getD block 0
      let blockStart := block * Gen.BP_WORDS_PER_RANK_BLOCK
      if I.words.size < blockStart then none
      else
        let wordsInBlock := min (I.words.size - blockStart) Gen.BP_WORDS_PER_RANK_BLOCK
        if block ≥ I.rankL2.size then none
        else
          let packed := I.rankL2.getD block 0
          let (wordInBlock, wordRank) := csWordLoop packed blockRank k (wordsInBlock - 1)
          let wordIdx := blockStart + wordInBlock
          if wordIdx ≥ I.words.size then none
          else
            let remaining := k - wordRank
            let bitPos := selectInWord (I.word wordIdx) remaining
            let result := wordIdx * 64 + bitPos
            if result < I.len then some result else none

/-! ### find_close_in_word_fast -/

/-- A `for bit in from..to` loop over one byte value looking for excess 0:
`.inl pos` = found at `base + bit`, `.inr e` = not found, final excess. -/
def scanByteBits (byteVal base : Nat) : Nat → Nat → Int → Sum Nat Int
  | 0, _, e => .inr e
  | n + 1, bit, e =>
    if bitOf byteVal bit then scanByteBits byteVal base n (bit + 1) (e + 1)
    else if e - 1 = 0 then .inl (base + bit)
    else scanByteBits byteVal base n (bit + 1) (e - 1)

/-- The `while pos + 8 <= valid_bits && excess > 0` loop: `.inl` found, `.inr (pos, excess)`. -/
def fastFullBytes (w : BitVec 64) (validBits : Nat) : Nat → Nat → Int → Sum Nat (Nat × Int)
  | 0, pos, e => .inr (pos, e)
  | f + 1, pos, e =>
    if pos + 8 ≤ validBits ∧ e > 0 then
      let byteVal := byteOf w (pos / 8)
      let hit : Option Nat :=
        if e + byteMin byteVal ≤ 0 then
          let viaTable : Option Nat :=
            if e ≤ 16 then
              let m := byteFindClose byteVal (e - 1).toNat
              if m < 8 then some (pos + m) else none
            else none
          match viaTable with
          | some r => some r
          | none =>
            match scanByteBits byteVal pos 8 0 e with
            | .inl r => some r
            | .inr _ => none
        else none
      match hit with
      | some r => .inl r
      | none => fastFullBytes w validBits f (pos + 8) (e + byteTot byteVal)
    else .inr (pos, e)

/-- `find_close_in_word_fast(word, start_bit, initial_excess, valid_bits)`. -/
def findCloseInWordFast (w : BitVec 64) (startBit : Nat) (initialExcess : Int) (validBits : Nat) :
    Option Nat :=
  if startBit ≥ validBits ∨ initialExcess ≤ 0 then none
  else
    let firstByte := startBit / 8
    let bitInByte := startBit % 8
    -- partial first byte
    let r1 : Sum Nat (Nat × Int) :=
      if bitInByte ≠ 0 then
        let endBit := min 8 (validBits - firstByte * 8)
        match scanByteBits (byteOf w firstByte) (firstByte * 8) (endBit - bitInByte) bitInByte initialExcess with
        | .inl r => .inl r
        | .inr e => .inr ((firstByte + 1) * 8, e)
      else .inr (startBit, initialExcess)
    match r1 with
    | .inl r => some r
    | .inr (pos, e) =>
      match fastFullBytes w validBits 9 pos e with
      | .inl r => some r
      | .inr (pos, e) =>
        if pos < validBits ∧ e > 0 ∧ pos / 8 < 8 then
          match scanByteBits (byteOf w (pos / 8)) pos (validBits - pos) 0 e with
          | .inl r => some r
          | .inr _ => none
        else none

/-! ### find_close_from: the seven-state machine -/

inductive St where
  | scanWord | checkL0 | checkL1 | checkL2 | fromL0 | fromL1 | fromL2
  deriving DecidableEq, Repr

def l1Bits : Nat := 64 * Gen.BP_FACTOR_L1
def l2Bits : Nat := 64 * Gen.BP_FACTOR_L1 * Gen.BP_FACTOR_L2

/-- One iteration of the `loop { match state … }`: `.inl answer` = return, `.inr` = next
`(state, excess, pos)`. `excess` is an `i32` (wrapping). -/
def fcfStep (I : BP) (st : St) (excess : Int) (pos : Nat) : Sum (Option Nat) (St × Int × Nat) :=
  match st with
  | .scanWord =>
    if pos ≥ I.len then .inl none
    else
      let wi := pos / 64
      let bi := pos % 64
      let word := I.word wi
      let validBits := if wi * 64 + 64 ≤ I.len then 64 else I.len - wi * 64
      match findCloseInWordFast word bi excess validBits with
      | some m => .inl (some (wi * 64 + m))
      | none =>
        let remainingWord := word >>> bi
        let remainingBits := validBits - bi
        let ones : Nat :=
          if remainingBits = 64 then popc remainingWord
          else popc (remainingWord &&& ((1#64 <<< remainingBits) - 1))
        .inr (.fromL0, wrapI32 (excess + (2 * (ones : Int) - (remainingBits : Int))), (wi + 1) * 64)
  | .checkL0 =>
    let wi := pos / 64
    if wi ≥ I.l0.size then .inl none
    else if wrapI32 (excess + I.l0Min wi) ≤ 0 then .inr (.scanWord, excess, pos)
    else .inr (.fromL0, wrapI32 (excess + I.l0Exc wi), pos + 64)
  | .checkL1 =>
    let i := pos / l1Bits
    if i ≥ I.l1.size then .inl none
    else if wrapI32 (excess + I.l1Min i) ≤ 0 then .inr (.checkL0, excess, pos)
    else if pos < I.len then
      if I.isClose pos ∧ excess ≤ 1 then .inl (some pos)
      else .inr (.fromL1, wrapI32 (excess + I.l1Exc i), pos + l1Bits)
    else .inl none
  | .checkL2 =>
    let i := pos / l2Bits
    if i ≥ I.l2.size then .inl none
    else if wrapI32 (excess + I.l2Min i) ≤ 0 then .inr (.checkL1, excess, pos)
    else if pos < I.len then
      if I.isClose pos ∧ excess ≤ 1 then .inl (some pos)
      else .inr (.fromL2, wrapI32 (excess + I.l2Exc i), pos + l2Bits)
    else .inl none
  | .fromL0 =>
    if pos % 64 = 0 then .inr (.fromL1, excess, pos)
    else if pos < I.len then .inr (.scanWord, excess, pos)
    else .inl none
  | .fromL1 =>
    if pos % l1Bits = 0 then
      if pos < I.len then .inr (.fromL2, excess, pos) else .inl none
    else if pos < I.len then .inr (.checkL0, excess, pos)
    else .inl none
  | .fromL2 =>
    if pos % l2Bits = 0 then
      if pos < I.len then .inr (.checkL2, excess, pos) else .inl none
    else if pos < I.len then .inr (.checkL1, excess, pos)
    else .inl none

def fcfLoop (I : BP) : Nat → St → Int → Nat → Option Nat
  | 0, _, _, _ => none
  | f + 1, st, e, pos =>
    match fcfStep I st e pos with
    | .inl r => r
    | .inr (st, e, pos) => fcfLoop I f st e pos

/-- Iterations that always suffice: between two increases of `pos` at most 7 state changes, and
`pos` passes at least one word boundary per increase. -/
def fcfFuel (I : BP) : Nat := 8 * (I.len / 64 + 3)

/-- `find_close_from(start_pos, initial_excess)`. -/
def BP.findCloseFrom (I : BP) (startPos : Nat) (initialExcess : Int) : Option Nat :=
  if startPos ≥ I.len then none else fcfLoop I (fcfFuel I) .fromL0 initialExcess startPos

/-- `find_close(p)` (method). -/
def BP.findClose (I : BP) (p : Nat) : Option Nat :=
  if p ≥ I.len ∨ I.isClose p then none else I.findCloseFrom (p + 1) 1

/-! ### free functions: `find_close`, `find_open`, `enclose` over a word slice -/

def wordAt (ws : Array (BitVec 64)) (i : Nat) : BitVec 64 := ws.getD i 0

/-- `for bit in 0..word_bits` fine-grained search of `find_close`'s word loop. -/
def fcBitLoop (w : BitVec 64) (base : Nat) : Nat → Nat → Int → Option Nat
  | 0, _, _ => none
  | n + 1, bit, e =>
    if w.getLsbD bit then fcBitLoop w base n (bit + 1) (e + 1)
    else if e - 1 = 0 then some (base + bit)
    else fcBitLoop w base n (bit + 1) (e - 1)

/-- The `for (i, &word) in words[word_idx + 1..]` loop; the guard at the loop head (words lying
wholly at or beyond `len` end the scan) keeps `len - actual_word_idx * 64` from underflowing. -/
def fcWordLoop (ws : Array (BitVec 64)) (len : Nat) : Nat → Nat → Int → Option Nat
  | 0, _, _ => none
  | f + 1, idx, excess =>
    if idx ≥ ws.size then none
    else if idx * 64 ≥ len then none          -- words wholly beyond `len` (surplus storage): stop
    else
      let word := wordAt ws idx
      let wordBits := if idx * 64 + 64 ≤ len then 64 else len - idx * 64
      let masked := if wordBits = 64 then word else word &&& ((1#64 <<< wordBits) - 1)
      let (wordMin, wordExcess) := wordMinExcessI32 masked wordBits
      let hit := if excess + wordMin ≤ 0 then fcBitLoop masked (idx * 64) wordBits 0 excess else none
      match hit with
      | some r => some r
      | none =>
        let excess := wrapI32 (excess + wordExcess)
        if idx * 64 ≥ len then none else fcWordLoop ws len f (idx + 1) excess

/-- `trees::find_close(words, len, p)`. -/
def freeFindClose (ws : Array (BitVec 64)) (len p : Nat) : Option Nat :=
  if p ≥ len ∨ ws.isEmpty then none
  else
    let wi := p / 64
    let bi := p % 64
    let w := wordAt ws wi
    if !w.getLsbD bi then none
    else
      let local? : Option Nat :=
        match findCloseInWord w bi with
        | some l => if wi * 64 + l < len then some (wi * 64 + l) else none
        | none => none
      match local? with
      | some r => some r
      | none =>
        let part := w >>> bi
        let firstBits := 64 - bi
        let ones := popc part
        let excess : Int := wrapI32 (2 * (ones : Int) - (firstBits : Int))
        fcWordLoop ws len (ws.size + 1) (wi + 1) excess

/-- A backward `for bit in (0..n).rev()` loop looking for the running excess to reach `target`
on an open: `.inl pos` found, `.inr e` final excess. -/
def revBitLoop (w : BitVec 64) (base : Nat) (target : Int) : Nat → Int → Sum Nat Int
  | 0, e => .inr e
  | n + 1, e =>
    -- bit index `n`
    if w.getLsbD n then
      if e + 1 = target then .inl (base + n) else revBitLoop w base target n (e + 1)
    else revBitLoop w base target n (e - 1)

/-- `for word_idx in (0..n).rev()` of `find_open` (bit by bit in every word). -/
def foWordLoop (ws : Array (BitVec 64)) : Nat → Int → Option Nat
  | 0, _ => none
  | n + 1, e =>
    match revBitLoop (wordAt ws n) (n * 64) 0 64 e with
    | .inl r => some r
    | .inr e => foWordLoop ws n e

/-- `trees::find_open(words, len, p)`. -/
def freeFindOpen (ws : Array (BitVec 64)) (len p : Nat) : Option Nat :=
  if p ≥ len ∨ ws.isEmpty then none
  else
    let wi := p / 64
    let bi := p % 64
    let w := wordAt ws wi
    if w.getLsbD bi then none
    else
      match revBitLoop w (wi * 64) 0 bi (-1) with
      | .inl r => some r
      | .inr e => foWordLoop ws wi e

/-- `for word_idx in (0..start_word).rev()` of `enclose` (skips by `word_max_excess_rev`). -/
def encWordLoop (ws : Array (BitVec 64)) : Nat → Int → Option Nat
  | 0, _ => none
  | n + 1, e =>
    let word := wordAt ws n
    let (maxE, wordE) := wordMaxExcessRev word
    if e + maxE ≥ 1 then
      match revBitLoop word (n * 64) 1 64 e with
      | .inl r => some r
      | .inr e => encWordLoop ws n e
    else encWordLoop ws n (wrapI32 (e + wordE))

/-- `trees::enclose(words, len, p)`. -/
def freeEnclose (ws : Array (BitVec 64)) (len p : Nat) : Option Nat :=
  if p = 0 ∨ p ≥ len ∨ ws.isEmpty then none
  else
    let wi := p / 64
    let bi := p % 64
    if !(wordAt ws wi).getLsbD bi then none
    else
      let startBit := if bi > 0 then bi - 1 else 63
      let startWord := if bi > 0 then wi else wi - 1
      match revBitLoop (wordAt ws startWord) (startWord * 64) 1 (startBit + 1) 0 with
      | .inl r => some r
      | .inr e => encWordLoop ws startWord e

/-! ### remaining methods -/

def BP.findOpen (I : BP) (p : Nat) : Option Nat :=
  if p ≥ I.len ∨ I.isOpen p then none else freeFindOpen I.words I.len p

def BP.enclose (I : BP) (p : Nat) : Option Nat :=
  if p ≥ I.len ∨ I.isClose p then none else freeEnclose I.words I.len p

def BP.parent (I : BP) (p : Nat) : Option Nat := I.enclose p

def BP.nextSibling (I : BP) (p : Nat) : Option Nat :=
  if !I.isOpen p then none
  else
    match I.findClose p with
    | none => none
    | some close => if close + 1 < I.len ∧ I.isOpen (close + 1) then some (close + 1) else none

def BP.firstChild (I : BP) (p : Nat) : Option Nat :=
  if !I.isOpen p ∨ p + 1 ≥ I.len then none
  else if I.isOpen (p + 1) then some (p + 1) else none

def BP.subtreeSize (I : BP) (p : Nat) : Option Nat :=
  if p ≥ I.len ∨ I.isClose p then none
  else
    match I.findClose p with
    | none => none
    | some close => some ((close - p) / 2)

end SV.BPM
