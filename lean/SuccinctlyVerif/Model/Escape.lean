/-
Model/Escape — models of `succinctly::jq::escape` (the four JSON string-body writers) and of the
chunked escape scanner `util::simd::escape::json_escape` (C09).

Strings are lists of Unicode scalar values (`List Nat`); the output of a writer is again a list of
scalar values (the `String` it builds).  The yq writer works on the UTF-8 bytes of the string and
copies spans between scanner hits, so it is modelled over `List (BitVec 8)`.
-/
import SuccinctlyVerif.Spec.Utf8
namespace SV.Escape
open SV SV.Utf8

/-! ### scanner -/

/-- The scalar predicate of `json_escape`: `b == b'"' || b == b'\\' || b < 0x20`. -/
def needsEscape (b : BitVec 8) : Bool := b == 0x22#8 || b == 0x5C#8 || b < 0x20#8

/-- `_mm_cmpeq_epi8` lane. -/
def cmpeq (a b : BitVec 8) : BitVec 8 := if a = b then 0xFF#8 else 0x00#8
/-- `_mm_subs_epu8` lane (saturating unsigned subtract). -/
def subsu (a b : BitVec 8) : BitVec 8 := if a < b then 0x00#8 else a - b

/-- One lane of `json_avx2_mask` / `json_sse2_mask` (identical DAGs). -/
def jsonMaskLane (c : BitVec 8) : BitVec 8 :=
  (cmpeq c 0x22#8 ||| cmpeq c 0x5C#8) ||| cmpeq (subsu c 0x1F#8) 0x00#8

/-- `movemask_epi8`: bit `i` = most significant bit of lane `i`. -/
def movemask : List (BitVec 8) → Nat
  | [] => 0
  | l :: ls => (if l.msb then 1 else 0) + 2 * movemask ls

/-- `trailing_zeros` of a non-zero mask (fuel = number of lanes). -/
def tzNat : Nat → Nat → Nat
  | 0, _ => 0
  | f + 1, m => if m % 2 = 1 then 0 else 1 + tzNat f (m / 2)

/-- The scalar remainder loop: offset of the first byte satisfying `p`, `none` if there is none. -/
def scanTail (p : BitVec 8 → Bool) : List (BitVec 8) → Option Nat
  | [] => none
  | b :: r => if p b then some 0 else (scanTail p r).map (· + 1)

/-- One chunk step of width `w` (the chunk is `data.take w`, present iff `w ≤ data.length`):
`some (some i)` = hit at `i`; `some none` = chunk clean; `none` = fewer than `w` bytes left. -/
def chunkStep (lane : BitVec 8 → BitVec 8) (w : Nat) (data : List (BitVec 8)) : Option (Option Nat) :=
  if w ≤ data.length then
    let mask := movemask ((data.take w).map lane)
    if mask ≠ 0 then some (some (tzNat w mask)) else some none
  else none

/-- Main loop of width `w`: returns `(.inl hit)` or `.inr (bytes consumed, remaining data)`. -/
def chunkLoop (lane : BitVec 8 → BitVec 8) (w : Nat) : Nat → Nat → List (BitVec 8) → Sum Nat (Nat × List (BitVec 8))
  | 0, off, data => .inr (off, data)
  | f + 1, off, data =>
    match chunkStep lane w data with
    | some (some i) => .inl (off + i)
    | some none => chunkLoop lane w f (off + w) (data.drop w)
    | none => .inr (off, data)

/-- `json_escape::sse2` on `data = input[start..]` (given `start < len`): 16-byte loop + scalar tail. -/
def sse2Scan (data : List (BitVec 8)) : Option Nat :=
  match chunkLoop jsonMaskLane 16 data.length 0 data with
  | .inl i => some i
  | .inr (off, rest) => (scanTail needsEscape rest).map (off + ·)

/-- `json_escape::avx2`: 32-byte loop, one optional 16-byte step, scalar tail. -/
def avx2Scan (data : List (BitVec 8)) : Option Nat :=
  match chunkLoop jsonMaskLane 32 data.length 0 data with
  | .inl i => some i
  | .inr (off, rest) =>
    match chunkStep jsonMaskLane 16 rest with
    | some (some i) => some (off + i)
    | some none => (scanTail needsEscape (rest.drop 16)).map (off + 16 + ·)
    | none => (scanTail needsEscape rest).map (off + ·)

/-- `dispatch` / `find` wrapper: `start >= len` ⇒ `len`; kernel result `None` ⇒ `len`. -/
def findWith (kernel : List (BitVec 8) → Option Nat) (bytes : List (BitVec 8)) (start : Nat) : Nat :=
  if start ≥ bytes.length then bytes.length
  else match kernel (bytes.drop start) with
    | some off => start + off
    | none => bytes.length

/-- `json_escape::scalar` (`bytes[start..]` panics for `start > len`: `none`). -/
def scalarFind (bytes : List (BitVec 8)) (start : Nat) : Option Nat :=
  if start > bytes.length then none
  else some (match scanTail needsEscape (bytes.drop start) with
    | some off => start + off
    | none => bytes.length)

/-- Spec: first index `≥ start` holding `"`, `\` or a byte `< 0x20`, else `len`. -/
def firstEscapeSpec (bytes : List (BitVec 8)) (start : Nat) : Nat :=
  if start ≥ bytes.length then bytes.length
  else start + ((bytes.drop start).takeWhile (fun b => !needsEscape b)).length

/-! ### writers -/

/-- `HEX[n]` as a character code. -/
def hexDigit (n : Nat) : Nat := if n < 10 then 48 + n else 87 + n

/-- `write_short_u_escape`: `\u00xx`. -/
def shortU (b : Nat) : List Nat := [92, 117, 48, 48, hexDigit (b / 16 % 16), hexDigit (b % 16)]

/-- `write_bmp_u_escape`: `\uXXXX`. -/
def bmpU (cp : Nat) : List Nat :=
  [92, 117, hexDigit (cp / 4096 % 16), hexDigit (cp / 256 % 16), hexDigit (cp / 16 % 16), hexDigit (cp % 16)]

/-- `write_u_escape`: `\uXXXX` or a surrogate pair. -/
def uEscape (cp : Nat) : List Nat :=
  if cp ≤ 0xFFFF then bmpU cp
  else bmpU (0xD800 + (cp - 0x10000) / 1024) ++ bmpU (0xDC00 + (cp - 0x10000) % 1024)

/-- One character of `write_json_body_jq`. -/
def jqChar (c : Nat) : List Nat :=
  if c = 34 then [92, 34] else if c = 92 then [92, 92] else if c = 8 then [92, 98]
  else if c = 12 then [92, 102] else if c = 10 then [92, 110] else if c = 13 then [92, 114]
  else if c = 9 then [92, 116] else if c < 0x20 ∨ c = 0x7F then shortU c else [c]

/-- One character of `write_json_body_jq_ascii`. -/
def jqAsciiChar (c : Nat) : List Nat :=
  if c = 34 then [92, 34] else if c = 92 then [92, 92] else if c = 8 then [92, 98]
  else if c = 12 then [92, 102] else if c = 10 then [92, 110] else if c = 13 then [92, 114]
  else if c = 9 then [92, 116] else if c < 0x20 ∨ c = 0x7F then shortU c
  else if ¬ c < 0x80 then uEscape c else [c]

/-- One character of `write_json_body_yq_ascii`. -/
def yqAsciiChar (c : Nat) : List Nat :=
  if c = 34 then [92, 34] else if c = 92 then [92, 92] else if c = 10 then [92, 110]
  else if c = 13 then [92, 114] else if c = 9 then [92, 116] else if c < 0x20 then shortU c
  else if ¬ c < 0x80 then uEscape c else [c]

def writeJq (s : List Nat) : List Nat := s.flatMap jqChar
def writeJqAscii (s : List Nat) : List Nat := s.flatMap jqAsciiChar
def writeYqAscii (s : List Nat) : List Nat := s.flatMap yqAsciiChar

/-- The escape `write_json_body_yq` emits for a byte the scanner stopped on (as bytes). -/
def yqByteEsc (b : BitVec 8) : List (BitVec 8) :=
  if b = 0x22#8 then [0x5C#8, 0x22#8] else if b = 0x5C#8 then [0x5C#8, 0x5C#8]
  else if b = 0x0A#8 then [0x5C#8, 0x6E#8] else if b = 0x0D#8 then [0x5C#8, 0x72#8]
  else if b = 0x09#8 then [0x5C#8, 0x74#8]
  else (shortU b.toNat).map (BitVec.ofNat 8)

/-- `write_json_body_yq` over the UTF-8 bytes `bytes[i..]`: find the next escapable byte (AVX2
dispatch tier of `find_json_escape`), copy the span before it, emit its escape, continue. -/
def writeYqBytes : Nat → List (BitVec 8) → List (BitVec 8)
  | 0, _ => []
  | _ + 1, [] => []
  | f + 1, rest =>
    let pos := findWith avx2Scan rest 0
    rest.take pos ++
      (match rest.drop pos with
       | [] => []
       | b :: r => yqByteEsc b ++ writeYqBytes f r)

def writeYq (s : List Nat) : List (BitVec 8) :=
  let bytes := encodeAll s
  writeYqBytes (bytes.length + 1) bytes

/-- What `write_json_body_yq` does to one character (the byte-level writer, seen per character):
short escapes for `"` `\\` `\n` `\r` `\t`, `\u00xx` for the other C0 controls, everything else raw
(incl. DEL and all non-ASCII).  `Props/C09.yq_writer_eq` proves `writeYq` equal to this. -/
def yqChar (c : Nat) : List Nat :=
  if c = 34 then [92, 34] else if c = 92 then [92, 92] else if c = 10 then [92, 110]
  else if c = 13 then [92, 114] else if c = 9 then [92, 116] else if c < 0x20 then shortU c else [c]

/-- The byte-level writer per input byte: escape the bytes the scanner stops on, copy the rest. -/
def yqByte (b : BitVec 8) : List (BitVec 8) := if needsEscape b then yqByteEsc b else [b]

/-! ### spec: JSON string body decoder (RFC 8259 §7) over scalar values -/

def hexVal (c : Nat) : Option Nat :=
  if 48 ≤ c ∧ c ≤ 57 then some (c - 48) else if 97 ≤ c ∧ c ≤ 102 then some (c - 87)
  else if 65 ≤ c ∧ c ≤ 70 then some (c - 55) else none

def hex4 : List Nat → Option (Nat × List Nat)
  | a :: b :: c :: d :: r =>
    match hexVal a, hexVal b, hexVal c, hexVal d with
    | some a, some b, some c, some d => some (a * 4096 + b * 256 + c * 16 + d, r)
    | _, _, _, _ => none
  | _ => none

/-- Decode a JSON string body (no surrounding quotes): unescaped characters are `≥ 0x20` other than
`"` and `\`; escapes `\" \\ \/ \b \f \n \r \t \uXXXX`, a high surrogate must be followed by a
`\u` low surrogate and the pair denotes one scalar value; lone surrogates are rejected. -/
def decodeBody : Nat → List Nat → Option (List Nat)
  | 0, _ => none
  | _ + 1, [] => some []
  | f + 1, c :: r =>
    if c = 92 then
      match r with
      | [] => none
      | e :: r1 =>
        let simple (v : Nat) := (decodeBody f r1).map (v :: ·)
        if e = 34 then simple 34 else if e = 92 then simple 92 else if e = 47 then simple 47
        else if e = 98 then simple 8 else if e = 102 then simple 12 else if e = 110 then simple 10
        else if e = 114 then simple 13 else if e = 116 then simple 9
        else if e = 117 then
          match hex4 r1 with
          | none => none
          | some (u, r2) =>
            if 0xD800 ≤ u ∧ u ≤ 0xDBFF then
              match r2 with
              | 92 :: 117 :: r3 =>
                match hex4 r3 with
                | some (lo, r4) =>
                  if 0xDC00 ≤ lo ∧ lo ≤ 0xDFFF then
                    (decodeBody f r4).map ((0x10000 + (u - 0xD800) * 1024 + (lo - 0xDC00)) :: ·)
                  else none
                | none => none
              | _ => none
            else if 0xDC00 ≤ u ∧ u ≤ 0xDFFF then none
            else (decodeBody f r2).map (u :: ·)
        else none
    else if c = 34 ∨ c < 0x20 then none
    else (decodeBody f r).map (c :: ·)

def decode (body : List Nat) : Option (List Nat) := decodeBody (body.length + 1) body

end SV.Escape
