/-
Model/EliasFano — executable model of `src/bits/elias_fano.rs`, following the Rust line by line.

Conventions
* `Vec<u64>` is `List (BitVec 64)`; `usize`/`u64` scalars are `Nat` (every `usize` value here is
  bounded by `3·len + 64`; the one place where an *argument* is added, `advance_by`'s
  `self.idx.saturating_add(k)`, is modelled with its saturation at 2^64 - 1); `u32` values are `Nat`, every
  `as u32` cast is an explicit `% 2^32`; `u64` shifts / masks are done on `BitVec 64`.
* `Res α = Option α`: `none` is a Rust panic (slice index out of bounds, `expect` on `None`).
* `R` is `SELECT_SAMPLE_RATE` (a parameter; the generated value is `Gen.EF_SELECT_SAMPLE_RATE`).
* `select_in_word(w, k)` is `selectInWordSpec w k` (the Rust kernels equal it: property C02);
  `trailing_zeros` = `tz`, `count_ones` = `popc`, `leading_zeros` = `clz` (Model/Prim).
* The shared `scan_select` is `scanSelect popc` of Model/Scan.
-/
import SuccinctlyVerif.Spec.Bits
import SuccinctlyVerif.Spec.EliasFano
import SuccinctlyVerif.Model.Prim
import SuccinctlyVerif.Model.Scan
import SuccinctlyVerif.Generated.C03
namespace SV.EF

/-- `none` = the Rust code panics. -/
abbrev Res (α : Type) := Option α

/-- `u64::leading_zeros`. -/
def lz64 (x : Nat) : Nat := (BitVec.ofNat 64 x).clz.toNat

/-- `usize` subtraction as compiled by the release profile of the harness (wrapping). -/
def wsub (a b : Nat) : Nat := if b ≤ a then a - b else a + 2 ^ 64 - b

structure EliasFano where
  lowBits : List (BitVec 64)
  lowWidth : Nat
  highBits : List (BitVec 64)
  len : Nat
  univ : Nat
  selectSamples : List Nat
  deriving Repr, DecidableEq

structure Cursor where
  idx : Nat
  highPos : Nat
  wordIdx : Nat
  remainingBits : BitVec 64
  deriving Repr, DecidableEq

/-! ### build -/

/-- `low_width`: `floor(log2(universe / n))` via `leading_zeros`, `saturating_sub(1)`. -/
def lowWidthOf (n univ : Nat) : Nat :=
  if n = 0 ∨ univ ≤ n then 0
  else (64 - lz64 (univ / n)) - 1

/-- `ws[i] |= x` (panics when `i` is out of bounds). -/
def orAt (ws : List (BitVec 64)) (i : Nat) (x : BitVec 64) : Res (List (BitVec 64)) :=
  if h : i < ws.length then some (ws.set i (ws[i] ||| x)) else none

/-- The low-bits part of one iteration of the encode loop. -/
def encodeLow (w : Nat) (lowMask : BitVec 64) (v : BitVec 64) (i : Nat) (low : List (BitVec 64)) :
    Res (List (BitVec 64)) :=
  if w > 0 then
    let lowValue := v &&& lowMask
    let bitPos := i * w
    let wordIdx := bitPos / 64
    let bitOffset := bitPos % 64
    match orAt low wordIdx (lowValue <<< bitOffset) with
    | none => none
    | some low =>
      if bitOffset + w > 64 ∧ wordIdx + 1 < low.length then
        orAt low (wordIdx + 1) (lowValue >>> (64 - bitOffset))
      else some low
  else some low

/-- `for (i, &value) in values.iter().enumerate() { … }` of `build`. -/
def encodeLoop (w : Nat) (lowMask : BitVec 64) :
    List Nat → Nat → List (BitVec 64) → List (BitVec 64) → Res (List (BitVec 64) × List (BitVec 64))
  | [], _, low, high => some (low, high)
  | value :: rest, i, low, high =>
    let v := BitVec.ofNat 64 value
    match encodeLow w lowMask v i low with
    | none => none
    | some low =>
      let highValue := v >>> w
      let highPos := highValue.toNat + i
      match orAt high (highPos / 64) (1#64 <<< (highPos % 64)) with
      | none => none
      | some high => encodeLoop w lowMask rest (i + 1) low high

/-- The inner `while sample_target < ones_seen + word_ones { … }`; the `Bool` is `break 'outer`.
`fuel` bounds the iterations (each adds `R ≥ 1` to the target, at most 64 fit in one word). -/
def sampleWhile (R numSamples wordIdx : Nat) (word : BitVec 64) (onesSeen wordOnes : Nat) :
    Nat → List Nat → Nat → List Nat × Nat × Bool
  | 0, samples, target => (samples, target, false)
  | fuel + 1, samples, target =>
    if target < onesSeen + wordOnes then
      let localRank := target - onesSeen
      let bitPos := selectInWordSpec word (localRank % 2 ^ 32)
      let globalPos := wordIdx * 64 + bitPos
      let samples := samples ++ [globalPos % 2 ^ 32]
      let target := target + R
      if samples.length ≥ numSamples then (samples, target, true)
      else sampleWhile R numSamples wordIdx word onesSeen wordOnes fuel samples target
    else (samples, target, false)

/-- `'outer: for (word_idx, &word) in high_bits.iter().enumerate() { … }`. -/
def sampleLoop (R numSamples : Nat) : List (BitVec 64) → Nat → Nat → Nat → List Nat → List Nat
  | [], _, _, _, samples => samples
  | word :: rest, wordIdx, onesSeen, target, samples =>
    if word = 0 then sampleLoop R numSamples rest (wordIdx + 1) onesSeen target samples
    else
      let wordOnes := popc word
      match sampleWhile R numSamples wordIdx word onesSeen wordOnes 65 samples target with
      | (samples, _, true) => samples
      | (samples, target, false) =>
        sampleLoop R numSamples rest (wordIdx + 1) (onesSeen + wordOnes) target samples

/-- `EliasFano::build`. -/
def build (R : Nat) (values : List Nat) : Res EliasFano :=
  if values.isEmpty then
    some { lowBits := [], lowWidth := 0, highBits := [], len := 0, univ := 0, selectSamples := [] }
  else
    let n := values.length
    let maxValue := values.getLastD 0
    let univ := maxValue + 1
    let lowWidth := lowWidthOf n univ
    let lowMask : BitVec 64 := if lowWidth = 0 then 0 else (1#64 <<< lowWidth) - 1
    let lowBitsTotal := n * lowWidth
    let lowWords := (lowBitsTotal + 63) / 64
    let highBitsLen := n + (BitVec.ofNat 64 maxValue >>> lowWidth).toNat + 1
    let highWords := (highBitsLen + 63) / 64
    match encodeLoop lowWidth lowMask values 0 (List.replicate lowWords 0) (List.replicate highWords 0) with
    | none => none
    | some (lowBits, highBits) =>
      let numSamples := (n + R - 1) / R
      let selectSamples := sampleLoop R numSamples highBits 0 0 0 []
      some { lowBits, lowWidth, highBits, len := n, univ, selectSamples }

/-! ### queries -/

/-- Private `select1`: position of the `k`-th one of the high bits. -/
def select1 (R : Nat) (ef : EliasFano) (k : Nat) : Res Nat :=
  let sampleIdx := k / R
  if h : sampleIdx < ef.selectSamples.length then
    let samplePos := ef.selectSamples[sampleIdx]
    let skipOnes := sampleIdx * R
    let startWord := samplePos / 64
    let remaining := k - skipOnes
    let bitOffset := samplePos % 64
    match ef.highBits[startWord]? with
    | none => none
    | some w =>
      let masked := w &&& ~~~((1#64 <<< bitOffset) - 1)
      let ones := popc masked
      if ones > remaining then
        some (startWord * 64 + selectInWordSpec masked (remaining % 2 ^ 32))
      else
        let remaining := remaining - ones
        match scanSelect popc ef.highBits (startWord + 1) remaining with
        | none => none      -- expect("select1: not enough 1-bits")
        | some (wordIdx, rem) =>
          match ef.highBits[wordIdx]? with
          | none => none
          | some w => some (wordIdx * 64 + selectInWordSpec w (rem % 2 ^ 32))
  else
    match scanSelect popc ef.highBits 0 k with
    | none => none
    | some (wordIdx, rem) =>
      match ef.highBits[wordIdx]? with
      | none => none
      | some w => some (wordIdx * 64 + selectInWordSpec w (rem % 2 ^ 32))

/-- `read_low_bits`. -/
def readLowBits (ef : EliasFano) (i : Nat) : Res (BitVec 64) :=
  if ef.lowWidth = 0 then some 0
  else
    let bitPos := i * ef.lowWidth
    let wordIdx := bitPos / 64
    let bitOffset := bitPos % 64
    let lowMask := (1#64 <<< ef.lowWidth) - 1
    match ef.lowBits[wordIdx]? with
    | none => none
    | some w0 =>
      let value := (w0 >>> bitOffset) &&& lowMask
      if bitOffset + ef.lowWidth > 64 ∧ wordIdx + 1 < ef.lowBits.length then
        let overflowBits := bitOffset + ef.lowWidth - 64
        let overflowMask := (1#64 <<< overflowBits) - 1
        match ef.lowBits[wordIdx + 1]? with
        | none => none
        | some w1 => some (value ||| ((w1 &&& overflowMask) <<< (ef.lowWidth - overflowBits)))
      else some value

/-- `((high_value as u64) << low_width) | low_value`, then `as u32`. -/
def combine (ef : EliasFano) (highValue : Nat) (lowValue : BitVec 64) : Nat :=
  ((BitVec.ofNat 64 highValue <<< ef.lowWidth) ||| lowValue).toNat % 2 ^ 32

/-- `get`. -/
def get (R : Nat) (ef : EliasFano) (i : Nat) : Res (Option Nat) :=
  if i ≥ ef.len then some none
  else
    match select1 R ef i with
    | none => none
    | some highPos =>
      let highValue := wsub highPos i
      match readLowBits ef i with
      | none => none
      | some lowValue => some (some (combine ef highValue lowValue))

/-- The `while lo < hi` loop of `predecessor` (`fuel` ≥ `hi - lo` suffices). -/
def predLoop (R : Nat) (ef : EliasFano) (value : Nat) :
    Nat → Nat → Nat → Option (Nat × Nat) → Res (Option (Nat × Nat))
  | 0, _, _, best => some best
  | fuel + 1, lo, hi, best =>
    if lo < hi then
      let mid := lo + (hi - lo) / 2
      match get R ef mid with
      | none => none
      | some none => none          -- expect("mid < len")
      | some (some v) =>
        if v ≤ value then predLoop R ef value fuel (mid + 1) hi (some (mid, v))
        else predLoop R ef value fuel lo mid best
    else some best

/-- `predecessor`. -/
def predecessor (R : Nat) (ef : EliasFano) (value : Nat) : Res (Option (Nat × Nat)) :=
  predLoop R ef value (ef.len + 1) 0 ef.len none

/-! ### cursor -/

/-- `while word_idx < high_bits.len() && high_bits[word_idx] == 0 { word_idx += 1 }`, run on
`high_bits[word_idx..]`. -/
def skipZeroWords : List (BitVec 64) → Nat → Nat
  | [], i => i
  | w :: ws, i => if w = 0 then skipZeroWords ws (i + 1) else i

/-- `cursor()`. -/
def cursor (ef : EliasFano) : Cursor :=
  if ef.len = 0 then { idx := 0, highPos := 0, wordIdx := 0, remainingBits := 0 }
  else
    let wordIdx := skipZeroWords ef.highBits 0
    let word := if wordIdx < ef.highBits.length then ef.highBits.getD wordIdx 0 else 0
    let bitPos := tz word
    { idx := 0, highPos := wordIdx * 64 + bitPos, wordIdx := wordIdx, remainingBits := word }

/-- `cursor_from(idx)`. -/
def cursorFrom (R : Nat) (ef : EliasFano) (idx : Nat) : Res Cursor :=
  if idx ≥ ef.len then some { idx := ef.len, highPos := 0, wordIdx := 0, remainingBits := 0 }
  else if idx = 0 then some (cursor ef)
  else
    match select1 R ef idx with
    | none => none
    | some highPos =>
      let wordIdx := highPos / 64
      let bitOffset := highPos % 64
      match ef.highBits[wordIdx]? with
      | none => none
      | some word =>
        some { idx := idx, highPos := highPos, wordIdx := wordIdx,
               remainingBits := word &&& ~~~((1#64 <<< bitOffset) - 1) }

/-- `current()`. -/
def current (ef : EliasFano) (c : Cursor) : Res (Option Nat) :=
  if c.idx ≥ ef.len then some none
  else
    let highValue := wsub c.highPos c.idx
    match readLowBits ef c.idx with
    | none => none
    | some lowValue => some (some (combine ef highValue lowValue))

def index (c : Cursor) : Nat := c.idx

def isExhausted (ef : EliasFano) (c : Cursor) : Bool := decide (c.idx ≥ ef.len)

/-- `x & x.wrapping_sub(1)`: clear the lowest set bit. -/
def clearLowest (x : BitVec 64) : BitVec 64 := x &&& (x - 1)

/-- `for _ in 0..n { x &= x.wrapping_sub(1) }`. -/
def clearLowestN : Nat → BitVec 64 → BitVec 64
  | 0, x => x
  | n + 1, x => clearLowestN n (clearLowest x)

/-- Finish a move: the cursor has been updated, return `self.current()`. -/
def withCurrent (ef : EliasFano) (c : Cursor) : Res (Cursor × Option Nat) :=
  match current ef c with
  | none => none
  | some v => some (c, v)

/-- `advance_one()`: new cursor state and return value. -/
def advanceOne (ef : EliasFano) (c : Cursor) : Res (Cursor × Option Nat) :=
  if c.idx + 1 ≥ ef.len then some ({ c with idx := ef.len }, none)
  else
    let rb := clearLowest c.remainingBits
    if rb ≠ 0 then
      let bitPos := tz rb
      withCurrent ef { idx := c.idx + 1, highPos := c.wordIdx * 64 + bitPos, wordIdx := c.wordIdx,
                       remainingBits := rb }
    else
      let wordIdx := skipZeroWords (ef.highBits.drop (c.wordIdx + 1)) (c.wordIdx + 1)
      if wordIdx ≥ ef.highBits.length then
        some ({ idx := ef.len, highPos := c.highPos, wordIdx := wordIdx, remainingBits := rb }, none)
      else
        match ef.highBits[wordIdx]? with
        | none => none
        | some word =>
          let bitPos := tz word
          withCurrent ef { idx := c.idx + 1, highPos := wordIdx * 64 + bitPos, wordIdx := wordIdx,
                           remainingBits := word }

/-- `seek(idx)`. -/
def seek (R : Nat) (ef : EliasFano) (c : Cursor) (idx : Nat) : Res (Cursor × Option Nat) :=
  if idx ≥ ef.len then some ({ c with idx := ef.len }, none)
  else
    match select1 R ef idx with
    | none => none
    | some highPos =>
      let wordIdx := highPos / 64
      let bitOffset := highPos % 64
      match ef.highBits[wordIdx]? with
      | none => none
      | some word =>
        withCurrent ef { idx := idx, highPos := highPos, wordIdx := wordIdx,
                         remainingBits := word &&& ~~~((1#64 <<< bitOffset) - 1) }

/-- The `while self.word_idx < high_bits.len()` loop of `advance_by`, run on
`high_bits[word_idx..]`: the word holding the target, its index and the rank left. -/
def advScan : List (BitVec 64) → Nat → Nat → Option (Nat × BitVec 64 × Nat)
  | [], _, _ => none
  | word :: rest, wordIdx, remaining =>
    let ones := popc word
    if ones ≥ remaining then some (wordIdx, word, remaining)
    else advScan rest (wordIdx + 1) (remaining - ones)

/-- `advance_by(k)`. `self.idx.saturating_add(k)` saturates at `usize::MAX = 2^64 - 1`. -/
def advanceBy (R : Nat) (ef : EliasFano) (c : Cursor) (k : Nat) : Res (Cursor × Option Nat) :=
  if k = 0 then withCurrent ef c
  else if k = 1 then advanceOne ef c
  else
    let targetIdx := min (c.idx + k) (2 ^ 64 - 1)
    if targetIdx ≥ ef.len then some ({ c with idx := ef.len }, none)
    else if k > 64 then seek R ef c targetIdx
    else
      let wordAfterCurrent := clearLowest c.remainingBits
      let onesInCurrent := popc wordAfterCurrent
      if onesInCurrent ≥ k then
        let rb := clearLowestN (k - 1) wordAfterCurrent
        let bitPos := tz rb
        withCurrent ef { idx := targetIdx, highPos := c.wordIdx * 64 + bitPos, wordIdx := c.wordIdx,
                         remainingBits := rb }
      else
        let remaining := k - onesInCurrent
        match advScan (ef.highBits.drop (c.wordIdx + 1)) (c.wordIdx + 1) remaining with
        | some (wordIdx, word, remaining) =>
          let rb := clearLowestN (remaining - 1) word
          let bitPos := tz rb
          withCurrent ef { idx := targetIdx, highPos := wordIdx * 64 + bitPos, wordIdx := wordIdx,
                           remainingBits := rb }
        | none =>
          some ({ idx := ef.len, highPos := c.highPos,
                  wordIdx := max (c.wordIdx + 1) ef.highBits.length,
                  remainingBits := c.remainingBits }, none)

/-! ### iterator -/

/-- `EliasFanoIter::next` after the first call, repeated until it returns `None`
(`fuel` = number of further calls allowed; `len` suffices). -/
def iterRest (ef : EliasFano) : Nat → Cursor → Res (List Nat)
  | 0, _ => some []
  | fuel + 1, c =>
    match advanceOne ef c with
    | none => none
    | some (_, none) => some []
    | some (c', some v) =>
      match iterRest ef fuel c' with
      | none => none
      | some rest => some (v :: rest)

/-- `(&ef).into_iter().collect::<Vec<u32>>()`. -/
def toList (ef : EliasFano) : Res (List Nat) :=
  let c := cursor ef
  match current ef c with
  | none => none
  | some none => some []
  | some (some v) =>
    match iterRest ef ef.len c with
    | none => none
    | some rest => some (v :: rest)

/-! ### a cursor session: the operations of `Spec/EliasFano` run on the real cursor -/

open EFSpec in
/-- One operation on the model cursor: new state and the operation's return value. -/
def stepOp (R : Nat) (ef : EliasFano) (c : Cursor) : Op → Res (Cursor × Option (Option Nat))
  | .advanceOne => (advanceOne ef c).map fun (c', r) => (c', some r)
  | .advanceBy k => (advanceBy R ef c k).map fun (c', r) => (c', some r)
  | .seek i => (seek R ef c i).map fun (c', r) => (c', some r)
  | .cursorFrom i => (cursorFrom R ef i).map fun c' => (c', none)
  | .cursor => some (cursor ef, none)
  | .current => (current ef c).map fun r => (c, some r)
  | .index => some (c, none)
  | .isExhausted => some (c, none)

/-- The getters observed after an operation. -/
def observe (ef : EliasFano) (c : Cursor) (ret : Option (Option Nat)) : Res EFSpec.Obs :=
  (current ef c).map fun cur => { ret := ret, cur := cur, idx := index c, exh := isExhausted ef c }

/-- Run an operation list on the model cursor, observing after every operation. -/
def run (R : Nat) (ef : EliasFano) : Cursor → List EFSpec.Op → Res (List EFSpec.Obs)
  | _, [] => some []
  | c, op :: ops =>
    match stepOp R ef c op with
    | none => none
    | some (c', r) =>
      match observe ef c' r with
      | none => none
      | some o =>
        match run R ef c' ops with
        | none => none
        | some os => some (o :: os)

end SV.EF
