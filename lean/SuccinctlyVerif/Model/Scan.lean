/-
Model/Scan — the shared block-skipping select scan (`src/bits/scan.rs`), parametric in the block
size, the prologue length and the per-word popcount function.
-/
import SuccinctlyVerif.Generated.Common
namespace SV

/-- `scan_scalar(words, remaining)`: offset relative to the start of `words`. -/
def scanScalar (pc : BitVec 64 → Nat) : List (BitVec 64) → Nat → Nat → Option (Nat × Nat)
  | [], _, _ => none
  | w :: ws, off, rem =>
    if pc w > rem then some (off, rem) else scanScalar pc ws (off + 1) (rem - pc w)

/-- `scan_select_scalar`. -/
def scanSelectScalar (pc : BitVec 64 → Nat) (words : List (BitVec 64)) (start rem : Nat) :
    Option (Nat × Nat) :=
  if start ≥ words.length then none else scanScalar pc (words.drop start) start rem

/-- The block loop of `scan_select`: `ws` is `words[idx..]`. -/
def scanBlocks (pc : BitVec 64 → Nat) (B : Nat) : Nat → List (BitVec 64) → Nat → Nat → Option (Nat × Nat)
  | 0, ws, idx, rem => scanScalar pc ws idx rem
  | fuel + 1, ws, idx, rem =>
    if B ≤ ws.length then
      let block := ws.take B
      let total := (block.map pc).sum
      if total > rem then scanScalar pc block idx rem
      else scanBlocks pc B fuel (ws.drop B) (idx + B) (rem - total)
    else scanScalar pc ws idx rem

/-- `scan_select(words, start_word, remaining)` with `BLOCK = B`, `PROLOGUE = P`. -/
def scanSelectWith (pc : BitVec 64 → Nat) (B P : Nat) (words : List (BitVec 64)) (start rem : Nat) :
    Option (Nat × Nat) :=
  if start ≥ words.length then none
  else
    let ws := words.drop start
    let pro := ws.take P
    -- prologue: scalar over at most P words
    match scanScalar pc pro start rem with
    | some r => some r
    | none =>
      let rem' := rem - (pro.map pc).sum
      scanBlocks pc B (ws.length) (ws.drop P) (start + pro.length) rem'

def scanSelect (pc : BitVec 64 → Nat) := scanSelectWith pc Gen.SCAN_BLOCK Gen.SCAN_PROLOGUE

end SV
