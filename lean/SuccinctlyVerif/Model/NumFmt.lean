/-
Model/NumFmt — executable model of succinctly's number printers (C10), over strings = `List Char`.

Follows the Rust line by line:
  * `src/yaml/light.rs`: `write_i64`, `format_float_with_fraction`, `format_float_yq_with`,
    `format_float_yq`, `format_float_yq_yaml`, `format_float_yq_yaml_nested`;
  * `src/yaml/scalar.rs`: `resolve_plain` (kind only), `needs_explicit_float_tag`;
  * `src/jq/value.rs`: `parse_i64_or_f64`, `strip_insignificant_leading_zero_and_plus`,
    `format_number_jq_compat` with `strip_leading_sign`, `parse_literal_exponent`, `split_mantissa`,
    `normalize_extreme_literal_mantissa`, `full_mantissa_if_capped`, `format_shifted_mantissa`,
    `format_positive_shifted_plain`, `try_positive_shifted_plain`, `format_near_zero_literal`,
    `format_overflow_literal_mantissa`, `assemble_scientific*`, `OwnedValue::from_number_bytes`,
    the number arms of `to_json`;
  * `src/json/validate.rs`: `is_valid_number` (= `Dec.isJsonNumber`), `strip_redundant_leading_zeros`.

No floats: wherever the Rust code holds an `f64` the model holds either the two strings `core`
prints for it (`{}` and `{:e}`, passed in by the harness) or, for a parsed literal, its exact
decimal value classified against the IEEE-754 binary64 round-to-nearest-even boundaries
(`classify`: rounds to zero / finite non-zero / overflows to infinity).  `(s, exp_pos)` pairs of the
Rust code are carried as the two slices `raw = s[..exp_pos]`, `expText = s[exp_pos+1..]`.
-/
import SuccinctlyVerif.Spec.Dec
namespace SV.NumFmt
open SV.Dec

abbrev Str := List Char

/-! ### `core` string helpers -/

/-- `str::split_once(c)`. -/
def splitOnce (c : Char) (s : Str) : Option (Str × Str) :=
  match s.dropWhile (· != c) with
  | [] => none
  | _ :: b => some (s.takeWhile (· != c), b)

/-- `s.trim_start_matches('0')`. -/
def trimStartZeros (s : Str) : Str := s.dropWhile (· == '0')

/-- decimal digits of a natural (`Display` of an unsigned integer). -/
def natDigits (n : Nat) : Str :=
  if _h : n < 10 then [digitChar n] else natDigits (n / 10) ++ [digitChar (n % 10)]
termination_by n
decreasing_by omega

/-- `Display` of a signed integer. -/
def intDigits (n : Int) : Str := if n < 0 then '-' :: natDigits n.natAbs else natDigits n.natAbs

/-- Rust `FromStr` for a signed integer type with range `lo..=hi`: optional `+`/`-`, at least one
digit, nothing else, value in range. -/
def parseRustInt (lo hi : Int) (s : Str) : Option Int :=
  match readInt s with
  | none => none
  | some v => if lo ≤ v ∧ v ≤ hi then some v else none

def I64_MIN : Int := -(2 ^ 63)
def I64_MAX : Int := 2 ^ 63 - 1
def I128_MIN : Int := -(2 ^ 127)
def I128_MAX : Int := 2 ^ 127 - 1

def parseI64 (s : Str) : Option Int := parseRustInt I64_MIN I64_MAX s

/-! ### `write_i64` (src/yaml/light.rs) -/

/-- the `while n > 0 { i -= 1; buf[i] = b'0' + n % 10; n /= 10 }` loop over a buffer with `room`
free bytes; `none` = index underflow (panic). -/
def writeI64Loop : Nat → Nat → Str → Option Str
  | _, 0, acc => some acc
  | 0, _ + 1, _ => none
  | room + 1, n + 1, acc => writeI64Loop room ((n + 1) / 10) (digitChar ((n + 1) % 10) :: acc)

/-- `write_i64(output, n)` for `n` in the `i64` range; `none` = panic. -/
def writeI64 (n : Int) : Option Str :=
  if n == 0 then some ['0']
  else if n < 0 then
    if n == I64_MIN then some ('-' :: "9223372036854775808".toList)
    else (writeI64Loop 20 (-n).toNat []).map ('-' :: ·)
  else writeI64Loop 20 n.toNat []

/-! ### exact classification of a decimal against binary64 (stands in for `str::parse::<f64>`) -/

inductive FClass | err | nan | inf | zero | fin
  deriving DecidableEq, Repr

def FClass.name : FClass → String
  | .err => "err" | .nan => "nan" | .inf => "inf" | .zero => "zero" | .fin => "fin"

/-- smallest real that rounds to `+∞`: the midpoint `(2^54 − 1)·2^970` between `f64::MAX` and `2^1024`
(ties go to the even mantissa, i.e. up). -/
def INF_THRESHOLD : Nat := (2 ^ 54 - 1) * 2 ^ 970

/-- `digitsVal` by divide and conquer (sub-quadratic on 100 000-digit mantissas); equal to
`digitsVal` (`Proof/NumFmt.digitsValFast_eq`). -/
def digitsValFast : Nat → Str → Nat
  | 0, l => digitsVal l
  | f + 1, l =>
    if l.length ≤ 64 then digitsVal l
    else
      let h := l.length / 2
      digitsValFast f (l.take h) * 10 ^ (l.length - h) + digitsValFast f (l.drop h)

/-- Classify `sig·10^exp` (`sig` = the significant digits, no leading zero): rounds to zero iff
`≤ 2^-1075` (half the least subnormal; the tie goes to the even mantissa 0), to infinity iff
`≥ INF_THRESHOLD`.  The two shortcuts avoid building `10^|exp|` for astronomically large exponents. -/
def classifyMag (sig : Str) (exp : Int) : FClass :=
  if sig.isEmpty then .zero
  else
    let p : Int := sig.length + exp            -- 10^(p-1) ≤ value < 10^p
    if p ≤ -324 then .zero
    else if p ≥ 310 then .inf
    else
      let mant := digitsValFast 64 sig
      if exp ≥ 0 then
        if mant * 10 ^ exp.toNat ≥ INF_THRESHOLD then .inf else .fin
      else
        let q := 10 ^ (-exp).toNat
        if mant ≥ INF_THRESHOLD * q then .inf
        else if mant * 2 ^ 1075 ≤ q then .zero
        else .fin

def lower (s : Str) : Str := s.map Char.toLower

/-- `s.parse::<f64>()`: `err` if it fails, else which kind of double results. -/
def classify (s : Str) : FClass :=
  match decParts s with
  | some p => classifyMag (trimStartZeros (p.ip ++ p.fp)) (p.expVal - (p.fp.length : Int))
  | none =>
    let w := lower (stripSign s).2
    if w == "inf".toList || w == "infinity".toList then .inf
    else if w == "nan".toList then .nan
    else .err

/-- `value.is_sign_negative()` of a successfully parsed literal. -/
def isNegativeLit (s : Str) : Bool := (stripSign s).1

/-! ### `parse_i64_or_f64` (src/jq/value.rs) -/

inductive NumRepr
  | int (v : Int)
  | float (c : FClass)     -- the double, known only up to its class
  deriving DecidableEq, Repr

def parseI64OrF64 (s : Str) : Option NumRepr :=
  match parseI64 s with
  | some i => some (.int i)
  | none =>
    match classify s with
    | .err => none
    | c => some (.float c)

/-! ### `format_float_*` (src/yaml/light.rs); `disp` = `format!("{f}")`, `sci` = `format!("{f:e}")` -/

def formatFloatWithFraction (disp : Str) : Str :=
  if disp.contains '.' then disp else disp ++ ['.', '0']

/-- `format!("{:02}", n)`. -/
def pad2 (n : Nat) : Str :=
  let d := natDigits n
  if d.length < 2 then '0' :: d else d

/-- `format_float_yq_with`; `ordinary` is the already evaluated `ordinary_magnitude(f)`;
`none` = one of the two `.expect`s panics. -/
def formatFloatYqWith (ordinary sci : Str) : Option Str :=
  match splitOnce 'e' sci with
  | none => none
  | some (mantissa, expStr) =>
    match parseRustInt (-(2 ^ 31)) (2 ^ 31 - 1) expStr with
    | none => none
    | some exp =>
      if -4 ≤ exp ∧ exp < 6 then some ordinary
      else some (mantissa ++ 'e' :: (if exp < 0 then '-' else '+') :: pad2 exp.natAbs)

def formatFloatYq (disp sci : Str) : Option Str := formatFloatYqWith (formatFloatWithFraction disp) sci
def formatFloatYqYaml (disp sci : Str) : Option Str := formatFloatYqWith disp sci

/-! ### `resolve_plain` (src/yaml/scalar.rs), kind only -/

inductive YKind | null | bool | int | float | str
  deriving DecidableEq, Repr

def parseFloatKind (s : Str) : YKind :=
  match classify s with
  | .zero | .fin => .float
  | _ => .str

def parseIntOrFloatKind (s : Str) : YKind :=
  match parseI64 s with
  | some _ => .int
  | none => parseFloatKind s

def radixDigit (radix : Nat) (c : Char) : Option Nat :=
  let v : Option Nat :=
    if c.isDigit then some (c.toNat - 48)
    else if 'a' ≤ c ∧ c ≤ 'z' then some (c.toNat - 97 + 10)
    else if 'A' ≤ c ∧ c ≤ 'Z' then some (c.toNat - 65 + 10)
    else none
  match v with
  | some d => if d < radix then some d else none
  | none => none

def parseRadixKind (digits : Str) (radix : Nat) : YKind :=
  match digits with
  | [] => .str
  | '+' :: _ => .str
  | '-' :: _ => .str
  | _ =>
    let r := digits.foldl (fun (acc : Option Nat) c =>
      match acc, radixDigit radix c with
      | some a, some d => some (a * radix + d)
      | _, _ => none) (some 0)
    match r with
    | some v => if (v : Int) ≤ I64_MAX then .int else .str
    | none => .str

def kw (b : Bool) (k : YKind) : YKind := if b then k else .str

def resolvePlainKind (s : Str) : YKind :=
  let str := String.ofList s
  match s with
  | [] => .null
  | 'n' :: _ => kw (str == "null") .null
  | 'N' :: _ => kw (str == "Null" || str == "NULL") .null
  | '~' :: _ => kw (s.length == 1) .null
  | 't' :: _ => kw (str == "true") .bool
  | 'T' :: _ => kw (str == "True" || str == "TRUE") .bool
  | 'f' :: _ => kw (str == "false") .bool
  | 'F' :: _ => kw (str == "False" || str == "FALSE") .bool
  | '.' :: _ =>
    if str == ".inf" || str == ".Inf" || str == ".INF" || str == ".nan" || str == ".NaN" || str == ".NAN"
    then .float else parseFloatKind s
  | c :: rest =>
    if c == '+' || c == '-' then
      match rest with
      | '.' :: _ =>
        if str == "+.inf" || str == "+.Inf" || str == "+.INF" || str == "-.inf" || str == "-.Inf" || str == "-.INF"
        then .float else parseFloatKind s
      | d :: _ => if d.isDigit then parseIntOrFloatKind s else .str
      | [] => .str
    else if c.isDigit then
      match s with
      | '0' :: 'x' :: d :: ds => parseRadixKind (d :: ds) 16
      | '0' :: 'o' :: d :: ds => parseRadixKind (d :: ds) 8
      | _ => parseIntOrFloatKind s
    else .str

def needsExplicitFloatTag (s : Str) : Bool := resolvePlainKind s != .float

def formatFloatYqYamlNested (disp sci : Str) : Option Str :=
  (formatFloatYqYaml disp sci).map fun sp =>
    if needsExplicitFloatTag sp then "!!float ".toList ++ sp else sp

/-! ### `format_number_jq_compat` and helpers (src/jq/value.rs) -/

/-- `match int_part.trim_start_matches('0') { "" => "0", trimmed => trimmed }`. -/
def canonInt (ip : Str) : Str :=
  match trimStartZeros ip with
  | [] => ['0']
  | t => t

/-- `strip_insignificant_leading_zero_and_plus`. -/
def stripInsignificant (s : Str) : Str :=
  let (negative, rest) := stripSign s
  let sign : Str := if negative then ['-'] else []
  match splitOnce '.' rest with
  | some (i, f) => sign ++ canonInt i ++ '.' :: f
  | none => sign ++ canonInt rest

inductive ExpParse
  | exact (v : Int)
  | saturated (v : Int)
  deriving DecidableEq, Repr

def ExpParse.value : ExpParse → Int
  | .exact v => v
  | .saturated v => v

def ExpParse.isSaturated : ExpParse → Bool
  | .exact _ => false
  | .saturated _ => true

/-- `parse_literal_exponent`. -/
def parseLiteralExponent (t : Str) : ExpParse :=
  match parseRustInt I128_MIN I128_MAX t with
  | some v => .exact v
  | none => .saturated (if (stripSign t).1 then I128_MIN else I128_MAX)

def checkedI128 (r : Int) : Option Int := if I128_MIN ≤ r ∧ r ≤ I128_MAX then some r else none

/-- `split_mantissa(s, exp_pos)` on `raw = s[..exp_pos]`. -/
def splitMantissa (raw : Str) : Str × Str :=
  let m := (stripSign raw).2
  match splitOnce '.' m with
  | some p => p
  | none => (m, [])

structure NormMant where
  mantissaStr : Str
  newExp : ExpParse
  digitCount : Int
  deriving Repr

/-- the common tail of `normalize_extreme_literal_mantissa` after `(shift, leading, rest, digit_count)`. -/
def normFinish (expText : Str) (shift : Int) (leading : Char) (rest : Str) (digitCount : Int) : NormMant :=
  let parsedExp := parseLiteralExponent expText
  let (newExpValue, shiftSaturated) : Int × Bool :=
    match checkedI128 (parsedExp.value + shift) with
    | some v => (v, false)
    | none => (if shift < 0 then I128_MIN else I128_MAX, true)
  let newExp := if parsedExp.isSaturated || shiftSaturated then ExpParse.saturated newExpValue
                else ExpParse.exact newExpValue
  let mantissaStr := if rest.isEmpty then [leading] else leading :: '.' :: rest
  { mantissaStr, newExp, digitCount }

/-- `normalize_extreme_literal_mantissa(s, exp_pos, mantissa_digit_cap)`; `.error n` = `Err(frac_len)`. -/
def normalizeExtreme (raw expText : Str) (cap : Option Nat) : Except Int NormMant :=
  let (intPart0, fracPart) := splitMantissa raw
  let intPart := trimStartZeros intPart0
  match intPart with
  | [] =>
    match fracPart.dropWhile (· == '0') with
    | [] => .error fracPart.length
    | lead :: after =>
      let k := (fracPart.takeWhile (· == '0')).length
      let digitCount : Int := after.length + 1
      let rest := match cap with
        | some cap => after.take (min after.length cap)
        | none => after
      .ok (normFinish expText (-((k : Int) + 1)) lead rest digitCount)
  | lead :: afterLeading =>
    let digitCount : Int := intPart.length + fracPart.length
    let rest := match cap with
      | some cap =>
        if afterLeading.length ≥ cap then afterLeading.take cap
        else afterLeading ++ fracPart.take (min fracPart.length (cap - afterLeading.length))
      | none => afterLeading ++ fracPart
    .ok (normFinish expText ((intPart.length : Int) - 1) lead rest digitCount)

def UNREACHABLE : Str := "<unreachable!>".toList

/-- `full_mantissa_if_capped`. -/
def fullMantissaIfCapped (cap : Nat) (raw expText mantissaStr : Str) (digitCount : Int) : Str :=
  if digitCount > (cap : Int) + 1 then
    match normalizeExtreme raw expText none with
    | .ok n => n.mantissaStr
    | .error _ => UNREACHABLE
  else mantissaStr

/-- `join_sign_digits_with_optional_point`. -/
def joinSignDigits (sign before after : Str) : Str :=
  if after.isEmpty then sign ++ before else sign ++ before ++ '.' :: after

/-- `mantissa_str.split_once('.').unwrap_or((mantissa_str, ""))`. -/
def splitPoint (m : Str) : Str × Str :=
  match splitOnce '.' m with
  | some p => p
  | none => (m, [])

/-- `format_shifted_mantissa`. -/
def formatShiftedMantissa (sign mantissaStr : Str) (shiftedExp : Int) : Str :=
  let (leading, rest) := splitPoint mantissaStr
  if shiftedExp == 0 then joinSignDigits sign leading rest
  else
    let zeroPad := (-shiftedExp - 1).toNat
    sign ++ '0' :: '.' :: List.replicate zeroPad '0' ++ leading ++ rest

/-- `format_positive_shifted_plain`. -/
def formatPositiveShiftedPlain (sign mantissaStr : Str) (shiftedExp digitCount : Int) : Option Str :=
  if shiftedExp ≥ digitCount then none
  else
    let (leading, rest) := splitPoint mantissaStr
    let digits := leading ++ rest
    if shiftedExp + 1 < 0 ∨ shiftedExp + 1 ≥ 2 ^ 64 then none
    else
      let splitPos := (shiftedExp + 1).toNat
      if splitPos > digits.length then none
      else some (joinSignDigits sign (digits.take splitPos) (digits.drop splitPos))

/-- `try_positive_shifted_plain`. -/
def tryPositiveShiftedPlain (cap : Nat) (sign raw expText : Str) (shiftedExp digitCount : Int)
    (mantissaStr : Str) : Option Str :=
  if shiftedExp ≥ digitCount then none
  else
    formatPositiveShiftedPlain sign (fullMantissaIfCapped cap raw expText mantissaStr digitCount)
      shiftedExp digitCount

/-- `assemble_scientific_with_sign` with a digit-string magnitude. -/
def assembleScientificWithSign (sign mantissaStr : Str) (negativeExp : Bool) (mag : Str) : Str :=
  sign ++ mantissaStr ++ 'E' :: (if negativeExp then '-' else '+') :: mag

/-- `assemble_scientific`. -/
def assembleScientific (sign mantissaStr : Str) (exp : Int) : Str :=
  assembleScientificWithSign sign mantissaStr (exp < 0) (natDigits exp.natAbs)

/-- `assemble_scientific_from_raw_exponent`. -/
def assembleScientificFromRawExponent (sign mantissaStr rawExpText : Str) : Str :=
  let (negative, digits) := stripSign rawExpText
  let digits := trimStartZeros digits
  let digits := if digits.isEmpty then ['0'] else digits
  assembleScientificWithSign sign mantissaStr negative digits

/-- `infinite_float_preview_text`. -/
def infiniteFloatPreviewText (negative : Bool) : Str :=
  if negative then "-1.7976931348623157e+308".toList else "1.7976931348623157e+308".toList

def signStr (negative : Bool) : Str := if negative then ['-'] else []

/-- `format_overflow_literal_mantissa`. -/
def formatOverflowLiteralMantissa (cap : Nat) (raw expText : Str) (negative : Bool) : Str :=
  let sign := signStr negative
  match normalizeExtreme raw expText (some cap) with
  | .error _ => UNREACHABLE
  | .ok n =>
    let newExp := n.newExp.value
    if newExp.natAbs ≥ 1000000000 then infiniteFloatPreviewText negative
    else
      match tryPositiveShiftedPlain cap sign raw expText newExp n.digitCount n.mantissaStr with
      | some plain => plain
      | none => assembleScientific sign n.mantissaStr newExp

/-- `format_near_zero_literal`. -/
def formatNearZeroLiteral (cap : Nat) (raw expText : Str) (negative : Bool) : Str :=
  let sign := signStr negative
  match normalizeExtreme raw expText (some cap) with
  | .ok n =>
    match n.newExp with
    | .saturated _ => assembleScientificFromRawExponent sign n.mantissaStr expText
    | .exact e => assembleScientific sign n.mantissaStr e
  | .error fracLen =>
    let parsedExp := parseLiteralExponent expText
    let (v, subSaturated) : Int × Bool :=
      match checkedI128 (parsedExp.value - fracLen) with
      | some v => (v, false)
      | none => (I128_MIN, true)
    if parsedExp.isSaturated || subSaturated then
      assembleScientificFromRawExponent sign ['0'] expText
    else if v == 0 then sign ++ ['0']
    else if -6 ≤ v ∧ v < 0 then sign ++ '0' :: '.' :: List.replicate (-v).toNat '0'
    else assembleScientific sign ['0'] v

def isExpMarker (c : Char) : Bool := c == 'e' || c == 'E'

/-- The exponent-notation part of `format_number_jq_compat_with` once `s.parse::<f64>()` succeeded
with class `cls`; `raw`/`expText` are the text before/after the first `e|E`; `preview` =
`cap_scientific_mantissa` (true only for `format_number_jq_compat_preview`). -/
def formatExpLiteral (cap : Nat) (preview : Bool) (cls : FClass) (negative : Bool) (raw expText : Str) : Str :=
  match cls with
  | .inf | .nan => formatOverflowLiteralMantissa cap raw expText negative
  | .zero => formatNearZeroLiteral cap raw expText negative
  | _ =>
    match normalizeExtreme raw expText (some cap) with
    | .error _ => UNREACHABLE
    | .ok n =>
      let shiftedExp := n.newExp.value
      let sign := signStr negative
      if shiftedExp == 0 ∨ (-6 ≤ shiftedExp ∧ shiftedExp ≤ -1) then
        formatShiftedMantissa sign (fullMantissaIfCapped cap raw expText n.mantissaStr n.digitCount) shiftedExp
      else
        let plain :=
          if shiftedExp > 0 then
            tryPositiveShiftedPlain cap sign raw expText shiftedExp n.digitCount n.mantissaStr
          else none
        match plain with
        | some p => p
        | none =>
          if preview then assembleScientific sign n.mantissaStr shiftedExp
          else
            assembleScientific sign (fullMantissaIfCapped cap raw expText n.mantissaStr n.digitCount) shiftedExp

/-- `format_number_jq_compat_with(raw, cap_scientific_mantissa)` for valid UTF-8 input;
`cap` = `MAX_RENDERED_MANTISSA_DIGITS`. -/
def formatNumberJqCompatWith (cap : Nat) (preview : Bool) (s : Str) : Str :=
  let hasExp := s.contains 'e' || s.contains 'E'
  if !hasExp then stripInsignificant s
  else
    match classify s with
    | .err => s
    | cls =>
      let raw := s.takeWhile (fun c => !isExpMarker c)
      let expText := (s.dropWhile (fun c => !isExpMarker c)).drop 1
      formatExpLiteral cap preview cls (isNegativeLit s) raw expText

/-- `format_number_jq_compat(raw)`: real output, never truncates a finite literal. -/
def formatNumberJqCompat (cap : Nat) (s : Str) : Str := formatNumberJqCompatWith cap false s

/-- `format_number_jq_compat_preview(raw)`: bounded error-message previews. -/
def formatNumberJqCompatPreview (cap : Nat) (s : Str) : Str := formatNumberJqCompatWith cap true s

/-! ### `OwnedValue::from_number_bytes` → `to_json` -/

/-- `json::validate::strip_redundant_leading_zeros`. -/
def stripRedundantLeadingZeros (s : Str) : Option Str :=
  let (sign, rest) : Str × Str := match s with
    | '-' :: r => (['-'], r)
    | r => ([], r)
  let rec go : Nat → Str → Str
    | 0, r => r
    | f + 1, r =>
      match r with
      | '0' :: d :: t => if d.isDigit then go f (d :: t) else r
      | _ => r
  match rest with
  | '0' :: d :: _ => if d.isDigit then some (sign ++ go rest.length rest) else none
  | _ => none

inductive OwnedNum
  | null
  | int (v : Int)
  | float (c : FClass)
  | literal (r : NumRepr) (text : Str)
  deriving Repr

def plainNumberFromRepr : Option NumRepr → OwnedNum
  | some (.int i) => .int i
  | some (.float c) => .float c
  | none => .null

def fromNumberLiteral (s : Str) : OwnedNum :=
  match parseI64OrF64 s with
  | some r => .literal r s
  | none => .null

/-- `OwnedValue::from_number_bytes` (valid UTF-8 input). -/
def fromNumberBytes (s : Str) : OwnedNum :=
  if s == "9e999e999".toList then .float .nan
  else if s == "-8e999e999".toList then .float .inf
  else if s == "8e999e999".toList then .float .inf
  else if isJsonNumber s then fromNumberLiteral s
  else
    let prefixed : Option Str := match s with
      | '.' :: _ => some ('0' :: s)
      | '-' :: '.' :: t => some ('-' :: '0' :: '.' :: t)
      | _ => none
    if (match prefixed with | some p => isJsonNumber p | none => false) then fromNumberLiteral s
    else if (match stripRedundantLeadingZeros s with | some st => isJsonNumber st | none => false) then
      fromNumberLiteral s
    else plainNumberFromRepr (parseI64OrF64 s)

/-- kind tag printed by the driver/harness. -/
def OwnedNum.kind : OwnedNum → String
  | .null => "null"
  | .int _ => "int"
  | .float .nan => "nan"
  | .float .inf => "inf"
  | .float _ => "float"
  | .literal (.int _) _ => "lit-int"
  | .literal (.float _) _ => "lit-float"

/-- number arms of `OwnedValue::to_json`; `negative` = sign of the source text (for ±∞),
`disp` = `format!("{f}")` of the parsed double for the plain finite `Float` arm. -/
def toJsonNum (cap : Nat) (negative : Bool) (disp : Str) : OwnedNum → Str
  | .null => "null".toList
  | .int v => intDigits v
  | .float .nan => "null".toList
  | .float .inf => infiniteFloatPreviewText negative
  | .float _ => disp
  | .literal (.float .nan) _ => "null".toList
  | .literal _ t => formatNumberJqCompat cap t

end SV.NumFmt
